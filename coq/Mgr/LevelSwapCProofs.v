(** * C08, part B' — theorems about [level_swap_c] (Mgr/LevelSwapC.v), BCDD kind

    The BCDD counterparts of the theorems of Mgr/LevelSwapProofs.v: for a
    well-formed BCDD table [s] and adjacent levels [i], [i+1] the result of
    [level_swap_c s i] is well-formed, the maps are exchanged, handles and the
    other levels are untouched, and every edge stored before and after denotes
    the same function (over levels with the two entries exchanged; over the
    variables unchanged). *)

From Coq Require Import List NArith PArith Bool Arith Lia FMapPositive.
From OxiVerif Require Import DD.Table DD.TableProofs DD.CanonBcdd Mgr.SortOrder Mgr.SortOrderProofs
  Mgr.LevelSwap Mgr.LevelSwapBase Mgr.LevelSwapInv Mgr.LevelSwapSem Mgr.LevelSwapProofs
  Mgr.LevelSwapC Mgr.LevelSwapCInv Mgr.LevelSwapCWF Mgr.LevelSwapCSem.
Import ListNotations.

Lemma sem_edge_bcdd : forall s e c, s_kind s = KBcdd ->
  sem_edge s e c = option_map (fun b : bool => if b then 1%N else 0%N) (valc s e c).
Proof. intros s e c Hk. unfold sem_edge, valc. rewrite Hk. reflexivity. Qed.

Section SweepC.
Variable s : snap.
Variable i : nat.
Hypothesis H : WF s.
Hypothesis Hk : s_kind s = KBcdd.
Hypothesis Hi : S i < nlevels s.

Let s1 := level_swap_core_c s i.
Let s2 := level_swap_c s i.
Let H1 : WF s1 := core_wf_c s i H Hk Hi.

(** the nodes that [sweep] removes *)
Definition removed_c : list positive :=
  filter (fun id => negb (referenced (s_nodes s1) (s_handles s1) id)) (dropped_children s i).

Lemma find2_c : forall id,
  find_node s2 id = if existsb (Pos.eqb id) removed_c then None else find_node s1 id.
Proof.
  intros id. unfold find_node, s2, level_swap_c. cbn [s_nodes]. unfold sweep.
  rewrite find_remove_list. reflexivity.
Qed.

Lemma find2_sub_c : forall id nd, find_node s2 id = Some nd -> find_node s1 id = Some nd.
Proof. intros id nd E. rewrite find2_c in E. destruct (existsb (Pos.eqb id) removed_c); [discriminate | exact E]. Qed.

Lemma find2_keep_c : forall id nd, find_node s1 id = Some nd -> ~ In id removed_c -> find_node s2 id = Some nd.
Proof.
  intros id nd E Hn. rewrite find2_c. destruct (existsb (Pos.eqb id) removed_c) eqn:X; [|exact E].
  exfalso. apply Hn. apply existsb_pos_In. exact X.
Qed.

Lemma dropped_lower_c : forall c, In c (dropped_children s i) -> rlevel s (RN c) = S i.
Proof.
  intros c Hin. unfold dropped_children in Hin. apply in_flat_map in Hin.
  destruct Hin as [id [_ Hin]]. destruct (find_node s id) as [nd|]; [|destruct Hin].
  apply in_flat_map in Hin. destruct Hin as [e [_ Hin]].
  destruct (eref e) as [t|c']; [destruct Hin|].
  destruct (Nat.eqb_spec (rlevel s (RN c')) (S i)) as [Q|Q]; [|destruct Hin].
  destruct Hin as [<-|[]]. exact Q.
Qed.

Lemma removed_spec_c : forall id, In id removed_c ->
  referenced (s_nodes s1) (s_handles s1) id = false /\ rlevel s (RN id) = S i.
Proof.
  intros id Hin. unfold removed_c in Hin. apply filter_In in Hin. destruct Hin as [A B].
  apply negb_true_iff in B. split; [exact B | apply dropped_lower_c; exact A].
Qed.

(** whatever a stored node or a handle refers to is not removed_c *)
Lemma referenced_kept_c : forall id, referenced (s_nodes s1) (s_handles s1) id = true -> ~ In id removed_c.
Proof. intros id R Hin. destruct (removed_spec_c id Hin) as [A _]. congruence. Qed.

Lemma child_survives_c : forall id nd e, find_node s2 id = Some nd -> In e (nchildren nd) ->
  ref_ok s2 (eref e).
Proof.
  intros id nd e E He. apply find2_sub_c in E.
  destruct (wf_child s1 H1 id nd e E He) as [Ok _].
  destruct (eref e) as [t|c] eqn:Er; [exact Ok|].
  destruct Ok as [cn Ec]. exists cn. apply find2_keep_c; [exact Ec|].
  apply referenced_kept_c. apply referenced_spec. left. exists id, nd, e. auto.
Qed.

Lemma handle_survives_c : forall h, In h (s_handles s) -> ref_ok s2 (eref (snd h)).
Proof.
  intros h Hh. destruct (wf_handles s1 H1 h Hh) as [Ok _].
  destruct (eref (snd h)) as [t|c] eqn:Er; [exact Ok|].
  destruct Ok as [cn Ec]. exists cn. apply find2_keep_c; [exact Ec|].
  apply referenced_kept_c. apply referenced_spec. right. exists h. auto.
Qed.

Lemma nlevels2_c : nlevels s2 = nlevels s.
Proof. unfold nlevels, s2, level_swap_c. cbn [s_l2v]. apply (LevelSwapCWF.nlevels1 s i). Qed.

Lemma rlevel2_c : forall r, ref_ok s2 r -> rlevel s2 r = rlevel s1 r.
Proof.
  intros [t|id] Ok.
  - simpl. rewrite nlevels2_c. symmetry. apply (LevelSwapCWF.nlevels1 s i).
  - destruct Ok as [nd E]. simpl. rewrite E, (find2_sub_c id nd E). reflexivity.
Qed.

Lemma ref_ok2_1_c : forall r, ref_ok s2 r -> ref_ok s1 r.
Proof. intros [t|id] Ok; [exact Ok|]. destruct Ok as [nd E]. exists nd. apply find2_sub_c. exact E. Qed.

Theorem sweep_wf_c : WF s2.
Proof.
  constructor.
  - apply (wf_perm_len s1 H1).
  - apply (wf_perm_v2l s1 H1).
  - apply (wf_perm_l2v s1 H1).
  - intros id nd E. apply (wf_arity s1 H1 id nd (find2_sub_c id nd E)).
  - intros id nd E. apply (wf_stored s1 H1 id nd (find2_sub_c id nd E)).
  - intros id nd E. rewrite nlevels2_c, <- (LevelSwapCWF.nlevels1 s i). apply (wf_level s1 H1 id nd (find2_sub_c id nd E)).
  - intros id nd e E He. pose proof (child_survives_c id nd e E He) as Ok. split; [exact Ok|].
    rewrite (rlevel2_c _ Ok). apply (wf_child s1 H1 id nd e (find2_sub_c id nd E) He).
  - intros id nd E. apply (wf_reduced s1 H1 id nd (find2_sub_c id nd E)).
  - intros Hnb id nd e E He. apply (wf_tags s1 H1 Hnb id nd e (find2_sub_c id nd E) He).
  - intros id1 id2 n1 n2 E1 E2. apply (wf_unique s1 H1 id1 id2 n1 n2 (find2_sub_c _ _ E1) (find2_sub_c _ _ E2)).
  - apply (wf_term_ids s H).
  - apply (wf_term_vals s H).
  - intros h Hh. split; [apply handle_survives_c; exact Hh|]. apply (wf_handles s H h Hh).
Qed.

(** removing unreferenced nodes changes no interpretation *)
Lemma sweep_sem_c : forall f e c, ref_ok s2 (eref e) -> semc s2 f e c = semc s1 f e c.
Proof.
  induction f as [|f IH]; intros e c Ok.
  - destruct (eref e) as [t|id] eqn:Er.
    + rewrite !(semc_T _ _ _ _ t Er). reflexivity.
    + rewrite !(semc_O _ _ _ id Er). reflexivity.
  - destruct (eref e) as [t|id] eqn:Er.
    + rewrite !(semc_T _ _ _ _ t Er). reflexivity.
    + destruct Ok as [nd E]. rewrite !(semc_S _ _ _ _ id Er), E, (find2_sub_c id nd E).
      destruct (nth_error (nchildren nd) (c (nlevel nd))) as [e'|] eqn:He; [|reflexivity].
      rewrite IH; [reflexivity|]. apply (child_survives_c id nd e' E). eapply nth_error_In. exact He.
Qed.

End SweepC.

(** ** the theorems *)

Section TheoremsC.
Variable s : snap.
Variable i : nat.
Hypothesis H : WF s.
Hypothesis Hk : s_kind s = KBcdd.
Hypothesis Hi : S i < nlevels s.

(** (a) well-formedness *)
Theorem level_swap_wf_c : WF (level_swap_c s i).
Proof. apply sweep_wf_c; assumption. Qed.

Theorem level_swap_kind_c : s_kind (level_swap_c s i) = s_kind s.
Proof. reflexivity. Qed.

Theorem level_swap_nlevels_c : nlevels (level_swap_c s i) = nlevels s.
Proof. apply nlevels2_c. Qed.

(** the two maps are those of [s] with the levels [i] and [i+1] exchanged *)
Theorem level_swap_maps_c :
  s_l2v (level_swap_c s i) = swap_adj i (s_l2v s)
  /\ s_v2l (level_swap_c s i) = map (swap_idx i) (s_v2l s)
  /\ (forall l, nth_error (s_l2v (level_swap_c s i)) l = nth_error (s_l2v s) (swap_idx i l))
  /\ (forall v, nth_error (s_v2l (level_swap_c s i)) v = option_map (swap_idx i) (nth_error (s_v2l s) v)).
Proof.
  split; [reflexivity|]. split; [reflexivity|]. split.
  - intros l. apply nth_error_swap_adj. exact Hi.
  - intros v. apply nth_error_map.
Qed.

(** (c) handles *)
Theorem level_swap_handles_c : s_handles (level_swap_c s i) = s_handles s.
Proof. reflexivity. Qed.

Theorem level_swap_handle_ok_c : forall h, In h (s_handles s) -> ref_ok (level_swap_c s i) (eref (snd h)).
Proof. apply handle_survives_c; assumption. Qed.

(** whatever a stored node of the result refers to is stored in the result *)
Theorem level_swap_child_ok_c : forall id nd e,
  find_node (level_swap_c s i) id = Some nd -> In e (nchildren nd) -> ref_ok (level_swap_c s i) (eref e).
Proof. apply child_survives_c; assumption. Qed.

(** the only nodes that disappear: nodes of the old lower level that lost
    their last reference *)
Theorem level_swap_removed_only_c : forall id nd, find_node s id = Some nd ->
  find_node (level_swap_c s i) id = None ->
  nlevel nd = S i /\ In id (dropped_children s i)
  /\ referenced (swap_nodes_c s i) (s_handles s) id = false.
Proof.
  intros id nd E E2. rewrite (find2_c s i) in E2.
  destruct (existsb (Pos.eqb id) (removed_c s i)) eqn:X.
  - apply existsb_pos_In in X. destruct (removed_spec_c s i id X) as [A B].
    simpl in B. rewrite E in B. split; [exact B|]. split; [|exact A].
    unfold removed_c in X. apply filter_In in X. apply X.
  - exfalso. destruct (LevelSwapCWF.old_stays s i H Hk Hi id nd E) as [nd' [E' _]].
    change (find_node (level_swap_core_c s i) id) with (PositiveMap.find id (swap_nodes_c s i)) in E2.
    congruence.
Qed.

(** (d) the other levels are not touched *)
Theorem level_swap_untouched_c : forall id nd, find_node s id = Some nd ->
  nlevel nd <> i -> nlevel nd <> S i -> find_node (level_swap_c s i) id = Some nd.
Proof.
  intros id nd E A B.
  destruct (LevelSwapCWF.old_stays s i H Hk Hi id nd E) as [nd' [E' [[C _]|[[C _]|[_ [_ ->]]]]]]; try contradiction.
  apply find2_keep_c; [exact E'|].
  intros Hin. destruct (removed_spec_c s i id Hin) as [_ L]. simpl in L. rewrite E in L. contradiction.
Qed.

Theorem level_swap_untouched_rev_c : forall id nd, find_node (level_swap_c s i) id = Some nd ->
  nlevel nd <> i -> nlevel nd <> S i -> find_node s id = Some nd.
Proof.
  intros id nd E A B. apply find2_sub_c in E.
  destruct (LevelSwapCWF.find_cases s i H Hk Hi id nd E)
    as [[nd0 [E0 [D ->]]]|[[nd0 [c0 [c1 [e0 [e1 [E0 [D [Hc [-> _]]]]]]]]]|[E0 G]]].
  - destruct (relabel_cases s i nd0) as [[X R]|[[X [_ R]]|[[X R]|[X [Y R]]]]]; rewrite R in *; simpl in *;
      try contradiction; try lia. exact E0.
  - simpl in A. contradiction.
  - destruct G as [G _]. contradiction.
Qed.

(** (b) preservation of the functions, over levels *)
Theorem level_swap_sem_levels_c : forall e c,
  ref_ok s (eref e) -> ref_ok (level_swap_c s i) (eref e) -> choice_ok s c ->
  sem_edge (level_swap_c s i) e (swap_choice i c) = sem_edge s e c.
Proof.
  intros e c Ok Ok2 Hc. rewrite !sem_edge_bcdd by (exact Hk). f_equal.
  unfold valc at 1. rewrite (sweep_sem_c s i H Hk Hi _ _ _ Ok2). rewrite nlevels2_c.
  rewrite <- (LevelSwapCWF.nlevels1 s i).
  apply (core_sem_c s i H Hk Hi (nlevels s) e c Ok Hc). lia.
Qed.

Lemma asg_choice_swap_c : forall a l,
  asg_choice (level_swap_c s i) a l = swap_choice i (asg_choice s a) l.
Proof.
  intros a l. unfold asg_choice, swap_choice.
  change (s_l2v (level_swap_c s i)) with (swap_adj i (s_l2v s)).
  rewrite nth_swap_adj by exact Hi. unfold swap_idx.
  destruct (Nat.eqb l i); [reflexivity|]. destruct (Nat.eqb l (S i)); reflexivity.
Qed.

(** (b) headline: the function over the VARIABLES is unchanged *)
Theorem level_swap_sem_vars_c : forall e a,
  ref_ok s (eref e) -> ref_ok (level_swap_c s i) (eref e) ->
  eval_vars (level_swap_c s i) e a = eval_vars s e a.
Proof.
  intros e a Ok Ok2. unfold eval_vars.
  rewrite <- (level_swap_sem_levels_c e (asg_choice s a) Ok Ok2 (asg_choice_ok s a)).
  rewrite !sem_edge_bcdd by (exact Hk). f_equal. unfold valc.
  apply (semc_ext _ level_swap_wf_c). intros l _. apply asg_choice_swap_c.
Qed.

Theorem level_swap_handles_vars_c : forall h a, In h (s_handles s) ->
  eval_vars (level_swap_c s i) (snd h) a = eval_vars s (snd h) a
  /\ exists v, eval_vars s (snd h) a = Some v.
Proof.
  intros h a Hh. destruct (wf_handles s H h Hh) as [Ok _]. split.
  - apply level_swap_sem_vars_c; [exact Ok | apply level_swap_handle_ok_c; exact Hh].
  - unfold eval_vars. apply (sem_total s H); [exact Ok | apply asg_choice_ok].
Qed.

End TheoremsC.
