(** * C08, part B' — [level_swap_core_c] preserves the function of every edge (BCDD kind)

    The BCDD counterpart of Mgr/LevelSwapSem.v for the complement-edge
    interpreter [semc]: for every edge [e] whose node is stored before the swap
    and every choice function [c], the value of [e] in the new table under [c]
    with the entries of the two levels exchanged is its value in the old table
    under [c]. *)

From Coq Require Import List NArith PArith Bool Arith Lia FMapPositive.
From OxiVerif Require Import DD.Table DD.TableProofs DD.CanonBcdd Mgr.SortOrder Mgr.SortOrderProofs
  Mgr.LevelSwap Mgr.LevelSwapBase Mgr.LevelSwapInv Mgr.LevelSwapSem
  Mgr.LevelSwapC Mgr.LevelSwapCInv Mgr.LevelSwapCWF.
Import ListNotations.

(** the value of an edge with the standard fuel *)
Definition valc (s : snap) (e : edge) (c : nat -> nat) : option bool := semc s (S (nlevels s)) e c.

Lemma valc_term : forall s e c t, eref e = RT t -> valc s e c = Some (negb (etag e)).
Proof. intros s e c t Er. unfold valc. apply (semc_T _ _ _ _ t Er). Qed.

Lemma valc_node : forall s, WF s -> forall e id nd ch c,
  eref e = RN id -> find_node s id = Some nd ->
  nth_error (nchildren nd) (c (nlevel nd)) = Some ch ->
  valc s e c = option_map (xorb (etag e)) (valc s ch c).
Proof.
  intros s H e id nd ch c Er E He. unfold valc.
  rewrite (semc_S _ _ _ _ id Er), E, He.
  destruct (child_nth s H id nd _ ch E He) as [Ok Lt].
  pose proof (wf_level s H id nd E). pose proof (rlevel_le s H (eref ch)).
  rewrite (semc_fuel s H (nlevels s) (S (nlevels s)) ch) by (auto; lia).
  destruct (semc s (S (nlevels s)) ch c); reflexivity.
Qed.

(** complementing the edge complements the value *)
Lemma valc_xtag : forall s e t c, valc s (xtag e t) c = option_map (xorb t) (valc s e c).
Proof.
  intros s e t c. unfold valc. destruct (eref e) as [tm|id] eqn:Er.
  - assert (Er' : eref (xtag e t) = RT tm) by exact Er.
    rewrite (semc_T _ _ _ _ tm Er), (semc_T _ _ _ _ tm Er'). simpl.
    destruct (etag e), t; reflexivity.
  - assert (Er' : eref (xtag e t) = RN id) by exact Er.
    rewrite (semc_S _ _ _ _ id Er), (semc_S _ _ _ _ id Er').
    destruct (find_node s id) as [nd|]; [|reflexivity].
    destruct (nth_error (nchildren nd) (c (nlevel nd))) as [e'|]; [|reflexivity].
    destruct (semc s (nlevels s) e' c) as [b|]; [|reflexivity].
    simpl. destruct (etag e), t, b; reflexivity.
Qed.

Lemma omap_xorb_invol : forall t (x : option bool), option_map (xorb t) (option_map (xorb t) x) = x.
Proof. intros t [b|]; [|reflexivity]. simpl. destruct t, b; reflexivity. Qed.

Section SemC.
Variable s : snap.
Variable i : nat.
Hypothesis H : WF s.
Hypothesis Hk : s_kind s = KBcdd.
Hypothesis Hi : S i < nlevels s.

Let s1 := level_swap_core_c s i.
Let M := swap_nodes_c s i.
Let H1 : WF s1 := core_wf_c s i H Hk Hi.

Notation low := (lowc s i).
Notation isdep := (isdep s i).
Notation rep := (repc i).

(** the result of [reduce] + lookup on the new lower level, evaluated *)
Lemma repc_sem : forall x y e c' b, rep M x y e -> b < 2 -> c' (S i) = b ->
  valc s1 e c' = valc s1 (if Nat.eqb b 0 then x else y) c'.
Proof.
  intros x y e c' b [[A ->]|[A [id [nd [-> [E [L C]]]]]]] Hb Hc'.
  - subst y. destruct (Nat.eqb b 0); reflexivity.
  - set (tg := etag x) in *.
    assert (Hch : nth_error (nchildren nd) (c' (nlevel nd)) = Some (xtag (if Nat.eqb b 0 then x else y) tg)).
    { rewrite L, Hc', C. destruct b as [|[|b]]; [reflexivity | reflexivity | lia]. }
    rewrite (valc_node s1 H1 (mkEdge (RN id) tg) id nd _ c' eq_refl E Hch).
    simpl etag. rewrite valc_xtag. apply omap_xorb_invol.
Qed.

(** a child of a node of the upper level, evaluated: its cofactor w.r.t. the lower level *)
Lemma cofc_sem : forall id nd c cc b2, find_node s id = Some nd -> nlevel nd = i -> In c (nchildren nd) ->
  b2 < 2 -> cc (S i) = b2 -> valc s c cc = valc s (bcofc s (S i) c b2) cc.
Proof.
  intros id nd c cc b2 E Hl Hc Hb Hcc.
  destruct (child_cases_c s i H Hk Hi id nd c E Hl Hc)
    as [[_ [_ Sk]]|[cid [cn [g0 [g1 [Er [Ec [Lc [Cc [_ [_ [_ [_ [B0 B1]]]]]]]]]]]]]].
  - rewrite Sk. reflexivity.
  - assert (Hch : nth_error (nchildren cn) (cc (nlevel cn)) = Some (if Nat.eqb b2 0 then g0 else g1)).
    { rewrite Lc, Hcc, Cc. destruct b2 as [|[|b2]]; [reflexivity | reflexivity | lia]. }
    rewrite (valc_node s H c cid cn _ cc Er Ec Hch).
    destruct b2 as [|[|b2]]; [rewrite B0 | rewrite B1 | lia]; simpl; rewrite valc_xtag; reflexivity.
Qed.

Theorem core_sem_c : forall k e c, ref_ok s (eref e) -> choice_ok s c ->
  nlevels s - rlevel s (eref e) <= k ->
  valc s1 e (swap_choice i c) = valc s e c.
Proof.
  induction k as [k IH] using lt_wf_ind. intros e c Hok Hc Hm.
  destruct (eref e) as [t|id] eqn:Er.
  { rewrite (valc_term s1 e _ t Er), (valc_term s e _ t Er). reflexivity. }
  destruct Hok as [nd E].
  destruct (bc_children s H Hk id nd E) as [c0 [c1 [Hch [Hne _]]]].
  pose proof (wf_level s H id nd E) as Hlv.
  rewrite (rlevel_node s id nd E) in Hm.
  assert (Hb : c (nlevel nd) < 2) by (specialize (Hc (nlevel nd)); rewrite Hk in Hc; exact Hc).
  assert (IH' : forall e', ref_ok s (eref e') -> nlevel nd < rlevel s (eref e') ->
                   valc s1 e' (swap_choice i c) = valc s e' c).
  { intros e' Ok' Lt'. apply (IH (nlevels s - rlevel s (eref e'))); [|exact Ok' | exact Hc | lia].
    pose proof (rlevel_le s H (eref e')). lia. }
  set (cb := if Nat.eqb (c (nlevel nd)) 0 then c0 else c1).
  assert (Hcb : nth_error (nchildren nd) (c (nlevel nd)) = Some cb).
  { rewrite Hch. unfold cb. destruct (c (nlevel nd)) as [|[|b]]; [reflexivity | reflexivity | lia]. }
  assert (Hin : In cb (nchildren nd)) by (eapply nth_error_In; exact Hcb).
  destruct (wf_child s H id nd cb E Hin) as [Okb Ltb].
  rewrite (valc_node s H e id nd cb c Er E Hcb).
  destruct (isdep_dec s i nd) as [D|D].
  - (* the node is rewritten *)
    destruct D as [Dl Dd].
    destruct (specc_dep s i M (swap_nodes_c_spec s i H Hk Hi) id nd E (conj Dl Dd))
      as [d0 [d1 [e0 [e1 [Hd [Hf [R0 R1]]]]]]].
    rewrite Hch in Hd. inversion Hd; subst d0 d1. clear Hd.
    set (b2 := c (S i)).
    assert (Hb2 : b2 < 2) by (unfold b2; specialize (Hc (S i)); rewrite Hk in Hc; exact Hc).
    destruct (dep_lows s i H Hk Hi id nd c0 c1 E (conj Dl Dd) Hch) as [L00 [L10 [L01 L11]]].
    rewrite (cofc_sem id nd cb c b2 E Dl Hin Hb2 eq_refl).
    assert (Hsw : swap_choice i c (S i) = c (nlevel nd)).
    { unfold swap_choice. rewrite swap_idx_Si, Dl. reflexivity. }
    assert (Hsi : swap_choice i c i = b2).
    { unfold swap_choice. rewrite swap_idx_i. reflexivity. }
    set (nn := mkNode i [e0; e1] i (nrc nd)) in *.
    destruct b2 as [|[|b2']] eqn:Eb2; [| |lia].
    + rewrite (valc_node s1 H1 e id nn e0 (swap_choice i c) Er Hf) by (simpl; rewrite Hsi; reflexivity).
      f_equal.
      rewrite (repc_sem _ _ e0 (swap_choice i c) (c (nlevel nd)) R0 Hb Hsw).
      unfold cb. destruct (Nat.eqb (c (nlevel nd)) 0).
      * destruct L00 as [A X]. apply IH'; [exact A | lia].
      * destruct L10 as [A X]. apply IH'; [exact A | lia].
    + rewrite (valc_node s1 H1 e id nn e1 (swap_choice i c) Er Hf) by (simpl; rewrite Hsi; reflexivity).
      f_equal.
      rewrite (repc_sem _ _ e1 (swap_choice i c) (c (nlevel nd)) R1 Hb Hsw).
      unfold cb. destruct (Nat.eqb (c (nlevel nd)) 0).
      * destruct L01 as [A X]. apply IH'; [exact A | lia].
      * destruct L11 as [A X]. apply IH'; [exact A | lia].
  - (* the node only changes its level *)
    pose proof (specc_old s i M (swap_nodes_c_spec s i H Hk Hi) id nd E D) as Hf.
    assert (Hsw : swap_choice i c (nlevel (relabel s i nd)) = c (nlevel nd)).
    { unfold swap_choice.
      destruct (relabel_cases s i nd) as [[A R]|[[A [_ R]]|[[A R]|[A [B R]]]]]; rewrite R; simpl.
      - rewrite swap_idx_i, A. reflexivity.
      - rewrite swap_idx_Si, A. reflexivity.
      - contradiction.
      - rewrite swap_idx_other by assumption. reflexivity. }
    rewrite (valc_node s1 H1 e id (relabel s i nd) cb (swap_choice i c) Er Hf)
      by (rewrite Hsw, relabel_children; exact Hcb).
    f_equal. apply IH'; assumption.
Qed.

End SemC.
