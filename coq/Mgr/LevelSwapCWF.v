(** * C08, part B' — [level_swap_core_c] keeps the table well-formed (BCDD kind)

    The BCDD counterpart of Mgr/LevelSwapWF.v, from the relational specification
    [SpecC] (Mgr/LevelSwapCInv.v): ordered, reduced (children differ, then-edge
    untagged), per-level unique, maps inverse permutations. *)

From Coq Require Import List NArith PArith Bool Arith Lia FMapPositive.
From OxiVerif Require Import DD.Table DD.TableProofs Mgr.SortOrder Mgr.SortOrderProofs
  Mgr.LevelSwap Mgr.LevelSwapBase Mgr.LevelSwapInv Mgr.LevelSwapC Mgr.LevelSwapCInv.
Import ListNotations.

Section CoreC.
Variable s : snap.
Variable i : nat.
Hypothesis H : WF s.
Hypothesis Hk : s_kind s = KBcdd.
Hypothesis Hi : S i < nlevels s.

Let s1 := level_swap_core_c s i.
Let M := swap_nodes_c s i.
Let SP : SpecC s i M := swap_nodes_c_spec s i H Hk Hi.

Notation low := (lowc s i).
Notation isdep := (isdep s i).
Notation rep := (repc i).

Lemma find1 : forall id, find_node s1 id = PositiveMap.find id M.
Proof. reflexivity. Qed.

Lemma nlevels1 : nlevels s1 = nlevels s.
Proof. unfold nlevels, s1, level_swap_core_c. simpl. apply swap_adj_length. Qed.

Lemma term_val1 : forall t, term_val s1 t = term_val s t.
Proof. reflexivity. Qed.

Lemma kind1 : s_kind s1 = s_kind s.
Proof. reflexivity. Qed.

(** every stored node of the new table is of one of three sorts *)
Lemma find_cases : forall id nd', PositiveMap.find id M = Some nd' ->
  (exists nd, find_node s id = Some nd /\ ~ isdep nd /\ nd' = relabel s i nd)
  \/ (exists nd c0 c1 e0 e1, find_node s id = Some nd /\ isdep nd /\ nchildren nd = [c0; c1]
        /\ nd' = mkNode i [e0; e1] i (nrc nd)
        /\ rep M (bcofc s (S i) c0 0) (bcofc s (S i) c1 0) e0
        /\ rep M (bcofc s (S i) c0 1) (bcofc s (S i) c1 1) e1)
  \/ (find_node s id = None /\ goodnewc s i nd').
Proof.
  intros id nd' E. destruct (find_node s id) as [nd|] eqn:E0.
  - destruct (isdep_dec s i nd) as [D|D].
    + right. left. destruct (specc_dep s i M SP id nd E0 D) as [c0 [c1 [e0 [e1 [Hc [Hf [R0 R1]]]]]]].
      exists nd, c0, c1, e0, e1. rewrite E in Hf. inversion Hf; subst nd'. auto 10.
    + left. exists nd. pose proof (specc_old s i M SP id nd E0 D) as Hf. rewrite E in Hf.
      inversion Hf. auto.
  - right. right. split; [reflexivity|]. apply (specc_new s i M SP id nd' E E0).
Qed.

(** every id stored before is stored afterwards *)
Lemma old_stays : forall id nd, find_node s id = Some nd ->
  exists nd', PositiveMap.find id M = Some nd'
    /\ ((nlevel nd = S i /\ nlevel nd' = i)
        \/ (nlevel nd = i /\ (nlevel nd' = i \/ nlevel nd' = S i))
        \/ (nlevel nd <> i /\ nlevel nd <> S i /\ nd' = nd)).
Proof.
  intros id nd E. destruct (isdep_dec s i nd) as [D|D].
  - destruct (specc_dep s i M SP id nd E D) as [c0 [c1 [e0 [e1 [Hc [Hf _]]]]]].
    eexists. split; [exact Hf|]. right. left. destruct D as [Dl _]. simpl. auto.
  - exists (relabel s i nd). split; [apply (specc_old s i M SP id nd E D)|].
    destruct (relabel_cases s i nd) as [[A R]|[[A [_ R]]|[[A R]|[A [B R]]]]]; rewrite R; simpl.
    + left. auto.
    + right. left. auto.
    + contradiction.
    + right. right. auto.
Qed.

Lemma ref_ok1 : forall r, ref_ok s r -> ref_ok s1 r.
Proof.
  intros [t|id] Hr; [exact Hr|]. destruct Hr as [nd E].
  destruct (old_stays id nd E) as [nd' [E' _]]. exists nd'. exact E'.
Qed.

(** the level of an old reference in the new table *)
Lemma rlevel1 : forall r, ref_ok s r ->
  (rlevel s r = S i /\ rlevel s1 r = i)
  \/ (rlevel s r = i /\ (rlevel s1 r = i \/ rlevel s1 r = S i))
  \/ (rlevel s r <> i /\ rlevel s r <> S i /\ rlevel s1 r = rlevel s r).
Proof.
  intros [t|id] Hr.
  - right. right. simpl. rewrite nlevels1. repeat split; lia.
  - destruct Hr as [nd E]. destruct (old_stays id nd E) as [nd' [E' C]].
    simpl. rewrite find1, E', E.
    destruct C as [[A B]|[[A B]|[A [B ->]]]]; auto.
Qed.

Lemma low1 : forall e, low e -> ref_ok s1 (eref e) /\ rlevel s1 (eref e) = rlevel s (eref e).
Proof.
  intros e [Hok Hl]. split; [apply ref_ok1; exact Hok|].
  destruct (rlevel1 _ Hok) as [[A _]|[[A _]|[_ [_ A]]]]; [lia | lia | exact A].
Qed.

(** what the result of [reduce] + lookup looks like in the new table *)
Lemma rep_props : forall x y e, rep M x y e -> low x -> low y ->
  ref_ok s1 (eref e) /\ etag e = etag x /\ S i <= rlevel s1 (eref e)
  /\ (x = y -> S i < rlevel s1 (eref e)) /\ (x <> y -> rlevel s1 (eref e) = S i).
Proof.
  intros x y e [[A ->]|[A [id [nd [-> [E [L C]]]]]]] Lx Ly.
  - destruct (low1 x Lx) as [B C]. destruct Lx as [_ Lv].
    split; [exact B|]. split; [reflexivity|]. split; [lia|]. split; [intros _; lia | contradiction].
  - simpl. split; [exists nd; exact E|]. split; [reflexivity|].
    rewrite find1, E, L. split; [lia|]. split; [contradiction | reflexivity].
Qed.

Lemma rep_inj : forall x y x' y' e, rep M x y e -> rep M x' y' e ->
  low x -> low y -> low x' -> low y' -> x = x' /\ y = y'.
Proof.
  intros x y x' y' e R R' Lx Ly Lx' Ly'.
  destruct (rep_props _ _ _ R Lx Ly) as [_ [_ [_ [A B]]]].
  destruct (rep_props _ _ _ R' Lx' Ly') as [_ [_ [_ [A' B']]]].
  destruct R as [[P ->]|[P [id [nd [-> [E [L C]]]]]]]; destruct R' as [[P' Q']|[P' [id' [nd' [Q' [E' [L' C']]]]]]].
  - subst. auto.
  - exfalso. specialize (A P). specialize (B' P'). lia.
  - exfalso. specialize (A' P'). specialize (B P). lia.
  - inversion Q' as [[Qid Qtag]]. subst id'. rewrite E in E'. inversion E'; subst nd'. rewrite C in C'.
    rewrite <- Qtag in C'.
    pose proof (f_equal (fun l => nth 0 l x) C') as Cx. pose proof (f_equal (fun l => nth 1 l x) C') as Cy.
    simpl in Cx, Cy. split; [exact (xtag_inj _ _ _ Cx) | exact (xtag_inj _ _ _ Cy)].
Qed.

(** ** well-formedness of the new table *)

Lemma wf1_child : forall id nd e, find_node s1 id = Some nd -> In e (nchildren nd) ->
  ref_ok s1 (eref e) /\ nlevel nd < rlevel s1 (eref e).
Proof.
  intros id nd' e E He. rewrite find1 in E.
  destruct (find_cases id nd' E) as [[nd [E0 [D ->]]]|[[nd [c0 [c1 [e0 [e1 [E0 [D [Hc [-> [R0 R1]]]]]]]]]]|[E0 G]]].
  - rewrite relabel_children in He.
    destruct (wf_child s H id nd e E0 He) as [Hok Hlt].
    split; [apply ref_ok1; exact Hok|].
    destruct (relabel_cases s i nd) as [[A R]|[[A [Dp R]]|[[A R]|[A [B R]]]]]; rewrite R; simpl.
    + destruct (rlevel1 _ Hok) as [[X Y]|[[X Y]|[X [Y Z]]]]; lia.
    + pose proof (depends_false s i nd e Dp He).
      destruct (rlevel1 _ Hok) as [[X Y]|[[X Y]|[X [Y Z]]]]; lia.
    + contradiction.
    + destruct (rlevel1 _ Hok) as [[X Y]|[[X Y]|[X [Y Z]]]]; lia.
  - simpl in He. destruct D as [Dl Dd].
    assert (Hin0 : In c0 (nchildren nd)) by (rewrite Hc; simpl; auto).
    assert (Hin1 : In c1 (nchildren nd)) by (rewrite Hc; simpl; auto).
    pose proof (bcofc_low s i H Hk Hi id nd c0 0 E0 Dl Hin0 ltac:(lia)) as L00.
    pose proof (bcofc_low s i H Hk Hi id nd c1 0 E0 Dl Hin1 ltac:(lia)) as L10.
    pose proof (bcofc_low s i H Hk Hi id nd c0 1 E0 Dl Hin0 ltac:(lia)) as L01.
    pose proof (bcofc_low s i H Hk Hi id nd c1 1 E0 Dl Hin1 ltac:(lia)) as L11.
    destruct He as [<-|[<-|[]]].
    + destruct (rep_props _ _ _ R0 L00 L10) as [A [_ [B _]]]. split; [exact A | simpl; lia].
    + destruct (rep_props _ _ _ R1 L01 L11) as [A [_ [B _]]]. split; [exact A | simpl; lia].
  - destruct G as [Gl [_ [x [y [Gc [_ [_ [Lx Ly]]]]]]]]. rewrite Gc in He. rewrite Gl.
    destruct He as [<-|[<-|[]]].
    + destruct (low1 _ Lx) as [A B]. destruct Lx as [_ Lv]. split; [exact A | lia].
    + destruct (low1 _ Ly) as [A B]. destruct Ly as [_ Lv]. split; [exact A | lia].
Qed.

(** the four cofactors of a node to rewrite are below both levels *)
Lemma dep_lows : forall id nd c0 c1, find_node s id = Some nd -> isdep nd -> nchildren nd = [c0; c1] ->
  low (bcofc s (S i) c0 0) /\ low (bcofc s (S i) c1 0) /\ low (bcofc s (S i) c0 1) /\ low (bcofc s (S i) c1 1).
Proof.
  intros id nd c0 c1 E0 [Dl _] Hc.
  assert (Hin0 : In c0 (nchildren nd)) by (rewrite Hc; simpl; auto).
  assert (Hin1 : In c1 (nchildren nd)) by (rewrite Hc; simpl; auto).
  repeat split; eapply (bcofc_low s i H Hk Hi id nd); eauto.
Qed.

(** the rewritten children of a node determine its old children *)
Lemma dep_children_inj : forall id nd c0 c1 e0 e1 id' nd' d0 d1,
  find_node s id = Some nd -> isdep nd -> nchildren nd = [c0; c1] ->
  rep M (bcofc s (S i) c0 0) (bcofc s (S i) c1 0) e0 -> rep M (bcofc s (S i) c0 1) (bcofc s (S i) c1 1) e1 ->
  find_node s id' = Some nd' -> isdep nd' -> nchildren nd' = [d0; d1] ->
  rep M (bcofc s (S i) d0 0) (bcofc s (S i) d1 0) e0 -> rep M (bcofc s (S i) d0 1) (bcofc s (S i) d1 1) e1 ->
  c0 = d0 /\ c1 = d1.
Proof.
  intros id nd c0 c1 e0 e1 id' nd' d0 d1 E D Hc R0 R1 E' D' Hd Q0 Q1.
  destruct (dep_lows id nd c0 c1 E D Hc) as [A [B [C F]]].
  destruct (dep_lows id' nd' d0 d1 E' D' Hd) as [A' [B' [C' F']]].
  destruct (rep_inj _ _ _ _ _ R0 Q0 A B A' B') as [X0 Y0].
  destruct (rep_inj _ _ _ _ _ R1 Q1 C F C' F') as [X1 Y1].
  destruct D as [Dl _]. destruct D' as [Dl' _].
  split.
  - apply (bcofc_inj s i H Hk Hi id nd c0 id' nd' d0 E Dl ltac:(rewrite Hc; simpl; auto)
             E' Dl' ltac:(rewrite Hd; simpl; auto) X0 X1).
  - apply (bcofc_inj s i H Hk Hi id nd c1 id' nd' d1 E Dl ltac:(rewrite Hc; simpl; auto)
             E' Dl' ltac:(rewrite Hd; simpl; auto) Y0 Y1).
Qed.

(** one of the rewritten children lies on the new lower level *)
Lemma dep_touches : forall id nd c0 c1 e0 e1,
  find_node s id = Some nd -> isdep nd -> nchildren nd = [c0; c1] ->
  rep M (bcofc s (S i) c0 0) (bcofc s (S i) c1 0) e0 -> rep M (bcofc s (S i) c0 1) (bcofc s (S i) c1 1) e1 ->
  rlevel s1 (eref e0) = S i \/ rlevel s1 (eref e1) = S i.
Proof.
  intros id nd c0 c1 e0 e1 E D Hc R0 R1.
  destruct (dep_lows id nd c0 c1 E D Hc) as [A [B [C F]]].
  destruct (rep_props _ _ _ R0 A B) as [_ [_ [_ [_ N0]]]].
  destruct (rep_props _ _ _ R1 C F) as [_ [_ [_ [_ N1]]]].
  destruct (edge_eqb (bcofc s (S i) c0 0) (bcofc s (S i) c1 0)) eqn:Q0.
  2:{ left. apply N0. intros Heq. apply edge_eqb_eq in Heq. congruence. }
  destruct (edge_eqb (bcofc s (S i) c0 1) (bcofc s (S i) c1 1)) eqn:Q1.
  2:{ right. apply N1. intros Heq. apply edge_eqb_eq in Heq. congruence. }
  exfalso. apply edge_eqb_eq in Q0. apply edge_eqb_eq in Q1.
  destruct (bc_children s H Hk id nd E) as [a [b [Hab [Hne _]]]]. rewrite Hc in Hab.
  inversion Hab; subst a b. apply Hne. destruct D as [Dl _].
  apply (bcofc_inj s i H Hk Hi id nd c0 id nd c1 E Dl ltac:(rewrite Hc; simpl; auto)
           E Dl ltac:(rewrite Hc; simpl; auto) Q0 Q1).
Qed.

Lemma wf1_unique : forall id1 id2 n1 n2,
  find_node s1 id1 = Some n1 -> find_node s1 id2 = Some n2 ->
  nlevel n1 = nlevel n2 -> nchildren n1 = nchildren n2 -> id1 = id2.
Proof.
  intros id1 id2 n1 n2 E1 E2 Hl Hc. rewrite find1 in E1, E2.
  destruct (Nat.eq_dec (nlevel n1) (S i)) as [L1|L1].
  { apply (specc_uniq s i M SP id1 id2 n1 n2 E1 E2 L1); [lia | exact Hc]. }
  assert (L2 : nlevel n2 <> S i) by lia.
  destruct (find_cases id1 n1 E1) as [[m1 [F1 [D1 ->]]]|[[m1 [c0 [c1 [e0 [e1 [F1 [D1 [C1 [-> [R0 R1]]]]]]]]]]|[_ [G _]]]];
    [| |contradiction];
  (destruct (find_cases id2 n2 E2) as [[m2 [F2 [D2 ->]]]|[[m2 [d0 [d1 [f0 [f1 [F2 [D2 [C2 [-> [Q0 Q1]]]]]]]]]]|[_ [G _]]]];
    [| |contradiction]).
  - (* two relabelled nodes *)
    rewrite !relabel_children in Hc. apply (wf_unique s H id1 id2 m1 m2 F1 F2); [|exact Hc].
    destruct (relabel_cases s i m1) as [[A R]|[[A [_ R]]|[[A R]|[A [B R]]]]]; rewrite R in Hl, L1; simpl in Hl, L1;
      try lia; try contradiction;
    (destruct (relabel_cases s i m2) as [[A' R']|[[A' [_ R']]|[[A' R']|[A' [B' R']]]]]; rewrite R' in Hl, L2; simpl in Hl, L2;
      try lia; try contradiction).
  - (* a relabelled node and a rewritten node *)
    exfalso. rewrite relabel_children in Hc. simpl in Hc, Hl.
    destruct (relabel_cases s i m1) as [[A R]|[[A [_ R]]|[[A R]|[A [B R]]]]]; rewrite R in Hl, L1; simpl in Hl, L1;
      try lia; try contradiction.
    destruct (dep_touches id2 m2 d0 d1 f0 f1 F2 D2 C2 Q0 Q1) as [T|T].
    + assert (Hin : In f0 (nchildren m1)) by (rewrite Hc; simpl; auto).
      destruct (wf_child s H id1 m1 f0 F1 Hin) as [Ok Lt].
      destruct (rlevel1 _ Ok) as [[X Y]|[[X Y]|[X [Y Z]]]]; lia.
    + assert (Hin : In f1 (nchildren m1)) by (rewrite Hc; simpl; auto).
      destruct (wf_child s H id1 m1 f1 F1 Hin) as [Ok Lt].
      destruct (rlevel1 _ Ok) as [[X Y]|[[X Y]|[X [Y Z]]]]; lia.
  - exfalso. rewrite relabel_children in Hc. simpl in Hc, Hl.
    destruct (relabel_cases s i m2) as [[A R]|[[A [_ R]]|[[A R]|[A [B R]]]]]; rewrite R in Hl, L2; simpl in Hl, L2;
      try lia; try contradiction.
    destruct (dep_touches id1 m1 c0 c1 e0 e1 F1 D1 C1 R0 R1) as [T|T].
    + assert (Hin : In e0 (nchildren m2)) by (rewrite <- Hc; simpl; auto).
      destruct (wf_child s H id2 m2 e0 F2 Hin) as [Ok Lt].
      destruct (rlevel1 _ Ok) as [[X Y]|[[X Y]|[X [Y Z]]]]; lia.
    + assert (Hin : In e1 (nchildren m2)) by (rewrite <- Hc; simpl; auto).
      destruct (wf_child s H id2 m2 e1 F2 Hin) as [Ok Lt].
      destruct (rlevel1 _ Ok) as [[X Y]|[[X Y]|[X [Y Z]]]]; lia.
  - (* two rewritten nodes *)
    simpl in Hc. inversion Hc; subst f0 f1.
    destruct (dep_children_inj id1 m1 c0 c1 e0 e1 id2 m2 d0 d1 F1 D1 C1 R0 R1 F2 D2 C2 Q0 Q1) as [X Y].
    destruct D1 as [Dl1 _]. destruct D2 as [Dl2 _].
    apply (wf_unique s H id1 id2 m1 m2 F1 F2); congruence.
Qed.

Theorem core_wf_c : WF s1.
Proof.
  constructor.
  - unfold s1, level_swap_core_c. simpl. rewrite map_length, swap_adj_length. apply (wf_perm_len s H).
  - apply swap_perm_v2l; [apply (wf_perm_len s H) | exact Hi | apply (wf_perm_v2l s H)].
  - apply swap_perm_l2v; [apply (wf_perm_len s H) | exact Hi | apply (wf_perm_l2v s H)].
  - (* arity *)
    intros id nd' E. rewrite find1 in E. rewrite kind1, Hk. simpl.
    destruct (find_cases id nd' E) as [[nd [E0 [D ->]]]|[[nd [c0 [c1 [e0 [e1 [E0 [D [Hc [-> [R0 R1]]]]]]]]]]|[E0 G]]].
    + rewrite relabel_children. pose proof (wf_arity s H id nd E0) as A. rewrite Hk in A. exact A.
    + reflexivity.
    + destruct G as [_ [_ [x [y [Gc _]]]]]. rewrite Gc. reflexivity.
  - (* stored level *)
    intros id nd' E. rewrite find1 in E.
    destruct (find_cases id nd' E) as [[nd [E0 [D ->]]]|[[nd [c0 [c1 [e0 [e1 [E0 [D [Hc [-> [R0 R1]]]]]]]]]]|[E0 G]]].
    + destruct (relabel_cases s i nd) as [[A R]|[[A [_ R]]|[[A R]|[A [B R]]]]]; rewrite R; simpl; auto.
      * contradiction.
      * apply (wf_stored s H id nd E0).
    + reflexivity.
    + destruct G as [A [B _]]. congruence.
  - (* level in range *)
    intros id nd' E. rewrite find1 in E. rewrite nlevels1.
    destruct (find_cases id nd' E) as [[nd [E0 [D ->]]]|[[nd [c0 [c1 [e0 [e1 [E0 [D [Hc [-> [R0 R1]]]]]]]]]]|[E0 G]]].
    + pose proof (wf_level s H id nd E0).
      destruct (relabel_cases s i nd) as [[A R]|[[A [_ R]]|[[A R]|[A [B R]]]]]; rewrite R; simpl; lia.
    + simpl. lia.
    + destruct G as [A _]. lia.
  - exact wf1_child.
  - (* reduced *)
    intros id nd' E. rewrite find1 in E. unfold reduced. rewrite kind1, Hk.
    destruct (find_cases id nd' E) as [[nd [E0 [D ->]]]|[[nd [c0 [c1 [e0 [e1 [E0 [D [Hc [-> [R0 R1]]]]]]]]]]|[E0 G]]].
    + rewrite relabel_children. pose proof (wf_reduced s H id nd E0) as R. unfold reduced in R.
      rewrite Hk in R. exact R.
    + destruct (dep_lows id nd c0 c1 E0 D Hc) as [A [B [C F]]]. simpl. split.
      * rewrite all_same_pair. intros ->.
        destruct (rep_inj _ _ _ _ _ R0 R1 A B C F) as [X Y].
        apply (dep_not_both_c s i H Hk Hi id nd c0 c1 E0 D Hc). auto.
      * exists e0. split; [reflexivity|].
        destruct (rep_props _ _ _ R0 A B) as [_ [T _]]. rewrite T.
        destruct (bc_children s H Hk id nd E0) as [a [b [Hab [_ Ta]]]]. rewrite Hc in Hab.
        inversion Hab; subst a b. destruct D as [Dl _].
        apply (bcofc_then_untagged s i H Hk Hi id nd c0 E0 Dl); [rewrite Hc; simpl; auto | exact Ta].
    + destruct G as [_ [_ [x [y [Gc [Gne [Tx _]]]]]]]. rewrite Gc. split.
      * rewrite all_same_pair. exact Gne.
      * exists x. split; [reflexivity | exact Tx].
  - (* tags: no constraint for BCDDs *)
    intros Hnb. exfalso. apply Hnb. rewrite kind1. exact Hk.
  - exact wf1_unique.
  - apply (wf_term_ids s H).
  - apply (wf_term_vals s H).
  - intros h Hh. destruct (wf_handles s H h Hh) as [A B]. split; [apply ref_ok1; exact A | exact B].
Qed.

End CoreC.
