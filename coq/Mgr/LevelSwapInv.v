(** * C08, part B — what the node table looks like after [level_swap_core]

    The loop of [level_swap] (a [fold_left] of [rebuild] over the nodes of the
    upper level that reference the lower level) is characterised by an
    invariant [Inv]; its instance at the end of the loop is the relational
    specification [Spec] of [swap_nodes s i], from which everything else
    (well-formedness, preservation of the functions) is derived in
    Mgr/LevelSwapWF.v and Mgr/LevelSwapProofs.v.

    BDD and MTBDD kinds ([bink]): binary nodes, no complement tags, reduction
    rule "both children equal". *)

From Coq Require Import List NArith PArith Bool Arith Lia FMapPositive.
From OxiVerif Require Import DD.Table DD.TableProofs Mgr.SortOrder Mgr.SortOrderProofs
  Mgr.LevelSwap Mgr.LevelSwapBase.
Import ListNotations.

Section Swap.
Variable s : snap.
Variable i : nat.
Hypothesis H : WF s.
Hypothesis Hk : bink (s_kind s).
Hypothesis Hi : S i < nlevels s.

(** ** stored BDD nodes *)

Lemma not_bcdd : s_kind s <> KBcdd.
Proof. apply bink_not_bcdd. exact Hk. Qed.

Lemma bdd_children : forall id nd, find_node s id = Some nd ->
  exists c0 c1, nchildren nd = [c0; c1] /\ c0 <> c1.
Proof.
  intros id nd E. pose proof (wf_arity s H id nd E) as Ha. rewrite (bink_arity _ Hk) in Ha.
  destruct (length2 _ _ Ha) as [c0 [c1 Hc]]. exists c0, c1. split; [exact Hc|].
  pose proof (wf_reduced s H id nd E) as Hr. apply (bink_reduced s _ Hk) in Hr. rewrite Hc in Hr.
  intros Heq. apply Hr. apply all_same_pair. exact Heq.
Qed.

Lemma bdd_tag : forall id nd e, find_node s id = Some nd -> In e (nchildren nd) -> etag e = false.
Proof. intros id nd e E He. exact (wf_tags s H not_bcdd id nd e E He). Qed.

(** an edge below both levels: what the cofactors of the cofactors are *)
Definition low (e : edge) : Prop :=
  ref_ok s (eref e) /\ etag e = false /\ S i < rlevel s (eref e).

(** a node of the upper level that references the lower level *)
Definition isdep (nd : node) : Prop := nlevel nd = i /\ depends s (S i) nd = true.

Lemma isdep_dec : forall nd, {isdep nd} + {~ isdep nd}.
Proof.
  intros nd. unfold isdep. destruct (Nat.eq_dec (nlevel nd) i) as [A|A].
  - destruct (depends s (S i) nd) eqn:D; [left; auto | right; intros [_ B]; discriminate].
  - right. intros [B _]. contradiction.
Qed.

Lemma depends_spec : forall nd,
  depends s (S i) nd = true <-> exists e, In e (nchildren nd) /\ rlevel s (eref e) = S i.
Proof.
  intros nd. unfold depends. rewrite existsb_exists. split; intros [e [A B]]; exists e; split; auto.
  - apply Nat.eqb_eq. exact B.
  - apply Nat.eqb_eq. exact B.
Qed.

Lemma depends_false : forall nd e,
  depends s (S i) nd = false -> In e (nchildren nd) -> rlevel s (eref e) <> S i.
Proof.
  intros nd e D He Hl. assert (depends s (S i) nd = true) by (apply depends_spec; eauto). congruence.
Qed.

(** ** [bcof] *)

Lemma bcof_skip : forall c b, rlevel s (eref c) <> S i -> bcof s (S i) c b = c.
Proof.
  intros c b Hl. unfold bcof. destruct (eref c) as [t|id] eqn:Er; [reflexivity|].
  simpl in Hl. destruct (find_node s id) as [nd|]; [|reflexivity].
  destruct (Nat.eqb_spec (nlevel nd) (S i)); [contradiction | reflexivity].
Qed.

Lemma bcof_at : forall c cid cn g0 g1,
  eref c = RN cid -> find_node s cid = Some cn -> nlevel cn = S i -> nchildren cn = [g0; g1] ->
  bcof s (S i) c 0 = g0 /\ bcof s (S i) c 1 = g1.
Proof.
  intros c cid cn g0 g1 Er E Hl Hc. unfold bcof. rewrite Er, E, Hl, Nat.eqb_refl, Hc. split; reflexivity.
Qed.

(** the two cases for a child [c] of a node of the upper level *)
Lemma child_cases : forall id nd c, find_node s id = Some nd -> nlevel nd = i -> In c (nchildren nd) ->
  (rlevel s (eref c) <> S i /\ low c /\ forall b, bcof s (S i) c b = c)
  \/ (exists cid cn g0 g1, c = mkEdge (RN cid) false /\ find_node s cid = Some cn /\ nlevel cn = S i
        /\ nchildren cn = [g0; g1] /\ g0 <> g1 /\ low g0 /\ low g1
        /\ bcof s (S i) c 0 = g0 /\ bcof s (S i) c 1 = g1).
Proof.
  intros id nd c E Hl Hc.
  destruct (wf_child s H id nd c E Hc) as [Hok Hlt]. pose proof (bdd_tag id nd c E Hc) as Ht.
  destruct (Nat.eq_dec (rlevel s (eref c)) (S i)) as [Heq|Hne].
  - right. destruct (eref c) as [t|cid] eqn:Er.
    { simpl in Heq. lia. }
    simpl in Heq. destruct (find_node s cid) as [cn|] eqn:Ec; [|lia].
    destruct (bdd_children cid cn Ec) as [g0 [g1 [Hg Hne]]].
    exists cid, cn, g0, g1.
    assert (Hlow : forall g, In g (nchildren cn) -> low g).
    { intros g Hg'. destruct (wf_child s H cid cn g Ec Hg') as [A B].
      split; [exact A|]. split; [exact (bdd_tag cid cn g Ec Hg') | lia]. }
    destruct (bcof_at c cid cn g0 g1 Er Ec Heq Hg) as [B0 B1].
    assert (Hce : c = mkEdge (RN cid) false).
    { destruct c as [r t]. simpl in *. subst. reflexivity. }
    assert (L0 : low g0) by (apply Hlow; rewrite Hg; simpl; auto).
    assert (L1 : low g1) by (apply Hlow; rewrite Hg; simpl; auto).
    split; [exact Hce|]. split; [exact Ec|]. split; [exact Heq|]. split; [exact Hg|].
    split; [exact Hne|]. split; [exact L0|]. split; [exact L1|]. split; [exact B0 | exact B1].
  - left. split; [exact Hne|]. split.
    + split; [exact Hok|]. split; [exact Ht | lia].
    + intros b. apply bcof_skip. exact Hne.
Qed.

Lemma bcof_low : forall id nd c b, find_node s id = Some nd -> nlevel nd = i -> In c (nchildren nd) ->
  b < 2 -> low (bcof s (S i) c b).
Proof.
  intros id nd c b E Hl Hc Hb.
  destruct (child_cases id nd c E Hl Hc) as [[_ [Hlow Hb']]|[cid [cn [g0 [g1 [_ [_ [_ [_ [_ [L0 [L1 [B0 B1]]]]]]]]]]]]].
  - rewrite Hb'. exact Hlow.
  - destruct b as [|[|b]]; [rewrite B0; exact L0 | rewrite B1; exact L1 | lia].
Qed.

(** the pair of cofactors determines the child *)
Lemma bcof_inj : forall id1 nd1 c id2 nd2 d,
  find_node s id1 = Some nd1 -> nlevel nd1 = i -> In c (nchildren nd1) ->
  find_node s id2 = Some nd2 -> nlevel nd2 = i -> In d (nchildren nd2) ->
  bcof s (S i) c 0 = bcof s (S i) d 0 -> bcof s (S i) c 1 = bcof s (S i) d 1 -> c = d.
Proof.
  intros id1 nd1 c id2 nd2 d E1 L1 Hc E2 L2 Hd B0 B1.
  destruct (child_cases id1 nd1 c E1 L1 Hc) as [[_ [_ Sc]]|[cid [cn [g0 [g1 [Ec [Fc [Lc [Cc [Nc [_ [_ [C0 C1]]]]]]]]]]]]];
  destruct (child_cases id2 nd2 d E2 L2 Hd) as [[_ [_ Sd]]|[did [dn [h0 [h1 [Ed [Fd [Ld [Cd [Nd [_ [_ [D0 D1]]]]]]]]]]]]].
  - rewrite (Sc 0), (Sd 0) in B0. exact B0.
  - exfalso. rewrite (Sc 0), D0 in B0. rewrite (Sc 1), D1 in B1. congruence.
  - exfalso. rewrite C0, (Sd 0) in B0. rewrite C1, (Sd 1) in B1. congruence.
  - rewrite C0, D0 in B0. rewrite C1, D1 in B1. subst g0 g1.
    assert (cid = did).
    { apply (wf_unique s H cid did cn dn Fc Fd); congruence. }
    subst. reflexivity.
Qed.

(** a node of the upper level that references the lower level has a cofactor
    pair that is not reduced away *)
Lemma dep_not_both : forall id nd c0 c1, find_node s id = Some nd -> isdep nd -> nchildren nd = [c0; c1] ->
  ~ (bcof s (S i) c0 0 = bcof s (S i) c0 1 /\ bcof s (S i) c1 0 = bcof s (S i) c1 1).
Proof.
  intros id nd c0 c1 E [Hl Hd] Hc [A B].
  apply depends_spec in Hd. destruct Hd as [e [He Hle]]. rewrite Hc in He.
  assert (Hin0 : In c0 (nchildren nd)) by (rewrite Hc; simpl; auto).
  assert (Hin1 : In c1 (nchildren nd)) by (rewrite Hc; simpl; auto).
  destruct He as [<-|[<-|[]]].
  - destruct (child_cases id nd c0 E Hl Hin0) as [[Hne _]|[cid [cn [g0 [g1 [_ [_ [_ [_ [Hg [_ [_ [B0 B1]]]]]]]]]]]]].
    + contradiction.
    + congruence.
  - destruct (child_cases id nd c1 E Hl Hin1) as [[Hne _]|[cid [cn [g0 [g1 [_ [_ [_ [_ [Hg [_ [_ [B0 B1]]]]]]]]]]]]].
    + contradiction.
    + congruence.
Qed.

(** ** [relabel] *)

Lemma relabel_children : forall nd, nchildren (relabel s i nd) = nchildren nd.
Proof.
  intros nd. unfold relabel. destruct (Nat.eqb (nlevel nd) (S i)); [reflexivity|].
  destruct (Nat.eqb (nlevel nd) i && negb (depends s (S i) nd)); reflexivity.
Qed.

Lemma relabel_rc : forall nd, nrc (relabel s i nd) = nrc nd.
Proof.
  intros nd. unfold relabel. destruct (Nat.eqb (nlevel nd) (S i)); [reflexivity|].
  destruct (Nat.eqb (nlevel nd) i && negb (depends s (S i) nd)); reflexivity.
Qed.

Lemma relabel_lower : forall nd, nlevel nd = S i -> relabel s i nd = set_level nd i.
Proof. intros nd Hl. unfold relabel. rewrite Hl, Nat.eqb_refl. reflexivity. Qed.

Lemma relabel_indep : forall nd, nlevel nd = i -> depends s (S i) nd = false ->
  relabel s i nd = set_level nd (S i).
Proof.
  intros nd Hl Hd. unfold relabel. rewrite Hl, Hd, Nat.eqb_refl.
  destruct (Nat.eqb_spec i (S i)) as [Q|]; [exfalso; exact (n_Sn i Q) | reflexivity].
Qed.

Lemma relabel_dep : forall nd, isdep nd -> relabel s i nd = nd.
Proof.
  intros nd [Hl Hd]. unfold relabel. rewrite Hl, Hd, Nat.eqb_refl.
  destruct (Nat.eqb_spec i (S i)) as [Q|]; [exfalso; exact (n_Sn i Q) | reflexivity].
Qed.

Lemma relabel_other : forall nd, nlevel nd <> i -> nlevel nd <> S i -> relabel s i nd = nd.
Proof.
  intros nd A B. unfold relabel.
  destruct (Nat.eqb_spec (nlevel nd) (S i)); [contradiction|].
  destruct (Nat.eqb_spec (nlevel nd) i); [contradiction | reflexivity].
Qed.

(** the level of a stored node after relabelling, by cases *)
Lemma relabel_cases : forall nd,
  (nlevel nd = S i /\ relabel s i nd = set_level nd i)
  \/ (nlevel nd = i /\ depends s (S i) nd = false /\ relabel s i nd = set_level nd (S i))
  \/ (isdep nd /\ relabel s i nd = nd)
  \/ (nlevel nd <> i /\ nlevel nd <> S i /\ relabel s i nd = nd).
Proof.
  intros nd. destruct (Nat.eq_dec (nlevel nd) (S i)) as [A|A].
  - left. split; [exact A | apply relabel_lower; exact A].
  - destruct (Nat.eq_dec (nlevel nd) i) as [B|B].
    + destruct (depends s (S i) nd) eqn:D.
      * right. right. left. split; [split; assumption | apply relabel_dep; split; assumption].
      * right. left. split; [exact B|]. split; [reflexivity | apply relabel_indep; assumption].
    + right. right. right. split; [exact B|]. split; [exact A | apply relabel_other; assumption].
Qed.

(** ** the loop invariant *)

(** [e] is what [reduce] + lookup/insert on the new lower level returns for
    the children [x], [y] *)
Definition rep (m : PositiveMap.t node) (x y e : edge) : Prop :=
  (x = y /\ e = x)
  \/ (x <> y /\ exists id nd, e = mkEdge (RN id) false /\ PositiveMap.find id m = Some nd
                              /\ nlevel nd = S i /\ nchildren nd = [x; y]).

(** a node created by the swap *)
Definition goodnew (nd : node) : Prop :=
  nlevel nd = S i /\ nstored nd = S i
  /\ exists x y, nchildren nd = [x; y] /\ x <> y /\ low x /\ low y.

(** nodes of the new lower level are never overwritten *)
Definition ext (m m' : PositiveMap.t node) : Prop :=
  forall id nd, PositiveMap.find id m = Some nd -> nlevel nd = S i -> PositiveMap.find id m' = Some nd.

Lemma ext_refl : forall m, ext m m.
Proof. intros m id nd E _. exact E. Qed.

Lemma ext_trans : forall a b c, ext a b -> ext b c -> ext a c.
Proof. intros a b c A B id nd E L. apply B; [apply A; assumption | exact L]. Qed.

Lemma rep_ext : forall m m' x y e, ext m m' -> rep m x y e -> rep m' x y e.
Proof.
  intros m m' x y e Hx [A|[A [id [nd [B [C [D F]]]]]]]; [left; exact A | right].
  split; [exact A|]. exists id, nd. repeat split; auto.
Qed.

(** the rewritten form of a node of the upper level that references the lower level *)
Definition rebuilt (m : PositiveMap.t node) (id : positive) (nd : node) : Prop :=
  exists c0 c1 e0 e1, nchildren nd = [c0; c1]
    /\ PositiveMap.find id m = Some (mkNode i [e0; e1] i (nrc nd))
    /\ rep m (bcof s (S i) c0 0) (bcof s (S i) c1 0) e0
    /\ rep m (bcof s (S i) c0 1) (bcof s (S i) c1 1) e1.

Record Inv (P : list positive) (st : tstate) : Prop := mkInv {
  inv_old : forall id nd, find_node s id = Some nd -> ~ In id P ->
      PositiveMap.find id (fst st) = Some (relabel s i nd);
  inv_done : forall id, In id P ->
      exists nd, find_node s id = Some nd /\ isdep nd /\ rebuilt (fst st) id nd;
  inv_new : forall id nd, PositiveMap.find id (fst st) = Some nd -> find_node s id = None ->
      goodnew nd /\ (id < snd st)%positive;
  inv_nxt : forall id nd, find_node s id = Some nd -> (id < snd st)%positive;
  inv_uniq : forall id1 id2 n1 n2,
      PositiveMap.find id1 (fst st) = Some n1 -> PositiveMap.find id2 (fst st) = Some n2 ->
      nlevel n1 = S i -> nlevel n2 = S i -> nchildren n1 = nchildren n2 -> id1 = id2
}.

Lemma inv_free : forall P st id, Inv P st -> (snd st <= id)%positive ->
  PositiveMap.find id (fst st) = None.
Proof.
  intros P st id I Hle. destruct (PositiveMap.find id (fst st)) as [nd|] eqn:E; [|reflexivity].
  exfalso. destruct (find_node s id) as [nd0|] eqn:E0.
  - pose proof (inv_nxt P st I id nd0 E0). lia.
  - destruct (inv_new P st I id nd E E0) as [_ Hlt]. lia.
Qed.

(** the state before the loop *)
Definition st0 : tstate := (PositiveMap.map (relabel s i) (s_nodes s), fresh_id (s_nodes s)).

Lemma inv_init : Inv [] st0.
Proof.
  constructor; unfold st0; simpl.
  - intros id nd E _. rewrite find_map. unfold find_node in E. rewrite E. reflexivity.
  - intros id [].
  - intros id nd E E0. rewrite find_map in E. unfold find_node in E0. rewrite E0 in E. discriminate.
  - intros id nd E. apply (fresh_id_above _ _ _ E).
  - intros id1 id2 n1 n2 E1 E2 L1 L2 Hc. rewrite find_map in E1, E2.
    destruct (PositiveMap.find id1 (s_nodes s)) as [m1|] eqn:F1; [|discriminate].
    destruct (PositiveMap.find id2 (s_nodes s)) as [m2|] eqn:F2; [|discriminate].
    simpl in E1, E2. inversion E1; subst n1. inversion E2; subst n2. clear E1 E2.
    rewrite !relabel_children in Hc.
    apply (wf_unique s H id1 id2 m1 m2 F1 F2); [|exact Hc].
    destruct (relabel_cases m1) as [[A R]|[[A [_ R]]|[[[A _] R]|[A [B R]]]]]; rewrite R in L1; simpl in L1; try lia;
    destruct (relabel_cases m2) as [[A' R']|[[A' [_ R']]|[[[A' _] R']|[A' [B' R']]]]]; rewrite R' in L2; simpl in L2; try lia.
Qed.

(** [reduce] + [get_or_insert] on the new lower level *)
Lemma mk2_inv : forall P st x y e st',
  Inv P st -> low x -> low y -> mk2 st (S i) x y = (e, st') ->
  Inv P st' /\ rep (fst st') x y e /\ ext (fst st) (fst st').
Proof.
  intros P [m nxt] x y e st' I Lx Ly. unfold mk2. simpl fst. simpl snd.
  destruct (edge_eqb x y) eqn:Exy.
  { intros E. inversion E; subst. apply edge_eqb_eq in Exy.
    split; [exact I|]. split; [left; auto | apply ext_refl]. }
  assert (Hne : x <> y) by (intros ->; assert (edge_eqb y y = true) by (apply edge_eqb_eq; reflexivity); congruence).
  destruct (find_at m (S i) [x; y]) as [id|] eqn:F.
  { intros E. inversion E; subst. destruct (find_at_some _ _ _ _ F) as [nd [A [B C]]].
    split; [exact I|]. split; [|apply ext_refl].
    right. split; [exact Hne|]. exists id, nd. auto. }
  intros E. inversion E; subst e st'. clear E. simpl fst. simpl snd.
  pose proof (inv_free P (m, nxt) nxt I (Pos.le_refl _)) as Hfree. simpl in Hfree.
  assert (Hext : ext m (PositiveMap.add nxt (mkNode (S i) [x; y] (S i) 0%N) m)).
  { intros id nd E _. rewrite find_add. destruct (Pos.eqb_spec id nxt); [congruence | exact E]. }
  split; [|split; [|exact Hext]].
  - constructor; simpl fst; simpl snd.
    + intros id nd E Hn. rewrite find_add.
      pose proof (inv_nxt _ _ I id nd E) as Hlt. simpl in Hlt.
      destruct (Pos.eqb_spec id nxt); [lia|]. apply (inv_old _ _ I id nd E Hn).
    + intros id Hp. destruct (inv_done _ _ I id Hp) as [nd [E [D [c0 [c1 [e0 [e1 [Hc [Hf [R0 R1]]]]]]]]]].
      exists nd. split; [exact E|]. split; [exact D|]. exists c0, c1, e0, e1.
      simpl in Hf, R0, R1. split; [exact Hc|]. split.
      * rewrite find_add. pose proof (inv_nxt _ _ I id nd E) as Hlt. simpl in Hlt.
        destruct (Pos.eqb_spec id nxt); [lia | exact Hf].
      * split; eapply rep_ext; eauto.
    + intros id nd E E0. rewrite find_add in E. destruct (Pos.eqb_spec id nxt) as [->|Hn].
      * inversion E; subst nd. split; [|lia].
        split; [reflexivity|]. split; [reflexivity|]. exists x, y. auto.
      * destruct (inv_new _ _ I id nd E E0) as [G Hlt]. simpl in Hlt. split; [exact G | lia].
    + intros id nd E. pose proof (inv_nxt _ _ I id nd E) as Hlt. simpl in Hlt. lia.
    + intros id1 id2 n1 n2 E1 E2 L1 L2 Hc. rewrite find_add in E1, E2.
      destruct (Pos.eqb_spec id1 nxt) as [->|N1]; destruct (Pos.eqb_spec id2 nxt) as [->|N2].
      * reflexivity.
      * exfalso. inversion E1; subst n1. simpl in Hc.
        apply (find_at_none _ _ _ F id2 n2 E2 L2). congruence.
      * exfalso. inversion E2; subst n2. simpl in Hc.
        apply (find_at_none _ _ _ F id1 n1 E1 L1). congruence.
      * apply (inv_uniq _ _ I id1 id2 n1 n2 E1 E2 L1 L2 Hc).
  - right. split; [exact Hne|]. exists nxt, (mkNode (S i) [x; y] (S i) 0%N).
    split; [reflexivity|]. split; [|split; reflexivity].
    rewrite find_add, Pos.eqb_refl. reflexivity.
Qed.

(** one iteration of the loop *)
Lemma rebuild_inv : forall P st id nd,
  Inv P st -> find_node s id = Some nd -> isdep nd -> ~ In id P ->
  Inv (id :: P) (rebuild s i st id).
Proof.
  intros P st id nd I E D Hn. unfold rebuild. rewrite E.
  destruct (bdd_children id nd E) as [c0 [c1 [Hc Hne]]]. rewrite Hc.
  assert (Hin0 : In c0 (nchildren nd)) by (rewrite Hc; simpl; auto).
  assert (Hin1 : In c1 (nchildren nd)) by (rewrite Hc; simpl; auto).
  destruct D as [Dl Dd].
  destruct (mk2 st (S i) (bcof s (S i) c0 0) (bcof s (S i) c1 0)) as [e0 st1] eqn:M0.
  destruct (mk2 st1 (S i) (bcof s (S i) c0 1) (bcof s (S i) c1 1)) as [e1 st2] eqn:M1.
  destruct (mk2_inv P st _ _ e0 st1 I
              (bcof_low id nd c0 0 E Dl Hin0 ltac:(lia)) (bcof_low id nd c1 0 E Dl Hin1 ltac:(lia)) M0)
    as [I1 [R0 X1]].
  destruct (mk2_inv P st1 _ _ e1 st2 I1
              (bcof_low id nd c0 1 E Dl Hin0 ltac:(lia)) (bcof_low id nd c1 1 E Dl Hin1 ltac:(lia)) M1)
    as [I2 [R1 X2]].
  pose proof (rep_ext _ _ _ _ _ X2 R0) as R0'.
  (* the node [id] still has its old form in [st2] *)
  pose proof (inv_old _ _ I2 id nd E Hn) as Hold. rewrite (relabel_dep nd (conj Dl Dd)) in Hold.
  set (nn := mkNode i [e0; e1] i (nrc nd)).
  assert (Hext : ext (fst st2) (PositiveMap.add id nn (fst st2))).
  { intros k kd Ek Lk. rewrite find_add. destruct (Pos.eqb_spec k id) as [->|]; [|exact Ek].
    rewrite Hold in Ek. inversion Ek; subst kd. lia. }
  constructor; simpl fst; simpl snd.
  - intros k kd Ek Hnk. rewrite find_add. destruct (Pos.eqb_spec k id) as [->|Nk].
    + exfalso. apply Hnk. left. reflexivity.
    + apply (inv_old _ _ I2 k kd Ek). intros Hp. apply Hnk. right. exact Hp.
  - intros k [<-|Hp].
    + exists nd. split; [exact E|]. split; [split; assumption|].
      exists c0, c1, e0, e1. split; [exact Hc|]. split.
      * rewrite find_add, Pos.eqb_refl. reflexivity.
      * split; eapply rep_ext; eauto.
    + destruct (inv_done _ _ I2 k Hp) as [kd [Ek [Dk [d0 [d1 [f0 [f1 [Hd [Hf [Q0 Q1]]]]]]]]]].
      exists kd. split; [exact Ek|]. split; [exact Dk|]. exists d0, d1, f0, f1.
      split; [exact Hd|]. split.
      * rewrite find_add. destruct (Pos.eqb_spec k id) as [->|]; [contradiction | exact Hf].
      * split; eapply rep_ext; eauto.
  - intros k kd Ek E0. rewrite find_add in Ek. destruct (Pos.eqb_spec k id) as [->|Nk]; [congruence|].
    apply (inv_new _ _ I2 k kd Ek E0).
  - intros k kd Ek. apply (inv_nxt _ _ I2 k kd Ek).
  - intros id1 id2 n1 n2 E1 E2 L1 L2 Hcc. rewrite find_add in E1, E2.
    destruct (Pos.eqb_spec id1 id) as [->|N1].
    { inversion E1; subst n1. unfold nn in L1. simpl in L1. lia. }
    destruct (Pos.eqb_spec id2 id) as [->|N2].
    { inversion E2; subst n2. unfold nn in L2. simpl in L2. lia. }
    apply (inv_uniq _ _ I2 id1 id2 n1 n2 E1 E2 L1 L2 Hcc).
Qed.

Lemma fold_inv : forall R P st,
  Inv P st -> NoDup R ->
  (forall id, In id R -> ~ In id P /\ exists nd, find_node s id = Some nd /\ isdep nd) ->
  Inv (rev R ++ P) (fold_left (rebuild s i) R st).
Proof.
  induction R as [|id R IH]; intros P st I Hnd HR; simpl; [exact I|].
  inversion Hnd as [|? ? Hid HndR]; subst.
  destruct (HR id (or_introl eq_refl)) as [HnP [nd [E D]]].
  rewrite <- app_assoc. simpl. apply IH.
  - apply (rebuild_inv P st id nd I E D HnP).
  - exact HndR.
  - intros k Hkin. destruct (HR k (or_intror Hkin)) as [A B]. split; [|exact B].
    intros [<-|Hp]; [contradiction | contradiction].
Qed.

(** ** the nodes to rewrite *)

Lemma is_dep_spec : forall id nd, is_dep s i (id, nd) = true <-> isdep nd.
Proof.
  intros id nd. unfold is_dep, isdep. simpl. rewrite andb_true_iff, Nat.eqb_eq. tauto.
Qed.

Lemma dep_ids_spec : forall id,
  In id (dep_ids s i) <-> exists nd, find_node s id = Some nd /\ isdep nd.
Proof.
  intros id. unfold dep_ids. rewrite in_map_iff. split.
  - intros [[k nd] [Hkk Hin]]. simpl in Hkk. subst k. apply filter_In in Hin. destruct Hin as [A B].
    exists nd. split; [apply find_node_elements; exact A | apply (is_dep_spec id nd); exact B].
  - intros [nd [E D]]. exists (id, nd). split; [reflexivity|]. apply filter_In.
    split; [apply find_node_elements; exact E | apply is_dep_spec; exact D].
Qed.

Lemma nodup_map_filter : forall (A B : Type) (f : A -> B) (p : A -> bool) (l : list A),
  NoDup (map f l) -> NoDup (map f (filter p l)).
Proof.
  induction l as [|x l IH]; simpl; intros Hn; [constructor|].
  inversion Hn as [|? ? Hx Hl]; subst. destruct (p x); simpl; [|apply IH; exact Hl].
  constructor; [|apply IH; exact Hl].
  intros Hin. apply Hx. apply in_map_iff in Hin. destruct Hin as [y [Hy Hin]].
  apply filter_In in Hin. apply in_map_iff. exists y. tauto.
Qed.

Lemma dep_ids_nodup : NoDup (dep_ids s i).
Proof. unfold dep_ids. apply nodup_map_filter. apply elements_keys_nodup. Qed.

(** ** the table after the loop *)

Record Spec (m : PositiveMap.t node) : Prop := mkSpec {
  spec_old : forall id nd, find_node s id = Some nd -> ~ isdep nd ->
      PositiveMap.find id m = Some (relabel s i nd);
  spec_dep : forall id nd, find_node s id = Some nd -> isdep nd -> rebuilt m id nd;
  spec_new : forall id nd, PositiveMap.find id m = Some nd -> find_node s id = None -> goodnew nd;
  spec_uniq : forall id1 id2 n1 n2,
      PositiveMap.find id1 m = Some n1 -> PositiveMap.find id2 m = Some n2 ->
      nlevel n1 = S i -> nlevel n2 = S i -> nchildren n1 = nchildren n2 -> id1 = id2
}.

Theorem swap_nodes_spec : Spec (swap_nodes s i).
Proof.
  unfold swap_nodes.
  pose proof (fold_inv (dep_ids s i) [] st0 inv_init dep_ids_nodup) as I.
  assert (HR : forall id, In id (dep_ids s i) ->
             ~ In id [] /\ exists nd, find_node s id = Some nd /\ isdep nd).
  { intros id Hin. split; [intros []|]. apply dep_ids_spec. exact Hin. }
  specialize (I HR). rewrite app_nil_r in I. fold st0.
  set (st := fold_left (rebuild s i) (dep_ids s i) st0) in *.
  constructor.
  - intros id nd E Hnd. apply (inv_old _ _ I id nd E).
    intros Hin. apply in_rev in Hin. apply dep_ids_spec in Hin. destruct Hin as [nd' [E' D']].
    rewrite E in E'. inversion E'; subst nd'. contradiction.
  - intros id nd E D.
    assert (Hin : In id (rev (dep_ids s i))).
    { apply in_rev. rewrite rev_involutive. apply dep_ids_spec. eauto. }
    destruct (inv_done _ _ I id Hin) as [nd' [E' [_ R]]].
    rewrite E in E'. inversion E'; subst nd'. exact R.
  - intros id nd E E0. apply (inv_new _ _ I id nd E E0).
  - apply (inv_uniq _ _ I).
Qed.

End Swap.
