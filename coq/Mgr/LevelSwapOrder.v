(** * C08, part B — a sequence of adjacent level swaps: [set_var_order_model]

    - [swaps_fold]: any sequence of in-range adjacent swaps keeps the table
      well-formed, keeps the handle list and every handle's function over the
      variables, and permutes [level_to_var] as [replay] does;
    - [set_var_order_model_correct]: the swaps reported by the (proved) bubble
      sort on the target order of [sort_order] bring every variable to the
      level [sort_order] assigns to its old level; their number is the number
      of inversions of the target order (minimal by
      [sort_order_min_inversions]);
    - [set_var_order_model_respects]: the variables named in the request end
      up in the requested relative order;
    - examples: the hypotheses are satisfiable, the loop creates and removes
      nodes on the example. *)

From Coq Require Import List NArith PArith Bool Arith Lia FMapPositive Permutation.
From OxiVerif Require Import DD.Table DD.TableProofs DD.Canon Mgr.SortOrder Mgr.SortOrderProofs
  Mgr.LevelSwap Mgr.LevelSwapBase Mgr.LevelSwapProofs.
Import ListNotations.

(** ** a sequence of swaps *)

Theorem swaps_fold : forall sw s,
  WF s -> bink (s_kind s) -> Forall (fun k => S k < nlevels s) sw ->
  let s' := fold_left level_swap sw s in
  WF s' /\ s_kind s' = s_kind s /\ nlevels s' = nlevels s /\ s_handles s' = s_handles s
  /\ s_l2v s' = replay sw (s_l2v s)
  /\ (forall h a, In h (s_handles s) ->
        eval_vars s' (snd h) a = eval_vars s (snd h) a /\ exists v, eval_vars s (snd h) a = Some v).
Proof.
  induction sw as [|k sw IH]; intros s H Hk Hsw; simpl.
  - split; [exact H|]. split; [reflexivity|]. split; [reflexivity|]. split; [reflexivity|]. split; [reflexivity|].
    intros h a Hh. split; [reflexivity|].
    destruct (wf_handles s H h Hh) as [Ok _]. unfold eval_vars.
    apply (sem_total s H); [exact Ok | apply asg_choice_ok].
  - inversion Hsw as [|? ? Hk0 Hsw']; subst.
    pose proof (level_swap_wf s k H Hk Hk0) as H1.
    pose proof (level_swap_nlevels s k) as N1.
    assert (Hsw1 : Forall (fun k0 => S k0 < nlevels (level_swap s k)) sw).
    { rewrite N1. exact Hsw'. }
    destruct (IH (level_swap s k) H1 Hk Hsw1) as [A [B [C [D [F G]]]]].
    split; [exact A|]. split; [exact B|]. split; [rewrite C; exact N1|]. split; [exact D|].
    split; [exact F|].
    intros h a Hh.
    destruct (level_swap_handles_vars s k H Hk Hk0 h a Hh) as [P Q].
    split; [|exact Q]. destruct (G h a Hh) as [G1 _]. rewrite G1. exact P.
Qed.

Lemma nth_map_in : forall (A B : Type) (f : A -> B) l k d d',
  k < length l -> nth k (map f l) d' = f (nth k l d).
Proof.
  intros A B f l k d d' Hk. rewrite (nth_indep _ d' (f d)) by (rewrite map_length; exact Hk).
  apply map_nth.
Qed.

(** ** the variable/level maps as functions *)

Lemma wf_l2v_v2l : forall s l, WF s -> l < nlevels s ->
  nth l (s_l2v s) 0 < nlevels s /\ nth (nth l (s_l2v s) 0) (s_v2l s) 0 = l.
Proof.
  intros s l H Hl. destruct (wf_perm_l2v s H l Hl) as [v [A B]].
  rewrite (nth_error_nth _ _ 0 A), (nth_error_nth _ _ 0 B). split; [|reflexivity].
  unfold nlevels. rewrite <- (wf_perm_len s H). apply nth_error_Some. congruence.
Qed.

Lemma wf_v2l_l2v : forall s v, WF s -> v < nlevels s ->
  nth v (s_v2l s) 0 < nlevels s /\ nth (nth v (s_v2l s) 0) (s_l2v s) 0 = v.
Proof.
  intros s v H Hv. unfold nlevels in Hv. rewrite <- (wf_perm_len s H) in Hv.
  destruct (wf_perm_v2l s H v Hv) as [l [A B]].
  rewrite (nth_error_nth _ _ 0 A), (nth_error_nth _ _ 0 B). split; [|reflexivity].
  unfold nlevels. apply nth_error_Some. congruence.
Qed.

(** the levels of pairwise distinct variables form a valid request for [sort_order] *)
Lemma valid_order_levels : forall s order, WF s ->
  NoDup order -> Forall (fun v => v < nlevels s) order ->
  valid_order (nlevels s) (map (fun v => nth v (s_v2l s) 0) order).
Proof.
  intros s order H Hnd Hr. rewrite Forall_forall in Hr. split.
  - apply NoDup_map_inj_in; [|exact Hnd].
    intros a b Ha Hb Heq.
    destruct (wf_v2l_l2v s a H (Hr a Ha)) as [_ A]. destruct (wf_v2l_l2v s b H (Hr b Hb)) as [_ B].
    rewrite <- A, <- B, Heq. reflexivity.
  - apply Forall_forall. intros x Hx. apply in_map_iff in Hx. destruct Hx as [v [<- Hv]].
    apply (wf_v2l_l2v s v H (Hr v Hv)).
Qed.

(** ** a sorted permutation of [0, n) is [0, n) *)

Lemma sorted_perm_seq : forall l n, sorted l -> Permutation l (seq 0 n) -> l = seq 0 n.
Proof.
  intros l n Hs Hp.
  assert (Hlen : length l = n) by (rewrite (Permutation_length Hp); apply seq_length).
  assert (Hnd : NoDup l) by (apply (Permutation_NoDup (Permutation_sym Hp)); apply seq_NoDup).
  assert (Hlt : forall k, k < n -> nth k l 0 < n).
  { intros k Hk. assert (Hin : In (nth k l 0) (seq 0 n)).
    { apply (Permutation_in _ Hp). apply nth_In. lia. }
    apply in_seq in Hin. lia. }
  assert (Hstrict : forall a b, a < b < n -> nth a l 0 < nth b l 0).
  { intros a b Hab. pose proof (Hs a b ltac:(lia)) as Hle.
    destruct (Nat.eq_dec (nth a l 0) (nth b l 0)) as [Heq|]; [|lia].
    exfalso. apply (NoDup_nth l 0) in Heq; [lia | exact Hnd | lia | lia]. }
  assert (Hlow : forall k, k < n -> k <= nth k l 0).
  { induction k as [|k IHk]; intros Hk; [lia|].
    pose proof (Hstrict k (S k) ltac:(lia)). pose proof (IHk ltac:(lia)). lia. }
  assert (Hup : forall d, d < n -> nth (n - 1 - d) l 0 <= n - 1 - d).
  { induction d as [|d IHd]; intros Hd.
    - pose proof (Hlt (n - 1 - 0) ltac:(lia)). lia.
    - pose proof (Hstrict (n - 1 - S d) (n - 1 - d) ltac:(lia)). pose proof (IHd ltac:(lia)). lia. }
  apply (list_ext _ _ 0); [rewrite seq_length; exact Hlen|].
  intros k Hk. rewrite Hlen in Hk. rewrite seq_nth by exact Hk. simpl.
  pose proof (Hlow k Hk). pose proof (Hup (n - 1 - k) ltac:(lia)).
  replace (n - 1 - (n - 1 - k)) with k in * by lia. lia.
Qed.

(** ** [set_var_order_model] *)

Section Order.
Variable s : snap.
Variable order : list nat.
Hypothesis H : WF s.
Hypothesis Hk : bink (s_kind s).
(* the requests on which [set_var_order] does not panic: variables in range, none twice *)
Hypothesis Hnd : NoDup order.
Hypothesis Hr : Forall (fun v => v < nlevels s) order.

Let n := nlevels s.
Let levels := map (fun v => nth v (s_v2l s) 0) order.
Let target := sort_order n levels.
Let s' := set_var_order_model s order.

Lemma levels_valid : valid_order n levels.
Proof. apply valid_order_levels; assumption. Qed.

Theorem set_var_order_model_correct :
  WF s' /\ s_kind s' = s_kind s /\ nlevels s' = n /\ s_handles s' = s_handles s
  /\ (forall h a, In h (s_handles s) ->
        eval_vars s' (snd h) a = eval_vars s (snd h) a /\ exists v, eval_vars s (snd h) a = Some v)
  /\ (forall v, v < n -> nth v (s_v2l s') 0 = nth (nth v (s_v2l s) 0) target 0)
  /\ length (snd (bubble_sort target)) = inv target.
Proof.
  pose proof levels_valid as Hv.
  unfold s', set_var_order_model. fold n. fold levels. fold target.
  pose proof (bubble_sort_correct target) as Hb.
  destruct (bubble_sort target) as [t' sw] eqn:Eb. simpl snd.
  destruct Hb as [Hsorted [Hperm [Hvalid [Hreplay Hcount]]]].
  assert (Hlen : length target = n) by (apply sort_order_length; exact Hv).
  assert (Hsw : Forall (fun k => S k < nlevels s) sw).
  { pose proof (valid_swaps_range target sw Hvalid) as R. rewrite Hlen in R. exact R. }
  destruct (swaps_fold sw s H Hk Hsw) as [A [B [C [D [F G]]]]].
  set (sf := fold_left level_swap sw s) in *.
  split; [exact A|]. split; [exact B|]. split; [exact C|]. split; [exact D|]. split; [exact G|].
  split; [|exact Hcount].
  (* the variable at the final level p is the one whose target position is p *)
  set (key := fun v => nth (nth v (s_v2l s) 0) target 0).
  assert (Hkey : map key (s_l2v s) = target).
  { apply (list_ext _ _ 0); [rewrite map_length; symmetry; exact Hlen|].
    intros l Hl. rewrite map_length in Hl.
    rewrite (nth_indep _ 0 (key 0)) by (rewrite map_length; exact Hl).
    rewrite map_nth. unfold key. destruct (wf_l2v_v2l s l H Hl) as [_ X]. rewrite X. reflexivity. }
  assert (Ht' : t' = seq 0 n).
  { apply sorted_perm_seq; [exact Hsorted|].
    eapply Permutation_trans; [exact Hperm | apply sort_order_perm; exact Hv]. }
  assert (Hfinal : map key (s_l2v sf) = seq 0 n).
  { rewrite F, <- replay_map, Hkey, Hreplay. exact Ht'. }
  intros v Hvn. unfold n in Hvn. rewrite <- C in Hvn.
  destruct (wf_v2l_l2v sf v A Hvn) as [Plt Pinv].
  set (p := nth v (s_v2l sf) 0) in *.
  assert (Hp : nth p (map key (s_l2v sf)) 0 = p).
  { rewrite Hfinal. rewrite C in Plt. rewrite seq_nth by exact Plt. reflexivity. }
  rewrite (nth_indep _ 0 (key 0)) in Hp by (rewrite map_length; exact Plt).
  rewrite map_nth, Pinv in Hp. unfold key in Hp. symmetry. exact Hp.
Qed.

(** the variables named in the request end up in the requested relative order *)
Theorem set_var_order_model_respects : forall a b, a < b < length order ->
  nth (nth a order 0) (s_v2l s') 0 < nth (nth b order 0) (s_v2l s') 0.
Proof.
  intros a b Hab.
  destruct set_var_order_model_correct as [_ [_ [_ [_ [_ [Hpos _]]]]]].
  assert (Hin : forall k, k < length order ->
            nth k order 0 < n /\ nth k levels 0 = nth (nth k order 0) (s_v2l s) 0).
  { intros k Hkl. split.
    - rewrite Forall_forall in Hr. apply Hr. apply nth_In. exact Hkl.
    - unfold levels. apply (nth_map_in _ _ (fun v => nth v (s_v2l s) 0)). exact Hkl. }
  destruct (Hin a ltac:(lia)) as [Ra La]. destruct (Hin b ltac:(lia)) as [Rb Lb].
  rewrite (Hpos _ Ra), (Hpos _ Rb), <- La, <- Lb.
  apply (sort_order_respects n levels levels_valid a b).
  unfold levels. rewrite map_length. exact Hab.
Qed.

(** the reordered diagram is canonical again: two handles are the same edge iff
    they denote the same function (the theorem of C01 applies to the result) *)
Theorem set_var_order_model_canonical : forall h1 h2,
  In h1 (s_handles s) -> In h2 (s_handles s) ->
  (snd h1 = snd h2 <->
   forall c, choice_ok s' c -> sem_edge s' (snd h1) c = sem_edge s' (snd h2) c).
Proof.
  intros h1 h2 H1 H2.
  destruct set_var_order_model_correct as [A [B [_ [D _]]]].
  apply (canon_kary_handles s' A).
  - rewrite B. destruct Hk as [E|E]; rewrite E; split; discriminate.
  - rewrite D. exact H1.
  - rewrite D. exact H2.
Qed.

End Order.

(** ** the hypotheses are satisfiable; the loop does something *)

(** three variables, [h0 = x0 /\ x1 \/ x2] (node 3), [h1 = x0 /\ x1 /\ x2] (node 5) *)
Definition ex_e (r : ref) : edge := mkEdge r false.

Definition ex_swap : snap :=
  mkSnap KBdd
    (PositiveMap.add 5%positive (mkNode 0 [ex_e (RN 4); ex_e (RT 0)] 0 1)
    (PositiveMap.add 4%positive (mkNode 1 [ex_e (RN 1); ex_e (RT 0)] 1 1)
    (PositiveMap.add 3%positive (mkNode 0 [ex_e (RN 2); ex_e (RN 1)] 0 1)
    (PositiveMap.add 2%positive (mkNode 1 [ex_e (RT 1); ex_e (RN 1)] 1 1)
    (PositiveMap.add 1%positive (mkNode 2 [ex_e (RT 1); ex_e (RT 0)] 2 4)
       (PositiveMap.empty node))))))
    [(0%N, 0%N); (1%N, 1%N)]
    [0; 1; 2] [0; 1; 2]
    [(0%N, ex_e (RN 3)); (1%N, ex_e (RN 5))].

Example ex_swap_WF : WF ex_swap.
Proof. apply wf_b_spec. vm_compute. reflexivity. Qed.

Example ex_swap_hyps : s_kind ex_swap = KBdd /\ 1 < nlevels ex_swap /\ 2 < nlevels ex_swap.
Proof. vm_compute. repeat split; lia. Qed.

(** swapping levels 0 and 1: both nodes of level 0 reference level 1 and are
    rewritten (5 first: the loop follows the order of [PositiveMap.elements]),
    two nodes are created (ids 6, 7), the two old nodes of level 1 (ids 2, 4)
    lose their last reference and are removed, node 1 is not touched *)
Example ex_swap_result :
  let s' := level_swap ex_swap 0 in
  dep_ids ex_swap 0 = [5; 3]%positive
  /\ find_node s' 1 = Some (mkNode 2 [ex_e (RT 1); ex_e (RT 0)] 2 4)
  /\ find_node s' 2 = None /\ find_node s' 4 = None
  /\ find_node s' 3 = Some (mkNode 0 [ex_e (RN 7); ex_e (RN 1)] 0 1)
  /\ find_node s' 5 = Some (mkNode 0 [ex_e (RN 6); ex_e (RT 0)] 0 1)
  /\ find_node s' 6 = Some (mkNode 1 [ex_e (RN 1); ex_e (RT 0)] 1 0)
  /\ find_node s' 7 = Some (mkNode 1 [ex_e (RT 1); ex_e (RN 1)] 1 0)
  /\ PositiveMap.cardinal (s_nodes s') = 5
  /\ s_v2l s' = [1; 0; 2] /\ s_l2v s' = [1; 0; 2].
Proof. vm_compute. repeat split; reflexivity. Qed.

(** reversing the order: three swaps, the request is met *)
Example ex_order_result :
  snd (bubble_sort (sort_order 3 [2; 1; 0])) = [0; 1; 0]
  /\ s_v2l (set_var_order_model ex_swap [2; 1; 0]) = [2; 1; 0]
  /\ NoDup [2; 1; 0] /\ Forall (fun v => v < nlevels ex_swap) [2; 1; 0].
Proof.
  split; [vm_compute; reflexivity|]. split; [vm_compute; reflexivity|]. split.
  - repeat constructor; simpl; intuition lia.
  - repeat constructor; vm_compute; lia.
Qed.

(** the facts above in one statement (Props/C08.v) *)
Example ex_swap_all :
  WF ex_swap /\ bink (s_kind ex_swap) /\ 1 < nlevels ex_swap
  /\ dep_ids ex_swap 0 = [5; 3]%positive
  /\ find_node (level_swap ex_swap 0) 2 = None
  /\ find_node (level_swap ex_swap 0) 3 = Some (mkNode 0 [ex_e (RN 7); ex_e (RN 1)] 0 1)
  /\ find_node (level_swap ex_swap 0) 7 = Some (mkNode 1 [ex_e (RT 1); ex_e (RN 1)] 1 0)
  /\ s_v2l (set_var_order_model ex_swap [2; 1; 0]) = [2; 1; 0]
  /\ NoDup [2; 1; 0] /\ Forall (fun v => v < nlevels ex_swap) [2; 1; 0].
Proof.
  split; [exact ex_swap_WF|]. split; [left; reflexivity|]. split; [vm_compute; lia|].
  split; [vm_compute; reflexivity|]. split; [vm_compute; reflexivity|].
  split; [vm_compute; reflexivity|]. split; [vm_compute; reflexivity|].
  split; [vm_compute; reflexivity|]. exact (proj2 (proj2 ex_order_result)).
Qed.
