(** * C08, part B — [level_swap_core] preserves the function of every edge

    For every reference [r] stored before the swap and every choice function
    [c] (child index per LEVEL): the interpretation of [r] in the new table
    under [c] with the entries of the two levels exchanged equals the
    interpretation in the old table under [c].  BDD and MTBDD kinds ([bink]). *)

From Coq Require Import List NArith PArith Bool Arith Lia FMapPositive.
From OxiVerif Require Import DD.Table DD.TableProofs DD.Canon Mgr.SortOrder Mgr.SortOrderProofs
  Mgr.LevelSwap Mgr.LevelSwapBase Mgr.LevelSwapInv Mgr.LevelSwapWF.
Import ListNotations.

(** the choice function with the entries of levels [i] and [i+1] exchanged *)
Definition swap_choice (i : nat) (c : nat -> nat) : nat -> nat := fun l => c (swap_idx i l).

Lemma swap_choice_ok : forall s s' i c, s_kind s' = s_kind s -> choice_ok s c -> choice_ok s' (swap_choice i c).
Proof. intros s s' i c Hk Hc l. unfold swap_choice. rewrite Hk. apply Hc. Qed.

Section Sem.
Variable s : snap.
Variable i : nat.
Hypothesis H : WF s.
Hypothesis Hk : bink (s_kind s).
Hypothesis Hi : S i < nlevels s.

Let s1 := level_swap_core s i.
Let M := swap_nodes s i.
Let H1 : WF s1 := core_wf s i H Hk Hi.

Notation low := (low s i).
Notation isdep := (isdep s i).
Notation rep := (rep i).

Lemma low_measure : forall e, low e -> ref_ok s (eref e) /\ nlevels s - rlevel s (eref e) < nlevels s - S i.
Proof. intros e [A [_ B]]. split; [exact A|]. pose proof (rlevel_le s H (eref e)). lia. Qed.

(** the result of [reduce] + lookup on the new lower level, evaluated *)
Lemma rep_sem : forall x y e c' b, rep M x y e -> b < 2 -> c' (S i) = b ->
  semn s1 (eref e) c' = semn s1 (eref (if Nat.eqb b 0 then x else y)) c'.
Proof.
  intros x y e c' b [[A ->]|[A [id [nd [-> [E [L C]]]]]]] Hb Hc'.
  - subst y. destruct (Nat.eqb b 0); reflexivity.
  - simpl eref. apply (semn_node s1 H1 id nd _ c' E). rewrite L, Hc', C.
    destruct b as [|[|b]]; [reflexivity | reflexivity | lia].
Qed.

(** a child of a node of the upper level, evaluated: its cofactor w.r.t. the lower level *)
Lemma cof_sem : forall id nd c cc b2, find_node s id = Some nd -> nlevel nd = i -> In c (nchildren nd) ->
  b2 < 2 -> cc (S i) = b2 -> semn s (eref c) cc = semn s (eref (bcof s (S i) c b2)) cc.
Proof.
  intros id nd c cc b2 E Hl Hc Hb Hcc.
  destruct (child_cases s i H Hk Hi id nd c E Hl Hc)
    as [[_ [_ Sk]]|[cid [cn [g0 [g1 [-> [Ec [Lc [Cc [_ [_ [_ [B0 B1]]]]]]]]]]]]].
  - rewrite Sk. reflexivity.
  - simpl eref at 1. apply (semn_node s H cid cn _ cc Ec). rewrite Lc, Hcc, Cc.
    destruct b2 as [|[|b2]]; [rewrite B0; reflexivity | rewrite B1; reflexivity | lia].
Qed.

Theorem core_sem : forall k r c, ref_ok s r -> choice_ok s c -> nlevels s - rlevel s r <= k ->
  semn s1 r (swap_choice i c) = semn s r c.
Proof.
  induction k as [k IH] using lt_wf_ind. intros r c Hok Hc Hm.
  destruct r as [t|id].
  { unfold semn. rewrite !semk_T. reflexivity. }
  destruct Hok as [nd E].
  destruct (bdd_children s H Hk id nd E) as [c0 [c1 [Hch Hne]]].
  pose proof (wf_level s H id nd E) as Hlv.
  rewrite (rlevel_node s id nd E) in Hm.
  assert (Hb : c (nlevel nd) < 2) by (specialize (Hc (nlevel nd)); rewrite (bink_arity _ Hk) in Hc; exact Hc).
  (* the induction hypothesis for everything strictly below the node *)
  assert (IH' : forall r', ref_ok s r' -> nlevel nd < rlevel s r' ->
                   semn s1 r' (swap_choice i c) = semn s r' c).
  { intros r' Ok' Lt'. apply (IH (nlevels s - rlevel s r')); [|exact Ok' | exact Hc | lia].
    pose proof (rlevel_le s H r'). lia. }
  set (cb := if Nat.eqb (c (nlevel nd)) 0 then c0 else c1).
  assert (Hcb : nth_error (nchildren nd) (c (nlevel nd)) = Some cb).
  { rewrite Hch. unfold cb. destruct (c (nlevel nd)) as [|[|b]]; [reflexivity | reflexivity | lia]. }
  assert (Hin : In cb (nchildren nd)) by (eapply nth_error_In; exact Hcb).
  destruct (wf_child s H id nd cb E Hin) as [Okb Ltb].
  rewrite (semn_node s H id nd cb c E Hcb).
  destruct (isdep_dec s i nd) as [D|D].
  - (* the node is rewritten *)
    destruct D as [Dl Dd].
    destruct (spec_dep s i M (swap_nodes_spec s i H Hk Hi) id nd E (conj Dl Dd))
      as [d0 [d1 [e0 [e1 [Hd [Hf [R0 R1]]]]]]].
    rewrite Hch in Hd. inversion Hd; subst d0 d1. clear Hd.
    set (b2 := c (S i)).
    assert (Hb2 : b2 < 2) by (unfold b2; specialize (Hc (S i)); rewrite (bink_arity _ Hk) in Hc; exact Hc).
    destruct (dep_lows s i H Hk Hi id nd c0 c1 E (conj Dl Dd) Hch) as [L00 [L10 [L01 L11]]].
    rewrite (cof_sem id nd cb c b2 E Dl Hin Hb2 eq_refl).
    assert (Hsw : swap_choice i c (S i) = c (nlevel nd)).
    { unfold swap_choice. rewrite swap_idx_Si, Dl. reflexivity. }
    assert (Hsi : swap_choice i c i = b2).
    { unfold swap_choice. rewrite swap_idx_i. reflexivity. }
    set (nn := mkNode i [e0; e1] i (nrc nd)) in *.
    destruct b2 as [|[|b2']] eqn:Eb2; [| |lia].
    + (* the lower level's variable takes child 0 *)
      rewrite (semn_node s1 H1 id nn e0 (swap_choice i c) Hf) by (simpl; rewrite Hsi; reflexivity).
      rewrite (rep_sem _ _ e0 (swap_choice i c) (c (nlevel nd)) R0 Hb Hsw).
      unfold cb. destruct (Nat.eqb (c (nlevel nd)) 0).
      * destruct (low_measure _ L00) as [A B]. apply IH'; [exact A|]. destruct L00 as [_ [_ X]]. lia.
      * destruct (low_measure _ L10) as [A B]. apply IH'; [exact A|]. destruct L10 as [_ [_ X]]. lia.
    + rewrite (semn_node s1 H1 id nn e1 (swap_choice i c) Hf) by (simpl; rewrite Hsi; reflexivity).
      rewrite (rep_sem _ _ e1 (swap_choice i c) (c (nlevel nd)) R1 Hb Hsw).
      unfold cb. destruct (Nat.eqb (c (nlevel nd)) 0).
      * destruct (low_measure _ L01) as [A B]. apply IH'; [exact A|]. destruct L01 as [_ [_ X]]. lia.
      * destruct (low_measure _ L11) as [A B]. apply IH'; [exact A|]. destruct L11 as [_ [_ X]]. lia.
  - (* the node only changes its level *)
    pose proof (spec_old s i M (swap_nodes_spec s i H Hk Hi) id nd E D) as Hf.
    assert (Hsw : swap_choice i c (nlevel (relabel s i nd)) = c (nlevel nd)).
    { unfold swap_choice.
      destruct (relabel_cases s i nd) as [[A R]|[[A [_ R]]|[[A R]|[A [B R]]]]]; rewrite R; simpl.
      - rewrite swap_idx_i, A. reflexivity.
      - rewrite swap_idx_Si, A. reflexivity.
      - contradiction.
      - rewrite swap_idx_other by assumption. reflexivity. }
    rewrite (semn_node s1 H1 id (relabel s i nd) cb (swap_choice i c) Hf)
      by (rewrite Hsw, relabel_children; exact Hcb).
    apply IH'; assumption.
Qed.

End Sem.
