(** * C08, part T — executable model of [level_swap] / [level_down] for TDDs (ternary nodes)
    (crates/oxidd-reorder/src/lib.rs with the rules of crates/oxidd-rules-tdd/src/lib.rs)

    Executable definitions only; proofs in Mgr/LevelSwapT{Inv,WF,Sem,Proofs,Order}.v.

    The loop is the one of Mgr/LevelSwap.v with [InnerNode::ARITY = 3]: [relabel], [depends],
    [dep_ids], [find_at], [bcof] ([Rules::cofactors] = the children of a child on the lower
    level; the default [DiagramRules::cofactor_skipped] = the child itself), [dropped_children],
    [sweep] and the maps are shared (they are arity-agnostic).  Per new child index
    [b = 0 (true), 1 (unknown), 2 (false)] the code calls [TDDRules::reduce] on the [b]-th
    cofactors of the three children: all three equal -> that edge, otherwise
    [old_upper.get] / [lower.get_or_insert_unchecked] ([mk3]).  TDD managers have no
    manager-owned diagram nodes, [Manager::reorder] adds nothing around the closure.

    Not modelled: reference counters, slot numbers of created nodes, table iteration order,
    lazy renumbering, the empty-level shortcut of [set_var_order_common] (as in Mgr/LevelSwap.v). *)

From Coq Require Import List NArith PArith Bool Arith FMapPositive.
From OxiVerif Require Import DD.Table Mgr.SortOrder Mgr.LevelSwap.
Import ListNotations.

(** [TDDRules::reduce] followed by [old_upper.get] / [get_or_insert_unchecked] on level [lvl] *)
Definition mk3 (st : tstate) (lvl : nat) (x y z : edge) : edge * tstate :=
  if edge_eqb x y && edge_eqb y z then (x, st)
  else
    match find_at (fst st) lvl [x; y; z] with
    | Some id => (mkEdge (RN id) false, st)
    | None =>
      (mkEdge (RN (snd st)) false,
       (PositiveMap.add (snd st) (mkNode lvl [x; y; z] lvl 0%N) (fst st), Pos.succ (snd st)))
    end.

(** rewrite one node of the upper level that references the lower level *)
Definition rebuild3 (s : snap) (i : nat) (st : tstate) (id : positive) : tstate :=
  match find_node s id with
  | Some nd =>
    match nchildren nd with
    | [c0; c1; c2] =>
      let '(e0, st1) := mk3 st (S i) (bcof s (S i) c0 0) (bcof s (S i) c1 0) (bcof s (S i) c2 0) in
      let '(e1, st2) := mk3 st1 (S i) (bcof s (S i) c0 1) (bcof s (S i) c1 1) (bcof s (S i) c2 1) in
      let '(e2, st3) := mk3 st2 (S i) (bcof s (S i) c0 2) (bcof s (S i) c1 2) (bcof s (S i) c2 2) in
      (PositiveMap.add id (mkNode i [e0; e1; e2] i (nrc nd)) (fst st3), snd st3)
    | _ => st
    end
  | None => st
  end.

(** the node table after the loop, before unreferenced nodes are dropped *)
Definition swap_nodes_t (s : snap) (i : nat) : PositiveMap.t node :=
  fst (fold_left (rebuild3 s i) (dep_ids s i)
                 (PositiveMap.map (relabel s i) (s_nodes s), fresh_id (s_nodes s))).

Definition level_swap_tcore (s : snap) (i : nat) : snap :=
  mkSnap (s_kind s) (swap_nodes_t s i) (s_terms s)
         (map (swap_idx i) (s_v2l s)) (swap_adj i (s_l2v s)) (s_handles s).

(** [level_down(manager, i)] on a TDD manager *)
Definition level_swap_t (s : snap) (i : nat) : snap :=
  let s1 := level_swap_tcore s i in
  mkSnap (s_kind s1) (sweep (s_nodes s1) (s_handles s1) (dropped_children s i))
         (s_terms s1) (s_v2l s1) (s_l2v s1) (s_handles s1).

(** [set_var_order] on a TDD diagram without the empty-level shortcut *)
Definition set_var_order_model_t (s : snap) (order : list nat) : snap :=
  let target := sort_order (nlevels s) (map (fun v => nth v (s_v2l s) 0) order) in
  fold_left level_swap_t (snd (bubble_sort target)) s.
