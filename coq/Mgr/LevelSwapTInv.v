(** * C08, part T — the node table after [level_swap_tcore] (TDD kind: ternary nodes)

    The ternary counterpart of Mgr/LevelSwapInv.v: loop invariant [InvT] of the fold of
    [rebuild3] and its instance at the end of the loop, the relational specification [SpecT]
    of [swap_nodes_t s i].  Nodes have three children (true, unknown, false), no complement
    tags, reduction rule "all three children equal".  The arity-agnostic parts ([relabel],
    [depends], [dep_ids], [ext], [low], [bcof_skip]) come from Mgr/LevelSwapInv.v. *)

From Coq Require Import List NArith PArith Bool Arith Lia FMapPositive.
From OxiVerif Require Import DD.Table DD.TableProofs Mgr.SortOrder Mgr.SortOrderProofs
  Mgr.LevelSwap Mgr.LevelSwapBase Mgr.LevelSwapInv Mgr.LevelSwapT.
Import ListNotations.

Definition eq3 (x y z : edge) : Prop := x = y /\ y = z.

Lemma eq3_dec : forall x y z, {eq3 x y z} + {~ eq3 x y z}.
Proof.
  intros x y z. unfold eq3.
  destruct (edge_eqb x y) eqn:A; [|right; intros [P _]; apply edge_eqb_eq in P; congruence].
  destruct (edge_eqb y z) eqn:B; [|right; intros [_ P]; apply edge_eqb_eq in P; congruence].
  left. split; apply edge_eqb_eq; assumption.
Qed.

Lemma eq3_b : forall x y z, edge_eqb x y && edge_eqb y z = true <-> eq3 x y z.
Proof. intros x y z. unfold eq3. rewrite andb_true_iff, !edge_eqb_eq. tauto. Qed.

Lemma all_same_triple : forall a b c : edge, all_same [a; b; c] <-> eq3 a b c.
Proof.
  intros a b c. unfold all_same, eq3. split.
  - intros Hs. split; apply Hs; simpl; auto.
  - intros [-> ->] x y [<-|[<-|[<-|[]]]] [<-|[<-|[<-|[]]]]; reflexivity.
Qed.

Lemma length3 : forall (A : Type) (l : list A), length l = 3 -> exists a b c, l = [a; b; c].
Proof.
  intros A [|a [|b [|c [|d r]]]] Hl; simpl in Hl; try discriminate. eauto.
Qed.

Section SwapT.
Variable s : snap.
Variable i : nat.
Hypothesis H : WF s.
Hypothesis Hk : s_kind s = KTdd.
Hypothesis Hi : S i < nlevels s.

Notation isdep := (isdep s i).
Notation low := (low s i).
Notation cof := (bcof s (S i)).

Lemma not_bcdd_t : s_kind s <> KBcdd.
Proof. rewrite Hk. discriminate. Qed.

(** ** stored TDD nodes *)

Lemma tdd_children : forall id nd, find_node s id = Some nd ->
  exists c0 c1 c2, nchildren nd = [c0; c1; c2] /\ ~ eq3 c0 c1 c2.
Proof.
  intros id nd E. pose proof (wf_arity s H id nd E) as Ha. rewrite Hk in Ha. simpl in Ha.
  destruct (length3 _ _ Ha) as [c0 [c1 [c2 Hc]]]. exists c0, c1, c2. split; [exact Hc|].
  pose proof (wf_reduced s H id nd E) as Hr. unfold reduced in Hr. rewrite Hk, Hc in Hr.
  intros Heq. apply Hr. apply all_same_triple. exact Heq.
Qed.

Lemma tdd_tag : forall id nd e, find_node s id = Some nd -> In e (nchildren nd) -> etag e = false.
Proof. intros id nd e E He. exact (wf_tags s H not_bcdd_t id nd e E He). Qed.

(** ** [bcof] *)

Lemma bcof_at3 : forall c cid cn g0 g1 g2,
  eref c = RN cid -> find_node s cid = Some cn -> nlevel cn = S i -> nchildren cn = [g0; g1; g2] ->
  cof c 0 = g0 /\ cof c 1 = g1 /\ cof c 2 = g2.
Proof.
  intros c cid cn g0 g1 g2 Er E Hl Hc. unfold bcof. rewrite Er, E, Hl, Nat.eqb_refl, Hc.
  split; [|split]; reflexivity.
Qed.

(** the two cases for a child [c] of a node of the upper level *)
Lemma child_cases3 : forall id nd c, find_node s id = Some nd -> nlevel nd = i -> In c (nchildren nd) ->
  (rlevel s (eref c) <> S i /\ low c /\ forall b, cof c b = c)
  \/ (exists cid cn g0 g1 g2, c = mkEdge (RN cid) false /\ find_node s cid = Some cn /\ nlevel cn = S i
        /\ nchildren cn = [g0; g1; g2] /\ ~ eq3 g0 g1 g2 /\ low g0 /\ low g1 /\ low g2
        /\ cof c 0 = g0 /\ cof c 1 = g1 /\ cof c 2 = g2).
Proof.
  intros id nd c E Hl Hc.
  destruct (wf_child s H id nd c E Hc) as [Hok Hlt]. pose proof (tdd_tag id nd c E Hc) as Ht.
  destruct (Nat.eq_dec (rlevel s (eref c)) (S i)) as [Heq|Hne].
  - right. destruct (eref c) as [t|cid] eqn:Er.
    { simpl in Heq. lia. }
    simpl in Heq. destruct (find_node s cid) as [cn|] eqn:Ec; [|lia].
    destruct (tdd_children cid cn Ec) as [g0 [g1 [g2 [Hg Hne]]]].
    exists cid, cn, g0, g1, g2.
    assert (Hlow : forall g, In g (nchildren cn) -> low g).
    { intros g Hg'. destruct (wf_child s H cid cn g Ec Hg') as [A B].
      split; [exact A|]. split; [exact (tdd_tag cid cn g Ec Hg') | lia]. }
    destruct (bcof_at3 c cid cn g0 g1 g2 Er Ec Heq Hg) as [B0 [B1 B2]].
    assert (Hce : c = mkEdge (RN cid) false).
    { destruct c as [r t]. simpl in *. subst. reflexivity. }
    assert (L0 : low g0) by (apply Hlow; rewrite Hg; simpl; auto).
    assert (L1 : low g1) by (apply Hlow; rewrite Hg; simpl; auto).
    assert (L2 : low g2) by (apply Hlow; rewrite Hg; simpl; auto).
    auto 20.
  - left. split; [exact Hne|]. split.
    + split; [exact Hok|]. split; [exact Ht | lia].
    + intros b. apply (bcof_skip s i). exact Hne.
Qed.

Lemma bcof_low3 : forall id nd c b, find_node s id = Some nd -> nlevel nd = i -> In c (nchildren nd) ->
  b < 3 -> low (cof c b).
Proof.
  intros id nd c b E Hl Hc Hb.
  destruct (child_cases3 id nd c E Hl Hc)
    as [[_ [Hlow Hb']]|(cid & cn & g0 & g1 & g2 & _ & _ & _ & _ & _ & L0 & L1 & L2 & B0 & B1 & B2)].
  - rewrite Hb'. exact Hlow.
  - destruct b as [|[|[|b]]]; [rewrite B0; exact L0 | rewrite B1; exact L1 | rewrite B2; exact L2 | lia].
Qed.

(** the triple of cofactors determines the child *)
Lemma bcof_inj3 : forall id1 nd1 c id2 nd2 d,
  find_node s id1 = Some nd1 -> nlevel nd1 = i -> In c (nchildren nd1) ->
  find_node s id2 = Some nd2 -> nlevel nd2 = i -> In d (nchildren nd2) ->
  cof c 0 = cof d 0 -> cof c 1 = cof d 1 -> cof c 2 = cof d 2 -> c = d.
Proof.
  intros id1 nd1 c id2 nd2 d E1 L1 Hc E2 L2 Hd B0 B1 B2.
  destruct (child_cases3 id1 nd1 c E1 L1 Hc)
    as [[_ [_ Sc]]|(cid & cn & g0 & g1 & g2 & Ec & Fc & Lc & Cc & Nc & _ & _ & _ & C0 & C1 & C2)];
  destruct (child_cases3 id2 nd2 d E2 L2 Hd)
    as [[_ [_ Sd]]|(did & dn & h0 & h1 & h2 & Ed & Fd & Ld & Cd & Nd & _ & _ & _ & D0 & D1 & D2)].
  - rewrite (Sc 0), (Sd 0) in B0. exact B0.
  - exfalso. rewrite (Sc 0), D0 in B0. rewrite (Sc 1), D1 in B1. rewrite (Sc 2), D2 in B2.
    apply Nd. split; congruence.
  - exfalso. rewrite C0, (Sd 0) in B0. rewrite C1, (Sd 1) in B1. rewrite C2, (Sd 2) in B2.
    apply Nc. split; congruence.
  - rewrite C0, D0 in B0. rewrite C1, D1 in B1. rewrite C2, D2 in B2. subst g0 g1 g2.
    assert (cid = did).
    { apply (wf_unique s H cid did cn dn Fc Fd); congruence. }
    subst. reflexivity.
Qed.

(** a node of the upper level that references the lower level has a child whose three
    cofactors are not all equal: the rewritten node is not reduced away *)
Lemma dep_not_all3 : forall id nd c0 c1 c2, find_node s id = Some nd -> isdep nd -> nchildren nd = [c0; c1; c2] ->
  ~ (eq3 (cof c0 0) (cof c0 1) (cof c0 2) /\ eq3 (cof c1 0) (cof c1 1) (cof c1 2)
     /\ eq3 (cof c2 0) (cof c2 1) (cof c2 2)).
Proof.
  intros id nd c0 c1 c2 E [Hl Hd] Hc [A [B C]].
  apply depends_spec in Hd. destruct Hd as [e [He Hle]]. rewrite Hc in He.
  assert (Hcase : forall c, In c (nchildren nd) -> rlevel s (eref c) = S i -> ~ eq3 (cof c 0) (cof c 1) (cof c 2)).
  { intros c Hin Hlv.
    destruct (child_cases3 id nd c E Hl Hin)
      as [[Hne _]|(cid & cn & g0 & g1 & g2 & _ & _ & _ & _ & Hg & _ & _ & _ & B0 & B1 & B2)].
    - contradiction.
    - rewrite B0, B1, B2. exact Hg. }
  destruct He as [<-|[<-|[<-|[]]]].
  - apply (Hcase c0); [rewrite Hc; simpl; auto | exact Hle | exact A].
  - apply (Hcase c1); [rewrite Hc; simpl; auto | exact Hle | exact B].
  - apply (Hcase c2); [rewrite Hc; simpl; auto | exact Hle | exact C].
Qed.

(** ** the loop invariant *)

(** [e] is what [reduce] + lookup/insert on the new lower level returns for the children [x], [y], [z] *)
Definition rep3 (m : PositiveMap.t node) (x y z e : edge) : Prop :=
  (eq3 x y z /\ e = x)
  \/ (~ eq3 x y z /\ exists id nd, e = mkEdge (RN id) false /\ PositiveMap.find id m = Some nd
                              /\ nlevel nd = S i /\ nchildren nd = [x; y; z]).

(** a node created by the swap *)
Definition goodnew3 (nd : node) : Prop :=
  nlevel nd = S i /\ nstored nd = S i
  /\ exists x y z, nchildren nd = [x; y; z] /\ ~ eq3 x y z /\ low x /\ low y /\ low z.

Notation ext := (ext i).

Lemma rep3_ext : forall m m' x y z e, ext m m' -> rep3 m x y z e -> rep3 m' x y z e.
Proof.
  intros m m' x y z e Hx [A|[A [id [nd [B [C [D F]]]]]]]; [left; exact A | right].
  split; [exact A|]. exists id, nd. repeat split; auto.
Qed.

(** the rewritten form of a node of the upper level that references the lower level *)
Definition rebuilt3 (m : PositiveMap.t node) (id : positive) (nd : node) : Prop :=
  exists c0 c1 c2 e0 e1 e2, nchildren nd = [c0; c1; c2]
    /\ PositiveMap.find id m = Some (mkNode i [e0; e1; e2] i (nrc nd))
    /\ rep3 m (cof c0 0) (cof c1 0) (cof c2 0) e0
    /\ rep3 m (cof c0 1) (cof c1 1) (cof c2 1) e1
    /\ rep3 m (cof c0 2) (cof c1 2) (cof c2 2) e2.

Record InvT (P : list positive) (st : tstate) : Prop := mkInvT {
  invt_old : forall id nd, find_node s id = Some nd -> ~ In id P ->
      PositiveMap.find id (fst st) = Some (relabel s i nd);
  invt_done : forall id, In id P ->
      exists nd, find_node s id = Some nd /\ isdep nd /\ rebuilt3 (fst st) id nd;
  invt_new : forall id nd, PositiveMap.find id (fst st) = Some nd -> find_node s id = None ->
      goodnew3 nd /\ (id < snd st)%positive;
  invt_nxt : forall id nd, find_node s id = Some nd -> (id < snd st)%positive;
  invt_uniq : forall id1 id2 n1 n2,
      PositiveMap.find id1 (fst st) = Some n1 -> PositiveMap.find id2 (fst st) = Some n2 ->
      nlevel n1 = S i -> nlevel n2 = S i -> nchildren n1 = nchildren n2 -> id1 = id2
}.

Lemma invt_free : forall P st id, InvT P st -> (snd st <= id)%positive ->
  PositiveMap.find id (fst st) = None.
Proof.
  intros P st id I Hle. destruct (PositiveMap.find id (fst st)) as [nd|] eqn:E; [|reflexivity].
  exfalso. destruct (find_node s id) as [nd0|] eqn:E0.
  - pose proof (invt_nxt P st I id nd0 E0). lia.
  - destruct (invt_new P st I id nd E E0) as [_ Hlt]. lia.
Qed.

Lemma invt_init : InvT [] (st0 s i).
Proof.
  constructor; unfold st0; simpl.
  - intros id nd E _. rewrite find_map. unfold find_node in E. rewrite E. reflexivity.
  - intros id [].
  - intros id nd E E0. rewrite find_map in E. unfold find_node in E0. rewrite E0 in E. discriminate.
  - intros id nd E. apply (fresh_id_above _ _ _ E).
  - intros id1 id2 n1 n2 E1 E2 L1 L2 Hc. rewrite find_map in E1, E2.
    destruct (PositiveMap.find id1 (s_nodes s)) as [m1|] eqn:F1; [|discriminate].
    destruct (PositiveMap.find id2 (s_nodes s)) as [m2|] eqn:F2; [|discriminate].
    simpl in E1, E2. inversion E1; subst n1. inversion E2; subst n2. clear E1 E2.
    rewrite !relabel_children in Hc.
    apply (wf_unique s H id1 id2 m1 m2 F1 F2); [|exact Hc].
    destruct (relabel_cases s i m1) as [[A R]|[[A [_ R]]|[[[A _] R]|[A [B R]]]]]; rewrite R in L1; simpl in L1; try lia;
    destruct (relabel_cases s i m2) as [[A' R']|[[A' [_ R']]|[[[A' _] R']|[A' [B' R']]]]]; rewrite R' in L2; simpl in L2; try lia.
Qed.

(** [reduce] + [get_or_insert] on the new lower level *)
Lemma mk3_inv : forall P st x y z e st',
  InvT P st -> low x -> low y -> low z -> mk3 st (S i) x y z = (e, st') ->
  InvT P st' /\ rep3 (fst st') x y z e /\ ext (fst st) (fst st').
Proof.
  intros P [m nxt] x y z e st' I Lx Ly Lz. unfold mk3. simpl fst. simpl snd.
  destruct (edge_eqb x y && edge_eqb y z) eqn:Exy.
  { intros E. inversion E; subst. apply eq3_b in Exy.
    split; [exact I|]. split; [left; auto | apply ext_refl]. }
  assert (Hne : ~ eq3 x y z) by (intros Q; apply eq3_b in Q; congruence).
  destruct (find_at m (S i) [x; y; z]) as [id|] eqn:F.
  { intros E. inversion E; subst. destruct (find_at_some _ _ _ _ F) as [nd [A [B C]]].
    split; [exact I|]. split; [|apply ext_refl].
    right. split; [exact Hne|]. exists id, nd. auto. }
  intros E. inversion E; subst e st'. clear E. simpl fst. simpl snd.
  pose proof (invt_free P (m, nxt) nxt I (Pos.le_refl _)) as Hfree. simpl in Hfree.
  assert (Hext : ext m (PositiveMap.add nxt (mkNode (S i) [x; y; z] (S i) 0%N) m)).
  { intros id nd E _. rewrite find_add. destruct (Pos.eqb_spec id nxt); [congruence | exact E]. }
  split; [|split; [|exact Hext]].
  - constructor; simpl fst; simpl snd.
    + intros id nd E Hn. rewrite find_add.
      pose proof (invt_nxt _ _ I id nd E) as Hlt. simpl in Hlt.
      destruct (Pos.eqb_spec id nxt); [lia|]. apply (invt_old _ _ I id nd E Hn).
    + intros id Hp.
      destruct (invt_done _ _ I id Hp) as [nd [E [D [c0 [c1 [c2 [e0 [e1 [e2 [Hc [Hf [R0 [R1 R2]]]]]]]]]]]]].
      exists nd. split; [exact E|]. split; [exact D|]. exists c0, c1, c2, e0, e1, e2.
      simpl in Hf, R0, R1, R2. split; [exact Hc|]. split.
      * rewrite find_add. pose proof (invt_nxt _ _ I id nd E) as Hlt. simpl in Hlt.
        destruct (Pos.eqb_spec id nxt); [lia | exact Hf].
      * split; [|split]; eapply rep3_ext; eauto.
    + intros id nd E E0. rewrite find_add in E. destruct (Pos.eqb_spec id nxt) as [->|Hn].
      * inversion E; subst nd. split; [|lia].
        split; [reflexivity|]. split; [reflexivity|]. exists x, y, z. auto.
      * destruct (invt_new _ _ I id nd E E0) as [G Hlt]. simpl in Hlt. split; [exact G | lia].
    + intros id nd E. pose proof (invt_nxt _ _ I id nd E) as Hlt. simpl in Hlt. lia.
    + intros id1 id2 n1 n2 E1 E2 L1 L2 Hc. rewrite find_add in E1, E2.
      destruct (Pos.eqb_spec id1 nxt) as [->|N1]; destruct (Pos.eqb_spec id2 nxt) as [->|N2].
      * reflexivity.
      * exfalso. inversion E1; subst n1. simpl in Hc.
        apply (find_at_none _ _ _ F id2 n2 E2 L2). congruence.
      * exfalso. inversion E2; subst n2. simpl in Hc.
        apply (find_at_none _ _ _ F id1 n1 E1 L1). congruence.
      * apply (invt_uniq _ _ I id1 id2 n1 n2 E1 E2 L1 L2 Hc).
  - right. split; [exact Hne|]. exists nxt, (mkNode (S i) [x; y; z] (S i) 0%N).
    split; [reflexivity|]. split; [|split; reflexivity].
    rewrite find_add, Pos.eqb_refl. reflexivity.
Qed.

(** one iteration of the loop *)
Lemma rebuild3_inv : forall P st id nd,
  InvT P st -> find_node s id = Some nd -> isdep nd -> ~ In id P ->
  InvT (id :: P) (rebuild3 s i st id).
Proof.
  intros P st id nd I E D Hn. unfold rebuild3. rewrite E.
  destruct (tdd_children id nd E) as [c0 [c1 [c2 [Hc Hne]]]]. rewrite Hc.
  assert (Hin0 : In c0 (nchildren nd)) by (rewrite Hc; simpl; auto).
  assert (Hin1 : In c1 (nchildren nd)) by (rewrite Hc; simpl; auto).
  assert (Hin2 : In c2 (nchildren nd)) by (rewrite Hc; simpl; auto).
  destruct D as [Dl Dd].
  assert (Lw : forall c b, In c (nchildren nd) -> b < 3 -> low (cof c b))
    by (intros c b Hin Hb; apply (bcof_low3 id nd c b E Dl Hin Hb)).
  destruct (mk3 st (S i) (cof c0 0) (cof c1 0) (cof c2 0)) as [e0 st1] eqn:M0.
  destruct (mk3 st1 (S i) (cof c0 1) (cof c1 1) (cof c2 1)) as [e1 st2] eqn:M1.
  destruct (mk3 st2 (S i) (cof c0 2) (cof c1 2) (cof c2 2)) as [e2 st3] eqn:M2.
  destruct (mk3_inv P st _ _ _ e0 st1 I (Lw c0 0 Hin0 ltac:(lia)) (Lw c1 0 Hin1 ltac:(lia)) (Lw c2 0 Hin2 ltac:(lia)) M0)
    as [I1 [R0 X1]].
  destruct (mk3_inv P st1 _ _ _ e1 st2 I1 (Lw c0 1 Hin0 ltac:(lia)) (Lw c1 1 Hin1 ltac:(lia)) (Lw c2 1 Hin2 ltac:(lia)) M1)
    as [I2 [R1 X2]].
  destruct (mk3_inv P st2 _ _ _ e2 st3 I2 (Lw c0 2 Hin0 ltac:(lia)) (Lw c1 2 Hin1 ltac:(lia)) (Lw c2 2 Hin2 ltac:(lia)) M2)
    as [I3 [R2 X3]].
  pose proof (rep3_ext _ _ _ _ _ _ X3 (rep3_ext _ _ _ _ _ _ X2 R0)) as R0'.
  pose proof (rep3_ext _ _ _ _ _ _ X3 R1) as R1'.
  (* the node [id] still has its old form in [st3] *)
  pose proof (invt_old _ _ I3 id nd E Hn) as Hold. rewrite (relabel_dep s i nd (conj Dl Dd)) in Hold.
  set (nn := mkNode i [e0; e1; e2] i (nrc nd)).
  assert (Hext : ext (fst st3) (PositiveMap.add id nn (fst st3))).
  { intros k kd Ek Lk. rewrite find_add. destruct (Pos.eqb_spec k id) as [->|]; [|exact Ek].
    rewrite Hold in Ek. inversion Ek; subst kd. lia. }
  constructor; simpl fst; simpl snd.
  - intros k kd Ek Hnk. rewrite find_add. destruct (Pos.eqb_spec k id) as [->|Nk].
    + exfalso. apply Hnk. left. reflexivity.
    + apply (invt_old _ _ I3 k kd Ek). intros Hp. apply Hnk. right. exact Hp.
  - intros k [<-|Hp].
    + exists nd. split; [exact E|]. split; [split; assumption|].
      exists c0, c1, c2, e0, e1, e2. split; [exact Hc|]. split.
      * rewrite find_add, Pos.eqb_refl. reflexivity.
      * split; [|split]; eapply rep3_ext; eauto.
    + destruct (invt_done _ _ I3 k Hp) as [kd [Ek [Dk [d0 [d1 [d2 [f0 [f1 [f2 [Hd [Hf [Q0 [Q1 Q2]]]]]]]]]]]]].
      exists kd. split; [exact Ek|]. split; [exact Dk|]. exists d0, d1, d2, f0, f1, f2.
      split; [exact Hd|]. split.
      * rewrite find_add. destruct (Pos.eqb_spec k id) as [->|]; [contradiction | exact Hf].
      * split; [|split]; eapply rep3_ext; eauto.
  - intros k kd Ek E0. rewrite find_add in Ek. destruct (Pos.eqb_spec k id) as [->|Nk]; [congruence|].
    apply (invt_new _ _ I3 k kd Ek E0).
  - intros k kd Ek. apply (invt_nxt _ _ I3 k kd Ek).
  - intros id1 id2 n1 n2 E1 E2 L1 L2 Hcc. rewrite find_add in E1, E2.
    destruct (Pos.eqb_spec id1 id) as [->|N1].
    { inversion E1; subst n1. unfold nn in L1. simpl in L1. lia. }
    destruct (Pos.eqb_spec id2 id) as [->|N2].
    { inversion E2; subst n2. unfold nn in L2. simpl in L2. lia. }
    apply (invt_uniq _ _ I3 id1 id2 n1 n2 E1 E2 L1 L2 Hcc).
Qed.

Lemma fold3_inv : forall R P st,
  InvT P st -> NoDup R ->
  (forall id, In id R -> ~ In id P /\ exists nd, find_node s id = Some nd /\ isdep nd) ->
  InvT (rev R ++ P) (fold_left (rebuild3 s i) R st).
Proof.
  induction R as [|id R IH]; intros P st I Hnd HR; simpl; [exact I|].
  inversion Hnd as [|? ? Hid HndR]; subst.
  destruct (HR id (or_introl eq_refl)) as [HnP [nd [E D]]].
  rewrite <- app_assoc. simpl. apply IH.
  - apply (rebuild3_inv P st id nd I E D HnP).
  - exact HndR.
  - intros k Hkin. destruct (HR k (or_intror Hkin)) as [A B]. split; [|exact B].
    intros [<-|Hp]; [contradiction | contradiction].
Qed.

(** ** the table after the loop *)

Record SpecT (m : PositiveMap.t node) : Prop := mkSpecT {
  spect_old : forall id nd, find_node s id = Some nd -> ~ isdep nd ->
      PositiveMap.find id m = Some (relabel s i nd);
  spect_dep : forall id nd, find_node s id = Some nd -> isdep nd -> rebuilt3 m id nd;
  spect_new : forall id nd, PositiveMap.find id m = Some nd -> find_node s id = None -> goodnew3 nd;
  spect_uniq : forall id1 id2 n1 n2,
      PositiveMap.find id1 m = Some n1 -> PositiveMap.find id2 m = Some n2 ->
      nlevel n1 = S i -> nlevel n2 = S i -> nchildren n1 = nchildren n2 -> id1 = id2
}.

Theorem swap_nodes_t_spec : SpecT (swap_nodes_t s i).
Proof.
  unfold swap_nodes_t.
  pose proof (fold3_inv (dep_ids s i) [] (st0 s i) invt_init (dep_ids_nodup s i)) as I.
  assert (HR : forall id, In id (dep_ids s i) ->
             ~ In id [] /\ exists nd, find_node s id = Some nd /\ isdep nd).
  { intros id Hin. split; [intros []|]. apply dep_ids_spec. exact Hin. }
  specialize (I HR). rewrite app_nil_r in I. fold (st0 s i).
  set (st := fold_left (rebuild3 s i) (dep_ids s i) (st0 s i)) in *.
  constructor.
  - intros id nd E Hnd. apply (invt_old _ _ I id nd E).
    intros Hin. apply in_rev in Hin. apply dep_ids_spec in Hin. destruct Hin as [nd' [E' D']].
    rewrite E in E'. inversion E'; subst nd'. contradiction.
  - intros id nd E D.
    assert (Hin : In id (rev (dep_ids s i))).
    { apply in_rev. rewrite rev_involutive. apply dep_ids_spec. eauto. }
    destruct (invt_done _ _ I id Hin) as [nd' [E' [_ R]]].
    rewrite E in E'. inversion E'; subst nd'. exact R.
  - intros id nd E E0. apply (invt_new _ _ I id nd E E0).
  - apply (invt_uniq _ _ I).
Qed.

End SwapT.
