(** * C08, part T — a sequence of adjacent level swaps of a TDD: [set_var_order_model_t]

    The counterparts of Mgr/LevelSwapOrder.v for ternary nodes: [tswaps_fold],
    [set_var_order_model_t_correct] / [_respects] / [_canonical], and an example on which the
    loop rewrites a node (one child on the lower level, two children skipping it), creates
    three nodes and removes one. *)

From Coq Require Import List NArith PArith Bool Arith Lia FMapPositive Permutation.
From OxiVerif Require Import DD.Table DD.TableProofs DD.Canon Mgr.SortOrder Mgr.SortOrderProofs
  Mgr.LevelSwap Mgr.LevelSwapBase Mgr.LevelSwapProofs Mgr.LevelSwapOrder
  Mgr.LevelSwapT Mgr.LevelSwapTProofs.
Import ListNotations.

(** ** a sequence of swaps *)

Theorem tswaps_fold : forall sw s,
  WF s -> s_kind s = KTdd -> Forall (fun k => S k < nlevels s) sw ->
  let s' := fold_left level_swap_t sw s in
  WF s' /\ s_kind s' = s_kind s /\ nlevels s' = nlevels s /\ s_handles s' = s_handles s
  /\ s_l2v s' = replay sw (s_l2v s)
  /\ (forall h a, tasg_ok a -> In h (s_handles s) ->
        teval_vars s' (snd h) a = teval_vars s (snd h) a /\ exists v, teval_vars s (snd h) a = Some v).
Proof.
  induction sw as [|k sw IH]; intros s H Hk Hsw; simpl.
  - split; [exact H|]. split; [reflexivity|]. split; [reflexivity|]. split; [reflexivity|]. split; [reflexivity|].
    intros h a Ha Hh. split; [reflexivity|].
    destruct (wf_handles s H h Hh) as [Ok _]. unfold teval_vars.
    apply (sem_total s H); [exact Ok | apply tasg_choice_ok; assumption].
  - inversion Hsw as [|? ? Hk0 Hsw']; subst.
    pose proof (level_swap_t_wf s k H Hk Hk0) as H1.
    pose proof (level_swap_t_nlevels s k H Hk Hk0) as N1.
    assert (Hsw1 : Forall (fun k0 => S k0 < nlevels (level_swap_t s k)) sw).
    { rewrite N1. exact Hsw'. }
    destruct (IH (level_swap_t s k) H1 Hk Hsw1) as [A [B [C [D [F G]]]]].
    split; [exact A|]. split; [exact B|]. split; [rewrite C; exact N1|]. split; [exact D|].
    split; [exact F|].
    intros h a Ha Hh.
    destruct (level_swap_t_handles_vars s k H Hk Hk0 h a Ha Hh) as [P Q].
    split; [|exact Q]. destruct (G h a Ha Hh) as [G1 _]. rewrite G1. exact P.
Qed.

(** ** [set_var_order_model_t] *)

Section OrderT.
Variable s : snap.
Variable order : list nat.
Hypothesis H : WF s.
Hypothesis Hk : s_kind s = KTdd.
(* the requests on which [set_var_order] does not panic: variables in range, none twice *)
Hypothesis Hnd : NoDup order.
Hypothesis Hr : Forall (fun v => v < nlevels s) order.

Let n := nlevels s.
Let levels := map (fun v => nth v (s_v2l s) 0) order.
Let target := sort_order n levels.
Let s' := set_var_order_model_t s order.

Lemma tlevels_valid : valid_order n levels.
Proof. apply valid_order_levels; assumption. Qed.

Theorem set_var_order_model_t_correct :
  WF s' /\ s_kind s' = s_kind s /\ nlevels s' = n /\ s_handles s' = s_handles s
  /\ (forall h a, tasg_ok a -> In h (s_handles s) ->
        teval_vars s' (snd h) a = teval_vars s (snd h) a /\ exists v, teval_vars s (snd h) a = Some v)
  /\ (forall v, v < n -> nth v (s_v2l s') 0 = nth (nth v (s_v2l s) 0) target 0)
  /\ length (snd (bubble_sort target)) = inv target.
Proof.
  pose proof tlevels_valid as Hv.
  unfold s', set_var_order_model_t. fold n. fold levels. fold target.
  pose proof (bubble_sort_correct target) as Hb.
  destruct (bubble_sort target) as [t' sw] eqn:Eb. simpl snd.
  destruct Hb as [Hsorted [Hperm [Hvalid [Hreplay Hcount]]]].
  assert (Hlen : length target = n) by (apply sort_order_length; exact Hv).
  assert (Hsw : Forall (fun k => S k < nlevels s) sw).
  { pose proof (valid_swaps_range target sw Hvalid) as R. rewrite Hlen in R. exact R. }
  destruct (tswaps_fold sw s H Hk Hsw) as [A [B [C [D [F G]]]]].
  set (sf := fold_left level_swap_t sw s) in *.
  split; [exact A|]. split; [exact B|]. split; [exact C|]. split; [exact D|]. split; [exact G|].
  split; [|exact Hcount].
  set (key := fun v => nth (nth v (s_v2l s) 0) target 0).
  assert (Hkey : map key (s_l2v s) = target).
  { apply (list_ext _ _ 0); [rewrite map_length; symmetry; exact Hlen|].
    intros l Hl. rewrite map_length in Hl.
    rewrite (nth_indep _ 0 (key 0)) by (rewrite map_length; exact Hl).
    rewrite map_nth. unfold key. destruct (wf_l2v_v2l s l H Hl) as [_ X]. rewrite X. reflexivity. }
  assert (Ht' : t' = seq 0 n).
  { apply sorted_perm_seq; [exact Hsorted|].
    eapply Permutation_trans; [exact Hperm | apply sort_order_perm; exact Hv]. }
  assert (Hfinal : map key (s_l2v sf) = seq 0 n).
  { rewrite F, <- replay_map, Hkey, Hreplay. exact Ht'. }
  intros v Hvn. unfold n in Hvn. rewrite <- C in Hvn.
  destruct (wf_v2l_l2v sf v A Hvn) as [Plt Pinv].
  set (p := nth v (s_v2l sf) 0) in *.
  assert (Hp : nth p (map key (s_l2v sf)) 0 = p).
  { rewrite Hfinal. rewrite C in Plt. rewrite seq_nth by exact Plt. reflexivity. }
  rewrite (nth_indep _ 0 (key 0)) in Hp by (rewrite map_length; exact Plt).
  rewrite map_nth, Pinv in Hp. unfold key in Hp. symmetry. exact Hp.
Qed.

(** the variables named in the request end up in the requested relative order *)
Theorem set_var_order_model_t_respects : forall a b, a < b < length order ->
  nth (nth a order 0) (s_v2l s') 0 < nth (nth b order 0) (s_v2l s') 0.
Proof.
  intros a b Hab.
  destruct set_var_order_model_t_correct as [_ [_ [_ [_ [_ [Hpos _]]]]]].
  assert (Hin : forall k, k < length order ->
            nth k order 0 < n /\ nth k levels 0 = nth (nth k order 0) (s_v2l s) 0).
  { intros k Hkl. split.
    - rewrite Forall_forall in Hr. apply Hr. apply nth_In. exact Hkl.
    - unfold levels. apply (nth_map_in _ _ (fun v => nth v (s_v2l s) 0)). exact Hkl. }
  destruct (Hin a ltac:(lia)) as [Ra La]. destruct (Hin b ltac:(lia)) as [Rb Lb].
  rewrite (Hpos _ Ra), (Hpos _ Rb), <- La, <- Lb.
  apply (sort_order_respects n levels tlevels_valid a b).
  unfold levels. rewrite map_length. exact Hab.
Qed.

(** the reordered diagram is canonical again (the theorem of C01 applies to the result) *)
Theorem set_var_order_model_t_canonical : forall h1 h2,
  In h1 (s_handles s) -> In h2 (s_handles s) ->
  (snd h1 = snd h2 <->
   forall c, choice_ok s' c -> sem_edge s' (snd h1) c = sem_edge s' (snd h2) c).
Proof.
  intros h1 h2 H1 H2.
  destruct set_var_order_model_t_correct as [A [B [_ [D _]]]].
  apply (canon_kary_handles s' A).
  - rewrite B, Hk. split; discriminate.
  - rewrite D. exact H1.
  - rewrite D. exact H2.
Qed.

End OrderT.

(** ** the hypotheses are satisfiable; the loop does something *)

(** three variables; terminals 0 = False, 1 = Unknown, 2 = True (value codes = ids);
    node 1 = x2 (level 2), node 2 (level 1) = [node 1; Unknown; False],
    node 3 (level 0) = [node 2; Unknown; node 1]: its true-child lies on level 1, the other two
    children skip it.  Handles: node 3 and node 1. *)
Definition tex_e (r : ref) : edge := mkEdge r false.

Definition tex_swap : snap :=
  mkSnap KTdd
    (PositiveMap.add 3%positive (mkNode 0 [tex_e (RN 2); tex_e (RT 1); tex_e (RN 1)] 0 1)
    (PositiveMap.add 2%positive (mkNode 1 [tex_e (RN 1); tex_e (RT 1); tex_e (RT 0)] 1 1)
    (PositiveMap.add 1%positive (mkNode 2 [tex_e (RT 2); tex_e (RT 1); tex_e (RT 0)] 2 3)
       (PositiveMap.empty node))))
    [(0%N, 0%N); (1%N, 1%N); (2%N, 2%N)]
    [0; 1; 2] [0; 1; 2]
    [(0%N, tex_e (RN 3)); (1%N, tex_e (RN 1))].

Example tex_swap_WF : WF tex_swap.
Proof. apply wf_b_spec. vm_compute. reflexivity. Qed.

(** swapping levels 0 and 1: node 3 is rewritten, its three new children are new nodes of
    level 1 (ids 4, 5, 6: the columns (node 1, Unknown, node 1), (Unknown, Unknown, node 1),
    (False, Unknown, node 1) of the cofactor matrix), node 2 loses its last reference and is
    removed, node 1 is not touched *)
Example tex_swap_all :
  WF tex_swap /\ s_kind tex_swap = KTdd /\ 1 < nlevels tex_swap
  /\ dep_ids tex_swap 0 = [3]%positive
  /\ (let z := level_swap_t tex_swap 0 in
      find_node z 3 = Some (mkNode 0 [tex_e (RN 4); tex_e (RN 5); tex_e (RN 6)] 0 1)
      /\ find_node z 4 = Some (mkNode 1 [tex_e (RN 1); tex_e (RT 1); tex_e (RN 1)] 1 0)
      /\ find_node z 5 = Some (mkNode 1 [tex_e (RT 1); tex_e (RT 1); tex_e (RN 1)] 1 0)
      /\ find_node z 6 = Some (mkNode 1 [tex_e (RT 0); tex_e (RT 1); tex_e (RN 1)] 1 0)
      /\ find_node z 2 = None
      /\ find_node z 1 = Some (mkNode 2 [tex_e (RT 2); tex_e (RT 1); tex_e (RT 0)] 2 3)
      /\ PositiveMap.cardinal (s_nodes z) = 5
      /\ s_v2l z = [1; 0; 2] /\ s_l2v z = [1; 0; 2])
  /\ s_v2l (set_var_order_model_t tex_swap [2; 1; 0]) = [2; 1; 0]
  /\ NoDup [2; 1; 0] /\ Forall (fun v => v < nlevels tex_swap) [2; 1; 0].
Proof.
  split; [exact tex_swap_WF|]. split; [reflexivity|]. split; [vm_compute; lia|].
  split; [vm_compute; reflexivity|].
  split; [vm_compute; repeat split; reflexivity|].
  split; [vm_compute; reflexivity|].
  split.
  - repeat constructor; simpl; intuition lia.
  - repeat constructor; vm_compute; lia.
Qed.

(** ** statements as they appear in Props/C08.v *)

Theorem level_swap_t_maps_all : forall s i,
  WF s -> s_kind s = KTdd -> S i < nlevels s ->
  s_l2v (level_swap_t s i) = swap_adj i (s_l2v s)
  /\ s_v2l (level_swap_t s i) = map (swap_idx i) (s_v2l s)
  /\ (forall l, nth_error (s_l2v (level_swap_t s i)) l = nth_error (s_l2v s) (swap_idx i l))
  /\ (forall v, nth_error (s_v2l (level_swap_t s i)) v = option_map (swap_idx i) (nth_error (s_v2l s) v)).
Proof. intros s i _ _. exact (level_swap_t_maps s i). Qed.

Theorem level_swap_t_handles_both : forall s i,
  WF s -> s_kind s = KTdd -> S i < nlevels s ->
  forall h, In h (s_handles s) ->
    In h (s_handles (level_swap_t s i)) /\ ref_ok (level_swap_t s i) (eref (snd h)).
Proof. intros s i H Hk Hi h Hh. exact (conj Hh (level_swap_t_handle_ok s i H Hk Hi h Hh)). Qed.
