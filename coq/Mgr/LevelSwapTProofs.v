(** * C08, part T — theorems about [level_swap_t] (Mgr/LevelSwapT.v), TDD kind (ternary nodes)

    For a well-formed TDD table [s] and two adjacent levels [i], [i+1]: the counterparts of
    the theorems of Mgr/LevelSwapProofs.v.  A variable assignment is ternary:
    [a v] = 0 (true), 1 (unknown), 2 (false) = the child index taken at the variable's node;
    [teval_vars s e a] is the value code (0 False, 1 Unknown, 2 True) of the edge [e] under [a]. *)

From Coq Require Import List NArith PArith Bool Arith Lia FMapPositive.
From OxiVerif Require Import DD.Table DD.TableExtra DD.TableProofs DD.Canon Mgr.SortOrder Mgr.SortOrderProofs
  Mgr.LevelSwap Mgr.LevelSwapBase Mgr.LevelSwapInv Mgr.LevelSwapSem Mgr.LevelSwapProofs
  Mgr.LevelSwapZSub Mgr.LevelSwapT Mgr.LevelSwapTInv Mgr.LevelSwapTWF Mgr.LevelSwapTSem.
Import ListNotations.

(** ** functions over ternary variable assignments *)

(** the choice function (child index per level) of a ternary assignment of the variables *)
Definition tasg_choice (s : snap) (a : nat -> nat) : nat -> nat :=
  fun l => a (nth l (s_l2v s) 0).

Definition tasg_ok (a : nat -> nat) : Prop := forall v, a v < 3.

(** the value of the edge [e] of the table [s] under the ternary assignment [a] of the VARIABLES *)
Definition teval_vars (s : snap) (e : edge) (a : nat -> nat) : option N :=
  sem_edge s e (tasg_choice s a).

Lemma tasg_choice_ok : forall s a, s_kind s = KTdd -> tasg_ok a -> choice_ok s (tasg_choice s a).
Proof. intros s a Hk Ha l. rewrite Hk. apply Ha. Qed.

Lemma sem_edge_tdd : forall s e c, s_kind s = KTdd -> sem_edge s e c = semn s (eref e) c.
Proof. intros s e c Hk. unfold sem_edge, semn. rewrite Hk. reflexivity. Qed.

(** removing unreferenced nodes changes no interpretation *)
Lemma subsnap_semk : forall s s', subsnap s s' ->
  forall f r c, ref_ok s' r -> semk s' f r c = semk s f r c.
Proof.
  intros s s' X. induction f as [|f IH]; intros r c Ok.
  - destruct r as [t|id]; [rewrite !semk_T; apply (sub_term_val _ _ t X) | reflexivity].
  - destruct r as [t|id]; [rewrite !semk_T; apply (sub_term_val _ _ t X)|].
    destruct Ok as [nd E]. rewrite !semk_S, E, (sub_nodes _ _ X id nd E).
    destruct (nth_error (nchildren nd) (c (nlevel nd))) as [e|] eqn:He; [|reflexivity].
    apply IH. apply (sub_child _ _ X id nd e E). eapply nth_error_In. exact He.
Qed.

Section SwapT.
Variable s : snap.
Variable i : nat.
Hypothesis H : WF s.
Hypothesis Hk : s_kind s = KTdd.
Hypothesis Hi : S i < nlevels s.

Let s1 := level_swap_tcore s i.
Let s2 := level_swap_t s i.
Let H1 : WF s1 := tcore_wf s i H Hk Hi.

(** the nodes that [sweep] removes *)
Definition tremoved : list positive :=
  filter (fun id => negb (referenced (swap_nodes_t s i) (s_handles s) id)) (dropped_children s i).

Lemma ts2 : s2 = without s1 tremoved.
Proof. reflexivity. Qed.

Lemma tremoved_spec : forall id, In id tremoved ->
  referenced (s_nodes s1) (s_handles s1) id = false /\ rlevel s (RN id) = S i.
Proof.
  intros id Hin. unfold tremoved in Hin. apply filter_In in Hin. destruct Hin as [A Bn].
  apply negb_true_iff in Bn. split; [exact Bn | apply (dropped_lower s i); exact A].
Qed.

Lemma tsub12 : subsnap s1 s2.
Proof.
  rewrite ts2. apply (without_subsnap s1 tremoved H1).
  intros id Hin. apply (tremoved_spec id Hin).
Qed.

Lemma tfind2 : forall id,
  find_node s2 id = if existsb (Pos.eqb id) tremoved then None else find_node s1 id.
Proof. intros id. rewrite ts2. apply find_without. Qed.

(** (a) well-formedness *)
Theorem level_swap_t_wf : WF (level_swap_t s i).
Proof. apply (subsnap_wf s1 s2 H1 tsub12). Qed.

Theorem level_swap_t_kind : s_kind (level_swap_t s i) = s_kind s.
Proof. reflexivity. Qed.

Theorem level_swap_t_nlevels : nlevels (level_swap_t s i) = nlevels s.
Proof. change (nlevels s2 = nlevels s). rewrite (sub_nlevels _ _ tsub12). apply (tnlevels1 s i). Qed.

(** the two maps are those of [s] with the levels [i] and [i+1] exchanged *)
Theorem level_swap_t_maps :
  s_l2v (level_swap_t s i) = swap_adj i (s_l2v s)
  /\ s_v2l (level_swap_t s i) = map (swap_idx i) (s_v2l s)
  /\ (forall l, nth_error (s_l2v (level_swap_t s i)) l = nth_error (s_l2v s) (swap_idx i l))
  /\ (forall v, nth_error (s_v2l (level_swap_t s i)) v = option_map (swap_idx i) (nth_error (s_v2l s) v)).
Proof.
  split; [reflexivity|]. split; [reflexivity|]. split.
  - intros l. apply nth_error_swap_adj. exact Hi.
  - intros v. apply nth_error_map.
Qed.

(** (c) handles *)
Theorem level_swap_t_handles : s_handles (level_swap_t s i) = s_handles s.
Proof. reflexivity. Qed.

Theorem level_swap_t_handle_ok : forall h, In h (s_handles s) -> ref_ok (level_swap_t s i) (eref (snd h)).
Proof. intros h Hh. apply (sub_hok _ _ tsub12). exact Hh. Qed.

Theorem level_swap_t_child_ok : forall id nd e,
  find_node (level_swap_t s i) id = Some nd -> In e (nchildren nd) -> ref_ok (level_swap_t s i) (eref e).
Proof. apply (sub_child _ _ tsub12). Qed.

(** the only nodes that disappear: nodes of the old lower level that lost their last reference *)
Theorem level_swap_t_removed_only : forall id nd, find_node s id = Some nd ->
  find_node (level_swap_t s i) id = None ->
  nlevel nd = S i /\ In id (dropped_children s i)
  /\ referenced (swap_nodes_t s i) (s_handles s) id = false.
Proof.
  intros id nd E E2. change (find_node s2 id = None) in E2. rewrite tfind2 in E2.
  destruct (existsb (Pos.eqb id) tremoved) eqn:X.
  - apply existsb_pos_In in X. destruct (tremoved_spec id X) as [A Bl].
    simpl in Bl. rewrite E in Bl. split; [exact Bl|]. split; [|exact A].
    unfold tremoved in X. apply filter_In in X. apply X.
  - exfalso. destruct (told_stays s i H Hk Hi id nd E) as [nd' [E' _]].
    change (find_node s1 id) with (PositiveMap.find id (swap_nodes_t s i)) in E2. congruence.
Qed.

(** (d) the other levels are not touched *)
Theorem level_swap_t_untouched : forall id nd, find_node s id = Some nd ->
  nlevel nd <> i -> nlevel nd <> S i -> find_node (level_swap_t s i) id = Some nd.
Proof.
  intros id nd E A Bn. change (find_node s2 id = Some nd).
  destruct (told_stays s i H Hk Hi id nd E) as [nd' [E' [[C _]|[[C _]|[_ [_ ->]]]]]]; try contradiction.
  rewrite tfind2. destruct (existsb (Pos.eqb id) tremoved) eqn:X; [|exact E'].
  apply existsb_pos_In in X. destruct (tremoved_spec id X) as [_ L]. simpl in L. rewrite E in L. contradiction.
Qed.

Theorem level_swap_t_untouched_rev : forall id nd, find_node (level_swap_t s i) id = Some nd ->
  nlevel nd <> i -> nlevel nd <> S i -> find_node s id = Some nd.
Proof.
  intros id nd E A Bn. apply (sub_nodes _ _ tsub12) in E.
  destruct (tfind_cases s i H Hk Hi id nd E)
    as [[nd0 [E0 [D ->]]]|[(nd0 & c0 & c1 & c2 & e0 & e1 & e2 & E0 & D & Hc & -> & _)|[E0 G]]].
  - destruct (relabel_cases s i nd0) as [[X R]|[[X [_ R]]|[[X R]|[X [Y R]]]]]; rewrite R in *; simpl in *;
      try contradiction; try lia. exact E0.
  - simpl in A. contradiction.
  - destruct G as [G _]. contradiction.
Qed.

(** (b) preservation of the functions, over levels *)
Theorem level_swap_t_sem_levels : forall e c,
  ref_ok s (eref e) -> ref_ok (level_swap_t s i) (eref e) -> choice_ok s c ->
  sem_edge (level_swap_t s i) e (swap_choice i c) = sem_edge s e c.
Proof.
  intros e c Ok Ok2 Hc. rewrite (sem_edge_tdd (level_swap_t s i) _ _ Hk), (sem_edge_tdd s _ _ Hk).
  unfold semn at 1. change (level_swap_t s i) with s2.
  rewrite (subsnap_semk s1 s2 tsub12 _ _ _ Ok2), (sub_nlevels _ _ tsub12).
  apply (tcore_sem s i H Hk Hi (nlevels s) (eref e) c Ok Hc). lia.
Qed.

Lemma tasg_choice_swap : forall a l,
  tasg_choice (level_swap_t s i) a l = swap_choice i (tasg_choice s a) l.
Proof.
  intros a l. unfold tasg_choice, swap_choice.
  change (s_l2v (level_swap_t s i)) with (swap_adj i (s_l2v s)).
  rewrite nth_swap_adj by exact Hi. unfold swap_idx.
  destruct (Nat.eqb l i); [reflexivity|]. destruct (Nat.eqb l (S i)); reflexivity.
Qed.

(** (b) headline: the function over the (ternary) VARIABLES is unchanged *)
Theorem level_swap_t_sem_vars : forall e a, tasg_ok a ->
  ref_ok s (eref e) -> ref_ok (level_swap_t s i) (eref e) ->
  teval_vars (level_swap_t s i) e a = teval_vars s e a.
Proof.
  intros e a Ha Ok Ok2. unfold teval_vars.
  rewrite <- (level_swap_t_sem_levels e (tasg_choice s a) Ok Ok2 (tasg_choice_ok s a Hk Ha)).
  rewrite !(sem_edge_tdd (level_swap_t s i) _ _ Hk). unfold semn.
  apply (semk_ext _ level_swap_t_wf). intros l _. apply tasg_choice_swap.
Qed.

Theorem level_swap_t_handles_vars : forall h a, tasg_ok a -> In h (s_handles s) ->
  teval_vars (level_swap_t s i) (snd h) a = teval_vars s (snd h) a
  /\ exists v, teval_vars s (snd h) a = Some v.
Proof.
  intros h a Ha Hh. destruct (wf_handles s H h Hh) as [Ok _]. split.
  - apply level_swap_t_sem_vars; [exact Ha | exact Ok | apply level_swap_t_handle_ok; exact Hh].
  - unfold teval_vars. apply (sem_total s H); [exact Ok | apply tasg_choice_ok; assumption].
Qed.

End SwapT.
