(** * C08, part T — [level_swap_tcore] preserves the function of every edge (TDD kind)

    For every reference [r] stored before the swap and every choice function [c] (child
    index 0 = true, 1 = unknown, 2 = false per LEVEL): the interpretation ([semk]) of [r] in
    the new table under [c] with the entries of the two levels exchanged equals the
    interpretation in the old table under [c]. *)

From Coq Require Import List NArith PArith Bool Arith Lia FMapPositive.
From OxiVerif Require Import DD.Table DD.TableProofs DD.Canon Mgr.SortOrder Mgr.SortOrderProofs
  Mgr.LevelSwap Mgr.LevelSwapBase Mgr.LevelSwapInv Mgr.LevelSwapSem
  Mgr.LevelSwapT Mgr.LevelSwapTInv Mgr.LevelSwapTWF.
Import ListNotations.

Lemma pick3 : forall (a b c : edge) k, k < 3 -> nth_error [a; b; c] k = Some (nth k [a; b; c] a).
Proof. intros a b c [|[|[|k]]] Hk'; [reflexivity | reflexivity | reflexivity | lia]. Qed.

Section SemT.
Variable s : snap.
Variable i : nat.
Hypothesis H : WF s.
Hypothesis Hk : s_kind s = KTdd.
Hypothesis Hi : S i < nlevels s.

Let s1 := level_swap_tcore s i.
Let M := swap_nodes_t s i.
Let H1 : WF s1 := tcore_wf s i H Hk Hi.

Notation low := (low s i).
Notation isdep := (isdep s i).
Notation rep3 := (rep3 i).
Notation cof := (bcof s (S i)).

Lemma choice3 : forall c l, choice_ok s c -> c l < 3.
Proof. intros c l Hc. specialize (Hc l). rewrite Hk in Hc. exact Hc. Qed.

(** the result of [reduce] + lookup on the new lower level, evaluated *)
Lemma rep3_sem : forall x y z e c' b, rep3 M x y z e -> b < 3 -> c' (S i) = b ->
  semn s1 (eref e) c' = semn s1 (eref (nth b [x; y; z] x)) c'.
Proof.
  intros x y z e c' b [[[-> ->] ->]|[A [id [nd [-> [E [L C]]]]]]] Hb Hc'.
  - destruct b as [|[|[|b]]]; [reflexivity | reflexivity | reflexivity | lia].
  - simpl eref at 1. apply (semn_node s1 H1 id nd _ c' E). rewrite L, Hc', C. apply pick3. exact Hb.
Qed.

(** a child of a node of the upper level, evaluated: its cofactor w.r.t. the lower level *)
Lemma cof_sem3 : forall id nd c cc b2, find_node s id = Some nd -> nlevel nd = i -> In c (nchildren nd) ->
  b2 < 3 -> cc (S i) = b2 -> semn s (eref c) cc = semn s (eref (cof c b2)) cc.
Proof.
  intros id nd c cc b2 E Hl Hc Hb Hcc.
  destruct (child_cases3 s i H Hk Hi id nd c E Hl Hc)
    as [[_ [_ Sk]]|(cid & cn & g0 & g1 & g2 & -> & Ec & Lc & Cc & _ & _ & _ & _ & B0 & B1 & B2)].
  - rewrite Sk. reflexivity.
  - simpl eref at 1. apply (semn_node s H cid cn _ cc Ec). rewrite Lc, Hcc, Cc.
    destruct b2 as [|[|[|b2]]]; [rewrite B0 | rewrite B1 | rewrite B2 | lia]; reflexivity.
Qed.

Theorem tcore_sem : forall k r c, ref_ok s r -> choice_ok s c -> nlevels s - rlevel s r <= k ->
  semn s1 r (swap_choice i c) = semn s r c.
Proof.
  induction k as [k IH] using lt_wf_ind. intros r c Hok Hc Hm.
  destruct r as [t|id].
  { unfold semn. rewrite !semk_T. reflexivity. }
  destruct Hok as [nd E].
  destruct (tdd_children s H Hk id nd E) as (c0 & c1 & c2 & Hch & Hne).
  pose proof (wf_level s H id nd E) as Hlv.
  rewrite (rlevel_node s id nd E) in Hm.
  pose proof (choice3 c (nlevel nd) Hc) as Hb.
  (* the induction hypothesis for everything strictly below the node *)
  assert (IH' : forall r', ref_ok s r' -> nlevel nd < rlevel s r' ->
                   semn s1 r' (swap_choice i c) = semn s r' c).
  { intros r' Ok' Lt'. apply (IH (nlevels s - rlevel s r')); [|exact Ok' | exact Hc | lia].
    pose proof (rlevel_le s H r'). lia. }
  set (cb := nth (c (nlevel nd)) [c0; c1; c2] c0).
  assert (Hcb : nth_error (nchildren nd) (c (nlevel nd)) = Some cb).
  { rewrite Hch. apply pick3. exact Hb. }
  assert (Hin : In cb (nchildren nd)) by (eapply nth_error_In; exact Hcb).
  destruct (wf_child s H id nd cb E Hin) as [Okb Ltb].
  rewrite (semn_node s H id nd cb c E Hcb).
  destruct (isdep_dec s i nd) as [D|D].
  - (* the node is rewritten *)
    destruct D as [Dl Dd].
    destruct (spect_dep s i M (swap_nodes_t_spec s i H Hk Hi) id nd E (conj Dl Dd))
      as (d0 & d1 & d2 & e0 & e1 & e2 & Hd & Hf & R0 & R1 & R2).
    rewrite Hch in Hd. inversion Hd; subst d0 d1 d2. clear Hd.
    set (b2 := c (S i)).
    assert (Hb2 : b2 < 3) by (apply choice3; exact Hc).
    pose proof (dep_lows3 s i H Hk Hi id nd c0 c1 c2 E (conj Dl Dd) Hch) as Lw.
    rewrite (cof_sem3 id nd cb c b2 E Dl Hin Hb2 eq_refl).
    assert (Hsw : swap_choice i c (S i) = c (nlevel nd)).
    { unfold swap_choice. rewrite swap_idx_Si, Dl. reflexivity. }
    assert (Hsi : swap_choice i c i = b2).
    { unfold swap_choice. rewrite swap_idx_i. reflexivity. }
    set (nn := mkNode i [e0; e1; e2] i (nrc nd)) in *.
    set (eb := nth b2 [e0; e1; e2] e0).
    assert (Heb : nth_error (nchildren nn) (swap_choice i c (nlevel nn)) = Some eb).
    { simpl. rewrite Hsi. apply pick3. exact Hb2. }
    rewrite (semn_node s1 H1 id nn eb (swap_choice i c) Hf Heb).
    assert (Fin : forall x, low x -> semn s1 (eref x) (swap_choice i c) = semn s (eref x) c).
    { intros x [A [_ X]]. apply IH'; [exact A | lia]. }
    assert (Lcb : forall b, b < 3 -> low (cof cb b)).
    { intros b Hb3. apply Lw; [|exact Hb3]. rewrite <- Hch. exact Hin. }
    unfold eb, cb.
    destruct b2 as [|[|[|b2']]] eqn:Eb2; [| | |lia]; cbn [nth].
    + rewrite (rep3_sem _ _ _ e0 (swap_choice i c) (c (nlevel nd)) R0 Hb Hsw).
      destruct (c (nlevel nd)) as [|[|[|q]]]; [| | |lia]; cbn [nth]; apply Fin; apply Lw; simpl; auto.
    + rewrite (rep3_sem _ _ _ e1 (swap_choice i c) (c (nlevel nd)) R1 Hb Hsw).
      destruct (c (nlevel nd)) as [|[|[|q]]]; [| | |lia]; cbn [nth]; apply Fin; apply Lw; simpl; auto.
    + rewrite (rep3_sem _ _ _ e2 (swap_choice i c) (c (nlevel nd)) R2 Hb Hsw).
      destruct (c (nlevel nd)) as [|[|[|q]]]; [| | |lia]; cbn [nth]; apply Fin; apply Lw; simpl; auto.
  - (* the node only changes its level *)
    pose proof (spect_old s i M (swap_nodes_t_spec s i H Hk Hi) id nd E D) as Hf.
    assert (Hsw : swap_choice i c (nlevel (relabel s i nd)) = c (nlevel nd)).
    { unfold swap_choice.
      destruct (relabel_cases s i nd) as [[A R]|[[A [_ R]]|[[A R]|[A [B R]]]]]; rewrite R; simpl.
      - rewrite swap_idx_i, A. reflexivity.
      - rewrite swap_idx_Si, A. reflexivity.
      - contradiction.
      - rewrite swap_idx_other by assumption. reflexivity. }
    rewrite (semn_node s1 H1 id (relabel s i nd) cb (swap_choice i c) Hf)
      by (rewrite Hsw, relabel_children; exact Hcb).
    apply IH'; assumption.
Qed.

End SemT.
