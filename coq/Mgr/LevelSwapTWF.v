(** * C08, part T — [level_swap_tcore] keeps a TDD table well-formed

    From the relational specification [SpecT] of the node table after the loop
    (Mgr/LevelSwapTInv.v): the table is again ordered, reduced (no node with three equal
    children), per-level unique; the variable/level maps are inverse permutations with the
    two levels exchanged. *)

From Coq Require Import List NArith PArith Bool Arith Lia FMapPositive.
From OxiVerif Require Import DD.Table DD.TableProofs Mgr.SortOrder Mgr.SortOrderProofs
  Mgr.LevelSwap Mgr.LevelSwapBase Mgr.LevelSwapInv Mgr.LevelSwapT Mgr.LevelSwapTInv.
Import ListNotations.

(* [Lw : forall c b, In c [c0; c1; c2] -> b < 3 -> low (cof c b)] in the context *)
Ltac lw := match goal with Lw : forall c b, In c _ -> b < 3 -> _ |- _ => apply Lw; [simpl; auto | lia] end.

Section CoreT.
Variable s : snap.
Variable i : nat.
Hypothesis H : WF s.
Hypothesis Hk : s_kind s = KTdd.
Hypothesis Hi : S i < nlevels s.

Let s1 := level_swap_tcore s i.
Let M := swap_nodes_t s i.
Let SP : SpecT s i M := swap_nodes_t_spec s i H Hk Hi.

Notation low := (low s i).
Notation isdep := (isdep s i).
Notation rep3 := (rep3 i).
Notation cof := (bcof s (S i)).

Lemma tfind1 : forall id, find_node s1 id = PositiveMap.find id M.
Proof. reflexivity. Qed.

Lemma tnlevels1 : nlevels s1 = nlevels s.
Proof. unfold nlevels, s1, level_swap_tcore. simpl. apply swap_adj_length. Qed.

Lemma tkind1 : s_kind s1 = s_kind s.
Proof. reflexivity. Qed.

(** every stored node of the new table is of one of three sorts *)
Lemma tfind_cases : forall id nd', PositiveMap.find id M = Some nd' ->
  (exists nd, find_node s id = Some nd /\ ~ isdep nd /\ nd' = relabel s i nd)
  \/ (exists nd c0 c1 c2 e0 e1 e2, find_node s id = Some nd /\ isdep nd /\ nchildren nd = [c0; c1; c2]
        /\ nd' = mkNode i [e0; e1; e2] i (nrc nd)
        /\ rep3 M (cof c0 0) (cof c1 0) (cof c2 0) e0
        /\ rep3 M (cof c0 1) (cof c1 1) (cof c2 1) e1
        /\ rep3 M (cof c0 2) (cof c1 2) (cof c2 2) e2)
  \/ (find_node s id = None /\ goodnew3 s i nd').
Proof.
  intros id nd' E. destruct (find_node s id) as [nd|] eqn:E0.
  - destruct (isdep_dec s i nd) as [D|D].
    + right. left.
      destruct (spect_dep s i M SP id nd E0 D) as (c0 & c1 & c2 & e0 & e1 & e2 & Hc & Hf & R0 & R1 & R2).
      exists nd, c0, c1, c2, e0, e1, e2. rewrite E in Hf. inversion Hf; subst nd'. auto 10.
    + left. exists nd. pose proof (spect_old s i M SP id nd E0 D) as Hf. rewrite E in Hf.
      inversion Hf. auto.
  - right. right. split; [reflexivity|]. apply (spect_new s i M SP id nd' E E0).
Qed.

(** every id stored before is stored afterwards *)
Lemma told_stays : forall id nd, find_node s id = Some nd ->
  exists nd', PositiveMap.find id M = Some nd'
    /\ ((nlevel nd = S i /\ nlevel nd' = i)
        \/ (nlevel nd = i /\ (nlevel nd' = i \/ nlevel nd' = S i))
        \/ (nlevel nd <> i /\ nlevel nd <> S i /\ nd' = nd)).
Proof.
  intros id nd E. destruct (isdep_dec s i nd) as [D|D].
  - destruct (spect_dep s i M SP id nd E D) as (c0 & c1 & c2 & e0 & e1 & e2 & Hc & Hf & _).
    eexists. split; [exact Hf|]. right. left. destruct D as [Dl _]. simpl. auto.
  - exists (relabel s i nd). split; [apply (spect_old s i M SP id nd E D)|].
    destruct (relabel_cases s i nd) as [[A R]|[[A [_ R]]|[[A R]|[A [B R]]]]]; rewrite R; simpl.
    + left. auto.
    + right. left. auto.
    + contradiction.
    + right. right. auto.
Qed.

Lemma tref_ok1 : forall r, ref_ok s r -> ref_ok s1 r.
Proof.
  intros [t|id] Hr; [exact Hr|]. destruct Hr as [nd E].
  destruct (told_stays id nd E) as [nd' [E' _]]. exists nd'. exact E'.
Qed.

(** the level of an old reference in the new table *)
Lemma trlevel1 : forall r, ref_ok s r ->
  (rlevel s r = S i /\ rlevel s1 r = i)
  \/ (rlevel s r = i /\ (rlevel s1 r = i \/ rlevel s1 r = S i))
  \/ (rlevel s r <> i /\ rlevel s r <> S i /\ rlevel s1 r = rlevel s r).
Proof.
  intros [t|id] Hr.
  - right. right. simpl. rewrite tnlevels1. repeat split; lia.
  - destruct Hr as [nd E]. destruct (told_stays id nd E) as [nd' [E' C]].
    simpl. rewrite tfind1, E', E.
    destruct C as [[A B]|[[A B]|[A [B ->]]]]; auto.
Qed.

Lemma tlow1 : forall e, low e -> ref_ok s1 (eref e) /\ rlevel s1 (eref e) = rlevel s (eref e).
Proof.
  intros e [Hok [_ Hl]]. split; [apply tref_ok1; exact Hok|].
  destruct (trlevel1 _ Hok) as [[A _]|[[A _]|[_ [_ A]]]]; [lia | lia | exact A].
Qed.

(** what the result of [reduce] + lookup looks like in the new table *)
Lemma rep3_props : forall x y z e, rep3 M x y z e -> low x -> low y -> low z ->
  ref_ok s1 (eref e) /\ etag e = false /\ S i <= rlevel s1 (eref e)
  /\ (eq3 x y z -> S i < rlevel s1 (eref e)) /\ (~ eq3 x y z -> rlevel s1 (eref e) = S i).
Proof.
  intros x y z e [[A ->]|[A [id [nd [-> [E [L C]]]]]]] Lx Ly Lz.
  - destruct (tlow1 x Lx) as [B C]. destruct Lx as [_ [T Lv]].
    split; [exact B|]. split; [exact T|]. split; [lia|]. split; [intros _; lia | contradiction].
  - simpl. split; [exists nd; exact E|]. split; [reflexivity|].
    rewrite tfind1, E, L. split; [lia|]. split; [contradiction | reflexivity].
Qed.

Lemma rep3_inj : forall x y z x' y' z' e, rep3 M x y z e -> rep3 M x' y' z' e ->
  low x -> low y -> low z -> low x' -> low y' -> low z' -> x = x' /\ y = y' /\ z = z'.
Proof.
  intros x y z x' y' z' e R R' Lx Ly Lz Lx' Ly' Lz'.
  destruct (rep3_props _ _ _ _ R Lx Ly Lz) as [_ [_ [_ [A B]]]].
  destruct (rep3_props _ _ _ _ R' Lx' Ly' Lz') as [_ [_ [_ [A' B']]]].
  destruct R as [[P ->]|[P [id [nd [-> [E [L C]]]]]]]; destruct R' as [[P' Q']|[P' [id' [nd' [Q' [E' [L' C']]]]]]].
  - destruct P as [-> ->]. destruct P' as [-> ->]. subst. auto.
  - exfalso. specialize (A P). specialize (B' P'). lia.
  - exfalso. specialize (A' P'). specialize (B P). lia.
  - inversion Q'; subst id'. rewrite E in E'. inversion E'; subst nd'. rewrite C in C'.
    inversion C'. auto.
Qed.

(** ** well-formedness of the new table *)

(** the nine cofactors of a node to rewrite are below both levels *)
Lemma dep_lows3 : forall id nd c0 c1 c2, find_node s id = Some nd -> isdep nd -> nchildren nd = [c0; c1; c2] ->
  forall c b, In c [c0; c1; c2] -> b < 3 -> low (cof c b).
Proof.
  intros id nd c0 c1 c2 E0 [Dl _] Hc c b Hin Hb.
  apply (bcof_low3 s i H Hk Hi id nd c b E0 Dl); [rewrite Hc; exact Hin | exact Hb].
Qed.

Lemma twf1_child : forall id nd e, find_node s1 id = Some nd -> In e (nchildren nd) ->
  ref_ok s1 (eref e) /\ nlevel nd < rlevel s1 (eref e).
Proof.
  intros id nd' e E He. rewrite tfind1 in E.
  destruct (tfind_cases id nd' E)
    as [[nd [E0 [D ->]]]|[(nd & c0 & c1 & c2 & e0 & e1 & e2 & E0 & D & Hc & -> & R0 & R1 & R2)|[E0 G]]].
  - rewrite relabel_children in He.
    destruct (wf_child s H id nd e E0 He) as [Hok Hlt].
    split; [apply tref_ok1; exact Hok|].
    destruct (relabel_cases s i nd) as [[A R]|[[A [Dp R]]|[[A R]|[A [B R]]]]]; rewrite R; simpl.
    + destruct (trlevel1 _ Hok) as [[X Y]|[[X Y]|[X [Y Z]]]]; lia.
    + pose proof (depends_false s i nd e Dp He).
      destruct (trlevel1 _ Hok) as [[X Y]|[[X Y]|[X [Y Z]]]]; lia.
    + contradiction.
    + destruct (trlevel1 _ Hok) as [[X Y]|[[X Y]|[X [Y Z]]]]; lia.
  - simpl in He. pose proof (dep_lows3 id nd c0 c1 c2 E0 D Hc) as Lw.
    assert (Q : forall x y z e', rep3 M x y z e' -> low x -> low y -> low z ->
                  ref_ok s1 (eref e') /\ i < rlevel s1 (eref e')).
    { intros x y z e' R Lx Ly Lz. destruct (rep3_props _ _ _ _ R Lx Ly Lz) as [A [_ [B _]]]. split; [exact A | lia]. }
    destruct He as [<-|[<-|[<-|[]]]].
    + apply (Q _ _ _ _ R0); lw.
    + apply (Q _ _ _ _ R1); lw.
    + apply (Q _ _ _ _ R2); lw.
  - destruct G as [Gl [_ [x [y [z [Gc [_ [Lx [Ly Lz]]]]]]]]]. rewrite Gc in He. rewrite Gl.
    assert (Q : forall g, low g -> ref_ok s1 (eref g) /\ S i < rlevel s1 (eref g)).
    { intros g Lg. destruct (tlow1 _ Lg) as [A B]. destruct Lg as [_ [_ Lv]]. split; [exact A | lia]. }
    destruct He as [<-|[<-|[<-|[]]]]; apply Q; assumption.
Qed.

(** the rewritten children of a node determine its old children *)
Lemma dep_children_inj3 : forall id nd c0 c1 c2 e0 e1 e2 id' nd' d0 d1 d2,
  find_node s id = Some nd -> isdep nd -> nchildren nd = [c0; c1; c2] ->
  rep3 M (cof c0 0) (cof c1 0) (cof c2 0) e0 -> rep3 M (cof c0 1) (cof c1 1) (cof c2 1) e1 ->
  rep3 M (cof c0 2) (cof c1 2) (cof c2 2) e2 ->
  find_node s id' = Some nd' -> isdep nd' -> nchildren nd' = [d0; d1; d2] ->
  rep3 M (cof d0 0) (cof d1 0) (cof d2 0) e0 -> rep3 M (cof d0 1) (cof d1 1) (cof d2 1) e1 ->
  rep3 M (cof d0 2) (cof d1 2) (cof d2 2) e2 ->
  c0 = d0 /\ c1 = d1 /\ c2 = d2.
Proof.
  intros id nd c0 c1 c2 e0 e1 e2 id' nd' d0 d1 d2 E D Hc R0 R1 R2 E' D' Hd Q0 Q1 Q2.
  pose proof (dep_lows3 id nd c0 c1 c2 E D Hc) as Lw.
  pose proof (dep_lows3 id' nd' d0 d1 d2 E' D' Hd) as Lw'.
  assert (J : forall b e, b < 3 -> rep3 M (cof c0 b) (cof c1 b) (cof c2 b) e -> rep3 M (cof d0 b) (cof d1 b) (cof d2 b) e ->
                cof c0 b = cof d0 b /\ cof c1 b = cof d1 b /\ cof c2 b = cof d2 b).
  { intros b e Hb R Q. apply (rep3_inj _ _ _ _ _ _ e R Q);
      first [solve [apply Lw; [simpl; auto | lia]] | solve [apply Lw'; [simpl; auto | lia]]]. }
  destruct (J 0 e0 ltac:(lia) R0 Q0) as [X0 [Y0 Z0]].
  destruct (J 1 e1 ltac:(lia) R1 Q1) as [X1 [Y1 Z1]].
  destruct (J 2 e2 ltac:(lia) R2 Q2) as [X2 [Y2 Z2]].
  destruct D as [Dl _]. destruct D' as [Dl' _].
  assert (K : forall c d, In c (nchildren nd) -> In d (nchildren nd') ->
                cof c 0 = cof d 0 -> cof c 1 = cof d 1 -> cof c 2 = cof d 2 -> c = d).
  { intros c d Hin Hin'. apply (bcof_inj3 s i H Hk Hi id nd c id' nd' d E Dl Hin E' Dl' Hin'). }
  rewrite Hc, Hd in K.
  split; [|split]; apply K; simpl; auto.
Qed.

(** one of the rewritten children lies on the new lower level *)
Lemma dep_touches3 : forall id nd c0 c1 c2 e0 e1 e2,
  find_node s id = Some nd -> isdep nd -> nchildren nd = [c0; c1; c2] ->
  rep3 M (cof c0 0) (cof c1 0) (cof c2 0) e0 -> rep3 M (cof c0 1) (cof c1 1) (cof c2 1) e1 ->
  rep3 M (cof c0 2) (cof c1 2) (cof c2 2) e2 ->
  rlevel s1 (eref e0) = S i \/ rlevel s1 (eref e1) = S i \/ rlevel s1 (eref e2) = S i.
Proof.
  intros id nd c0 c1 c2 e0 e1 e2 E D Hc R0 R1 R2.
  pose proof (dep_lows3 id nd c0 c1 c2 E D Hc) as Lw.
  assert (N : forall b e, b < 3 -> rep3 M (cof c0 b) (cof c1 b) (cof c2 b) e ->
                ~ eq3 (cof c0 b) (cof c1 b) (cof c2 b) -> rlevel s1 (eref e) = S i).
  { intros b e Hb R Hne. apply (rep3_props _ _ _ _ R); try lw. exact Hne. }
  destruct (eq3_dec (cof c0 0) (cof c1 0) (cof c2 0)) as [Q0|Q0]; [|left; apply (N 0 e0); auto].
  destruct (eq3_dec (cof c0 1) (cof c1 1) (cof c2 1)) as [Q1|Q1]; [|right; left; apply (N 1 e1); auto].
  destruct (eq3_dec (cof c0 2) (cof c1 2) (cof c2 2)) as [Q2|Q2]; [|right; right; apply (N 2 e2); auto].
  exfalso. destruct (tdd_children s H Hk id nd E) as (a & b & c & Hab & Hne). rewrite Hc in Hab.
  inversion Hab; subst a b c. apply Hne. destruct D as [Dl _].
  destruct Q0 as [A0 B0]. destruct Q1 as [A1 B1]. destruct Q2 as [A2 B2].
  assert (K : forall c d, In c (nchildren nd) -> In d (nchildren nd) ->
                cof c 0 = cof d 0 -> cof c 1 = cof d 1 -> cof c 2 = cof d 2 -> c = d).
  { intros c d Hin Hin'. apply (bcof_inj3 s i H Hk Hi id nd c id nd d E Dl Hin E Dl Hin'). }
  rewrite Hc in K. split; apply K; simpl; auto.
Qed.

(** the three rewritten children are not all equal *)
Lemma dep_reduced3 : forall id nd c0 c1 c2 e0 e1 e2,
  find_node s id = Some nd -> isdep nd -> nchildren nd = [c0; c1; c2] ->
  rep3 M (cof c0 0) (cof c1 0) (cof c2 0) e0 -> rep3 M (cof c0 1) (cof c1 1) (cof c2 1) e1 ->
  rep3 M (cof c0 2) (cof c1 2) (cof c2 2) e2 -> ~ eq3 e0 e1 e2.
Proof.
  intros id nd c0 c1 c2 e0 e1 e2 E D Hc R0 R1 R2 [A B]. subst e1 e2.
  pose proof (dep_lows3 id nd c0 c1 c2 E D Hc) as Lw.
  destruct (rep3_inj _ _ _ _ _ _ e0 R0 R1) as [X1 [Y1 Z1]]; try lw.
  destruct (rep3_inj _ _ _ _ _ _ e0 R1 R2) as [X2 [Y2 Z2]]; try lw.
  apply (dep_not_all3 s i H Hk Hi id nd c0 c1 c2 E D Hc). unfold eq3. auto 10.
Qed.

Lemma twf1_unique : forall id1 id2 n1 n2,
  find_node s1 id1 = Some n1 -> find_node s1 id2 = Some n2 ->
  nlevel n1 = nlevel n2 -> nchildren n1 = nchildren n2 -> id1 = id2.
Proof.
  intros id1 id2 n1 n2 E1 E2 Hl Hc. rewrite tfind1 in E1, E2.
  destruct (Nat.eq_dec (nlevel n1) (S i)) as [L1|L1].
  { apply (spect_uniq s i M SP id1 id2 n1 n2 E1 E2 L1); [lia | exact Hc]. }
  assert (L2 : nlevel n2 <> S i) by lia.
  (* a relabelled node of the upper level has no child on the new lower level *)
  assert (Mix : forall ida ma idb mb d0 d1 d2 f0 f1 f2,
            find_node s ida = Some ma -> ~ isdep ma -> nlevel (relabel s i ma) <> S i ->
            nlevel (relabel s i ma) = i ->
            find_node s idb = Some mb -> isdep mb -> nchildren mb = [d0; d1; d2] ->
            rep3 M (cof d0 0) (cof d1 0) (cof d2 0) f0 -> rep3 M (cof d0 1) (cof d1 1) (cof d2 1) f1 ->
            rep3 M (cof d0 2) (cof d1 2) (cof d2 2) f2 ->
            nchildren ma = [f0; f1; f2] -> False).
  { intros ida ma idb mb d0 d1 d2 f0 f1 f2 Fa Da La Li Fb Db Cb Q0 Q1 Q2 Hch.
    destruct (relabel_cases s i ma) as [[A R]|[[A [_ R]]|[[A R]|[A [B R]]]]]; rewrite R in La, Li; simpl in La, Li;
      try lia; try contradiction.
    assert (G : forall f, In f (nchildren ma) -> rlevel s1 (eref f) <> S i).
    { intros f Hin. destruct (wf_child s H ida ma f Fa Hin) as [Ok Lt].
      destruct (trlevel1 _ Ok) as [[X Y]|[[X Y]|[X [Y Z]]]]; lia. }
    rewrite Hch in G.
    destruct (dep_touches3 idb mb d0 d1 d2 f0 f1 f2 Fb Db Cb Q0 Q1 Q2) as [T|[T|T]];
      [apply (G f0) | apply (G f1) | apply (G f2)]; simpl; auto. }
  destruct (tfind_cases id1 n1 E1)
    as [[m1 [F1 [D1 ->]]]|[(m1 & c0 & c1 & c2 & e0 & e1 & e2 & F1 & D1 & C1 & -> & R0 & R1 & R2)|[_ [G _]]]];
    [| |contradiction];
  (destruct (tfind_cases id2 n2 E2)
    as [[m2 [F2 [D2 ->]]]|[(m2 & d0 & d1 & d2 & f0 & f1 & f2 & F2 & D2 & C2 & -> & Q0 & Q1 & Q2)|[_ [G _]]]];
    [| |contradiction]).
  - (* two relabelled nodes *)
    rewrite !relabel_children in Hc. apply (wf_unique s H id1 id2 m1 m2 F1 F2); [|exact Hc].
    destruct (relabel_cases s i m1) as [[A R]|[[A [_ R]]|[[A R]|[A [B R]]]]]; rewrite R in Hl, L1; simpl in Hl, L1;
      try lia; try contradiction;
    (destruct (relabel_cases s i m2) as [[A' R']|[[A' [_ R']]|[[A' R']|[A' [B' R']]]]]; rewrite R' in Hl, L2; simpl in Hl, L2;
      try lia; try contradiction).
  - (* a relabelled node and a rewritten node *)
    exfalso. rewrite relabel_children in Hc. simpl in Hc, Hl.
    apply (Mix id1 m1 id2 m2 d0 d1 d2 f0 f1 f2 F1 D1 L1 Hl F2 D2 C2 Q0 Q1 Q2 Hc).
  - exfalso. rewrite relabel_children in Hc. simpl in Hc, Hl.
    apply (Mix id2 m2 id1 m1 c0 c1 c2 e0 e1 e2 F2 D2 L2 (eq_sym Hl) F1 D1 C1 R0 R1 R2 (eq_sym Hc)).
  - (* two rewritten nodes *)
    simpl in Hc. inversion Hc; subst f0 f1 f2.
    destruct (dep_children_inj3 id1 m1 c0 c1 c2 e0 e1 e2 id2 m2 d0 d1 d2 F1 D1 C1 R0 R1 R2 F2 D2 C2 Q0 Q1 Q2)
      as [X [Y Z]].
    destruct D1 as [Dl1 _]. destruct D2 as [Dl2 _].
    apply (wf_unique s H id1 id2 m1 m2 F1 F2); congruence.
Qed.

Theorem tcore_wf : WF s1.
Proof.
  constructor.
  - unfold s1, level_swap_tcore. simpl. rewrite map_length, swap_adj_length. apply (wf_perm_len s H).
  - apply swap_perm_v2l; [apply (wf_perm_len s H) | exact Hi | apply (wf_perm_v2l s H)].
  - apply swap_perm_l2v; [apply (wf_perm_len s H) | exact Hi | apply (wf_perm_l2v s H)].
  - (* arity *)
    intros id nd' E. rewrite tfind1 in E. rewrite tkind1, Hk. simpl arity.
    destruct (tfind_cases id nd' E)
      as [[nd [E0 [D ->]]]|[(nd & c0 & c1 & c2 & e0 & e1 & e2 & E0 & D & Hc & -> & R0 & R1 & R2)|[E0 G]]].
    + rewrite relabel_children. pose proof (wf_arity s H id nd E0) as A. rewrite Hk in A. exact A.
    + reflexivity.
    + destruct G as [_ [_ [x [y [z [Gc _]]]]]]. rewrite Gc. reflexivity.
  - (* stored level *)
    intros id nd' E. rewrite tfind1 in E.
    destruct (tfind_cases id nd' E)
      as [[nd [E0 [D ->]]]|[(nd & c0 & c1 & c2 & e0 & e1 & e2 & E0 & D & Hc & -> & R0 & R1 & R2)|[E0 G]]].
    + destruct (relabel_cases s i nd) as [[A R]|[[A [_ R]]|[[A R]|[A [B R]]]]]; rewrite R; simpl; auto.
      * contradiction.
      * apply (wf_stored s H id nd E0).
    + reflexivity.
    + destruct G as [A [B _]]. congruence.
  - (* level in range *)
    intros id nd' E. rewrite tfind1 in E. rewrite tnlevels1.
    destruct (tfind_cases id nd' E)
      as [[nd [E0 [D ->]]]|[(nd & c0 & c1 & c2 & e0 & e1 & e2 & E0 & D & Hc & -> & R0 & R1 & R2)|[E0 G]]].
    + pose proof (wf_level s H id nd E0).
      destruct (relabel_cases s i nd) as [[A R]|[[A [_ R]]|[[A R]|[A [B R]]]]]; rewrite R; simpl; lia.
    + simpl. lia.
    + destruct G as [A _]. lia.
  - exact twf1_child.
  - (* reduced *)
    intros id nd' E. rewrite tfind1 in E. unfold reduced. rewrite tkind1, Hk.
    destruct (tfind_cases id nd' E)
      as [[nd [E0 [D ->]]]|[(nd & c0 & c1 & c2 & e0 & e1 & e2 & E0 & D & Hc & -> & R0 & R1 & R2)|[E0 G]]].
    + rewrite relabel_children. pose proof (wf_reduced s H id nd E0) as Hr. unfold reduced in Hr.
      rewrite Hk in Hr. exact Hr.
    + simpl. rewrite all_same_triple. apply (dep_reduced3 id nd c0 c1 c2 e0 e1 e2 E0 D Hc R0 R1 R2).
    + destruct G as [_ [_ [x [y [z [Gc [Gne _]]]]]]]. rewrite Gc, all_same_triple. exact Gne.
  - (* tags *)
    intros _ id nd' e E He. rewrite tfind1 in E.
    destruct (tfind_cases id nd' E)
      as [[nd [E0 [D ->]]]|[(nd & c0 & c1 & c2 & e0 & e1 & e2 & E0 & D & Hc & -> & R0 & R1 & R2)|[E0 G]]].
    + rewrite relabel_children in He. apply (tdd_tag s H Hk id nd e E0 He).
    + simpl in He. pose proof (dep_lows3 id nd c0 c1 c2 E0 D Hc) as Lw.
      destruct He as [<-|[<-|[<-|[]]]].
      * apply (rep3_props _ _ _ _ R0); lw.
      * apply (rep3_props _ _ _ _ R1); lw.
      * apply (rep3_props _ _ _ _ R2); lw.
    + destruct G as [_ [_ [x [y [z [Gc [_ [[_ [Tx _]] [[_ [Ty _]] [_ [Tz _]]]]]]]]]]]. rewrite Gc in He.
      destruct He as [<-|[<-|[<-|[]]]]; assumption.
  - exact twf1_unique.
  - apply (wf_term_ids s H).
  - apply (wf_term_vals s H).
  - intros h Hh. destruct (wf_handles s H h Hh) as [A B]. split; [apply tref_ok1; exact A | exact B].
Qed.

End CoreT.
