(** * C08, part Z — executable model of [level_swap] / [level_down] for ZBDDs
    (crates/oxidd-reorder/src/lib.rs with the rules of crates/oxidd-rules-zbdd/src/lib.rs),
    including the tautology chain of [ZBDDCache] that [Manager::reorder] drops before and
    rebuilds after the reordering.

    Executable definitions only; proofs in Mgr/LevelSwapZ{Inv,WF,Sem,Proofs,Chain,Order}.v.

    The loop is the one of Mgr/LevelSwap.v ([relabel], [depends], [dep_ids], [find_at],
    [dropped_children], [sweep], the maps are shared, they do not look at the rules); the two
    places where the ZBDD rules enter:
    - [zbcof] = [Rules::cofactors] for a child on the lower level (its children) and
      [ZBDDRules::cofactor_skipped] for a child that skips the lower level: the hi cofactor
      is the EMPTY family ([manager.get_terminal(ZBDDTerminal::Empty)]: no set of the family
      contains the variable of a skipped level), the lo cofactor is the child itself;
    - [zmk2] = [ZBDDRules::reduce] (hi child is the Empty terminal -> the lo child; NOT "both
      children equal") followed by [old_upper.get] / [lower.get_or_insert_unchecked].
    The rewritten node itself is not passed through [reduce] by the code ([node.set_child]),
    and it need not be: its new hi child is never Empty (Mgr/LevelSwapZWF.v).

    [Manager::reorder] (oxidd-manager-index/src/manager.rs) calls
    [ZBDDCache::pre_reorder_mut] before and [ZBDDCache::post_reorder_mut] after the closure:
    - [zchain_drop] = [pre_reorder_mut]: the chain [taut(0), taut(1), ...] is walked top-down;
      [try_remove_node] removes a chain node iff nothing but the chain (and the unique table)
      refers to it, the walk stops at the first node that stays (all nodes below are then
      referenced by it);
    - [zchain_rebuild] = [post_reorder_mut] = [ztaut_chain] of DD/ZbddVars.v.
    [level_swap_z] = what the harness op LEVELDOWN does on a ZBDD manager:
    [m.reorder(|m| level_down(m, i))]; [set_var_order_model_z] = [set_var_order]: the levels
    are never empty when the emptiness is tested (the chain is complete then, the test is
    outside [reorder]), so the code performs exactly the adjacent swaps of its bubble sort
    inside ONE [reorder] bracket.

    Not modelled: reference counters, slot numbers of created nodes, table iteration order,
    lazy renumbering (as in Mgr/LevelSwap.v); out-of-memory in [post_reorder_mut] / [level_swap]
    (process abort by design). *)

From Coq Require Import List NArith PArith Bool Arith FMapPositive.
From OxiVerif Require Import DD.Table DD.Build DD.Apply DD.FamSpec DD.ZbddOps DD.ZbddVars
  Mgr.SortOrder Mgr.LevelSwap.
Import ListNotations.

(** cofactor [b] (0 = hi, 1 = lo) of the edge [e] w.r.t. the level [lo]; [em] is the edge to
    the Empty terminal.  [manager.get_node(c).level() == lower_no_pre] ? [cofactors(..)[b]]
    : [cofactor_skipped(c, b)] *)
Definition zbcof (s : snap) (em : edge) (lo : nat) (e : edge) (b : nat) : edge :=
  match eref e with
  | RN id =>
    match find_node s id with
    | Some nd => if Nat.eqb (nlevel nd) lo then nth b (nchildren nd) e
                 else if Nat.eqb b 0 then em else e
    | None => if Nat.eqb b 0 then em else e
    end
  | RT _ => if Nat.eqb b 0 then em else e
  end.

(** [ZBDDRules::reduce] followed by [old_upper.get] / [get_or_insert_unchecked] on level [lvl] *)
Definition zmk2 (s : snap) (st : tstate) (lvl : nat) (x y : edge) : edge * tstate :=
  if is_empty_b s (eref x) then (y, st)
  else
    match find_at (fst st) lvl [x; y] with
    | Some id => (mkEdge (RN id) false, st)
    | None =>
      (mkEdge (RN (snd st)) false,
       (PositiveMap.add (snd st) (mkNode lvl [x; y] lvl 0%N) (fst st), Pos.succ (snd st)))
    end.

(** rewrite one node of the upper level that references the lower level *)
Definition zrebuild (s : snap) (em : edge) (i : nat) (st : tstate) (id : positive) : tstate :=
  match find_node s id with
  | Some nd =>
    match nchildren nd with
    | [c0; c1] =>
      let '(e0, st1) := zmk2 s st (S i) (zbcof s em (S i) c0 0) (zbcof s em (S i) c1 0) in
      let '(e1, st2) := zmk2 s st1 (S i) (zbcof s em (S i) c0 1) (zbcof s em (S i) c1 1) in
      (PositiveMap.add id (mkNode i [e0; e1] i (nrc nd)) (fst st2), snd st2)
    | _ => st
    end
  | None => st
  end.

(** the node table after the loop, before unreferenced nodes are dropped *)
Definition swap_nodes_z (s : snap) (em : edge) (i : nat) : PositiveMap.t node :=
  fst (fold_left (zrebuild s em i) (dep_ids s i)
                 (PositiveMap.map (relabel s i) (s_nodes s), fresh_id (s_nodes s))).

(** [level_swap] without the removal of unreferenced old-lower nodes *)
Definition level_swap_zcore (s : snap) (em : edge) (i : nat) : snap :=
  mkSnap (s_kind s) (swap_nodes_z s em i) (s_terms s)
         (map (swap_idx i) (s_v2l s)) (swap_adj i (s_l2v s)) (s_handles s).

(** [level_down(manager, i)] on a ZBDD manager inside a [reorder] bracket (the chain is gone).
    [zempty s = None] = [get_terminal(Empty).unwrap()] would panic: both ZBDD terminals always
    exist in a ZBDD manager (hypothesis [ZbddOK] of the theorems) *)
Definition level_swap_zc (s : snap) (i : nat) : snap :=
  match zempty s with
  | Some r =>
    let s1 := level_swap_zcore s (mkEdge r false) i in
    mkSnap (s_kind s1) (sweep (s_nodes s1) (s_handles s1) (dropped_children s i))
           (s_terms s1) (s_v2l s1) (s_l2v s1) (s_handles s1)
  | None => s
  end.

(** ** the tautology chain *)

(** the stored chain, found bottom-up as [post_reorder_mut] built it: [e] = [taut(cnt)],
    result = the ids of [taut(k) .. taut(n-1)], top-most first, for the largest stored part *)
Fixpoint ztaut_find (m : PositiveMap.t node) (cnt : nat) (e : edge) (acc : list positive)
  : list positive :=
  match cnt with
  | O => acc
  | S c =>
    match find_at m c [e; e] with
    | Some id => ztaut_find m c (mkEdge (RN id) false) (id :: acc)
    | None => acc
    end
  end.

(** the loop of [pre_reorder_mut]: [try_remove_node] succeeds iff the chain's own reference
    was the only one; the first failure ends the loop *)
Fixpoint zchain_drop_loop (m : PositiveMap.t node) (hs : list (N * edge)) (ids : list positive)
  : PositiveMap.t node :=
  match ids with
  | [] => m
  | id :: r => if referenced m hs id then m else zchain_drop_loop (PositiveMap.remove id m) hs r
  end.

(** the ids of the complete chain [taut(0) .. taut(n-1)]; [None]: the table does not hold a
    complete chain (does not happen in a manager: the chain is rebuilt after [add_vars] and
    after every reordering) *)
Definition zchain_ids (s : snap) : option (list positive) :=
  match zbase s with
  | Some b =>
    let ids := ztaut_find (s_nodes s) (nlevels s) (mkEdge b false) [] in
    if Nat.eqb (length ids) (nlevels s) then Some ids else None
  | None => None
  end.

(** [ZBDDCache::pre_reorder_mut] *)
Definition zchain_drop (s : snap) : snap :=
  match zchain_ids s with
  | Some ids =>
    mkSnap (s_kind s) (zchain_drop_loop (s_nodes s) (s_handles s) ids)
           (s_terms s) (s_v2l s) (s_l2v s) (s_handles s)
  | None => s
  end.

(** [ZBDDCache::post_reorder_mut] *)
Definition zchain_rebuild (s : snap) : snap :=
  match ztaut_chain s with
  | Some (s', _) => s'
  | None => s
  end.

(** [manager.reorder(|m| level_down(m, i))] on a ZBDD manager *)
Definition level_swap_z (s : snap) (i : nat) : snap :=
  zchain_rebuild (level_swap_zc (zchain_drop s) i).

(** [set_var_order] / [set_var_order_seq] on a ZBDD manager: nothing at all when the target
    order is the current one ([if sorted { return }]), otherwise one [reorder] bracket around
    the adjacent swaps of the bubble sort *)
Definition set_var_order_model_z (s : snap) (order : list nat) : snap :=
  let target := sort_order (nlevels s) (map (fun v => nth v (s_v2l s) 0) order) in
  match snd (bubble_sort target) with
  | [] => s
  | sw => zchain_rebuild (fold_left level_swap_zc sw (zchain_drop s))
  end.
