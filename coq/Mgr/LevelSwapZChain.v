(** * C08, part Z — the tautology chain around a reordering, and [level_swap_z]

    [Manager::reorder] on a ZBDD manager = [pre_reorder_mut] ([zchain_drop]) ; the closure ;
    [post_reorder_mut] ([zchain_rebuild] = [ztaut_chain], DD/ZbddVars.v).
    - [zchain_drop_sub]: dropping the chain removes unreferenced nodes only ([subsnap]):
      [ZbddOK] is kept, every reference that is left keeps its view;
      [zchain_drop_removed]: what disappears is a chain node (both children equal) that
      nothing in the remaining table refers to;
    - [zchain_rebuild_ok]: rebuilding only adds nodes ([extends]), keeps [ZbddOK], and the
      chain [taut(0) .. taut(n)] is complete again, [taut(l)] denoting all subsets of the
      levels [l ..] ([ztaut_chain_ok]);
    - [level_swap_z_*]: the composition drop ; swap ; rebuild, i.e. what the harness op
      LEVELDOWN performs on a ZBDD manager.  An edge "survives" if it is stored after the
      drop and after the swap (a dropped chain node's id may be re-used by a created node, so
      "stored before and at the end" would not identify a node); handles survive. *)

From Coq Require Import List NArith PArith Bool Arith Lia FMapPositive.
From OxiVerif Require Import DD.Table DD.TableExtra DD.TableProofs DD.Canon DD.CanonZbdd DD.Build DD.BuildProofs
  DD.Apply DD.ApplyProofs DD.FamSpec DD.FamSpecProofs DD.ZbddOps DD.ZbddOpsProofs DD.PickInsert
  DD.ZbddVars DD.ZbddVarsProofs
  Mgr.SortOrder Mgr.SortOrderProofs
  Mgr.LevelSwap Mgr.LevelSwapBase Mgr.LevelSwapSem Mgr.LevelSwapProofs
  Mgr.LevelSwapZ Mgr.LevelSwapZSem Mgr.LevelSwapZSub Mgr.LevelSwapZProofs.
Import ListNotations.

(** ** [ZbddOK] and evaluation along [subsnap] / [extends] *)

Lemma subsnap_ok : forall s s', ZbddOK s -> subsnap s s' -> ZbddOK s'.
Proof.
  intros s s' B X. constructor.
  - apply (subsnap_wf s s' (zo_wf s B) X).
  - rewrite (sub_kind _ _ X). apply (zo_kind s B).
  - intros t v. rewrite (sub_term_val _ _ t X). apply (zo_codes s B).
  - destruct (zo_empty s B) as [t E]. exists t. rewrite (sub_term_val _ _ t X). exact E.
  - destruct (zo_base s B) as [t E]. exists t. rewrite (sub_term_val _ _ t X). exact E.
Qed.

Lemma asg_choice_l2v : forall s s' a, s_l2v s' = s_l2v s -> forall l, asg_choice s' a l = asg_choice s a l.
Proof. intros s s' a E l. unfold asg_choice. rewrite E. reflexivity. Qed.

Lemma sem_edge_choice_ext : forall s e c c', s_kind s = KZbdd -> (forall l, c l = c' l) ->
  sem_edge s e c = sem_edge s e c'.
Proof.
  intros s e c c' Hk Hcc. rewrite !(sem_edge_z s _ _ Hk). f_equal. unfold Zv.
  apply semz_ext. intros l _. apply Hcc.
Qed.

Lemma eval_vars_sub : forall s s' e a, subsnap s s' -> s_kind s = KZbdd -> ref_ok s' (eref e) ->
  eval_vars s' e a = eval_vars s e a.
Proof.
  intros s s' e a X Hk Ok. unfold eval_vars.
  rewrite (subsnap_sem_edge s s' e _ X Hk Ok).
  apply (sem_edge_choice_ext s e _ _ Hk). apply asg_choice_l2v. apply (sub_l2v _ _ X).
Qed.

Lemma sem_edge_ext_z : forall s s' e c, WF s -> s_kind s = KZbdd -> extends s s' -> ref_ok s (eref e) ->
  sem_edge s' e c = sem_edge s e c.
Proof.
  intros s s' e c H Hk X Ok. unfold sem_edge. rewrite (ext_kind _ _ X), Hk, (ext_nlevels _ _ X).
  rewrite (semz_extends s s' H X _ _ _ _ Ok). reflexivity.
Qed.

Lemma eval_vars_ext : forall s s' e a, WF s -> s_kind s = KZbdd -> extends s s' -> ref_ok s (eref e) ->
  eval_vars s' e a = eval_vars s e a.
Proof.
  intros s s' e a H Hk X Ok. unfold eval_vars.
  rewrite (sem_edge_ext_z s s' e _ H Hk X Ok).
  apply (sem_edge_choice_ext s e _ _ Hk). apply asg_choice_l2v. apply (ext_l2v _ _ X).
Qed.

Lemma set_levels_l2v : forall s s' a, s_l2v s' = s_l2v s -> set_levels s' a = set_levels s a.
Proof.
  intros s s' a E. unfold set_levels, nlevels. rewrite E.
  apply true_levels_ext. intros l _. apply asg_choice_l2v. exact E.
Qed.

(** ** [zchain_drop] *)

Lemma set_nodes_same : forall s, set_nodes s (s_nodes s) = s.
Proof. intros [k m t v l h]. reflexivity. Qed.

Lemma drop_loop_sub : forall ids s, WF s ->
  subsnap s (set_nodes s (zchain_drop_loop (s_nodes s) (s_handles s) ids)).
Proof.
  induction ids as [|id r IH]; intros s H; simpl.
  - rewrite set_nodes_same. apply subsnap_refl. exact H.
  - destruct (referenced (s_nodes s) (s_handles s) id) eqn:R.
    + rewrite set_nodes_same. apply subsnap_refl. exact H.
    + assert (X : subsnap s (without s [id])).
      { apply (without_subsnap s [id] H). intros x [<-|[]]. exact R. }
      pose proof (subsnap_wf _ _ H X) as H'.
      apply (subsnap_trans _ _ _ X). apply (IH (without s [id]) H').
Qed.

Theorem zchain_drop_sub : forall s, WF s -> subsnap s (zchain_drop s).
Proof.
  intros s H. unfold zchain_drop. destruct (zchain_ids s) as [ids|]; [|apply subsnap_refl; exact H].
  apply (drop_loop_sub ids s H).
Qed.

Theorem zchain_drop_ok : forall s, ZbddOK s -> ZbddOK (zchain_drop s).
Proof. intros s B. apply (subsnap_ok s _ B). apply zchain_drop_sub. apply (zo_wf s B). Qed.

(** the ids [ztaut_find] lists belong to nodes with two equal children *)
Lemma ztaut_find_shape : forall m cnt e acc id,
  In id (ztaut_find m cnt e acc) ->
  In id acc \/ exists nd x, PositiveMap.find id m = Some nd /\ nchildren nd = [x; x].
Proof.
  intros m. induction cnt as [|c IH]; intros e acc id Hin; simpl in Hin; [left; exact Hin|].
  destruct (find_at m c [e; e]) as [k|] eqn:F; [|left; exact Hin].
  destruct (IH _ _ _ Hin) as [[<-|A]|A]; [|left; exact A | right; exact A].
  right. destruct (find_at_some _ _ _ _ F) as [nd [A [_ C]]]. exists nd, e. auto.
Qed.

Lemma drop_loop_find : forall ids m hs id,
  PositiveMap.find id (zchain_drop_loop m hs ids) = None -> PositiveMap.find id m = None \/ In id ids.
Proof.
  induction ids as [|x r IH]; intros m hs id E; simpl in E; [left; exact E|].
  destruct (referenced m hs x); [left; exact E|].
  destruct (IH _ _ _ E) as [A|A]; [|right; right; exact A].
  destruct (Pos.eq_dec id x) as [->|Hne]; [right; left; reflexivity|].
  left. rewrite PositiveMap.gro in A by exact Hne. exact A.
Qed.

(** what [pre_reorder_mut] removes: chain-shaped nodes that nothing left refers to *)
Theorem zchain_drop_removed : forall s id nd, WF s ->
  find_node s id = Some nd -> find_node (zchain_drop s) id = None ->
  (exists x, nchildren nd = [x; x])
  /\ (forall k kd e, find_node (zchain_drop s) k = Some kd -> In e (nchildren kd) -> eref e <> RN id)
  /\ (forall h, In h (s_handles s) -> eref (snd h) <> RN id).
Proof.
  intros s id nd H E E0. pose proof (zchain_drop_sub s H) as X.
  split; [|split].
  - unfold zchain_drop, zchain_ids in E0.
    destruct (zbase s) as [b|]; [|congruence].
    destruct (Nat.eqb (length (ztaut_find (s_nodes s) (nlevels s) (mkEdge b false) [])) (nlevels s)); [|congruence].
    unfold find_node in E0. cbn [s_nodes] in E0.
    destruct (drop_loop_find _ _ _ _ E0) as [A|A]; [unfold find_node in E; congruence|].
    destruct (ztaut_find_shape _ _ _ _ _ A) as [[]|[nd' [x [F C]]]].
    unfold find_node in E. rewrite E in F. inversion F; subst nd'. exists x. exact C.
  - intros k kd e Ek He Er. pose proof (sub_child _ _ X k kd e Ek He) as Ok. rewrite Er in Ok.
    destruct Ok as [y Ey]. congruence.
  - intros h Hh Er. rewrite <- (sub_handles _ _ X) in Hh.
    pose proof (sub_hok _ _ X h Hh) as Ok. rewrite Er in Ok. destruct Ok as [y Ey]. congruence.
Qed.

(** ** [zchain_rebuild] *)

Theorem zchain_rebuild_ok : forall s, ZbddOK s ->
  ZbddOK (zchain_rebuild s) /\ extends s (zchain_rebuild s)
  /\ exists ch, ztaut_chain s = Some (zchain_rebuild s, ch) /\ length ch = nlevels s + 1
     /\ forall l t, nth_error ch l = Some t ->
          ref_ok (zchain_rebuild s) t
          /\ exists F, fam_of (zchain_rebuild s) t = Some F /\ feq F (f_powerset l (nlevels s - l)).
Proof.
  intros s B. destruct (ztaut_chain_ok s B) as (s' & ch & E & B' & X & Hlen & Hch).
  unfold zchain_rebuild. rewrite E. split; [exact B'|]. split; [exact X|].
  exists ch. auto.
Qed.

(** ** the composition: [reorder(|m| level_down(m, i))] *)

Section SwapZ.
Variable s : snap.
Variable i : nat.
Hypothesis B : ZbddOK s.
Hypothesis Hi : S i < nlevels s.

Let s0 := zchain_drop s.
Let s2 := level_swap_zc s0 i.
Let s3 := level_swap_z s i.

Let X0 : subsnap s s0 := zchain_drop_sub s (zo_wf s B).
Let B0 : ZbddOK s0 := zchain_drop_ok s B.
Let N0 : nlevels s0 = nlevels s := sub_nlevels _ _ X0.

Lemma Hi0 : S i < nlevels s0.
Proof. rewrite N0. exact Hi. Qed.

Let B2 : ZbddOK s2 := zc_ok s0 i B0 Hi0.

Lemma s3_eq : s3 = zchain_rebuild s2.
Proof. reflexivity. Qed.

Let X23 : extends s2 s3 := proj1 (proj2 (zchain_rebuild_ok s2 B2)).

(** (a) *)
Theorem level_swap_z_ok : ZbddOK (level_swap_z s i).
Proof. apply (zchain_rebuild_ok s2 B2). Qed.

Theorem level_swap_z_nlevels : nlevels (level_swap_z s i) = nlevels s.
Proof.
  change (nlevels s3 = nlevels s). rewrite (ext_nlevels _ _ X23).
  unfold s2. rewrite (zc_nlevels s0 i B0 Hi0). exact N0.
Qed.

Theorem level_swap_z_maps :
  s_l2v (level_swap_z s i) = swap_adj i (s_l2v s)
  /\ s_v2l (level_swap_z s i) = map (swap_idx i) (s_v2l s)
  /\ (forall l, nth_error (s_l2v (level_swap_z s i)) l = nth_error (s_l2v s) (swap_idx i l))
  /\ (forall v, nth_error (s_v2l (level_swap_z s i)) v = option_map (swap_idx i) (nth_error (s_v2l s) v)).
Proof.
  change (level_swap_z s i) with s3.
  rewrite (ext_l2v _ _ X23), (ext_v2l _ _ X23).
  destruct (zc_maps s0 i B0 Hi0) as [A [C [D F]]]. fold s2 in A, C, D, F.
  rewrite (sub_l2v _ _ X0) in A, D. rewrite (sub_v2l _ _ X0) in C, F. auto.
Qed.

(** (c) *)
Theorem level_swap_z_handles : s_handles (level_swap_z s i) = s_handles s.
Proof.
  change (s_handles s3 = s_handles s). rewrite (ext_handles _ _ X23).
  unfold s2. rewrite (zc_handles s0 i B0 Hi0). apply (sub_handles _ _ X0).
Qed.

(** an edge that is stored after [pre_reorder_mut] and after the swap *)
Definition survives (e : edge) : Prop := ref_ok s0 (eref e) /\ ref_ok s2 (eref e).

Lemma survives_handle : forall h, In h (s_handles s) -> survives (snd h).
Proof.
  intros h Hh. rewrite <- (sub_handles _ _ X0) in Hh. split.
  - apply (sub_hok _ _ X0 h Hh).
  - apply (zc_handle_ok s0 i B0 Hi0 h Hh).
Qed.

Lemma survives_ok : forall e, survives e -> ref_ok s (eref e) /\ ref_ok (level_swap_z s i) (eref e).
Proof.
  intros e [A C]. split; [apply (sub_ref_ok _ _ _ X0 A) | apply (ext_ref_ok _ _ _ X23 C)].
Qed.

Theorem level_swap_z_handle_ok : forall h, In h (s_handles s) -> ref_ok (level_swap_z s i) (eref (snd h)).
Proof. intros h Hh. apply survives_ok. apply survives_handle. exact Hh. Qed.

(** (b) the Boolean function over the variables *)
Theorem level_swap_z_sem_vars : forall e a, survives e ->
  eval_vars (level_swap_z s i) e a = eval_vars s e a.
Proof.
  intros e a [A C]. change (level_swap_z s i) with s3.
  rewrite (eval_vars_ext s2 s3 e a (zo_wf _ B2) (zo_kind _ B2) X23 C).
  unfold s2. rewrite (zc_sem_vars s0 i B0 Hi0 e a A C).
  apply (eval_vars_sub s s0 e a X0 (zo_kind s B) A).
Qed.

Theorem level_swap_z_handles_vars : forall h a, In h (s_handles s) ->
  eval_vars (level_swap_z s i) (snd h) a = eval_vars s (snd h) a
  /\ exists v, eval_vars s (snd h) a = Some v.
Proof.
  intros h a Hh. split; [apply level_swap_z_sem_vars; apply survives_handle; exact Hh|].
  destruct (wf_handles s (zo_wf s B) h Hh) as [Ok _]. unfold eval_vars.
  apply (sem_total s (zo_wf s B)); [exact Ok | apply asg_choice_ok].
Qed.

(** (b) the family over the variables *)
Theorem level_swap_z_fam_vars : forall e, survives e ->
  exists F F', fam_of s (eref e) = Some F /\ fam_of (level_swap_z s i) (eref e) = Some F'
    /\ forall a, fmem (set_levels (level_swap_z s i) a) F' = fmem (set_levels s a) F.
Proof.
  intros e Sv. destruct (survives_ok e Sv) as [Ok Ok3].
  pose proof level_swap_z_ok as B3.
  destruct (fam_of_total s (zo_wf s B) (zo_kind s B) (eref e) Ok) as [F EF].
  destruct (fam_of_total _ (zo_wf _ B3) (zo_kind _ B3) (eref e) Ok3) as [F' EF'].
  exists F, F'. split; [exact EF|]. split; [exact EF'|]. intros a.
  pose proof (level_swap_z_sem_vars e a Sv) as Hs.
  rewrite (eval_vars_fam s e a F (zo_wf s B) (zo_kind s B) Ok EF) in Hs.
  rewrite (eval_vars_fam _ e a F' (zo_wf _ B3) (zo_kind _ B3) Ok3 EF') in Hs.
  destruct (fmem (set_levels (level_swap_z s i) a) F'), (fmem (set_levels s a) F);
    try reflexivity; inversion Hs.
Qed.

(** the chain is complete again *)
Theorem level_swap_z_chain :
  exists ch, ztaut_chain s2 = Some (level_swap_z s i, ch) /\ length ch = nlevels s + 1
    /\ forall l t, nth_error ch l = Some t ->
         ref_ok (level_swap_z s i) t
         /\ exists F, fam_of (level_swap_z s i) t = Some F /\ feq F (f_powerset l (nlevels s - l)).
Proof.
  pose proof (zchain_rebuild_ok s2 B2) as Q. destruct Q as [_ [_ [ch [Ech [Hl Hch]]]]].
  assert (N2 : nlevels s2 = nlevels s) by (unfold s2; rewrite (zc_nlevels s0 i B0 Hi0); exact N0).
  exists ch. rewrite N2 in Hl, Hch. auto.
Qed.

End SwapZ.
