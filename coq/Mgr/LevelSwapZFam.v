(** * C08, part Z — families over VARIABLES

    [famz] lists the members of a ZBDD edge's family as increasing lists of LEVELS.  A set of
    variables [a : nat -> bool] is written in a table [s] as [set_levels s a], the increasing
    list of the levels whose variable is in [a].  Every member [S] of a family is such a list,
    namely of the variable set [vset s S] ([fam_member_is_set]); hence
    "for every [a]: [set_levels s' a] is a member of [F'] iff [set_levels s a] is a member of [F]"
    (the form of [level_swap_z_fam_vars] etc.) says that [F'] and [F] are the same family of
    sets of variables ([fam_same_image]: each member of one, read as a set of variables, is
    a member of the other). *)

From Coq Require Import List NArith PArith Bool Arith Lia FMapPositive.
From OxiVerif Require Import DD.Table DD.TableExtra DD.TableProofs DD.FamSpec DD.FamSpecProofs
  DD.ZbddOps DD.ZbddOpsProofs
  Mgr.LevelSwap Mgr.LevelSwapProofs Mgr.LevelSwapOrder Mgr.LevelSwapZ Mgr.LevelSwapZSub Mgr.LevelSwapZProofs Mgr.LevelSwapZChain
  Mgr.LevelSwapZOrder.
Import ListNotations.

Lemma true_levels_of : forall cnt from (S : FamSpec.lset) c,
  incr_from from S -> (forall x, In x S -> x < from + cnt) ->
  (forall l, from <= l < from + cnt -> (c l = 0 <-> In l S)) ->
  true_levels c from cnt = S.
Proof.
  induction cnt as [|k IH]; intros from S c Hi Hb Hc.
  - destruct S as [|x r]; [reflexivity|]. exfalso.
    pose proof (incr_from_ge _ _ x Hi (or_introl eq_refl)). specialize (Hb x (or_introl eq_refl)). lia.
  - simpl. destruct (Nat.eqb_spec (c from) 0) as [E0|E0].
    + assert (Hin : In from S) by (apply Hc; [lia | exact E0]).
      destruct S as [|x r]; [destruct Hin|]. simpl in Hi. destruct Hi as [A Bi].
      assert (x = from).
      { destruct Hin as [->|Hin]; [reflexivity|].
        pose proof (incr_from_ge _ _ from Bi Hin). lia. }
      subst x. f_equal. apply IH.
      * exact Bi.
      * intros y Hy. specialize (Hb y (or_intror Hy)). lia.
      * intros l Hl. rewrite (Hc l ltac:(lia)). simpl. split; [|auto].
        intros [->|Hr]; [lia | exact Hr].
    + assert (Hnin : ~ In from S) by (intros Hin; apply E0; apply Hc; [lia | exact Hin]).
      apply IH.
      * destruct S as [|x r]; [exact I|]. simpl in *. destruct Hi as [A Bi]. split; [|exact Bi].
        destruct (Nat.eq_dec x from) as [->|]; [exfalso; apply Hnin; left; reflexivity | lia].
      * intros y Hy. specialize (Hb y Hy). lia.
      * intros l Hl. apply Hc. lia.
Qed.

(** the set of variables whose levels are listed in [S] *)
Definition vset (s : snap) (S : FamSpec.lset) : nat -> bool :=
  fun v => smem (nth v (s_v2l s) 0) S.

Theorem set_levels_vset : forall s S, WF s ->
  incr_from 0 S -> Forall (fun x => x < nlevels s) S -> set_levels s (vset s S) = S.
Proof.
  intros s S H Hi Hb. unfold set_levels. apply true_levels_of.
  - exact Hi.
  - rewrite Forall_forall in Hb. intros x Hx. specialize (Hb x Hx). lia.
  - intros l Hl. unfold asg_choice, vset.
    destruct (wf_l2v_v2l s l H ltac:(lia)) as [_ X]. rewrite X.
    destruct (smem l S) eqn:Es.
    + split; [intros _; apply smem_spec; exact Es | reflexivity].
    + split; [discriminate|]. intros Hin. apply smem_spec in Hin. congruence.
Qed.

(** every member of an edge's family is the level list of a set of variables *)
Theorem fam_member_is_set : forall s r F S, WF s -> s_kind s = KZbdd ->
  fam_of s r = Some F -> In S F -> set_levels s (vset s S) = S.
Proof.
  intros s r F S H Hk EF Hin.
  destruct (fam_of_members s H Hk r F S EF Hin) as [Hi Hb].
  apply set_levels_vset; [exact H | apply (incr_from_weaken _ (rlevel s r)); [lia | exact Hi] | exact Hb].
Qed.

(** the member lists [set_levels s a] name exactly the variables of [a] *)
Theorem set_levels_vars : forall s a v, WF s -> v < nlevels s ->
  (In v (vars_of s (set_levels s a)) <-> a v = true).
Proof.
  intros s a v H Hv. unfold vars_of. rewrite in_map_iff. split.
  - intros [l [El Hl]]. apply set_levels_spec in Hl. destruct Hl as [_ Ha]. rewrite El in Ha. exact Ha.
  - intros Ha. destruct (wf_v2l_l2v s v H Hv) as [Lt Inv]. exists (nth v (s_v2l s) 0).
    split; [exact Inv|]. apply set_levels_spec. split; [exact Lt|]. rewrite Inv. exact Ha.
Qed.

(** two families that agree on every set of variables are images of each other *)
Theorem fam_same_image : forall s s' r r' F F', WF s -> s_kind s = KZbdd -> WF s' -> s_kind s' = KZbdd ->
  fam_of s r = Some F -> fam_of s' r' = Some F' ->
  (forall a, fmem (set_levels s' a) F' = fmem (set_levels s a) F) ->
  (forall S, In S F -> In (set_levels s' (vset s S)) F')
  /\ (forall S', In S' F' -> In (set_levels s (vset s' S')) F).
Proof.
  intros s s' r r' F F' H Hk H' Hk' EF EF' Hall. split.
  - intros S Hin. apply fmem_spec. rewrite Hall. apply fmem_spec.
    rewrite (fam_member_is_set s r F S H Hk EF Hin). exact Hin.
  - intros S' Hin. apply fmem_spec. rewrite <- Hall. apply fmem_spec.
    rewrite (fam_member_is_set s' r' F' S' H' Hk' EF' Hin). exact Hin.
Qed.

(** ** instances *)

Theorem level_swap_z_fam_image : forall s i e, ZbddOK s -> S i < nlevels s -> survives s i e ->
  exists F F', fam_of s (eref e) = Some F /\ fam_of (level_swap_z s i) (eref e) = Some F'
    /\ (forall S, In S F -> In (set_levels (level_swap_z s i) (vset s S)) F')
    /\ (forall S', In S' F' -> In (set_levels s (vset (level_swap_z s i) S')) F).
Proof.
  intros s i e B Hi Sv. destruct (level_swap_z_fam_vars s i B Hi e Sv) as [F [F' [EF [EF' Hall]]]].
  pose proof (level_swap_z_ok s i B Hi) as B'.
  exists F, F'. split; [exact EF|]. split; [exact EF'|].
  apply (fam_same_image s _ _ _ F F' (zo_wf s B) (zo_kind s B) (zo_wf _ B') (zo_kind _ B') EF EF' Hall).
Qed.

Theorem set_var_order_model_z_fam_image : forall s order h, ZbddOK s -> NoDup order ->
  Forall (fun v => v < nlevels s) order -> In h (s_handles s) ->
  exists F F', fam_of s (eref (snd h)) = Some F /\ fam_of (set_var_order_model_z s order) (eref (snd h)) = Some F'
    /\ (forall S, In S F -> In (set_levels (set_var_order_model_z s order) (vset s S)) F')
    /\ (forall S', In S' F' -> In (set_levels s (vset (set_var_order_model_z s order) S')) F).
Proof.
  intros s order h B Hnd Hr Hh.
  destruct (set_var_order_model_z_fam s order B Hnd Hr h Hh) as [F [F' [EF [EF' Hall]]]].
  destruct (set_var_order_model_z_correct s order B Hnd Hr) as [B' _].
  exists F, F'. split; [exact EF|]. split; [exact EF'|].
  apply (fam_same_image s _ _ _ F F' (zo_wf s B) (zo_kind s B) (zo_wf _ B') (zo_kind _ B') EF EF' Hall).
Qed.

(** ** statements as they appear in Props/C08.v *)

Theorem zc_handles_both : forall s i,
  ZbddOK s -> S i < nlevels s ->
  s_handles (level_swap_zc s i) = s_handles s
  /\ forall h, In h (s_handles s) -> ref_ok (level_swap_zc s i) (eref (snd h)).
Proof. intros s i B Hi. exact (conj (zc_handles s i B Hi) (zc_handle_ok s i B Hi)). Qed.

Theorem zc_untouched_iff : forall s i,
  ZbddOK s -> S i < nlevels s ->
  forall id nd, nlevel nd <> i -> nlevel nd <> S i ->
    (find_node s id = Some nd <-> find_node (level_swap_zc s i) id = Some nd).
Proof.
  intros s i B Hi id nd A C. split; intros E;
    [exact (zc_untouched s i B Hi id nd E A C) | exact (zc_untouched_rev s i B Hi id nd E A C)].
Qed.

Theorem zchain_drop_all : forall s, ZbddOK s ->
  ZbddOK (zchain_drop s)
  /\ s_l2v (zchain_drop s) = s_l2v s /\ s_v2l (zchain_drop s) = s_v2l s /\ s_handles (zchain_drop s) = s_handles s
  /\ (forall id nd, find_node (zchain_drop s) id = Some nd -> find_node s id = Some nd)
  /\ (forall h, In h (s_handles s) -> ref_ok (zchain_drop s) (eref (snd h)))
  /\ (forall e a, ref_ok (zchain_drop s) (eref e) -> eval_vars (zchain_drop s) e a = eval_vars s e a)
  /\ (forall id nd, find_node s id = Some nd -> find_node (zchain_drop s) id = None ->
        (exists x, nchildren nd = [x; x])
        /\ (forall k kd e, find_node (zchain_drop s) k = Some kd -> In e (nchildren kd) -> eref e <> RN id)
        /\ (forall h, In h (s_handles s) -> eref (snd h) <> RN id)).
Proof.
  intros s B. pose proof (zchain_drop_sub s (zo_wf s B)) as X.
  split; [exact (zchain_drop_ok s B)|]. split; [exact (sub_l2v _ _ X)|]. split; [exact (sub_v2l _ _ X)|].
  split; [exact (sub_handles _ _ X)|]. split; [exact (sub_nodes _ _ X)|].
  split; [intros h Hh; apply (sub_hok _ _ X); rewrite (sub_handles _ _ X); exact Hh|].
  split; [intros e a Ok; exact (eval_vars_sub s _ e a X (zo_kind s B) Ok)|].
  intros id nd. exact (zchain_drop_removed s id nd (zo_wf s B)).
Qed.

Theorem level_swap_z_handles_both : forall s i,
  ZbddOK s -> S i < nlevels s ->
  s_handles (level_swap_z s i) = s_handles s
  /\ forall h, In h (s_handles s) -> survives s i (snd h) /\ ref_ok (level_swap_z s i) (eref (snd h)).
Proof.
  intros s i B Hi. split; [exact (level_swap_z_handles s i B Hi)|].
  intros h Hh. exact (conj (survives_handle s i B Hi h Hh) (level_swap_z_handle_ok s i B Hi h Hh)).
Qed.

Theorem set_var_order_model_z_fam_all : forall s order h,
  ZbddOK s -> NoDup order -> Forall (fun v => v < nlevels s) order -> In h (s_handles s) ->
  exists F F', fam_of s (eref (snd h)) = Some F /\ fam_of (set_var_order_model_z s order) (eref (snd h)) = Some F'
    /\ (forall a, fmem (set_levels (set_var_order_model_z s order) a) F' = fmem (set_levels s a) F)
    /\ (forall S, In S F -> In (set_levels (set_var_order_model_z s order) (vset s S)) F')
    /\ (forall S', In S' F' -> In (set_levels s (vset (set_var_order_model_z s order) S')) F).
Proof.
  intros s order h B Hnd Hr Hh.
  destruct (set_var_order_model_z_fam s order B Hnd Hr h Hh) as [F [F' [EF [EF' Hall]]]].
  destruct (set_var_order_model_z_correct s order B Hnd Hr) as [B' _].
  exists F, F'. split; [exact EF|]. split; [exact EF'|]. split; [exact Hall|].
  exact (fam_same_image s _ _ _ F F' (zo_wf s B) (zo_kind s B) (zo_wf _ B') (zo_kind _ B') EF EF' Hall).
Qed.
