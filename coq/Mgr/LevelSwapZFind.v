(** * C08, part Z — the rebuilt tautology chain is found again

    [zchain_drop] (the model of [pre_reorder_mut]) locates the chain structurally in the
    table ([zchain_ids]: bottom-up from Base, the node of level [l] both of whose children
    are [taut(l+1)]), because a snapshot does not show the manager's [tautologies] vector.
    After [zchain_rebuild] (= [post_reorder_mut]) this search succeeds
    ([zchain_rebuild_found]): every reordering of the model leaves a table on which the
    next reordering again drops the real chain.  ([ztaut_build_ok2] is [ztaut_build_ok] of
    DD/ZbddVarsProofs.v with one more conclusion.) *)

From Coq Require Import List NArith PArith Bool Arith Lia FMapPositive.
From OxiVerif Require Import DD.Table DD.TableExtra DD.TableProofs DD.Build DD.BuildProofs
  DD.Apply DD.ApplyProofs DD.FamSpec DD.FamSpecProofs DD.ZbddOps DD.ZbddOpsProofs DD.ZbddVars DD.ZbddVarsProofs
  Mgr.LevelSwap Mgr.LevelSwapBase Mgr.LevelSwapZ Mgr.LevelSwapZProofs Mgr.LevelSwapZChain Mgr.LevelSwapZOrder.
Import ListNotations.

(** the chain [taut(cnt-1) .. taut(0)] above the edge [e] = [taut(cnt)] is stored in [m] *)
Fixpoint has_chain (m : PositiveMap.t node) (cnt : nat) (e : edge) : Prop :=
  match cnt with
  | O => True
  | S c => exists id nd, PositiveMap.find id m = Some nd /\ nlevel nd = c /\ nchildren nd = [e; e]
                          /\ has_chain m c (mkEdge (RN id) false)
  end.

Definition uniq (m : PositiveMap.t node) : Prop :=
  forall id1 id2 n1 n2, PositiveMap.find id1 m = Some n1 -> PositiveMap.find id2 m = Some n2 ->
    nlevel n1 = nlevel n2 -> nchildren n1 = nchildren n2 -> id1 = id2.

Lemma ztaut_find_len : forall m, uniq m -> forall cnt e acc,
  has_chain m cnt e -> length (ztaut_find m cnt e acc) = cnt + length acc.
Proof.
  intros m Hu. induction cnt as [|c IH]; intros e acc Hc; [reflexivity|].
  cbn [ztaut_find]. cbn [has_chain] in Hc.
  destruct Hc as [id [nd [Ef [El [Ec Hc]]]]].
  destruct (find_at m c [e; e]) as [id'|] eqn:F.
  - destruct (find_at_some _ _ _ _ F) as [nd' [Ef' [El' Ec']]].
    assert (id' = id) by (apply (Hu id' id nd' nd Ef' Ef); congruence). subst id'.
    transitivity (c + length (id :: acc)); [exact (IH (mkEdge (RN id) false) (id :: acc) Hc) | simpl; rewrite <- plus_n_Sm; reflexivity].
  - exfalso. apply (find_at_none _ _ _ F id nd Ef El Ec).
Qed.

Lemma get_or_insert_node : forall s lvl ch s' e, get_or_insert s lvl ch = (s', e) ->
  exists id nd, e = mkEdge (RN id) false /\ find_node s' id = Some nd /\ nlevel nd = lvl /\ nchildren nd = ch.
Proof.
  intros s lvl ch s' e. unfold get_or_insert.
  destruct (find_dup s lvl ch) as [id|] eqn:Ed; intros Heq; inversion Heq; subst s' e; clear Heq.
  - destruct (find_dup_some s lvl ch id Ed) as [nd [Ef [El Ec]]]. exists id, nd. auto.
  - exists (Build.fresh_id s), (mkNode lvl ch lvl 0%N). split; [reflexivity|].
    split; [|split; reflexivity]. unfold find_node, set_nodes. cbn [s_nodes]. apply PositiveMap.gss.
Qed.

Lemma ztaut_build_ok2 : forall cnt s e acc,
  ZbddOK s -> cnt <= nlevels s -> nth_error acc 0 = Some e -> chain_ok s cnt acc ->
  exists s' ch, ztaut_build cnt s e acc = (s', ch) /\
    ZbddOK s' /\ extends s s' /\ chain_ok s' 0 ch /\ has_chain (s_nodes s') cnt (mkEdge e false).
Proof.
  induction cnt as [|c IH]; intros s e acc B Hc He Hch.
  - exists s, acc. split; [reflexivity|]. split; [exact B|]. split; [apply extends_refl|].
    split; [exact Hch | exact I].
  - simpl ztaut_build.
    destruct Hch as [Hlen Hden].
    pose proof (Hden 0 e He) as De. rewrite Nat.add_0_r in De.
    assert (Hne : is_empty_b s e = false).
    { apply (nonempty_not_empty s e _ [] B De). split; [exact I | constructor]. }
    assert (Hlev : c < rlevel s e).
    { apply (zden_level s e _ (S c) B De Hc). intros S [Hi _]. exact Hi. }
    destruct (get_or_insert s c [Build.E e; Build.E e]) as [s1 e1] eqn:Eg.
    assert (Em : zmk_node s c e e = (s1, eref e1)) by (unfold zmk_node; rewrite Hne, Eg; reflexivity).
    destruct (zmk_node_ok s c e e _ _ s1 (eref e1) B ltac:(lia) De De Hlev Hlev Em) as (B1 & X1 & D1 & _).
    pose proof (ext_nlevels _ _ X1) as Hn1.
    assert (D1' : ZDen s1 (eref e1) (pall (nlevels s) c))
      by (apply (zden_ext s1 _ _ _ D1); apply (pall_step (nlevels s) c); lia).
    destruct (IH s1 (eref e1) (eref e1 :: acc) B1 ltac:(lia) eq_refl) as (s' & ch & E' & B' & X' & Hch' & HC).
    + split; [simpl; rewrite Hn1, Hlen; lia|].
      intros i r Hi. destruct i as [|i]; simpl in Hi.
      * inversion Hi; subst r. rewrite Nat.add_0_r, Hn1. exact D1'.
      * rewrite Hn1. replace (c + S i) with (S c + i) by lia.
        apply (zden_extends s s1 r _ B X1). apply Hden. exact Hi.
    + exists s', ch. split; [exact E'|]. split; [exact B'|].
      split; [apply (extends_trans _ _ _ X1 X')|]. split; [exact Hch'|].
      destruct (get_or_insert_node _ _ _ _ _ Eg) as [id [nd [Ee [Ef [El Ec]]]]].
      exists id, nd. split; [apply (ext_nodes _ _ X' id nd Ef)|]. split; [exact El|].
      split; [exact Ec|]. rewrite Ee in HC. exact HC.
Qed.

Theorem zchain_rebuild_found : forall s, ZbddOK s ->
  exists ids, zchain_ids (zchain_rebuild s) = Some ids /\ length ids = nlevels s.
Proof.
  intros s B. destruct (zbase_spec s B) as [tb [Eb Etb]].
  destruct (ztaut_build_ok2 (nlevels s) s (RT tb) [RT tb] B (le_n _) eq_refl) as (s' & ch & Ez & B' & X & _ & HC).
  - split; [simpl; lia|]. intros i r Hi. destruct i as [|[|i]]; simpl in Hi; try discriminate.
    inversion Hi; subst r. apply (zden_ext s _ pbase); [apply (zden_base s tb B Etb)|].
    intros S. unfold pbase, pall. split.
    + intros ->. split; [exact I | constructor].
    + intros [Hi' Hb]. destruct S as [|x r]; [reflexivity|]. simpl in Hi'. inversion Hb; subst. lia.
  - assert (Er : zchain_rebuild s = s') by (unfold zchain_rebuild, ztaut_chain; rewrite Eb, Ez; reflexivity).
    rewrite Er.
    assert (Eb' : zbase s' = Some (RT tb)).
    { unfold zbase, term_of in *. rewrite (ext_terms _ _ X). exact Eb. }
    pose proof (ext_nlevels _ _ X) as Hn.
    assert (Hlen : length (ztaut_find (s_nodes s') (nlevels s') (mkEdge (RT tb) false) []) = nlevels s').
    { rewrite ztaut_find_len; [simpl; lia | | rewrite Hn; exact HC].
      intros id1 id2 n1 n2 E1 E2. apply (wf_unique s' (zo_wf _ B') id1 id2 n1 n2 E1 E2). }
    unfold zchain_ids. rewrite Eb', Hlen, Nat.eqb_refl. eexists. split; [reflexivity|].
    rewrite Hlen. exact Hn.
Qed.

(** after [reorder(level_down(i))] and after a [set_var_order] that swaps at all, the next
    [pre_reorder_mut] of the model finds the complete chain *)
Theorem level_swap_z_found : forall s i, ZbddOK s -> S i < nlevels s ->
  exists ids, zchain_ids (level_swap_z s i) = Some ids /\ length ids = nlevels s.
Proof.
  intros s i B Hi.
  pose proof (zchain_drop_ok s B) as B0.
  assert (Hi0 : S i < nlevels (zchain_drop s)).
  { rewrite (LevelSwapZSub.sub_nlevels _ _ (zchain_drop_sub s (zo_wf s B))). exact Hi. }
  pose proof (zc_ok _ i B0 Hi0) as B2.
  destruct (zchain_rebuild_found _ B2) as [ids [E L]]. exists ids. split; [exact E|].
  rewrite L, (zc_nlevels _ i B0 Hi0). apply (LevelSwapZSub.sub_nlevels _ _ (zchain_drop_sub s (zo_wf s B))).
Qed.

Theorem zbracket_found : forall sw s, ZbddOK s -> Forall (fun k => S k < nlevels s) sw ->
  exists ids, zchain_ids (zbracket s sw) = Some ids /\ length ids = nlevels s.
Proof.
  intros sw s B Hsw. unfold zbracket.
  pose proof (zchain_drop_sub s (zo_wf s B)) as X0.
  pose proof (zchain_drop_ok s B) as B0.
  assert (Hsw0 : Forall (fun k => S k < nlevels (zchain_drop s)) sw)
    by (rewrite (LevelSwapZSub.sub_nlevels _ _ X0); exact Hsw).
  destruct (zswaps_fold sw _ B0 Hsw0) as [A [C _]].
  destruct (zchain_rebuild_found _ A) as [ids [E L]]. exists ids. split; [exact E|].
  rewrite L, C. apply (LevelSwapZSub.sub_nlevels _ _ X0).
Qed.
