(** * C08, part Z — the node table after [level_swap_zcore] (ZBDD kind)

    The ZBDD counterpart of Mgr/LevelSwapInv.v: loop invariant [InvZ] of the fold of
    [zrebuild] and its instance at the end of the loop, the relational specification
    [SpecZ] of [swap_nodes_z s em i].  Reduction rule: a node whose hi child is the Empty
    terminal is replaced by its lo child; a level that an edge skips means "variable
    absent": the hi cofactor of a skipping edge is Empty.  The rule-agnostic parts
    ([relabel], [depends], [dep_ids], [ext], [low]) come from Mgr/LevelSwapInv.v. *)

From Coq Require Import List NArith PArith Bool Arith Lia FMapPositive.
From OxiVerif Require Import DD.Table DD.TableExtra DD.TableProofs DD.Build DD.Apply DD.FamSpec DD.ZbddOps
  Mgr.SortOrder Mgr.SortOrderProofs Mgr.LevelSwap Mgr.LevelSwapBase Mgr.LevelSwapInv Mgr.LevelSwapZ.
Import ListNotations.

Section SwapZ.
Variable s : snap.
Variable i : nat.
Variable te : N.
Hypothesis H : WF s.
Hypothesis Hk : s_kind s = KZbdd.
Hypothesis Hi : S i < nlevels s.
(* [te] is the Empty terminal *)
Hypothesis Hte : term_val s te = Some 0%N.

Definition emz : edge := mkEdge (RT te) false.

Notation isdep := (isdep s i).
Notation low := (low s i).
Notation zcof := (zbcof s emz (S i)).

(** ** the Empty terminal *)

Definition isE (e : edge) : Prop := is_empty_b s (eref e) = true.

Lemma isE_dec : forall e, {isE e} + {~ isE e}.
Proof. intros e. unfold isE. destruct (is_empty_b s (eref e)); [left; reflexivity | right; discriminate]. Qed.

Lemma isE_emz : isE emz.
Proof. unfold isE, emz, is_empty_b, is_term_with. simpl. rewrite Hte. reflexivity. Qed.

Lemma isE_ref : forall e, isE e -> eref e = RT te.
Proof.
  intros e He. unfold isE, is_empty_b, is_term_with in He. destruct (eref e) as [t|id]; [|discriminate].
  destruct (term_val s t) as [w|] eqn:E; [|discriminate]. apply N.eqb_eq in He. subst w.
  f_equal. apply (term_val_inj s t te 0%N H E Hte).
Qed.

Lemma isE_eq : forall e, isE e -> etag e = false -> e = emz.
Proof. intros [r t] He Ht. simpl in Ht. subst t. apply isE_ref in He. simpl in He. subst r. reflexivity. Qed.

Lemma low_emz : low emz.
Proof.
  split; [exists 0%N; exact Hte|]. split; [reflexivity|]. simpl. exact Hi.
Qed.

Lemma not_bcdd_z : s_kind s <> KBcdd.
Proof. rewrite Hk. discriminate. Qed.

(** ** stored ZBDD nodes *)

Lemma zbdd_children : forall id nd, find_node s id = Some nd ->
  exists c0 c1, nchildren nd = [c0; c1] /\ ~ isE c0.
Proof.
  intros id nd E. pose proof (wf_arity s H id nd E) as Ha. rewrite Hk in Ha. simpl in Ha.
  destruct (length2 _ _ Ha) as [c0 [c1 Hc]]. exists c0, c1. split; [exact Hc|].
  pose proof (wf_reduced s H id nd E) as Hr. unfold reduced in Hr. rewrite Hk, Hc in Hr.
  destruct Hr as [hi [Hh Hne]]. simpl in Hh. inversion Hh; subst hi.
  intros He. pose proof (isE_ref _ He) as Er. apply (Hne te Er Hte).
Qed.

Lemma zbdd_tag : forall id nd e, find_node s id = Some nd -> In e (nchildren nd) -> etag e = false.
Proof. intros id nd e E He. exact (wf_tags s H not_bcdd_z id nd e E He). Qed.

(** ** [zbcof] *)

Lemma zcof_skip : forall c, rlevel s (eref c) <> S i -> zcof c 0 = emz /\ zcof c 1 = c.
Proof.
  intros c Hl. unfold zbcof. destruct (eref c) as [t|id] eqn:Er; [split; reflexivity|].
  simpl in Hl. destruct (find_node s id) as [nd|]; [|split; reflexivity].
  destruct (Nat.eqb_spec (nlevel nd) (S i)); [contradiction | split; reflexivity].
Qed.

Lemma zcof_at : forall c cid cn g0 g1,
  eref c = RN cid -> find_node s cid = Some cn -> nlevel cn = S i -> nchildren cn = [g0; g1] ->
  zcof c 0 = g0 /\ zcof c 1 = g1.
Proof.
  intros c cid cn g0 g1 Er E Hl Hc. unfold zbcof. rewrite Er, E, Hl, Nat.eqb_refl, Hc. split; reflexivity.
Qed.

(** the two cases for a child [c] of a node of the upper level *)
Lemma zchild_cases : forall id nd c, find_node s id = Some nd -> nlevel nd = i -> In c (nchildren nd) ->
  (rlevel s (eref c) <> S i /\ low c /\ zcof c 0 = emz /\ zcof c 1 = c)
  \/ (exists cid cn g0 g1, c = mkEdge (RN cid) false /\ find_node s cid = Some cn /\ nlevel cn = S i
        /\ nchildren cn = [g0; g1] /\ ~ isE g0 /\ low g0 /\ low g1
        /\ zcof c 0 = g0 /\ zcof c 1 = g1).
Proof.
  intros id nd c E Hl Hc.
  destruct (wf_child s H id nd c E Hc) as [Hok Hlt]. pose proof (zbdd_tag id nd c E Hc) as Ht.
  destruct (Nat.eq_dec (rlevel s (eref c)) (S i)) as [Heq|Hne].
  - right. destruct (eref c) as [t|cid] eqn:Er.
    { simpl in Heq. lia. }
    simpl in Heq. destruct (find_node s cid) as [cn|] eqn:Ec; [|lia].
    destruct (zbdd_children cid cn Ec) as [g0 [g1 [Hg Hne]]].
    exists cid, cn, g0, g1.
    assert (Hlow : forall g, In g (nchildren cn) -> low g).
    { intros g Hg'. destruct (wf_child s H cid cn g Ec Hg') as [A B].
      split; [exact A|]. split; [exact (zbdd_tag cid cn g Ec Hg') | lia]. }
    destruct (zcof_at c cid cn g0 g1 Er Ec Heq Hg) as [B0 B1].
    assert (Hce : c = mkEdge (RN cid) false).
    { destruct c as [r t]. simpl in *. subst. reflexivity. }
    assert (L0 : low g0) by (apply Hlow; rewrite Hg; simpl; auto).
    assert (L1 : low g1) by (apply Hlow; rewrite Hg; simpl; auto).
    split; [exact Hce|]. split; [exact Ec|]. split; [exact Heq|]. split; [exact Hg|].
    split; [exact Hne|]. split; [exact L0|]. split; [exact L1|]. split; [exact B0 | exact B1].
  - left. split; [exact Hne|]. split.
    + split; [exact Hok|]. split; [exact Ht | lia].
    + apply zcof_skip. exact Hne.
Qed.

Lemma zcof_low : forall id nd c b, find_node s id = Some nd -> nlevel nd = i -> In c (nchildren nd) ->
  b < 2 -> low (zcof c b).
Proof.
  intros id nd c b E Hl Hc Hb.
  destruct (zchild_cases id nd c E Hl Hc) as [[_ [Hlow [B0 B1]]]|[cid [cn [g0 [g1 [_ [_ [_ [_ [_ [L0 [L1 [B0 B1]]]]]]]]]]]]].
  - destruct b as [|[|b]]; [rewrite B0; exact low_emz | rewrite B1; exact Hlow | lia].
  - destruct b as [|[|b]]; [rewrite B0; exact L0 | rewrite B1; exact L1 | lia].
Qed.

(** the pair of cofactors determines the child *)
Lemma zcof_inj : forall id1 nd1 c id2 nd2 d,
  find_node s id1 = Some nd1 -> nlevel nd1 = i -> In c (nchildren nd1) ->
  find_node s id2 = Some nd2 -> nlevel nd2 = i -> In d (nchildren nd2) ->
  zcof c 0 = zcof d 0 -> zcof c 1 = zcof d 1 -> c = d.
Proof.
  intros id1 nd1 c id2 nd2 d E1 L1 Hc E2 L2 Hd B0 B1.
  destruct (zchild_cases id1 nd1 c E1 L1 Hc) as [[_ [_ [Sc0 Sc1]]]|[cid [cn [g0 [g1 [Ec [Fc [Lc [Cc [Nc [_ [_ [C0 C1]]]]]]]]]]]]];
  destruct (zchild_cases id2 nd2 d E2 L2 Hd) as [[_ [_ [Sd0 Sd1]]]|[did [dn [h0 [h1 [Ed [Fd [Ld [Cd [Nd [_ [_ [D0 D1]]]]]]]]]]]]].
  - rewrite Sc1, Sd1 in B1. exact B1.
  - exfalso. rewrite Sc0, D0 in B0. apply Nd. rewrite <- B0. exact isE_emz.
  - exfalso. rewrite C0, Sd0 in B0. apply Nc. rewrite B0. exact isE_emz.
  - rewrite C0, D0 in B0. rewrite C1, D1 in B1. subst g0 g1.
    assert (cid = did).
    { apply (wf_unique s H cid did cn dn Fc Fd); congruence. }
    subst. reflexivity.
Qed.

(** the hi cofactors of a node that references the lower level are not both Empty: the
    rewritten node's hi child is not Empty *)
Lemma zdep_hi0 : forall id nd c0 c1, find_node s id = Some nd -> isdep nd -> nchildren nd = [c0; c1] ->
  ~ (isE (zcof c0 0) /\ isE (zcof c1 0)).
Proof.
  intros id nd c0 c1 E [Hl Hd] Hc [A B].
  apply depends_spec in Hd. destruct Hd as [e [He Hle]]. rewrite Hc in He.
  assert (Hin0 : In c0 (nchildren nd)) by (rewrite Hc; simpl; auto).
  assert (Hin1 : In c1 (nchildren nd)) by (rewrite Hc; simpl; auto).
  destruct He as [<-|[<-|[]]].
  - destruct (zchild_cases id nd c0 E Hl Hin0) as [[Hne _]|[cid [cn [g0 [g1 [_ [_ [_ [_ [Hg [_ [_ [B0 B1]]]]]]]]]]]]].
    + contradiction.
    + apply Hg. rewrite <- B0. exact A.
  - destruct (zchild_cases id nd c1 E Hl Hin1) as [[Hne _]|[cid [cn [g0 [g1 [_ [_ [_ [_ [Hg [_ [_ [B0 B1]]]]]]]]]]]]].
    + contradiction.
    + apply Hg. rewrite <- B0. exact B.
Qed.

(** the two cofactors of the hi child are not both Empty: one of the rewritten children
    is a node of the new lower level *)
Lemma zdep_c0 : forall id nd c0 c1, find_node s id = Some nd -> nlevel nd = i -> nchildren nd = [c0; c1] ->
  ~ (isE (zcof c0 0) /\ isE (zcof c0 1)).
Proof.
  intros id nd c0 c1 E Hl Hc [A B].
  assert (Hin0 : In c0 (nchildren nd)) by (rewrite Hc; simpl; auto).
  destruct (zbdd_children id nd E) as [a [b [Hab Hne]]]. rewrite Hc in Hab. inversion Hab; subst a b.
  destruct (zchild_cases id nd c0 E Hl Hin0) as [[_ [_ [_ B1]]]|[cid [cn [g0 [g1 [_ [_ [_ [_ [Hg [_ [_ [B0 _]]]]]]]]]]]]].
  - apply Hne. rewrite <- B1. exact B.
  - apply Hg. rewrite <- B0. exact A.
Qed.

(** ** the loop invariant *)

(** [e] is what [reduce] + lookup/insert on the new lower level returns for the children
    [x] (hi), [y] (lo) *)
Definition repz (m : PositiveMap.t node) (x y e : edge) : Prop :=
  (isE x /\ e = y)
  \/ (~ isE x /\ exists id nd, e = mkEdge (RN id) false /\ PositiveMap.find id m = Some nd
                              /\ nlevel nd = S i /\ nchildren nd = [x; y]).

(** a node created by the swap *)
Definition goodnewz (nd : node) : Prop :=
  nlevel nd = S i /\ nstored nd = S i
  /\ exists x y, nchildren nd = [x; y] /\ ~ isE x /\ low x /\ low y.

Notation ext := (ext i).

Lemma repz_ext : forall m m' x y e, ext m m' -> repz m x y e -> repz m' x y e.
Proof.
  intros m m' x y e Hx [A|[A [id [nd [B [C [D F]]]]]]]; [left; exact A | right].
  split; [exact A|]. exists id, nd. repeat split; auto.
Qed.

(** the rewritten form of a node of the upper level that references the lower level *)
Definition rebuiltz (m : PositiveMap.t node) (id : positive) (nd : node) : Prop :=
  exists c0 c1 e0 e1, nchildren nd = [c0; c1]
    /\ PositiveMap.find id m = Some (mkNode i [e0; e1] i (nrc nd))
    /\ repz m (zcof c0 0) (zcof c1 0) e0
    /\ repz m (zcof c0 1) (zcof c1 1) e1.

Record InvZ (P : list positive) (st : tstate) : Prop := mkInvZ {
  invz_old : forall id nd, find_node s id = Some nd -> ~ In id P ->
      PositiveMap.find id (fst st) = Some (relabel s i nd);
  invz_done : forall id, In id P ->
      exists nd, find_node s id = Some nd /\ isdep nd /\ rebuiltz (fst st) id nd;
  invz_new : forall id nd, PositiveMap.find id (fst st) = Some nd -> find_node s id = None ->
      goodnewz nd /\ (id < snd st)%positive;
  invz_nxt : forall id nd, find_node s id = Some nd -> (id < snd st)%positive;
  invz_uniq : forall id1 id2 n1 n2,
      PositiveMap.find id1 (fst st) = Some n1 -> PositiveMap.find id2 (fst st) = Some n2 ->
      nlevel n1 = S i -> nlevel n2 = S i -> nchildren n1 = nchildren n2 -> id1 = id2
}.

Lemma invz_free : forall P st id, InvZ P st -> (snd st <= id)%positive ->
  PositiveMap.find id (fst st) = None.
Proof.
  intros P st id I Hle. destruct (PositiveMap.find id (fst st)) as [nd|] eqn:E; [|reflexivity].
  exfalso. destruct (find_node s id) as [nd0|] eqn:E0.
  - pose proof (invz_nxt P st I id nd0 E0). lia.
  - destruct (invz_new P st I id nd E E0) as [_ Hlt]. lia.
Qed.

Lemma invz_init : InvZ [] (st0 s i).
Proof.
  constructor; unfold st0; simpl.
  - intros id nd E _. rewrite find_map. unfold find_node in E. rewrite E. reflexivity.
  - intros id [].
  - intros id nd E E0. rewrite find_map in E. unfold find_node in E0. rewrite E0 in E. discriminate.
  - intros id nd E. apply (fresh_id_above _ _ _ E).
  - intros id1 id2 n1 n2 E1 E2 L1 L2 Hc. rewrite find_map in E1, E2.
    destruct (PositiveMap.find id1 (s_nodes s)) as [m1|] eqn:F1; [|discriminate].
    destruct (PositiveMap.find id2 (s_nodes s)) as [m2|] eqn:F2; [|discriminate].
    simpl in E1, E2. inversion E1; subst n1. inversion E2; subst n2. clear E1 E2.
    rewrite !relabel_children in Hc.
    apply (wf_unique s H id1 id2 m1 m2 F1 F2); [|exact Hc].
    destruct (relabel_cases s i m1) as [[A R]|[[A [_ R]]|[[[A _] R]|[A [B R]]]]]; rewrite R in L1; simpl in L1; try lia;
    destruct (relabel_cases s i m2) as [[A' R']|[[A' [_ R']]|[[[A' _] R']|[A' [B' R']]]]]; rewrite R' in L2; simpl in L2; try lia.
Qed.

(** [reduce] + [get_or_insert] on the new lower level *)
Lemma zmk2_inv : forall P st x y e st',
  InvZ P st -> low x -> low y -> zmk2 s st (S i) x y = (e, st') ->
  InvZ P st' /\ repz (fst st') x y e /\ ext (fst st) (fst st').
Proof.
  intros P [m nxt] x y e st' I Lx Ly. unfold zmk2. simpl fst. simpl snd.
  destruct (is_empty_b s (eref x)) eqn:Ex.
  { intros E. inversion E; subst.
    split; [exact I|]. split; [left; split; [exact Ex | reflexivity] | apply ext_refl]. }
  assert (Hne : ~ isE x) by (unfold isE; rewrite Ex; discriminate).
  destruct (find_at m (S i) [x; y]) as [id|] eqn:F.
  { intros E. inversion E; subst. destruct (find_at_some _ _ _ _ F) as [nd [A [B C]]].
    split; [exact I|]. split; [|apply ext_refl].
    right. split; [exact Hne|]. exists id, nd. auto. }
  intros E. inversion E; subst e st'. clear E. simpl fst. simpl snd.
  pose proof (invz_free P (m, nxt) nxt I (Pos.le_refl _)) as Hfree. simpl in Hfree.
  assert (Hext : ext m (PositiveMap.add nxt (mkNode (S i) [x; y] (S i) 0%N) m)).
  { intros id nd E _. rewrite find_add. destruct (Pos.eqb_spec id nxt); [congruence | exact E]. }
  split; [|split; [|exact Hext]].
  - constructor; simpl fst; simpl snd.
    + intros id nd E Hn. rewrite find_add.
      pose proof (invz_nxt _ _ I id nd E) as Hlt. simpl in Hlt.
      destruct (Pos.eqb_spec id nxt); [lia|]. apply (invz_old _ _ I id nd E Hn).
    + intros id Hp. destruct (invz_done _ _ I id Hp) as [nd [E [D [c0 [c1 [e0 [e1 [Hc [Hf [R0 R1]]]]]]]]]].
      exists nd. split; [exact E|]. split; [exact D|]. exists c0, c1, e0, e1.
      simpl in Hf, R0, R1. split; [exact Hc|]. split.
      * rewrite find_add. pose proof (invz_nxt _ _ I id nd E) as Hlt. simpl in Hlt.
        destruct (Pos.eqb_spec id nxt); [lia | exact Hf].
      * split; eapply repz_ext; eauto.
    + intros id nd E E0. rewrite find_add in E. destruct (Pos.eqb_spec id nxt) as [->|Hn].
      * inversion E; subst nd. split; [|lia].
        split; [reflexivity|]. split; [reflexivity|]. exists x, y. auto.
      * destruct (invz_new _ _ I id nd E E0) as [G Hlt]. simpl in Hlt. split; [exact G | lia].
    + intros id nd E. pose proof (invz_nxt _ _ I id nd E) as Hlt. simpl in Hlt. lia.
    + intros id1 id2 n1 n2 E1 E2 L1 L2 Hc. rewrite find_add in E1, E2.
      destruct (Pos.eqb_spec id1 nxt) as [->|N1]; destruct (Pos.eqb_spec id2 nxt) as [->|N2].
      * reflexivity.
      * exfalso. inversion E1; subst n1. simpl in Hc.
        apply (find_at_none _ _ _ F id2 n2 E2 L2). congruence.
      * exfalso. inversion E2; subst n2. simpl in Hc.
        apply (find_at_none _ _ _ F id1 n1 E1 L1). congruence.
      * apply (invz_uniq _ _ I id1 id2 n1 n2 E1 E2 L1 L2 Hc).
  - right. split; [exact Hne|]. exists nxt, (mkNode (S i) [x; y] (S i) 0%N).
    split; [reflexivity|]. split; [|split; reflexivity].
    rewrite find_add, Pos.eqb_refl. reflexivity.
Qed.

(** one iteration of the loop *)
Lemma zrebuild_inv : forall P st id nd,
  InvZ P st -> find_node s id = Some nd -> isdep nd -> ~ In id P ->
  InvZ (id :: P) (zrebuild s emz i st id).
Proof.
  intros P st id nd I E D Hn. unfold zrebuild. rewrite E.
  destruct (zbdd_children id nd E) as [c0 [c1 [Hc Hne]]]. rewrite Hc.
  assert (Hin0 : In c0 (nchildren nd)) by (rewrite Hc; simpl; auto).
  assert (Hin1 : In c1 (nchildren nd)) by (rewrite Hc; simpl; auto).
  destruct D as [Dl Dd].
  destruct (zmk2 s st (S i) (zcof c0 0) (zcof c1 0)) as [e0 st1] eqn:M0.
  destruct (zmk2 s st1 (S i) (zcof c0 1) (zcof c1 1)) as [e1 st2] eqn:M1.
  destruct (zmk2_inv P st _ _ e0 st1 I
              (zcof_low id nd c0 0 E Dl Hin0 ltac:(lia)) (zcof_low id nd c1 0 E Dl Hin1 ltac:(lia)) M0)
    as [I1 [R0 X1]].
  destruct (zmk2_inv P st1 _ _ e1 st2 I1
              (zcof_low id nd c0 1 E Dl Hin0 ltac:(lia)) (zcof_low id nd c1 1 E Dl Hin1 ltac:(lia)) M1)
    as [I2 [R1 X2]].
  pose proof (repz_ext _ _ _ _ _ X2 R0) as R0'.
  (* the node [id] still has its old form in [st2] *)
  pose proof (invz_old _ _ I2 id nd E Hn) as Hold. rewrite (relabel_dep s i nd (conj Dl Dd)) in Hold.
  set (nn := mkNode i [e0; e1] i (nrc nd)).
  assert (Hext : ext (fst st2) (PositiveMap.add id nn (fst st2))).
  { intros k kd Ek Lk. rewrite find_add. destruct (Pos.eqb_spec k id) as [->|]; [|exact Ek].
    rewrite Hold in Ek. inversion Ek; subst kd. lia. }
  constructor; simpl fst; simpl snd.
  - intros k kd Ek Hnk. rewrite find_add. destruct (Pos.eqb_spec k id) as [->|Nk].
    + exfalso. apply Hnk. left. reflexivity.
    + apply (invz_old _ _ I2 k kd Ek). intros Hp. apply Hnk. right. exact Hp.
  - intros k [<-|Hp].
    + exists nd. split; [exact E|]. split; [split; assumption|].
      exists c0, c1, e0, e1. split; [exact Hc|]. split.
      * rewrite find_add, Pos.eqb_refl. reflexivity.
      * split; eapply repz_ext; eauto.
    + destruct (invz_done _ _ I2 k Hp) as [kd [Ek [Dk [d0 [d1 [f0 [f1 [Hd [Hf [Q0 Q1]]]]]]]]]].
      exists kd. split; [exact Ek|]. split; [exact Dk|]. exists d0, d1, f0, f1.
      split; [exact Hd|]. split.
      * rewrite find_add. destruct (Pos.eqb_spec k id) as [->|]; [contradiction | exact Hf].
      * split; eapply repz_ext; eauto.
  - intros k kd Ek E0. rewrite find_add in Ek. destruct (Pos.eqb_spec k id) as [->|Nk]; [congruence|].
    apply (invz_new _ _ I2 k kd Ek E0).
  - intros k kd Ek. apply (invz_nxt _ _ I2 k kd Ek).
  - intros id1 id2 n1 n2 E1 E2 L1 L2 Hcc. rewrite find_add in E1, E2.
    destruct (Pos.eqb_spec id1 id) as [->|N1].
    { inversion E1; subst n1. unfold nn in L1. simpl in L1. lia. }
    destruct (Pos.eqb_spec id2 id) as [->|N2].
    { inversion E2; subst n2. unfold nn in L2. simpl in L2. lia. }
    apply (invz_uniq _ _ I2 id1 id2 n1 n2 E1 E2 L1 L2 Hcc).
Qed.

Lemma zfold_inv : forall R P st,
  InvZ P st -> NoDup R ->
  (forall id, In id R -> ~ In id P /\ exists nd, find_node s id = Some nd /\ isdep nd) ->
  InvZ (rev R ++ P) (fold_left (zrebuild s emz i) R st).
Proof.
  induction R as [|id R IH]; intros P st I Hnd HR; simpl; [exact I|].
  inversion Hnd as [|? ? Hid HndR]; subst.
  destruct (HR id (or_introl eq_refl)) as [HnP [nd [E D]]].
  rewrite <- app_assoc. simpl. apply IH.
  - apply (zrebuild_inv P st id nd I E D HnP).
  - exact HndR.
  - intros k Hkin. destruct (HR k (or_intror Hkin)) as [A B]. split; [|exact B].
    intros [<-|Hp]; [contradiction | contradiction].
Qed.

(** ** the table after the loop *)

Record SpecZ (m : PositiveMap.t node) : Prop := mkSpecZ {
  specz_old : forall id nd, find_node s id = Some nd -> ~ isdep nd ->
      PositiveMap.find id m = Some (relabel s i nd);
  specz_dep : forall id nd, find_node s id = Some nd -> isdep nd -> rebuiltz m id nd;
  specz_new : forall id nd, PositiveMap.find id m = Some nd -> find_node s id = None -> goodnewz nd;
  specz_uniq : forall id1 id2 n1 n2,
      PositiveMap.find id1 m = Some n1 -> PositiveMap.find id2 m = Some n2 ->
      nlevel n1 = S i -> nlevel n2 = S i -> nchildren n1 = nchildren n2 -> id1 = id2
}.

Theorem swap_nodes_z_spec : SpecZ (swap_nodes_z s emz i).
Proof.
  unfold swap_nodes_z.
  pose proof (zfold_inv (dep_ids s i) [] (st0 s i) invz_init (dep_ids_nodup s i)) as I.
  assert (HR : forall id, In id (dep_ids s i) ->
             ~ In id [] /\ exists nd, find_node s id = Some nd /\ isdep nd).
  { intros id Hin. split; [intros []|]. apply dep_ids_spec. exact Hin. }
  specialize (I HR). rewrite app_nil_r in I. fold (st0 s i).
  set (st := fold_left (zrebuild s emz i) (dep_ids s i) (st0 s i)) in *.
  constructor.
  - intros id nd E Hnd. apply (invz_old _ _ I id nd E).
    intros Hin. apply in_rev in Hin. apply dep_ids_spec in Hin. destruct Hin as [nd' [E' D']].
    rewrite E in E'. inversion E'; subst nd'. contradiction.
  - intros id nd E D.
    assert (Hin : In id (rev (dep_ids s i))).
    { apply in_rev. rewrite rev_involutive. apply dep_ids_spec. eauto. }
    destruct (invz_done _ _ I id Hin) as [nd' [E' [_ R]]].
    rewrite E in E'. inversion E'; subst nd'. exact R.
  - intros id nd E E0. apply (invz_new _ _ I id nd E E0).
  - apply (invz_uniq _ _ I).
Qed.

End SwapZ.
