(** * C08, part Z — [set_var_order_model_z]: a whole reordering of a ZBDD manager

    [set_var_order] on a ZBDD manager: nothing when the target order is the current one,
    otherwise ONE [reorder] bracket (chain dropped, chain rebuilt) around the adjacent swaps
    of the bubble sort.
    - [zswaps_fold]: any sequence of in-range swaps inside the bracket keeps [ZbddOK], the
      handle list and every handle's function over the variables, and permutes
      [level_to_var] as [replay] does;
    - [set_var_order_model_z_correct] / [_respects] / [_canonical] / [_fam] / [_chain]:
      as for BDDs (Mgr/LevelSwapOrder.v), plus: every handle denotes the same family over
      the variables and the tautology chain is complete again;
    - examples: the hypotheses are satisfiable; on the example the loop takes the
      [cofactor_skipped] branch, the zero-suppression branch of [reduce], creates and
      removes nodes, and the chain is dropped and rebuilt. *)

From Coq Require Import List NArith PArith Bool Arith Lia FMapPositive Permutation.
From OxiVerif Require Import DD.Table DD.TableExtra DD.TableProofs DD.Canon DD.CanonZbdd DD.Build DD.BuildProofs
  DD.Apply DD.ApplyProofs DD.FamSpec DD.FamSpecProofs DD.ZbddOps DD.ZbddOpsProofs DD.ZbddVars DD.ZbddVarsProofs
  Mgr.SortOrder Mgr.SortOrderProofs
  Mgr.LevelSwap Mgr.LevelSwapBase Mgr.LevelSwapSem Mgr.LevelSwapProofs Mgr.LevelSwapOrder
  Mgr.LevelSwapZ Mgr.LevelSwapZSub Mgr.LevelSwapZProofs Mgr.LevelSwapZChain.
Import ListNotations.

(** ** a sequence of swaps inside the bracket *)

Theorem zswaps_fold : forall sw s,
  ZbddOK s -> Forall (fun k => S k < nlevels s) sw ->
  let s' := fold_left level_swap_zc sw s in
  ZbddOK s' /\ nlevels s' = nlevels s /\ s_handles s' = s_handles s
  /\ s_l2v s' = replay sw (s_l2v s) /\ s_v2l s' = fold_left (fun v k => map (swap_idx k) v) sw (s_v2l s)
  /\ (forall h a, In h (s_handles s) ->
        eval_vars s' (snd h) a = eval_vars s (snd h) a /\ exists v, eval_vars s (snd h) a = Some v).
Proof.
  induction sw as [|k sw IH]; intros s B Hsw; simpl.
  - split; [exact B|]. split; [reflexivity|]. split; [reflexivity|]. split; [reflexivity|]. split; [reflexivity|].
    intros h a Hh. split; [reflexivity|].
    destruct (wf_handles s (zo_wf s B) h Hh) as [Ok _]. unfold eval_vars.
    apply (sem_total s (zo_wf s B)); [exact Ok | apply asg_choice_ok].
  - inversion Hsw as [|? ? Hk0 Hsw']; subst.
    pose proof (zc_ok s k B Hk0) as B1.
    pose proof (zc_nlevels s k B Hk0) as N1.
    pose proof (zc_handles s k B Hk0) as Hh1.
    destruct (zc_maps s k B Hk0) as [M1 [M2 _]].
    assert (Hsw1 : Forall (fun k0 => S k0 < nlevels (level_swap_zc s k)) sw).
    { rewrite N1. exact Hsw'. }
    destruct (IH (level_swap_zc s k) B1 Hsw1) as [A [C [D [F [F2 G]]]]].
    split; [exact A|]. split; [rewrite C; exact N1|]. split; [rewrite D; exact Hh1|].
    split; [rewrite F, M1; reflexivity|]. split; [rewrite F2, M2; reflexivity|].
    intros h a Hh.
    destruct (zc_handles_vars s k B Hk0 h a Hh) as [P Q].
    split; [|exact Q]. rewrite <- Hh1 in Hh. destruct (G h a Hh) as [G1 _]. rewrite G1. exact P.
Qed.

(** ** the bracket: drop, swaps, rebuild *)

Definition zbracket (s : snap) (sw : list nat) : snap :=
  zchain_rebuild (fold_left level_swap_zc sw (zchain_drop s)).

Theorem zbracket_ok : forall sw s,
  ZbddOK s -> Forall (fun k => S k < nlevels s) sw ->
  let s' := zbracket s sw in
  ZbddOK s' /\ nlevels s' = nlevels s /\ s_handles s' = s_handles s
  /\ s_l2v s' = replay sw (s_l2v s)
  /\ (forall h a, In h (s_handles s) ->
        eval_vars s' (snd h) a = eval_vars s (snd h) a /\ exists v, eval_vars s (snd h) a = Some v)
  /\ (exists ch, length ch = nlevels s + 1
      /\ forall l t, nth_error ch l = Some t ->
           ref_ok s' t /\ exists F, fam_of s' t = Some F /\ feq F (f_powerset l (nlevels s - l))).
Proof.
  intros sw s B Hsw. unfold zbracket.
  pose proof (zchain_drop_sub s (zo_wf s B)) as X0.
  pose proof (zchain_drop_ok s B) as B0.
  set (s0 := zchain_drop s) in *.
  assert (Hsw0 : Forall (fun k => S k < nlevels s0) sw) by (rewrite (sub_nlevels _ _ X0); exact Hsw).
  destruct (zswaps_fold sw s0 B0 Hsw0) as [A [C [D [F [_ G]]]]].
  set (sf := fold_left level_swap_zc sw s0) in *.
  destruct (zchain_rebuild_ok sf A) as [B' [X [ch [_ [Hl Hch]]]]].
  set (s' := zchain_rebuild sf) in *.
  assert (Nf : nlevels sf = nlevels s) by (rewrite C; apply (sub_nlevels _ _ X0)).
  simpl. split; [exact B'|]. split; [rewrite (ext_nlevels _ _ X); exact Nf|].
  split; [rewrite (ext_handles _ _ X), D; apply (sub_handles _ _ X0)|].
  split; [rewrite (ext_l2v _ _ X), F, (sub_l2v _ _ X0); reflexivity|].
  split.
  - intros h a Hh.
    assert (Hh0 : In h (s_handles s0)) by (rewrite (sub_handles _ _ X0); exact Hh).
    destruct (G h a Hh0) as [G1 _].
    assert (Okf : ref_ok sf (eref (snd h))).
    { apply (wf_handles sf (zo_wf _ A)). rewrite D. exact Hh0. }
    split.
    + rewrite (eval_vars_ext sf s' (snd h) a (zo_wf _ A) (zo_kind _ A) X Okf), G1.
      apply (eval_vars_sub s s0 (snd h) a X0 (zo_kind s B)). apply (sub_hok _ _ X0 h Hh0).
    + destruct (wf_handles s (zo_wf s B) h Hh) as [Ok _]. unfold eval_vars.
      apply (sem_total s (zo_wf s B)); [exact Ok | apply asg_choice_ok].
  - exists ch. rewrite Nf in Hl, Hch. split; [exact Hl | exact Hch].
Qed.

(** ** [set_var_order_model_z] *)

Section OrderZ.
Variable s : snap.
Variable order : list nat.
Hypothesis B : ZbddOK s.
(* the requests on which [set_var_order] does not panic: variables in range, none twice *)
Hypothesis Hnd : NoDup order.
Hypothesis Hr : Forall (fun v => v < nlevels s) order.

Let H : WF s := zo_wf s B.
Let n := nlevels s.
Let levels := map (fun v => nth v (s_v2l s) 0) order.
Let target := sort_order n levels.
Let s' := set_var_order_model_z s order.

Lemma zlevels_valid : valid_order n levels.
Proof. apply valid_order_levels; assumption. Qed.

(** the facts shared by both branches of [set_var_order_model_z] *)
Lemma zorder_core :
  ZbddOK s' /\ nlevels s' = n /\ s_handles s' = s_handles s
  /\ s_l2v s' = replay (snd (bubble_sort target)) (s_l2v s)
  /\ (forall h a, In h (s_handles s) ->
        eval_vars s' (snd h) a = eval_vars s (snd h) a /\ exists v, eval_vars s (snd h) a = Some v).
Proof.
  pose proof zlevels_valid as Hv.
  unfold s', set_var_order_model_z. fold n. fold levels. fold target.
  pose proof (bubble_sort_correct target) as Hb.
  destruct (bubble_sort target) as [t' sw] eqn:Eb. simpl snd.
  destruct Hb as [_ [_ [Hvalid _]]].
  assert (Hlen : length target = n) by (apply sort_order_length; exact Hv).
  assert (Hsw : Forall (fun k => S k < nlevels s) sw).
  { pose proof (valid_swaps_range target sw Hvalid) as R. rewrite Hlen in R. exact R. }
  destruct sw as [|k sw].
  - split; [exact B|]. split; [reflexivity|]. split; [reflexivity|]. split; [reflexivity|].
    intros h a Hh. split; [reflexivity|].
    destruct (wf_handles s H h Hh) as [Ok _]. unfold eval_vars.
    apply (sem_total s H); [exact Ok | apply asg_choice_ok].
  - destruct (zbracket_ok (k :: sw) s B Hsw) as [A [C [D [F [G _]]]]].
    unfold zbracket in *. auto.
Qed.

Theorem set_var_order_model_z_correct :
  ZbddOK s' /\ s_kind s' = s_kind s /\ nlevels s' = n /\ s_handles s' = s_handles s
  /\ (forall h a, In h (s_handles s) ->
        eval_vars s' (snd h) a = eval_vars s (snd h) a /\ exists v, eval_vars s (snd h) a = Some v)
  /\ (forall v, v < n -> nth v (s_v2l s') 0 = nth (nth v (s_v2l s) 0) target 0)
  /\ length (snd (bubble_sort target)) = inv target.
Proof.
  pose proof zlevels_valid as Hv.
  destruct zorder_core as [A [C [D [F G]]]].
  pose proof (bubble_sort_correct target) as Hb.
  destruct (bubble_sort target) as [t' sw] eqn:Eb. simpl snd in *.
  destruct Hb as [Hsorted [Hperm [Hvalid [Hreplay Hcount]]]].
  assert (Hlen : length target = n) by (apply sort_order_length; exact Hv).
  split; [exact A|]. split; [rewrite (zo_kind _ A), (zo_kind s B); reflexivity|].
  split; [exact C|]. split; [exact D|]. split; [exact G|].
  split; [|exact Hcount].
  (* the variable at the final level p is the one whose target position is p *)
  set (key := fun v => nth (nth v (s_v2l s) 0) target 0).
  assert (Hkey : map key (s_l2v s) = target).
  { apply (list_ext _ _ 0); [rewrite map_length; symmetry; exact Hlen|].
    intros l Hl. rewrite map_length in Hl.
    rewrite (nth_indep _ 0 (key 0)) by (rewrite map_length; exact Hl).
    rewrite map_nth. unfold key. destruct (wf_l2v_v2l s l H Hl) as [_ X]. rewrite X. reflexivity. }
  assert (Ht' : t' = seq 0 n).
  { apply sorted_perm_seq; [exact Hsorted|].
    eapply Permutation_trans; [exact Hperm | apply sort_order_perm; exact Hv]. }
  assert (Hfinal : map key (s_l2v s') = seq 0 n).
  { rewrite F, <- replay_map, Hkey, Hreplay. exact Ht'. }
  intros v Hvn. rewrite <- C in Hvn.
  destruct (wf_v2l_l2v s' v (zo_wf _ A) Hvn) as [Plt Pinv].
  set (p := nth v (s_v2l s') 0) in *.
  assert (Hp : nth p (map key (s_l2v s')) 0 = p).
  { rewrite Hfinal. rewrite C in Plt. rewrite seq_nth by exact Plt. reflexivity. }
  rewrite (nth_indep _ 0 (key 0)) in Hp by (rewrite map_length; exact Plt).
  rewrite map_nth, Pinv in Hp. unfold key in Hp. symmetry. exact Hp.
Qed.

(** the variables named in the request end up in the requested relative order *)
Theorem set_var_order_model_z_respects : forall a b, a < b < length order ->
  nth (nth a order 0) (s_v2l s') 0 < nth (nth b order 0) (s_v2l s') 0.
Proof.
  intros a b Hab.
  destruct set_var_order_model_z_correct as [_ [_ [_ [_ [_ [Hpos _]]]]]].
  assert (Hin : forall k, k < length order ->
            nth k order 0 < n /\ nth k levels 0 = nth (nth k order 0) (s_v2l s) 0).
  { intros k Hkl. split.
    - rewrite Forall_forall in Hr. apply Hr. apply nth_In. exact Hkl.
    - unfold levels. apply (nth_map_in _ _ (fun v => nth v (s_v2l s) 0)). exact Hkl. }
  destruct (Hin a ltac:(lia)) as [Ra La]. destruct (Hin b ltac:(lia)) as [Rb Lb].
  rewrite (Hpos _ Ra), (Hpos _ Rb), <- La, <- Lb.
  apply (sort_order_respects n levels zlevels_valid a b).
  unfold levels. rewrite map_length. exact Hab.
Qed.

(** the reordered diagram is canonical again (the theorem of C01 for ZBDDs applies to the result) *)
Theorem set_var_order_model_z_canonical : forall h1 h2,
  In h1 (s_handles s) -> In h2 (s_handles s) ->
  (snd h1 = snd h2 <->
   forall c, choice_ok s' c -> sem_edge s' (snd h1) c = sem_edge s' (snd h2) c).
Proof.
  intros h1 h2 H1 H2.
  destruct set_var_order_model_z_correct as [A [_ [_ [D _]]]].
  apply (canon_zbdd_handles s' (zo_wf _ A) (zo_kind _ A) (zbddok_terms_kind _ A)).
  - rewrite D. exact H1.
  - rewrite D. exact H2.
Qed.

(** every handle denotes the same family over the variables *)
Theorem set_var_order_model_z_fam : forall h, In h (s_handles s) ->
  exists F F', fam_of s (eref (snd h)) = Some F /\ fam_of s' (eref (snd h)) = Some F'
    /\ forall a, fmem (set_levels s' a) F' = fmem (set_levels s a) F.
Proof.
  intros h Hh. destruct set_var_order_model_z_correct as [A [_ [_ [D [G _]]]]].
  destruct (wf_handles s H h Hh) as [Ok _].
  assert (Ok' : ref_ok s' (eref (snd h))) by (apply (wf_handles s' (zo_wf _ A)); rewrite D; exact Hh).
  destruct (fam_of_total s H (zo_kind s B) _ Ok) as [F EF].
  destruct (fam_of_total s' (zo_wf _ A) (zo_kind _ A) _ Ok') as [F' EF'].
  exists F, F'. split; [exact EF|]. split; [exact EF'|]. intros a.
  destruct (G h a Hh) as [Hs _].
  rewrite (eval_vars_fam s _ a F H (zo_kind s B) Ok EF) in Hs.
  rewrite (eval_vars_fam s' _ a F' (zo_wf _ A) (zo_kind _ A) Ok' EF') in Hs.
  destruct (fmem (set_levels s' a) F'), (fmem (set_levels s a) F); try reflexivity; inversion Hs.
Qed.

End OrderZ.

(** the tautology chain is complete after a reordering that swaps at all *)
Theorem set_var_order_model_z_chain : forall s order,
  ZbddOK s -> NoDup order -> Forall (fun v => v < nlevels s) order ->
  snd (bubble_sort (sort_order (nlevels s) (map (fun v => nth v (s_v2l s) 0) order))) <> [] ->
  exists ch, length ch = nlevels s + 1
    /\ forall l t, nth_error ch l = Some t ->
         ref_ok (set_var_order_model_z s order) t
         /\ exists F, fam_of (set_var_order_model_z s order) t = Some F /\ feq F (f_powerset l (nlevels s - l)).
Proof.
  intros s order B Hnd Hr Hne.
  pose proof (valid_order_levels s order (zo_wf s B) Hnd Hr) as Hv.
  unfold set_var_order_model_z in *.
  set (target := sort_order (nlevels s) (map (fun v => nth v (s_v2l s) 0) order)) in *.
  pose proof (bubble_sort_correct target) as Hb.
  destruct (bubble_sort target) as [t' sw] eqn:Eb. simpl snd in *.
  destruct Hb as [_ [_ [Hvalid _]]].
  assert (Hlen : length target = nlevels s) by (apply sort_order_length; exact Hv).
  assert (Hsw : Forall (fun k => S k < nlevels s) sw).
  { pose proof (valid_swaps_range target sw Hvalid) as R. rewrite Hlen in R. exact R. }
  destruct sw as [|k sw]; [contradiction|].
  destruct (zbracket_ok (k :: sw) s B Hsw) as [_ [_ [_ [_ [_ G]]]]]. exact G.
Qed.

(** ** the hypotheses are satisfiable; the loop does something *)

(** three variables; terminals 0 = Empty, 1 = Base; the tautology chain is 1 (level 2), 2 (level 1),
    3 (level 0); handles: [h0] = node 5 = the family {{x0}, {x1}} (node 4 = {{x1}}),
    [h1] = node 6 = {{x0, x2}, {}} (its hi child, node 7 = {{x2}}, skips level 1) *)
Definition zex_e (r : ref) : edge := mkEdge r false.

Definition zex_swap : snap :=
  mkSnap KZbdd
    (PositiveMap.add 7%positive (mkNode 2 [zex_e (RT 1); zex_e (RT 0)] 2 1)
    (PositiveMap.add 6%positive (mkNode 0 [zex_e (RN 7); zex_e (RT 1)] 0 1)
    (PositiveMap.add 5%positive (mkNode 0 [zex_e (RT 1); zex_e (RN 4)] 0 1)
    (PositiveMap.add 4%positive (mkNode 1 [zex_e (RT 1); zex_e (RT 0)] 1 1)
    (PositiveMap.add 3%positive (mkNode 0 [zex_e (RN 2); zex_e (RN 2)] 0 1)
    (PositiveMap.add 2%positive (mkNode 1 [zex_e (RN 1); zex_e (RN 1)] 1 3)
    (PositiveMap.add 1%positive (mkNode 2 [zex_e (RT 1); zex_e (RT 1)] 2 3)
       (PositiveMap.empty node))))))))
    [(0%N, 0%N); (1%N, 1%N)]
    [0; 1; 2] [0; 1; 2]
    [(0%N, zex_e (RN 5)); (1%N, zex_e (RN 6))].

Example zex_swap_ok : ZbddOK zex_swap.
Proof. apply zbdd_ok_b_spec. vm_compute. reflexivity. Qed.

(** [reorder(level_down(0))]: the whole chain is unreferenced and dropped (ids 3, 2, 1); node 5
    references level 1 and is rewritten: its hi child Base skips level 1 (hi cofactor Empty:
    [cofactor_skipped]), so its new hi child is [reduce(Empty, Base) = Base] (zero-suppression
    branch) and its new lo child the new node 8 = (level 1, [Base, Empty]); the old child 4 loses
    its last reference and is removed; node 6 does not reference level 1 and moves down; the
    rebuilt chain gets fresh ids *)
Example zex_swap_all :
  ZbddOK zex_swap /\ 1 < nlevels zex_swap
  /\ zchain_ids zex_swap = Some [3; 2; 1]%positive
  /\ PositiveMap.cardinal (s_nodes (zchain_drop zex_swap)) = 4
  /\ dep_ids (zchain_drop zex_swap) 0 = [5]%positive
  /\ (let z := level_swap_zc (zchain_drop zex_swap) 0 in
      find_node z 5 = Some (mkNode 0 [zex_e (RT 1); zex_e (RN 8)] 0 1)
      /\ find_node z 8 = Some (mkNode 1 [zex_e (RT 1); zex_e (RT 0)] 1 0)
      /\ find_node z 4 = None
      /\ find_node z 6 = Some (mkNode 1 [zex_e (RN 7); zex_e (RT 1)] 1 1)
      /\ PositiveMap.cardinal (s_nodes z) = 4)
  /\ (let z := level_swap_z zex_swap 0 in
      s_v2l z = [1; 0; 2] /\ s_l2v z = [1; 0; 2]
      /\ PositiveMap.cardinal (s_nodes z) = 7
      /\ option_map (@length positive) (zchain_ids z) = Some 3)
  /\ s_v2l (set_var_order_model_z zex_swap [2; 1; 0]) = [2; 1; 0]
  /\ set_var_order_model_z zex_swap [0; 1; 2] = zex_swap
  /\ NoDup [2; 1; 0] /\ Forall (fun v => v < nlevels zex_swap) [2; 1; 0].
Proof.
  split; [exact zex_swap_ok|]. split; [vm_compute; lia|].
  split; [vm_compute; reflexivity|]. split; [vm_compute; reflexivity|]. split; [vm_compute; reflexivity|].
  split; [vm_compute; repeat split; reflexivity|].
  split; [vm_compute; repeat split; reflexivity|].
  split; [vm_compute; reflexivity|]. split; [vm_compute; reflexivity|].
  split.
  - repeat constructor; simpl; intuition lia.
  - repeat constructor; vm_compute; lia.
Qed.
