(** * C08, part Z — theorems about [level_swap_zc] (Mgr/LevelSwapZ.v): one adjacent level swap of
    a ZBDD table inside a [reorder] bracket (the tautology chain is dealt with in
    Mgr/LevelSwapZChain.v)

    For a ZBDD table [s] with [ZbddOK s] (well-formed, zero-suppressed, terminals Empty and
    Base) and two adjacent levels [i], [i+1]:
    - [zc_ok]: the result satisfies [ZbddOK] again; [zc_maps]: the maps with the entries of
      the two levels exchanged;
    - [zc_handles], [zc_handle_ok]: handle list unchanged, every handle's node keeps its id;
    - [zc_untouched] / [zc_untouched_rev] / [zc_removed_only]: the other levels are not
      touched, only unreferenced nodes of the old lower level disappear;
    - [zc_sem_levels] / [zc_sem_vars]: every edge stored before and after denotes the same
      Boolean function (over LEVELS with the two entries exchanged; over VARIABLES
      unchanged);
    - [zc_fam_vars]: ... the same FAMILY OVER VARIABLES: a set of variables is a member before
      iff it is a member afterwards ([set_levels]: the set written as the list of its levels
      in the table's own order, which is how [famz] lists the members). *)

From Coq Require Import List NArith PArith Bool Arith Lia FMapPositive.
From OxiVerif Require Import DD.Table DD.TableExtra DD.TableProofs DD.Canon DD.CanonZbdd DD.Build DD.BuildProofs
  DD.Apply DD.ApplyProofs DD.FamSpec DD.FamSpecProofs DD.ZbddOps DD.ZbddOpsProofs
  Mgr.SortOrder Mgr.SortOrderProofs
  Mgr.LevelSwap Mgr.LevelSwapBase Mgr.LevelSwapInv Mgr.LevelSwapWF Mgr.LevelSwapSem Mgr.LevelSwapProofs
  Mgr.LevelSwapZ Mgr.LevelSwapZInv Mgr.LevelSwapZWF Mgr.LevelSwapZSem Mgr.LevelSwapZSub.
Import ListNotations.

(** ** sets of variables as level lists *)

(** the levels (in increasing order) whose variable belongs to the set [a] *)
Definition set_levels (s : snap) (a : nat -> bool) : FamSpec.lset :=
  true_levels (asg_choice s a) 0 (nlevels s).

Lemma set_levels_spec : forall s a l,
  In l (set_levels s a) <-> l < nlevels s /\ a (nth l (s_l2v s) 0) = true.
Proof.
  intros s a l. unfold set_levels. split.
  - intros Hin. apply true_levels_range in Hin. destruct Hin as [A B]. split; [lia|].
    unfold asg_choice in B. destruct (a (nth l (s_l2v s) 0)); [reflexivity | discriminate].
  - intros [A B]. apply true_levels_in; [lia|]. unfold asg_choice. rewrite B. reflexivity.
Qed.

(** the Boolean view of an edge at a variable assignment = membership of the set of true variables *)
Lemma eval_vars_fam : forall s e a F, WF s -> s_kind s = KZbdd -> ref_ok s (eref e) ->
  fam_of s (eref e) = Some F ->
  eval_vars s e a = Some (if fmem (set_levels s a) F then 1%N else 0%N).
Proof.
  intros s e a F H Hk Ok EF. unfold eval_vars.
  rewrite (bool_view_sem_edge s H Hk e _ F Ok (asg_choice_ok s a) EF). reflexivity.
Qed.

Lemma sem_edge_z : forall s e c, s_kind s = KZbdd ->
  sem_edge s e c = option_map (fun b : bool => if b then 1%N else 0%N) (Zv s 0 (eref e) c).
Proof. intros s e c Hk. unfold sem_edge, Zv. rewrite Hk. reflexivity. Qed.

Section ZC.
Variable s : snap.
Variable i : nat.
Hypothesis B : ZbddOK s.
Hypothesis Hi : S i < nlevels s.

Let H : WF s := zo_wf s B.
Let Hk : s_kind s = KZbdd := zo_kind s B.

(** the removed nodes *)
Definition zremoved (em : edge) : list positive :=
  filter (fun id => negb (referenced (swap_nodes_z s em i) (s_handles s) id)) (dropped_children s i).

Lemma zc_unfold : forall te, zempty s = Some (RT te) ->
  level_swap_zc s i = without (level_swap_zcore s (emz te) i) (zremoved (emz te)).
Proof. intros te E. unfold level_swap_zc. rewrite E. reflexivity. Qed.

(** everything below is proved for "some Empty terminal [te] that [zempty] returns" *)
Section WithTe.
Variable te : N.
Hypothesis Ez : zempty s = Some (RT te).
Hypothesis Hte : term_val s te = Some 0%N.

Notation em := (emz te).
Let s1 := level_swap_zcore s em i.
Let s2 := level_swap_zc s i.
Let H1 : WF s1 := zcore_wf s i te H Hk Hi Hte.

Lemma zs2 : s2 = without s1 (zremoved em).
Proof. apply zc_unfold. exact Ez. Qed.

Lemma zremoved_spec : forall id, In id (zremoved em) ->
  referenced (s_nodes s1) (s_handles s1) id = false /\ rlevel s (RN id) = S i.
Proof.
  intros id Hin. unfold zremoved in Hin. apply filter_In in Hin. destruct Hin as [A Bn].
  apply negb_true_iff in Bn. split; [exact Bn | apply (dropped_lower s i); exact A].
Qed.

Lemma zsub12 : subsnap s1 s2.
Proof.
  rewrite zs2. apply (without_subsnap s1 (zremoved em) H1).
  intros id Hin. apply (zremoved_spec id Hin).
Qed.

Lemma zfind2 : forall id,
  find_node s2 id = if existsb (Pos.eqb id) (zremoved em) then None else find_node s1 id.
Proof. intros id. rewrite zs2. apply find_without. Qed.

Lemma zc_wf' : WF s2.
Proof. apply (subsnap_wf s1 s2 H1 zsub12). Qed.

Lemma zc_kind' : s_kind s2 = KZbdd.
Proof. rewrite (sub_kind _ _ zsub12). exact Hk. Qed.

Lemma zc_terms' : s_terms s2 = s_terms s.
Proof. rewrite (sub_terms _ _ zsub12). reflexivity. Qed.

Lemma zc_nlevels' : nlevels s2 = nlevels s.
Proof. rewrite (sub_nlevels _ _ zsub12). apply (znlevels1 s i te). Qed.

Lemma zc_maps' : s_l2v s2 = swap_adj i (s_l2v s) /\ s_v2l s2 = map (swap_idx i) (s_v2l s).
Proof. rewrite (sub_l2v _ _ zsub12), (sub_v2l _ _ zsub12). split; reflexivity. Qed.

Lemma zc_handles' : s_handles s2 = s_handles s.
Proof. rewrite (sub_handles _ _ zsub12). reflexivity. Qed.

Lemma zc_handle_ok' : forall h, In h (s_handles s) -> ref_ok s2 (eref (snd h)).
Proof. intros h Hh. apply (sub_hok _ _ zsub12). rewrite zc_handles'. exact Hh. Qed.

Lemma zc_removed_only' : forall id nd, find_node s id = Some nd -> find_node s2 id = None ->
  nlevel nd = S i /\ In id (dropped_children s i)
  /\ referenced (swap_nodes_z s em i) (s_handles s) id = false.
Proof.
  intros id nd E E2. rewrite zfind2 in E2.
  destruct (existsb (Pos.eqb id) (zremoved em)) eqn:X.
  - apply existsb_pos_In in X. destruct (zremoved_spec id X) as [A Bl].
    simpl in Bl. rewrite E in Bl. split; [exact Bl|]. split; [|exact A].
    unfold zremoved in X. apply filter_In in X. apply X.
  - exfalso. destruct (zold_stays s i te H Hk Hi Hte id nd E) as [nd' [E' _]].
    change (find_node s1 id) with (PositiveMap.find id (swap_nodes_z s em i)) in E2. congruence.
Qed.

Lemma zc_untouched' : forall id nd, find_node s id = Some nd ->
  nlevel nd <> i -> nlevel nd <> S i -> find_node s2 id = Some nd.
Proof.
  intros id nd E A Bn.
  destruct (zold_stays s i te H Hk Hi Hte id nd E) as [nd' [E' [[C _]|[[C _]|[_ [_ ->]]]]]]; try contradiction.
  rewrite zfind2. destruct (existsb (Pos.eqb id) (zremoved em)) eqn:X; [|exact E'].
  apply existsb_pos_In in X. destruct (zremoved_spec id X) as [_ L]. simpl in L. rewrite E in L. contradiction.
Qed.

Lemma zc_untouched_rev' : forall id nd, find_node s2 id = Some nd ->
  nlevel nd <> i -> nlevel nd <> S i -> find_node s id = Some nd.
Proof.
  intros id nd E A Bn. apply (sub_nodes _ _ zsub12) in E.
  destruct (zfind_cases s i te H Hk Hi Hte id nd E)
    as [[nd0 [E0 [D ->]]]|[[nd0 [c0 [c1 [e0 [e1 [E0 [D [Hc [-> _]]]]]]]]]|[E0 G]]].
  - destruct (relabel_cases s i nd0) as [[X R]|[[X [_ R]]|[[X R]|[X [Y R]]]]]; rewrite R in *; simpl in *;
      try contradiction; try lia. exact E0.
  - simpl in A. contradiction.
  - destruct G as [G _]. contradiction.
Qed.

(** the view from any level outside the swapped pair *)
Lemma zc_view' : forall r lvl c, ref_ok s r -> ref_ok s2 r -> choice_ok s c ->
  lvl <= rlevel s r -> (lvl <= i \/ S (S i) <= lvl) ->
  Zv s2 lvl r (swap_choice i c) = Zv s lvl r c.
Proof.
  intros r lvl c Ok Ok2 Hc Hl Hside. unfold Zv at 1.
  rewrite (subsnap_semz s1 s2 zsub12 _ _ _ _ Ok2), (sub_nlevels _ _ zsub12).
  apply (zcore_sem s i te H Hk Hi Hte (nlevels s) r lvl c Ok Hc); auto. lia.
Qed.

Lemma zc_sem_levels' : forall e c,
  ref_ok s (eref e) -> ref_ok s2 (eref e) -> choice_ok s c ->
  sem_edge s2 e (swap_choice i c) = sem_edge s e c.
Proof.
  intros e c Ok Ok2 Hc. rewrite (sem_edge_z s2 _ _ zc_kind'), (sem_edge_z s _ _ Hk).
  rewrite (zc_view' (eref e) 0 c Ok Ok2 Hc); [reflexivity | lia | left; lia].
Qed.

Lemma zasg_choice_swap : forall a l, asg_choice s2 a l = swap_choice i (asg_choice s a) l.
Proof.
  intros a l. unfold asg_choice, swap_choice. rewrite (proj1 zc_maps').
  rewrite nth_swap_adj by exact Hi. unfold swap_idx.
  destruct (Nat.eqb l i); [reflexivity|]. destruct (Nat.eqb l (S i)); reflexivity.
Qed.

Lemma zc_sem_vars' : forall e a, ref_ok s (eref e) -> ref_ok s2 (eref e) ->
  eval_vars s2 e a = eval_vars s e a.
Proof.
  intros e a Ok Ok2. unfold eval_vars.
  rewrite <- (zc_sem_levels' e (asg_choice s a) Ok Ok2 (asg_choice_ok s a)).
  rewrite !(sem_edge_z s2 _ _ zc_kind'). f_equal. unfold Zv.
  apply semz_ext. intros l _. apply zasg_choice_swap.
Qed.

End WithTe.

(** ** the theorems (the Empty terminal exists by [ZbddOK]) *)

Lemma zte : exists te, zempty s = Some (RT te) /\ term_val s te = Some 0%N.
Proof. apply zempty_spec. exact B. Qed.

Theorem zc_wf : WF (level_swap_zc s i).
Proof. destruct zte as [te [Ez Hte]]. apply (zc_wf' te Ez Hte). Qed.

Theorem zc_kind : s_kind (level_swap_zc s i) = KZbdd.
Proof. destruct zte as [te [Ez Hte]]. apply (zc_kind' te Ez Hte). Qed.

Theorem zc_terms : s_terms (level_swap_zc s i) = s_terms s.
Proof. destruct zte as [te [Ez Hte]]. apply (zc_terms' te Ez Hte). Qed.

Theorem zc_nlevels : nlevels (level_swap_zc s i) = nlevels s.
Proof. destruct zte as [te [Ez Hte]]. apply (zc_nlevels' te Ez Hte). Qed.

(** (a) the invariant of ZBDD tables *)
Theorem zc_ok : ZbddOK (level_swap_zc s i).
Proof.
  constructor.
  - exact zc_wf.
  - exact zc_kind.
  - intros t v. unfold term_val. rewrite zc_terms. apply (zo_codes s B).
  - destruct (zo_empty s B) as [t E]. exists t. unfold term_val. rewrite zc_terms. exact E.
  - destruct (zo_base s B) as [t E]. exists t. unfold term_val. rewrite zc_terms. exact E.
Qed.

(** the two maps are those of [s] with the levels [i] and [i+1] exchanged *)
Theorem zc_maps :
  s_l2v (level_swap_zc s i) = swap_adj i (s_l2v s)
  /\ s_v2l (level_swap_zc s i) = map (swap_idx i) (s_v2l s)
  /\ (forall l, nth_error (s_l2v (level_swap_zc s i)) l = nth_error (s_l2v s) (swap_idx i l))
  /\ (forall v, nth_error (s_v2l (level_swap_zc s i)) v = option_map (swap_idx i) (nth_error (s_v2l s) v)).
Proof.
  destruct zte as [te [Ez Hte]]. destruct (zc_maps' te Ez Hte) as [A C].
  split; [exact A|]. split; [exact C|]. split.
  - intros l. rewrite A. apply nth_error_swap_adj. exact Hi.
  - intros v. rewrite C. apply nth_error_map.
Qed.

(** (c) handles *)
Theorem zc_handles : s_handles (level_swap_zc s i) = s_handles s.
Proof. destruct zte as [te [Ez Hte]]. apply (zc_handles' te Ez Hte). Qed.

Theorem zc_handle_ok : forall h, In h (s_handles s) -> ref_ok (level_swap_zc s i) (eref (snd h)).
Proof. destruct zte as [te [Ez Hte]]. apply (zc_handle_ok' te Ez Hte). Qed.

(** whatever a stored node of the result refers to is stored in the result *)
Theorem zc_child_ok : forall id nd e,
  find_node (level_swap_zc s i) id = Some nd -> In e (nchildren nd) -> ref_ok (level_swap_zc s i) (eref e).
Proof. intros id nd e E He. apply (wf_child _ zc_wf id nd e E He). Qed.

(** the only nodes that disappear: nodes of the old lower level that lost their last reference *)
Theorem zc_removed_only : forall id nd, find_node s id = Some nd ->
  find_node (level_swap_zc s i) id = None ->
  nlevel nd = S i /\ In id (dropped_children s i)
  /\ forall k kd e, find_node (level_swap_zc s i) k = Some kd -> In e (nchildren kd) -> eref e <> RN id.
Proof.
  destruct zte as [te [Ez Hte]]. intros id nd E E2.
  destruct (zc_removed_only' te Ez Hte id nd E E2) as [A [C D]].
  split; [exact A|]. split; [exact C|].
  intros k kd e Ek He Er. pose proof (zc_child_ok k kd e Ek He) as Ok. rewrite Er in Ok.
  destruct Ok as [x Ex]. congruence.
Qed.

(** (d) the other levels are not touched *)
Theorem zc_untouched : forall id nd, find_node s id = Some nd ->
  nlevel nd <> i -> nlevel nd <> S i -> find_node (level_swap_zc s i) id = Some nd.
Proof. destruct zte as [te [Ez Hte]]. apply (zc_untouched' te Ez Hte). Qed.

Theorem zc_untouched_rev : forall id nd, find_node (level_swap_zc s i) id = Some nd ->
  nlevel nd <> i -> nlevel nd <> S i -> find_node s id = Some nd.
Proof. destruct zte as [te [Ez Hte]]. apply (zc_untouched_rev' te Ez Hte). Qed.

(** (b) preservation of the Boolean view, over levels; also for the edges inside nodes
    (seen from any level that is not between the two swapped ones) *)
Theorem zc_view : forall r lvl c, ref_ok s r -> ref_ok (level_swap_zc s i) r -> choice_ok s c ->
  lvl <= rlevel s r -> (lvl <= i \/ S (S i) <= lvl) ->
  Zv (level_swap_zc s i) lvl r (swap_choice i c) = Zv s lvl r c.
Proof. destruct zte as [te [Ez Hte]]. apply (zc_view' te Ez Hte). Qed.

Theorem zc_sem_levels : forall e c,
  ref_ok s (eref e) -> ref_ok (level_swap_zc s i) (eref e) -> choice_ok s c ->
  sem_edge (level_swap_zc s i) e (swap_choice i c) = sem_edge s e c.
Proof. destruct zte as [te [Ez Hte]]. apply (zc_sem_levels' te Ez Hte). Qed.

(** (b) headline: the Boolean function over the VARIABLES is unchanged *)
Theorem zc_sem_vars : forall e a,
  ref_ok s (eref e) -> ref_ok (level_swap_zc s i) (eref e) ->
  eval_vars (level_swap_zc s i) e a = eval_vars s e a.
Proof. destruct zte as [te [Ez Hte]]. apply (zc_sem_vars' te Ez Hte). Qed.

Theorem zc_handles_vars : forall h a, In h (s_handles s) ->
  eval_vars (level_swap_zc s i) (snd h) a = eval_vars s (snd h) a
  /\ exists v, eval_vars s (snd h) a = Some v.
Proof.
  intros h a Hh. destruct (wf_handles s H h Hh) as [Ok _]. split.
  - apply zc_sem_vars; [exact Ok | apply zc_handle_ok; exact Hh].
  - unfold eval_vars. apply (sem_total s H); [exact Ok | apply asg_choice_ok].
Qed.

(** (b) the same FAMILY over the variables: the set of variables [a] is a member before iff
    it is a member afterwards *)
Theorem zc_fam_vars : forall e, ref_ok s (eref e) -> ref_ok (level_swap_zc s i) (eref e) ->
  exists F F', fam_of s (eref e) = Some F /\ fam_of (level_swap_zc s i) (eref e) = Some F'
    /\ forall a, fmem (set_levels (level_swap_zc s i) a) F' = fmem (set_levels s a) F.
Proof.
  intros e Ok Ok2.
  destruct (fam_of_total s H Hk (eref e) Ok) as [F EF].
  destruct (fam_of_total _ zc_wf zc_kind (eref e) Ok2) as [F' EF'].
  exists F, F'. split; [exact EF|]. split; [exact EF'|]. intros a.
  pose proof (zc_sem_vars e a Ok Ok2) as Hs.
  rewrite (eval_vars_fam s e a F H Hk Ok EF) in Hs.
  rewrite (eval_vars_fam _ e a F' zc_wf zc_kind Ok2 EF') in Hs.
  destruct (fmem (set_levels (level_swap_zc s i) a) F'), (fmem (set_levels s a) F);
    try reflexivity; inversion Hs.
Qed.

End ZC.
