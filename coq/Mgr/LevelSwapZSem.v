(** * C08, part Z — [level_swap_zcore] preserves the family of every edge (ZBDD kind)

    [semz t fuel lvl r c] is the Boolean view of the family denoted by [r], read from level
    [lvl] on: levels that are skipped on the way down must be "lo" (variable absent).  For
    every reference [r] stored before the swap, every choice function [c] and every level
    [lvl] above both swapped levels or below both: the view of [r] in the new table under
    [c] with the entries of the two levels exchanged equals the view in the old table under
    [c] ([zcore_sem]).  [lvl = 0] gives [sem_edge]. *)

From Coq Require Import List NArith PArith Bool Arith Lia FMapPositive.
From OxiVerif Require Import DD.Table DD.TableExtra DD.TableProofs DD.Canon DD.CanonZbdd DD.Build DD.Apply
  DD.FamSpec DD.ZbddOps Mgr.SortOrder Mgr.SortOrderProofs
  Mgr.LevelSwap Mgr.LevelSwapBase Mgr.LevelSwapInv Mgr.LevelSwapWF Mgr.LevelSwapSem
  Mgr.LevelSwapZ Mgr.LevelSwapZInv Mgr.LevelSwapZWF.
Import ListNotations.

(** ** [all_lo] *)

Lemma all_lo_iff : forall c c' a n a' n',
  (all_lo c a n = true <-> all_lo c' a' n' = true) -> all_lo c a n = all_lo c' a' n'.
Proof.
  intros c c' a n a' n' Hi. destruct (all_lo c a n), (all_lo c' a' n'); try reflexivity.
  - symmetry. apply Hi. reflexivity.
  - apply Hi. reflexivity.
Qed.

Lemma all_lo_bounded_ext : forall c c' from cnt,
  (forall l, from <= l < from + cnt -> c l = c' l) -> all_lo c from cnt = all_lo c' from cnt.
Proof.
  intros c c' from cnt Hcc. apply all_lo_iff. rewrite !all_lo_spec.
  split; intros Ha l Hl; [rewrite <- Hcc | rewrite Hcc]; auto.
Qed.

Lemma all_lo_snoc : forall c from k,
  all_lo c from (S k) = all_lo c from k && Nat.eqb (c (from + k)) 1.
Proof.
  intros c from k.
  destruct (all_lo c from k && Nat.eqb (c (from + k)) 1) eqn:E.
  - apply andb_true_iff in E. destruct E as [A B]. apply Nat.eqb_eq in B.
    apply all_lo_spec. intros l Hl. destruct (Nat.eq_dec l (from + k)) as [->|Hne]; [exact B|].
    apply (proj1 (all_lo_spec c k from) A). lia.
  - destruct (all_lo c from (S k)) eqn:F; [|reflexivity].
    exfalso. pose proof (proj1 (all_lo_spec c (S k) from) F) as Hs.
    assert (A : all_lo c from k = true) by (apply all_lo_spec; intros l Hl; apply Hs; lia).
    assert (B : Nat.eqb (c (from + k)) 1 = true) by (apply Nat.eqb_eq; apply Hs; lia).
    rewrite A, B in E. discriminate.
Qed.

(** exchanging the entries of two levels that are both inside or both outside the range *)
Lemma all_lo_swap : forall i c from cnt,
  (forall l, from <= l < from + cnt -> from <= swap_idx i l < from + cnt) ->
  all_lo (swap_choice i c) from cnt = all_lo c from cnt.
Proof.
  intros i c from cnt Hcl. apply all_lo_iff. rewrite !all_lo_spec. unfold swap_choice.
  split; intros Ha l Hl.
  - rewrite <- (swap_idx_invol i l). apply Ha. apply Hcl. exact Hl.
  - apply Ha. apply Hcl. exact Hl.
Qed.

(** ** the view of a reference from a level above it *)

Section View.
Variable t : snap.
Hypothesis Ht : WF t.

Definition Zv (lvl : nat) (r : ref) (c : nat -> nat) : option bool := semz t (S (nlevels t)) lvl r c.

(** skipped levels in front of a reference: all lo, or the view is false *)
Lemma Zv_from : forall lvl r c, ref_ok t r -> lvl <= rlevel t r ->
  Zv lvl r c = if all_lo c lvl (rlevel t r - lvl) then Zv (rlevel t r) r c else Some false.
Proof.
  intros lvl r c Hok Hl. unfold Zv. destruct r as [tm|id].
  - rewrite !semz_T. destruct Hok as [v E]. rewrite E. simpl rlevel.
    rewrite Nat.sub_diag. simpl all_lo.
    destruct (all_lo c lvl (nlevels t - lvl)); [reflexivity | rewrite andb_false_r; reflexivity].
  - destruct Hok as [nd E]. rewrite !semz_S, E. rewrite (rlevel_node t id nd E) in *.
    destruct (Nat.ltb_spec (nlevel nd) lvl) as [Hlt|_]; [lia|].
    rewrite Nat.ltb_irrefl, Nat.sub_diag. simpl all_lo.
    destruct (all_lo c lvl (nlevel nd - lvl)); reflexivity.
Qed.

(** one skipped level *)
Lemma Zv_step : forall l r c, ref_ok t r -> S l <= rlevel t r ->
  Zv l r c = if Nat.eqb (c l) 1 then Zv (S l) r c else Some false.
Proof.
  intros l r c Hok Hl.
  rewrite (Zv_from l r c Hok) by lia. rewrite (Zv_from (S l) r c Hok) by lia.
  replace (rlevel t r - l) with (S (rlevel t r - S l)) by lia. simpl all_lo.
  destruct (Nat.eqb (c l) 1); reflexivity.
Qed.

(** a node seen from its own level *)
Lemma Zv_node : forall id nd x c,
  find_node t id = Some nd -> nth_error (nchildren nd) (c (nlevel nd)) = Some x ->
  Zv (nlevel nd) (RN id) c = Zv (S (nlevel nd)) (eref x) c.
Proof.
  intros id nd x c E Hx. apply (node_semz t Ht id nd x (nlevel nd) c E Hx (le_n _)).
  rewrite Nat.sub_diag. reflexivity.
Qed.

Lemma Zv_empty : forall lvl tm c, term_val t tm = Some 0%N -> Zv lvl (RT tm) c = Some false.
Proof. intros lvl tm c E. unfold Zv. rewrite semz_T, E. reflexivity. Qed.

End View.

Section SemZ.
Variable s : snap.
Variable i : nat.
Variable te : N.
Hypothesis H : WF s.
Hypothesis Hk : s_kind s = KZbdd.
Hypothesis Hi : S i < nlevels s.
Hypothesis Hte : term_val s te = Some 0%N.

Notation em := (emz te).
Let s1 := level_swap_zcore s em i.
Let M := swap_nodes_z s em i.
Let H1 : WF s1 := zcore_wf s i te H Hk Hi Hte.

Notation low := (low s i).
Notation isdep := (isdep s i).
Notation repz := (repz s i).
Notation isE := (isE s).
Notation zcof := (zbcof s em (S i)).

Lemma choice2 : forall c l, choice_ok s c -> c l < 2.
Proof. intros c l Hc. specialize (Hc l). rewrite Hk in Hc. exact Hc. Qed.

Lemma pick2 : forall (a b : edge) k, k < 2 -> nth_error [a; b] k = Some (if Nat.eqb k 0 then a else b).
Proof. intros a b [|[|k]] Hk'; [reflexivity | reflexivity | lia]. Qed.

(** a child of a node of the upper level, seen from the lower level: its cofactor w.r.t.
    the lower level, seen from below both *)
Lemma zcof_sem : forall id nd cc c, find_node s id = Some nd -> nlevel nd = i -> In cc (nchildren nd) ->
  choice_ok s c ->
  Zv s (S i) (eref cc) c = Zv s (S (S i)) (eref (zcof cc (c (S i)))) c.
Proof.
  intros id nd cc c E Hl Hc Hch. pose proof (choice2 c (S i) Hch) as Hb.
  destruct (zchild_cases s i te H Hk Hi Hte id nd cc E Hl Hc)
    as [[Hne [[Ok [_ Lv]] [S0 S1]]]|[cid [cn [g0 [g1 [-> [Ec [Lc [Cc [_ [_ [_ [B0 B1]]]]]]]]]]]]].
  - rewrite (Zv_step s (S i) (eref cc) c Ok) by lia.
    destruct (c (S i)) as [|[|b]]; [| |lia].
    + rewrite S0. simpl. symmetry. apply Zv_empty. exact Hte.
    + rewrite S1. reflexivity.
  - simpl eref at 1. rewrite <- Lc. rewrite (Zv_node s H cid cn (if Nat.eqb (c (S i)) 0 then g0 else g1) c Ec).
    + rewrite Lc. destruct (c (S i)) as [|[|b]]; [rewrite B0 | rewrite B1 | lia]; reflexivity.
    + rewrite Lc, Cc. apply pick2. exact Hb.
Qed.

(** the result of [reduce] + lookup on the new lower level, seen from that level *)
Lemma repz_sem : forall x y e c', repz M x y e -> low x -> low y -> c' (S i) < 2 ->
  Zv s1 (S i) (eref e) c' = Zv s1 (S (S i)) (eref (if Nat.eqb (c' (S i)) 0 then x else y)) c'.
Proof.
  intros x y e c' [[A ->]|[A [id [nd [-> [E [L C]]]]]]] Lx Ly Hb.
  - destruct (zlow1 s i te H Hk Hi Hte y Ly) as [Ok Lv]. destruct Ly as [_ [_ Lvy]].
    change (rlevel s1 (eref y) = rlevel s (eref y)) in Lv.
    rewrite (Zv_step s1 (S i) (eref y) c' Ok) by lia.
    destruct (c' (S i)) as [|[|b]]; [| |lia]; simpl.
    + destruct Lx as [_ [Tx _]]. rewrite (isE_eq s te H Hte x A Tx). simpl.
      symmetry. apply Zv_empty. exact Hte.
    + reflexivity.
  - simpl eref at 1. rewrite <- L.
    rewrite (Zv_node s1 H1 id nd (if Nat.eqb (c' (S i)) 0 then x else y) c' E).
    + rewrite L. reflexivity.
    + rewrite L, C. apply pick2. exact Hb.
Qed.

Lemma pre_swap : forall c lvl, lvl <= i ->
  all_lo (swap_choice i c) lvl (i - lvl) = all_lo c lvl (i - lvl).
Proof.
  intros c lvl Hl. apply all_lo_bounded_ext. intros l Hl'. unfold swap_choice.
  rewrite swap_idx_other by lia. reflexivity.
Qed.

Theorem zcore_sem : forall k r lvl c, ref_ok s r -> choice_ok s c -> nlevels s - rlevel s r <= k ->
  lvl <= rlevel s r -> (lvl <= i \/ S (S i) <= lvl) ->
  Zv s1 lvl r (swap_choice i c) = Zv s lvl r c.
Proof.
  induction k as [k IH] using lt_wf_ind. intros r lvl c Hok Hc Hm Hlv Hside.
  set (c' := swap_choice i c).
  assert (Hc'i : c' i = c (S i)) by (unfold c', swap_choice; rewrite swap_idx_i; reflexivity).
  assert (Hc'S : c' (S i) = c i) by (unfold c', swap_choice; rewrite swap_idx_Si; reflexivity).
  pose proof (choice2 c i Hc) as Ha. pose proof (choice2 c (S i) Hc) as Hb.
  assert (Hn1 : nlevels s1 = nlevels s) by (apply (znlevels1 s i te)).
  (* the induction hypothesis for an edge below both levels, seen from below both levels *)
  assert (IHlow : forall e, low e -> nlevels s - rlevel s (eref e) < k ->
                    Zv s1 (S (S i)) (eref e) c' = Zv s (S (S i)) (eref e) c).
  { intros e [Ok [_ Lv]] Hlt. apply (IH (nlevels s - rlevel s (eref e)) Hlt); auto; lia. }
  destruct (Nat.eq_dec (rlevel s r) i) as [Li|Li]; [|destruct (Nat.eq_dec (rlevel s r) (S i)) as [LS|LS]].
  - (* a node of the upper level *)
    destruct r as [tm|id]; [simpl in Li; lia|]. destruct Hok as [nd E].
    rewrite (rlevel_node s id nd E) in *.
    destruct (zbdd_children s te H Hk Hte id nd E) as [c0 [c1 [Hch _]]].
    assert (Hin0 : In c0 (nchildren nd)) by (rewrite Hch; simpl; auto).
    assert (Hin1 : In c1 (nchildren nd)) by (rewrite Hch; simpl; auto).
    assert (Hlvi : lvl <= i) by lia.
    rewrite (Zv_from s lvl (RN id) c) by (try (exists nd; exact E); rewrite (rlevel_node s id nd E); lia).
    rewrite (rlevel_node s id nd E), Li.
    set (ca := if Nat.eqb (c i) 0 then c0 else c1).
    assert (Hca : nth_error (nchildren nd) (c (nlevel nd)) = Some ca)
      by (rewrite Li, Hch; apply pick2; exact Ha).
    assert (Hina : In ca (nchildren nd)) by (eapply nth_error_In; exact Hca).
    pose proof (Zv_node s H id nd ca c E Hca) as Hs. rewrite Li in Hs. rewrite Hs. clear Hs.
    destruct (isdep_dec s i nd) as [D|D].
    + (* rewritten *)
      destruct (specz_dep s i te M (swap_nodes_z_spec s i te H Hk Hi Hte) id nd E D)
        as [d0 [d1 [e0 [e1 [Hd [Hf [R0 R1]]]]]]].
      rewrite Hch in Hd. inversion Hd; subst d0 d1. clear Hd.
      destruct (zdep_lows s i te H Hk Hi Hte id nd c0 c1 E D Hch) as [L00 [L10 [L01 L11]]].
      set (nn := mkNode i [e0; e1] i (nrc nd)) in *.
      assert (Hf1 : find_node s1 id = Some nn) by exact Hf.
      rewrite (Zv_from s1 lvl (RN id) c') by (try (exists nn; exact Hf1); rewrite (rlevel_node s1 id nn Hf1); simpl; lia).
      rewrite (rlevel_node s1 id nn Hf1). simpl nlevel. fold c'. unfold c' at 1. rewrite pre_swap by exact Hlvi.
      destruct (all_lo c lvl (i - lvl)); [|reflexivity].
      set (eb := if Nat.eqb (c (S i)) 0 then e0 else e1).
      assert (Heb : nth_error (nchildren nn) (c' (nlevel nn)) = Some eb)
        by (simpl; rewrite Hc'i; apply pick2; exact Hb).
      pose proof (Zv_node s1 H1 id nn eb c' Hf1 Heb) as Hs. simpl nlevel in Hs. rewrite Hs. clear Hs.
      rewrite (zcof_sem id nd ca c E Li Hina Hc).
      assert (Hb' : c' (S i) < 2) by (rewrite Hc'S; exact Ha).
      assert (Hmeas : forall e, low e -> nlevels s - rlevel s (eref e) < k).
      { intros e [_ [_ Lv]]. pose proof (rlevel_le s H (eref e)). lia. }
      unfold eb, ca. destruct (c (S i)) as [|[|b]] eqn:Eb; [| |lia]; simpl Nat.eqb; cbv iota.
      * rewrite (repz_sem _ _ e0 c' R0 L00 L10 Hb'). rewrite Hc'S.
        destruct (Nat.eqb (c i) 0); apply IHlow; auto.
      * rewrite (repz_sem _ _ e1 c' R1 L01 L11 Hb'). rewrite Hc'S.
        destruct (Nat.eqb (c i) 0); apply IHlow; auto.
    + (* moves down *)
      pose proof (specz_old s i te M (swap_nodes_z_spec s i te H Hk Hi Hte) id nd E D) as Hf.
      assert (Dp : depends s (S i) nd = false).
      { destruct (depends s (S i) nd) eqn:Dq; [|reflexivity]. exfalso. apply D. split; assumption. }
      rewrite (relabel_indep s i nd Li Dp) in Hf.
      set (nn := set_level nd (S i)) in *.
      assert (Hf1 : find_node s1 id = Some nn) by exact Hf.
      destruct (wf_child s H id nd ca E Hina) as [Oka Lta].
      pose proof (depends_false s i nd ca Dp Hina) as Hnl.
      assert (Lowa : low ca).
      { split; [exact Oka|]. split; [apply (zbdd_tag s H Hk id nd ca E Hina) | lia]. }
      rewrite (Zv_from s1 lvl (RN id) c') by (try (exists nn; exact Hf1); rewrite (rlevel_node s1 id nn Hf1); simpl; lia).
      rewrite (rlevel_node s1 id nn Hf1). simpl nlevel.
      replace (S i - lvl) with (S (i - lvl)) by lia. rewrite all_lo_snoc.
      unfold c' at 1. rewrite pre_swap by exact Hlvi.
      replace (lvl + (i - lvl)) with i by lia. rewrite Hc'i.
      destruct (all_lo c lvl (i - lvl)); [|reflexivity]. simpl andb.
      rewrite (Zv_step s (S i) (eref ca) c Oka) by lia.
      destruct (Nat.eqb (c (S i)) 1); [|reflexivity].
      assert (Hca1 : nth_error (nchildren nn) (c' (nlevel nn)) = Some ca).
      { simpl. rewrite Hc'S, Hch. apply pick2. exact Ha. }
      pose proof (Zv_node s1 H1 id nn ca c' Hf1 Hca1) as Hs. simpl nlevel in Hs. rewrite Hs. clear Hs.
      apply IHlow; [exact Lowa|]. pose proof (rlevel_le s H (eref ca)). lia.
  - (* a node of the lower level: moves up *)
    destruct r as [tm|id]; [simpl in LS; lia|]. destruct Hok as [nd E].
    rewrite (rlevel_node s id nd E) in *.
    destruct (zbdd_children s te H Hk Hte id nd E) as [g0 [g1 [Hch _]]].
    assert (Hlvi : lvl <= i) by lia.
    assert (D : ~ isdep nd) by (intros [Dl _]; lia).
    pose proof (specz_old s i te M (swap_nodes_z_spec s i te H Hk Hi Hte) id nd E D) as Hf.
    rewrite (relabel_lower s i nd LS) in Hf.
    set (nn := set_level nd i) in *.
    assert (Hf1 : find_node s1 id = Some nn) by exact Hf.
    set (gb := if Nat.eqb (c (S i)) 0 then g0 else g1).
    assert (Hgb : nth_error (nchildren nd) (c (nlevel nd)) = Some gb)
      by (rewrite LS, Hch; apply pick2; exact Hb).
    assert (Hing : In gb (nchildren nd)) by (eapply nth_error_In; exact Hgb).
    destruct (wf_child s H id nd gb E Hing) as [Okg Ltg].
    assert (Lowg : low gb).
    { split; [exact Okg|]. split; [apply (zbdd_tag s H Hk id nd gb E Hing) | lia]. }
    destruct (zlow1 s i te H Hk Hi Hte gb Lowg) as [Okg1 Lvg1].
    change (rlevel s1 (eref gb) = rlevel s (eref gb)) in Lvg1.
    rewrite (Zv_from s lvl (RN id) c) by (try (exists nd; exact E); rewrite (rlevel_node s id nd E); lia).
    rewrite (rlevel_node s id nd E), LS.
    replace (S i - lvl) with (S (i - lvl)) by lia. rewrite all_lo_snoc.
    replace (lvl + (i - lvl)) with i by lia.
    pose proof (Zv_node s H id nd gb c E Hgb) as Hs. rewrite LS in Hs. rewrite Hs. clear Hs.
    rewrite (Zv_from s1 lvl (RN id) c') by (try (exists nn; exact Hf1); rewrite (rlevel_node s1 id nn Hf1); simpl; lia).
    rewrite (rlevel_node s1 id nn Hf1). simpl nlevel.
    unfold c' at 1. rewrite pre_swap by exact Hlvi.
    destruct (all_lo c lvl (i - lvl)); [|reflexivity]. simpl andb.
    assert (Hgb1 : nth_error (nchildren nn) (c' (nlevel nn)) = Some gb).
    { simpl. rewrite Hc'i, Hch. apply pick2. exact Hb. }
    pose proof (Zv_node s1 H1 id nn gb c' Hf1 Hgb1) as Hs. simpl nlevel in Hs. rewrite Hs. clear Hs.
    rewrite (Zv_step s1 (S i) (eref gb) c' Okg1) by lia. rewrite Hc'S.
    destruct (Nat.eqb (c i) 1); [|reflexivity].
    apply IHlow; [exact Lowg|]. pose proof (rlevel_le s H (eref gb)). lia.
  - (* everything else is not touched *)
    assert (Hr1 : rlevel s1 r = rlevel s r).
    { destruct (zrlevel1 s i te H Hk Hi Hte r Hok) as [[A _]|[[A _]|[_ [_ A]]]]; [lia | lia | exact A]. }
    pose proof (zref_ok1 s i te H Hk Hi Hte r Hok) as Hok1.
    rewrite (Zv_from s lvl r c Hok Hlv). rewrite (Zv_from s1 lvl r c' Hok1) by lia. rewrite Hr1.
    assert (Hal : all_lo c' lvl (rlevel s r - lvl) = all_lo c lvl (rlevel s r - lvl)).
    { apply all_lo_swap. intros l Hl.
      destruct (swap_idx_cases i l) as [[-> ->]|[[-> ->]|[A [B ->]]]]; lia. }
    rewrite Hal. destruct (all_lo c lvl (rlevel s r - lvl)); [|reflexivity].
    destruct r as [tm|id].
    + unfold Zv. rewrite !semz_T. simpl rlevel. rewrite Hn1, !Nat.sub_diag. reflexivity.
    + destruct Hok as [nd E]. rewrite (rlevel_node s id nd E) in *.
      destruct (zold_stays s i te H Hk Hi Hte id nd E) as [nd' [E' [[A _]|[[A _]|[_ [_ ->]]]]]]; [lia | lia |].
      assert (Hf1 : find_node s1 id = Some nd) by exact E'.
      destruct (zbdd_children s te H Hk Hte id nd E) as [g0 [g1 [Hch _]]].
      pose proof (choice2 c (nlevel nd) Hc) as Hx.
      set (gx := if Nat.eqb (c (nlevel nd)) 0 then g0 else g1).
      assert (Hgx : nth_error (nchildren nd) (c (nlevel nd)) = Some gx) by (rewrite Hch; apply pick2; exact Hx).
      assert (Hgx1 : nth_error (nchildren nd) (c' (nlevel nd)) = Some gx).
      { unfold c', swap_choice. rewrite swap_idx_other by lia. exact Hgx. }
      rewrite (Zv_node s H id nd gx c E Hgx), (Zv_node s1 H1 id nd gx c' Hf1 Hgx1).
      assert (Hing : In gx (nchildren nd)) by (eapply nth_error_In; exact Hgx).
      destruct (wf_child s H id nd gx E Hing) as [Okg Ltg].
      pose proof (rlevel_le s H (eref gx)).
      apply (IH (nlevels s - rlevel s (eref gx))); auto; lia.
Qed.

End SemZ.
