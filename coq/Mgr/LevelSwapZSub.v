(** * C08, part Z — removing unreferenced nodes from a table

    [subsnap s s']: [s'] is [s] with some nodes removed such that nothing that is left
    (stored node or handle) refers to a removed node.  Such a table is again well-formed
    and every reference that is left has the same view ([semz]).  Instances: the removal of
    old-lower nodes that lost their last reference at the end of [level_swap] ([sweep]) and
    [ZBDDCache::pre_reorder_mut] ([zchain_drop]: one unreferenced node after the other). *)

From Coq Require Import List NArith PArith Bool Arith Lia FMapPositive.
From OxiVerif Require Import DD.Table DD.TableExtra DD.TableProofs Mgr.LevelSwap Mgr.LevelSwapBase.
Import ListNotations.

Record subsnap (s s' : snap) : Prop := mkSub {
  sub_kind : s_kind s' = s_kind s;
  sub_terms : s_terms s' = s_terms s;
  sub_v2l : s_v2l s' = s_v2l s;
  sub_l2v : s_l2v s' = s_l2v s;
  sub_handles : s_handles s' = s_handles s;
  sub_nodes : forall id nd, find_node s' id = Some nd -> find_node s id = Some nd;
  sub_child : forall id nd e, find_node s' id = Some nd -> In e (nchildren nd) -> ref_ok s' (eref e);
  sub_hok : forall h, In h (s_handles s') -> ref_ok s' (eref (snd h))
}.

Lemma sub_nlevels : forall s s', subsnap s s' -> nlevels s' = nlevels s.
Proof. intros s s' X. unfold nlevels. rewrite (sub_l2v _ _ X). reflexivity. Qed.

Lemma sub_term_val : forall s s' t, subsnap s s' -> term_val s' t = term_val s t.
Proof. intros s s' t X. unfold term_val. rewrite (sub_terms _ _ X). reflexivity. Qed.

Lemma sub_ref_ok : forall s s' r, subsnap s s' -> ref_ok s' r -> ref_ok s r.
Proof.
  intros s s' [t|id] X; simpl.
  - rewrite (sub_term_val _ _ t X). auto.
  - intros [nd E]. exists nd. apply (sub_nodes _ _ X). exact E.
Qed.

Lemma sub_rlevel : forall s s' r, subsnap s s' -> ref_ok s' r -> rlevel s' r = rlevel s r.
Proof.
  intros s s' [t|id] X; simpl.
  - intros _. apply sub_nlevels. exact X.
  - intros [nd E]. rewrite E, (sub_nodes _ _ X id nd E). reflexivity.
Qed.

Lemma subsnap_refl : forall s, WF s -> subsnap s s.
Proof.
  intros s H. constructor; auto.
  - intros id nd e E He. apply (wf_child s H id nd e E He).
  - intros h Hh. apply (wf_handles s H h Hh).
Qed.

Lemma subsnap_trans : forall a b c, subsnap a b -> subsnap b c -> subsnap a c.
Proof.
  intros a b c X Y. constructor.
  - rewrite (sub_kind _ _ Y). apply (sub_kind _ _ X).
  - rewrite (sub_terms _ _ Y). apply (sub_terms _ _ X).
  - rewrite (sub_v2l _ _ Y). apply (sub_v2l _ _ X).
  - rewrite (sub_l2v _ _ Y). apply (sub_l2v _ _ X).
  - rewrite (sub_handles _ _ Y). apply (sub_handles _ _ X).
  - intros id nd E. apply (sub_nodes _ _ X). apply (sub_nodes _ _ Y). exact E.
  - apply (sub_child _ _ Y).
  - apply (sub_hok _ _ Y).
Qed.

Theorem subsnap_wf : forall s s', WF s -> subsnap s s' -> WF s'.
Proof.
  intros s s' H X. pose proof (sub_nlevels _ _ X) as Hn.
  constructor.
  - rewrite (sub_v2l _ _ X), (sub_l2v _ _ X). apply (wf_perm_len s H).
  - rewrite (sub_v2l _ _ X), (sub_l2v _ _ X). apply (wf_perm_v2l s H).
  - rewrite (sub_v2l _ _ X), (sub_l2v _ _ X). apply (wf_perm_l2v s H).
  - intros id nd E. rewrite (sub_kind _ _ X). apply (wf_arity s H id nd (sub_nodes _ _ X id nd E)).
  - intros id nd E. apply (wf_stored s H id nd (sub_nodes _ _ X id nd E)).
  - intros id nd E. rewrite Hn. apply (wf_level s H id nd (sub_nodes _ _ X id nd E)).
  - intros id nd e E He. pose proof (sub_child _ _ X id nd e E He) as Ok. split; [exact Ok|].
    rewrite (sub_rlevel _ _ _ X Ok). apply (wf_child s H id nd e (sub_nodes _ _ X id nd E) He).
  - intros id nd E. pose proof (wf_reduced s H id nd (sub_nodes _ _ X id nd E)) as Hr.
    unfold reduced in *. rewrite (sub_kind _ _ X).
    destruct (s_kind s); try exact Hr.
    destruct Hr as [hi [A B]]. exists hi. split; [exact A|]. intros t Er.
    rewrite (sub_term_val _ _ t X). apply B. exact Er.
  - rewrite (sub_kind _ _ X). intros Hnb id nd e E He.
    apply (wf_tags s H Hnb id nd e (sub_nodes _ _ X id nd E) He).
  - intros id1 id2 n1 n2 E1 E2.
    apply (wf_unique s H id1 id2 n1 n2 (sub_nodes _ _ X _ _ E1) (sub_nodes _ _ X _ _ E2)).
  - rewrite (sub_terms _ _ X). apply (wf_term_ids s H).
  - rewrite (sub_terms _ _ X). apply (wf_term_vals s H).
  - intros h Hh. split; [apply (sub_hok _ _ X h Hh)|]. rewrite (sub_kind _ _ X).
    rewrite (sub_handles _ _ X) in Hh. apply (wf_handles s H h Hh).
Qed.

(** removing unreferenced nodes changes no view *)
Lemma subsnap_semz : forall s s', subsnap s s' ->
  forall f lvl r c, ref_ok s' r -> semz s' f lvl r c = semz s f lvl r c.
Proof.
  intros s s' X. induction f as [|f IH]; intros lvl r c Ok.
  - destruct r as [t|id]; [|reflexivity].
    rewrite !semz_T, (sub_term_val _ _ t X), (sub_nlevels _ _ X). reflexivity.
  - destruct r as [t|id].
    + rewrite !semz_T, (sub_term_val _ _ t X), (sub_nlevels _ _ X). reflexivity.
    + destruct Ok as [nd E]. rewrite !semz_S, E, (sub_nodes _ _ X id nd E).
      destruct (Nat.ltb (nlevel nd) lvl); [reflexivity|].
      destruct (all_lo c lvl (nlevel nd - lvl)); [|reflexivity].
      destruct (nth_error (nchildren nd) (c (nlevel nd))) as [e|] eqn:He; [|reflexivity].
      apply IH. apply (sub_child _ _ X id nd e E). eapply nth_error_In. exact He.
Qed.

Lemma subsnap_sem_edge : forall s s' e c, subsnap s s' -> s_kind s = KZbdd -> ref_ok s' (eref e) ->
  sem_edge s' e c = sem_edge s e c.
Proof.
  intros s s' e c X Hk Ok. unfold sem_edge. rewrite (sub_kind _ _ X), Hk, (sub_nlevels _ _ X).
  rewrite (subsnap_semz s s' X _ _ _ _ Ok). reflexivity.
Qed.

(** ** removing a list of ids at once *)

Definition without (s : snap) (l : list positive) : snap :=
  mkSnap (s_kind s) (fold_left (fun acc id => PositiveMap.remove id acc) l (s_nodes s))
         (s_terms s) (s_v2l s) (s_l2v s) (s_handles s).

Lemma find_without : forall s l id,
  find_node (without s l) id = if existsb (Pos.eqb id) l then None else find_node s id.
Proof. intros s l id. unfold find_node, without. cbn [s_nodes]. apply find_remove_list. Qed.

(** none of the removed ids is referenced in [s]: then in particular not by what is left *)
Lemma without_subsnap : forall s l, WF s ->
  (forall id, In id l -> referenced (s_nodes s) (s_handles s) id = false) ->
  subsnap s (without s l).
Proof.
  intros s l H Hun.
  assert (Hsub : forall id nd, find_node (without s l) id = Some nd -> find_node s id = Some nd).
  { intros id nd E. rewrite find_without in E. destruct (existsb (Pos.eqb id) l); [discriminate | exact E]. }
  assert (Hkeep : forall id nd, find_node s id = Some nd ->
            referenced (s_nodes s) (s_handles s) id = true -> find_node (without s l) id = Some nd).
  { intros id nd E R. rewrite find_without. destruct (existsb (Pos.eqb id) l) eqn:X; [|exact E].
    apply existsb_pos_In in X. rewrite (Hun id X) in R. discriminate. }
  constructor; try reflexivity.
  - exact Hsub.
  - intros id nd e E He. destruct (wf_child s H id nd e (Hsub id nd E) He) as [Ok _].
    destruct (eref e) as [t|c] eqn:Er; [exact Ok|]. destruct Ok as [cn Ec]. exists cn.
    apply (Hkeep c cn Ec). apply referenced_spec. left. exists id, nd, e. split; [apply Hsub; exact E | auto].
  - intros h Hh. destruct (wf_handles s H h Hh) as [Ok _].
    destruct (eref (snd h)) as [t|c] eqn:Er; [exact Ok|]. destruct Ok as [cn Ec]. exists cn.
    apply (Hkeep c cn Ec). apply referenced_spec. right. exists h. auto.
Qed.
