(** * C08, part Z — [level_swap_zcore] keeps a ZBDD table well-formed

    From the relational specification [SpecZ] of the node table after the loop
    (Mgr/LevelSwapZInv.v): the table is again ordered, zero-suppressed (no stored node has
    the Empty terminal as hi child -- also not the rewritten nodes, which the code does not
    pass through [reduce]), per-level unique; the variable/level maps are inverse
    permutations with the two levels exchanged. *)

From Coq Require Import List NArith PArith Bool Arith Lia FMapPositive.
From OxiVerif Require Import DD.Table DD.TableExtra DD.TableProofs DD.Build DD.Apply DD.FamSpec DD.ZbddOps
  Mgr.SortOrder Mgr.SortOrderProofs Mgr.LevelSwap Mgr.LevelSwapBase Mgr.LevelSwapInv Mgr.LevelSwapWF
  Mgr.LevelSwapZ Mgr.LevelSwapZInv.
Import ListNotations.

Section CoreZ.
Variable s : snap.
Variable i : nat.
Variable te : N.
Hypothesis H : WF s.
Hypothesis Hk : s_kind s = KZbdd.
Hypothesis Hi : S i < nlevels s.
Hypothesis Hte : term_val s te = Some 0%N.

Notation em := (emz te).
Let s1 := level_swap_zcore s em i.
Let M := swap_nodes_z s em i.
Let SP : SpecZ s i te M := swap_nodes_z_spec s i te H Hk Hi Hte.

Notation low := (low s i).
Notation isdep := (isdep s i).
Notation repz := (repz s i).
Notation isE := (isE s).
Notation zcof := (zbcof s em (S i)).

Lemma zfind1 : forall id, find_node s1 id = PositiveMap.find id M.
Proof. reflexivity. Qed.

Lemma znlevels1 : nlevels s1 = nlevels s.
Proof. unfold nlevels, s1, level_swap_zcore. simpl. apply swap_adj_length. Qed.

Lemma zterm_val1 : forall t, term_val s1 t = term_val s t.
Proof. reflexivity. Qed.

Lemma zkind1 : s_kind s1 = s_kind s.
Proof. reflexivity. Qed.

(** every stored node of the new table is of one of three sorts *)
Lemma zfind_cases : forall id nd', PositiveMap.find id M = Some nd' ->
  (exists nd, find_node s id = Some nd /\ ~ isdep nd /\ nd' = relabel s i nd)
  \/ (exists nd c0 c1 e0 e1, find_node s id = Some nd /\ isdep nd /\ nchildren nd = [c0; c1]
        /\ nd' = mkNode i [e0; e1] i (nrc nd)
        /\ repz M (zcof c0 0) (zcof c1 0) e0
        /\ repz M (zcof c0 1) (zcof c1 1) e1)
  \/ (find_node s id = None /\ goodnewz s i nd').
Proof.
  intros id nd' E. destruct (find_node s id) as [nd|] eqn:E0.
  - destruct (isdep_dec s i nd) as [D|D].
    + right. left. destruct (specz_dep s i te M SP id nd E0 D) as [c0 [c1 [e0 [e1 [Hc [Hf [R0 R1]]]]]]].
      exists nd, c0, c1, e0, e1. rewrite E in Hf. inversion Hf; subst nd'. auto 10.
    + left. exists nd. pose proof (specz_old s i te M SP id nd E0 D) as Hf. rewrite E in Hf.
      inversion Hf. auto.
  - right. right. split; [reflexivity|]. apply (specz_new s i te M SP id nd' E E0).
Qed.

(** every id stored before is stored afterwards *)
Lemma zold_stays : forall id nd, find_node s id = Some nd ->
  exists nd', PositiveMap.find id M = Some nd'
    /\ ((nlevel nd = S i /\ nlevel nd' = i)
        \/ (nlevel nd = i /\ (nlevel nd' = i \/ nlevel nd' = S i))
        \/ (nlevel nd <> i /\ nlevel nd <> S i /\ nd' = nd)).
Proof.
  intros id nd E. destruct (isdep_dec s i nd) as [D|D].
  - destruct (specz_dep s i te M SP id nd E D) as [c0 [c1 [e0 [e1 [Hc [Hf _]]]]]].
    eexists. split; [exact Hf|]. right. left. destruct D as [Dl _]. simpl. auto.
  - exists (relabel s i nd). split; [apply (specz_old s i te M SP id nd E D)|].
    destruct (relabel_cases s i nd) as [[A R]|[[A [_ R]]|[[A R]|[A [B R]]]]]; rewrite R; simpl.
    + left. auto.
    + right. left. auto.
    + contradiction.
    + right. right. auto.
Qed.

Lemma zref_ok1 : forall r, ref_ok s r -> ref_ok s1 r.
Proof.
  intros [t|id] Hr; [exact Hr|]. destruct Hr as [nd E].
  destruct (zold_stays id nd E) as [nd' [E' _]]. exists nd'. exact E'.
Qed.

(** the level of an old reference in the new table *)
Lemma zrlevel1 : forall r, ref_ok s r ->
  (rlevel s r = S i /\ rlevel s1 r = i)
  \/ (rlevel s r = i /\ (rlevel s1 r = i \/ rlevel s1 r = S i))
  \/ (rlevel s r <> i /\ rlevel s r <> S i /\ rlevel s1 r = rlevel s r).
Proof.
  intros [t|id] Hr.
  - right. right. simpl. rewrite znlevels1. repeat split; lia.
  - destruct Hr as [nd E]. destruct (zold_stays id nd E) as [nd' [E' C]].
    simpl. rewrite zfind1, E', E.
    destruct C as [[A B]|[[A B]|[A [B ->]]]]; auto.
Qed.

Lemma zlow1 : forall e, low e -> ref_ok s1 (eref e) /\ rlevel s1 (eref e) = rlevel s (eref e).
Proof.
  intros e [Hok [_ Hl]]. split; [apply zref_ok1; exact Hok|].
  destruct (zrlevel1 _ Hok) as [[A _]|[[A _]|[_ [_ A]]]]; [lia | lia | exact A].
Qed.

(** what the result of [reduce] + lookup looks like in the new table *)
Lemma repz_props : forall x y e, repz M x y e -> low x -> low y ->
  ref_ok s1 (eref e) /\ etag e = false /\ S i <= rlevel s1 (eref e)
  /\ (isE x -> S i < rlevel s1 (eref e) /\ e = y) /\ (~ isE x -> rlevel s1 (eref e) = S i).
Proof.
  intros x y e [[A ->]|[A [id [nd [-> [E [L C]]]]]]] Lx Ly.
  - destruct (zlow1 y Ly) as [B C]. destruct Ly as [_ [T Lv]].
    split; [exact B|]. split; [exact T|]. split; [lia|]. split; [intros _; split; [lia | reflexivity] | contradiction].
  - simpl. split; [exists nd; exact E|]. split; [reflexivity|].
    rewrite zfind1, E, L. split; [lia|]. split; [contradiction | reflexivity].
Qed.

Lemma repz_inj : forall x y x' y' e, repz M x y e -> repz M x' y' e ->
  low x -> low y -> low x' -> low y' -> x = x' /\ y = y'.
Proof.
  intros x y x' y' e R R' Lx Ly Lx' Ly'.
  destruct (repz_props _ _ _ R Lx Ly) as [_ [_ [_ [A B]]]].
  destruct (repz_props _ _ _ R' Lx' Ly') as [_ [_ [_ [A' B']]]].
  destruct R as [[P ->]|[P [id [nd [-> [E [L C]]]]]]]; destruct R' as [[P' Q']|[P' [id' [nd' [Q' [E' [L' C']]]]]]].
  - subst. split; [|reflexivity].
    destruct Lx as [_ [Tx _]]. destruct Lx' as [_ [Tx' _]].
    rewrite (isE_eq s te H Hte x P Tx), (isE_eq s te H Hte x' P' Tx'). reflexivity.
  - exfalso. destruct (A P) as [A1 _]. specialize (B' P'). lia.
  - exfalso. destruct (A' P') as [A1 _]. specialize (B P). lia.
  - inversion Q'; subst id'. rewrite E in E'. inversion E'; subst nd'. rewrite C in C'.
    inversion C'. auto.
Qed.

(** an edge that is not the Empty terminal, in terms of [reduced] *)
Lemma notE_term : forall e t, ~ isE e -> eref e = RT t -> term_val s t <> Some 0%N.
Proof.
  intros e t Hne Er Ev. apply Hne. unfold LevelSwapZInv.isE, is_empty_b, is_term_with. rewrite Er, Ev. reflexivity.
Qed.

(** ** well-formedness of the new table *)

(** the four cofactors of a node to rewrite are below both levels *)
Lemma zdep_lows : forall id nd c0 c1, find_node s id = Some nd -> isdep nd -> nchildren nd = [c0; c1] ->
  low (zcof c0 0) /\ low (zcof c1 0) /\ low (zcof c0 1) /\ low (zcof c1 1).
Proof.
  intros id nd c0 c1 E0 [Dl _] Hc.
  assert (Hin0 : In c0 (nchildren nd)) by (rewrite Hc; simpl; auto).
  assert (Hin1 : In c1 (nchildren nd)) by (rewrite Hc; simpl; auto).
  repeat split; eapply (zcof_low s i te H Hk Hi Hte id nd); eauto.
Qed.

Lemma zwf1_child : forall id nd e, find_node s1 id = Some nd -> In e (nchildren nd) ->
  ref_ok s1 (eref e) /\ nlevel nd < rlevel s1 (eref e).
Proof.
  intros id nd' e E He. rewrite zfind1 in E.
  destruct (zfind_cases id nd' E) as [[nd [E0 [D ->]]]|[[nd [c0 [c1 [e0 [e1 [E0 [D [Hc [-> [R0 R1]]]]]]]]]]|[E0 G]]].
  - rewrite relabel_children in He.
    destruct (wf_child s H id nd e E0 He) as [Hok Hlt].
    split; [apply zref_ok1; exact Hok|].
    destruct (relabel_cases s i nd) as [[A R]|[[A [Dp R]]|[[A R]|[A [B R]]]]]; rewrite R; simpl.
    + destruct (zrlevel1 _ Hok) as [[X Y]|[[X Y]|[X [Y Z]]]]; lia.
    + pose proof (depends_false s i nd e Dp He).
      destruct (zrlevel1 _ Hok) as [[X Y]|[[X Y]|[X [Y Z]]]]; lia.
    + contradiction.
    + destruct (zrlevel1 _ Hok) as [[X Y]|[[X Y]|[X [Y Z]]]]; lia.
  - simpl in He. destruct (zdep_lows id nd c0 c1 E0 D Hc) as [L00 [L10 [L01 L11]]].
    destruct He as [<-|[<-|[]]].
    + destruct (repz_props _ _ _ R0 L00 L10) as [A [_ [B _]]]. split; [exact A | simpl; lia].
    + destruct (repz_props _ _ _ R1 L01 L11) as [A [_ [B _]]]. split; [exact A | simpl; lia].
  - destruct G as [Gl [_ [x [y [Gc [_ [Lx Ly]]]]]]]. rewrite Gc in He. rewrite Gl.
    destruct He as [<-|[<-|[]]].
    + destruct (zlow1 _ Lx) as [A B]. destruct Lx as [_ [_ Lv]]. split; [exact A | lia].
    + destruct (zlow1 _ Ly) as [A B]. destruct Ly as [_ [_ Lv]]. split; [exact A | lia].
Qed.

(** the rewritten children of a node determine its old children *)
Lemma zdep_children_inj : forall id nd c0 c1 e0 e1 id' nd' d0 d1,
  find_node s id = Some nd -> isdep nd -> nchildren nd = [c0; c1] ->
  repz M (zcof c0 0) (zcof c1 0) e0 -> repz M (zcof c0 1) (zcof c1 1) e1 ->
  find_node s id' = Some nd' -> isdep nd' -> nchildren nd' = [d0; d1] ->
  repz M (zcof d0 0) (zcof d1 0) e0 -> repz M (zcof d0 1) (zcof d1 1) e1 ->
  c0 = d0 /\ c1 = d1.
Proof.
  intros id nd c0 c1 e0 e1 id' nd' d0 d1 E D Hc R0 R1 E' D' Hd Q0 Q1.
  destruct (zdep_lows id nd c0 c1 E D Hc) as [A [B [C F]]].
  destruct (zdep_lows id' nd' d0 d1 E' D' Hd) as [A' [B' [C' F']]].
  destruct (repz_inj _ _ _ _ _ R0 Q0 A B A' B') as [X0 Y0].
  destruct (repz_inj _ _ _ _ _ R1 Q1 C F C' F') as [X1 Y1].
  destruct D as [Dl _]. destruct D' as [Dl' _].
  split.
  - apply (zcof_inj s i te H Hk Hi Hte id nd c0 id' nd' d0 E Dl ltac:(rewrite Hc; simpl; auto)
             E' Dl' ltac:(rewrite Hd; simpl; auto) X0 X1).
  - apply (zcof_inj s i te H Hk Hi Hte id nd c1 id' nd' d1 E Dl ltac:(rewrite Hc; simpl; auto)
             E' Dl' ltac:(rewrite Hd; simpl; auto) Y0 Y1).
Qed.

(** one of the rewritten children lies on the new lower level *)
Lemma zdep_touches : forall id nd c0 c1 e0 e1,
  find_node s id = Some nd -> isdep nd -> nchildren nd = [c0; c1] ->
  repz M (zcof c0 0) (zcof c1 0) e0 -> repz M (zcof c0 1) (zcof c1 1) e1 ->
  rlevel s1 (eref e0) = S i \/ rlevel s1 (eref e1) = S i.
Proof.
  intros id nd c0 c1 e0 e1 E D Hc R0 R1.
  destruct (zdep_lows id nd c0 c1 E D Hc) as [A [B [C F]]].
  destruct (repz_props _ _ _ R0 A B) as [_ [_ [_ [_ N0]]]].
  destruct (repz_props _ _ _ R1 C F) as [_ [_ [_ [_ N1]]]].
  destruct (isE_dec s (zcof c0 0)) as [Q0|Q0]; [|left; apply N0; exact Q0].
  destruct (isE_dec s (zcof c0 1)) as [Q1|Q1]; [|right; apply N1; exact Q1].
  exfalso. destruct D as [Dl _].
  apply (zdep_c0 s i te H Hk Hi Hte id nd c0 c1 E Dl Hc). auto.
Qed.

(** the hi child of a rewritten node is not the Empty terminal *)
Lemma zdep_hi_notE : forall id nd c0 c1 e0,
  find_node s id = Some nd -> isdep nd -> nchildren nd = [c0; c1] ->
  repz M (zcof c0 0) (zcof c1 0) e0 -> ~ isE e0.
Proof.
  intros id nd c0 c1 e0 E D Hc [[A ->]|[A [k [kd [-> _]]]]].
  - intros B. apply (zdep_hi0 s i te H Hk Hi Hte id nd c0 c1 E D Hc). auto.
  - unfold LevelSwapZInv.isE. simpl. discriminate.
Qed.

Lemma zwf1_unique : forall id1 id2 n1 n2,
  find_node s1 id1 = Some n1 -> find_node s1 id2 = Some n2 ->
  nlevel n1 = nlevel n2 -> nchildren n1 = nchildren n2 -> id1 = id2.
Proof.
  intros id1 id2 n1 n2 E1 E2 Hl Hc. rewrite zfind1 in E1, E2.
  destruct (Nat.eq_dec (nlevel n1) (S i)) as [L1|L1].
  { apply (specz_uniq s i te M SP id1 id2 n1 n2 E1 E2 L1); [lia | exact Hc]. }
  assert (L2 : nlevel n2 <> S i) by lia.
  destruct (zfind_cases id1 n1 E1) as [[m1 [F1 [D1 ->]]]|[[m1 [c0 [c1 [e0 [e1 [F1 [D1 [C1 [-> [R0 R1]]]]]]]]]]|[_ [G _]]]];
    [| |contradiction];
  (destruct (zfind_cases id2 n2 E2) as [[m2 [F2 [D2 ->]]]|[[m2 [d0 [d1 [f0 [f1 [F2 [D2 [C2 [-> [Q0 Q1]]]]]]]]]]|[_ [G _]]]];
    [| |contradiction]).
  - (* two relabelled nodes *)
    rewrite !relabel_children in Hc. apply (wf_unique s H id1 id2 m1 m2 F1 F2); [|exact Hc].
    destruct (relabel_cases s i m1) as [[A R]|[[A [_ R]]|[[A R]|[A [B R]]]]]; rewrite R in Hl, L1; simpl in Hl, L1;
      try lia; try contradiction;
    (destruct (relabel_cases s i m2) as [[A' R']|[[A' [_ R']]|[[A' R']|[A' [B' R']]]]]; rewrite R' in Hl, L2; simpl in Hl, L2;
      try lia; try contradiction).
  - (* a relabelled node and a rewritten node *)
    exfalso. rewrite relabel_children in Hc. simpl in Hc, Hl.
    destruct (relabel_cases s i m1) as [[A R]|[[A [_ R]]|[[A R]|[A [B R]]]]]; rewrite R in Hl, L1; simpl in Hl, L1;
      try lia; try contradiction.
    destruct (zdep_touches id2 m2 d0 d1 f0 f1 F2 D2 C2 Q0 Q1) as [T|T].
    + assert (Hin : In f0 (nchildren m1)) by (rewrite Hc; simpl; auto).
      destruct (wf_child s H id1 m1 f0 F1 Hin) as [Ok Lt].
      destruct (zrlevel1 _ Ok) as [[X Y]|[[X Y]|[X [Y Z]]]]; lia.
    + assert (Hin : In f1 (nchildren m1)) by (rewrite Hc; simpl; auto).
      destruct (wf_child s H id1 m1 f1 F1 Hin) as [Ok Lt].
      destruct (zrlevel1 _ Ok) as [[X Y]|[[X Y]|[X [Y Z]]]]; lia.
  - exfalso. rewrite relabel_children in Hc. simpl in Hc, Hl.
    destruct (relabel_cases s i m2) as [[A R]|[[A [_ R]]|[[A R]|[A [B R]]]]]; rewrite R in Hl, L2; simpl in Hl, L2;
      try lia; try contradiction.
    destruct (zdep_touches id1 m1 c0 c1 e0 e1 F1 D1 C1 R0 R1) as [T|T].
    + assert (Hin : In e0 (nchildren m2)) by (rewrite <- Hc; simpl; auto).
      destruct (wf_child s H id2 m2 e0 F2 Hin) as [Ok Lt].
      destruct (zrlevel1 _ Ok) as [[X Y]|[[X Y]|[X [Y Z]]]]; lia.
    + assert (Hin : In e1 (nchildren m2)) by (rewrite <- Hc; simpl; auto).
      destruct (wf_child s H id2 m2 e1 F2 Hin) as [Ok Lt].
      destruct (zrlevel1 _ Ok) as [[X Y]|[[X Y]|[X [Y Z]]]]; lia.
  - (* two rewritten nodes *)
    simpl in Hc. inversion Hc; subst f0 f1.
    destruct (zdep_children_inj id1 m1 c0 c1 e0 e1 id2 m2 d0 d1 F1 D1 C1 R0 R1 F2 D2 C2 Q0 Q1) as [X Y].
    destruct D1 as [Dl1 _]. destruct D2 as [Dl2 _].
    apply (wf_unique s H id1 id2 m1 m2 F1 F2); congruence.
Qed.

Theorem zcore_wf : WF s1.
Proof.
  constructor.
  - unfold s1, level_swap_zcore. simpl. rewrite map_length, swap_adj_length. apply (wf_perm_len s H).
  - apply swap_perm_v2l; [apply (wf_perm_len s H) | exact Hi | apply (wf_perm_v2l s H)].
  - apply swap_perm_l2v; [apply (wf_perm_len s H) | exact Hi | apply (wf_perm_l2v s H)].
  - (* arity *)
    intros id nd' E. rewrite zfind1 in E. rewrite zkind1, Hk. simpl arity.
    destruct (zfind_cases id nd' E) as [[nd [E0 [D ->]]]|[[nd [c0 [c1 [e0 [e1 [E0 [D [Hc [-> [R0 R1]]]]]]]]]]|[E0 G]]].
    + rewrite relabel_children. pose proof (wf_arity s H id nd E0) as A. rewrite Hk in A. exact A.
    + reflexivity.
    + destruct G as [_ [_ [x [y [Gc _]]]]]. rewrite Gc. reflexivity.
  - (* stored level *)
    intros id nd' E. rewrite zfind1 in E.
    destruct (zfind_cases id nd' E) as [[nd [E0 [D ->]]]|[[nd [c0 [c1 [e0 [e1 [E0 [D [Hc [-> [R0 R1]]]]]]]]]]|[E0 G]]].
    + destruct (relabel_cases s i nd) as [[A R]|[[A [_ R]]|[[A R]|[A [B R]]]]]; rewrite R; simpl; auto.
      * contradiction.
      * apply (wf_stored s H id nd E0).
    + reflexivity.
    + destruct G as [A [B _]]. congruence.
  - (* level in range *)
    intros id nd' E. rewrite zfind1 in E. rewrite znlevels1.
    destruct (zfind_cases id nd' E) as [[nd [E0 [D ->]]]|[[nd [c0 [c1 [e0 [e1 [E0 [D [Hc [-> [R0 R1]]]]]]]]]]|[E0 G]]].
    + pose proof (wf_level s H id nd E0).
      destruct (relabel_cases s i nd) as [[A R]|[[A [_ R]]|[[A R]|[A [B R]]]]]; rewrite R; simpl; lia.
    + simpl. lia.
    + destruct G as [A _]. lia.
  - exact zwf1_child.
  - (* zero-suppressed *)
    intros id nd' E. rewrite zfind1 in E. unfold reduced. rewrite zkind1, Hk.
    destruct (zfind_cases id nd' E) as [[nd [E0 [D ->]]]|[[nd [c0 [c1 [e0 [e1 [E0 [D [Hc [-> [R0 R1]]]]]]]]]]|[E0 G]]].
    + rewrite relabel_children. pose proof (wf_reduced s H id nd E0) as Hr. unfold reduced in Hr.
      rewrite Hk in Hr. exact Hr.
    + exists e0. split; [reflexivity|]. intros t Er. rewrite zterm_val1.
      apply (notE_term e0 t); [|exact Er]. apply (zdep_hi_notE id nd c0 c1 e0 E0 D Hc R0).
    + destruct G as [_ [_ [x [y [Gc [Gne _]]]]]]. rewrite Gc. exists x. split; [reflexivity|].
      intros t Er. rewrite zterm_val1. apply (notE_term x t Gne Er).
  - (* tags *)
    intros _ id nd' e E He. rewrite zfind1 in E.
    destruct (zfind_cases id nd' E) as [[nd [E0 [D ->]]]|[[nd [c0 [c1 [e0 [e1 [E0 [D [Hc [-> [R0 R1]]]]]]]]]]|[E0 G]]].
    + rewrite relabel_children in He. apply (zbdd_tag s H Hk id nd e E0 He).
    + simpl in He. destruct (zdep_lows id nd c0 c1 E0 D Hc) as [A [B [C F]]].
      destruct He as [<-|[<-|[]]].
      * apply (repz_props _ _ _ R0 A B).
      * apply (repz_props _ _ _ R1 C F).
    + destruct G as [_ [_ [x [y [Gc [_ [[_ [Tx _]] [_ [Ty _]]]]]]]]]. rewrite Gc in He.
      destruct He as [<-|[<-|[]]]; assumption.
  - exact zwf1_unique.
  - apply (wf_term_ids s H).
  - apply (wf_term_vals s H).
  - intros h Hh. destruct (wf_handles s H h Hh) as [A B]. split; [apply zref_ok1; exact A | exact B].
Qed.

End CoreZ.
