(** C16 — model of the variable / name bookkeeping (executable, no proofs).

    Mirrors, function by function,
      /repo/crates/oxidd-core/src/util/var_name_map.rs      (VarNameMap)
      /repo/crates/oxidd-manager-index/src/manager.rs       (Manager wrappers)
      /repo/crates/oxidd-manager-pointer/src/manager.rs     (same text)

    [names]  = the vector `names`  (index = variable number, "" = unnamed)
    [index]  = the hash map `index` as an association list.  A hash map has
               at most one entry per key by construction; the model keeps
               that by only inserting through a vacant entry (as the code
               does) and by removing every entry of a key on `remove`.
    Names are Coq strings = byte sequences (the UTF-8 encoding of the Rust
    `String`; equality of Rust strings is byte equality).

    Outside the model: `VarNo` is `u32` (the "too many variables" panics need
    2^32 variables), storage sharing between `names` and `index`
    (`Unowned<str>`), allocation failure. *)
From Coq Require Import String List NArith Bool.
Import ListNotations.
Local Open Scope string_scope.
Local Open Scope list_scope.

Record vnm := mk_vnm { names : list string; index : list (string * N) }.

(** ** the hash map operations used by the code *)

(* `index.get(name)` / the Occupied-or-Vacant test of `index.entry(name)` *)
Fixpoint idx_get (s : string) (idx : list (string * N)) : option N :=
  match idx with
  | [] => None
  | (k, v) :: r => if String.eqb k s then Some v else idx_get s r
  end.

(* `VacantEntry::insert` *)
Definition idx_insert (s : string) (v : N) (idx : list (string * N)) := (s, v) :: idx.

(* `index.remove(key)` *)
Definition idx_remove (s : string) (idx : list (string * N)) :=
  filter (fun p => negb (String.eqb (fst p) s)) idx.

(* `names[i] = x` *)
Fixpoint set_nth (i : nat) (x : string) (l : list string) : list string :=
  match l, i with
  | [], _ => []
  | _ :: r, O => x :: r
  | y :: r, S k => y :: set_nth k x r
  end.

Definition is_empty_name (s : string) : bool := String.eqb s "".

(** ** VarNameMap *)

(* VarNameMap::new *)
Definition vnm_new : vnm := mk_vnm [] [].
(* VarNameMap::len *)
Definition vnm_len (m : vnm) : N := N.of_nat (length (names m)).
(* VarNameMap::is_empty *)
Definition vnm_is_empty (m : vnm) : bool := match names m with [] => true | _ => false end.
(* VarNameMap::named_count  (= index.len()) *)
Definition named_count (m : vnm) : N := N.of_nat (length (index m)).
(* VarNameMap::name_to_var *)
Definition name_to_var (m : vnm) (s : string) : option N := idx_get s (index m).
(* VarNameMap::var_name; [None] = the documented panic for var >= len *)
Definition var_name (m : vnm) (v : N) : option string := nth_error (names m) (N.to_nat v).

(* VarNameMap::add_unnamed *)
Definition add_unnamed (m : vnm) (k : N) : vnm :=
  mk_vnm (names m ++ repeat "" (N.to_nat k)) (index m).

(** results of the calls *)
Inductive res :=
| ROk (lo hi : N)                              (* Ok(lo..hi) *)
| RUnit                                        (* Ok(()) *)
| RErr (name : string) (present : N) (lo hi : N)   (* Err(DuplicateVarName{name, present_var, added_vars: lo..hi}) *)
| RPanic                                       (* documented panic (var out of range) *)
| RGet (v : N) (found : bool).                 (* get_or_add *)

(* VarNameMap::add_named: the loop `for (name, v) in it.zip(len_pre..)`.
   [v] is the zipped counter; a duplicate returns immediately and keeps what
   was pushed before it. *)
Fixpoint add_named_loop (m : vnm) (len_pre v : N) (l : list string) : vnm * res :=
  match l with
  | [] => (m, ROk len_pre (vnm_len m))
  | name :: r =>
    if is_empty_name name then
      add_named_loop (mk_vnm (names m ++ [""]) (index m)) len_pre (N.succ v) r
    else
      match idx_get name (index m) with
      | Some present => (m, RErr name present len_pre (vnm_len m))
      | None =>
        add_named_loop (mk_vnm (names m ++ [name]) (idx_insert name v (index m))) len_pre (N.succ v) r
      end
  end.

Definition add_named (m : vnm) (l : list string) : vnm * res :=
  add_named_loop m (vnm_len m) (vnm_len m) l.

(* VarNameMap::get_or_add *)
Definition get_or_add (m : vnm) (name : string) : vnm * res :=
  if is_empty_name name then
    (mk_vnm (names m ++ [""]) (index m), RGet (vnm_len m) false)
  else
    match idx_get name (index m) with
    | Some v => (m, RGet v true)
    | None => (mk_vnm (names m ++ [name]) (idx_insert name (vnm_len m) (index m)), RGet (vnm_len m) false)
    end.

(* VarNameMap::set_var_name (after the repair of the rename branch: the old
   key is removed from `index`).
   - ""            : names[var] := "", index.remove(previous name); panics when
                     var is out of range
   - occupied      : same variable -> no-op, other variable -> Err, state
                     unchanged (the index is consulted before names[var], so
                     an out-of-range var with a taken name gets Err)
   - vacant        : names[var] := name (panic when out of range, nothing
                     changed yet), insert, release the previous name *)
Definition set_var_name (m : vnm) (var : N) (name : string) : vnm * res :=
  let i := N.to_nat var in
  if is_empty_name name then
    match nth_error (names m) i with
    | None => (m, RPanic)
    | Some prev => (mk_vnm (set_nth i "" (names m)) (idx_remove prev (index m)), RUnit)
    end
  else
    match idx_get name (index m) with
    | Some present =>
      if N.eqb present var then (m, RUnit) else (m, RErr name present (vnm_len m) (vnm_len m))
    | None =>
      match nth_error (names m) i with
      | None => (m, RPanic)
      | Some prev =>
        let idx1 := idx_insert name var (index m) in
        let idx2 := if is_empty_name prev then idx1 else idx_remove prev idx1 in
        (mk_vnm (set_nth i name (names m)) idx2, RUnit)
      end
    end.

(* VarNameMap::into_names_iter: yields all names, unnamed ones as "" *)
Definition into_names (m : vnm) : list string := names m.

(** the calls by which a caller can build the argument of
    add_named_vars_from_map *)
Inductive mop :=
| MAddUnnamed (k : N)
| MAddNamed (l : list string)
| MSetName (v : N) (s : string)
| MGetOrAdd (s : string).

Definition mstep (m : vnm) (o : mop) : vnm * res :=
  match o with
  | MAddUnnamed k => (add_unnamed m k, RUnit)
  | MAddNamed l => add_named m l
  | MSetName v s => set_var_name m v s
  | MGetOrAdd s => get_or_add m s
  end.

Fixpoint mrun (m : vnm) (os : list mop) : vnm * list res :=
  match os with
  | [] => (m, [])
  | o :: r => let '(m1, x) := mstep m o in let '(m2, xs) := mrun m1 r in (m2, x :: xs)
  end.

(** ** the manager: name map + number of levels (unique_table.len()) +
    length of the var<->level map *)
Record mgr := mk_mgr { nm : vnm; nlevels : N; nvl : N }.

(* new manager *)
Definition mgr_new : mgr := mk_mgr vnm_new 0 0.

(* Manager::num_levels; Manager::num_vars is defined as num_levels *)
Definition num_levels (g : mgr) : N := nlevels g.
Definition num_vars (g : mgr) : N := num_levels g.
(* Manager::num_named_vars *)
Definition num_named_vars (g : mgr) : N := named_count (nm g).
Definition m_var_name (g : mgr) (v : N) : option string := var_name (nm g) v.
Definition m_name_to_var (g : mgr) (s : string) : option N := name_to_var (nm g) s.

(* Manager::add_vars: the returned range is computed from unique_table.len() *)
Definition m_add_vars (g : mgr) (k : N) : mgr * res :=
  let len := nlevels g in
  let new_len := N.add len k in
  (mk_mgr (add_unnamed (nm g) k) new_len (N.add (nvl g) k), ROk len new_len).

(* Manager::add_named_vars: the scope guard resizes the level table to the
   name map's new length and extends the var<->level map by the difference,
   on success and on a duplicate alike *)
Definition m_add_named_vars (g : mgr) (l : list string) : mgr * res :=
  let len := vnm_len (nm g) in
  let '(m1, r) := add_named (nm g) l in
  let new_len := vnm_len m1 in
  (mk_mgr m1 new_len (N.add (nvl g) (N.sub new_len len)), r).

(* Manager::add_named_vars_from_map: a manager without variables adopts the
   map as it is, otherwise the names are added one by one *)
Definition m_add_named_vars_from_map (g : mgr) (map : vnm) : mgr * res :=
  if vnm_is_empty (nm g) then
    let n := vnm_len map in
    (mk_mgr map n (N.add (nvl g) n), ROk 0 n)
  else m_add_named_vars g (into_names map).

(* Manager::set_var_name *)
Definition m_set_var_name (g : mgr) (v : N) (s : string) : mgr * res :=
  let '(m1, r) := set_var_name (nm g) v s in (mk_mgr m1 (nlevels g) (nvl g), r).

Inductive op :=
| OAddVars (k : N)
| OAddNamed (l : list string)
| OSetName (v : N) (s : string)
| OFromMap (build : list mop).

(* one call; for OFromMap the results of the calls that built the argument
   are returned as well *)
Definition step (g : mgr) (o : op) : mgr * (res * list res) :=
  match o with
  | OAddVars k => let '(g1, r) := m_add_vars g k in (g1, (r, []))
  | OAddNamed l => let '(g1, r) := m_add_named_vars g l in (g1, (r, []))
  | OSetName v s => let '(g1, r) := m_set_var_name g v s in (g1, (r, []))
  | OFromMap b =>
    let '(map, rs) := mrun vnm_new b in
    let '(g1, r) := m_add_named_vars_from_map g map in (g1, (r, rs))
  end.

Definition run (g : mgr) (os : list op) : mgr := fold_left (fun g o => fst (step g o)) os g.

(** ** decision diagrams as far as "adding variables" is concerned

    [dd2]: binary nodes with complement marks on the edges and terminals of
    any type (BDD: no marks, terminals bool; BCDD: marks, one terminal;
    MTBDD: no marks, arbitrary terminals).  [dd3]: ternary nodes (TDD), the
    children for "true", "unknown", "false".  Nodes refer to variables by
    number; none of the calls above touches a node. *)
Inductive dd2 (T : Type) :=
| Term2 (t : T)
| Node2 (v : N) (chi clo : bool) (hi lo : dd2 T).
Arguments Term2 {T}. Arguments Node2 {T}.

Fixpoint eval2 {T : Type} (cpl : T -> T) (e : N -> bool) (d : dd2 T) : T :=
  match d with
  | Term2 t => t
  | Node2 v chi clo hi lo =>
    if e v then (if chi then cpl (eval2 cpl e hi) else eval2 cpl e hi)
    else (if clo then cpl (eval2 cpl e lo) else eval2 cpl e lo)
  end.

Fixpoint below2 {T : Type} (n : N) (d : dd2 T) : bool :=
  match d with
  | Term2 _ => true
  | Node2 v _ _ hi lo => N.ltb v n && below2 n hi && below2 n lo
  end.

Inductive dd3 (T : Type) :=
| Term3 (t : T)
| Node3 (v : N) (ct cu cf : dd3 T).
Arguments Term3 {T}. Arguments Node3 {T}.

Fixpoint eval3 {T : Type} (e : N -> option bool) (d : dd3 T) : T :=
  match d with
  | Term3 t => t
  | Node3 v ct cu cf =>
    match e v with
    | Some true => eval3 e ct
    | None => eval3 e cu
    | Some false => eval3 e cf
    end
  end.

Fixpoint below3 {T : Type} (n : N) (d : dd3 T) : bool :=
  match d with
  | Term3 _ => true
  | Node3 v ct cu cf => N.ltb v n && below3 n ct && below3 n cu && below3 n cf
  end.
