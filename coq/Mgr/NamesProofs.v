(** C16 — proofs about the name bookkeeping model (Mgr/Names.v). *)
From Coq Require Import String List NArith Bool Lia Arith FinFun.
From OxiVerif Require Import Mgr.Names.
Import ListNotations.
Local Open Scope string_scope.
Local Open Scope list_scope.
Arguments N.add : simpl never.
Arguments N.sub : simpl never.
Arguments N.mul : simpl never.
Arguments idx_remove : simpl never.
Arguments idx_insert : simpl never.

(** * small facts *)

Lemma empty_name_true s : is_empty_name s = true <-> s = "".
Proof. unfold is_empty_name. apply String.eqb_eq. Qed.

Lemma empty_name_false s : is_empty_name s = false <-> s <> "".
Proof. unfold is_empty_name. apply String.eqb_neq. Qed.

Lemma vnm_len_nat m : N.to_nat (vnm_len m) = length (names m).
Proof. unfold vnm_len. apply Nat2N.id. Qed.

(** ** association list = hash map *)

Lemma idx_get_some s idx v : idx_get s idx = Some v -> In (s, v) idx.
Proof.
  induction idx as [|[k w] r IH]; simpl; [discriminate|].
  destruct (String.eqb_spec k s) as [->|Hne].
  - intros [= ->]. now left.
  - intros H. right. auto.
Qed.

Lemma idx_get_none s idx : idx_get s idx = None <-> ~ In s (map fst idx).
Proof.
  induction idx as [|[k w] r IH]; simpl.
  - split; [intros _ []|reflexivity].
  - destruct (String.eqb_spec k s) as [->|Hne].
    + split; [discriminate|]. intros H. exfalso. apply H. now left.
    + rewrite IH. split.
      * intros H [E|I]; [now apply Hne|now apply H].
      * intros H I. apply H. now right.
Qed.

Lemma idx_get_in s idx v :
  NoDup (map fst idx) -> In (s, v) idx -> idx_get s idx = Some v.
Proof.
  induction idx as [|[k w] r IH]; simpl; [intros _ []|].
  intros ND [E|I].
  - inversion E; subst. now rewrite String.eqb_refl.
  - inversion ND as [|? ? Hn ND']; subst.
    destruct (String.eqb_spec k s) as [->|Hne].
    + exfalso. apply Hn. apply in_map_iff. now exists (s, v).
    + now apply IH.
Qed.

Lemma in_idx_remove s idx k v : In (k, v) (idx_remove s idx) <-> In (k, v) idx /\ k <> s.
Proof.
  unfold idx_remove. rewrite filter_In. simpl.
  rewrite negb_true_iff. now rewrite String.eqb_neq.
Qed.

Lemma nodup_idx_remove s idx : NoDup (map fst idx) -> NoDup (map fst (idx_remove s idx)).
Proof.
  induction idx as [|[k w] r IH]; [auto|].
  intros ND. simpl in ND. inversion ND as [|? ? Hn ND']; subst.
  change (idx_remove s ((k, w) :: r))
    with (if negb (String.eqb k s) then (k, w) :: idx_remove s r else idx_remove s r).
  destruct (negb (String.eqb k s)); [|auto].
  simpl. constructor; [|auto].
  intros I. apply Hn. apply in_map_iff in I. destruct I as [[k' v'] [E I]]. simpl in E. subst k'.
  apply in_idx_remove in I. apply in_map_iff. exists (k, v'). now split.
Qed.

(** ** vector update *)

Lemma set_nth_length i x l : length (set_nth i x l) = length l.
Proof. revert i. induction l as [|y r IH]; intros [|i]; simpl; auto. Qed.

Lemma nth_error_set_nth_eq i x l : (i < length l)%nat -> nth_error (set_nth i x l) i = Some x.
Proof.
  revert i. induction l as [|y r IH]; intros [|i]; simpl; try lia; auto.
  intros H. apply IH. lia.
Qed.

Lemma nth_error_set_nth_neq i j x l : i <> j -> nth_error (set_nth i x l) j = nth_error l j.
Proof.
  revert i j. induction l as [|y r IH]; intros [|i] [|j]; simpl; auto; try congruence.
  all: try (intros H; apply IH; congruence).
Qed.

Lemma nth_error_app_last {A} (l : list A) x j s :
  nth_error (l ++ [x]) j = Some s <->
  nth_error l j = Some s \/ (j = length l /\ x = s).
Proof.
  destruct (Nat.lt_ge_cases j (length l)) as [Hlt|Hge].
  - rewrite nth_error_app1 by assumption. split; [auto|]. intros [H|[E _]]; [assumption|lia].
  - rewrite nth_error_app2 by assumption.
    assert (Hnone : nth_error l j = None) by now apply nth_error_None.
    rewrite Hnone.
    destruct (j - length l)%nat as [|d] eqn:Ed; simpl.
    + split.
      * intros [= ->]. right. split; [lia|reflexivity].
      * intros [H|[_ ->]]; [discriminate|reflexivity].
    + split.
      * destruct d; discriminate.
      * intros [H|[E _]]; [discriminate|lia].
Qed.

Lemma nth_error_app_repeat (l : list string) k j s :
  s <> "" -> (nth_error (l ++ repeat "" k) j = Some s <-> nth_error l j = Some s).
Proof.
  intros Hs. destruct (Nat.lt_ge_cases j (length l)) as [Hlt|Hge].
  - now rewrite nth_error_app1.
  - rewrite nth_error_app2 by assumption.
    assert (Hnone : nth_error l j = None) by now apply nth_error_None.
    rewrite Hnone. split; [|discriminate].
    intros H. apply nth_error_In in H. apply repeat_spec in H. congruence.
Qed.

(** * the invariant *)

(** [index] is exactly the inverse of [names] restricted to non-empty names
    and has one entry per key. *)
Definition names_inv (m : vnm) : Prop :=
  (forall s v, In (s, v) (index m) <-> s <> "" /\ nth_error (names m) (N.to_nat v) = Some s)
  /\ NoDup (map fst (index m)).

Lemma names_inv_new : names_inv vnm_new.
Proof.
  split; simpl; [|constructor].
  intros s v. split; [intros []|]. intros [_ H]. destruct (N.to_nat v); discriminate.
Qed.

Lemma names_inv_add_unnamed m k : names_inv m -> names_inv (add_unnamed m k).
Proof.
  intros [H ND]. split; simpl; [|assumption].
  intros s v. rewrite H. split; intros [Hs Hn]; split; auto.
  - now apply nth_error_app_repeat.
  - now apply nth_error_app_repeat in Hn.
Qed.

(* push of an unnamed variable *)
Lemma names_inv_push_empty m : names_inv m -> names_inv (mk_vnm (names m ++ [""]) (index m)).
Proof.
  intros [H ND]. split; simpl; [|assumption].
  intros s v. rewrite H. rewrite nth_error_app_last. split.
  - intros [Hs Hn]. auto.
  - intros [Hs [Hn|[_ E]]]; [auto|congruence].
Qed.

(* push of a fresh name at v = len *)
Lemma names_inv_push_named m name v :
  names_inv m -> name <> "" -> idx_get name (index m) = None -> v = vnm_len m ->
  names_inv (mk_vnm (names m ++ [name]) (idx_insert name v (index m))).
Proof.
  intros [H ND] Hne Hnone ->. split; simpl.
  - intros s v. rewrite nth_error_app_last, H. split.
    + intros [E|[Hs Hn]].
      * inversion E; subst. split; [assumption|]. right. split; [apply vnm_len_nat|reflexivity].
      * auto.
    + intros [Hs [Hn|[E1 E2]]]; [auto|].
      left. subst s. f_equal. rewrite <- vnm_len_nat in E1. now apply N2Nat.inj in E1.
  - constructor; [|assumption]. now apply idx_get_none.
Qed.

(** ** add_named *)

(* what a caller can rely on after add_named, successful or rejected *)
Definition add_named_post (m : vnm) (l : list string) (m' : vnm) (r : res) : Prop :=
  match r with
  | ROk lo hi =>
    lo = vnm_len m /\ hi = vnm_len m' /\ names m' = names m ++ l
  | RErr name present lo hi =>
    lo = vnm_len m /\ hi = vnm_len m' /\
    (exists pre post, l = pre ++ name :: post /\ names m' = names m ++ pre) /\
    name <> "" /\ var_name m' present = Some name
  | _ => False
  end.

Lemma add_named_loop_spec l : forall m len_pre v,
  names_inv m -> v = vnm_len m ->
  let '(m', r) := add_named_loop m len_pre v l in
  names_inv m' /\
  match r with
  | ROk lo hi => lo = len_pre /\ hi = vnm_len m' /\ names m' = names m ++ l
  | RErr name present lo hi =>
    lo = len_pre /\ hi = vnm_len m' /\
    (exists pre post, l = pre ++ name :: post /\ names m' = names m ++ pre) /\
    name <> "" /\ var_name m' present = Some name
  | _ => False
  end.
Proof.
  induction l as [|name r IH]; intros m len_pre v Hinv Hv; simpl.
  - split; [assumption|]. now rewrite app_nil_r.
  - assert (Hsucc : forall x, N.succ v = vnm_len (mk_vnm (names m ++ [x]) (index m))).
    { intros x. subst v. unfold vnm_len. simpl. rewrite app_length. simpl. lia. }
    destruct (is_empty_name name) eqn:Ee.
    + apply empty_name_true in Ee. subst name.
      specialize (IH (mk_vnm (names m ++ [""]) (index m)) len_pre (N.succ v)
                     (names_inv_push_empty m Hinv) (Hsucc "")).
      destruct (add_named_loop _ len_pre (N.succ v) r) as [m' res].
      destruct IH as [Hi Hr]. split; [assumption|].
      destruct res; auto; simpl in Hr.
      * destruct Hr as (-> & -> & Hn). repeat split; auto. now rewrite Hn, <- app_assoc.
      * destruct Hr as (-> & -> & (pre & post & -> & Hn) & Hne & Hp). repeat split; auto.
        exists ("" :: pre), post. split; [reflexivity|]. now rewrite Hn, <- app_assoc.
    + apply empty_name_false in Ee.
      destruct (idx_get name (index m)) as [present|] eqn:Eg.
      * split; [assumption|]. repeat split; auto.
        -- exists [], r. split; [reflexivity|]. now rewrite app_nil_r.
        -- apply idx_get_some in Eg. apply (proj1 Hinv) in Eg. apply Eg.
      * assert (Hinv' := names_inv_push_named m name v Hinv Ee Eg Hv).
        specialize (IH (mk_vnm (names m ++ [name]) (idx_insert name v (index m))) len_pre (N.succ v)
                       Hinv' (Hsucc name)).
        destruct (add_named_loop _ len_pre (N.succ v) r) as [m' res].
        destruct IH as [Hi Hr]. split; [assumption|].
        destruct res; auto; simpl in Hr.
        -- destruct Hr as (-> & -> & Hn). repeat split; auto. now rewrite Hn, <- app_assoc.
        -- destruct Hr as (-> & -> & (pre & post & -> & Hn) & Hne & Hp). repeat split; auto.
           exists (name :: pre), post. split; [reflexivity|]. now rewrite Hn, <- app_assoc.
Qed.

Lemma add_named_spec m l :
  names_inv m ->
  names_inv (fst (add_named m l)) /\ add_named_post m l (fst (add_named m l)) (snd (add_named m l)).
Proof.
  intros Hinv. unfold add_named, add_named_post.
  pose proof (add_named_loop_spec l m (vnm_len m) (vnm_len m) Hinv eq_refl) as H.
  destruct (add_named_loop m (vnm_len m) (vnm_len m) l) as [m' r]. exact H.
Qed.

(** ** get_or_add *)

Lemma names_inv_get_or_add m s : names_inv m -> names_inv (fst (get_or_add m s)).
Proof.
  intros Hinv. unfold get_or_add.
  destruct (is_empty_name s) eqn:Ee; simpl.
  - now apply names_inv_push_empty.
  - apply empty_name_false in Ee.
    destruct (idx_get s (index m)) eqn:Eg; simpl; [assumption|].
    now apply names_inv_push_named.
Qed.

(** ** set_var_name *)

Definition set_name_post (m : vnm) (var : N) (name : string) (m' : vnm) (r : res) : Prop :=
  match r with
  | RUnit =>                                   (* accepted *)
    var_name m' var = Some name /\
    length (names m') = length (names m) /\
    (forall w, w <> var -> var_name m' w = var_name m w)
  | RErr n present lo hi =>                    (* rejected: nothing changed *)
    m' = m /\ n = name /\ name <> "" /\ present <> var /\
    var_name m present = Some name /\ lo = vnm_len m /\ hi = vnm_len m
  | RPanic =>                                  (* var out of range: nothing changed *)
    m' = m /\ var_name m var = None
  | _ => False
  end.

Lemma set_var_name_spec m var name :
  names_inv m ->
  names_inv (fst (set_var_name m var name)) /\
  set_name_post m var name (fst (set_var_name m var name)) (snd (set_var_name m var name)).
Proof.
  intros [H ND]. unfold set_var_name, set_name_post, var_name.
  destruct (is_empty_name name) eqn:Ee.
  - (* clear *)
    apply empty_name_true in Ee. subst name.
    destruct (nth_error (names m) (N.to_nat var)) as [prev|] eqn:En; simpl.
    2:{ split; [now split|]. now split. }
    assert (Hlt : (N.to_nat var < length (names m))%nat) by (apply nth_error_Some; congruence).
    split; [split; simpl|].
    + intros s v. rewrite in_idx_remove, H. split.
      * intros [[Hs Hn] Hne]. split; [assumption|].
        rewrite nth_error_set_nth_neq; [assumption|].
        intros E. apply N2Nat.inj in E. subst v. congruence.
      * intros [Hs Hn].
        destruct (N.eq_dec var v) as [->|Hv].
        -- rewrite nth_error_set_nth_eq in Hn by assumption. congruence.
        -- rewrite nth_error_set_nth_neq in Hn by (intros E; apply N2Nat.inj in E; congruence).
           split; [now split|].
           intros ->. apply Hv.
           assert (I1 : In (prev, var) (index m)) by (apply H; now split).
           assert (I2 : In (prev, v) (index m)) by (apply H; now split).
           apply (idx_get_in _ _ _ ND) in I1. apply (idx_get_in _ _ _ ND) in I2. congruence.
    + now apply nodup_idx_remove.
    + simpl. split; [now apply nth_error_set_nth_eq|]. split; [apply set_nth_length|].
      intros w Hw. apply nth_error_set_nth_neq. intros E. apply N2Nat.inj in E. congruence.
  - apply empty_name_false in Ee.
    destruct (idx_get name (index m)) as [present|] eqn:Eg.
    + (* occupied *)
      assert (Hp : In (name, present) (index m)) by now apply idx_get_some.
      apply H in Hp. destruct Hp as [_ Hp].
      destruct (N.eqb_spec present var) as [->|Hne]; simpl.
      * split; [now split|]. split; [assumption|]. split; [reflexivity|]. auto.
      * split; [now split|]. repeat split; auto.
    + (* vacant *)
      destruct (nth_error (names m) (N.to_nat var)) as [prev|] eqn:En; simpl.
      2:{ split; [now split|]. now split. }
      assert (Hlt : (N.to_nat var < length (names m))%nat) by (apply nth_error_Some; congruence).
      assert (Hfresh : forall v, ~ In (name, v) (index m)).
      { intros v I. apply idx_get_none in Eg. apply Eg. apply in_map_iff. now exists (name, v). }
      assert (Hpn : prev <> name).
      { intros ->. apply (Hfresh var). apply H. now split. }
      (* both shapes of the new index have the same members *)
      assert (Hmem : forall s v,
        In (s, v) (if is_empty_name prev then idx_insert name var (index m)
                   else idx_remove prev (idx_insert name var (index m)))
        <-> (s = name /\ v = var) \/ (In (s, v) (index m) /\ s <> prev)).
      { intros s v. destruct (is_empty_name prev) eqn:Ep.
        - apply empty_name_true in Ep. unfold idx_insert. simpl. split.
          + intros [E|I]; [left; now inversion E|]. right. split; [assumption|].
            apply H in I. destruct I as [Hs _]. congruence.
          + intros [[-> ->]|[I _]]; [now left|now right].
        - rewrite in_idx_remove. unfold idx_insert. simpl. split.
          + intros [[E|I] Hs]; [left; now inversion E|right; now split].
          + intros [[-> ->]|[I Hs]]; split; auto. }
      split; [split; simpl|].
      * intros s v. rewrite Hmem, H. split.
        -- intros [[-> ->]|[[Hs Hn] Hsp]].
           ++ split; [assumption|]. now apply nth_error_set_nth_eq.
           ++ split; [assumption|]. rewrite nth_error_set_nth_neq; [assumption|].
              intros E. apply N2Nat.inj in E. subst v. congruence.
        -- intros [Hs Hn]. destruct (N.eq_dec var v) as [<-|Hv].
           ++ rewrite nth_error_set_nth_eq in Hn by assumption. left. split; congruence.
           ++ rewrite nth_error_set_nth_neq in Hn by (intros E; apply N2Nat.inj in E; congruence).
              right. split; [now split|].
              intros ->. apply Hv.
              assert (I1 : In (prev, var) (index m)) by (apply H; now split).
              assert (I2 : In (prev, v) (index m)) by (apply H; now split).
              apply (idx_get_in _ _ _ ND) in I1. apply (idx_get_in _ _ _ ND) in I2. congruence.
      * assert (ND1 : NoDup (map fst (idx_insert name var (index m)))).
        { unfold idx_insert. simpl. constructor; [now apply idx_get_none|assumption]. }
        destruct (is_empty_name prev); [assumption|now apply nodup_idx_remove].
      * simpl. split; [now apply nth_error_set_nth_eq|]. split; [apply set_nth_length|].
        intros w Hw. apply nth_error_set_nth_neq. intros E. apply N2Nat.inj in E. congruence.
Qed.

(** ** the calls that build a map argument *)

Lemma names_inv_mstep m o : names_inv m -> names_inv (fst (mstep m o)).
Proof.
  intros Hinv. destruct o; simpl.
  - now apply names_inv_add_unnamed.
  - now apply add_named_spec.
  - now apply set_var_name_spec.
  - now apply names_inv_get_or_add.
Qed.

Lemma names_inv_mrun os : forall m, names_inv m -> names_inv (fst (mrun m os)).
Proof.
  induction os as [|o r IH]; intros m Hinv; simpl; [assumption|].
  pose proof (names_inv_mstep m o Hinv) as H1.
  destruct (mstep m o) as [m1 x]. simpl in H1.
  specialize (IH m1 H1). destruct (mrun m1 r) as [m2 xs]. exact IH.
Qed.

(** * the manager *)

(** as many levels as variables (and as many entries of the var<->level
    map), and the name map is consistent *)
Definition mgr_inv (g : mgr) : Prop :=
  names_inv (nm g) /\ nlevels g = vnm_len (nm g) /\ nvl g = vnm_len (nm g).

Lemma mgr_inv_new : mgr_inv mgr_new.
Proof. split; [apply names_inv_new|]. now split. Qed.

Lemma vnm_len_add_unnamed m k : vnm_len (add_unnamed m k) = N.add (vnm_len m) k.
Proof. unfold vnm_len, add_unnamed. simpl. rewrite app_length, repeat_length. lia. Qed.

Lemma add_named_len_mono m l : names_inv m -> N.le (vnm_len m) (vnm_len (fst (add_named m l))).
Proof.
  intros Hinv. destruct (add_named_spec m l Hinv) as [_ Hp].
  unfold add_named_post in Hp. unfold vnm_len.
  destruct (snd (add_named m l)); try contradiction.
  - destruct Hp as (_ & _ & ->). rewrite app_length. lia.
  - destruct Hp as (_ & _ & (pre & post & _ & ->) & _). rewrite app_length. lia.
Qed.

Lemma mgr_inv_add_vars g k : mgr_inv g -> mgr_inv (fst (m_add_vars g k)).
Proof.
  intros (Hn & Hl & Hv). unfold m_add_vars. simpl. split; [now apply names_inv_add_unnamed|].
  simpl. rewrite vnm_len_add_unnamed. split; congruence.
Qed.

Lemma mgr_inv_add_named g l : mgr_inv g -> mgr_inv (fst (m_add_named_vars g l)).
Proof.
  intros (Hn & Hl & Hv). unfold m_add_named_vars.
  pose proof (add_named_spec (nm g) l Hn) as [Hi _].
  pose proof (add_named_len_mono (nm g) l Hn) as Hm.
  destruct (add_named (nm g) l) as [m1 r]. simpl in *.
  split; [assumption|]. simpl. split; [reflexivity|]. lia.
Qed.

Lemma vnm_is_empty_len m : vnm_is_empty m = true -> vnm_len m = 0%N.
Proof. unfold vnm_is_empty, vnm_len. destruct (names m); [reflexivity|discriminate]. Qed.

Lemma mgr_inv_from_map g map :
  mgr_inv g -> names_inv map -> mgr_inv (fst (m_add_named_vars_from_map g map)).
Proof.
  intros Hg Hmap. unfold m_add_named_vars_from_map.
  destruct (vnm_is_empty (nm g)) eqn:Ee.
  - destruct Hg as (Hn & Hl & Hv). apply vnm_is_empty_len in Ee. simpl.
    split; [assumption|]. simpl. split; [reflexivity|]. lia.
  - now apply mgr_inv_add_named.
Qed.

Lemma mgr_inv_set_name g v s : mgr_inv g -> mgr_inv (fst (m_set_var_name g v s)).
Proof.
  intros (Hn & Hl & Hv). unfold m_set_var_name.
  pose proof (set_var_name_spec (nm g) v s Hn) as [Hi Hp].
  destruct (set_var_name (nm g) v s) as [m1 r]. simpl in *.
  split; [assumption|]. simpl.
  assert (E : vnm_len m1 = vnm_len (nm g)).
  { unfold set_name_post in Hp. unfold vnm_len. destruct r; try contradiction.
    - destruct Hp as (_ & -> & _). reflexivity.
    - destruct Hp as (-> & _). reflexivity.
    - destruct Hp as (-> & _). reflexivity. }
  rewrite E. now split.
Qed.

Lemma fst_step g o :
  fst (step g o) =
  match o with
  | OAddVars k => fst (m_add_vars g k)
  | OAddNamed l => fst (m_add_named_vars g l)
  | OSetName v s => fst (m_set_var_name g v s)
  | OFromMap b => fst (m_add_named_vars_from_map g (fst (mrun vnm_new b)))
  end.
Proof.
  destruct o as [k|l|v s|b]; unfold step.
  - now destruct (m_add_vars g k).
  - now destruct (m_add_named_vars g l).
  - now destruct (m_set_var_name g v s).
  - destruct (mrun vnm_new b) as [map rs]. simpl fst at 2.
    now destruct (m_add_named_vars_from_map g map).
Qed.

Theorem mgr_inv_step g o : mgr_inv g -> mgr_inv (fst (step g o)).
Proof.
  intros Hg. rewrite fst_step. destruct o as [k|l|v s|b].
  - now apply mgr_inv_add_vars.
  - now apply mgr_inv_add_named.
  - now apply mgr_inv_set_name.
  - apply mgr_inv_from_map; [assumption|]. apply names_inv_mrun, names_inv_new.
Qed.

(** every call sequence (accepted and rejected calls alike) *)
Theorem mgr_inv_run os : forall g, mgr_inv g -> mgr_inv (run g os).
Proof.
  unfold run. induction os as [|o r IH]; intros g Hg; simpl; [assumption|].
  apply IH. now apply mgr_inv_step.
Qed.

Theorem mgr_inv_reachable os : mgr_inv (run mgr_new os).
Proof. apply mgr_inv_run, mgr_inv_new. Qed.

(** * consequences, in the words of the property *)

(** name_to_var (var_name v) = Some v for a named variable v *)
Theorem name_to_var_var_name m v s :
  names_inv m -> var_name m v = Some s -> s <> "" -> name_to_var m s = Some v.
Proof.
  intros [H ND] Hv Hs. unfold name_to_var. apply idx_get_in; [assumption|].
  apply H. now split.
Qed.

(** var_name (name_to_var s) = s, and only named variables are found *)
Theorem var_name_name_to_var m s v :
  names_inv m -> name_to_var m s = Some v -> var_name m v = Some s /\ s <> "".
Proof.
  intros [H ND] Hg. unfold name_to_var in Hg. apply idx_get_some in Hg. apply H in Hg. tauto.
Qed.

Theorem name_to_var_empty m : names_inv m -> name_to_var m "" = None.
Proof.
  intros Hinv. destruct (name_to_var m "") eqn:E; [|reflexivity].
  apply (var_name_name_to_var m "" n Hinv) in E. now destruct E.
Qed.

(** an unused name is not found *)
Theorem name_to_var_none m s :
  names_inv m -> name_to_var m s = None -> forall v, var_name m v <> Some s \/ s = "".
Proof.
  intros Hinv Hn v. destruct (string_dec s "") as [->|Hs]; [now right|]. left.
  intros Hv. rewrite (name_to_var_var_name m v s Hinv Hv Hs) in Hn. discriminate.
Qed.

(** ** num_named_vars counts the named variables *)

Definition named (m : vnm) (i : nat) : bool :=
  match nth_error (names m) i with Some s => negb (is_empty_name s) | None => false end.

(* the named variables, in increasing order *)
Definition named_vars (m : vnm) : list nat := filter (named m) (seq 0 (length (names m))).

Lemma nodup_map_snd (idx : list (string * N)) :
  NoDup (map fst idx) ->
  (forall s s' v, In (s, v) idx -> In (s', v) idx -> s = s') ->
  NoDup (map snd idx).
Proof.
  induction idx as [|[s v] r IH]; simpl; intros ND F; [constructor|].
  inversion ND as [|? ? Hn ND']; subst. constructor.
  - intros I. apply in_map_iff in I. destruct I as [[s' v'] [E I]]. simpl in E. subst v'.
    apply Hn. assert (s = s') by (apply (F s s' v); [now left|now right]). subst s'.
    apply in_map_iff. now exists (s, v).
  - apply IH; [assumption|]. intros a b w I1 I2. apply (F a b w); now right.
Qed.

Theorem named_count_correct m :
  names_inv m -> N.to_nat (named_count m) = length (named_vars m).
Proof.
  intros [H ND]. unfold named_count. rewrite Nat2N.id.
  rewrite <- (map_length (fun p => N.to_nat (snd p)) (index m)).
  assert (ND1 : NoDup (map (fun p => N.to_nat (snd p)) (index m))).
  { rewrite <- (map_map snd N.to_nat). apply FinFun.Injective_map_NoDup.
    - intros a b. apply N2Nat.inj.
    - apply nodup_map_snd; [assumption|]. intros s s' v I1 I2.
      apply H in I1. apply H in I2. destruct I1 as [_ E1], I2 as [_ E2]. congruence. }
  assert (ND2 : NoDup (named_vars m)) by (apply NoDup_filter, seq_NoDup).
  assert (Hiff : forall i, In i (map (fun p => N.to_nat (snd p)) (index m)) <-> In i (named_vars m)).
  { intros i. unfold named_vars. rewrite filter_In, in_seq, in_map_iff. unfold named. split.
    - intros [[s v] [E I]]. simpl in E. subst i. apply H in I. destruct I as [Hs Hn].
      split.
      + split; [lia|]. simpl. apply nth_error_Some. congruence.
      + rewrite Hn. apply negb_true_iff. now apply empty_name_false.
    - intros [_ Hn]. destruct (nth_error (names m) i) as [s|] eqn:E; [|discriminate].
      apply negb_true_iff, empty_name_false in Hn.
      exists (s, N.of_nat i). simpl. split; [apply Nat2N.id|]. apply H. split; [assumption|].
      now rewrite Nat2N.id. }
  apply Nat.le_antisymm; apply NoDup_incl_length; try assumption; intros i; apply Hiff.
Qed.

(** the named variables are exactly the positions of [names] that hold a
    non-empty name *)
Lemma named_vars_spec m i :
  In i (named_vars m) <-> exists s, nth_error (names m) i = Some s /\ s <> "".
Proof.
  unfold named_vars, named. rewrite filter_In, in_seq. split.
  - intros [_ Hn]. destruct (nth_error (names m) i) as [s|]; [|discriminate].
    exists s. split; [reflexivity|]. now apply empty_name_false, negb_true_iff.
  - intros [s [E Hs]]. split.
    + split; [lia|]. simpl. apply nth_error_Some. congruence.
    + rewrite E. now apply negb_true_iff, empty_name_false.
Qed.

(** ** manager level: the property's sentence *)

Theorem mgr_consistent g :
  mgr_inv g ->
  (* as many levels as variables, = number of name slots *)
  num_vars g = num_levels g /\ num_levels g = vnm_len (nm g) /\
  (* var_name is defined exactly for v < num_vars *)
  (forall v, (exists s, m_var_name g v = Some s) <-> N.lt v (num_vars g)) /\
  (* name_to_var and var_name are mutually inverse on the named variables *)
  (forall v s, m_var_name g v = Some s -> s <> "" -> m_name_to_var g s = Some v) /\
  (forall s v, m_name_to_var g s = Some v -> m_var_name g v = Some s /\ s <> "" /\ N.lt v (num_vars g)) /\
  m_name_to_var g "" = None /\
  (* num_named_vars counts them *)
  N.to_nat (num_named_vars g) = length (named_vars (nm g)).
Proof.
  intros (Hn & Hl & Hv). unfold num_vars, num_levels, m_var_name, m_name_to_var, num_named_vars.
  assert (Hdef : forall v, (exists s, var_name (nm g) v = Some s) <-> N.lt v (nlevels g)).
  { intros v. unfold var_name. rewrite Hl. unfold vnm_len. split.
    - intros [s E]. assert (N.to_nat v < length (names (nm g)))%nat by (apply nth_error_Some; congruence). lia.
    - intros L. destruct (nth_error (names (nm g)) (N.to_nat v)) as [s|] eqn:E; [now exists s|].
      apply nth_error_None in E. lia. }
  repeat split; auto.
  - now apply Hdef.
  - now apply Hdef.
  - intros v s. now apply name_to_var_var_name.
  - now apply (var_name_name_to_var (nm g) s v).
  - now apply (var_name_name_to_var (nm g) s v).
  - apply Hdef. exists s. now apply (var_name_name_to_var (nm g) s v).
  - now apply name_to_var_empty.
  - now apply named_count_correct.
Qed.

(** what the calls report (for a consistent manager) *)

Theorem add_vars_result g k :
  mgr_inv g ->
  snd (m_add_vars g k) = ROk (num_vars g) (N.add (num_vars g) k) /\
  num_vars (fst (m_add_vars g k)) = N.add (num_vars g) k /\
  names (nm (fst (m_add_vars g k))) = names (nm g) ++ repeat "" (N.to_nat k).
Proof. intros _. unfold m_add_vars, num_vars, num_levels. simpl. auto. Qed.

(** add_named_vars: Ok(range) = all names added as the variables of the
    range; Err: the prefix before the first duplicate was added
    ([added_vars]), the rejected name is the next one, and [present_var] is
    the variable that carries it (possibly one of the variables just added) *)
Theorem add_named_vars_result g l :
  mgr_inv g ->
  let g' := fst (m_add_named_vars g l) in
  match snd (m_add_named_vars g l) with
  | ROk lo hi =>
    lo = num_vars g /\ hi = num_vars g' /\ names (nm g') = names (nm g) ++ l
  | RErr name present lo hi =>
    lo = num_vars g /\ hi = num_vars g' /\
    (exists pre post, l = pre ++ name :: post /\ names (nm g') = names (nm g) ++ pre) /\
    name <> "" /\ m_var_name g' present = Some name /\ m_name_to_var g' name = Some present
  | _ => False
  end.
Proof.
  intros (Hn & Hl & Hv). unfold m_add_named_vars, num_vars, num_levels, m_var_name, m_name_to_var.
  pose proof (add_named_spec (nm g) l Hn) as [Hi Hp].
  destruct (add_named (nm g) l) as [m1 r]. simpl in *. unfold add_named_post in Hp.
  destruct r; try contradiction.
  - destruct Hp as (-> & -> & E). auto.
  - destruct Hp as (-> & -> & Hex & Hne & Hp). repeat split; auto.
    now apply name_to_var_var_name.
Qed.

(** set_var_name: accepted -> the variable carries the name, nothing else
    changed; rejected -> nothing changed and [present_var] is another
    variable that carries the name; out of range -> nothing changed *)
Theorem set_var_name_result g v s :
  mgr_inv g ->
  let g' := fst (m_set_var_name g v s) in
  match snd (m_set_var_name g v s) with
  | RUnit =>
    m_var_name g' v = Some s /\ num_vars g' = num_vars g /\
    (forall w, w <> v -> m_var_name g' w = m_var_name g w)
  | RErr name present lo hi =>
    g' = g /\ name = s /\ s <> "" /\ present <> v /\ m_var_name g present = Some s /\
    lo = num_vars g /\ hi = num_vars g
  | RPanic => g' = g /\ ~ N.lt v (num_vars g)
  | _ => False
  end.
Proof.
  intros (Hn & Hl & Hv). unfold m_set_var_name, num_vars, num_levels, m_var_name.
  pose proof (set_var_name_spec (nm g) v s Hn) as [Hi Hp].
  destruct (set_var_name (nm g) v s) as [m1 r]. simpl in *. unfold set_name_post in Hp.
  destruct r; try contradiction.
  - destruct Hp as (H1 & H2 & H3). auto.
  - destruct Hp as (-> & -> & H1 & H2 & H3 & -> & ->). repeat split; auto. now destruct g.
  - destruct Hp as (-> & Hnone). split; [now destruct g|].
    unfold var_name in Hnone. apply nth_error_None in Hnone. rewrite Hl. unfold vnm_len. lia.
Qed.

(** the same name again is a no-op *)
Theorem set_var_name_same m v s :
  names_inv m -> var_name m v = Some s -> set_var_name m v s = (m, RUnit) \/
  (s = "" /\ snd (set_var_name m v s) = RUnit).
Proof.
  intros Hinv Hv. destruct (string_dec s "") as [->|Hs].
  - right. split; [reflexivity|]. unfold set_var_name. simpl. unfold var_name in Hv. now rewrite Hv.
  - left. unfold set_var_name. apply empty_name_false in Hs. rewrite Hs.
    apply empty_name_false in Hs.
    pose proof (name_to_var_var_name m v s Hinv Hv Hs) as E. unfold name_to_var in E. rewrite E.
    now rewrite N.eqb_refl.
Qed.

(** a rename releases the old name *)
Theorem rename_releases m v old new :
  names_inv m -> var_name m v = Some old -> old <> "" -> new <> "" -> new <> old ->
  name_to_var m new = None ->
  let m' := fst (set_var_name m v new) in
  snd (set_var_name m v new) = RUnit /\
  name_to_var m' old = None /\ name_to_var m' new = Some v /\
  named_count m' = named_count m.
Proof.
  intros Hinv Hv Ho Hn Hno Hfree.
  pose proof (set_var_name_spec m v new Hinv) as [Hi Hp].
  assert (Hr : snd (set_var_name m v new) = RUnit).
  { unfold set_var_name. apply empty_name_false in Hn. rewrite Hn.
    unfold name_to_var in Hfree. rewrite Hfree. unfold var_name in Hv. now rewrite Hv. }
  rewrite Hr in Hp. unfold set_name_post in Hp. destruct Hp as (H1 & H2 & H3).
  split; [assumption|]. split; [|split].
  - destruct (name_to_var (fst (set_var_name m v new)) old) as [w|] eqn:E; [|reflexivity].
    exfalso. apply (var_name_name_to_var _ _ _ Hi) in E. destruct E as [E _].
    destruct (N.eq_dec w v) as [->|Hw].
    + rewrite H1 in E. congruence.
    + rewrite (H3 w Hw) in E.
      pose proof (name_to_var_var_name m v old Hinv Hv Ho) as A.
      pose proof (name_to_var_var_name m w old Hinv E Ho) as B. congruence.
  - now apply name_to_var_var_name.
  - (* both count the named variables, which are the same positions *)
    apply N2Nat.inj. rewrite !named_count_correct by assumption.
    unfold named_vars. rewrite H2. f_equal. apply filter_ext.
    intros i. unfold named. destruct (Nat.eq_dec i (N.to_nat v)) as [->|Hi'].
    + unfold var_name in H1, Hv. rewrite H1, Hv.
      apply empty_name_false in Ho. apply empty_name_false in Hn. now rewrite Ho, Hn.
    + specialize (H3 (N.of_nat i)). unfold var_name in H3. rewrite Nat2N.id in H3.
      rewrite H3; [reflexivity|]. intros <-. now rewrite Nat2N.id in Hi'.
Qed.

(** * adding variables does not change what a handle denotes *)

(** The calls never remove or renumber a variable ... *)
Lemma num_vars_mono_add_named g l :
  mgr_inv g -> N.le (num_vars g) (num_vars (fst (m_add_named_vars g l))).
Proof.
  intros (Hn & Hl & Hv). unfold num_vars, num_levels, m_add_named_vars.
  pose proof (add_named_len_mono (nm g) l Hn) as Hm.
  destruct (add_named (nm g) l) as [m1 r]. simpl in *. lia.
Qed.

Theorem num_vars_mono_step g o : mgr_inv g -> N.le (num_vars g) (num_vars (fst (step g o))).
Proof.
  intros Hg. rewrite fst_step. destruct o as [k|l|v s|b].
  - unfold num_vars, num_levels, m_add_vars. simpl. lia.
  - now apply num_vars_mono_add_named.
  - unfold num_vars, num_levels, m_set_var_name. destruct (set_var_name (nm g) v s). simpl. lia.
  - unfold m_add_named_vars_from_map. destruct (vnm_is_empty (nm g)) eqn:Ee.
    + destruct Hg as (Hn & Hl & Hv). apply vnm_is_empty_len in Ee.
      unfold num_vars, num_levels. simpl. lia.
    + now apply num_vars_mono_add_named.
Qed.

Theorem num_vars_mono_run os : forall g, mgr_inv g -> N.le (num_vars g) (num_vars (run g os)).
Proof.
  unfold run. induction os as [|o r IH]; intros g Hg; simpl; [lia|].
  pose proof (num_vars_mono_step g o Hg). pose proof (IH _ (mgr_inv_step g o Hg)). lia.
Qed.

(** ... and the value of a diagram depends only on the variables it
    mentions. *)
Lemma eval2_agree {T} (cpl : T -> T) n (d : dd2 T) e e' :
  below2 n d = true -> (forall v, N.lt v n -> e v = e' v) -> eval2 cpl e d = eval2 cpl e' d.
Proof.
  intros Hb Ha. induction d as [t|v chi clo hi IHhi lo IHlo]; simpl in *; [reflexivity|].
  apply andb_prop in Hb. destruct Hb as [Hb Hlo]. apply andb_prop in Hb. destruct Hb as [Hv Hhi].
  apply N.ltb_lt in Hv. rewrite <- (Ha v Hv), (IHhi Hhi), (IHlo Hlo). reflexivity.
Qed.

Lemma eval3_agree {T} n (d : dd3 T) e e' :
  below3 n d = true -> (forall v, N.lt v n -> e v = e' v) -> eval3 e d = eval3 e' d.
Proof.
  intros Hb Ha. induction d as [t|v ct IHt cu IHu cf IHf]; simpl in *; [reflexivity|].
  apply andb_prop in Hb. destruct Hb as [Hb Hf]. apply andb_prop in Hb. destruct Hb as [Hb Hu].
  apply andb_prop in Hb. destruct Hb as [Hv Ht].
  apply N.ltb_lt in Hv. rewrite <- (Ha v Hv), (IHt Ht), (IHu Hu), (IHf Hf). reflexivity.
Qed.

Lemma below2_mono {T} n n' (d : dd2 T) : N.le n n' -> below2 n d = true -> below2 n' d = true.
Proof.
  intros Hle. induction d as [t|v chi clo hi IHhi lo IHlo]; simpl; [auto|].
  intros Hb. apply andb_prop in Hb. destruct Hb as [Hb Hlo]. apply andb_prop in Hb. destruct Hb as [Hv Hhi].
  rewrite (IHhi Hhi), (IHlo Hlo). apply N.ltb_lt in Hv.
  assert (E : N.ltb v n' = true) by (apply N.ltb_lt; lia). now rewrite E.
Qed.

Lemma below3_mono {T} n n' (d : dd3 T) : N.le n n' -> below3 n d = true -> below3 n' d = true.
Proof.
  intros Hle. induction d as [t|v ct IHt cu IHu cf IHf]; simpl; [auto|].
  intros Hb. apply andb_prop in Hb. destruct Hb as [Hb Hf]. apply andb_prop in Hb. destruct Hb as [Hb Hu].
  apply andb_prop in Hb. destruct Hb as [Hv Ht].
  rewrite (IHt Ht), (IHu Hu), (IHf Hf). apply N.ltb_lt in Hv.
  assert (E : N.ltb v n' = true) by (apply N.ltb_lt; lia). now rewrite E.
Qed.

(** BDD / BCDD / MTBDD: a diagram over the variables of [g] keeps its value
    under every assignment of the variables of [run g os] that extends the
    old assignment, whatever the new variables are set to, and it stays a
    diagram over the manager's variables. *)
Theorem add_vars_sem2 {T} (cpl : T -> T) g os (d : dd2 T) e e' :
  mgr_inv g -> below2 (num_vars g) d = true ->
  (forall v, N.lt v (num_vars g) -> e' v = e v) ->
  eval2 cpl e' d = eval2 cpl e d /\ below2 (num_vars (run g os)) d = true.
Proof.
  intros Hg Hb Ha. split.
  - now apply (eval2_agree cpl (num_vars g)).
  - apply (below2_mono (num_vars g)); [now apply num_vars_mono_run|assumption].
Qed.

(** TDD *)
Theorem add_vars_sem3 {T} g os (d : dd3 T) e e' :
  mgr_inv g -> below3 (num_vars g) d = true ->
  (forall v, N.lt v (num_vars g) -> e' v = e v) ->
  eval3 e' d = eval3 e d /\ below3 (num_vars (run g os)) d = true.
Proof.
  intros Hg Hb Ha. split.
  - now apply (eval3_agree (num_vars g)).
  - apply (below3_mono (num_vars g)); [now apply num_vars_mono_run|assumption].
Qed.

(** * a reachable, non-trivial state *)

Definition ex_ops : list op :=
  [ OAddNamed ["a"; ""; "b"];              (* vars 0 1 2 *)
    OAddVars 1;                            (* var 3 *)
    OSetName 0 "c";                        (* rename: releases "a" *)
    OAddNamed ["a"; "b"; "d"];             (* "a" added as var 4, "b" rejected *)
    OSetName 3 "c";                        (* rejected, var 0 carries "c" *)
    OSetName 2 "";                         (* clear *)
    OFromMap [MAddNamed ["e"]; MSetName 0 "f"] ].   (* var 5 = "f" *)

Example ex_state :
  run mgr_new ex_ops =
  mk_mgr (mk_vnm ["c"; ""; ""; ""; "a"; "f"] [("f", 5%N); ("a", 4%N); ("c", 0%N)]) 6 6.
Proof. vm_compute. reflexivity. Qed.

Example ex_rejected :
  snd (step (run mgr_new (firstn 3 ex_ops)) (OAddNamed ["a"; "b"; "d"])) = (RErr "b" 2 4 5, []).
Proof. vm_compute. reflexivity. Qed.

Example ex_consistent :
  let g := run mgr_new ex_ops in
  num_vars g = 6%N /\ num_named_vars g = 3%N /\ named_vars (nm g) = [0; 4; 5]%nat /\
  m_name_to_var g "b" = None /\ m_name_to_var g "a" = Some 4%N.
Proof. vm_compute. repeat split. Qed.
