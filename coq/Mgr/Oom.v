(** * The BDD apply algorithms on a node store of bounded capacity (C14)

    Executable definitions only (proofs: Mgr/OomProofs.v).  The algorithms of
    DD/Apply.v ([apply_not], [apply_bin], [apply_ite], [mk_var]) once more,
    now in the error monad of the code ([AllocResult<Edge>]):

    - [get_or_insert_cap] mirrors [LevelViewSet::get_or_insert] +
      [Store::add_node] / [Store::get_slot_from_shared] of
      oxidd-manager-index/src/manager.rs: the unique table is searched first
      and a hit never fails; only when a NEW node is needed a slot is taken,
      and that fails with [OutOfMemory] when all [cap] slots of the store are
      occupied (for capacities below CHUNK_SIZE slots are handed out one at a
      time, free-list slots first, so "all slots occupied" = "number of
      stored nodes = capacity");
    - [mk_node_cap] mirrors [reduce] of oxidd-rules-bdd/src/simple/mod.rs
      (equal children: no allocation, cannot fail);
    - [join2] mirrors [Recursor::unary/binary/ternary] of
      oxidd-rules-bdd/src/recursor.rs followed by the call of [reduce]:
      the [SequentialRecursor] returns at the first [?] that fails (the
      second branch is not started); the [ParallelRecursor] collects both
      results of [join] before the first [?], so the second branch runs even
      when the first one failed, and its result edge is dropped by its
      [EdgeDropGuard].  [par n] says which of the two is used at remaining
      recursion depth [n] (the code: parallel above the split depth,
      sequential below); the parallel branches are sequentialised in the
      model (first branch, then second branch on the resulting table);
    - every [?] of simple/apply_rec.rs propagates the failure unchanged; the
      apply cache is neither consulted nor extended on the failure path, but
      keeps what successful sub-calls added before.

    Result: [ROk s c r] (table, cache, result edge), [ROom s c] (the table and
    cache at the point of failure: all nodes created by the sub-calls that
    had succeeded are still stored - nothing is rolled back by the code, the
    nodes become garbage), [RStuck] = fuel exhausted or one of the code's
    [unwrap]s would panic (what [None] is in DD/Apply.v; excluded by the
    theorems).  Reference counts are not part of the model (as in DD/Build.v);
    "everything acquired is released" is the statement that no node created by
    a failed operation is reachable from a handle. *)

From Coq Require Import List NArith PArith Bool Arith FMapPositive.
From OxiVerif Require Import DD.Table DD.Sem DD.Build DD.Apply.
Import ListNotations.

(** [Manager::num_inner_nodes] at quiescence: the number of stored nodes (dead
    ones included - they occupy their slot until a collection) *)
Definition node_count (s : snap) : nat := PositiveMap.cardinal (s_nodes s).

(** [LevelViewSet::get_or_insert] with [Store::add_node] as the [insert]
    closure; [None] = [Err(OutOfMemory)] *)
Definition get_or_insert_cap (cap : nat) (s : snap) (lvl : nat) (ch : list edge)
  : option (snap * edge) :=
  match find_dup s lvl ch with
  | Some id => Some (s, E (RN id))
  | None => if Nat.ltb (node_count s) cap then Some (get_or_insert s lvl ch) else None
  end.

(** [reduce manager level t e op] *)
Definition mk_node_cap (cap : nat) (s : snap) (lvl : nat) (ch : list edge)
  : option (snap * edge) :=
  match ch with
  | [] => Some (s, E (RT 0%N))
  | c0 :: _ => if all_equal ch then Some (s, c0) else get_or_insert_cap cap s lvl ch
  end.

Inductive res (C : Type) : Type :=
| ROk (s : snap) (c : C) (r : ref)
| ROom (s : snap) (c : C)
| RStuck.
Arguments ROk {C}.
Arguments ROom {C}.
Arguments RStuck {C}.

(** a branch whose sibling has already failed: its edge is dropped *)
Definition drain {C : Type} (r : res C) : res C :=
  match r with ROk s c _ => ROom s c | x => x end.

(** [rec.unary/binary/ternary(...)?] followed by [fin] (= [reduce(..)?] and
    the cache insertion) *)
Definition join2 {C : Type} (p : bool) (r1 : res C) (run2 : snap -> C -> res C)
  (fin : snap -> C -> ref -> ref -> res C) : res C :=
  match r1 with
  | RStuck => RStuck
  | ROom s1 c1 => if p then drain (run2 s1 c1) else ROom s1 c1
  | ROk s1 c1 t =>
    match run2 s1 c1 with
    | RStuck => RStuck
    | ROom s2 c2 => ROom s2 c2
    | ROk s2 c2 e => fin s2 c2 t e
    end
  end.

Section Bounded.
(** the (unobservable) edge order, the cache, as in DD/Apply.v *)
Variable gt : ref -> ref -> bool.
Variable C : Type.
Variable cget : C -> N -> list ref -> option ref.
Variable cadd : C -> N -> list ref -> ref -> C.
(** capacity of the inner-node store *)
Variable cap : nat.
(** recursor in use at remaining depth [n] *)
Variable par : nat -> bool.

(** [let h = reduce(manager, level, t, e, op)?; apply_cache().add(..); Ok(h)] *)
Definition finish (lvl : nat) (code : N) (args : list ref)
  (s2 : snap) (c2 : C) (t e : ref) : res C :=
  match mk_node_cap cap s2 lvl [E t; E e] with
  | Some (s3, h) => ROk s3 (cadd c2 code args (eref h)) (eref h)
  | None => ROom s2 c2
  end.

(** [apply_not] *)
Fixpoint apply_not_c (fuel : nat) (s : snap) (c : C) (f : ref) : res C :=
  match fuel with
  | O => RStuck
  | S n =>
    match f with
    | RT _ =>
      match view s f with
      | Some (VT b) =>
        match term_of s (negb b) with Some t => ROk s c (RT t) | None => RStuck end
      | _ => RStuck
      end
    | RN id =>
      match find_node s id with
      | None => RStuck
      | Some nd =>
        match cget c code_not [f] with
        | Some h => ROk s c h
        | None =>
          match nchildren nd with
          | [ft; fe] =>
            join2 (par n) (apply_not_c n s c (eref ft))
                  (fun s1 c1 => apply_not_c n s1 c1 (eref fe))
                  (finish (nstored nd) code_not [f])
          | _ => RStuck
          end
        end
      end
    end
  end.

(** [apply_bin::<OP>] *)
Fixpoint apply_bin_c (fuel : nat) (s : snap) (c : C) (op : bop) (f g : ref) : res C :=
  match fuel with
  | O => RStuck
  | S n =>
    match terminal_bin gt s op f g with
    | TFail => RStuck
    | TDone h => ROk s c h
    | TNot r => apply_not_c fuel s c r
    | TBin o a b =>
      match cget c (op_code o) [a; b] with
      | Some h => ROk s c h
      | None =>
        match inner s f, inner s g with
        | Some fnode, Some gnode =>
          let lvl := Nat.min (nstored fnode) (nstored gnode) in
          match cof2 f fnode lvl, cof2 g gnode lvl with
          | Some (ft, fe), Some (gt', ge) =>
            join2 (par n) (apply_bin_c n s c op ft gt')
                  (fun s1 c1 => apply_bin_c n s1 c1 op fe ge)
                  (finish lvl (op_code o) [a; b])
          | _, _ => RStuck
          end
        | _, _ => RStuck
        end
      end
    end
  end.

(** [apply_ite] *)
Fixpoint apply_ite_c (fuel : nat) (s : snap) (c : C) (f g h : ref) : res C :=
  match fuel with
  | O => RStuck
  | S n =>
    if ref_eqb g h then ROk s c g
    else if ref_eqb f g then apply_bin_c fuel s c OOr f h
    else if ref_eqb f h then apply_bin_c fuel s c OAnd f g
    else
      match view s f with
      | None => RStuck
      | Some (VT b) => ROk s c (if b then g else h)
      | Some VI =>
        match view s g, view s h with
        | Some (VT true), Some VI => apply_bin_c fuel s c OOr f h
        | Some (VT false), Some VI => apply_bin_c fuel s c OImpStrict f h
        | Some VI, Some (VT true) => apply_bin_c fuel s c OImp f g
        | Some VI, Some (VT false) => apply_bin_c fuel s c OAnd f g
        | Some (VT false), Some (VT _) => apply_not_c fuel s c f
        | Some (VT true), Some (VT _) => ROk s c f
        | Some VI, Some VI =>
          match cget c code_ite [f; g; h] with
          | Some r => ROk s c r
          | None =>
            match inner s f, inner s g, inner s h with
            | Some fnode, Some gnode, Some hnode =>
              let lvl := Nat.min (Nat.min (nstored fnode) (nstored gnode)) (nstored hnode) in
              match cof2 f fnode lvl, cof2 g gnode lvl, cof2 h hnode lvl with
              | Some (ft, fe), Some (gt', ge), Some (ht, he) =>
                join2 (par n) (apply_ite_c n s c ft gt' ht)
                      (fun s1 c1 => apply_ite_c n s1 c1 fe ge he)
                      (finish lvl code_ite [f; g; h])
              | _, _, _ => RStuck
              end
            | _, _, _ => RStuck
            end
          end
        | _, _ => RStuck
        end
      end
  end.

End Bounded.

(** [var_edge] ([neg = false]) / [not_var_edge] ([neg = true]); the outer
    [None] = [unwrap] panics, the inner [None] = [Err(OutOfMemory)] *)
Definition mk_var_cap (cap : nat) (s : snap) (v : nat) (neg : bool)
  : option (option (snap * ref)) :=
  match nth_error (s_v2l s) v, term_of s true, term_of s false with
  | Some lvl, Some t1, Some t0 =>
    let ch := if neg then [E (RT t0); E (RT t1)] else [E (RT t1); E (RT t0)] in
    match get_or_insert_cap cap s lvl ch with
    | Some (s', e) => Some (Some (s', eref e))
    | None => Some None
    end
  | _, _, _ => None
  end.

(** ** The instances the correspondence run evaluates on snapshots of the
    real manager: no apply cache, sequential recursor, standard fuel.  (By
    C06 the stored nodes after an operation do not depend on the cache as
    long as no collection intervenes: what a cached entry short-cuts had been
    built before and is still stored.) *)

Definition seq_rec : nat -> bool := fun _ => false.
Definition par_rec : nat -> bool := fun _ => true.
Definition gt_none : ref -> ref -> bool := fun _ _ => false.

Definition not_nc (cap : nat) (p : bool) (s : snap) (f : ref) : res unit :=
  apply_not_c unit nc_get nc_add cap (fun _ => p) (S (nlevels s)) s tt f.
Definition bin_nc (cap : nat) (p : bool) (s : snap) (op : bop) (f g : ref) : res unit :=
  apply_bin_c gt_none unit nc_get nc_add cap (fun _ => p) (S (nlevels s)) s tt op f g.
Definition ite_nc (cap : nat) (p : bool) (s : snap) (f g h : ref) : res unit :=
  apply_ite_c gt_none unit nc_get nc_add cap (fun _ => p) (S (nlevels s)) s tt f g h.

(** outcome as the driver compares it: 0 = ok, 1 = out of memory, 2 = stuck;
    the number of stored nodes afterwards; the result edge *)
Definition res_code {C : Type} (r : res C) : nat :=
  match r with ROk _ _ _ => 0 | ROom _ _ => 1 | RStuck => 2 end.
Definition res_snap {C : Type} (r : res C) : option snap :=
  match r with ROk s _ _ => Some s | ROom s _ => Some s | RStuck => None end.
Definition res_ref {C : Type} (r : res C) : option ref :=
  match r with ROk _ _ r => Some r | _ => None end.
