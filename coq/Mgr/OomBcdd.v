(** * The complement-edge BDD apply algorithms on a node store of bounded capacity (C14y)

    Executable definitions only (proofs: Mgr/OomBcddProofs.v, Mgr/OomBcddSafe.v).
    The algorithms of DD/ApplyBcdd.v ([capply_not], [capply_bin], [capply_op],
    [capply_ite], [cmk_var]) once more, now in the error monad of the code
    ([AllocResult<Edge>], Mgr/OomGen.v), exactly as Mgr/Oom.v does for DD/Apply.v:

    - [cmk_node_cap] mirrors [reduce] of oxidd-rules-bdd/src/complement_edge/mod.rs
      with [LevelView::get_or_insert] = [get_or_insert_cap] of Mgr/Oom.v
      ([LevelViewSet::get_or_insert] + [Store::add_node] of
      oxidd-manager-index/src/manager.rs: a unique-table hit never fails, a NEW
      node fails with [OutOfMemory] iff [cap] nodes are stored); equal children:
      no allocation, cannot fail; the tag normalisation happens before the
      lookup, the returned tag is put on after the [?];
    - [cbin_step_c] / [capply_bin_c] mirror [apply_bin::<OP>] of
      complement_edge/apply_rec.rs: [rec.binary(apply_bin, (ft, gt), (fe, ge))?]
      ([gjoin2]: sequential recursor = return at the first failing [?]; parallel
      recursor = the sibling still runs and its edge is dropped), then
      [reduce(..)?], then the cache insertion ([gfin]);
    - [onot_c] = [Ok(not_owned(r?))]; [capply_op_c] = the eight operators of
      [BooleanFunction for BCDDFunction]; [capply_not_c] = [not_edge] (a tag flip:
      cannot fail);
    - [cite_step_c] / [capply_ite_c] mirror [apply_ite] with its nine terminal
      short-cuts ([rec.ternary(..)?], [reduce(..)?]);
    - [cmk_var_cap] = [var_edge] / default [not_var_edge].

    [par n] = the recursor in use at remaining depth [n] as in Mgr/Oom.v.
    Reference counts are not part of the model. *)

From Coq Require Import List NArith PArith Bool Arith FMapPositive.
From OxiVerif Require Import DD.Table DD.Sem DD.Build DD.Apply DD.ApplyBcdd Mgr.Oom.
From OxiVerif Require Import Mgr.OomGen.
Import ListNotations.

(** [reduce(manager, level, t, e, op)]; [None] = [Err(OutOfMemory)] *)
Definition cmk_node_cap (cap : nat) (s : snap) (lvl : nat) (t e : edge) : option (snap * edge) :=
  if edge_eqb t e then Some (s, t)
  else if etag t then
    match get_or_insert_cap cap s lvl [untag t; enot e] with
    | Some (s', r) => Some (s', mkEdge (eref r) true)
    | None => None
    end
  else
    match get_or_insert_cap cap s lvl [t; e] with
    | Some (s', r) => Some (s', mkEdge (eref r) false)
    | None => None
    end.

Section Bounded.
(** the (unobservable) edge order, the cache, as in DD/ApplyBcdd.v *)
Variable lt : edge -> edge -> bool.
Variable C : Type.
Variable cget : C -> N -> list edge -> option edge.
Variable cadd : C -> N -> list edge -> edge -> C.
(** capacity of the inner-node store *)
Variable cap : nat.
(** recursor in use at remaining depth [n] *)
Variable par : nat -> bool.

Definition cres_c : Type := gres C edge.

(** the part of [apply_bin] after the terminal cases and the operand ordering *)
Definition cbin_step_c (p : bool) (rec : snap -> C -> edge -> edge -> cres_c)
    (s : snap) (c : C) (op : cop) (f : edge) (fnode : node) (g : edge) (gnode : node) : cres_c :=
  match cget c (cop_code op) [f; g] with
  | Some h => GOk s c h
  | None =>
    let lvl := Nat.min (nstored fnode) (nstored gnode) in
    match ccof2 f fnode lvl, ccof2 g gnode lvl with
    | Some (ft, fe), Some (gt, ge) =>
      (* let (t, e) = rec.binary(apply_bin, manager, (ft, gt), (fe, ge))?;
         let h = reduce(manager, level, t, e, op)?; cache.add; Ok(h) *)
      gjoin2 p (rec s c ft gt) (fun s1 c1 => rec s1 c1 fe ge)
        (fun s2 c2 t e =>
           gfin s2 c2 (cmk_node_cap cap s2 lvl t e) (fun h => cadd c2 (cop_code op) [f; g] h) (fun h => h))
    | _, _ => GStuck
    end
  end.

(** [apply_bin::<OP>] *)
Fixpoint capply_bin_c (fuel : nat) (s : snap) (c : C) (op : cop) (f g : edge) : cres_c :=
  match fuel with
  | O => GStuck
  | S n =>
    match cterminal s op f g with
    | KFail => GStuck
    | KDone h => GOk s c h
    | KNodes fnode gnode =>
      if lt f g
      then cbin_step_c (par n) (fun s' c' f' g' => capply_bin_c n s' c' op f' g') s c op f fnode g gnode
      else cbin_step_c (par n) (fun s' c' f' g' => capply_bin_c n s' c' op f' g') s c op g gnode f fnode
    end
  end.

(** [Ok(not_owned(r?))] *)
Definition onot_c (r : cres_c) : cres_c := gbind r (fun s c e => GOk s c (enot e)).

(** [not_edge]: the tag flip allocates nothing *)
Definition capply_not_c (s : snap) (c : C) (f : edge) : cres_c := GOk s c (enot f).

(** the eight binary operators of [BooleanFunction for BCDDFunction] *)
Definition capply_op_c (fuel : nat) (s : snap) (c : C) (o : bop) (f g : edge) : cres_c :=
  match o with
  | OAnd => capply_bin_c fuel s c CAnd f g
  | OOr => onot_c (capply_bin_c fuel s c CAnd (enot f) (enot g))
  | ONand => onot_c (capply_bin_c fuel s c CAnd f g)
  | ONor => capply_bin_c fuel s c CAnd (enot f) (enot g)
  | OXor => capply_bin_c fuel s c CXor f g
  | OEquiv => onot_c (capply_bin_c fuel s c CXor f g)
  | OImp => onot_c (capply_bin_c fuel s c CAnd f (enot g))
  | OImpStrict => capply_bin_c fuel s c CAnd (enot f) g
  end.

(** the part of [apply_ite] after its terminal cases *)
Definition cite_step_c (p : bool) (rec : snap -> C -> edge -> edge -> edge -> cres_c)
    (s : snap) (c : C) (f : edge) (fnode : node) (g : edge) (gnode : node) (h : edge) (hnode : node)
  : cres_c :=
  match cget c ccode_ite [f; g; h] with
  | Some r => GOk s c r
  | None =>
    let lvl := Nat.min (Nat.min (nstored fnode) (nstored gnode)) (nstored hnode) in
    match ccof2 f fnode lvl, ccof2 g gnode lvl, ccof2 h hnode lvl with
    | Some (ft, fe), Some (gt, ge), Some (ht, he) =>
      (* let (t, e) = rec.ternary(apply_ite, manager, (ft, gt, ht), (fe, ge, he))?;
         let res = reduce(manager, level, t, e, BCDDOp::Ite)?; cache.add; Ok(res) *)
      gjoin2 p (rec s c ft gt ht) (fun s1 c1 => rec s1 c1 fe ge he)
        (fun s2 c2 t e =>
           gfin s2 c2 (cmk_node_cap cap s2 lvl t e) (fun r => cadd c2 ccode_ite [f; g; h] r) (fun r => r))
    | _, _, _ => GStuck
    end
  end.

(** [apply_ite] with its terminal cases, in the order of the code *)
Fixpoint capply_ite_c (fuel : nat) (s : snap) (c : C) (f g h : edge) : cres_c :=
  match fuel with
  | O => GStuck
  | S n =>
    if ref_eqb (eref g) (eref h) then
      if Bool.eqb (etag g) (etag h) then GOk s c g
      else onot_c (capply_bin_c fuel s c CXor f g)
    else if ref_eqb (eref f) (eref g) then
      if Bool.eqb (etag f) (etag g) then onot_c (capply_bin_c fuel s c CAnd (enot f) (enot h))
      else capply_bin_c fuel s c CAnd (enot f) h
    else if ref_eqb (eref f) (eref h) then
      if Bool.eqb (etag f) (etag h) then capply_bin_c fuel s c CAnd f g
      else onot_c (capply_bin_c fuel s c CAnd f (enot g))
    else
      match cnode s f with
      | None => GStuck
      | Some NVT => GOk s c (if etag f then h else g)
      | Some (NVI fnode) =>
        match cnode s g, cnode s h with
        | Some (NVI gnode), Some (NVI hnode) =>
          cite_step_c (par n) (fun s' c' f' g' h' => capply_ite_c n s' c' f' g' h') s c f fnode g gnode h hnode
        | Some NVT, Some (NVI _) =>
          if etag g then capply_bin_c fuel s c CAnd (enot f) h
          else onot_c (capply_bin_c fuel s c CAnd (enot f) (enot h))
        | Some _, Some NVT =>
          if etag h then capply_bin_c fuel s c CAnd f g
          else onot_c (capply_bin_c fuel s c CAnd f (enot g))
        | _, _ => GStuck
        end
      end
  end.

End Bounded.

(** [var_edge] ([neg = false]) / default [not_var_edge] ([neg = true]); the outer
    [None] = an [unwrap] panics, the inner [None] = [Err(OutOfMemory)] (the
    manager is untouched) *)
Definition cmk_var_cap (cap : nat) (s : snap) (v : nat) (neg : bool) : option (option (snap * edge)) :=
  match nth_error (s_v2l s) v, cget_terminal s true, cget_terminal s false with
  | Some lvl, Some t, Some e =>
    match get_or_insert_cap cap s lvl [t; e] with
    | Some (s', r) => Some (Some (s', mkEdge (eref r) neg))
    | None => Some None
    end
  | _, _, _ => None
  end.

(** ** The instances the correspondence run evaluates on snapshots of the real
    manager: no apply cache, standard fuel (as [not_nc] / [bin_nc] / [ite_nc] of
    Mgr/Oom.v) *)

Definition lt_none : edge -> edge -> bool := fun _ _ => false.

Definition cnot_nc (s : snap) (f : edge) : gres unit edge := capply_not_c unit s tt f.
Definition cop_nc (cap : nat) (p : bool) (s : snap) (o : bop) (f g : edge) : gres unit edge :=
  capply_op_c lt_none unit enc_get enc_add cap (fun _ => p) (S (nlevels s)) s tt o f g.
Definition cite_nc (cap : nat) (p : bool) (s : snap) (f g h : edge) : gres unit edge :=
  capply_ite_c lt_none unit enc_get enc_add cap (fun _ => p) (S (nlevels s)) s tt f g h.
