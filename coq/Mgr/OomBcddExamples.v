(** * The hypotheses of the C14 theorems for BCDDs are satisfiable and every outcome occurs

    A concrete complement-edge table ([exc3]: 3 levels, 6 nodes, 5 handles, exact
    reference counts; node 5 = x0 /\ x1 /\ x2, node 6 = if x0 then x1 else x1 /\ x2,
    handle 4 = its complement) satisfies [BcOK]; on it the bounded algorithms of
    Mgr/OomBcdd.v really return out-of-memory for small capacities - with a table
    that differs from the initial one (garbage left behind) - and the result for
    larger ones; negation (a tag flip) never fails; the two recursors differ in
    what they leave in the cache. *)

From Coq Require Import List NArith PArith Bool Arith Lia FMapPositive.
From OxiVerif Require Import DD.Table DD.TableProofs DD.Sem DD.Build DD.BuildProofs
  DD.Apply DD.ApplyBcdd DD.ApplyBcddProofs DD.ApplyBcddIte DD.ApplyBcddEval DD.ApplyBcddExamples Mgr.Oom.
From OxiVerif Require Import Mgr.OomGen Mgr.OomGenProofs Mgr.OomBcdd Mgr.OomBcddProofs Mgr.OomBcddSafe.
Import ListNotations.

Definition exc3 : snap :=
  mkSnap KBcdd
    (PositiveMap.add 6%positive (mkNode 0 [mkEdge (RN 2) false; mkEdge (RN 4) false] 0 1)
    (PositiveMap.add 5%positive (mkNode 0 [mkEdge (RN 4) false; tF] 0 1)
    (PositiveMap.add 4%positive (mkNode 1 [mkEdge (RN 1) false; tF] 1 2)
    (PositiveMap.add 3%positive (mkNode 0 [tT; tF] 0 1)
    (PositiveMap.add 2%positive (mkNode 1 [tT; tF] 1 2)
    (PositiveMap.add 1%positive (mkNode 2 [tT; tF] 2 2)
       (PositiveMap.empty node)))))))
    [(0%N, 1%N)]
    [0; 1; 2] [0; 1; 2]
    [(0%N, mkEdge (RN 5) false); (1%N, mkEdge (RN 3) false); (2%N, mkEdge (RN 2) false);
     (3%N, mkEdge (RN 1) false); (4%N, mkEdge (RN 6) true)].

Definition ce (i : positive) : edge := mkEdge (RN i) false.

Example exc3_ok : BcOK exc3 /\ rc_exact_b exc3 [] = true /\ node_count exc3 = 6.
Proof.
  split; [apply bcok_b_spec; vm_compute; reflexivity|]. split; vm_compute; reflexivity.
Qed.

Example exc3_cache_ok : CacheOKC eac_get exc3 [] /\ CacheOKC enc_get exc3 tt.
Proof. split; [apply eac_empty_ok | apply enc_ok]. Qed.

Example exc3_refs_ok : forall i, In i [1; 2; 3; 4; 5; 6]%positive -> ref_ok exc3 (eref (ce i)).
Proof.
  intros i Hi. simpl in Hi.
  repeat (destruct Hi as [<-|Hi]; [eexists; vm_compute; reflexivity|]). destruct Hi.
Qed.

(** outcome code (0 = result, 1 = out of memory, 2 = stuck), stored nodes afterwards, result *)
Definition cout {C} (r : gres C edge) := (gres_code r, option_map node_count (gres_snap r), gres_val r).

(** (x0 /\ x1 /\ x2) xor x1 needs two new nodes: with a full store it fails at
    once, with one free slot it fails after having created one node, with two
    it succeeds - under either recursor *)
Example exc3_xor : forall p,
  map (fun cap => cout (cop_nc cap p exc3 OXor (ce 5) (ce 2))) [0; 6; 7; 8; 9] =
  [(1, Some 6, None); (1, Some 6, None); (1, Some 7, None);
   (0, Some 8, Some (mkEdge (RN 8) true)); (0, Some 8, Some (mkEdge (RN 8) true))].
Proof. intros []; vm_compute; reflexivity. Qed.

(** if x1 then x0 /\ x1 /\ x2 else not x2: three new nodes *)
Example exc3_ite : forall p,
  map (fun cap => cout (cite_nc cap p exc3 (ce 2) (ce 5) (enot (ce 1)))) [0; 6; 7; 8; 9; 10] =
  [(1, Some 6, None); (1, Some 6, None); (1, Some 7, None); (1, Some 8, None);
   (0, Some 9, Some (mkEdge (RN 9) false)); (0, Some 9, Some (mkEdge (RN 9) false))].
Proof. intros []; vm_compute; reflexivity. Qed.

(** an operation whose result exists needs no slot: it succeeds with a full store;
    negation is a tag flip and never fails *)
Example exc3_no_alloc : forall p cap,
  cop_nc cap p exc3 ONand (ce 5) (ce 3) = GOk exc3 tt (mkEdge (RN 5) true) /\
  cnot_nc exc3 (ce 6) = GOk exc3 tt (mkEdge (RN 6) true).
Proof.
  intros p cap. split; [|reflexivity].
  unfold cop_nc. change (S (nlevels exc3)) with 4.
  (* the capacity is not consulted: no [get_or_insert] of a new node is reached *)
  assert (E0 : capply_op_c lt_none unit enc_get enc_add 0 (fun _ => p) 4 exc3 tt ONand (ce 5) (ce 3)
               = GOk exc3 tt (mkEdge (RN 5) true)) by (destruct p; vm_compute; reflexivity).
  apply (coom_monotone_op lt_none unit enc_get enc_add 0 cap (fun _ => p) (fun _ => p) ONand 4 exc3 tt
           (ce 5) (ce 3) exc3 tt _ (Nat.le_0_l cap) E0).
Qed.

(** the two nodes left behind by the failed ite with capacity 8 are not
    referenced by any handle and every old node is unchanged *)
Example exc3_ite_garbage :
  match cite_nc 8 false exc3 (ce 2) (ce 5) (enot (ce 1)) with
  | GOom s' _ =>
      s_handles s' = s_handles exc3 /\ bcok_b s' = true /\ node_count s' = 8 /\
      forallb (fun p => match find_node s' (fst p) with
                        | Some nd => same_node nd (snd p) | None => false end)
              (PositiveMap.elements (s_nodes exc3)) = true
  | _ => False
  end.
Proof. vm_compute. repeat split; reflexivity. Qed.

(** variable creation: the node of x2 exists (no slot needed, either polarity is
    a tag), a table without it fails when full *)
Example exc3_var :
  (match cmk_var_cap 0 exc3 2 true with Some (Some (s', r)) => Some (node_count s', r) | _ => None end)
    = Some (6, mkEdge (RN 1) true) /\
  cmk_var_cap 1 ex_bcdd 0 false = Some None /\
  (match cmk_var_cap 3 ex_bcdd 0 false with Some (Some (s', r)) => Some (node_count s', r) | _ => None end)
    = Some (3, mkEdge (RN 3) false).
Proof. vm_compute. repeat split; reflexivity. Qed.

(** the sequential recursor stops at the first failing branch, the parallel one
    still runs the sibling: (if x0 then x1 else x1 /\ x2) \/ x2 with a full store
    fails in the then-branch; the else-branch needs no node and, under the
    parallel recursor, leaves its entry in the cache of the failed run *)
Definition ccache_of (r : gres eacache edge) : option eacache :=
  match r with GOk _ c _ | GOom _ c => Some c | GStuck => None end.

Example exc3_recursors :
  let run p := capply_op_c lt_id eacache eac_get eac_add 6 (fun _ => p) 4 exc3 [] OOr (ce 6) (ce 1) in
  (gres_code (run false), ccache_of (run false)) = (1, Some []) /\
  (gres_code (run true), ccache_of (run true)) =
    (1, Some [(0%N, [mkEdge (RN 1) true; mkEdge (RN 4) true], mkEdge (RN 1) true)]).
Proof. vm_compute. split; reflexivity. Qed.

(** the instance of the theorems: whatever the capacity and the recursor, the run
    on [exc3] is exactly "result iff it fits" *)
Example exc3_exact : forall cap p,
  exists su cu ru, capply_op lt_none unit enc_get enc_add 4 exc3 tt OXor (ce 5) (ce 2) = Some (su, cu, ru) /\
    node_count su = 8 /\
    cexact unit enc_get cap exc3 (cop_nc cap p exc3 OXor (ce 5) (ce 2)) su cu ru.
Proof.
  intros cap p.
  destruct (coom_exact_op lt_none unit enc_get enc_add enc_lossy cap (fun _ => p) OXor 4 exc3 tt (ce 5) (ce 2))
    as [su [cu [ru [E [_ X]]]]].
  - apply exc3_ok.
  - apply enc_ok.
  - apply exc3_refs_ok. simpl. tauto.
  - apply exc3_refs_ok. simpl. tauto.
  - vm_compute. lia.
  - exists su, cu, ru. split; [exact E|]. split; [|exact X].
    vm_compute in E. inversion E; subst su. vm_compute. reflexivity.
Qed.

(** ... hence: out-of-memory exactly below 8 slots, with the manager intact *)
Example exc3_exact_consequence : forall cap p,
  (8 <= cap -> gres_code (cop_nc cap p exc3 OXor (ce 5) (ce 2)) = 0) /\
  (cap < 8 -> exists s' c', cop_nc cap p exc3 OXor (ce 5) (ce 2) = GOom s' c' /\
                cfailed_ok unit enc_get cap exc3 s' c').
Proof.
  intros cap p. destruct (exc3_exact cap p) as [su [cu [ru [_ [Hn [A B]]]]]].
  assert (Hc : node_count exc3 = 6) by (vm_compute; reflexivity). split.
  - intros Hcap. rewrite A by lia. reflexivity.
  - intros Hcap. apply B. lia.
Qed.
