(** * Out-of-memory behaviour of the BCDD apply algorithms (Mgr/OomBcdd.v), part 1

    Facts that need no invariant (every table, cache, fuel, capacity, recursor,
    operand order): [capply_*_sim] - when the bounded algorithm returns
    [GOk s' c' r] the unbounded algorithm of DD/ApplyBcdd.v returns literally
    [Some (s', c', r)] and at most [cap] nodes are stored unless nothing was
    inserted; when it returns [GOom s' c'] no node has disappeared and the store
    is full; when the unbounded algorithm returns a table that fits, the bounded
    one returns exactly that result.  The invariant-dependent part is in
    Mgr/OomBcddSafe.v. *)

From Coq Require Import List NArith PArith Bool Arith Lia FMapPositive.
From OxiVerif Require Import DD.Table DD.TableProofs DD.Sem DD.Build DD.BuildProofs
  DD.Apply DD.ApplyBcdd DD.ApplyBcddProofs DD.ApplyBcddIte Mgr.Oom Mgr.OomProofs.
From OxiVerif Require Import Mgr.OomGen Mgr.OomGenProofs Mgr.OomBcdd.
Import ListNotations.

(** the kinds with static terminals have no second resource *)
Definition no_m2 : snap -> nat := fun _ => 0.
Lemma no_m2_terms : forall s s' : snap, s_terms s' = s_terms s -> no_m2 s' = no_m2 s.
Proof. reflexivity. Qed.

Section Sim.
Variable lt : edge -> edge -> bool.
Variable C : Type.
Variable cget : C -> N -> list edge -> option edge.
Variable cadd : C -> N -> list edge -> edge -> C.
Variable cap : nat.
Variable par : nat -> bool.

Notation SIM := (sim C no_m2 cap 1).

Lemma cmk_node_leaf : forall s lvl t e,
  leaf_rel no_m2 cap 1 s (cmk_node_cap cap s lvl t e) (cmk_node s lvl t e).
Proof.
  intros s lvl t e. unfold cmk_node_cap, cmk_node.
  destruct (edge_eqb t e); [apply leaf_same|].
  destruct (etag t).
  - apply (leaf_map no_m2 cap 1 edge edge s _ _ (fun r => mkEdge (eref r) true)).
    apply goi_leaf. exact no_m2_terms.
  - apply (leaf_map no_m2 cap 1 edge edge s _ _ (fun r => mkEdge (eref r) false)).
    apply goi_leaf. exact no_m2_terms.
Qed.

(** ** Unfolding lemmas *)

Lemma cbin_step_U : forall rec s c op f fnode g gnode,
  cbin_step C cget cadd rec s c op f fnode g gnode =
  match cget c (cop_code op) [f; g] with
  | Some h => Some (s, c, h)
  | None =>
    let lvl := Nat.min (nstored fnode) (nstored gnode) in
    match ccof2 f fnode lvl, ccof2 g gnode lvl with
    | Some (ft, fe), Some (gt, ge) =>
      ujoin2 (rec s c ft gt) (fun s1 c1 => rec s1 c1 fe ge)
        (fun s2 c2 t e => ufin (cmk_node s2 lvl t e) (fun h => cadd c2 (cop_code op) [f; g] h) (fun h => h))
    | _, _ => None
    end
  end.
Proof. reflexivity. Qed.

Lemma cite_step_U : forall rec s c f fnode g gnode h hnode,
  cite_step C cget cadd rec s c f fnode g gnode h hnode =
  match cget c ccode_ite [f; g; h] with
  | Some r => Some (s, c, r)
  | None =>
    let lvl := Nat.min (Nat.min (nstored fnode) (nstored gnode)) (nstored hnode) in
    match ccof2 f fnode lvl, ccof2 g gnode lvl, ccof2 h hnode lvl with
    | Some (ft, fe), Some (gt, ge), Some (ht, he) =>
      ujoin2 (rec s c ft gt ht) (fun s1 c1 => rec s1 c1 fe ge he)
        (fun s2 c2 t e => ufin (cmk_node s2 lvl t e) (fun r => cadd c2 ccode_ite [f; g; h] r) (fun r => r))
    | _, _, _ => None
    end
  end.
Proof. reflexivity. Qed.

Lemma onot_U : forall r, onot C r = ubind r (fun s c e => Some (s, c, enot e)).
Proof. reflexivity. Qed.

Lemma capply_bin_c_S : forall n s c op f g,
  capply_bin_c lt C cget cadd cap par (S n) s c op f g =
  match cterminal s op f g with
  | KFail => GStuck
  | KDone h => GOk s c h
  | KNodes fnode gnode =>
    if lt f g
    then cbin_step_c C cget cadd cap (par n) (fun s' c' f' g' => capply_bin_c lt C cget cadd cap par n s' c' op f' g')
           s c op f fnode g gnode
    else cbin_step_c C cget cadd cap (par n) (fun s' c' f' g' => capply_bin_c lt C cget cadd cap par n s' c' op f' g')
           s c op g gnode f fnode
  end.
Proof. reflexivity. Qed.

Lemma capply_ite_c_S : forall n s c f g h,
  capply_ite_c lt C cget cadd cap par (S n) s c f g h =
    if ref_eqb (eref g) (eref h) then
      if Bool.eqb (etag g) (etag h) then GOk s c g
      else onot_c C (capply_bin_c lt C cget cadd cap par (S n) s c CXor f g)
    else if ref_eqb (eref f) (eref g) then
      if Bool.eqb (etag f) (etag g)
      then onot_c C (capply_bin_c lt C cget cadd cap par (S n) s c CAnd (enot f) (enot h))
      else capply_bin_c lt C cget cadd cap par (S n) s c CAnd (enot f) h
    else if ref_eqb (eref f) (eref h) then
      if Bool.eqb (etag f) (etag h) then capply_bin_c lt C cget cadd cap par (S n) s c CAnd f g
      else onot_c C (capply_bin_c lt C cget cadd cap par (S n) s c CAnd f (enot g))
    else
      match cnode s f with
      | None => GStuck
      | Some NVT => GOk s c (if etag f then h else g)
      | Some (NVI fnode) =>
        match cnode s g, cnode s h with
        | Some (NVI gnode), Some (NVI hnode) =>
          cite_step_c C cget cadd cap (par n)
            (fun s' c' f' g' h' => capply_ite_c lt C cget cadd cap par n s' c' f' g' h')
            s c f fnode g gnode h hnode
        | Some NVT, Some (NVI _) =>
          if etag g then capply_bin_c lt C cget cadd cap par (S n) s c CAnd (enot f) h
          else onot_c C (capply_bin_c lt C cget cadd cap par (S n) s c CAnd (enot f) (enot h))
        | Some _, Some NVT =>
          if etag h then capply_bin_c lt C cget cadd cap par (S n) s c CAnd f g
          else onot_c C (capply_bin_c lt C cget cadd cap par (S n) s c CAnd f (enot g))
        | _, _ => GStuck
        end
      end.
Proof. reflexivity. Qed.

(** ** The walks *)

Lemma cfin_sim : forall s2 c2 lvl t e (kc : edge -> C),
  SIM s2 (gfin s2 c2 (cmk_node_cap cap s2 lvl t e) kc (fun h => h))
         (ufin (cmk_node s2 lvl t e) kc (fun h => h)).
Proof. intros. apply gfin_sim. apply cmk_node_leaf. Qed.

Lemma cbin_step_sim : forall p (rec : snap -> C -> edge -> edge -> cres_c C) urec,
  (forall s c f g, SIM s (rec s c f g) (urec s c f g)) ->
  forall s c op f fnode g gnode,
    SIM s (cbin_step_c C cget cadd cap p rec s c op f fnode g gnode)
          (cbin_step C cget cadd urec s c op f fnode g gnode).
Proof.
  intros p rec urec IH s c op f fnode g gnode. rewrite cbin_step_U. unfold cbin_step_c.
  destruct (cget c (cop_code op) [f; g]); [apply sim_here|]. cbv zeta.
  destruct (ccof2 f fnode _) as [[ft fe]|]; [|apply sim_stuck].
  destruct (ccof2 g gnode _) as [[gt ge]|]; [|apply sim_stuck].
  apply gjoin2_sim; [apply IH | intros; apply IH | intros; apply cfin_sim].
Qed.

Theorem capply_bin_sim : forall fuel s c op f g,
  SIM s (capply_bin_c lt C cget cadd cap par fuel s c op f g) (capply_bin lt C cget cadd fuel s c op f g).
Proof.
  induction fuel as [|n IH]; intros s c op f g; [apply sim_stuck|].
  rewrite capply_bin_c_S, capply_bin_S.
  destruct (cterminal s op f g) as [h|fn gn|]; [apply sim_here | | apply sim_stuck].
  destruct (lt f g); apply cbin_step_sim; intros; apply IH.
Qed.

Lemma onot_sim : forall s r u, SIM s r u -> SIM s (onot_c C r) (onot C u).
Proof.
  intros s r u H. rewrite onot_U. unfold onot_c. apply gbind_sim; [exact H|].
  intros. apply sim_here.
Qed.

Theorem capply_not_sim : forall s c f, SIM s (capply_not_c C s c f) (capply_not C s c f).
Proof. intros. apply sim_here. Qed.

Theorem capply_op_sim : forall o fuel s c f g,
  SIM s (capply_op_c lt C cget cadd cap par fuel s c o f g) (capply_op lt C cget cadd fuel s c o f g).
Proof.
  intros o fuel s c f g. destruct o; unfold capply_op_c, capply_op;
    try apply onot_sim; apply capply_bin_sim.
Qed.

Lemma cite_step_sim : forall p (rec : snap -> C -> edge -> edge -> edge -> cres_c C) urec,
  (forall s c f g h, SIM s (rec s c f g h) (urec s c f g h)) ->
  forall s c f fnode g gnode h hnode,
    SIM s (cite_step_c C cget cadd cap p rec s c f fnode g gnode h hnode)
          (cite_step C cget cadd urec s c f fnode g gnode h hnode).
Proof.
  intros p rec urec IH s c f fnode g gnode h hnode. rewrite cite_step_U. unfold cite_step_c.
  destruct (cget c ccode_ite [f; g; h]); [apply sim_here|]. cbv zeta.
  destruct (ccof2 f fnode _) as [[ft fe]|]; [|apply sim_stuck].
  destruct (ccof2 g gnode _) as [[gt ge]|]; [|apply sim_stuck].
  destruct (ccof2 h hnode _) as [[ht he]|]; [|apply sim_stuck].
  apply gjoin2_sim; [apply IH | intros; apply IH | intros; apply cfin_sim].
Qed.

Theorem capply_ite_sim : forall fuel s c f g h,
  SIM s (capply_ite_c lt C cget cadd cap par fuel s c f g h) (capply_ite lt C cget cadd fuel s c f g h).
Proof.
  induction fuel as [|n IH]; intros s c f g h; [apply sim_stuck|].
  rewrite capply_ite_c_S, capply_ite_S.
  destruct (ref_eqb (eref g) (eref h)).
  { destruct (Bool.eqb (etag g) (etag h)); [apply sim_here | apply onot_sim, capply_bin_sim]. }
  destruct (ref_eqb (eref f) (eref g)).
  { destruct (Bool.eqb (etag f) (etag g)); [apply onot_sim, capply_bin_sim | apply capply_bin_sim]. }
  destruct (ref_eqb (eref f) (eref h)).
  { destruct (Bool.eqb (etag f) (etag h)); [apply capply_bin_sim | apply onot_sim, capply_bin_sim]. }
  destruct (cnode s f) as [[fnd|]|]; [| apply sim_here | apply sim_stuck].
  destruct (cnode s g) as [[gnd|]|]; destruct (cnode s h) as [[hnd|]|]; try apply sim_stuck.
  - apply cite_step_sim. intros; apply IH.
  - destruct (etag h); [apply capply_bin_sim | apply onot_sim, capply_bin_sim].
  - destruct (etag g); [apply capply_bin_sim | apply onot_sim, capply_bin_sim].
  - destruct (etag h); [apply capply_bin_sim | apply onot_sim, capply_bin_sim].
Qed.

End Sim.

(** ** Variable creation *)

Lemma cmk_var_cap_sim : forall cap s v neg,
  match cmk_var s v neg with
  | Some u =>
    exists o, cmk_var_cap cap s v neg = Some o /\ leaf_rel no_m2 cap 1 s o u
  | None => cmk_var_cap cap s v neg = None
  end.
Proof.
  intros cap s v neg. unfold cmk_var, cmk_var_cap.
  destruct (nth_error (s_v2l s) v) as [lvl|]; [|reflexivity].
  destruct (cget_terminal s true) as [t|]; [|reflexivity].
  destruct (cget_terminal s false) as [e|]; [|reflexivity].
  pose proof (goi_leaf no_m2 no_m2_terms cap 1 s lvl [t; e]) as L.
  pose proof (leaf_map no_m2 cap 1 edge edge s _ _ (fun r => mkEdge (eref r) neg) L) as L'.
  destruct (get_or_insert s lvl [t; e]) as [s' r] eqn:Eg.
  destruct (get_or_insert_cap cap s lvl [t; e]) as [[s2 r2]|]; eexists; split; try reflexivity; exact L'.
Qed.
