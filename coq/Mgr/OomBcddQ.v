(** * Quantification, apply-and-quantify, restriction and substitution of the
      complement-edge BDD rule set on a node store of bounded capacity (C14z)

    Executable definitions only (proofs: Mgr/OomBcddQProofs.v, OomBcddQSafe.v,
    OomBcddQThms.v).  The algorithms of DD/QuantBcdd.v once more, now in the error
    monad of the code ([AllocResult<Edge>], Mgr/OomGen.v), exactly as
    Mgr/OomBcdd.v does for DD/ApplyBcdd.v.  Mirrors
    oxidd-rules-bdd/src/complement_edge/apply_rec.rs:

    - [cprepare_fill_c] / [csubstitute_prepare_c] = [substitute_prepare]: the
      second loop calls [manager.level(level).get_or_insert(..)?] for every level
      without a replacement ([get_or_insert_cap] of Mgr/Oom.v); a failure in the
      middle leaves the variable nodes created so far ([GOom] carries that table);
    - [cquant_c] = [quant::<Q>]: [rec.binary(quant, (ft, vt), (fe, vt))?]
      ([gjoin2]), then either [apply_and(manager, rec, t, e)?] /
      [not_owned(apply_and(manager, rec, not t, not e)?)] / [apply_bin::<Xor>(..)?]
      ([ccombine_c]: the bounded [capply_bin_c] followed by [gbind]) or
      [reduce(..)?] ([gfin]); the cache insertion happens on the success path only;
    - [capply_quant_c] = [apply_quant::<Q, OP>]: terminal cases through
      [quant(manager, rec, h, vars)] (an inner call), [apply_bin::<OP>] /
      [not_owned(apply_and(..)?)] ([cplain_c]) when no variable is left,
      [rec.ternary(apply_quant, ..)?], then as [quant];
    - [capply_quant_dispatch_c], [capply_quant_unique_dispatch_c] =
      [apply_quant_dispatch::<Q, QN>], [apply_quant_unique_dispatch]
      ([let tmp = apply_quant(..)?; Ok(not_owned(tmp))] = [onot_c]);
    - [crestrict_c] = [restrict]: the tail-recursive [inner] allocates nothing
      ([crestrict_inner] of DD/QuantBcdd.v is reused), [rec.binary(restrict, ..)?],
      [reduce(..)?], cache insertion, result tag;
    - [csubstitute_c] = [substitute]: [rec.subst(substitute, ..)?], then
      [apply_ite(manager, rec, subst[level], t, e)?] (the bounded [capply_ite_c]),
      cache insertion;
    - the entry points [cquant_edge_c] ([forall_edge] / [exists_edge] /
      [unique_edge]), [capply_quant_edge_c] ([apply_forall_edge] /
      [apply_exists_edge] / [apply_unique_edge]), [crestrict_edge_c]
      ([restrict_edge]), [csubstitute_edge_c] ([substitute_edge]:
      [let subst = substitute_prepare(..)?; substitute(..)]).

    [par n] = the recursor used by the algorithm's own recursion at remaining
    depth [n]; [pin n] = the recursor handed to every inner call ([apply_bin],
    [apply_ite], [quant] inside [apply_quant]; the code passes its own [rec],
    whose remaining depth the model does not track: every theorem holds for all
    [par] and [pin]).  Reference counts are not part of the model. *)

From Coq Require Import List NArith PArith Bool Arith FMapPositive.
From OxiVerif Require Import DD.Table DD.Sem DD.Build DD.Apply DD.ApplyBcdd DD.Quant DD.QuantBcdd Mgr.Oom.
From OxiVerif Require Import Mgr.OomGen Mgr.OomBcdd.
Import ListNotations.

Section Bounded.
Variable lt : edge -> edge -> bool.
Variable C : Type.
Variable cget : C -> N -> list edge -> option edge.
Variable cadd : C -> N -> list edge -> edge -> C.
(** capacity of the inner-node store *)
Variable cap : nat.

(** ** [substitute_prepare] *)

(** the second loop of [substitute_prepare]; the cache [c] is not touched *)
Fixpoint cprepare_fill_c (s : snap) (c : C) (slots : list (option edge)) (level : nat)
  : gres C (list edge) :=
  match slots with
  | [] => GOk s c []
  | Some e :: rest =>
    gbind (cprepare_fill_c s c rest (S level)) (fun s' c' l => GOk s' c' (e :: l))
  | None :: rest =>
    match cget_terminal s true, cget_terminal s false with
    | Some t1, Some t0 =>
      (* manager.level(level).get_or_insert(InnerNode::new(level, [t, e]))? *)
      gbind (gfin s c (get_or_insert_cap cap s level [t1; t0]) (fun _ => c) (fun e => e))
        (fun s1 c1 e =>
           gbind (cprepare_fill_c s1 c1 rest (S level)) (fun s' c' l => GOk s' c' (e :: l)))
    | _, _ => GStuck
    end
  end.

Definition csubstitute_prepare_c (s : snap) (c : C) (pairs : list (nat * edge)) : gres C (list edge) :=
  match cprepare_slots s pairs [] with
  | Some slots => cprepare_fill_c s c slots 0
  | None => GStuck
  end.

Section Inner.
(** the recursor handed to the inner calls *)
Variable pin : nat -> bool.

(** [apply_and(manager, rec, t, e)?] / [not_owned(apply_and(manager, rec, not t, not e)?)] /
    [apply_bin::<Xor>(manager, rec, t, e)?] *)
Definition ccombine_c (s : snap) (c : C) (q : quantifier) (t e : edge) : cres_c C :=
  match q with
  | QForall => capply_bin_c lt C cget cadd cap pin (S (nlevels s)) s c CAnd t e
  | QExists => onot_c C (capply_bin_c lt C cget cadd cap pin (S (nlevels s)) s c CAnd (enot t) (enot e))
  | QUnique => capply_bin_c lt C cget cadd cap pin (S (nlevels s)) s c CXor t e
  end.

(** [Ok(get_terminal(manager, false))] *)
Definition cfalse_c (s : snap) (c : C) : cres_c C :=
  match cget_terminal s false with Some e => GOk s c e | None => GStuck end.

(** [apply_bin::<OP>(manager, rec, f, g)] / [Ok(not_owned(apply_and(manager, rec, f, g)?))] *)
Definition cplain_c (s : snap) (c : C) (o : aqop) (f g : edge) : cres_c C :=
  match o with
  | AQAnd => capply_bin_c lt C cget cadd cap pin (S (nlevels s)) s c CAnd f g
  | AQXor => capply_bin_c lt C cget cadd cap pin (S (nlevels s)) s c CXor f g
  | AQNand => onot_c C (capply_bin_c lt C cget cadd cap pin (S (nlevels s)) s c CAnd f g)
  end.

(** what [quant] and [apply_quant] do with the two cofactor results *)
Definition cqfin_c (s2 : snap) (c2 : C) (q : quantifier) (same : bool) (lvl : nat) (code : N) (key : list edge)
    (t e : edge) : cres_c C :=
  if same then
    (* let res = <combination>?; cache.add; Ok(res) *)
    gbind (ccombine_c s2 c2 q t e) (fun s3 c3 res => GOk s3 (cadd c3 code key res) res)
  else
    (* let res = reduce(manager, level, t, e, operator)?; cache.add; Ok(res) *)
    gfin s2 c2 (cmk_node_cap cap s2 lvl t e) (fun h => cadd c2 code key h) (fun h => h).

Section Own.
(** the recursor of the algorithm's own recursion *)
Variable par : nat -> bool.

(** ** [quant::<Q>] *)
Fixpoint cquant_c (fuel : nat) (s : snap) (c : C) (q : quantifier) (f vars : edge) : cres_c C :=
  match fuel with
  | O => GStuck
  | S n =>
    match eref f with
    | RT _ =>
      if negb (is_unique q) || is_term vars then GOk s c f else cfalse_c s c
    | RN fid =>
      match find_node s fid with
      | None => GStuck
      | Some fnode =>
        let flevel := nstored fnode in
        match (if is_unique q then Some vars else cset_pop (S (nlevels s)) s vars flevel) with
        | None => GStuck
        | Some vars' =>
          match eref vars' with
          | RT _ => GOk s c f
          | RN vid =>
            match find_node s vid with
            | None => GStuck
            | Some vnode =>
              let vlevel := nstored vnode in
              if is_unique q && Nat.ltb vlevel flevel then cfalse_c s c
              else
                match cget c (cqcode q) [f; vars'] with
                | Some h => GOk s c h
                | None =>
                  match ccofs (etag f) fnode,
                        (if Nat.eqb vlevel flevel
                         then match nchildren vnode with [vt; _] => Some vt | _ => None end
                         else Some vars') with
                  | Some (ft, fe), Some vt =>
                    (* let (t, e) = rec.binary(quant::<M, R, Q>, manager, (ft, vt), (fe, vt))?; *)
                    gjoin2 (par n) (cquant_c n s c q ft vt) (fun s1 c1 => cquant_c n s1 c1 q fe vt)
                      (fun s2 c2 t e =>
                         cqfin_c s2 c2 q (Nat.eqb flevel vlevel) flevel (cqcode q) [f; vars'] t e)
                  | _, _ => GStuck
                  end
                end
            end
          end
        end
      end
    end
  end.

(** ** [restrict] *)
Fixpoint crestrict_c (fuel : nat) (s : snap) (c : C) (f vars : edge) : cres_c C :=
  match fuel with
  | O => GStuck
  | S n =>
    match eref f, eref vars with
    | RN fid, RN vid =>
      match find_node s fid, find_node s vid with
      | Some fnode, Some vnode =>
        match crestrict_inner (S (nlevels s + nlevels s)) s f (etag f) fnode (nstored fnode)
                              vars (etag vars) vnode with
        | None => GStuck
        | Some (CRDone r) => GOk s c r
        | Some (CRRec vars' f' f_neg fnode') =>
          let f_untagged := untag f' in
          match cget c ccode_restrict [f_untagged; vars'] with
          | Some r => GOk s c (retag f_neg r)
          | None =>
            match nchildren fnode' with
            | [ft; fe] =>
              (* let (t, e) = rec.binary(restrict, manager, (child(0), vars), (child(1), vars))?;
                 let result = reduce(manager, fnode.level(), t, e, BCDDOp::Restrict)?;
                 cache.add; Ok(result.with_tag_owned(result_tag ^ f_tag)) *)
              gjoin2 (par n) (crestrict_c n s c ft vars') (fun s1 c1 => crestrict_c n s1 c1 fe vars')
                (fun s2 c2 t e =>
                   gfin s2 c2 (cmk_node_cap cap s2 (nstored fnode') t e)
                     (fun h => cadd c2 ccode_restrict [f_untagged; vars'] h) (fun h => retag f_neg h))
            | _ => GStuck
            end
          end
        end
      | _, _ => GStuck
      end
    | _, _ => GOk s c f
    end
  end.

(** ** [substitute] *)
Fixpoint csubstitute_c (fuel : nat) (s : snap) (c : C) (f : edge) (subst : list edge) (id : N) : cres_c C :=
  match fuel with
  | O => GStuck
  | S n =>
    match eref f with
    | RT _ => GOk s c f
    | RN fid =>
      match find_node s fid with
      | None => GStuck
      | Some fnode =>
        let level := nstored fnode in
        if Nat.leb (length subst) level then GOk s c f
        else
          match cget c (ccode_subst id) [f] with
          | Some h => GOk s c h
          | None =>
            match ccofs (etag f) fnode with
            | Some (ft, fe) =>
              (* let (t, e) = rec.subst(substitute, manager, (t, subst, id), (e, subst, id))?;
                 let res = apply_ite(manager, rec, subst[level], t, e)?; cache.add; Ok(res) *)
              gjoin2 (par n) (csubstitute_c n s c ft subst id) (fun s1 c1 => csubstitute_c n s1 c1 fe subst id)
                (fun s2 c2 t e =>
                   match nth_error subst level with
                   | None => GStuck
                   | Some r =>
                     gbind (capply_ite_c lt C cget cadd cap pin (S (nlevels s2)) s2 c2 r t e)
                       (fun s3 c3 res => GOk s3 (cadd c3 (ccode_subst id) [f] res) res)
                   end)
            | None => GStuck
            end
          end
      end
    end
  end.

End Own.

Section Own2.
Variable par : nat -> bool.

(** ** [apply_quant::<Q, OP>] *)

(** the part after the terminal cases and the operand ordering *)
Definition caq_body_c (p : bool) (rec : snap -> C -> edge -> edge -> edge -> cres_c C)
           (s : snap) (c : C) (q : quantifier) (o : aqop) (operator : N)
           (f : edge) (fnode : node) (g : edge) (gnode : node) (vars : edge) : cres_c C :=
  let flevel := nstored fnode in
  let glevel := nstored gnode in
  let min_level := Nat.min flevel glevel in
  match (if is_unique q then Some vars else cset_pop (S (nlevels s)) s vars min_level) with
  | None => GStuck
  | Some vars' =>
    match eref vars' with
    | RT _ => cplain_c s c o f g
    | RN vid =>
      match find_node s vid with
      | None => GStuck
      | Some vnode =>
        let vlevel := nstored vnode in
        if Nat.ltb vlevel min_level && is_unique q then cfalse_c s c
        else if Nat.ltb vlevel min_level then cplain_c s c o f g
        else
          match cget c operator [f; g; vars'] with
          | Some h => GOk s c h
          | None =>
            match (if Nat.eqb vlevel min_level
                   then match nchildren vnode with [vt; _] => Some vt | _ => None end
                   else Some vars'),
                  (if Nat.leb flevel glevel then ccofs (etag f) fnode else Some (f, f)),
                  (if Nat.leb glevel flevel then ccofs (etag g) gnode else Some (g, g)) with
            | Some vt, Some (ft, fe), Some (gt', ge) =>
              (* let (t, e) = rec.ternary(apply_quant::<M, R, Q, OP>, manager, (ft, gt, vt), (fe, ge, vt))?; *)
              gjoin2 p (rec s c ft gt' vt) (fun s1 c1 => rec s1 c1 fe ge vt)
                (fun s2 c2 t e =>
                   cqfin_c s2 c2 q (Nat.eqb min_level vlevel) min_level operator [f; g; vars'] t e)
            | _, _, _ => GStuck
            end
          end
      end
    end
  end.

Fixpoint capply_quant_c (fuel : nat) (s : snap) (c : C) (q : quantifier) (o : aqop) (f g vars : edge)
  : cres_c C :=
  match fuel with
  | O => GStuck
  | S n =>
    match caqcode q o with
    | None => GStuck
    | Some operator =>
      match (match o with AQXor => cterminal_xor s f g | _ => cterminal_and s f g end) with
      | KFail => GStuck
      | KDone h =>
        (* return quant::<M, R, Q>(manager, rec, h / not(&h), vars) *)
        cquant_c pin (S (nlevels s)) s c q (match o with AQNand => enot h | _ => h end) vars
      | KNodes fnode0 gnode0 =>
        if lt f g
        then caq_body_c (par n) (fun s0 c0 a b v => capply_quant_c n s0 c0 q o a b v)
                        s c q o operator f fnode0 g gnode0 vars
        else caq_body_c (par n) (fun s0 c0 a b v => capply_quant_c n s0 c0 q o a b v)
                        s c q o operator g gnode0 f fnode0 vars
      end
    end
  end.

Definition aq_c (s : snap) (c : C) (q : quantifier) (o : aqop) (f g vars : edge) : cres_c C :=
  capply_quant_c (S (nlevels s)) s c q o f g vars.

(** [apply_quant_dispatch::<Q, QN>] *)
Definition capply_quant_dispatch_c (s : snap) (c : C) (q qn : quantifier) (op : bop) (f g vars : edge)
  : cres_c C :=
  match op with
  | OAnd => aq_c s c q AQAnd f g vars
  | OOr => onot_c C (aq_c s c qn AQAnd (enot f) (enot g) vars)
  | OXor => aq_c s c q AQXor f g vars
  | OEquiv => onot_c C (aq_c s c qn AQXor f g vars)
  | ONand => onot_c C (aq_c s c qn AQAnd f g vars)
  | ONor => aq_c s c q AQAnd (enot f) (enot g) vars
  | OImp => onot_c C (aq_c s c qn AQAnd f (enot g) vars)
  | OImpStrict => aq_c s c q AQAnd (enot f) g vars
  end.

(** [apply_quant_unique_dispatch] *)
Definition capply_quant_unique_dispatch_c (s : snap) (c : C) (op : bop) (f g vars : edge) : cres_c C :=
  match op with
  | OAnd => aq_c s c QUnique AQAnd f g vars
  | OOr => aq_c s c QUnique AQNand (enot f) (enot g) vars
  | OXor => aq_c s c QUnique AQXor f g vars
  | OEquiv => aq_c s c QUnique AQXor (enot f) g vars
  | ONand => aq_c s c QUnique AQNand f g vars
  | ONor => aq_c s c QUnique AQAnd (enot f) (enot g) vars
  | OImp => aq_c s c QUnique AQNand f (enot g) vars
  | OImpStrict => aq_c s c QUnique AQAnd (enot f) g vars
  end.

(** ** Entry points *)

(** [forall_edge] / [exists_edge] / [unique_edge] *)
Definition cquant_edge_c (s : snap) (c : C) (q : quantifier) (root vars : edge) : cres_c C :=
  cquant_c par (S (nlevels s)) s c q root vars.

(** [apply_forall_edge] / [apply_exists_edge] / [apply_unique_edge] *)
Definition capply_quant_edge_c (s : snap) (c : C) (q : quantifier) (op : bop) (lhs rhs vars : edge)
  : cres_c C :=
  match q with
  | QForall => capply_quant_dispatch_c s c QForall QExists op lhs rhs vars
  | QExists => capply_quant_dispatch_c s c QExists QForall op lhs rhs vars
  | QUnique => capply_quant_unique_dispatch_c s c op lhs rhs vars
  end.

(** [restrict_edge] *)
Definition crestrict_edge_c (s : snap) (c : C) (root vars : edge) : cres_c C :=
  crestrict_c par (S (nlevels s)) s c root vars.

(** [substitute_edge]: [let subst = substitute_prepare(manager, pairs)?;
    substitute(manager, rec, edge, &subst, id)] *)
Definition csubstitute_edge_c (s : snap) (c : C) (f : edge) (pairs : list (nat * edge)) (id : N) : cres_c C :=
  gbind (csubstitute_prepare_c s c pairs)
    (fun s0 c0 subst => csubstitute_c par (S (nlevels s0)) s0 c0 f subst id).

End Own2.
End Inner.
End Bounded.

(** ** One call type for the four families *)

Inductive cqcall :=
| CQQuant (q : quantifier) (f vars : edge)
| CQApplyQuant (q : quantifier) (op : bop) (f g vars : edge)
| CQRestrict (f vars : edge)
| CQSubst (f : edge) (pairs : list (nat * edge)) (id : N).

(** the bounded entry point of call [k] *)
Definition cqrun_c (lt : edge -> edge -> bool) (C : Type) (cget : C -> N -> list edge -> option edge)
    (cadd : C -> N -> list edge -> edge -> C) (cap : nat) (par pin : nat -> bool)
    (s : snap) (c : C) (k : cqcall) : gres C edge :=
  match k with
  | CQQuant q f vars => cquant_edge_c lt C cget cadd cap pin par s c q f vars
  | CQApplyQuant q op f g vars => capply_quant_edge_c lt C cget cadd cap pin par s c q op f g vars
  | CQRestrict f vars => crestrict_edge_c C cget cadd cap par s c f vars
  | CQSubst f pairs id => csubstitute_edge_c lt C cget cadd cap pin par s c f pairs id
  end.

(** the unbounded entry point (DD/QuantBcdd.v) of call [k] *)
Definition cqrun_u (lt : edge -> edge -> bool) (C : Type) (cget : C -> N -> list edge -> option edge)
    (cadd : C -> N -> list edge -> edge -> C) (s : snap) (c : C) (k : cqcall) : option (snap * C * edge) :=
  match k with
  | CQQuant q f vars => cquant_edge lt C cget cadd s c q f vars
  | CQApplyQuant q op f g vars => capply_quant_edge lt C cget cadd s c q op f g vars
  | CQRestrict f vars => crestrict_edge C cget cadd s c f vars
  | CQSubst f pairs id => csubstitute_edge lt C cget cadd s c f pairs id
  end.

(** ** The instances the correspondence run evaluates on snapshots of the real
    manager: no apply cache, one recursor for everything (as [cop_nc] of
    Mgr/OomBcdd.v) *)

Definition cq_run_nc (cap : nat) (p : bool) (s : snap) (k : cqcall) : gres unit edge :=
  cqrun_c lt_none unit enc_get enc_add cap (fun _ => p) (fun _ => p) s tt k.

(** [forall_edge] / [exists_edge] / [unique_edge] *)
Definition cq_quant_nc (cap : nat) (p : bool) (s : snap) (q : quantifier) (f vars : edge) : gres unit edge :=
  cq_run_nc cap p s (CQQuant q f vars).
(** [apply_forall_edge] / [apply_exists_edge] / [apply_unique_edge] *)
Definition cq_aquant_nc (cap : nat) (p : bool) (s : snap) (q : quantifier) (op : bop) (f g vars : edge)
  : gres unit edge := cq_run_nc cap p s (CQApplyQuant q op f g vars).
(** [restrict_edge] *)
Definition cq_restrict_nc (cap : nat) (p : bool) (s : snap) (f vars : edge) : gres unit edge :=
  cq_run_nc cap p s (CQRestrict f vars).
(** [substitute_edge] including [substitute_prepare] *)
Definition cq_subst_nc (cap : nat) (p : bool) (s : snap) (f : edge) (pairs : list (nat * edge)) (id : N)
  : gres unit edge := cq_run_nc cap p s (CQSubst f pairs id).

(** ** The hypothesis of the theorems about call [k] ([cqcall_ok] of
    Mgr/OomBcddQSafe.v) as a checker the correspondence run evaluates on every
    snapshot: operands are stored nodes / the terminal; for [substitute]: distinct
    existing variables, valid replacement edges *)

Fixpoint nat_nodup_b (l : list nat) : bool :=
  match l with
  | [] => true
  | x :: r => negb (existsb (Nat.eqb x) r) && nat_nodup_b r
  end.

Definition cqcall_ok_b (s : snap) (k : cqcall) : bool :=
  match k with
  | CQQuant _ f vars => ref_ok_b s (eref f) && ref_ok_b s (eref vars)
  | CQApplyQuant _ _ f g vars => ref_ok_b s (eref f) && ref_ok_b s (eref g) && ref_ok_b s (eref vars)
  | CQRestrict f vars => ref_ok_b s (eref f) && ref_ok_b s (eref vars)
  | CQSubst f pairs _ =>
    ref_ok_b s (eref f) && nat_nodup_b (map fst pairs) &&
    forallb (fun p : nat * edge => Nat.ltb (fst p) (nlevels s) && ref_ok_b s (eref (snd p))) pairs
  end.
