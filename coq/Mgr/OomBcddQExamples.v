(** * The hypotheses of the C14 theorems for the BCDD quantification / restriction /
      substitution family are satisfiable and every outcome occurs

    A concrete complement-edge table ([exq]: 4 levels, 11 nodes, 8 handles, exact
    reference counts; node 5 = x0 /\ x1, node 6 = x2 /\ x3, the complement of
    node 8 = [exf] = (x0 /\ x1) xor (x2 /\ x3), node 10 = (x0 /\ x1) \/ x2,
    node 11 = x1 /\ x2 = the variable set {x1, x2}) satisfies [BcOK]; on it the
    bounded algorithms of Mgr/OomBcddQ.v really return out-of-memory for small
    capacities - at once when the store is full, after having created nodes
    (garbage left behind, table still [BcOK], old nodes unchanged) with one slot
    too few - and the result for larger ones, under either recursor; and the
    exactness theorem [cq_exact] instantiated for ALL capacities. *)

From Coq Require Import List NArith PArith Bool Arith Lia FMapPositive.
From OxiVerif Require Import DD.Table DD.TableProofs DD.Sem DD.Build DD.BuildProofs
  DD.Apply DD.ApplyBcdd DD.ApplyBcddProofs DD.ApplyBcddIte DD.ApplyBcddEval DD.ApplyBcddExamples
  DD.Quant DD.QuantSpecProofs DD.QuantBcdd DD.QuantBcddLemmas DD.SubstBcddProofs DD.QuantBcddTop Mgr.Oom.
From OxiVerif Require Import Mgr.OomGen Mgr.OomGenProofs Mgr.OomBcdd Mgr.OomBcddProofs Mgr.OomBcddSafe
  Mgr.OomBcddExamples Mgr.OomBcddQ Mgr.OomBcddQProofs Mgr.OomBcddQSafe Mgr.OomBcddQThms.
Import ListNotations.

Definition exq : snap :=
  mkSnap KBcdd
    (PositiveMap.add 11%positive (mkNode 1 [ce 2; tF] 1 1)
    (PositiveMap.add 10%positive (mkNode 0 [ce 9; ce 2] 0 1)
    (PositiveMap.add 9%positive (mkNode 1 [tT; ce 2] 1 1)
    (PositiveMap.add 8%positive (mkNode 0 [ce 7; enot (ce 6)] 0 1)
    (PositiveMap.add 7%positive (mkNode 1 [ce 6; enot (ce 6)] 1 1)
    (PositiveMap.add 6%positive (mkNode 2 [ce 1; tF] 2 3)
    (PositiveMap.add 5%positive (mkNode 0 [ce 3; tF] 0 1)
    (PositiveMap.add 4%positive (mkNode 0 [tT; tF] 0 1)
    (PositiveMap.add 3%positive (mkNode 1 [tT; tF] 1 2)
    (PositiveMap.add 2%positive (mkNode 2 [tT; tF] 2 4)
    (PositiveMap.add 1%positive (mkNode 3 [tT; tF] 3 2)
       (PositiveMap.empty node))))))))))))
    [(0%N, 1%N)]
    [0; 1; 2; 3] [0; 1; 2; 3]
    [(0%N, ce 4); (1%N, ce 3); (2%N, ce 2); (3%N, ce 1); (4%N, enot (ce 8)); (5%N, ce 10);
     (6%N, ce 11); (7%N, ce 5)].

(** (x0 /\ x1) xor (x2 /\ x3) *)
Definition exf : edge := enot (ce 8).

Example exq_ok : BcOK exq /\ rc_exact_b exq [] = true /\ node_count exq = 11.
Proof.
  split; [apply bcok_b_spec; vm_compute; reflexivity|]. split; vm_compute; reflexivity.
Qed.

Example exq_refs_ok : forall i, In i [1; 2; 3; 4; 5; 6; 7; 8; 9; 10; 11]%positive -> ref_ok exq (eref (ce i)).
Proof.
  intros i Hi. simpl in Hi.
  repeat (destruct Hi as [<-|Hi]; [eexists; vm_compute; reflexivity|]). destruct Hi.
Qed.

(** the substitution x2 := x0, registered under id 0 *)
Definition exq_pairs : list (nat * edge) := [(2, ce 4)].
Definition exq_Sg : N -> option (list (nat * edge)) := csg_add (fun _ => None) 0%N exq_pairs.

(** the four example calls: exists x2. f;  exists x2. f /\ x1;  f restricted to x2 = 1;  f[x2 := x0] *)
Definition exq_calls : list cqcall :=
  [CQQuant QExists exf (ce 2); CQApplyQuant QExists OAnd exf (ce 3) (ce 2); CQRestrict exf (ce 2);
   CQSubst exf exq_pairs 0%N].

(** the hypotheses of the theorems hold for them *)
Example exq_hyps :
  lossyC enc_get enc_add /\ QInv unit enc_get exq_Sg exq tt /\
  forall k, In k exq_calls -> cqcall_ok exq_Sg exq k.
Proof.
  split; [exact enc_lossy|]. split; [split; [apply exq_ok | apply qcacheokc_enc]|].
  assert (R8 : ref_ok exq (eref exf)) by (apply (exq_refs_ok 8%positive); simpl; tauto).
  assert (R2 : ref_ok exq (eref (ce 2))) by (apply exq_refs_ok; simpl; tauto).
  assert (R3 : ref_ok exq (eref (ce 3))) by (apply exq_refs_ok; simpl; tauto).
  intros k Hk. simpl in Hk. destruct Hk as [<-|[<-|[<-|[<-|[]]]]]; simpl; auto.
  split; [exact R8|]. split; [repeat constructor; intros []|]. split; [|reflexivity].
  intros v r [E|[]]. inversion E; subst. split; [vm_compute; lia | apply exq_refs_ok; simpl; tauto].
Qed.

(** ... and so do the premises of their semantic statements: node 2 is the
    variable set {x2} and the cube "x2 = 1" *)
Example exq_varset : is_varsetC exq (ce 2) [2] /\ is_cubeC exq (ce 2) [(2, true)].
Proof. split; intros a; cbv; destruct (a 2); reflexivity. Qed.

(** exists x2. f needs two new nodes: with a full store it fails at once, with
    one free slot it fails after having created one node, with two it succeeds -
    under either recursor *)
Example exq_exists : forall p,
  map (fun cap => cout (cq_quant_nc cap p exq QExists exf (ce 2))) [0; 11; 12; 13; 14] =
  [(1, Some 11, None); (1, Some 11, None); (1, Some 12, None);
   (0, Some 13, Some (ce 13)); (0, Some 13, Some (ce 13))].
Proof. intros []; vm_compute; reflexivity. Qed.

(** f with x2 := 1: two new nodes *)
Example exq_restrict : forall p,
  map (fun cap => cout (cq_restrict_nc cap p exq exf (ce 2))) [0; 11; 12; 13; 14] =
  [(1, Some 11, None); (1, Some 11, None); (1, Some 12, None);
   (0, Some 13, Some (enot (ce 13))); (0, Some 13, Some (enot (ce 13)))].
Proof. intros []; vm_compute; reflexivity. Qed.

(** exists x2. f /\ x1 (the relational-product shape): two new nodes; a cube
    with a negative literal of a variable [f] is restricted away needs none *)
Example exq_apply_exists : forall p,
  map (fun cap => cout (cq_aquant_nc cap p exq QExists OAnd exf (ce 3) (ce 2))) [0; 11; 12; 13; 14] =
  [(1, Some 11, None); (1, Some 11, None); (1, Some 12, None);
   (0, Some 13, Some (ce 13)); (0, Some 13, Some (ce 13))].
Proof. intros []; vm_compute; reflexivity. Qed.

(** f[x2 := x0]: four new nodes, failing after 0, 1, 2, 3 insertions *)
Example exq_subst : forall p,
  map (fun cap => cout (cq_subst_nc cap p exq exf exq_pairs 0%N)) [0; 11; 12; 13; 14; 15; 16] =
  [(1, Some 11, None); (1, Some 11, None); (1, Some 12, None); (1, Some 13, None); (1, Some 14, None);
   (0, Some 15, Some (enot (ce 15))); (0, Some 15, Some (enot (ce 15)))].
Proof. intros []; vm_compute; reflexivity. Qed.

(** an operation whose result exists needs no slot: it succeeds with a full store *)
Example exq_no_alloc : forall p,
  cq_restrict_nc 0 p exq exf (enot (ce 2)) = GOk exq tt (ce 5) /\
  cq_aquant_nc 0 p exq QForall OOr exf (ce 3) (ce 2) = GOk exq tt (ce 3).
Proof. intros []; vm_compute; split; reflexivity. Qed.

(** the node left behind by the failed runs with capacity 12 is not referenced by
    any handle, every old node is unchanged and the table is still a BCDD table *)
Definition garbage_ok (r : gres unit edge) (n : nat) : Prop :=
  match r with
  | GOom s' _ =>
      s_handles s' = s_handles exq /\ bcok_b s' = true /\ node_count s' = n /\
      forallb (fun p => match find_node s' (fst p) with
                        | Some nd => same_node nd (snd p) | None => false end)
              (PositiveMap.elements (s_nodes exq)) = true
  | _ => False
  end.

Example exq_garbage :
  garbage_ok (cq_quant_nc 12 false exq QExists exf (ce 2)) 12 /\
  garbage_ok (cq_restrict_nc 12 false exq exf (ce 2)) 12 /\
  garbage_ok (cq_aquant_nc 12 true exq QExists OAnd exf (ce 3) (ce 2)) 12 /\
  garbage_ok (cq_subst_nc 14 false exq exf exq_pairs 0%N) 14.
Proof. vm_compute. repeat split; reflexivity. Qed.

(** the instance of the theorems: whatever the capacity and the recursor, each
    of the four runs on [exq] is exactly "result iff it fits" *)
Definition exq_need (k : cqcall) : nat := match k with CQSubst _ _ _ => 15 | _ => 13 end.

Example exq_exact : forall cap p k, In k exq_calls ->
  exists su cu ru, cqrun_u lt_none unit enc_get enc_add exq tt k = Some (su, cu, ru) /\
    node_count su = exq_need k /\ cqcall_spec exq k su ru /\
    (exq_need k <= cap -> cq_run_nc cap p exq k = GOk su cu ru) /\
    (cap < exq_need k -> exists s' c', cq_run_nc cap p exq k = GOom s' c' /\
                                       cqfailed_ok enc_get exq_Sg cap exq s' c').
Proof.
  intros cap p k Hk. destruct exq_hyps as [Hl [I Hok]].
  destruct (cq_exact lt_none unit enc_get enc_add exq_Sg cap (fun _ => p) (fun _ => p) exq tt k Hl I (Hok k Hk))
    as [su [cu [ru [E [V [A B]]]]]].
  exists su, cu, ru. split; [exact E|].
  assert (Hn : node_count su = exq_need k).
  { simpl in Hk. destruct Hk as [<-|[<-|[<-|[<-|[]]]]];
      vm_compute in E; inversion E; subst su; vm_compute; reflexivity. }
  assert (Hc : node_count exq = 11) by (vm_compute; reflexivity).
  assert (Hge : 13 <= exq_need k) by (destruct k; simpl; lia).
  split; [exact Hn|]. split; [exact V|]. unfold cq_run_nc. split.
  - intros Hcap. apply A. lia.
  - intros Hcap. apply B. lia.
Qed.

(** ... in particular for exists x2. f: out-of-memory exactly below 13 slots, and
    the result is the existential quantification of [f] over x2 *)
Example exq_exact_exists : forall cap p,
  (13 <= cap -> exists s' r, cq_quant_nc cap p exq QExists exf (ce 2) = GOk s' tt r /\
                  forall a, cbfun_of s' r a = quant orb [2] (cbfun_of exq exf) a) /\
  (cap < 13 -> gres_code (cq_quant_nc cap p exq QExists exf (ce 2)) = 1).
Proof.
  intros cap p.
  destruct (exq_exact cap p (CQQuant QExists exf (ce 2)) ltac:(simpl; tauto))
    as [su [[] [ru [_ [_ [V [A B]]]]]]]. split.
  - intros Hcap. exists su, ru. split; [apply A; exact Hcap|].
    apply (V [2]); [intros v [<-|[]]; vm_compute; lia | apply exq_varset | discriminate].
  - intros Hcap. destruct (B Hcap) as [s' [c' [E _]]]. unfold cq_quant_nc. rewrite E. reflexivity.
Qed.
