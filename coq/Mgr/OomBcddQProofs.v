(** * Out-of-memory behaviour of the BCDD quantification / apply-and-quantify /
      restriction / substitution algorithms (Mgr/OomBcddQ.v), part 1

    Facts that need no invariant (every table, cache, fuel, capacity, recursors,
    operand order): [*_sim] - when a bounded algorithm returns [GOk s' c' r] the
    unbounded algorithm of DD/QuantBcdd.v returns literally [Some (s', c', r)] and
    at most [cap] nodes are stored unless nothing was inserted; when it returns
    [GOom s' c'] no node has disappeared and the store is full; when the unbounded
    algorithm returns a table that fits, the bounded one returns exactly that
    result.  The invariant-dependent part is in Mgr/OomBcddQSafe.v. *)

From Coq Require Import List NArith PArith Bool Arith Lia FMapPositive.
From OxiVerif Require Import DD.Table DD.TableProofs DD.Sem DD.Build DD.BuildProofs
  DD.Apply DD.ApplyBcdd DD.ApplyBcddProofs DD.ApplyBcddIte DD.Quant DD.QuantBcdd
  DD.QuantBcddLemmas DD.QuantBcddProofs DD.ApplyQuantBcddProofs DD.RestrictBcddProofs DD.SubstBcddProofs
  Mgr.Oom Mgr.OomProofs.
From OxiVerif Require Import Mgr.OomGen Mgr.OomGenProofs Mgr.OomBcdd Mgr.OomBcddProofs Mgr.OomBcddQ.
Import ListNotations.

Section Sim.
Variable lt : edge -> edge -> bool.
Variable C : Type.
Variable cget : C -> N -> list edge -> option edge.
Variable cadd : C -> N -> list edge -> edge -> C.
Variable cap : nat.
Variable pin : nat -> bool.

Notation SIM := (sim C no_m2 cap 1).
Notation cres := (option (snap * C * edge)).

(** ** [substitute_prepare] *)

(** the unbounded loop with the (untouched) cache threaded through *)
Definition with_cache {R : Type} (c : C) (u : option (snap * R)) : option (snap * C * R) :=
  match u with Some (s', x) => Some (s', c, x) | None => None end.

Lemma cprepare_fill_sim : forall slots s c level,
  SIM s (cprepare_fill_c C cap s c slots level) (with_cache c (cprepare_fill s slots level)).
Proof.
  induction slots as [|[e|] rest IH]; intros s c level.
  - apply sim_here.
  - simpl.
    replace (with_cache c match cprepare_fill s rest (S level) with
                          | Some (s', l) => Some (s', e :: l) | None => None end)
      with (ubind (with_cache c (cprepare_fill s rest (S level)))
                  (fun s' (c' : C) l => Some (s', c', e :: l)))
      by (destruct (cprepare_fill s rest (S level)) as [[s' l]|]; reflexivity).
    apply gbind_sim; [apply IH | intros; apply sim_here].
  - simpl. destruct (cget_terminal s true) as [t1|]; [|apply sim_stuck].
    destruct (cget_terminal s false) as [t0|]; [|apply sim_stuck].
    replace (with_cache c (let '(s1, e) := get_or_insert s level [t1; t0] in
                           match cprepare_fill s1 rest (S level) with
                           | Some (s', l) => Some (s', e :: l) | None => None end))
      with (ubind (ufin (get_or_insert s level [t1; t0]) (fun _ => c) (fun e : edge => e))
                  (fun s1 c1 e => ubind (with_cache c1 (cprepare_fill s1 rest (S level)))
                                        (fun s' (c' : C) l => Some (s', c', e :: l)))).
    2:{ destruct (get_or_insert s level [t1; t0]) as [s1 e]. simpl.
        destruct (cprepare_fill s1 rest (S level)) as [[s' l]|]; reflexivity. }
    apply gbind_sim.
    + apply gfin_sim. apply goi_leaf. exact no_m2_terms.
    + intros s1 c1 e. apply gbind_sim; [apply IH | intros; apply sim_here].
Qed.

Lemma csubstitute_prepare_sim : forall s c pairs,
  SIM s (csubstitute_prepare_c C cap s c pairs) (with_cache c (csubstitute_prepare s pairs)).
Proof.
  intros s c pairs. unfold csubstitute_prepare_c, csubstitute_prepare.
  destruct (cprepare_slots s pairs []) as [slots|]; [apply cprepare_fill_sim | apply sim_stuck].
Qed.

(** ** The inner calls *)

Lemma ccombine_sim : forall s c q t e,
  SIM s (ccombine_c lt C cget cadd cap pin s c q t e) (ccombine lt C cget cadd s c q t e).
Proof.
  intros s c q t e. destruct q; unfold ccombine_c, ccombine;
    try apply onot_sim; apply capply_bin_sim.
Qed.

Lemma cplain_sim : forall s c o f g,
  SIM s (cplain_c lt C cget cadd cap pin s c o f g) (cplain lt C cget cadd s c o f g).
Proof.
  intros s c o f g. destruct o; unfold cplain_c, cplain;
    try apply onot_sim; apply capply_bin_sim.
Qed.

Lemma cfalse_sim : forall s c, SIM s (cfalse_c C s c) (cfalse C s c).
Proof.
  intros s c. unfold cfalse_c, cfalse. destruct (cget_terminal s false); [apply sim_here | apply sim_stuck].
Qed.

(** the end of [quant] / [apply_quant] in combinator form *)
Definition cqfin_u (s2 : snap) (c2 : C) (q : quantifier) (same : bool) (lvl : nat) (code : N) (key : list edge)
    (t e : edge) : cres :=
  if same then
    ubind (ccombine lt C cget cadd s2 c2 q t e) (fun s3 c3 res => Some (s3, cadd c3 code key res, res))
  else
    ufin (cmk_node s2 lvl t e) (fun h => cadd c2 code key h) (fun h => h).

Lemma cqfin_sim : forall s2 c2 q same lvl code key t e,
  SIM s2 (cqfin_c lt C cget cadd cap pin s2 c2 q same lvl code key t e)
         (cqfin_u s2 c2 q same lvl code key t e).
Proof.
  intros. unfold cqfin_c, cqfin_u. destruct same.
  - apply gbind_sim; [apply ccombine_sim | intros; apply sim_here].
  - apply gfin_sim. apply cmk_node_leaf.
Qed.

(** ** [quant] *)

Section Own.
Variable par : nat -> bool.

Lemma cquant_rec_U : forall n s c q f vars,
  cquant_rec lt C cget cadd (S n) s c q f vars =
    match eref f with
    | RT _ =>
      if negb (is_unique q) || is_term vars then Some (s, c, f) else cfalse C s c
    | RN fid =>
      match find_node s fid with
      | None => None
      | Some fnode =>
        let flevel := nstored fnode in
        match (if is_unique q then Some vars else cset_pop (S (nlevels s)) s vars flevel) with
        | None => None
        | Some vars' =>
          match eref vars' with
          | RT _ => Some (s, c, f)
          | RN vid =>
            match find_node s vid with
            | None => None
            | Some vnode =>
              let vlevel := nstored vnode in
              if is_unique q && Nat.ltb vlevel flevel then cfalse C s c
              else
                match cget c (cqcode q) [f; vars'] with
                | Some h => Some (s, c, h)
                | None =>
                  match ccofs (etag f) fnode,
                        (if Nat.eqb vlevel flevel
                         then match nchildren vnode with [vt; _] => Some vt | _ => None end
                         else Some vars') with
                  | Some (ft, fe), Some vt =>
                    ujoin2 (cquant_rec lt C cget cadd n s c q ft vt)
                      (fun s1 c1 => cquant_rec lt C cget cadd n s1 c1 q fe vt)
                      (fun s2 c2 t e =>
                         cqfin_u s2 c2 q (Nat.eqb flevel vlevel) flevel (cqcode q) [f; vars'] t e)
                  | _, _ => None
                  end
                end
            end
          end
        end
      end
    end.
Proof.
  intros n s c q f vars. rewrite cquant_rec_S.
  destruct (eref f) as [tf|fid]; [reflexivity|].
  destruct (find_node s fid) as [fnode|]; [|reflexivity]. cbv zeta.
  destruct (if is_unique q then Some vars else cset_pop (S (nlevels s)) s vars (nstored fnode)) as [vars'|];
    [|reflexivity].
  destruct (eref vars') as [tv|vid]; [reflexivity|].
  destruct (find_node s vid) as [vnode|]; [|reflexivity].
  destruct (is_unique q && Nat.ltb (nstored vnode) (nstored fnode)); [reflexivity|].
  destruct (cget c (cqcode q) [f; vars']); [reflexivity|].
  destruct (ccofs (etag f) fnode) as [[ft fe]|]; [|reflexivity].
  destruct (if Nat.eqb (nstored vnode) (nstored fnode)
            then match nchildren vnode with [vt; _] => Some vt | _ => None end
            else Some vars') as [vt|]; [|reflexivity].
  unfold ujoin2, cqfin_u.
  destruct (cquant_rec lt C cget cadd n s c q ft vt) as [[[s1 c1] t]|]; [|reflexivity].
  destruct (cquant_rec lt C cget cadd n s1 c1 q fe vt) as [[[s2 c2] e]|]; [|reflexivity].
  destruct (Nat.eqb (nstored fnode) (nstored vnode)); reflexivity.
Qed.

Lemma cquant_c_S : forall n s c q f vars,
  cquant_c lt C cget cadd cap pin par (S n) s c q f vars =
    match eref f with
    | RT _ =>
      if negb (is_unique q) || is_term vars then GOk s c f else cfalse_c C s c
    | RN fid =>
      match find_node s fid with
      | None => GStuck
      | Some fnode =>
        let flevel := nstored fnode in
        match (if is_unique q then Some vars else cset_pop (S (nlevels s)) s vars flevel) with
        | None => GStuck
        | Some vars' =>
          match eref vars' with
          | RT _ => GOk s c f
          | RN vid =>
            match find_node s vid with
            | None => GStuck
            | Some vnode =>
              let vlevel := nstored vnode in
              if is_unique q && Nat.ltb vlevel flevel then cfalse_c C s c
              else
                match cget c (cqcode q) [f; vars'] with
                | Some h => GOk s c h
                | None =>
                  match ccofs (etag f) fnode,
                        (if Nat.eqb vlevel flevel
                         then match nchildren vnode with [vt; _] => Some vt | _ => None end
                         else Some vars') with
                  | Some (ft, fe), Some vt =>
                    gjoin2 (par n) (cquant_c lt C cget cadd cap pin par n s c q ft vt)
                      (fun s1 c1 => cquant_c lt C cget cadd cap pin par n s1 c1 q fe vt)
                      (fun s2 c2 t e =>
                         cqfin_c lt C cget cadd cap pin s2 c2 q (Nat.eqb flevel vlevel) flevel
                                 (cqcode q) [f; vars'] t e)
                  | _, _ => GStuck
                  end
                end
            end
          end
        end
      end
    end.
Proof. reflexivity. Qed.

Theorem cquant_sim : forall fuel s c q f vars,
  SIM s (cquant_c lt C cget cadd cap pin par fuel s c q f vars) (cquant_rec lt C cget cadd fuel s c q f vars).
Proof.
  induction fuel as [|n IH]; intros s c q f vars; [apply sim_stuck|].
  rewrite cquant_c_S, cquant_rec_U.
  destruct (eref f) as [tf|fid].
  { destruct (negb (is_unique q) || is_term vars); [apply sim_here | apply cfalse_sim]. }
  destruct (find_node s fid) as [fnode|]; [|apply sim_stuck]. cbv zeta.
  destruct (if is_unique q then Some vars else cset_pop (S (nlevels s)) s vars (nstored fnode)) as [vars'|];
    [|apply sim_stuck].
  destruct (eref vars') as [tv|vid]; [apply sim_here|].
  destruct (find_node s vid) as [vnode|]; [|apply sim_stuck].
  destruct (is_unique q && Nat.ltb (nstored vnode) (nstored fnode)); [apply cfalse_sim|].
  destruct (cget c (cqcode q) [f; vars']); [apply sim_here|].
  destruct (ccofs (etag f) fnode) as [[ft fe]|]; [|apply sim_stuck].
  destruct (if Nat.eqb (nstored vnode) (nstored fnode)
            then match nchildren vnode with [vt; _] => Some vt | _ => None end
            else Some vars') as [vt|]; [|apply sim_stuck].
  apply gjoin2_sim; [apply IH | intros; apply IH | intros; apply cqfin_sim].
Qed.

(** ** [restrict] *)

Lemma crestrict_U : forall n s c f vars,
  crestrict C cget cadd (S n) s c f vars =
    match eref f, eref vars with
    | RN fid, RN vid =>
      match find_node s fid, find_node s vid with
      | Some fnode, Some vnode =>
        match crestrict_inner (S (nlevels s + nlevels s)) s f (etag f) fnode (nstored fnode)
                              vars (etag vars) vnode with
        | None => None
        | Some (CRDone r) => Some (s, c, r)
        | Some (CRRec vars' f' f_neg fnode') =>
          let f_untagged := untag f' in
          match cget c ccode_restrict [f_untagged; vars'] with
          | Some r => Some (s, c, retag f_neg r)
          | None =>
            match nchildren fnode' with
            | [ft; fe] =>
              ujoin2 (crestrict C cget cadd n s c ft vars') (fun s1 c1 => crestrict C cget cadd n s1 c1 fe vars')
                (fun s2 c2 t e =>
                   ufin (cmk_node s2 (nstored fnode') t e)
                     (fun h => cadd c2 ccode_restrict [f_untagged; vars'] h) (fun h => retag f_neg h))
            | _ => None
            end
          end
        end
      | _, _ => None
      end
    | _, _ => Some (s, c, f)
    end.
Proof. reflexivity. Qed.

Lemma crestrict_c_S : forall n s c f vars,
  crestrict_c C cget cadd cap par (S n) s c f vars =
    match eref f, eref vars with
    | RN fid, RN vid =>
      match find_node s fid, find_node s vid with
      | Some fnode, Some vnode =>
        match crestrict_inner (S (nlevels s + nlevels s)) s f (etag f) fnode (nstored fnode)
                              vars (etag vars) vnode with
        | None => GStuck
        | Some (CRDone r) => GOk s c r
        | Some (CRRec vars' f' f_neg fnode') =>
          let f_untagged := untag f' in
          match cget c ccode_restrict [f_untagged; vars'] with
          | Some r => GOk s c (retag f_neg r)
          | None =>
            match nchildren fnode' with
            | [ft; fe] =>
              gjoin2 (par n) (crestrict_c C cget cadd cap par n s c ft vars')
                (fun s1 c1 => crestrict_c C cget cadd cap par n s1 c1 fe vars')
                (fun s2 c2 t e =>
                   gfin s2 c2 (cmk_node_cap cap s2 (nstored fnode') t e)
                     (fun h => cadd c2 ccode_restrict [f_untagged; vars'] h) (fun h => retag f_neg h))
            | _ => GStuck
            end
          end
        end
      | _, _ => GStuck
      end
    | _, _ => GOk s c f
    end.
Proof. reflexivity. Qed.

Theorem crestrict_sim : forall fuel s c f vars,
  SIM s (crestrict_c C cget cadd cap par fuel s c f vars) (crestrict C cget cadd fuel s c f vars).
Proof.
  induction fuel as [|n IH]; intros s c f vars; [apply sim_stuck|].
  rewrite crestrict_c_S, crestrict_U.
  destruct (eref f) as [tf|fid]; [apply sim_here|].
  destruct (eref vars) as [tv|vid]; [apply sim_here|].
  destruct (find_node s fid) as [fnode|]; [|apply sim_stuck].
  destruct (find_node s vid) as [vnode|]; [|apply sim_stuck].
  destruct (crestrict_inner _ s f (etag f) fnode (nstored fnode) vars (etag vars) vnode)
    as [[r|vars' f' f_neg fnode']|]; [apply sim_here | | apply sim_stuck].
  cbv zeta. destruct (cget c ccode_restrict [untag f'; vars']); [apply sim_here|].
  destruct (nchildren fnode') as [|ft [|fe [|x rest]]]; try apply sim_stuck.
  apply gjoin2_sim; [apply IH | intros; apply IH|].
  intros s2 c2 t e. apply gfin_sim. apply cmk_node_leaf.
Qed.

(** ** [substitute] *)

Lemma csubstitute_U : forall n s c f subst id,
  csubstitute lt C cget cadd (S n) s c f subst id =
    match eref f with
    | RT _ => Some (s, c, f)
    | RN fid =>
      match find_node s fid with
      | None => None
      | Some fnode =>
        let level := nstored fnode in
        if Nat.leb (length subst) level then Some (s, c, f)
        else
          match cget c (ccode_subst id) [f] with
          | Some h => Some (s, c, h)
          | None =>
            match ccofs (etag f) fnode with
            | Some (ft, fe) =>
              ujoin2 (csubstitute lt C cget cadd n s c ft subst id)
                (fun s1 c1 => csubstitute lt C cget cadd n s1 c1 fe subst id)
                (fun s2 c2 t e =>
                   match nth_error subst level with
                   | None => None
                   | Some r =>
                     ubind (capply_ite lt C cget cadd (S (nlevels s2)) s2 c2 r t e)
                       (fun s3 c3 res => Some (s3, cadd c3 (ccode_subst id) [f] res, res))
                   end)
            | None => None
            end
          end
      end
    end.
Proof.
  intros n s c f subst id. rewrite csubstitute_S.
  destruct (eref f) as [tf|fid]; [reflexivity|].
  destruct (find_node s fid) as [fnode|]; [|reflexivity]. cbv zeta.
  destruct (Nat.leb (length subst) (nstored fnode)); [reflexivity|].
  destruct (cget c (ccode_subst id) [f]); [reflexivity|].
  destruct (ccofs (etag f) fnode) as [[ft fe]|]; [|reflexivity].
  unfold ujoin2.
  destruct (csubstitute lt C cget cadd n s c ft subst id) as [[[s1 c1] t]|]; [|reflexivity].
  destruct (csubstitute lt C cget cadd n s1 c1 fe subst id) as [[[s2 c2] e]|]; [|reflexivity].
  destruct (nth_error subst (nstored fnode)); reflexivity.
Qed.

Lemma csubstitute_c_S : forall n s c f subst id,
  csubstitute_c lt C cget cadd cap pin par (S n) s c f subst id =
    match eref f with
    | RT _ => GOk s c f
    | RN fid =>
      match find_node s fid with
      | None => GStuck
      | Some fnode =>
        let level := nstored fnode in
        if Nat.leb (length subst) level then GOk s c f
        else
          match cget c (ccode_subst id) [f] with
          | Some h => GOk s c h
          | None =>
            match ccofs (etag f) fnode with
            | Some (ft, fe) =>
              gjoin2 (par n) (csubstitute_c lt C cget cadd cap pin par n s c ft subst id)
                (fun s1 c1 => csubstitute_c lt C cget cadd cap pin par n s1 c1 fe subst id)
                (fun s2 c2 t e =>
                   match nth_error subst level with
                   | None => GStuck
                   | Some r =>
                     gbind (capply_ite_c lt C cget cadd cap pin (S (nlevels s2)) s2 c2 r t e)
                       (fun s3 c3 res => GOk s3 (cadd c3 (ccode_subst id) [f] res) res)
                   end)
            | None => GStuck
            end
          end
      end
    end.
Proof. reflexivity. Qed.

Theorem csubstitute_sim : forall fuel s c f subst id,
  SIM s (csubstitute_c lt C cget cadd cap pin par fuel s c f subst id)
        (csubstitute lt C cget cadd fuel s c f subst id).
Proof.
  induction fuel as [|n IH]; intros s c f subst id; [apply sim_stuck|].
  rewrite csubstitute_c_S, csubstitute_U.
  destruct (eref f) as [tf|fid]; [apply sim_here|].
  destruct (find_node s fid) as [fnode|]; [|apply sim_stuck]. cbv zeta.
  destruct (Nat.leb (length subst) (nstored fnode)); [apply sim_here|].
  destruct (cget c (ccode_subst id) [f]); [apply sim_here|].
  destruct (ccofs (etag f) fnode) as [[ft fe]|]; [|apply sim_stuck].
  apply gjoin2_sim; [apply IH | intros; apply IH|].
  intros s2 c2 t e. destruct (nth_error subst (nstored fnode)) as [r|]; [|apply sim_stuck].
  apply gbind_sim; [apply capply_ite_sim | intros; apply sim_here].
Qed.

(** ** [apply_quant] *)

Lemma caq_body_U : forall rec s c q o operator f fnode g gnode vars,
  caq_body lt C cget cadd rec s c q o operator f fnode g gnode vars =
  let flevel := nstored fnode in
  let glevel := nstored gnode in
  let min_level := Nat.min flevel glevel in
  match (if is_unique q then Some vars else cset_pop (S (nlevels s)) s vars min_level) with
  | None => None
  | Some vars' =>
    match eref vars' with
    | RT _ => cplain lt C cget cadd s c o f g
    | RN vid =>
      match find_node s vid with
      | None => None
      | Some vnode =>
        let vlevel := nstored vnode in
        if Nat.ltb vlevel min_level && is_unique q then cfalse C s c
        else if Nat.ltb vlevel min_level then cplain lt C cget cadd s c o f g
        else
          match cget c operator [f; g; vars'] with
          | Some h => Some (s, c, h)
          | None =>
            match (if Nat.eqb vlevel min_level
                   then match nchildren vnode with [vt; _] => Some vt | _ => None end
                   else Some vars'),
                  (if Nat.leb flevel glevel then ccofs (etag f) fnode else Some (f, f)),
                  (if Nat.leb glevel flevel then ccofs (etag g) gnode else Some (g, g)) with
            | Some vt, Some (ft, fe), Some (gt', ge) =>
              ujoin2 (rec s c ft gt' vt) (fun s1 c1 => rec s1 c1 fe ge vt)
                (fun s2 c2 t e =>
                   cqfin_u s2 c2 q (Nat.eqb min_level vlevel) min_level operator [f; g; vars'] t e)
            | _, _, _ => None
            end
          end
      end
    end
  end.
Proof.
  intros rec s c q o operator f fnode g gnode vars. unfold caq_body. cbv zeta.
  set (m := Nat.min (nstored fnode) (nstored gnode)).
  destruct (if is_unique q then Some vars else cset_pop (S (nlevels s)) s vars m) as [vars'|]; [|reflexivity].
  destruct (eref vars') as [tv|vid]; [reflexivity|].
  destruct (find_node s vid) as [vnode|]; [|reflexivity].
  destruct (Nat.ltb (nstored vnode) m && is_unique q); [reflexivity|].
  destruct (Nat.ltb (nstored vnode) m); [reflexivity|].
  destruct (cget c operator [f; g; vars']); [reflexivity|].
  destruct (if Nat.eqb (nstored vnode) m
            then match nchildren vnode with [vt; _] => Some vt | _ => None end
            else Some vars') as [vt|]; [|reflexivity].
  destruct (if Nat.leb (nstored fnode) (nstored gnode) then ccofs (etag f) fnode else Some (f, f))
    as [[ft fe]|]; [|reflexivity].
  destruct (if Nat.leb (nstored gnode) (nstored fnode) then ccofs (etag g) gnode else Some (g, g))
    as [[gt' ge]|]; [|reflexivity].
  unfold ujoin2, cqfin_u.
  destruct (rec s c ft gt' vt) as [[[s1 c1] t]|]; [|reflexivity].
  destruct (rec s1 c1 fe ge vt) as [[[s2 c2] e]|]; [|reflexivity].
  destruct (Nat.eqb m (nstored vnode)); reflexivity.
Qed.

Lemma caq_body_sim : forall p (rec : snap -> C -> edge -> edge -> edge -> cres_c C) urec,
  (forall s c a b v, SIM s (rec s c a b v) (urec s c a b v)) ->
  forall s c q o operator f fnode g gnode vars,
    SIM s (caq_body_c lt C cget cadd cap pin p rec s c q o operator f fnode g gnode vars)
          (caq_body lt C cget cadd urec s c q o operator f fnode g gnode vars).
Proof.
  intros p rec urec IH s c q o operator f fnode g gnode vars. rewrite caq_body_U. unfold caq_body_c. cbv zeta.
  set (m := Nat.min (nstored fnode) (nstored gnode)).
  destruct (if is_unique q then Some vars else cset_pop (S (nlevels s)) s vars m) as [vars'|]; [|apply sim_stuck].
  destruct (eref vars') as [tv|vid]; [apply cplain_sim|].
  destruct (find_node s vid) as [vnode|]; [|apply sim_stuck].
  destruct (Nat.ltb (nstored vnode) m && is_unique q); [apply cfalse_sim|].
  destruct (Nat.ltb (nstored vnode) m); [apply cplain_sim|].
  destruct (cget c operator [f; g; vars']); [apply sim_here|].
  destruct (if Nat.eqb (nstored vnode) m
            then match nchildren vnode with [vt; _] => Some vt | _ => None end
            else Some vars') as [vt|]; [|apply sim_stuck].
  destruct (if Nat.leb (nstored fnode) (nstored gnode) then ccofs (etag f) fnode else Some (f, f))
    as [[ft fe]|]; [|apply sim_stuck].
  destruct (if Nat.leb (nstored gnode) (nstored fnode) then ccofs (etag g) gnode else Some (g, g))
    as [[gt' ge]|]; [|apply sim_stuck].
  apply gjoin2_sim; [apply IH | intros; apply IH | intros; apply cqfin_sim].
Qed.

End Own.

Section Own2.
Variable par : nat -> bool.

Lemma capply_quant_c_S : forall n s c q o f g vars,
  capply_quant_c lt C cget cadd cap pin par (S n) s c q o f g vars =
    match caqcode q o with
    | None => GStuck
    | Some operator =>
      match (match o with AQXor => cterminal_xor s f g | _ => cterminal_and s f g end) with
      | KFail => GStuck
      | KDone h =>
        cquant_c lt C cget cadd cap pin pin (S (nlevels s)) s c q (match o with AQNand => enot h | _ => h end) vars
      | KNodes fnode0 gnode0 =>
        if lt f g
        then caq_body_c lt C cget cadd cap pin (par n)
               (fun s0 c0 a b v => capply_quant_c lt C cget cadd cap pin par n s0 c0 q o a b v)
               s c q o operator f fnode0 g gnode0 vars
        else caq_body_c lt C cget cadd cap pin (par n)
               (fun s0 c0 a b v => capply_quant_c lt C cget cadd cap pin par n s0 c0 q o a b v)
               s c q o operator g gnode0 f fnode0 vars
      end
    end.
Proof. reflexivity. Qed.

Theorem capply_quant_sim : forall fuel s c q o f g vars,
  SIM s (capply_quant_c lt C cget cadd cap pin par fuel s c q o f g vars)
        (capply_quant lt C cget cadd fuel s c q o f g vars).
Proof.
  induction fuel as [|n IH]; intros s c q o f g vars; [apply sim_stuck|].
  rewrite capply_quant_c_S, capply_quant_S.
  destruct (caqcode q o) as [operator|]; [|apply sim_stuck].
  destruct (match o with AQXor => cterminal_xor s f g | _ => cterminal_and s f g end) as [h|fn gn|];
    [apply cquant_sim | | apply sim_stuck].
  destruct (lt f g); apply caq_body_sim; intros; apply IH.
Qed.

Lemma aq_sim : forall s c q o f g vars,
  SIM s (aq_c lt C cget cadd cap pin par s c q o f g vars) (aq lt C cget cadd s c q o f g vars).
Proof. intros. apply capply_quant_sim. Qed.

Theorem capply_quant_edge_sim : forall s c q op f g vars,
  SIM s (capply_quant_edge_c lt C cget cadd cap pin par s c q op f g vars)
        (capply_quant_edge lt C cget cadd s c q op f g vars).
Proof.
  intros s c q op f g vars.
  destruct q; unfold capply_quant_edge_c, capply_quant_edge,
    capply_quant_dispatch_c, capply_quant_dispatch,
    capply_quant_unique_dispatch_c, capply_quant_unique_dispatch;
    destruct op; try apply onot_sim; apply aq_sim.
Qed.

Theorem csubstitute_edge_sim : forall s c f pairs id,
  SIM s (csubstitute_edge_c lt C cget cadd cap pin par s c f pairs id)
        (csubstitute_edge lt C cget cadd s c f pairs id).
Proof.
  intros s c f pairs id. unfold csubstitute_edge_c.
  replace (csubstitute_edge lt C cget cadd s c f pairs id)
    with (ubind (with_cache c (csubstitute_prepare s pairs))
                (fun s0 c0 subst => csubstitute lt C cget cadd (S (nlevels s0)) s0 c0 f subst id))
    by (unfold csubstitute_edge; destruct (csubstitute_prepare s pairs) as [[s0 sv]|]; reflexivity).
  apply gbind_sim; [apply csubstitute_prepare_sim | intros; apply csubstitute_sim].
Qed.

(** ** All four families at once *)

Theorem cqrun_sim : forall s c k,
  SIM s (cqrun_c lt C cget cadd cap par pin s c k) (cqrun_u lt C cget cadd s c k).
Proof.
  intros s c [q f vars|q op f g vars|f vars|f pairs id]; unfold cqrun_c, cqrun_u.
  - apply cquant_sim.
  - apply capply_quant_edge_sim.
  - apply crestrict_sim.
  - apply csubstitute_edge_sim.
Qed.

End Own2.
End Sim.
