(** * Out-of-memory behaviour of the BCDD quantification / apply-and-quantify /
      restriction / substitution algorithms (Mgr/OomBcddQ.v), part 2

    Under the invariant of the C04 theorems for BCDDs ([BcOK], the quantification
    cache invariant [QCacheOKC] of DD/QuantBcddLemmas.v, operands valid edges):

    - [capply_bin_c_frame], [capply_ite_c_frame]: an inner bounded apply only adds
      cache entries with the operator codes And / Xor / Ite - on BOTH outcomes
      (an invariant-free walk); hence the bounded apply algorithms of
      Mgr/OomBcdd.v preserve [QCacheOKC] when they succeed and when they fail
      ([cbin_qs], [cite_qs]);
    - [*_c_safe]: the bounded algorithms never get stuck, and whatever they
      return - result or out-of-memory - the table they leave is a well-formed
      BCDD table extending the one they started from, with a correct cache.  The
      [GOk] case is never re-proved: refinement ([*_sim]) + the theorem of the
      unbounded model ([cquant_rec_ok], [capply_quant_ok], [crestrict_ok],
      [csubstitute_ok], [cprepare_ok]);
    - [cqcall_ok], [cqrun_c_safe]: the four families at once. *)

From Coq Require Import List NArith PArith Bool Arith Lia FMapPositive.
From OxiVerif Require Import DD.Table DD.TableProofs DD.Canon DD.CanonBcdd DD.Sem DD.Build DD.BuildProofs
  DD.Apply DD.ApplyProofs DD.ApplyBcdd DD.ApplyBcddProofs DD.ApplyBcddIte DD.ApplyBcddEval
  DD.Quant DD.QuantLemmas DD.QuantProofs DD.QuantBcdd DD.QuantBcddLemmas DD.QuantBcddProofs
  DD.ApplyQuantBcddProofs DD.RestrictBcddProofs DD.SubstBcddProofs
  Mgr.Oom Mgr.OomProofs.
From OxiVerif Require Import Mgr.OomGen Mgr.OomGenProofs Mgr.OomBcdd Mgr.OomBcddProofs Mgr.OomBcddSafe
  Mgr.OomBcddQ Mgr.OomBcddQProofs.
Import ListNotations.

(** ** Generic: a join whose continuation needs the two results to be valid *)

Section GenQ.
Variable C : Type.
Variable Inv : snap -> C -> Prop.
Variable ext : snap -> snap -> Prop.
Hypothesis ext_trans : forall s1 s2 s3, ext s1 s2 -> ext s2 s3 -> ext s1 s3.

Lemma gjoin2_safe_q : forall R1 R2 R' (Q1 : snap -> R1 -> Prop) (Q2 : snap -> R2 -> Prop) p s
    (r1 : gres C R1) (run2 : snap -> C -> gres C R2) (fin : snap -> C -> R1 -> R2 -> gres C R'),
  (forall s1 s2 x, ext s1 s2 -> Q1 s1 x -> Q1 s2 x) ->
  res_safe Inv ext Q1 s r1 ->
  (forall s1 c1, Inv s1 c1 -> ext s s1 -> res_safe Inv ext Q2 s1 (run2 s1 c1)) ->
  (forall s2 c2 t e, Inv s2 c2 -> ext s s2 -> Q1 s2 t -> Q2 s2 e -> fail_safe Inv ext s2 (fin s2 c2 t e)) ->
  fail_safe Inv ext s (gjoin2 p r1 run2 fin).
Proof.
  intros R1 R2 R' Q1 Q2 p s r1 run2 fin Hm H1 H2 H3. unfold gjoin2.
  destruct r1 as [s1 c1 t|s1 c1|]; simpl in H1; [| |contradiction].
  - destruct H1 as [I1 [X1 Qt]]. specialize (H2 s1 c1 I1 X1).
    destruct (run2 s1 c1) as [s2 c2 e|s2 c2|]; simpl in H2; [| |contradiction].
    + destruct H2 as [I2 [X2 Qe]].
      apply (fail_safe_from C Inv ext ext_trans _ s s2 _ (ext_trans _ _ _ X1 X2)).
      apply H3; eauto.
    + destruct H2 as [I2 X2]. simpl. eauto.
  - destruct H1 as [I1 X1]. destruct p; [|simpl; auto].
    specialize (H2 s1 c1 I1 X1).
    destruct (run2 s1 c1) as [s2 c2 e|s2 c2|]; simpl in *; [| |contradiction].
    + destruct H2 as [I2 [X2 _]]. eauto.
    + destruct H2 as [I2 X2]. eauto.
Qed.

Lemma res_safe_from : forall R (Q : snap -> R -> Prop) s s1 (r : gres C R),
  ext s s1 -> res_safe Inv ext Q s1 r -> res_safe Inv ext Q s r.
Proof.
  intros R Q s s1 [s' c' x|s' c'|] X H; simpl in *; auto.
  - destruct H as [I [X' Qx]]. eauto.
  - destruct H as [I X']. eauto.
Qed.

(** [r?] followed by a pure post-processing *)
Lemma gbind_fs_pure : forall R R' s (r1 : gres C R) (g : R -> R'),
  fail_safe Inv ext s r1 -> fail_safe Inv ext s (gbind r1 (fun s' c' l => GOk s' c' (g l))).
Proof. intros R R' s [s1 c1 x|s1 c1|] g H; simpl in *; auto. Qed.

End GenQ.

(** ** The cache after an inner bounded apply: only low operator codes are added *)

Section Frame.
Variable lt : edge -> edge -> bool.
Variable C : Type.
Variable cget : C -> N -> list edge -> option edge.
Variable cadd : C -> N -> list edge -> edge -> C.
Hypothesis Hlossy : lossyC cget cadd.
Variable cap : nat.
Variable par : nat -> bool.

Definition cframe {R : Type} (c : C) (r : gres C R) : Prop :=
  match r with
  | GOk _ c' _ => serves_fromC cget c c'
  | GOom _ c' => serves_fromC cget c c'
  | GStuck => True
  end.

Lemma cframe_from : forall R c c1 (r : gres C R), serves_fromC cget c c1 -> cframe c1 r -> cframe c r.
Proof. intros R c c1 [s' c' x|s' c'|] A F; simpl in *; auto; eapply sfc_trans; eauto. Qed.

Lemma gjoin2_frame : forall R1 R2 R' p c (r1 : gres C R1) (run2 : snap -> C -> gres C R2)
    (fin : snap -> C -> R1 -> R2 -> gres C R'),
  cframe c r1 -> (forall s1 c1, cframe c1 (run2 s1 c1)) -> (forall s2 c2 t e, cframe c2 (fin s2 c2 t e)) ->
  cframe c (gjoin2 p r1 run2 fin).
Proof.
  intros R1 R2 R' p c r1 run2 fin H1 H2 H3. unfold gjoin2.
  destruct r1 as [s1 c1 t|s1 c1|]; simpl in H1; [| |exact I].
  - specialize (H2 s1 c1). destruct (run2 s1 c1) as [s2 c2 e|s2 c2|]; simpl in H2; [| |exact I].
    + apply (cframe_from _ c c1 _ H1). apply (cframe_from _ c1 c2 _ H2). apply H3.
    + simpl. eapply sfc_trans; eauto.
  - destruct p; [|exact H1]. specialize (H2 s1 c1).
    destruct (run2 s1 c1) as [s2 c2 e|s2 c2|]; simpl in *; [| |exact I]; eapply sfc_trans; eauto.
Qed.

Lemma gbind_frame : forall R R' c (r1 : gres C R) (k : snap -> C -> R -> gres C R'),
  cframe c r1 -> (forall s1 c1 x, cframe c1 (k s1 c1 x)) -> cframe c (gbind r1 k).
Proof.
  intros R R' c [s1 c1 x|s1 c1|] k H1 H2; simpl in *; [|exact H1|exact I].
  apply (cframe_from _ c c1 _ H1). apply H2.
Qed.

Lemma gfin_frame : forall R R' s c (o : option (snap * R)) (kc : R -> C) (kr : R -> R'),
  (forall h, serves_fromC cget c (kc h)) -> cframe c (gfin s c o kc kr).
Proof. intros R R' s c [[s' h]|] kc kr H; simpl; [apply H | apply sfc_refl]. Qed.

Lemma onot_c_frame : forall c (r : cres_c C), cframe c r -> cframe c (onot_c C r).
Proof. intros c [s' c' x|s' c'|] H; simpl in *; auto. Qed.

Lemma cbin_step_c_frame : forall p (rec : snap -> C -> edge -> edge -> cres_c C),
  (forall s c f g, cframe c (rec s c f g)) ->
  forall s c op f fnode g gnode, cframe c (cbin_step_c C cget cadd cap p rec s c op f fnode g gnode).
Proof.
  intros p rec IH s c op f fnode g gnode. unfold cbin_step_c.
  destruct (cget c (cop_code op) [f; g]); [apply sfc_refl|]. cbv zeta.
  destruct (ccof2 f fnode _) as [[ft fe]|]; [|exact I].
  destruct (ccof2 g gnode _) as [[gt ge]|]; [|exact I].
  apply gjoin2_frame; [apply IH | intros; apply IH|].
  intros s2 c2 t e. apply gfin_frame. intros h.
  apply (sfc_add C cget cadd Hlossy). destruct op; simpl; lia.
Qed.

Theorem capply_bin_c_frame : forall fuel s c op f g,
  cframe c (capply_bin_c lt C cget cadd cap par fuel s c op f g).
Proof.
  induction fuel as [|n IH]; intros s c op f g; [exact I|].
  rewrite capply_bin_c_S.
  destruct (cterminal s op f g) as [h|fn gn|]; [apply sfc_refl | | exact I].
  destruct (lt f g); apply cbin_step_c_frame; intros; apply IH.
Qed.

Lemma cite_step_c_frame : forall p (rec : snap -> C -> edge -> edge -> edge -> cres_c C),
  (forall s c f g h, cframe c (rec s c f g h)) ->
  forall s c f fnode g gnode h hnode,
    cframe c (cite_step_c C cget cadd cap p rec s c f fnode g gnode h hnode).
Proof.
  intros p rec IH s c f fnode g gnode h hnode. unfold cite_step_c.
  destruct (cget c ccode_ite [f; g; h]); [apply sfc_refl|]. cbv zeta.
  destruct (ccof2 f fnode _) as [[ft fe]|]; [|exact I].
  destruct (ccof2 g gnode _) as [[gt ge]|]; [|exact I].
  destruct (ccof2 h hnode _) as [[ht he]|]; [|exact I].
  apply gjoin2_frame; [apply IH | intros; apply IH|].
  intros s2 c2 t e. apply gfin_frame. intros r.
  apply (sfc_add C cget cadd Hlossy). unfold ccode_ite. lia.
Qed.

Theorem capply_ite_c_frame : forall fuel s c f g h,
  cframe c (capply_ite_c lt C cget cadd cap par fuel s c f g h).
Proof.
  induction fuel as [|n IH]; intros s c f g h; [exact I|].
  rewrite capply_ite_c_S.
  destruct (ref_eqb (eref g) (eref h)).
  { destruct (Bool.eqb (etag g) (etag h)); [apply sfc_refl | apply onot_c_frame, capply_bin_c_frame]. }
  destruct (ref_eqb (eref f) (eref g)).
  { destruct (Bool.eqb (etag f) (etag g)); [apply onot_c_frame, capply_bin_c_frame | apply capply_bin_c_frame]. }
  destruct (ref_eqb (eref f) (eref h)).
  { destruct (Bool.eqb (etag f) (etag h)); [apply capply_bin_c_frame | apply onot_c_frame, capply_bin_c_frame]. }
  destruct (cnode s f) as [[fnd|]|]; [| apply sfc_refl | exact I].
  destruct (cnode s g) as [[gnd|]|]; destruct (cnode s h) as [[hnd|]|]; try exact I.
  - apply cite_step_c_frame. intros; apply IH.
  - destruct (etag h); [apply capply_bin_c_frame | apply onot_c_frame, capply_bin_c_frame].
  - destruct (etag g); [apply capply_bin_c_frame | apply onot_c_frame, capply_bin_c_frame].
  - destruct (etag h); [apply capply_bin_c_frame | apply onot_c_frame, capply_bin_c_frame].
Qed.

End Frame.

(** ** The walks *)

Section Safe.
Variable lt : edge -> edge -> bool.
Variable C : Type.
Variable cget : C -> N -> list edge -> option edge.
Variable cadd : C -> N -> list edge -> edge -> C.
Hypothesis Hlossy : lossyC cget cadd.
(** the registry of substitution objects (id -> pairs) of [QCacheOKC] *)
Variable Sg : N -> option (list (nat * edge)).
Variable cap : nat.
Variable pin : nat -> bool.

Notation QOKC := (QCacheOKC cget Sg).

(** the invariant of the C04 theorems for BCDDs *)
Definition QInv (s : snap) (c : C) : Prop := BcOK s /\ QOKC s c.

Notation RS := (res_safe QInv extends Qedge).
Notation FS := (fail_safe QInv extends).

Lemma qedge_mono : forall s1 s2 (x : edge), extends s1 s2 -> Qedge s1 x -> Qedge s2 x.
Proof. intros s1 s2 x X. apply (ext_ref_ok _ _ _ X). Qed.

(** the bounded apply algorithms under the stronger cache invariant *)
Lemma lift_qsafe : forall s c (r : gres C edge), BcOK s -> QOKC s c ->
  res_safe (CInv C cget) extends Qedge s r -> cframe C cget c r -> RS s r.
Proof.
  intros s c [s' c' x|s' c'|] B Q S F; simpl in *; [| |exact S].
  - destruct S as [[B' O'] [X Qx]]. split; [|split; assumption]. split; [exact B'|].
    apply (qcacheokc_frame C cget Sg s s' c c' B X Q O' F).
  - destruct S as [[B' O'] X]. split; [|exact X]. split; [exact B'|].
    apply (qcacheokc_frame C cget Sg s s' c c' B X Q O' F).
Qed.

Lemma cbin_qs : forall op s c f g, BcOK s -> QOKC s c -> ref_ok s (eref f) -> ref_ok s (eref g) ->
  RS s (capply_bin_c lt C cget cadd cap pin (S (nlevels s)) s c op f g).
Proof.
  intros op s c f g B Q Hf Hg. apply (lift_qsafe s c); auto.
  - apply (capply_bin_c_safe lt C cget cadd Hlossy); auto; [apply (proj1 Q) | lia].
  - apply (capply_bin_c_frame lt C cget cadd Hlossy).
Qed.

Lemma cite_qs : forall s c f g h, BcOK s -> QOKC s c ->
  ref_ok s (eref f) -> ref_ok s (eref g) -> ref_ok s (eref h) ->
  RS s (capply_ite_c lt C cget cadd cap pin (S (nlevels s)) s c f g h).
Proof.
  intros s c f g h B Q Hf Hg Hh. apply (lift_qsafe s c); auto.
  - apply (capply_ite_c_safe lt C cget cadd Hlossy); auto; [apply (proj1 Q) | lia].
  - apply (capply_ite_c_frame lt C cget cadd Hlossy).
Qed.

Lemma onot_c_qs : forall s r, RS s r -> RS s (onot_c C r).
Proof. intros s [s' c' x|s' c'|] H; simpl in *; auto. Qed.

Lemma ccombine_c_qs : forall q s c t e, BcOK s -> QOKC s c -> ref_ok s (eref t) -> ref_ok s (eref e) ->
  RS s (ccombine_c lt C cget cadd cap pin s c q t e).
Proof.
  intros q s c t e B Q Ht He. destruct q; unfold ccombine_c; try apply onot_c_qs; apply cbin_qs; auto.
Qed.

Lemma cplain_c_qs : forall o s c f g, BcOK s -> QOKC s c -> ref_ok s (eref f) -> ref_ok s (eref g) ->
  RS s (cplain_c lt C cget cadd cap pin s c o f g).
Proof.
  intros o s c f g B Q Hf Hg. destruct o; unfold cplain_c; try apply onot_c_qs; apply cbin_qs; auto.
Qed.

Lemma cfalse_c_fs : forall s c, BcOK s -> FS s (cfalse_c C s c).
Proof.
  intros s c B. unfold cfalse_c. destruct (cget_terminal_den s false B) as [e [Et _]]. rewrite Et. exact I.
Qed.

Lemma cqfin_c_fs : forall s2 c2 q same lvl code key t e,
  BcOK s2 -> QOKC s2 c2 -> ref_ok s2 (eref t) -> ref_ok s2 (eref e) ->
  FS s2 (cqfin_c lt C cget cadd cap pin s2 c2 q same lvl code key t e).
Proof.
  intros s2 c2 q same lvl code key t e B Q Ht He. unfold cqfin_c. destruct same.
  - apply (gbind_safe C QInv extends extends_trans edge edge Qedge).
    + apply ccombine_c_qs; auto.
    + intros; exact I.
  - apply gfin_safe; [split; assumption | apply extends_refl].
Qed.

(** the popped variable set is a valid edge *)
Lemma cpop_struct : forall s (u : bool) vars lvl, BcOK s -> ref_ok s (eref vars) -> lvl <= nlevels s ->
  exists vars', (if u then Some vars else cset_pop (S (nlevels s)) s vars lvl) = Some vars' /\
                ref_ok s (eref vars').
Proof.
  intros s u vars lvl B Hv Hl. destruct u; [eauto|].
  destruct (vchainc_total s B vars Hv) as [L V].
  pose proof (rlevel_le s (bc_wf s B) (eref vars)).
  destruct (cset_pop_ok s B (S (nlevels s)) vars L lvl Hv V ltac:(lia) Hl) as [vars' [L' [E [O' _]]]].
  eauto.
Qed.

(** the variable set handed to the recursive calls is a valid edge *)
Lemma cvt_struct : forall s (same : bool) vars' vid vnd, BcOK s -> eref vars' = RN vid ->
  find_node s vid = Some vnd ->
  exists vt, (if same then match nchildren vnd with [vt0; _] => Some vt0 | _ => None end else Some vars')
             = Some vt /\ ref_ok s (eref vt).
Proof.
  intros s same vars' vid vnd B Er Evn. destruct same.
  - destruct (bcdd_children s vid vnd B Evn) as [vt [ve Evch]]. rewrite Evch. exists vt.
    split; [reflexivity|]. apply (child_nth s (bc_wf s B) vid vnd 0 vt Evn). rewrite Evch. reflexivity.
  - exists vars'. split; [reflexivity|]. rewrite Er. exists vnd. exact Evn.
Qed.

(** ** [quant] *)

Lemma cquant_ok_safe : forall par q fuel s c f vars s' c' r,
  BcOK s -> QOKC s c -> ref_ok s (eref f) -> ref_ok s (eref vars) ->
  nlevels s - rlevel s (eref f) < fuel ->
  cquant_c lt C cget cadd cap pin par fuel s c q f vars = GOk s' c' r ->
  QInv s' c' /\ extends s s' /\ Qedge s' r.
Proof.
  intros par q fuel s c f vars s' c' r B Q Hf Hv Hfuel E.
  pose proof (sim_never_wrong C no_m2 cap 1 edge _ _ _ _ _ _
                (cquant_sim lt C cget cadd cap pin par fuel s c q f vars) E) as Eu.
  destruct (denc_exists s f B Hf) as [phi D]. destruct (vchainc_total s B vars Hv) as [L V].
  destruct (cquant_rec_ok lt C cget cadd Hlossy Sg q fuel s c f vars phi L B Q D Hv V Hfuel)
    as [s1 [c1 [r1 [E1 [B1 [X1 [Q1 D1]]]]]]].
  rewrite Eu in E1. inversion E1; subst. split; [split; assumption|]. split; [exact X1 | apply (proj1 D1)].
Qed.

Theorem cquant_c_safe : forall par q fuel s c f vars,
  BcOK s -> QOKC s c -> ref_ok s (eref f) -> ref_ok s (eref vars) ->
  nlevels s - rlevel s (eref f) < fuel ->
  RS s (cquant_c lt C cget cadd cap pin par fuel s c q f vars).
Proof.
  intros par q. induction fuel as [|n IH]; intros s c f vars B Q Hf Hv Hfuel; [lia|].
  apply safe_intro; [|intros s' c' r E; apply (cquant_ok_safe par q (S n) s c f vars s' c' r B Q Hf Hv Hfuel E)].
  pose proof (bc_wf s B) as H.
  rewrite cquant_c_S. destruct (eref f) as [tf|fid] eqn:Erf.
  { destruct (negb (is_unique q) || is_term vars); [exact I | apply cfalse_c_fs; exact B]. }
  destruct Hf as [fnd Ef]. rewrite Ef. cbv zeta. rewrite (wf_stored s H fid fnd Ef).
  rewrite (rlevel_node s fid fnd Ef) in Hfuel. pose proof (wf_level s H fid fnd Ef) as Hlv.
  destruct (cpop_struct s (is_unique q) vars (nlevel fnd) B Hv ltac:(lia)) as [vars' [Epop Ov']].
  rewrite Epop. destruct (eref vars') as [tv|vid] eqn:Erv; [exact I|].
  destruct Ov' as [vnd Evn]. rewrite Evn. rewrite (wf_stored s H vid vnd Evn).
  destruct (is_unique q && Nat.ltb (nlevel vnd) (nlevel fnd)); [apply cfalse_c_fs; exact B|].
  destruct (cget c (cqcode q) [f; vars']); [exact I|].
  destruct (bcdd_children s fid fnd B Ef) as [a [b Ech]]. unfold ccofs. rewrite Ech.
  assert (Ha : nth_error (nchildren fnd) 0 = Some a) by (rewrite Ech; reflexivity).
  assert (Hb : nth_error (nchildren fnd) 1 = Some b) by (rewrite Ech; reflexivity).
  destruct (child_nth s H fid fnd 0 a Ef Ha) as [Oft Lft].
  destruct (child_nth s H fid fnd 1 b Ef Hb) as [Ofe Lfe].
  destruct (cvt_struct s (Nat.eqb (nlevel vnd) (nlevel fnd)) vars' vid vnd B Erv Evn) as [vt [Evt Ovt]].
  rewrite Evt.
  apply (gjoin2_safe_q C QInv extends extends_trans edge edge edge Qedge Qedge).
  - exact qedge_mono.
  - apply IH; auto. simpl. lia.
  - intros s1 c1 [B1 Q1] X1. apply IH; auto.
    + apply (ext_ref_ok _ _ _ X1). exact Ofe.
    + apply (ext_ref_ok _ _ _ X1). exact Ovt.
    + simpl. rewrite (ext_nlevels _ _ X1), (ext_rlevel _ _ _ X1 Ofe). lia.
  - intros s2 c2 t e [B2 Q2] X2 Ht He. apply cqfin_c_fs; auto.
Qed.

(** ** [restrict] *)

Section Own.
Variable par : nat -> bool.

Lemma crestrict_ok_safe : forall fuel s c f vars s' c' r,
  BcOK s -> QOKC s c -> ref_ok s (eref f) -> ref_ok s (eref vars) ->
  nlevels s - rlevel s (eref f) < fuel ->
  crestrict_c C cget cadd cap par fuel s c f vars = GOk s' c' r ->
  QInv s' c' /\ extends s s' /\ Qedge s' r.
Proof.
  intros fuel s c f vars s' c' r B Q Hf Hv Hfuel E.
  pose proof (sim_never_wrong C no_m2 cap 1 edge _ _ _ _ _ _
                (crestrict_sim C cget cadd cap par fuel s c f vars) E) as Eu.
  destruct (denc_exists s f B Hf) as [phi D].
  destruct (lchainc_total s B (eref vars) (etag vars) Hv) as [M V].
  destruct (crestrict_ok C cget cadd Hlossy Sg fuel s c f vars phi M B Q D Hv V Hfuel)
    as [s1 [c1 [r1 [E1 [B1 [X1 [Q1 D1]]]]]]].
  rewrite Eu in E1. inversion E1; subst. split; [split; assumption|]. split; [exact X1 | apply (proj1 D1)].
Qed.

Theorem crestrict_c_safe : forall fuel s c f vars,
  BcOK s -> QOKC s c -> ref_ok s (eref f) -> ref_ok s (eref vars) ->
  nlevels s - rlevel s (eref f) < fuel ->
  RS s (crestrict_c C cget cadd cap par fuel s c f vars).
Proof.
  induction fuel as [|n IH]; intros s c f vars B Q Hf Hv Hfuel; [lia|].
  apply safe_intro; [|intros s' c' r E; apply (crestrict_ok_safe (S n) s c f vars s' c' r B Q Hf Hv Hfuel E)].
  pose proof (bc_wf s B) as H.
  destruct (denc_exists s f B Hf) as [phi D].
  rewrite crestrict_c_S. destruct (eref f) as [tf|fid] eqn:Erf; [exact I|].
  destruct (eref vars) as [tv|vid] eqn:Erv; [exact I|].
  destruct Hf as [fnd Ef]. destruct Hv as [vnd Ev]. rewrite Ef, Ev.
  rewrite (wf_stored s H fid fnd Ef). rewrite (rlevel_node s fid fnd Ef) in Hfuel.
  pose proof (wf_level s H fid fnd Ef) as Hlf. pose proof (wf_level s H vid vnd Ev) as Hlv.
  assert (D0 : DenC s (mkEdge (eref f) (etag f)) phi) by (rewrite edge_eta; exact D).
  destruct (lchainc_total s B (RN vid) (etag vars) (ex_intro _ vnd Ev)) as [M V].
  destruct (crestrict_inner_ok s B (S (nlevels s + nlevels s)) f (etag f) fid fnd vars (etag vars) vid vnd
              phi M Erf Ef Erv Ev D0 V ltac:(lia)) as [res [Eri P]].
  rewrite Eri. destruct res as [r|vars' f' f_neg fnode']; [exact I|]. simpl in P.
  destruct P as [fid' [vid' [vnd' [phi' [M' [Erf' [Ef' [Erv' [Ev' [D' [V' [Hlt [Hle HE]]]]]]]]]]]]].
  cbv zeta. destruct (cget c ccode_restrict [untag f'; vars']); [exact I|].
  destruct (bcdd_children s fid' fnode' B Ef') as [ft [fe Ech]]. rewrite Ech.
  assert (Hft : nth_error (nchildren fnode') 0 = Some ft) by (rewrite Ech; reflexivity).
  assert (Hfe : nth_error (nchildren fnode') 1 = Some fe) by (rewrite Ech; reflexivity).
  destruct (child_nth s H fid' fnode' 0 ft Ef' Hft) as [Oft Lft].
  destruct (child_nth s H fid' fnode' 1 fe Ef' Hfe) as [Ofe Lfe].
  assert (Ov' : ref_ok s (eref vars')) by (rewrite Erv'; exists vnd'; exact Ev').
  apply (gjoin2_safe C QInv extends extends_trans edge edge edge Qedge Qedge).
  - apply IH; auto. lia.
  - intros s1 c1 [B1 Q1] X1. apply IH; auto.
    + apply (ext_ref_ok _ _ _ X1). exact Ofe.
    + apply (ext_ref_ok _ _ _ X1). exact Ov'.
    + rewrite (ext_nlevels _ _ X1), (ext_rlevel _ _ _ X1 Ofe). lia.
  - intros s2 c2 t e I2 X2. apply gfin_safe; [exact I2 | apply extends_refl].
Qed.

(** ** [substitute] *)

Lemma csubstitute_ok_safe : forall fuel s c f sv id pairs s' c' r,
  BcOK s -> QOKC s c -> ref_ok s (eref f) -> SvOKC s sv pairs -> Sg id = Some pairs ->
  nlevels s - rlevel s (eref f) < fuel ->
  csubstitute_c lt C cget cadd cap pin par fuel s c f sv id = GOk s' c' r ->
  QInv s' c' /\ extends s s' /\ Qedge s' r.
Proof.
  intros fuel s c f sv id pairs s' c' r B Q Hf SV Es Hfuel E.
  pose proof (sim_never_wrong C no_m2 cap 1 edge _ _ _ _ _ _
                (csubstitute_sim lt C cget cadd cap pin par fuel s c f sv id) E) as Eu.
  destruct (denc_exists s f B Hf) as [phi D].
  destruct (csubstitute_ok lt C cget cadd Hlossy Sg fuel s c f sv id pairs phi B Q D SV Es Hfuel)
    as [s1 [c1 [r1 [E1 [B1 [X1 [Q1 D1]]]]]]].
  rewrite Eu in E1. inversion E1; subst. split; [split; assumption|]. split; [exact X1 | apply (proj1 D1)].
Qed.

Theorem csubstitute_c_safe : forall fuel s c f sv id pairs,
  BcOK s -> QOKC s c -> ref_ok s (eref f) -> SvOKC s sv pairs -> Sg id = Some pairs ->
  nlevels s - rlevel s (eref f) < fuel ->
  RS s (csubstitute_c lt C cget cadd cap pin par fuel s c f sv id).
Proof.
  induction fuel as [|n IH]; intros s c f sv id pairs B Q Hf SV Es Hfuel; [lia|].
  apply safe_intro;
    [|intros s' c' r E; apply (csubstitute_ok_safe (S n) s c f sv id pairs s' c' r B Q Hf SV Es Hfuel E)].
  pose proof (bc_wf s B) as H.
  rewrite csubstitute_c_S. destruct (eref f) as [tf|fid] eqn:Erf; [exact I|].
  destruct Hf as [fnd Ef]. rewrite Ef. cbv zeta. rewrite (wf_stored s H fid fnd Ef).
  rewrite (rlevel_node s fid fnd Ef) in Hfuel. pose proof (wf_level s H fid fnd Ef) as Hlv.
  destruct (Nat.leb_spec (length sv) (nlevel fnd)) as [Hlen|Hlen]; [exact I|].
  destruct (cget c (ccode_subst id) [f]); [exact I|].
  destruct (bcdd_children s fid fnd B Ef) as [a [b Ech]]. unfold ccofs. rewrite Ech.
  assert (Ha : nth_error (nchildren fnd) 0 = Some a) by (rewrite Ech; reflexivity).
  assert (Hb : nth_error (nchildren fnd) 1 = Some b) by (rewrite Ech; reflexivity).
  destruct (child_nth s H fid fnd 0 a Ef Ha) as [Oft Lft].
  destruct (child_nth s H fid fnd 1 b Ef Hb) as [Ofe Lfe].
  destruct (nth_error sv (nlevel fnd)) as [r|] eqn:Er; [|apply nth_error_None in Er; lia].
  assert (Or : ref_ok s (eref r)).
  { destruct SV as [F _]. rewrite Forall_forall in F. apply F. eapply nth_error_In; eauto. }
  apply (gjoin2_safe_q C QInv extends extends_trans edge edge edge Qedge Qedge).
  - exact qedge_mono.
  - apply (IH s c _ sv id pairs); auto. simpl. lia.
  - intros s1 c1 [B1 Q1] X1. apply (IH s1 c1 _ sv id pairs); auto.
    + apply (ext_ref_ok _ _ _ X1). exact Ofe.
    + apply (svokc_extends s s1 sv pairs H X1 SV).
    + simpl. rewrite (ext_nlevels _ _ X1), (ext_rlevel _ _ _ X1 Ofe). lia.
  - intros s2 c2 t e [B2 Q2] X2 Ht He.
    apply (gbind_safe C QInv extends extends_trans edge edge Qedge).
    + apply cite_qs; auto. apply (ext_ref_ok _ _ _ X2). exact Or.
    + intros; exact I.
Qed.

End Own.

(** ** [substitute_prepare] *)

Lemma cprepare_fill_c_fs : forall slots s c level, BcOK s -> QOKC s c ->
  level + length slots <= nlevels s ->
  FS s (cprepare_fill_c C cap s c slots level).
Proof.
  induction slots as [|[e|] rest IH]; intros s c level B Q Hlen.
  - exact I.
  - simpl in Hlen. cbn [cprepare_fill_c]. apply gbind_fs_pure. apply IH; auto. lia.
  - simpl in Hlen. cbn [cprepare_fill_c].
    destruct (cget_terminal_den s true B) as [t1 [T1 _]]. destruct (cget_terminal_den s false B) as [t0 [T0 _]].
    rewrite T1, T0.
    destruct (get_or_insert_cap cap s level [t1; t0]) as [[s1 e]|] eqn:Ec; cbn [gfin gbind].
    + destruct (get_or_insert_cap_some cap s level _ _ Ec) as [Eg _].
      destruct (cvar_node_ok s level t1 t0 s1 e B ltac:(lia) T1 T0 Eg) as [B1 [X1 _]].
      apply (fail_safe_from C QInv extends extends_trans _ s s1 _ X1).
      apply gbind_fs_pure. apply IH; auto.
      * apply (qcacheokc_extends C cget Sg s s1 c B X1 Q).
      * rewrite (ext_nlevels _ _ X1). lia.
    + split; [split; assumption | apply extends_refl].
Qed.

Theorem csubstitute_prepare_c_safe : forall s c pairs,
  BcOK s -> QOKC s c -> NoDup (map fst pairs) ->
  (forall v r, In (v, r) pairs -> v < nlevels s /\ ref_ok s (eref r)) ->
  res_safe QInv extends (fun s0 sv => SvOKC s0 sv pairs) s (csubstitute_prepare_c C cap s c pairs).
Proof.
  intros s c pairs B Q Hnd Hp. pose proof (bc_wf s B) as H. apply safe_intro.
  - unfold csubstitute_prepare_c.
    assert (Hv : forall v r, In (v, r) pairs -> v < nlevels s) by (intros v r Hin; apply (Hp v r Hin)).
    destruct (cprepare_slots_ok s pairs [] H Hv ltac:(simpl; lia)) as [slots [E [Hlen _]]].
    rewrite E. apply cprepare_fill_c_fs; auto.
  - intros s' c' sv E.
    pose proof (sim_never_wrong C no_m2 cap 1 _ _ _ _ _ _ _ (csubstitute_prepare_sim C cap s c pairs) E) as Eu.
    destruct (cprepare_ok s pairs B Hnd Hp) as [s0 [sv0 [Ep [B0 [X0 SV]]]]].
    rewrite Ep in Eu. simpl in Eu. inversion Eu; subst.
    split; [split; [exact B0 | apply (qcacheokc_extends C cget Sg s s' c' B X0 Q)]|]. split; assumption.
Qed.

(** ** [apply_quant] *)

Lemma caq_body_c_fs : forall q o k n p (rec : snap -> C -> edge -> edge -> edge -> cres_c C),
  (forall s c a b v, BcOK s -> QOKC s c -> ref_ok s (eref a) -> ref_ok s (eref b) -> ref_ok s (eref v) ->
     nlevels s - Nat.min (rlevel s (eref a)) (rlevel s (eref b)) < n -> RS s (rec s c a b v)) ->
  forall s c f idf fnd g idg gnd vars,
    BcOK s -> QOKC s c -> ref_ok s (eref f) -> ref_ok s (eref g) -> ref_ok s (eref vars) ->
    eref f = RN idf -> find_node s idf = Some fnd ->
    eref g = RN idg -> find_node s idg = Some gnd ->
    nlevels s - Nat.min (nlevel fnd) (nlevel gnd) < S n ->
    FS s (caq_body_c lt C cget cadd cap pin p rec s c q o k f fnd g gnd vars).
Proof.
  intros q o k n p rec IH s c f idf fnd g idg gnd vars B Q Hf Hg Hv Erf Ef Erg Eg Hfuel.
  pose proof (bc_wf s B) as H.
  pose proof (wf_level s H idf fnd Ef) as Hlf. pose proof (wf_level s H idg gnd Eg) as Hlg.
  destruct (denc_exists s f B Hf) as [phi Df]. destruct (denc_exists s g B Hg) as [psi Dg].
  unfold caq_body_c. cbv zeta.
  rewrite (wf_stored s H idf fnd Ef), (wf_stored s H idg gnd Eg).
  set (m := Nat.min (nlevel fnd) (nlevel gnd)) in *.
  destruct (cpop_struct s (is_unique q) vars m B Hv ltac:(lia)) as [vars' [Epop Ov']].
  rewrite Epop.
  assert (Plain : FS s (cplain_c lt C cget cadd cap pin s c o f g))
    by (eapply res_fail_safe; apply cplain_c_qs; auto).
  destruct (eref vars') as [tv|vid] eqn:Erv; [exact Plain|].
  destruct Ov' as [vnd Evn]. rewrite Evn. rewrite (wf_stored s H vid vnd Evn).
  destruct (Nat.ltb (nlevel vnd) m && is_unique q); [apply cfalse_c_fs; exact B|].
  destruct (Nat.ltb (nlevel vnd) m); [exact Plain|].
  destruct (cget c k [f; g; vars']); [exact I|].
  destruct (cvt_struct s (Nat.eqb (nlevel vnd) m) vars' vid vnd B Erv Evn) as [vt [Evt Ovt]].
  rewrite Evt.
  rewrite (pair_is_ccof2 f fnd (nlevel gnd) (wf_stored s H idf fnd Ef)).
  rewrite (pair_is_ccof2 g gnd (nlevel fnd) (wf_stored s H idg gnd Eg)).
  rewrite (Nat.min_comm (nlevel gnd) (nlevel fnd)). fold m.
  destruct (ccof2_ok s f idf fnd phi m B Df Erf Ef ltac:(lia)) as [ft [fe [Ecf [Dft [Dfe [Lft Lfe]]]]]].
  destruct (ccof2_ok s g idg gnd psi m B Dg Erg Eg ltac:(lia)) as [gt' [ge [Ecg [Dgt [Dge [Lgt Lge]]]]]].
  rewrite Ecf, Ecg.
  apply (gjoin2_safe_q C QInv extends extends_trans edge edge edge Qedge Qedge).
  - exact qedge_mono.
  - apply IH; auto; [apply (proj1 Dft) | apply (proj1 Dgt) | lia].
  - intros s1 c1 [B1 Q1] X1. apply IH; auto.
    + apply (ext_ref_ok _ _ _ X1 (proj1 Dfe)).
    + apply (ext_ref_ok _ _ _ X1 (proj1 Dge)).
    + apply (ext_ref_ok _ _ _ X1 Ovt).
    + rewrite (ext_nlevels _ _ X1), (ext_rlevel _ _ _ X1 (proj1 Dfe)), (ext_rlevel _ _ _ X1 (proj1 Dge)). lia.
  - intros s2 c2 t e [B2 Q2] X2 Ht He. apply cqfin_c_fs; auto.
Qed.

Section Own2.
Variable par : nat -> bool.

Lemma capply_quant_ok_safe : forall q o k, caqcode q o = Some k ->
  forall fuel s c f g vars s' c' r,
  BcOK s -> QOKC s c -> ref_ok s (eref f) -> ref_ok s (eref g) -> ref_ok s (eref vars) ->
  nlevels s - Nat.min (rlevel s (eref f)) (rlevel s (eref g)) < fuel ->
  capply_quant_c lt C cget cadd cap pin par fuel s c q o f g vars = GOk s' c' r ->
  QInv s' c' /\ extends s s' /\ Qedge s' r.
Proof.
  intros q o k Ek fuel s c f g vars s' c' r B Q Hf Hg Hv Hfuel E.
  pose proof (sim_never_wrong C no_m2 cap 1 edge _ _ _ _ _ _
                (capply_quant_sim lt C cget cadd cap pin par fuel s c q o f g vars) E) as Eu.
  destruct (denc_exists s f B Hf) as [phi Df]. destruct (denc_exists s g B Hg) as [psi Dg].
  destruct (vchainc_total s B vars Hv) as [L V].
  destruct (capply_quant_ok lt C cget cadd Hlossy Sg q o k Ek fuel s c f g vars phi psi L B Q Df Dg Hv V Hfuel)
    as [s1 [c1 [r1 [E1 [B1 [X1 [Q1 D1]]]]]]].
  rewrite Eu in E1. inversion E1; subst. split; [split; assumption|]. split; [exact X1 | apply (proj1 D1)].
Qed.

Theorem capply_quant_c_safe : forall q o k, caqcode q o = Some k ->
  forall fuel s c f g vars,
  BcOK s -> QOKC s c -> ref_ok s (eref f) -> ref_ok s (eref g) -> ref_ok s (eref vars) ->
  nlevels s - Nat.min (rlevel s (eref f)) (rlevel s (eref g)) < fuel ->
  RS s (capply_quant_c lt C cget cadd cap pin par fuel s c q o f g vars).
Proof.
  intros q o k Ek. induction fuel as [|n IH]; intros s c f g vars B Q Hf Hg Hv Hfuel; [lia|].
  apply safe_intro;
    [|intros s' c' r E; apply (capply_quant_ok_safe q o k Ek (S n) s c f g vars s' c' r B Q Hf Hg Hv Hfuel E)].
  pose proof (bc_wf s B) as H.
  rewrite capply_quant_c_S, Ek.
  destruct (denc_exists s f B Hf) as [phi Df]. destruct (denc_exists s g B Hg) as [psi Dg].
  set (cop_of := match o with AQXor => CXor | _ => CAnd end).
  assert (Et : (match o with AQXor => cterminal_xor s f g | _ => cterminal_and s f g end)
               = cterminal s cop_of f g) by (unfold cop_of; destruct o; reflexivity).
  rewrite Et. pose proof (cterminal_sound s cop_of f g phi psi B Df Dg) as T.
  destruct (cterminal s cop_of f g) as [h|fn gn|]; [| |contradiction].
  - assert (Oh : ref_ok s (eref (match o with AQNand => enot h | _ => h end)))
      by (destruct o; apply (proj1 T)).
    eapply res_fail_safe. apply cquant_c_safe; auto.
    pose proof (rlevel_le s H (eref (match o with AQNand => enot h | _ => h end))). lia.
  - destruct T as [idf [idg [Erf [Ef [Erg Eg]]]]].
    rewrite Erf, Erg, (rlevel_node s idf fn Ef), (rlevel_node s idg gn Eg) in Hfuel.
    destruct (lt f g).
    + apply (caq_body_c_fs q o k n (par n) _ IH s c f idf fn g idg gn vars); auto.
    + apply (caq_body_c_fs q o k n (par n) _ IH s c g idg gn f idf fn vars); auto. lia.
Qed.

Lemma aq_c_safe : forall q o k, caqcode q o = Some k -> forall s c f g vars,
  BcOK s -> QOKC s c -> ref_ok s (eref f) -> ref_ok s (eref g) -> ref_ok s (eref vars) ->
  RS s (aq_c lt C cget cadd cap pin par s c q o f g vars).
Proof.
  intros q o k Ek s c f g vars B Q Hf Hg Hv. unfold aq_c.
  apply (capply_quant_c_safe q o k Ek); auto. lia.
Qed.

Theorem capply_quant_edge_c_safe : forall q op s c f g vars,
  BcOK s -> QOKC s c -> ref_ok s (eref f) -> ref_ok s (eref g) -> ref_ok s (eref vars) ->
  RS s (capply_quant_edge_c lt C cget cadd cap pin par s c q op f g vars).
Proof.
  intros q op s c f g vars B Q Hf Hg Hv.
  assert (Hnf : ref_ok s (eref (enot f))) by exact Hf.
  assert (Hng : ref_ok s (eref (enot g))) by exact Hg.
  destruct q; unfold capply_quant_edge_c, capply_quant_dispatch_c, capply_quant_unique_dispatch_c;
    destruct op; try apply onot_c_qs; (eapply aq_c_safe; [reflexivity | auto ..]).
Qed.

Theorem csubstitute_edge_c_safe : forall s c f pairs id,
  BcOK s -> QOKC s c -> ref_ok s (eref f) -> NoDup (map fst pairs) ->
  (forall v r, In (v, r) pairs -> v < nlevels s /\ ref_ok s (eref r)) -> Sg id = Some pairs ->
  RS s (csubstitute_edge_c lt C cget cadd cap pin par s c f pairs id).
Proof.
  intros s c f pairs id B Q Hf Hnd Hp Es. unfold csubstitute_edge_c.
  pose proof (csubstitute_prepare_c_safe s c pairs B Q Hnd Hp) as P.
  destruct (csubstitute_prepare_c C cap s c pairs) as [s0 c0 sv|s0 c0|]; simpl in P |- *;
    [|exact P|contradiction].
  destruct P as [[B0 Q0] [X0 SV]].
  apply (res_safe_from C QInv extends extends_trans _ _ s s0 _ X0).
  apply (csubstitute_c_safe par (S (nlevels s0)) s0 c0 f sv id pairs); auto.
  - apply (ext_ref_ok _ _ _ X0). exact Hf.
  - pose proof (rlevel_le s0 (bc_wf s0 B0) (eref f)). lia.
Qed.

(** ** The four families at once *)

(** what the caller must guarantee: the operands are valid edges; for
    [substitute]: the variables are distinct and exist, the replacements are
    valid edges, the substitution object is registered under its id *)
Definition cqcall_ok (s : snap) (k : cqcall) : Prop :=
  match k with
  | CQQuant q f vars => ref_ok s (eref f) /\ ref_ok s (eref vars)
  | CQApplyQuant q op f g vars => ref_ok s (eref f) /\ ref_ok s (eref g) /\ ref_ok s (eref vars)
  | CQRestrict f vars => ref_ok s (eref f) /\ ref_ok s (eref vars)
  | CQSubst f pairs id =>
    ref_ok s (eref f) /\ NoDup (map fst pairs) /\
    (forall v r, In (v, r) pairs -> v < nlevels s /\ ref_ok s (eref r)) /\ Sg id = Some pairs
  end.

Theorem cqrun_c_safe : forall s c k, BcOK s -> QOKC s c -> cqcall_ok s k ->
  RS s (cqrun_c lt C cget cadd cap par pin s c k).
Proof.
  intros s c k B Q Hk. pose proof (bc_wf s B) as H.
  destruct k as [q f vars|q op f g vars|f vars|f pairs id]; simpl in Hk; unfold cqrun_c.
  - destruct Hk as [Hf Hv]. unfold cquant_edge_c. apply cquant_c_safe; auto.
    pose proof (rlevel_le s H (eref f)). lia.
  - destruct Hk as [Hf [Hg Hv]]. apply capply_quant_edge_c_safe; auto.
  - destruct Hk as [Hf Hv]. unfold crestrict_edge_c. apply crestrict_c_safe; auto.
    pose proof (rlevel_le s H (eref f)). lia.
  - destruct Hk as [Hf [Hnd [Hp Es]]]. apply csubstitute_edge_c_safe; auto.
Qed.

End Own2.
End Safe.
