(** * Out-of-memory behaviour of the BCDD quantification / apply-and-quantify /
      restriction / substitution algorithms (Mgr/OomBcddQ.v): the C14 statements

    One call type [cqcall] for the four families ([forall/exists/unique_edge],
    [apply_forall/exists/unique_edge] with all 8 operators, [restrict_edge],
    [substitute_edge] including [substitute_prepare]); [cqrun_c] = the bounded
    entry point, [cqrun_u] = the entry point of DD/QuantBcdd.v.  For every edge
    order, cache that only serves what was added, capacity (= every failure
    point), recursor of the algorithm and recursor of its inner calls:

    - [cq_never_wrong], [cq_retry], [cq_monotone]: no hypothesis;
    - under [QInv] ([BcOK] + [QCacheOKC]) and [cqcall_ok] (operands valid):
      [cq_never_wrong_sem], [cq_safe], [cq_no_panic], [cq_exact],
      [cq_outcome_recursor_indep]. *)

From Coq Require Import List NArith PArith Bool Arith Lia FMapPositive.
From OxiVerif Require Import DD.Table DD.TableProofs DD.Sem DD.Build DD.BuildProofs
  DD.Apply DD.ApplyBcdd DD.ApplyBcddProofs DD.ApplyBcddEval
  DD.Quant DD.QuantSpecProofs DD.QuantBcdd DD.QuantBcddLemmas DD.SubstBcddProofs DD.QuantBcddTop
  Mgr.Oom Mgr.OomProofs.
From OxiVerif Require Import Mgr.OomGen Mgr.OomGenProofs Mgr.OomBcdd Mgr.OomBcddProofs Mgr.OomBcddSafe
  Mgr.OomBcddQ Mgr.OomBcddQProofs Mgr.OomBcddQSafe.
Import ListNotations.

(** the semantic statement of a result [r] in table [s'] for call [k] issued in
    table [s] (the conclusions of [cquant_edge_sound], [capply_quant_edge_sound],
    [crestrict_edge_sound], [csubstitute_edge_sound] of DD/QuantBcddTop.v) *)
Definition cqcall_spec (s : snap) (k : cqcall) (s' : snap) (r : edge) : Prop :=
  match k with
  | CQQuant q f vars =>
    forall vs, (forall v, In v vs -> v < nlevels s) -> is_varsetC s vars vs -> (q = QUnique -> NoDup vs) ->
    forall a, cbfun_of s' r a = quant (qfun q) vs (cbfun_of s f) a
  | CQApplyQuant q op f g vars =>
    forall vs, (forall v, In v vs -> v < nlevels s) -> is_varsetC s vars vs -> (q = QUnique -> NoDup vs) ->
    forall a, cbfun_of s' r a = quant (qfun q) vs (lift2 op (cbfun_of s f) (cbfun_of s g)) a
  | CQRestrict f vars =>
    forall lits, NoDup (map fst lits) -> (forall p, In p lits -> fst p < nlevels s) -> is_cubeC s vars lits ->
    forall a, cbfun_of s' r a = restrict_s lits (cbfun_of s f) a
  | CQSubst f pairs id =>
    forall a, cbfun_of s' r a =
              subst_s (map (fun p => (fst p, cbfun_of s (snd p))) pairs) (cbfun_of s f) a
  end.

(** the state after a failure *)
Definition cqfailed_ok {C : Type} (cget : C -> N -> list edge -> option edge)
    (Sg : N -> option (list (nat * edge))) (cap : nat) (s s' : snap) (c' : C) : Prop :=
  QInv C cget Sg s' c' /\ extends s s' /\ intact_c s s' /\
  node_count s <= node_count s' /\ cap <= node_count s'.

(** the unbounded entry points are total and correct (C04) *)
Theorem cqrun_u_sound : forall lt C cget cadd Sg s c k,
  lossyC cget cadd -> QInv C cget Sg s c -> cqcall_ok Sg s k ->
  exists s' c' r, cqrun_u lt C cget cadd s c k = Some (s', c', r) /\
    QInv C cget Sg s' c' /\ extends s s' /\ ref_ok s' (eref r) /\ cqcall_spec s k s' r.
Proof.
  intros lt C cget cadd Sg s c k Hl [B Q] Hk.
  destruct k as [q f vars|q op f g vars|f vars|f pairs id]; simpl in Hk; unfold cqrun_u, cqcall_spec.
  - destruct Hk as [Hf Hv].
    destruct (cquant_edge_sound lt C cget cadd Hl Sg q s c f vars B Q Hf Hv)
      as [s' [c' [r [E [B' [X [Q' [R V]]]]]]]].
    exists s', c', r. split; [exact E|]. split; [split; assumption|]. auto.
  - destruct Hk as [Hf [Hg Hv]].
    destruct (capply_quant_edge_sound lt C cget cadd Hl Sg q op s c f g vars B Q Hf Hg Hv)
      as [s' [c' [r [E [B' [X [Q' [R V]]]]]]]].
    exists s', c', r. split; [exact E|]. split; [split; assumption|]. auto.
  - destruct Hk as [Hf Hv].
    destruct (crestrict_edge_sound C cget cadd Hl Sg s c f vars B Q Hf Hv)
      as [s' [c' [r [E [B' [X [Q' [R V]]]]]]]].
    exists s', c', r. split; [exact E|]. split; [split; assumption|]. auto.
  - destruct Hk as [Hf [Hnd [Hp Es]]].
    destruct (csubstitute_edge_sound lt C cget cadd Hl Sg s c f pairs id B Q Hf Hnd Hp Es)
      as [s' [c' [r [E [B' [X [Q' [R V]]]]]]]].
    exists s', c', r. split; [exact E|]. split; [split; assumption|]. auto.
Qed.

Lemma cqfailed_of_state : forall C cget Sg cap s s' (c' : C), BcOK s ->
  failed_state C no_m2 cap 1 (QInv C cget Sg) extends s s' c' -> cqfailed_ok cget Sg cap s s' c'.
Proof.
  intros C cget Sg cap s s' c' B [I [X [G F]]]. simpl in G, F. unfold no_m2 in *.
  split; [exact I|]. split; [exact X|]. split; [apply (extends_intact_c s s' B X)|]. lia.
Qed.

(** *** never a wrong edge: a result is literally the result of the unbounded run *)
Theorem cq_never_wrong : forall lt C cget cadd cap par pin s c k s' c' r,
  cqrun_c lt C cget cadd cap par pin s c k = GOk s' c' r ->
  cqrun_u lt C cget cadd s c k = Some (s', c', r).
Proof.
  intros lt C cget cadd cap par pin s c k s' c' r E.
  apply (sim_never_wrong C no_m2 cap 1 edge _ _ _ _ _ _ (cqrun_sim lt C cget cadd cap pin par s c k) E).
Qed.

(** *** retry: when the table of the unbounded run fits, the bounded run
    succeeds with exactly that result *)
Theorem cq_retry : forall lt C cget cadd cap par pin s c k su cu ru,
  cqrun_u lt C cget cadd s c k = Some (su, cu, ru) -> node_count su <= cap ->
  cqrun_c lt C cget cadd cap par pin s c k = GOk su cu ru.
Proof.
  intros lt C cget cadd cap par pin s c k su cu ru E Hfit.
  pose proof (cqrun_sim lt C cget cadd cap pin par s c k) as M. rewrite E in M.
  destruct M as [_ [G F]]. simpl in G. apply F. simpl. unfold no_m2 in *. lia.
Qed.

(** *** monotone in the capacity, independent of the recursors *)
Theorem cq_monotone : forall lt C cget cadd cap cap' par par' pin pin' s c k s' c' r, cap <= cap' ->
  cqrun_c lt C cget cadd cap par pin s c k = GOk s' c' r ->
  cqrun_c lt C cget cadd cap' par' pin' s c k = GOk s' c' r.
Proof.
  intros lt C cget cadd cap cap' par par' pin pin' s c k s' c' r Hle E.
  apply (sim_monotone C edge no_m2 cap 1 cap' 1 s _ _ _ s' c' r Hle (le_n 1)
           (cqrun_sim lt C cget cadd cap pin par s c k)
           (cqrun_sim lt C cget cadd cap' pin' par' s c k) E).
Qed.

(** *** ... hence the quantification / cofactor / substitution of the operands
    (C04), in a table in which everything that existed before is intact *)
Theorem cq_never_wrong_sem : forall lt C cget cadd Sg cap par pin s c k s' c' r,
  lossyC cget cadd -> QInv C cget Sg s c -> cqcall_ok Sg s k ->
  cqrun_c lt C cget cadd cap par pin s c k = GOk s' c' r ->
  QInv C cget Sg s' c' /\ intact_c s s' /\ ref_ok s' (eref r) /\ cqcall_spec s k s' r.
Proof.
  intros lt C cget cadd Sg cap par pin s c k s' c' r Hl I Hk E.
  apply cq_never_wrong in E.
  destruct (cqrun_u_sound lt C cget cadd Sg s c k Hl I Hk) as [s1 [c1 [r1 [E1 [I1 [X1 [R1 V1]]]]]]].
  rewrite E in E1. inversion E1; subst s1 c1 r1.
  split; [exact I1|]. split; [apply (extends_intact_c s s' (proj1 I) X1)|]. auto.
Qed.

(** the safe-run fact in the form the statements below use *)
Lemma cq_rs : forall lt C cget cadd Sg cap par pin s c k,
  lossyC cget cadd -> QInv C cget Sg s c -> cqcall_ok Sg s k ->
  res_safe (QInv C cget Sg) extends Qedge s (cqrun_c lt C cget cadd cap par pin s c k).
Proof.
  intros lt C cget cadd Sg cap par pin s c k Hl [B Q] Hk.
  apply (cqrun_c_safe lt C cget cadd Hl Sg cap pin par s c k B Q Hk).
Qed.

(** *** the state after a failure *)
Theorem cq_safe : forall lt C cget cadd Sg cap par pin s c k s' c',
  lossyC cget cadd -> QInv C cget Sg s c -> cqcall_ok Sg s k ->
  cqrun_c lt C cget cadd cap par pin s c k = GOom s' c' ->
  cqfailed_ok cget Sg cap s s' c'.
Proof.
  intros lt C cget cadd Sg cap par pin s c k s' c' Hl I Hk E.
  pose proof (cq_rs lt C cget cadd Sg cap par pin s c k Hl I Hk) as S.
  pose proof (cqrun_sim lt C cget cadd cap pin par s c k) as M.
  rewrite E in S, M. apply (cqfailed_of_state C cget Sg cap s s' c' (proj1 I)).
  apply (failed_intro C no_m2 cap 1 (QInv C cget Sg) extends edge Qedge s s' c' _ S M).
Qed.

(** *** no panic, no divergence *)
Theorem cq_no_panic : forall lt C cget cadd Sg cap par pin s c k,
  lossyC cget cadd -> QInv C cget Sg s c -> cqcall_ok Sg s k ->
  cqrun_c lt C cget cadd cap par pin s c k <> GStuck.
Proof.
  intros lt C cget cadd Sg cap par pin s c k Hl I Hk E.
  pose proof (cq_rs lt C cget cadd Sg cap par pin s c k Hl I Hk) as S. rewrite E in S. exact S.
Qed.

(** *** exactness: the bounded run fails iff the table of the unbounded run
    does not fit *)
Theorem cq_exact : forall lt C cget cadd Sg cap par pin s c k,
  lossyC cget cadd -> QInv C cget Sg s c -> cqcall_ok Sg s k ->
  exists su cu ru, cqrun_u lt C cget cadd s c k = Some (su, cu, ru) /\
    cqcall_spec s k su ru /\
    (node_count su <= Nat.max cap (node_count s) ->
       cqrun_c lt C cget cadd cap par pin s c k = GOk su cu ru) /\
    (Nat.max cap (node_count s) < node_count su ->
       exists s' c', cqrun_c lt C cget cadd cap par pin s c k = GOom s' c' /\
                     cqfailed_ok cget Sg cap s s' c').
Proof.
  intros lt C cget cadd Sg cap par pin s c k Hl I Hk.
  destruct (cqrun_u_sound lt C cget cadd Sg s c k Hl I Hk) as [su [cu [ru [Eu [_ [_ [_ V]]]]]]].
  exists su, cu, ru. split; [exact Eu|]. split; [exact V|].
  pose proof (cq_rs lt C cget cadd Sg cap par pin s c k Hl I Hk) as S.
  pose proof (cqrun_sim lt C cget cadd cap pin par s c k) as M. rewrite Eu in M.
  destruct (exact_intro C no_m2 cap 1 (QInv C cget Sg) extends edge Qedge s _ su cu ru S M) as [A1 A2].
  destruct M as [_ F]. simpl in F. destruct F as [G _]. unfold no_m2 in *. split.
  - intros Hfit. apply A1. simpl. unfold no_m2. lia.
  - intros Hbig. destruct (A2 (or_introl Hbig)) as [s' [c' [E Fs]]].
    exists s', c'. split; [exact E | apply (cqfailed_of_state C cget Sg cap s s' c' (proj1 I) Fs)].
Qed.

(** failing or not does not depend on the recursors *)
Theorem cq_outcome_recursor_indep : forall lt C cget cadd Sg cap par par' pin pin' s c k,
  lossyC cget cadd -> QInv C cget Sg s c -> cqcall_ok Sg s k ->
  gres_code (cqrun_c lt C cget cadd cap par pin s c k) =
  gres_code (cqrun_c lt C cget cadd cap par' pin' s c k).
Proof.
  intros lt C cget cadd Sg cap par par' pin pin' s c k Hl I Hk.
  destruct (cq_exact lt C cget cadd Sg cap par pin s c k Hl I Hk) as [su [cu [ru [E [_ [A1 B1]]]]]].
  destruct (cq_exact lt C cget cadd Sg cap par' pin' s c k Hl I Hk) as [su' [cu' [ru' [E' [_ [A2 B2]]]]]].
  rewrite E in E'. inversion E'; subst su' cu' ru'.
  destruct (le_lt_dec (node_count su) (Nat.max cap (node_count s))) as [Hfit|Hbig].
  - rewrite (A1 Hfit), (A2 Hfit). reflexivity.
  - destruct (B1 Hbig) as [s1 [c1 [-> _]]]. destruct (B2 Hbig) as [s2 [c2 [-> _]]]. reflexivity.
Qed.

(** what [cqfailed_ok] / [intact_c] mean, spelled out: [intact_c_elim] of
    Mgr/OomBcddSafe.v applies to the third component *)
Theorem cq_failed_meaning : forall C (cget : C -> N -> list edge -> option edge) Sg cap s s' c',
  cqfailed_ok cget Sg cap s s' c' ->
  BcOK s' /\ QCacheOKC cget Sg s' c' /\ extends s s' /\
  s_handles s' = s_handles s /\
  (forall id nd, find_node s id = Some nd -> find_node s' id = Some nd) /\
  (forall e, ref_ok s (eref e) -> ref_ok s' (eref e) /\ forall k c0, semc s' k e c0 = semc s k e c0) /\
  (forall h, In h (s_handles s) -> forall c0, sem_edge s' (snd h) c0 = sem_edge s (snd h) c0) /\
  (forall id, find_node s id = None -> ~ reachable s' (handle_refs s') (RN id)) /\
  node_count s <= node_count s' /\ cap <= node_count s'.
Proof.
  intros C cget Sg cap s s' c' [[B Q] [X [N [G F]]]].
  destruct (intact_c_elim s s' N) as [A1 [_ [_ [_ [A5 [A6 [A7 [A8 _]]]]]]]].
  repeat (split; [assumption|]). assumption.
Qed.

(** ** The cache-less instances the correspondence run evaluates ([cq_run_nc] and
    [cq_quant_nc] / [cq_aquant_nc] / [cq_restrict_nc] / [cq_subst_nc] of
    Mgr/OomBcddQ.v): the hypotheses reduce to the two checkers [bcok_b] and
    [cqcall_ok_b] *)

(** the cache-less instance satisfies every cache invariant *)
Lemma qcacheokc_enc : forall Sg s, QCacheOKC enc_get Sg s tt.
Proof. intros Sg s. split; [apply enc_ok|]. intros code args r E. discriminate. Qed.

(** the registry in which the substitution object of call [k] is registered under its id *)
Definition cq_sg_of (k : cqcall) : N -> option (list (nat * edge)) :=
  match k with
  | CQSubst _ pairs id => csg_add (fun _ => None) id pairs
  | _ => fun _ => None
  end.

Lemma nat_nodup_b_spec : forall l, nat_nodup_b l = true -> NoDup l.
Proof.
  induction l as [|x r IH]; intros E; [constructor|].
  simpl in E. apply andb_true_iff in E. destruct E as [E1 E2]. constructor; [|apply IH; exact E2].
  intros Hin. apply negb_true_iff in E1.
  assert (Ex : existsb (Nat.eqb x) r = true) by (apply existsb_exists; exists x; split; [exact Hin | apply Nat.eqb_refl]).
  congruence.
Qed.

Theorem cqcall_ok_b_spec : forall s k, cqcall_ok_b s k = true -> cqcall_ok (cq_sg_of k) s k.
Proof.
  intros s k E. destruct k as [q f vars|q op f g vars|f vars|f pairs id]; simpl in E |- *;
    repeat (apply andb_true_iff in E; destruct E as [E ?]);
    repeat match goal with H : ref_ok_b _ _ = true |- _ => apply ref_ok_b_spec in H end; auto.
  split; [assumption|]. split; [apply nat_nodup_b_spec; assumption|]. split.
  - intros v r Hin. rewrite forallb_forall in H. specialize (H (v, r) Hin). simpl in H.
    apply andb_true_iff in H. destruct H as [Hv Hr]. apply Nat.ltb_lt in Hv. apply ref_ok_b_spec in Hr. auto.
  - unfold csg_add. rewrite N.eqb_refl. reflexivity.
Qed.

Theorem cq_nc_inv : forall Sg s, BcOK s -> QInv unit enc_get Sg s tt.
Proof. intros Sg s B. split; [exact B | apply qcacheokc_enc]. Qed.

Theorem cq_nc_exact : forall cap p s k, BcOK s -> cqcall_ok_b s k = true ->
  exists su ru, cqrun_u lt_none unit enc_get enc_add s tt k = Some (su, tt, ru) /\
    BcOK su /\ cqcall_spec s k su ru /\
    (node_count su <= Nat.max cap (node_count s) -> cq_run_nc cap p s k = GOk su tt ru) /\
    (Nat.max cap (node_count s) < node_count su ->
       exists s', cq_run_nc cap p s k = GOom s' tt /\ cqfailed_ok enc_get (cq_sg_of k) cap s s' tt).
Proof.
  intros cap p s k B Hk. apply cqcall_ok_b_spec in Hk.
  pose proof (cq_nc_inv (cq_sg_of k) s B) as I.
  destruct (cq_exact lt_none unit enc_get enc_add (cq_sg_of k) cap (fun _ => p) (fun _ => p) s tt k
              enc_lossy I Hk) as [su [[] [ru [E [V [A F]]]]]].
  destruct (cqrun_u_sound lt_none unit enc_get enc_add (cq_sg_of k) s tt k enc_lossy I Hk)
    as [s1 [c1 [r1 [E1 [[B1 _] _]]]]].
  rewrite E in E1. inversion E1; subst s1 c1 r1.
  exists su, ru. split; [exact E|]. split; [exact B1|]. split; [exact V|]. split; [exact A|].
  intros Hbig. destruct (F Hbig) as [s' [[] [Eb Fs]]]. exists s'. split; assumption.
Qed.

Theorem cq_nc_no_panic : forall cap p s k, BcOK s -> cqcall_ok_b s k = true ->
  cq_run_nc cap p s k <> GStuck.
Proof.
  intros cap p s k B Hk. apply cqcall_ok_b_spec in Hk.
  apply (cq_no_panic lt_none unit enc_get enc_add (cq_sg_of k) cap (fun _ => p) (fun _ => p) s tt k
           enc_lossy (cq_nc_inv (cq_sg_of k) s B) Hk).
Qed.
