(** * Out-of-memory behaviour of the BCDD apply algorithms (Mgr/OomBcdd.v), part 2

    Under the invariant of the C02 theorems for BCDDs ([BcOK], [CacheOKC],
    operands are valid edges, standard fuel):

    - [capply_*_c_safe]: the bounded algorithms never get stuck, and whatever
      they return - result or out-of-memory - the table they leave is a
      well-formed BCDD table extending the one they started from, with a correct
      cache;
    - [intact_c]: what "extension" means for the owner of a handle (complement
      edges: [semc]);
    - [coom_*]: the C14 statements for [capply_not_c], [capply_op_c] (all eight
      operators), [capply_ite_c], [cmk_var_cap]. *)

From Coq Require Import List NArith PArith Bool Arith Lia FMapPositive.
From OxiVerif Require Import DD.Table DD.TableProofs DD.Canon DD.Sem DD.Build DD.BuildProofs DD.PickInsert
  DD.Apply DD.ApplyProofs DD.ApplyBcdd DD.ApplyBcddProofs DD.ApplyBcddIte DD.ApplyBcddEval
  Mgr.Oom Mgr.OomProofs.
From OxiVerif Require Import Mgr.OomGen Mgr.OomGenProofs Mgr.OomBcdd Mgr.OomBcddProofs.
Import ListNotations.

(** ** What an extension preserves (complement edges) *)

Record intact_c (s s' : snap) : Prop := mkIntactC {
  (* handles, order, stored nodes unchanged; added nodes unreachable; live part unchanged *)
  ic_base : intact0 s s';
  (* same terminal *)
  ic_terms : s_terms s' = s_terms s;
  (* every valid edge stays valid and means the same function *)
  ic_sem : forall e, ref_ok s (eref e) ->
             ref_ok s' (eref e) /\ forall k c0, semc s' k e c0 = semc s k e c0;
  (* every handle has the same value under every assignment *)
  ic_handle_sem : forall h, In h (s_handles s) ->
             forall c0, sem_edge s' (snd h) c0 = sem_edge s (snd h) c0
}.

Theorem extends_intact_c : forall s s', BcOK s -> extends s s' -> intact_c s s'.
Proof.
  intros s s' B X. pose proof (bc_wf s B) as H. constructor.
  - apply (next_intact0 s s' H (next_of_extends s s' X)).
  - apply (ext_terms _ _ X).
  - intros e He. split; [apply (ext_ref_ok _ _ _ X He)|].
    intros k c0. apply (semc_extends s s' H X k e c0 He).
  - intros h Hh c0. unfold sem_edge. rewrite (ext_kind _ _ X), (bc_kind s B), (ext_nlevels _ _ X).
    f_equal. apply (semc_extends s s' H X). apply (wf_handles s H h Hh).
Qed.

Theorem intact_c_elim : forall s s', intact_c s s' ->
  s_handles s' = s_handles s /\
  s_v2l s' = s_v2l s /\ s_l2v s' = s_l2v s /\ s_terms s' = s_terms s /\
  (forall id nd, find_node s id = Some nd -> find_node s' id = Some nd) /\
  (forall e, ref_ok s (eref e) -> ref_ok s' (eref e) /\ forall k c0, semc s' k e c0 = semc s k e c0) /\
  (forall h, In h (s_handles s) -> forall c0, sem_edge s' (snd h) c0 = sem_edge s (snd h) c0) /\
  (forall id, find_node s id = None -> ~ reachable s' (handle_refs s') (RN id)) /\
  (forall r, reachable s' (handle_refs s') r <-> reachable s (handle_refs s) r).
Proof.
  intros s s' [[A [B1 B2] C0 F G] T D E0]. repeat (split; [assumption|]). assumption.
Qed.

Section Safe.
Variable lt : edge -> edge -> bool.
Variable C : Type.
Variable cget : C -> N -> list edge -> option edge.
Variable cadd : C -> N -> list edge -> edge -> C.
Hypothesis Hlossy : lossyC cget cadd.
Variable cap : nat.
Variable par : nat -> bool.

Definition CInv (s : snap) (c : C) : Prop := BcOK s /\ CacheOKC cget s c.
Definition Qedge (s : snap) (r : edge) : Prop := ref_ok s (eref r).

Notation RS := (res_safe CInv extends Qedge).
Notation FS := (fail_safe CInv extends).

(** ** [capply_bin_c] *)

Lemma cbin_ok_safe : forall op fuel s c f g s' c' r,
  BcOK s -> CacheOKC cget s c -> ref_ok s (eref f) -> ref_ok s (eref g) ->
  nlevels s - Nat.min (rlevel s (eref f)) (rlevel s (eref g)) < fuel ->
  capply_bin_c lt C cget cadd cap par fuel s c op f g = GOk s' c' r ->
  CInv s' c' /\ extends s s' /\ Qedge s' r.
Proof.
  intros op fuel s c f g s' c' r B O Hf Hg Hfuel E.
  pose proof (sim_never_wrong C no_m2 cap 1 edge _ _ _ _ _ _ (capply_bin_sim lt C cget cadd cap par fuel s c op f g) E) as Eu.
  destruct (denc_exists s f B Hf) as [phi Df]. destruct (denc_exists s g B Hg) as [psi Dg].
  destruct (capply_bin_ok lt C cget cadd Hlossy op fuel s c f g phi psi B O Df Dg Hfuel)
    as [s1 [c1 [r1 [E1 [B1 [X1 [O1 [D1 _]]]]]]]].
  rewrite Eu in E1. inversion E1; subst. split; [split; assumption|]. split; [exact X1 | apply (proj1 D1)].
Qed.

Lemma cbin_step_c_fs : forall op n p (rec : snap -> C -> edge -> edge -> cres_c C),
  (forall s c f g, BcOK s -> CacheOKC cget s c -> ref_ok s (eref f) -> ref_ok s (eref g) ->
     nlevels s - Nat.min (rlevel s (eref f)) (rlevel s (eref g)) < n -> RS s (rec s c f g)) ->
  forall s c f idf fnd g idg gnd,
    BcOK s -> CacheOKC cget s c -> ref_ok s (eref f) -> ref_ok s (eref g) ->
    eref f = RN idf -> find_node s idf = Some fnd ->
    eref g = RN idg -> find_node s idg = Some gnd ->
    nlevels s - Nat.min (nlevel fnd) (nlevel gnd) < S n ->
    FS s (cbin_step_c C cget cadd cap p rec s c op f fnd g gnd).
Proof.
  intros op n p rec IH s c f idf fnd g idg gnd B O Hf Hg Erf Ef Erg Eg Hfuel.
  pose proof (bc_wf s B) as H.
  pose proof (wf_level s H idf fnd Ef) as Hlf. pose proof (wf_level s H idg gnd Eg) as Hlg.
  destruct (denc_exists s f B Hf) as [phi Df]. destruct (denc_exists s g B Hg) as [psi Dg].
  unfold cbin_step_c. destruct (cget c (cop_code op) [f; g]); [exact I|].
  rewrite (wf_stored s H idf fnd Ef), (wf_stored s H idg gnd Eg).
  set (lvl := Nat.min (nlevel fnd) (nlevel gnd)) in *. cbv zeta.
  destruct (ccof2_ok s f idf fnd phi lvl B Df Erf Ef ltac:(lia)) as [ft [fe [Ecf [Dft [Dfe [Lft Lfe]]]]]].
  destruct (ccof2_ok s g idg gnd psi lvl B Dg Erg Eg ltac:(lia)) as [gt' [ge [Ecg [Dgt [Dge [Lgt Lge]]]]]].
  rewrite Ecf, Ecg.
  apply (gjoin2_safe C CInv extends extends_trans edge edge edge Qedge Qedge).
  - apply IH; auto; [apply (proj1 Dft) | apply (proj1 Dgt) | lia].
  - intros s1 c1 [B1 O1] X1.
    apply IH; auto; [apply (ext_ref_ok _ _ _ X1 (proj1 Dfe)) | apply (ext_ref_ok _ _ _ X1 (proj1 Dge))|].
    rewrite (ext_nlevels _ _ X1), (ext_rlevel _ _ _ X1 (proj1 Dfe)), (ext_rlevel _ _ _ X1 (proj1 Dge)). lia.
  - intros s2 c2 t e I2 X2. apply gfin_safe; [exact I2 | apply extends_refl].
Qed.

Theorem capply_bin_c_safe : forall op fuel s c f g,
  BcOK s -> CacheOKC cget s c -> ref_ok s (eref f) -> ref_ok s (eref g) ->
  nlevels s - Nat.min (rlevel s (eref f)) (rlevel s (eref g)) < fuel ->
  RS s (capply_bin_c lt C cget cadd cap par fuel s c op f g).
Proof.
  intros op. induction fuel as [|n IH]; intros s c f g B O Hf Hg Hfuel; [lia|].
  apply safe_intro; [|intros s' c' r E; apply (cbin_ok_safe op (S n) s c f g s' c' r B O Hf Hg Hfuel E)].
  rewrite capply_bin_c_S.
  destruct (denc_exists s f B Hf) as [phi Df]. destruct (denc_exists s g B Hg) as [psi Dg].
  pose proof (cterminal_sound s op f g phi psi B Df Dg) as T.
  destruct (cterminal s op f g) as [r|fn gn|]; [exact I | | contradiction].
  destruct T as [idf [idg [Erf [Ef [Erg Eg]]]]].
  rewrite Erf, Erg, (rlevel_node s idf fn Ef), (rlevel_node s idg gn Eg) in Hfuel.
  destruct (lt f g).
  - apply (cbin_step_c_fs op n (par n) _ IH s c f idf fn g idg gn); auto.
  - apply (cbin_step_c_fs op n (par n) _ IH s c g idg gn f idf fn); auto. lia.
Qed.

(** [Ok(not_owned(r?))] *)
Lemma onot_c_safe : forall s r, RS s r -> RS s (onot_c C r).
Proof.
  intros s [s' c' x|s' c'|] H; simpl in *; auto.
Qed.

Theorem capply_op_c_safe : forall o fuel s c f g,
  BcOK s -> CacheOKC cget s c -> ref_ok s (eref f) -> ref_ok s (eref g) ->
  nlevels s - Nat.min (rlevel s (eref f)) (rlevel s (eref g)) < fuel ->
  RS s (capply_op_c lt C cget cadd cap par fuel s c o f g).
Proof.
  intros o fuel s c f g B O Hf Hg Hfuel.
  destruct o; unfold capply_op_c; try apply onot_c_safe; apply capply_bin_c_safe; auto.
Qed.

(** ** [capply_ite_c] *)

Lemma cite_ok_safe : forall fuel s c f g h s' c' r,
  BcOK s -> CacheOKC cget s c -> ref_ok s (eref f) -> ref_ok s (eref g) -> ref_ok s (eref h) ->
  nlevels s - Nat.min (Nat.min (rlevel s (eref f)) (rlevel s (eref g))) (rlevel s (eref h)) < fuel ->
  capply_ite_c lt C cget cadd cap par fuel s c f g h = GOk s' c' r ->
  CInv s' c' /\ extends s s' /\ Qedge s' r.
Proof.
  intros fuel s c f g h s' c' r B O Hf Hg Hh Hfuel E.
  pose proof (sim_never_wrong C no_m2 cap 1 edge _ _ _ _ _ _ (capply_ite_sim lt C cget cadd cap par fuel s c f g h) E) as Eu.
  destruct (denc_exists s f B Hf) as [phi Df]. destruct (denc_exists s g B Hg) as [psi Dg].
  destruct (denc_exists s h B Hh) as [theta Dh].
  destruct (capply_ite_ok lt C cget cadd Hlossy fuel s c f g h phi psi theta B O Df Dg Dh Hfuel)
    as [s1 [c1 [r1 [E1 [B1 [X1 [O1 [D1 _]]]]]]]].
  rewrite Eu in E1. inversion E1; subst. split; [split; assumption|]. split; [exact X1 | apply (proj1 D1)].
Qed.

Lemma cite_step_c_fs : forall n p (rec : snap -> C -> edge -> edge -> edge -> cres_c C),
  (forall s c f g h, BcOK s -> CacheOKC cget s c ->
     ref_ok s (eref f) -> ref_ok s (eref g) -> ref_ok s (eref h) ->
     nlevels s - Nat.min (Nat.min (rlevel s (eref f)) (rlevel s (eref g))) (rlevel s (eref h)) < n ->
     RS s (rec s c f g h)) ->
  forall s c f idf fnd g idg gnd h idh hnd,
    BcOK s -> CacheOKC cget s c -> ref_ok s (eref f) -> ref_ok s (eref g) -> ref_ok s (eref h) ->
    eref f = RN idf -> find_node s idf = Some fnd ->
    eref g = RN idg -> find_node s idg = Some gnd ->
    eref h = RN idh -> find_node s idh = Some hnd ->
    nlevels s - Nat.min (Nat.min (nlevel fnd) (nlevel gnd)) (nlevel hnd) < S n ->
    FS s (cite_step_c C cget cadd cap p rec s c f fnd g gnd h hnd).
Proof.
  intros n p rec IH s c f idf fnd g idg gnd h idh hnd B O Hf Hg Hh Erf Ef Erg Eg Erh Eh Hfuel.
  pose proof (bc_wf s B) as H.
  pose proof (wf_level s H idf fnd Ef) as Hlf. pose proof (wf_level s H idg gnd Eg) as Hlg.
  pose proof (wf_level s H idh hnd Eh) as Hlh.
  destruct (denc_exists s f B Hf) as [phi Df]. destruct (denc_exists s g B Hg) as [psi Dg].
  destruct (denc_exists s h B Hh) as [theta Dh].
  unfold cite_step_c. destruct (cget c ccode_ite [f; g; h]); [exact I|].
  rewrite (wf_stored s H idf fnd Ef), (wf_stored s H idg gnd Eg), (wf_stored s H idh hnd Eh).
  set (lvl := Nat.min (Nat.min (nlevel fnd) (nlevel gnd)) (nlevel hnd)) in *. cbv zeta.
  destruct (ccof2_ok s f idf fnd phi lvl B Df Erf Ef ltac:(lia)) as [ft [fe [Ecf [Dft [Dfe [Lft Lfe]]]]]].
  destruct (ccof2_ok s g idg gnd psi lvl B Dg Erg Eg ltac:(lia)) as [gt' [ge [Ecg [Dgt [Dge [Lgt Lge]]]]]].
  destruct (ccof2_ok s h idh hnd theta lvl B Dh Erh Eh ltac:(lia)) as [ht [he [Ech [Dht [Dhe [Lht Lhe]]]]]].
  rewrite Ecf, Ecg, Ech.
  apply (gjoin2_safe C CInv extends extends_trans edge edge edge Qedge Qedge).
  - apply IH; auto; [apply (proj1 Dft) | apply (proj1 Dgt) | apply (proj1 Dht) | lia].
  - intros s1 c1 [B1 O1] X1.
    apply IH; auto; [apply (ext_ref_ok _ _ _ X1 (proj1 Dfe)) | apply (ext_ref_ok _ _ _ X1 (proj1 Dge))
                    | apply (ext_ref_ok _ _ _ X1 (proj1 Dhe))|].
    rewrite (ext_nlevels _ _ X1), (ext_rlevel _ _ _ X1 (proj1 Dfe)),
            (ext_rlevel _ _ _ X1 (proj1 Dge)), (ext_rlevel _ _ _ X1 (proj1 Dhe)). lia.
  - intros s2 c2 t e I2 X2. apply gfin_safe; [exact I2 | apply extends_refl].
Qed.

Theorem capply_ite_c_safe : forall fuel s c f g h,
  BcOK s -> CacheOKC cget s c -> ref_ok s (eref f) -> ref_ok s (eref g) -> ref_ok s (eref h) ->
  nlevels s - Nat.min (Nat.min (rlevel s (eref f)) (rlevel s (eref g))) (rlevel s (eref h)) < fuel ->
  RS s (capply_ite_c lt C cget cadd cap par fuel s c f g h).
Proof.
  induction fuel as [|n IH]; intros s c f g h B O Hf Hg Hh Hfuel; [lia|].
  apply safe_intro; [|intros s' c' r E; apply (cite_ok_safe (S n) s c f g h s' c' r B O Hf Hg Hh Hfuel E)].
  rewrite capply_ite_c_S.
  assert (Bin : forall o x y, ref_ok s (eref x) -> ref_ok s (eref y) ->
            nlevels s - Nat.min (rlevel s (eref x)) (rlevel s (eref y)) < S n ->
            FS s (capply_bin_c lt C cget cadd cap par (S n) s c o x y))
    by (intros; eapply res_fail_safe; apply capply_bin_c_safe; auto).
  assert (NBin : forall o x y, ref_ok s (eref x) -> ref_ok s (eref y) ->
            nlevels s - Nat.min (rlevel s (eref x)) (rlevel s (eref y)) < S n ->
            FS s (onot_c C (capply_bin_c lt C cget cadd cap par (S n) s c o x y)))
    by (intros; eapply res_fail_safe; apply onot_c_safe; apply capply_bin_c_safe; auto).
  assert (Hfg : nlevels s - Nat.min (rlevel s (eref f)) (rlevel s (eref g)) < S n) by lia.
  assert (Hfh : nlevels s - Nat.min (rlevel s (eref f)) (rlevel s (eref h)) < S n) by lia.
  destruct (ref_eqb (eref g) (eref h)).
  { destruct (Bool.eqb (etag g) (etag h)); [exact I | apply NBin; auto]. }
  destruct (ref_eqb (eref f) (eref g)).
  { destruct (Bool.eqb (etag f) (etag g)); [apply NBin; auto | apply Bin; auto]. }
  destruct (ref_eqb (eref f) (eref h)).
  { destruct (Bool.eqb (etag f) (etag h)); [apply Bin; auto | apply NBin; auto]. }
  destruct (cnode_total s f Hf) as [vf Vf]. destruct (cnode_total s g Hg) as [vg Vg].
  destruct (cnode_total s h Hh) as [vh Vh].
  rewrite Vf. destruct vf as [fnd|]; [|exact I].
  rewrite Vg, Vh. destruct vg as [gnd|], vh as [hnd|].
  - destruct (cnode_NVI s f fnd Vf) as [idf [Erf Ef]]. destruct (cnode_NVI s g gnd Vg) as [idg [Erg Eg]].
    destruct (cnode_NVI s h hnd Vh) as [idh [Erh Eh]].
    rewrite Erf, Erg, Erh, (rlevel_node s idf fnd Ef), (rlevel_node s idg gnd Eg),
            (rlevel_node s idh hnd Eh) in Hfuel.
    apply (cite_step_c_fs n (par n) _ IH s c f idf fnd g idg gnd h idh hnd); auto.
  - destruct (etag h); [apply Bin; auto | apply NBin; auto].
  - destruct (etag g); [apply Bin; auto | apply NBin; auto].
  - destruct (etag h); [apply Bin; auto | apply NBin; auto].
Qed.

End Safe.

(** ** The C14 statements for BCDDs *)

Definition CFUEL' (s : snap) : nat := S (nlevels s).

Section Top.
Variable lt : edge -> edge -> bool.
Variable C : Type.
Variable cget : C -> N -> list edge -> option edge.
Variable cadd : C -> N -> list edge -> edge -> C.
Hypothesis Hlossy : lossyC cget cadd.

(** the state after a failure *)
Definition cfailed_ok (cap : nat) (s s' : snap) (c' : C) : Prop :=
  BcOK s' /\ CacheOKC cget s' c' /\ extends s s' /\ intact_c s s' /\
  node_count s <= node_count s' /\ cap <= node_count s'.

Lemma cfailed_of_state : forall cap s s' c', BcOK s ->
  failed_state C no_m2 cap 1 (CInv C cget) extends s s' c' -> cfailed_ok cap s s' c'.
Proof.
  intros cap s s' c' B [[B' O'] [X [G F]]]. simpl in G, F. unfold no_m2 in *.
  split; [exact B'|]. split; [exact O'|]. split; [exact X|].
  split; [apply (extends_intact_c s s' B X)|]. lia.
Qed.

(** the outcome of a bounded run, given the table [su] of the unbounded run *)
Definition cexact (cap : nat) (s : snap) (rb : gres C edge) (su : snap) (cu : C) (ru : edge) : Prop :=
  (node_count su <= Nat.max cap (node_count s) -> rb = GOk su cu ru) /\
  (Nat.max cap (node_count s) < node_count su -> exists s' c', rb = GOom s' c' /\ cfailed_ok cap s s' c').

Lemma cexact_intro : forall cap s rb su cu ru, BcOK s ->
  res_safe (CInv C cget) extends Qedge s rb -> sim C no_m2 cap 1 s rb (Some (su, cu, ru)) ->
  cexact cap s rb su cu ru.
Proof.
  intros cap s rb su cu ru B S M.
  destruct (exact_intro C no_m2 cap 1 (CInv C cget) extends edge Qedge s rb su cu ru S M) as [A1 A2].
  destruct M as [_ F]. simpl in F. destruct F as [G _]. unfold no_m2 in *. split.
  - intros Hfit. apply A1. simpl. unfold no_m2. lia.
  - intros Hbig. destruct (A2 (or_introl Hbig)) as [s' [c' [E Fs]]].
    exists s', c'. split; [exact E | apply (cfailed_of_state cap s s' c' B Fs)].
Qed.

Lemma cexact_code : forall cap s rb rb' su cu ru,
  cexact cap s rb su cu ru -> cexact cap s rb' su cu ru -> gres_code rb = gres_code rb'.
Proof.
  intros cap s rb rb' su cu ru [A1 B1] [A2 B2].
  destruct (le_lt_dec (node_count su) (Nat.max cap (node_count s))) as [Hfit|Hbig].
  - rewrite (A1 Hfit), (A2 Hfit). reflexivity.
  - destruct (B1 Hbig) as [s1 [c1 [-> _]]]. destruct (B2 Hbig) as [s2 [c2 [-> _]]]. reflexivity.
Qed.

(** *** never a wrong edge: a result is literally the result of the unbounded run *)

Theorem coom_never_wrong_not : forall s (c : C) f s' c' r,
  capply_not_c C s c f = GOk s' c' r -> capply_not C s c f = Some (s', c', r).
Proof. intros s c f s' c' r E. inversion E; subst. reflexivity. Qed.

Theorem coom_never_wrong_op : forall cap par o fuel s c f g s' c' r,
  capply_op_c lt C cget cadd cap par fuel s c o f g = GOk s' c' r ->
  capply_op lt C cget cadd fuel s c o f g = Some (s', c', r).
Proof.
  intros cap par o fuel s c f g s' c' r E.
  apply (sim_never_wrong C no_m2 cap 1 edge _ _ _ _ _ _ (capply_op_sim lt C cget cadd cap par o fuel s c f g) E).
Qed.

Theorem coom_never_wrong_ite : forall cap par fuel s c f g h s' c' r,
  capply_ite_c lt C cget cadd cap par fuel s c f g h = GOk s' c' r ->
  capply_ite lt C cget cadd fuel s c f g h = Some (s', c', r).
Proof.
  intros cap par fuel s c f g h s' c' r E.
  apply (sim_never_wrong C no_m2 cap 1 edge _ _ _ _ _ _ (capply_ite_sim lt C cget cadd cap par fuel s c f g h) E).
Qed.

(** ... hence the pointwise connective of the operands (C02), in a table in
    which everything that existed before is intact *)

Theorem coom_never_wrong_op_sem : forall cap par o fuel s c f g s' c' r,
  BcOK s -> CacheOKC cget s c -> ref_ok s (eref f) -> ref_ok s (eref g) -> CFUEL' s <= fuel ->
  capply_op_c lt C cget cadd cap par fuel s c o f g = GOk s' c' r ->
  BcOK s' /\ CacheOKC cget s' c' /\ intact_c s s' /\ ref_ok s' (eref r) /\
  forall c0, bchoice c0 -> exists x y,
    cvalue s f c0 x /\ cvalue s g c0 y /\ cvalue s' r c0 (eval_bop o x y).
Proof.
  intros cap par o fuel s c f g s' c' r B O Hf Hg Hfuel E.
  apply coom_never_wrong_op in E.
  destruct (capply_op_sound lt C cget cadd Hlossy o fuel s c f g B O Hf Hg Hfuel)
    as [s1 [c1 [r1 [E1 [B1 [X1 [O1 [R1 V1]]]]]]]].
  rewrite E in E1. inversion E1; subst s1 c1 r1.
  split; [exact B1|]. split; [exact O1|]. split; [apply (extends_intact_c s s' B X1)|]. auto.
Qed.

Theorem coom_never_wrong_ite_sem : forall cap par fuel s c f g h s' c' r,
  BcOK s -> CacheOKC cget s c -> ref_ok s (eref f) -> ref_ok s (eref g) -> ref_ok s (eref h) ->
  CFUEL' s <= fuel ->
  capply_ite_c lt C cget cadd cap par fuel s c f g h = GOk s' c' r ->
  BcOK s' /\ CacheOKC cget s' c' /\ intact_c s s' /\ ref_ok s' (eref r) /\
  forall c0, bchoice c0 -> exists x y z,
    cvalue s f c0 x /\ cvalue s g c0 y /\ cvalue s h c0 z /\ cvalue s' r c0 (if x then y else z).
Proof.
  intros cap par fuel s c f g h s' c' r B O Hf Hg Hh Hfuel E.
  apply coom_never_wrong_ite in E.
  destruct (capply_ite_sound lt C cget cadd Hlossy fuel s c f g h B O Hf Hg Hh Hfuel)
    as [s1 [c1 [r1 [E1 [B1 [X1 [O1 [R1 V1]]]]]]]].
  rewrite E in E1. inversion E1; subst s1 c1 r1.
  split; [exact B1|]. split; [exact O1|]. split; [apply (extends_intact_c s s' B X1)|]. auto.
Qed.

(** *** the safe-run facts in the form the statements below use *)

Lemma cop_rs : forall cap par o fuel s c f g,
  BcOK s -> CacheOKC cget s c -> ref_ok s (eref f) -> ref_ok s (eref g) -> CFUEL' s <= fuel ->
  res_safe (CInv C cget) extends Qedge s (capply_op_c lt C cget cadd cap par fuel s c o f g).
Proof.
  intros cap par o fuel s c f g B O Hf Hg Hfuel. unfold CFUEL' in Hfuel.
  apply (capply_op_c_safe lt C cget cadd Hlossy); auto. lia.
Qed.

Lemma cite_rs : forall cap par fuel s c f g h,
  BcOK s -> CacheOKC cget s c -> ref_ok s (eref f) -> ref_ok s (eref g) -> ref_ok s (eref h) ->
  CFUEL' s <= fuel ->
  res_safe (CInv C cget) extends Qedge s (capply_ite_c lt C cget cadd cap par fuel s c f g h).
Proof.
  intros cap par fuel s c f g h B O Hf Hg Hh Hfuel. unfold CFUEL' in Hfuel.
  apply (capply_ite_c_safe lt C cget cadd Hlossy); auto. lia.
Qed.

(** *** the state after a failure *)

Theorem coom_safe_op : forall cap par o fuel s c f g s' c',
  BcOK s -> CacheOKC cget s c -> ref_ok s (eref f) -> ref_ok s (eref g) -> CFUEL' s <= fuel ->
  capply_op_c lt C cget cadd cap par fuel s c o f g = GOom s' c' ->
  cfailed_ok cap s s' c'.
Proof.
  intros cap par o fuel s c f g s' c' B O Hf Hg Hfuel E.
  pose proof (cop_rs cap par o fuel s c f g B O Hf Hg Hfuel) as S.
  pose proof (capply_op_sim lt C cget cadd cap par o fuel s c f g) as M.
  rewrite E in S, M. apply (cfailed_of_state cap s s' c' B).
  apply (failed_intro C no_m2 cap 1 (CInv C cget) extends edge Qedge s s' c' _ S M).
Qed.

Theorem coom_safe_ite : forall cap par fuel s c f g h s' c',
  BcOK s -> CacheOKC cget s c -> ref_ok s (eref f) -> ref_ok s (eref g) -> ref_ok s (eref h) ->
  CFUEL' s <= fuel ->
  capply_ite_c lt C cget cadd cap par fuel s c f g h = GOom s' c' ->
  cfailed_ok cap s s' c'.
Proof.
  intros cap par fuel s c f g h s' c' B O Hf Hg Hh Hfuel E.
  pose proof (cite_rs cap par fuel s c f g h B O Hf Hg Hh Hfuel) as S.
  pose proof (capply_ite_sim lt C cget cadd cap par fuel s c f g h) as M.
  rewrite E in S, M. apply (cfailed_of_state cap s s' c' B).
  apply (failed_intro C no_m2 cap 1 (CInv C cget) extends edge Qedge s s' c' _ S M).
Qed.

(** negation is a tag flip: it cannot fail and leaves the table untouched *)
Theorem coom_not_total : forall s (c : C) f,
  capply_not_c C s c f = GOk s c (enot f) /\ capply_not C s c f = Some (s, c, enot f).
Proof. intros. split; reflexivity. Qed.

(** *** no panic, no divergence *)

Theorem coom_no_panic_op : forall cap par o fuel s c f g,
  BcOK s -> CacheOKC cget s c -> ref_ok s (eref f) -> ref_ok s (eref g) -> CFUEL' s <= fuel ->
  capply_op_c lt C cget cadd cap par fuel s c o f g <> GStuck.
Proof.
  intros cap par o fuel s c f g B O Hf Hg Hfuel E.
  pose proof (cop_rs cap par o fuel s c f g B O Hf Hg Hfuel) as S. rewrite E in S. exact S.
Qed.

Theorem coom_no_panic_ite : forall cap par fuel s c f g h,
  BcOK s -> CacheOKC cget s c -> ref_ok s (eref f) -> ref_ok s (eref g) -> ref_ok s (eref h) ->
  CFUEL' s <= fuel ->
  capply_ite_c lt C cget cadd cap par fuel s c f g h <> GStuck.
Proof.
  intros cap par fuel s c f g h B O Hf Hg Hh Hfuel E.
  pose proof (cite_rs cap par fuel s c f g h B O Hf Hg Hh Hfuel) as S. rewrite E in S. exact S.
Qed.

(** *** retry: when the table of the unbounded run fits, the bounded run
    succeeds with exactly that result *)

Theorem coom_retry_op : forall cap par o fuel s c f g su cu ru,
  capply_op lt C cget cadd fuel s c o f g = Some (su, cu, ru) -> node_count su <= cap ->
  capply_op_c lt C cget cadd cap par fuel s c o f g = GOk su cu ru.
Proof.
  intros cap par o fuel s c f g su cu ru E Hfit.
  pose proof (capply_op_sim lt C cget cadd cap par o fuel s c f g) as M. rewrite E in M.
  destruct M as [_ [G F]]. simpl in G. apply F. simpl. unfold no_m2 in *. lia.
Qed.

Theorem coom_retry_ite : forall cap par fuel s c f g h su cu ru,
  capply_ite lt C cget cadd fuel s c f g h = Some (su, cu, ru) -> node_count su <= cap ->
  capply_ite_c lt C cget cadd cap par fuel s c f g h = GOk su cu ru.
Proof.
  intros cap par fuel s c f g h su cu ru E Hfit.
  pose proof (capply_ite_sim lt C cget cadd cap par fuel s c f g h) as M. rewrite E in M.
  destruct M as [_ [G F]]. simpl in G. apply F. simpl. unfold no_m2 in *. lia.
Qed.

(** *** monotone in the capacity, independent of the recursor *)

Theorem coom_monotone_op : forall cap cap' par par' o fuel s c f g s' c' r, cap <= cap' ->
  capply_op_c lt C cget cadd cap par fuel s c o f g = GOk s' c' r ->
  capply_op_c lt C cget cadd cap' par' fuel s c o f g = GOk s' c' r.
Proof.
  intros cap cap' par par' o fuel s c f g s' c' r Hle E.
  apply (sim_monotone C edge no_m2 cap 1 cap' 1 s _ _ _ s' c' r Hle (le_n 1)
           (capply_op_sim lt C cget cadd cap par o fuel s c f g)
           (capply_op_sim lt C cget cadd cap' par' o fuel s c f g) E).
Qed.

Theorem coom_monotone_ite : forall cap cap' par par' fuel s c f g h s' c' r, cap <= cap' ->
  capply_ite_c lt C cget cadd cap par fuel s c f g h = GOk s' c' r ->
  capply_ite_c lt C cget cadd cap' par' fuel s c f g h = GOk s' c' r.
Proof.
  intros cap cap' par par' fuel s c f g h s' c' r Hle E.
  apply (sim_monotone C edge no_m2 cap 1 cap' 1 s _ _ _ s' c' r Hle (le_n 1)
           (capply_ite_sim lt C cget cadd cap par fuel s c f g h)
           (capply_ite_sim lt C cget cadd cap' par' fuel s c f g h) E).
Qed.

(** *** exactness *)

Theorem coom_exact_op : forall cap par o fuel s c f g,
  BcOK s -> CacheOKC cget s c -> ref_ok s (eref f) -> ref_ok s (eref g) -> CFUEL' s <= fuel ->
  exists su cu ru, capply_op lt C cget cadd fuel s c o f g = Some (su, cu, ru) /\
    (forall c0, bchoice c0 -> exists x y,
       cvalue s f c0 x /\ cvalue s g c0 y /\ cvalue su ru c0 (eval_bop o x y)) /\
    cexact cap s (capply_op_c lt C cget cadd cap par fuel s c o f g) su cu ru.
Proof.
  intros cap par o fuel s c f g B O Hf Hg Hfuel.
  destruct (capply_op_sound lt C cget cadd Hlossy o fuel s c f g B O Hf Hg Hfuel)
    as [su [cu [ru [Eu [_ [_ [_ [_ V]]]]]]]].
  exists su, cu, ru. split; [exact Eu|]. split; [exact V|].
  apply cexact_intro; [exact B | apply cop_rs; auto |]. rewrite <- Eu. apply capply_op_sim.
Qed.

Theorem coom_exact_ite : forall cap par fuel s c f g h,
  BcOK s -> CacheOKC cget s c -> ref_ok s (eref f) -> ref_ok s (eref g) -> ref_ok s (eref h) ->
  CFUEL' s <= fuel ->
  exists su cu ru, capply_ite lt C cget cadd fuel s c f g h = Some (su, cu, ru) /\
    (forall c0, bchoice c0 -> exists x y z,
       cvalue s f c0 x /\ cvalue s g c0 y /\ cvalue s h c0 z /\ cvalue su ru c0 (if x then y else z)) /\
    cexact cap s (capply_ite_c lt C cget cadd cap par fuel s c f g h) su cu ru.
Proof.
  intros cap par fuel s c f g h B O Hf Hg Hh Hfuel.
  destruct (capply_ite_sound lt C cget cadd Hlossy fuel s c f g h B O Hf Hg Hh Hfuel)
    as [su [cu [ru [Eu [_ [_ [_ [_ V]]]]]]]].
  exists su, cu, ru. split; [exact Eu|]. split; [exact V|].
  apply cexact_intro; [exact B | apply cite_rs; auto |]. rewrite <- Eu. apply capply_ite_sim.
Qed.

(** failing or not does not depend on the recursor *)
Theorem coom_outcome_recursor_indep_op : forall cap par par' o fuel s c f g,
  BcOK s -> CacheOKC cget s c -> ref_ok s (eref f) -> ref_ok s (eref g) -> CFUEL' s <= fuel ->
  gres_code (capply_op_c lt C cget cadd cap par fuel s c o f g) =
  gres_code (capply_op_c lt C cget cadd cap par' fuel s c o f g).
Proof.
  intros cap par par' o fuel s c f g B O Hf Hg Hfuel.
  destruct (coom_exact_op cap par o fuel s c f g B O Hf Hg Hfuel) as [su [cu [ru [E [_ X]]]]].
  destruct (coom_exact_op cap par' o fuel s c f g B O Hf Hg Hfuel) as [su' [cu' [ru' [E' [_ X']]]]].
  rewrite E in E'. inversion E'; subst. eapply cexact_code; eauto.
Qed.

Theorem coom_outcome_recursor_indep_ite : forall cap par par' fuel s c f g h,
  BcOK s -> CacheOKC cget s c -> ref_ok s (eref f) -> ref_ok s (eref g) -> ref_ok s (eref h) ->
  CFUEL' s <= fuel ->
  gres_code (capply_ite_c lt C cget cadd cap par fuel s c f g h) =
  gres_code (capply_ite_c lt C cget cadd cap par' fuel s c f g h).
Proof.
  intros cap par par' fuel s c f g h B O Hf Hg Hh Hfuel.
  destruct (coom_exact_ite cap par fuel s c f g h B O Hf Hg Hh Hfuel) as [su [cu [ru [E [_ X]]]]].
  destruct (coom_exact_ite cap par' fuel s c f g h B O Hf Hg Hh Hfuel) as [su' [cu' [ru' [E' [_ X']]]]].
  rewrite E in E'. inversion E'; subst. eapply cexact_code; eauto.
Qed.

End Top.

(** ** Variable creation: one insertion.  On failure no table is returned: the
    manager is untouched. *)

Theorem coom_var_exact : forall cap s v neg, BcOK s -> v < nlevels s ->
  exists s' r, cmk_var s v neg = Some (s', r) /\ BcOK s' /\ extends s s' /\ ref_ok s' (eref r) /\
    (forall a, cbfun_of s' r a = xorb neg (var_s v a)) /\
    (node_count s' <= Nat.max cap (node_count s) -> cmk_var_cap cap s v neg = Some (Some (s', r))) /\
    (Nat.max cap (node_count s) < node_count s' ->
       cmk_var_cap cap s v neg = Some None /\ cap <= node_count s).
Proof.
  intros cap s v neg B Hv.
  destruct (cmk_var_bfun s v neg B Hv) as [s' [r [Ev [B' [X [R V]]]]]].
  exists s', r. split; [exact Ev|]. split; [exact B'|]. split; [exact X|]. split; [exact R|].
  split; [exact V|].
  pose proof (cmk_var_cap_sim cap s v neg) as M. rewrite Ev in M.
  destruct M as [o [Eo [G L]]]. simpl in G, L. unfold no_m2 in *. split.
  - intros Hfit. destruct o as [x|]; [destruct L as [-> _]; exact Eo|].
    exfalso. destruct L as [_ N]. apply N. lia.
  - intros Hbig. destruct o as [x|]; [exfalso; destruct L as [_ W]; lia|].
    split; [exact Eo|]. destruct L as [[F|F] _]; lia.
Qed.

Theorem coom_var_never_wrong : forall cap s v neg s' r,
  cmk_var_cap cap s v neg = Some (Some (s', r)) -> cmk_var s v neg = Some (s', r).
Proof.
  intros cap s v neg s' r E. pose proof (cmk_var_cap_sim cap s v neg) as M.
  destruct (cmk_var s v neg) as [u|]; [|congruence].
  destruct M as [o [Eo [_ L]]]. rewrite E in Eo. inversion Eo; subst o. destruct L as [-> _]. reflexivity.
Qed.
