(** * Quantification, apply-and-quantify, restrict and substitute of the plain
      BDD kind on a node store of bounded capacity (C14, package C14z)

    Executable definitions only (proofs: Mgr/OomBddQProofs.v, OomBddQSafe.v,
    OomBddQThms.v).  The algorithms of DD/Quant.v ([quant_rec], [apply_quant],
    [restrict], [substitute_prepare], [substitute] and the [*_edge] entry
    points; oxidd-rules-bdd/src/simple/apply_rec.rs: [quant], [apply_quant],
    [restrict], [substitute_prepare], [substitute]) once more, now in the error
    monad of the code ([AllocResult<Edge>]) with the combinators of
    Mgr/OomGen.v, exactly as Mgr/Oom.v does for DD/Apply.v:

    - every [rec.binary(..)?] / [rec.ternary(..)?] / [rec.subst(..)?] is a
      [gjoin2 (par n)] (sequential recursor: return at the first failing [?],
      the sibling is not started; parallel recursor: the sibling still runs and
      its edge is dropped);
    - every [reduce(..)?] followed by the cache insertion is a [gfin] with
      [mk_node_cap] of Mgr/Oom.v (equal children: no allocation; unique-table
      hit: never fails; NEW node: fails iff [cap] nodes are stored);
    - every inner call [apply_not(..)?] / [apply_bin::<Q>(manager, rec, ..)?] /
      [apply_ite(manager, rec, ..)?] is the bounded algorithm of Mgr/Oom.v
      ([gof] embeds its result type) followed by [gbind] (= [?]); the cache
      insertion of the caller happens on the success path only;
    - [substitute_prepare]: the loop that creates the variable node of every
      level without a replacement ([get_or_insert(..)?]); a failure in the
      middle leaves the variable nodes created so far ([GOom] carries that
      table);
    - [set_pop], the tail-recursive [inner] of [restrict] and the first loop of
      [substitute_prepare] allocate nothing: they are the functions of
      DD/Quant.v themselves.

    [par n] = the recursor used by the algorithm's own recursion at remaining
    depth [n] (as in Mgr/Oom.v); [pin] = the recursor function handed to every
    inner call of another algorithm (the code passes its [rec] on: the
    remaining depth of the parallel recursor continues to count down inside
    the inner call; the theorems hold for EVERY [par] and [pin], in particular
    for that schedule).  Reference counts are not part of the model. *)

From Coq Require Import List NArith PArith Bool Arith FMapPositive.
From OxiVerif Require Import DD.Table DD.Sem DD.Build DD.Apply DD.Quant Mgr.Oom.
From OxiVerif Require Import Mgr.OomGen.
Import ListNotations.

(** the result type of Mgr/Oom.v as a [gres] *)
Definition gof {C : Type} (r : res C) : gres C ref :=
  match r with
  | ROk s c x => GOk s c x
  | ROom s c => GOom s c
  | RStuck => GStuck
  end.

Section Bounded.
Variable gt : ref -> ref -> bool.
Variable C : Type.
Variable cget : C -> N -> list ref -> option ref.
Variable cadd : C -> N -> list ref -> ref -> C.
(** capacity of the inner-node store *)
Variable cap : nat.

(** [manager.get_terminal(BDDTerminal::False)] (static terminals: never fails) *)
Definition gfalse (s : snap) (c : C) : gres C ref :=
  match term_of s false with Some t => GOk s c (RT t) | None => GStuck end.

Section Quant.
(** recursor of the own recursion / of inner calls *)
Variable par : nat -> bool.
Variable pin : nat -> bool.

(** [quant::<Q>] *)
Fixpoint quant_c (fuel : nat) (s : snap) (c : C) (q : quantifier) (f vars : ref) : gres C ref :=
  match fuel with
  | O => GStuck
  | S n =>
    match f with
    | RT _ =>
      if negb (is_unique q) || (match vars with RT _ => true | RN _ => false end)
      then GOk s c f
      else gfalse s c
    | RN fid =>
      match find_node s fid with
      | None => GStuck
      | Some fnode =>
        let flevel := nstored fnode in
        match (if is_unique q then Some vars else set_pop (S (nlevels s)) s vars flevel) with
        | None => GStuck
        | Some (RT _) => GOk s c f
        | Some (RN vid as vars') =>
          match find_node s vid with
          | None => GStuck
          | Some vnode =>
            let vlevel := nstored vnode in
            if is_unique q && Nat.ltb vlevel flevel then gfalse s c
            else
              match cget c (qcode q) [f; vars'] with
              | Some h => GOk s c h
              | None =>
                match nchildren fnode,
                      (if Nat.eqb vlevel flevel
                       then match nchildren vnode with [vt; _] => Some (eref vt) | _ => None end
                       else Some vars') with
                | [ft; fe], Some vt =>
                  (* let (t, e) = rec.binary(quant, manager, (ft, vt), (fe, vt))?; *)
                  gjoin2 (par n) (quant_c n s c q (eref ft) vt)
                    (fun s1 c1 => quant_c n s1 c1 q (eref fe) vt)
                    (fun s2 c2 t e =>
                       if Nat.eqb flevel vlevel then
                         (* let res = apply_bin::<Q>(manager, rec, t, e)?; cache.add; Ok(res) *)
                         gbind (gof (apply_bin_c gt C cget cadd cap pin (S (nlevels s2)) s2 c2 (qop q) t e))
                           (fun s3 c3 res => GOk s3 (cadd c3 (qcode q) [f; vars'] res) res)
                       else
                         (* let res = reduce(manager, flevel, t, e, operator)?; cache.add; Ok(res) *)
                         gfin s2 c2 (mk_node_cap cap s2 flevel [E t; E e])
                           (fun h => cadd c2 (qcode q) [f; vars'] (eref h)) (fun h => eref h))
                | _, _ => GStuck
                end
              end
          end
        end
      end
    end
  end.

(** [restrict] *)
Fixpoint restrict_c (fuel : nat) (s : snap) (c : C) (f vars : ref) : gres C ref :=
  match fuel with
  | O => GStuck
  | S n =>
    match f, vars with
    | RN fid, RN vid =>
      match find_node s fid, find_node s vid with
      | Some fnode, Some vnode =>
        match restrict_inner (S (nlevels s + nlevels s)) s f fnode (nstored fnode) vars vnode with
        | None => GStuck
        | Some (RDone r) => GOk s c r
        | Some (RRec vars' f' fnode') =>
          match cget c code_restrict [f'; vars'] with
          | Some r => GOk s c r
          | None =>
            match nchildren fnode' with
            | [ft; fe] =>
              (* let (t, e) = rec.binary(restrict, manager, (ft, vars), (fe, vars))?;
                 let res = reduce(manager, fnode.level(), t, e, Restrict)?; cache.add; Ok(res) *)
              gjoin2 (par n) (restrict_c n s c (eref ft) vars')
                (fun s1 c1 => restrict_c n s1 c1 (eref fe) vars')
                (fun s2 c2 t e =>
                   gfin s2 c2 (mk_node_cap cap s2 (nstored fnode') [E t; E e])
                     (fun h => cadd c2 code_restrict [f'; vars'] (eref h)) (fun h => eref h))
            | _ => GStuck
            end
          end
        end
      | _, _ => GStuck
      end
    | _, _ => GOk s c f
    end
  end.

(** [substitute] *)
Fixpoint substitute_c (fuel : nat) (s : snap) (c : C) (f : ref) (subst : list ref) (id : N) : gres C ref :=
  match fuel with
  | O => GStuck
  | S n =>
    match f with
    | RT _ => GOk s c f
    | RN fid =>
      match find_node s fid with
      | None => GStuck
      | Some fnode =>
        let level := nstored fnode in
        if Nat.leb (length subst) level then GOk s c f
        else
          match cget c (code_subst id) [f] with
          | Some h => GOk s c h
          | None =>
            match nchildren fnode with
            | [ft; fe] =>
              (* let (t, e) = rec.subst(substitute, manager, (t, subst, id), (e, subst, id))?; *)
              gjoin2 (par n) (substitute_c n s c (eref ft) subst id)
                (fun s1 c1 => substitute_c n s1 c1 (eref fe) subst id)
                (fun s2 c2 t e =>
                   match nth_error subst level with
                   | None => GStuck
                   | Some r =>
                     (* let res = apply_ite(manager, rec, subst[level], t, e)?; cache.add; Ok(res) *)
                     gbind (gof (apply_ite_c gt C cget cadd cap pin (S (nlevels s2)) s2 c2 r t e))
                       (fun s3 c3 res => GOk s3 (cadd c3 (code_subst id) [f] res) res)
                   end)
            | _ => GStuck
            end
          end
      end
    end
  end.

End Quant.

Section ApplyQuant.
Variable par : nat -> bool.
Variable pin : nat -> bool.

(** [apply_quant::<Q, OP>] *)
Fixpoint apply_quant_c (fuel : nat) (s : snap) (c : C) (q : quantifier) (op : bop) (f g vars : ref)
  : gres C ref :=
  match fuel with
  | O => GStuck
  | S n =>
    match terminal_bin gt s op f g with
    | TFail => GStuck
    | TNot h =>
      (* let inverse = guard(apply_not(manager, rec, h)?); return quant::<Q>(manager, rec, inverse, vars) *)
      gbind (gof (apply_not_c C cget cadd cap pin (S (nlevels s)) s c h))
        (fun s1 c1 inverse => quant_c pin pin (S (nlevels s1)) s1 c1 q inverse vars)
    | TDone h => quant_c pin pin (S (nlevels s)) s c q h vars
    | TBin _ f g =>
      match inner s f, inner s g with
      | Some fnode, Some gnode =>
        let flevel := nstored fnode in
        let glevel := nstored gnode in
        let min_level := Nat.min flevel glevel in
        match (if is_unique q then Some vars else set_pop (S (nlevels s)) s vars min_level) with
        | None => GStuck
        | Some (RT _) =>
          gof (apply_bin_c gt C cget cadd cap pin (S (nlevels s)) s c op f g)
        | Some (RN vid as vars') =>
          match find_node s vid with
          | None => GStuck
          | Some vnode =>
            let vlevel := nstored vnode in
            if Nat.ltb vlevel min_level && is_unique q then gfalse s c
            else if Nat.ltb vlevel min_level then
              gof (apply_bin_c gt C cget cadd cap pin (S (nlevels s)) s c op f g)
            else
              match cget c (aqcode q op) [f; g; vars'] with
              | Some h => GOk s c h
              | None =>
                match (if Nat.eqb vlevel min_level
                       then match nchildren vnode with [vt; _] => Some (eref vt) | _ => None end
                       else Some vars'),
                      (if Nat.leb flevel glevel
                       then match nchildren fnode with [t; e] => Some (eref t, eref e) | _ => None end
                       else Some (f, f)),
                      (if Nat.leb glevel flevel
                       then match nchildren gnode with [t; e] => Some (eref t, eref e) | _ => None end
                       else Some (g, g)) with
                | Some vt, Some (ft, fe), Some (gt', ge) =>
                  (* let (t, e) = rec.ternary(apply_quant, manager, (ft, gt, vt), (fe, ge, vt))?; *)
                  gjoin2 (par n) (apply_quant_c n s c q op ft gt' vt)
                    (fun s1 c1 => apply_quant_c n s1 c1 q op fe ge vt)
                    (fun s2 c2 t e =>
                       if Nat.eqb min_level vlevel then
                         gbind (gof (apply_bin_c gt C cget cadd cap pin (S (nlevels s2)) s2 c2 (qop q) t e))
                           (fun s3 c3 res => GOk s3 (cadd c3 (aqcode q op) [f; g; vars'] res) res)
                       else
                         gfin s2 c2 (mk_node_cap cap s2 min_level [E t; E e])
                           (fun h => cadd c2 (aqcode q op) [f; g; vars'] (eref h)) (fun h => eref h))
                | _, _, _ => GStuck
                end
              end
          end
        end
      | _, _ => GStuck
      end
    end
  end.

End ApplyQuant.

(** [substitute_prepare], second loop: [res.push(clone_edge(e))] resp.
    [res.push(level.get_or_insert(InnerNode::new(level, [t, e]))?)]; the
    cache is not touched *)
Fixpoint prepare_fill_c (s : snap) (c : C) (slots : list (option ref)) (level : nat)
  : gres C (list ref) :=
  match slots with
  | [] => GOk s c []
  | Some e :: rest =>
    gbind (prepare_fill_c s c rest (S level)) (fun s' c' l => GOk s' c' (e :: l))
  | None :: rest =>
    match term_of s true, term_of s false with
    | Some t1, Some t0 =>
      gbind (gfin s c (get_or_insert_cap cap s level [E (RT t1); E (RT t0)]) (fun _ => c) (fun e => eref e))
        (fun s1 c1 e =>
           gbind (prepare_fill_c s1 c1 rest (S level)) (fun s' c' l => GOk s' c' (e :: l)))
    | _, _ => GStuck
    end
  end.

Definition substitute_prepare_c (s : snap) (c : C) (pairs : list (nat * ref)) : gres C (list ref) :=
  match prepare_slots s pairs [] with
  | Some slots => prepare_fill_c s c slots 0
  | None => GStuck
  end.

(** ** The entry points.  The [*_edge] functions of the code start with the
    sequential recursor; the multi-threaded function types start the same
    algorithms with the parallel one: [par] / [pin] are parameters. *)

Section Entry.
Variable par : nat -> bool.
Variable pin : nat -> bool.

Definition quant_edge_c (s : snap) (c : C) (q : quantifier) (root vars : ref) : gres C ref :=
  quant_c par pin (S (nlevels s)) s c q root vars.

Definition apply_quant_edge_c (s : snap) (c : C) (q : quantifier) (op : bop) (lhs rhs vars : ref) : gres C ref :=
  apply_quant_c par pin (S (nlevels s)) s c q op lhs rhs vars.

Definition restrict_edge_c (s : snap) (c : C) (root vars : ref) : gres C ref :=
  restrict_c par (S (nlevels s)) s c root vars.

(** [let subst = substitute_prepare(manager, pairs)?; substitute(manager, rec, f, &subst, id)] *)
Definition substitute_edge_c (s : snap) (c : C) (f : ref) (pairs : list (nat * ref)) (id : N) : gres C ref :=
  gbind (substitute_prepare_c s c pairs)
    (fun s0 c0 subst => substitute_c par pin (S (nlevels s0)) s0 c0 f subst id).

End Entry.

End Bounded.

(** ** One call of the quantification / restriction / substitution interface *)

Inductive qcall :=
| KQuant (q : quantifier) (f vars : ref)                 (* forall / exists / unique *)
| KApplyQuant (q : quantifier) (op : bop) (f g vars : ref) (* apply_forall / apply_exists / apply_unique *)
| KRestrict (f vars : ref)                               (* restrict *)
| KSubst (f : ref) (pairs : list (nat * ref)) (id : N).   (* substitute *)

(** the bounded run of a call ... *)
Definition qrun_c (gt : ref -> ref -> bool) (C : Type) (cget : C -> N -> list ref -> option ref)
    (cadd : C -> N -> list ref -> ref -> C) (cap : nat) (par pin : nat -> bool)
    (s : snap) (c : C) (k : qcall) : gres C ref :=
  match k with
  | KQuant q f vars => quant_edge_c gt C cget cadd cap par pin s c q f vars
  | KApplyQuant q op f g vars => apply_quant_edge_c gt C cget cadd cap par pin s c q op f g vars
  | KRestrict f vars => restrict_edge_c C cget cadd cap par s c f vars
  | KSubst f pairs id => substitute_edge_c gt C cget cadd cap par pin s c f pairs id
  end.

(** ... and the unbounded one (DD/Quant.v) *)
Definition qrun_u (gt : ref -> ref -> bool) (C : Type) (cget : C -> N -> list ref -> option ref)
    (cadd : C -> N -> list ref -> ref -> C) (s : snap) (c : C) (k : qcall) : option (snap * C * ref) :=
  match k with
  | KQuant q f vars => quant_edge gt C cget cadd s c q f vars
  | KApplyQuant q op f g vars => apply_quant_edge gt C cget cadd s c q op f g vars
  | KRestrict f vars => restrict_edge C cget cadd s c f vars
  | KSubst f pairs id => substitute_edge gt C cget cadd s c f pairs id
  end.

(** ** The instances the correspondence run evaluates on snapshots of the real
    manager: no apply cache, standard fuel (as [bin_nc] of Mgr/Oom.v) *)

Definition qrun_nc (cap : nat) (p : bool) (s : snap) (k : qcall) : gres unit ref :=
  qrun_c gt_none unit nc_get nc_add cap (fun _ => p) (fun _ => p) s tt k.
