(** * The hypotheses of the C14 theorems for quantification / apply-and-quantify /
      restrict / substitute (plain BDD kind) are satisfiable and every outcome occurs

    On the table [ex3] of Mgr/OomExamples.v (3 levels, 6 nodes: x2, x1, x0,
    x1 /\ x2, x0 /\ x1 /\ x2, ite(x0, x1, x1 /\ x2)) and on the sparse table [exsp]
    (x2 and x0 /\ x2 only: the variables of levels 0 and 1 have no node, so
    [substitute_prepare] has to create them) the bounded runs really return
    out-of-memory for small capacities - with a table that differs from the
    initial one when sub-calls had succeeded before (their nodes stay behind as
    garbage) - and the result for larger ones. *)

From Coq Require Import List NArith PArith Bool Arith Lia FMapPositive.
From OxiVerif Require Import DD.Table DD.TableProofs DD.Sem DD.Build DD.BuildProofs
  DD.Apply DD.ApplyProofs DD.Quant DD.QuantLemmas Mgr.Oom Mgr.OomProofs Mgr.OomSafe Mgr.OomExamples.
From OxiVerif Require Import Mgr.OomGen Mgr.OomGenProofs Mgr.OomBddQ Mgr.OomBddQProofs Mgr.OomBddQSafe Mgr.OomBddQThms.
Import ListNotations.

(** outcome code (0 = result, 1 = out of memory, 2 = stuck), stored nodes afterwards, result *)
Definition outq {C} (r : gres C ref) := (gres_code r, option_map node_count (gres_snap r), gres_val r).

(** the registry of substitution objects: id 0 *)
Definition sg_one (pairs : list (nat * ref)) : N -> option (list (nat * ref)) :=
  fun id => if N.eqb id 0 then Some pairs else None.

(** the empty cache satisfies the cache invariant *)
Lemma nc_qok : forall Sg s, QCacheOK nc_get Sg s tt.
Proof. intros Sg s. split; [apply nc_ok | intros code args r E; discriminate]. Qed.

(** ** [ex3] *)

(** exists x1. x0 /\ x1 /\ x2 = x0 /\ x2 needs one new node; unique x1 of
    ite(x0, x1, x1 /\ x2) as well; forall x0 of it is the existing x1 /\ x2 *)
Example ex3_quant :
  map (fun cap => outq (qrun_nc cap false ex3 (KQuant QExists (RN 5) (RN 2)))) [0; 6; 7; 8] =
  [(1, Some 6, None); (1, Some 6, None); (0, Some 7, Some (RN 7)); (0, Some 7, Some (RN 7))] /\
  map (fun cap => outq (qrun_nc cap false ex3 (KQuant QUnique (RN 6) (RN 2)))) [6; 7] =
  [(1, Some 6, None); (0, Some 7, Some (RN 7))] /\
  map (fun cap => outq (qrun_nc cap true ex3 (KQuant QForall (RN 6) (RN 3)))) [0; 6] =
  [(0, Some 6, Some (RN 4)); (0, Some 6, Some (RN 4))].
Proof. vm_compute. repeat split; reflexivity. Qed.

(** exists x0. (x0 /\ x1 /\ x2) xor x1 = x1: the result exists already, but the
    run creates two intermediate nodes (not x2, x1 /\ not x2): with a full
    store it fails at once, with one free slot after having created one node,
    with two it succeeds - and leaves the two nodes as garbage even then *)
Example ex3_apply_quant :
  map (fun cap => outq (qrun_nc cap false ex3 (KApplyQuant QExists OXor (RN 5) (RN 2) (RN 3)))) [0; 6; 7; 8; 9] =
  [(1, Some 6, None); (1, Some 6, None); (1, Some 7, None); (0, Some 8, Some (RN 2)); (0, Some 8, Some (RN 2))] /\
  map (fun cap => outq (qrun_nc cap true ex3 (KApplyQuant QUnique OOr (RN 6) (RN 1) (RN 2)))) [6; 7; 8] =
  [(1, Some 6, None); (1, Some 7, None); (0, Some 8, Some (RN 8))].
Proof. vm_compute. split; reflexivity. Qed.

(** the node left behind by the failed run with capacity 7 is not referenced
    by any handle, the table is still a well-formed BDD table and every old
    node is unchanged *)
Example ex3_apply_quant_garbage :
  match qrun_nc 7 false ex3 (KApplyQuant QExists OXor (RN 5) (RN 2) (RN 3)) with
  | GOom s' _ =>
      s_handles s' = s_handles ex3 /\ bdd_ok_b s' = true /\ node_count s' = 7 /\
      forallb (fun p => match find_node s' (fst p) with
                        | Some nd => same_node nd (snd p) | None => false end)
              (PositiveMap.elements (s_nodes ex3)) = true
  | _ => False
  end.
Proof. vm_compute. repeat split; reflexivity. Qed.

(** restrict(ite(x0, x1, x1 /\ x2), x1) = ite(x0, 1, x2); x1 := x0 in x1 /\ x2 *)
Example ex3_restrict_subst :
  map (fun cap => outq (qrun_nc cap false ex3 (KRestrict (RN 6) (RN 2)))) [0; 6; 7] =
  [(1, Some 6, None); (1, Some 6, None); (0, Some 7, Some (RN 7))] /\
  map (fun cap => outq (qrun_nc cap false ex3 (KSubst (RN 4) [(1, RN 3)] 0%N))) [6; 7] =
  [(1, Some 6, None); (0, Some 7, Some (RN 7))].
Proof. vm_compute. split; reflexivity. Qed.

(** the hypotheses of the theorems hold for these calls *)
Example ex3_calls_ok :
  qcall_ok (sg_one []) ex3 (KQuant QExists (RN 5) (RN 2)) /\
  qcall_ok (sg_one []) ex3 (KApplyQuant QExists OXor (RN 5) (RN 2) (RN 3)) /\
  qcall_ok (sg_one []) ex3 (KRestrict (RN 6) (RN 2)) /\
  qcall_ok (sg_one [(1, RN 3)]) ex3 (KSubst (RN 4) [(1, RN 3)] 0%N).
Proof.
  assert (R : forall id, In id [1; 2; 3; 4; 5; 6]%positive -> ref_ok ex3 (RN id)).
  { intros id Hin. simpl in Hin.
    repeat (destruct Hin as [<-|Hin]; [eexists; vm_compute; reflexivity|]). destruct Hin. }
  split; [split; apply R; simpl; tauto|]. split; [repeat split; apply R; simpl; tauto|].
  split; [split; apply R; simpl; tauto|].
  split; [apply R; simpl; tauto|]. split; [repeat constructor; simpl; tauto|]. split; [|reflexivity].
  intros v r [E|[]]. inversion E; subst. split; [vm_compute; lia | apply R; simpl; tauto].
Qed.

(** the instance of the exactness theorem: whatever the capacity and the
    recursors, apply_exists on [ex3] is exactly "result iff it fits": it fails
    iff fewer than 8 slots exist *)
Example ex3_exact : forall cap p,
  let k := KApplyQuant QExists OXor (RN 5) (RN 2) (RN 3) in
  (8 <= cap -> exists su, qrun_nc cap p ex3 k = GOk su tt (RN 2) /\ node_count su = 8) /\
  (cap < 8 -> exists s', qrun_nc cap p ex3 k = GOom s' tt /\
                         qfailed_ok unit nc_get (sg_one []) cap ex3 s' tt).
Proof.
  intros cap p k.
  destruct (qoom_exact gt_none unit nc_get nc_add nc_lossy (sg_one []) cap (fun _ => p) (fun _ => p) ex3 tt k
              (proj1 ex3_ok) (nc_qok _ _) (proj1 (proj2 ex3_calls_ok)))
    as [su [cu [ru [Eu [_ [A1 A2]]]]]].
  assert (Hn : node_count su = 8 /\ ru = RN 2) by (vm_compute in Eu; inversion Eu; split; vm_compute; reflexivity).
  destruct Hn as [Hn ->]. destruct cu. rewrite Hn in A1, A2. change (node_count ex3) with 6 in A1, A2. split.
  - intros Hcap. exists su. split; [apply A1; lia | exact Hn].
  - intros Hcap. destruct A2 as [s' [[] [E F]]]; [lia|]. exists s'. split; assumption.
Qed.

(** ** [exsp]: substitution with variables that have no node yet *)

Definition exsp : snap :=
  mkSnap KBdd
    (PositiveMap.add 2%positive (mkNode 0 [E (RN 1); E (RT 0)] 0 1)
    (PositiveMap.add 1%positive (mkNode 2 [E (RT 1); E (RT 0)] 2 2)
       (PositiveMap.empty node)))
    [(0%N, 0%N); (1%N, 1%N)]
    [0; 1; 2] [0; 1; 2]
    [(0%N, E (RN 2)); (1%N, E (RN 1))].

Example exsp_ok : BddOK exsp /\ rc_exact_b exsp [] = true /\ node_count exsp = 2.
Proof.
  split; [apply bdd_ok_b_spec; vm_compute; reflexivity|]. split; vm_compute; reflexivity.
Qed.

(** x2 := x0 /\ x2 in x0 /\ x2: [substitute_prepare] creates the variable nodes
    of levels 0 and 1 (the result is the existing x0 /\ x2): with a full store
    it fails at once, with one free slot after having created the variable
    node of level 0 - [GOom] carries that table - with two it succeeds *)
Example exsp_subst :
  map (fun cap => outq (qrun_nc cap false exsp (KSubst (RN 2) [(2, RN 2)] 0%N))) [0; 2; 3; 4; 5] =
  [(1, Some 2, None); (1, Some 2, None); (1, Some 3, None); (0, Some 4, Some (RN 2)); (0, Some 4, Some (RN 2))].
Proof. vm_compute. reflexivity. Qed.

Example exsp_subst_garbage :
  match qrun_nc 3 false exsp (KSubst (RN 2) [(2, RN 2)] 0%N) with
  | GOom s' _ =>
      s_handles s' = s_handles exsp /\ bdd_ok_b s' = true /\
      map fst (PositiveMap.elements (s_nodes s')) = [2; 1; 3]%positive /\
      find_node s' 3 = Some (mkNode 0 [E (RT 1); E (RT 0)] 0 0)
  | _ => False
  end.
Proof. vm_compute. repeat split; reflexivity. Qed.

Example exsp_call_ok : qcall_ok (sg_one [(2, RN 2)]) exsp (KSubst (RN 2) [(2, RN 2)] 0%N).
Proof.
  assert (R : ref_ok exsp (RN 2)) by (eexists; vm_compute; reflexivity).
  split; [exact R|]. split; [repeat constructor; simpl; tauto|]. split; [|reflexivity].
  intros v r [E|[]]. inversion E; subst. split; [vm_compute; lia | exact R].
Qed.

Example exsp_exact : forall cap p,
  let k := KSubst (RN 2) [(2, RN 2)] 0%N in
  (4 <= cap -> exists su, qrun_nc cap p exsp k = GOk su tt (RN 2) /\ node_count su = 4) /\
  (cap < 4 -> exists s', qrun_nc cap p exsp k = GOom s' tt /\
                         qfailed_ok unit nc_get (sg_one [(2, RN 2)]) cap exsp s' tt).
Proof.
  intros cap p k.
  destruct (qoom_exact gt_none unit nc_get nc_add nc_lossy (sg_one [(2, RN 2)]) cap (fun _ => p) (fun _ => p)
              exsp tt k (proj1 exsp_ok) (nc_qok _ _) exsp_call_ok)
    as [su [cu [ru [Eu [_ [A1 A2]]]]]].
  assert (Hn : node_count su = 4 /\ ru = RN 2) by (vm_compute in Eu; inversion Eu; split; vm_compute; reflexivity).
  destruct Hn as [Hn ->]. destruct cu. rewrite Hn in A1, A2. change (node_count exsp) with 2 in A1, A2. split.
  - intros Hcap. exists su. split; [apply A1; lia | exact Hn].
  - intros Hcap. destruct A2 as [s' [[] [E F]]]; [lia|]. exists s'. split; assumption.
Qed.
