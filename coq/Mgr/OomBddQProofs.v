(** * Out-of-memory behaviour of quantification / apply-and-quantify / restrict /
      substitute of the plain BDD kind (Mgr/OomBddQ.v), part 1

    Facts that need no invariant (every table, cache, fuel, capacity, recursor
    [par] / [pin], operand order): [*_sim] - when the bounded algorithm returns
    [GOk s' c' r] the unbounded algorithm of DD/Quant.v returns literally
    [Some (s', c', r)] and at most [cap] nodes are stored unless nothing was
    inserted; when it returns [GOom s' c'] no node has disappeared and the store
    is full; when the unbounded algorithm returns a table that fits, the
    bounded one returns exactly that result.  The invariant-dependent part is
    in Mgr/OomBddQSafe.v. *)

From Coq Require Import List NArith PArith Bool Arith Lia FMapPositive.
From OxiVerif Require Import DD.Table DD.TableProofs DD.Sem DD.Build DD.BuildProofs
  DD.Apply DD.Quant Mgr.Oom Mgr.OomProofs.
From OxiVerif Require Import Mgr.OomGen Mgr.OomGenProofs Mgr.OomBcddProofs Mgr.OomBddQ.
Import ListNotations.

Section Sim.
Variable gt : ref -> ref -> bool.
Variable C : Type.
Variable cget : C -> N -> list ref -> option ref.
Variable cadd : C -> N -> list ref -> ref -> C.
Variable cap : nat.

Notation SIM := (sim C no_m2 cap 1).

(** ** The algorithms of Mgr/Oom.v as [gres] computations *)

Lemma gof_sim : forall s (rb : res C) ru,
  OomProofs.refines C cap s rb ru -> OomProofs.fits C cap s ru rb -> SIM s (gof rb) ru.
Proof.
  intros s rb ru A B. split.
  - destruct rb as [s' c' r|s' c'|]; simpl in *; unfold no_m2.
    + destruct A as [-> Hc]. split; [reflexivity | lia].
    + lia.
    + exact I.
  - destruct ru as [[[s' c'] r]|]; simpl in *; [|exact I]. unfold no_m2.
    destruct B as [Hc Hf]. split; [lia|]. intros W. rewrite Hf by lia. reflexivity.
Qed.

Lemma gof_not_sim : forall par fuel s c f,
  SIM s (gof (apply_not_c C cget cadd cap par fuel s c f)) (apply_not C cget cadd fuel s c f).
Proof. intros. apply gof_sim; [apply apply_not_refines | apply apply_not_fits]. Qed.

Lemma gof_bin_sim : forall par fuel s c op f g,
  SIM s (gof (apply_bin_c gt C cget cadd cap par fuel s c op f g)) (apply_bin gt C cget cadd fuel s c op f g).
Proof. intros. apply gof_sim; [apply apply_bin_refines | apply apply_bin_fits]. Qed.

Lemma gof_ite_sim : forall par fuel s c f g h,
  SIM s (gof (apply_ite_c gt C cget cadd cap par fuel s c f g h)) (apply_ite gt C cget cadd fuel s c f g h).
Proof. intros. apply gof_sim; [apply apply_ite_refines | apply apply_ite_fits]. Qed.

Lemma gfalse_sim : forall s c,
  SIM s (gfalse C s c) (match term_of s false with Some t => Some (s, c, RT t) | None => None end).
Proof. intros s c. unfold gfalse. destruct (term_of s false); [apply sim_here | apply sim_stuck]. Qed.

(** [reduce(..)?] + cache insertion *)
Lemma qfin_sim : forall s2 c2 lvl t e (kc : edge -> C),
  SIM s2 (gfin s2 c2 (mk_node_cap cap s2 lvl [E t; E e]) kc (fun h => eref h))
         (ufin (mk_node s2 lvl [E t; E e]) kc (fun h => eref h)).
Proof. intros. apply gfin_sim. apply mk_node_leaf. exact no_m2_terms. Qed.

(** ** Unfolding lemmas: the unbounded algorithms in the shapes [ubind] / [ujoin2] / [ufin] *)

Lemma quant_rec_U : forall n s c q f vars,
  quant_rec gt C cget cadd (S n) s c q f vars =
    match f with
    | RT _ =>
      if negb (is_unique q) || (match vars with RT _ => true | RN _ => false end)
      then Some (s, c, f)
      else match term_of s false with Some t => Some (s, c, RT t) | None => None end
    | RN fid =>
      match find_node s fid with
      | None => None
      | Some fnode =>
        let flevel := nstored fnode in
        match (if is_unique q then Some vars else set_pop (S (nlevels s)) s vars flevel) with
        | None => None
        | Some (RT _) => Some (s, c, f)
        | Some (RN vid as vars') =>
          match find_node s vid with
          | None => None
          | Some vnode =>
            let vlevel := nstored vnode in
            if is_unique q && Nat.ltb vlevel flevel then
              match term_of s false with Some t => Some (s, c, RT t) | None => None end
            else
              match cget c (qcode q) [f; vars'] with
              | Some h => Some (s, c, h)
              | None =>
                match nchildren fnode,
                      (if Nat.eqb vlevel flevel
                       then match nchildren vnode with [vt; _] => Some (eref vt) | _ => None end
                       else Some vars') with
                | [ft; fe], Some vt =>
                  ujoin2 (quant_rec gt C cget cadd n s c q (eref ft) vt)
                    (fun s1 c1 => quant_rec gt C cget cadd n s1 c1 q (eref fe) vt)
                    (fun s2 c2 t e =>
                       if Nat.eqb flevel vlevel then
                         ubind (apply_bin gt C cget cadd (S (nlevels s2)) s2 c2 (qop q) t e)
                           (fun s3 c3 res => Some (s3, cadd c3 (qcode q) [f; vars'] res, res))
                       else
                         ufin (mk_node s2 flevel [E t; E e])
                           (fun h => cadd c2 (qcode q) [f; vars'] (eref h)) (fun h => eref h))
                | _, _ => None
                end
              end
          end
        end
      end
    end.
Proof. reflexivity. Qed.

Lemma restrict_U : forall n s c f vars,
  restrict C cget cadd (S n) s c f vars =
    match f, vars with
    | RN fid, RN vid =>
      match find_node s fid, find_node s vid with
      | Some fnode, Some vnode =>
        match restrict_inner (S (nlevels s + nlevels s)) s f fnode (nstored fnode) vars vnode with
        | None => None
        | Some (RDone r) => Some (s, c, r)
        | Some (RRec vars' f' fnode') =>
          match cget c code_restrict [f'; vars'] with
          | Some r => Some (s, c, r)
          | None =>
            match nchildren fnode' with
            | [ft; fe] =>
              ujoin2 (restrict C cget cadd n s c (eref ft) vars')
                (fun s1 c1 => restrict C cget cadd n s1 c1 (eref fe) vars')
                (fun s2 c2 t e =>
                   ufin (mk_node s2 (nstored fnode') [E t; E e])
                     (fun h => cadd c2 code_restrict [f'; vars'] (eref h)) (fun h => eref h))
            | _ => None
            end
          end
        end
      | _, _ => None
      end
    | _, _ => Some (s, c, f)
    end.
Proof. reflexivity. Qed.

Lemma substitute_U : forall n s c f subst id,
  substitute gt C cget cadd (S n) s c f subst id =
    match f with
    | RT _ => Some (s, c, f)
    | RN fid =>
      match find_node s fid with
      | None => None
      | Some fnode =>
        let level := nstored fnode in
        if Nat.leb (length subst) level then Some (s, c, f)
        else
          match cget c (code_subst id) [f] with
          | Some h => Some (s, c, h)
          | None =>
            match nchildren fnode with
            | [ft; fe] =>
              ujoin2 (substitute gt C cget cadd n s c (eref ft) subst id)
                (fun s1 c1 => substitute gt C cget cadd n s1 c1 (eref fe) subst id)
                (fun s2 c2 t e =>
                   match nth_error subst level with
                   | None => None
                   | Some r =>
                     ubind (apply_ite gt C cget cadd (S (nlevels s2)) s2 c2 r t e)
                       (fun s3 c3 res => Some (s3, cadd c3 (code_subst id) [f] res, res))
                   end)
            | _ => None
            end
          end
      end
    end.
Proof. reflexivity. Qed.

Lemma apply_quant_U : forall n s c q op f g vars,
  apply_quant gt C cget cadd (S n) s c q op f g vars =
    match terminal_bin gt s op f g with
    | TFail => None
    | TNot h =>
      ubind (apply_not C cget cadd (S (nlevels s)) s c h)
        (fun s1 c1 inverse => quant_rec gt C cget cadd (S (nlevels s1)) s1 c1 q inverse vars)
    | TDone h => quant_rec gt C cget cadd (S (nlevels s)) s c q h vars
    | TBin _ f g =>
      match inner s f, inner s g with
      | Some fnode, Some gnode =>
        let flevel := nstored fnode in
        let glevel := nstored gnode in
        let min_level := Nat.min flevel glevel in
        match (if is_unique q then Some vars else set_pop (S (nlevels s)) s vars min_level) with
        | None => None
        | Some (RT _) => apply_bin gt C cget cadd (S (nlevels s)) s c op f g
        | Some (RN vid as vars') =>
          match find_node s vid with
          | None => None
          | Some vnode =>
            let vlevel := nstored vnode in
            if Nat.ltb vlevel min_level && is_unique q then
              match term_of s false with Some t => Some (s, c, RT t) | None => None end
            else if Nat.ltb vlevel min_level then
              apply_bin gt C cget cadd (S (nlevels s)) s c op f g
            else
              match cget c (aqcode q op) [f; g; vars'] with
              | Some h => Some (s, c, h)
              | None =>
                match (if Nat.eqb vlevel min_level
                       then match nchildren vnode with [vt; _] => Some (eref vt) | _ => None end
                       else Some vars'),
                      (if Nat.leb flevel glevel
                       then match nchildren fnode with [t; e] => Some (eref t, eref e) | _ => None end
                       else Some (f, f)),
                      (if Nat.leb glevel flevel
                       then match nchildren gnode with [t; e] => Some (eref t, eref e) | _ => None end
                       else Some (g, g)) with
                | Some vt, Some (ft, fe), Some (gt', ge) =>
                  ujoin2 (apply_quant gt C cget cadd n s c q op ft gt' vt)
                    (fun s1 c1 => apply_quant gt C cget cadd n s1 c1 q op fe ge vt)
                    (fun s2 c2 t e =>
                       if Nat.eqb min_level vlevel then
                         ubind (apply_bin gt C cget cadd (S (nlevels s2)) s2 c2 (qop q) t e)
                           (fun s3 c3 res => Some (s3, cadd c3 (aqcode q op) [f; g; vars'] res, res))
                       else
                         ufin (mk_node s2 min_level [E t; E e])
                           (fun h => cadd c2 (aqcode q op) [f; g; vars'] (eref h)) (fun h => eref h))
                | _, _, _ => None
                end
              end
          end
        end
      | _, _ => None
      end
    end.
Proof. reflexivity. Qed.

(** ** The walks *)

Theorem quant_sim : forall par pin fuel s c q f vars,
  SIM s (quant_c gt C cget cadd cap par pin fuel s c q f vars) (quant_rec gt C cget cadd fuel s c q f vars).
Proof.
  intros par pin. induction fuel as [|n IH]; intros s c q f vars; [apply sim_stuck|].
  rewrite quant_rec_U. cbn [quant_c]. destruct f as [t|fid].
  { destruct (negb (is_unique q) || _); [apply sim_here | apply gfalse_sim]. }
  destruct (find_node s fid) as [fnode|]; [|apply sim_stuck]. cbv zeta.
  destruct (if is_unique q then Some vars else _) as [[tv|vid]|]; [apply sim_here | | apply sim_stuck].
  destruct (find_node s vid) as [vnode|]; [|apply sim_stuck].
  destruct (is_unique q && _); [apply gfalse_sim|].
  destruct (cget c (qcode q) _); [apply sim_here|].
  destruct (nchildren fnode) as [|ft [|fe [|x r]]]; try apply sim_stuck.
  destruct (if Nat.eqb (nstored vnode) (nstored fnode) then _ else _) as [vt|]; [|apply sim_stuck].
  apply gjoin2_sim; [apply IH | intros; apply IH |].
  intros s2 c2 t e. destruct (Nat.eqb (nstored fnode) (nstored vnode)).
  - apply gbind_sim; [apply gof_bin_sim | intros; apply sim_here].
  - apply qfin_sim.
Qed.

Theorem restrict_sim : forall par fuel s c f vars,
  SIM s (restrict_c C cget cadd cap par fuel s c f vars) (restrict C cget cadd fuel s c f vars).
Proof.
  intros par. induction fuel as [|n IH]; intros s c f vars; [apply sim_stuck|].
  rewrite restrict_U. cbn [restrict_c]. destruct f as [t|fid]; [apply sim_here|].
  destruct vars as [tv|vid]; [apply sim_here|].
  destruct (find_node s fid) as [fnode|]; [|apply sim_stuck].
  destruct (find_node s vid) as [vnode|]; [|apply sim_stuck].
  destruct (restrict_inner _ s (RN fid) fnode (nstored fnode) (RN vid) vnode) as [[r|vars' f' fnode']|];
    [apply sim_here | | apply sim_stuck].
  destruct (cget c code_restrict _); [apply sim_here|].
  destruct (nchildren fnode') as [|ft [|fe [|x r]]]; try apply sim_stuck.
  apply gjoin2_sim; [apply IH | intros; apply IH | intros; apply qfin_sim].
Qed.

Theorem substitute_sim : forall par pin fuel s c f subst id,
  SIM s (substitute_c gt C cget cadd cap par pin fuel s c f subst id)
        (substitute gt C cget cadd fuel s c f subst id).
Proof.
  intros par pin. induction fuel as [|n IH]; intros s c f subst id; [apply sim_stuck|].
  rewrite substitute_U. cbn [substitute_c]. destruct f as [t|fid]; [apply sim_here|].
  destruct (find_node s fid) as [fnode|]; [|apply sim_stuck]. cbv zeta.
  destruct (Nat.leb (length subst) (nstored fnode)); [apply sim_here|].
  destruct (cget c (code_subst id) _); [apply sim_here|].
  destruct (nchildren fnode) as [|ft [|fe [|x r]]]; try apply sim_stuck.
  apply gjoin2_sim; [apply IH | intros; apply IH |].
  intros s2 c2 t e. destruct (nth_error subst (nstored fnode)) as [r|]; [|apply sim_stuck].
  apply gbind_sim; [apply gof_ite_sim | intros; apply sim_here].
Qed.

Theorem apply_quant_sim : forall par pin fuel s c q op f g vars,
  SIM s (apply_quant_c gt C cget cadd cap par pin fuel s c q op f g vars)
        (apply_quant gt C cget cadd fuel s c q op f g vars).
Proof.
  intros par pin. induction fuel as [|n IH]; intros s c q op f g vars; [apply sim_stuck|].
  rewrite apply_quant_U. cbn [apply_quant_c].
  destruct (terminal_bin gt s op f g) as [h|h|o a b|]; [apply quant_sim | | | apply sim_stuck].
  { apply gbind_sim; [apply gof_not_sim | intros; apply quant_sim]. }
  destruct (inner s a) as [fnode|]; [|apply sim_stuck].
  destruct (inner s b) as [gnode|]; [|apply sim_stuck]. cbv zeta.
  destruct (if is_unique q then Some vars else _) as [[tv|vid]|]; [apply gof_bin_sim | | apply sim_stuck].
  destruct (find_node s vid) as [vnode|]; [|apply sim_stuck].
  destruct (Nat.ltb (nstored vnode) _ && is_unique q); [apply gfalse_sim|].
  destruct (Nat.ltb (nstored vnode) _); [apply gof_bin_sim|].
  destruct (cget c (aqcode q op) _); [apply sim_here|].
  destruct (if Nat.eqb (nstored vnode) _ then _ else _) as [vt|]; [|apply sim_stuck].
  destruct (if Nat.leb (nstored fnode) (nstored gnode) then _ else _) as [[ft fe]|]; [|apply sim_stuck].
  destruct (if Nat.leb (nstored gnode) (nstored fnode) then _ else _) as [[gt' ge]|]; [|apply sim_stuck].
  apply gjoin2_sim; [apply IH | intros; apply IH |].
  intros s2 c2 t e. destruct (Nat.eqb _ (nstored vnode)).
  - apply gbind_sim; [apply gof_bin_sim | intros; apply sim_here].
  - apply qfin_sim.
Qed.

(** ** [substitute_prepare]: the cache is passed through *)

Definition with_cache {R : Type} (c : C) (u : option (snap * R)) : option (snap * C * R) :=
  match u with Some (s', x) => Some (s', c, x) | None => None end.

Lemma prepare_fill_sim : forall slots s c level,
  SIM s (prepare_fill_c C cap s c slots level) (with_cache c (prepare_fill s slots level)).
Proof.
  induction slots as [|[e|] rest IH]; intros s c level.
  - apply sim_here.
  - cbn [prepare_fill_c prepare_fill].
    replace (with_cache c match prepare_fill s rest (S level) with
                          | Some (s', l) => Some (s', e :: l) | None => None end)
      with (ubind (with_cache c (prepare_fill s rest (S level))) (fun s' c' l => Some (s', c', e :: l)))
      by (destruct (prepare_fill s rest (S level)) as [[s' l]|]; reflexivity).
    apply gbind_sim; [apply IH | intros; apply sim_here].
  - cbn [prepare_fill_c prepare_fill].
    destruct (term_of s true) as [t1|]; [|apply sim_stuck].
    destruct (term_of s false) as [t0|]; [|apply sim_stuck].
    replace (with_cache c (let '(s1, e) := get_or_insert s level [E (RT t1); E (RT t0)] in
                           match prepare_fill s1 rest (S level) with
                           | Some (s', l) => Some (s', eref e :: l) | None => None end))
      with (ubind (ufin (get_or_insert s level [E (RT t1); E (RT t0)]) (fun _ => c) (fun e => eref e))
              (fun s1 c1 e => ubind (with_cache c1 (prepare_fill s1 rest (S level)))
                                (fun s' c' l => Some (s', c', e :: l)))).
    2:{ unfold ufin. destruct (get_or_insert s level _) as [s1 e]. simpl.
        destruct (prepare_fill s1 rest (S level)) as [[s' l]|]; reflexivity. }
    apply gbind_sim.
    + apply gfin_sim. apply goi_leaf. exact no_m2_terms.
    + intros s1 c1 e. apply gbind_sim; [apply IH | intros; apply sim_here].
Qed.

Lemma substitute_prepare_sim : forall s c pairs,
  SIM s (substitute_prepare_c C cap s c pairs) (with_cache c (substitute_prepare s pairs)).
Proof.
  intros s c pairs. unfold substitute_prepare_c, substitute_prepare.
  destruct (prepare_slots s pairs []) as [slots|]; [apply prepare_fill_sim | apply sim_stuck].
Qed.

(** ** The entry points and [qrun_c] *)

Lemma substitute_edge_U : forall s c f pairs id,
  substitute_edge gt C cget cadd s c f pairs id =
  ubind (with_cache c (substitute_prepare s pairs))
    (fun s0 c0 subst => substitute gt C cget cadd (S (nlevels s0)) s0 c0 f subst id).
Proof.
  intros. unfold substitute_edge. destruct (substitute_prepare s pairs) as [[s0 sv]|]; reflexivity.
Qed.

Theorem qrun_sim : forall par pin s c k,
  SIM s (qrun_c gt C cget cadd cap par pin s c k) (qrun_u gt C cget cadd s c k).
Proof.
  intros par pin s c [q f vars|q op f g vars|f vars|f pairs id]; cbn [qrun_c qrun_u].
  - apply quant_sim.
  - apply apply_quant_sim.
  - apply restrict_sim.
  - rewrite substitute_edge_U. unfold substitute_edge_c.
    apply gbind_sim; [apply substitute_prepare_sim | intros; apply substitute_sim].
Qed.

End Sim.
