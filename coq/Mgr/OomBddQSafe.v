(** * Out-of-memory behaviour of quantification / apply-and-quantify / restrict /
      substitute of the plain BDD kind (Mgr/OomBddQ.v), part 2

    Under the invariant of the C04 theorems ([BddOK], the cache invariant
    [QCacheOK] of DD/QuantLemmas.v, operands are valid references):

    - the apply algorithms of Mgr/Oom.v, when they FAIL, leave a cache that
      only gained entries with the operator codes of the apply algorithms
      ([cfr]; for a result this is [apply_*_frame] of DD/QuantLemmas.v) - so the
      quantification cache invariant survives a failed inner call;
    - [*_c_safe]: the bounded algorithms never get stuck, and whatever they
      return - result or out-of-memory - the table they leave is a well-formed
      BDD table extending the one they started from, with a correct cache. *)

From Coq Require Import List NArith PArith Bool Arith Lia FMapPositive.
From OxiVerif Require Import DD.Table DD.TableProofs DD.Sem DD.Build DD.BuildProofs
  DD.Apply DD.ApplyProofs DD.Quant DD.QuantLemmas DD.QuantProofs DD.RestrictProofs DD.SubstProofs
  DD.ApplyQuantProofs Mgr.Oom Mgr.OomProofs Mgr.OomSafe.
From OxiVerif Require Import Mgr.OomGen Mgr.OomGenProofs Mgr.OomBcddProofs Mgr.OomBddQ Mgr.OomBddQProofs.
Import ListNotations.

(** [gjoin2_safe] of Mgr/OomGenProofs.v for a final step that uses the two
    results (an inner call on them): their postconditions are handed on *)
Section Join.
Variable C : Type.
Variable Inv : snap -> C -> Prop.
Variable ext : snap -> snap -> Prop.
Hypothesis ext_trans : forall s1 s2 s3, ext s1 s2 -> ext s2 s3 -> ext s1 s3.

Lemma gjoin2_safe_q : forall R1 R2 R' (Q1 : snap -> R1 -> Prop) (Q2 : snap -> R2 -> Prop) p s
    (r1 : gres C R1) (run2 : snap -> C -> gres C R2) (fin : snap -> C -> R1 -> R2 -> gres C R'),
  (forall s1 s2 x, ext s1 s2 -> Q1 s1 x -> Q1 s2 x) ->
  res_safe Inv ext Q1 s r1 ->
  (forall s1 c1, Inv s1 c1 -> ext s s1 -> res_safe Inv ext Q2 s1 (run2 s1 c1)) ->
  (forall s2 c2 t e, Inv s2 c2 -> ext s s2 -> Q1 s2 t -> Q2 s2 e -> fail_safe Inv ext s2 (fin s2 c2 t e)) ->
  fail_safe Inv ext s (gjoin2 p r1 run2 fin).
Proof.
  intros R1 R2 R' Q1 Q2 p s r1 run2 fin Hm H1 H2 H3. unfold gjoin2.
  destruct r1 as [s1 c1 t|s1 c1|]; simpl in H1; [| |contradiction].
  - destruct H1 as [I1 [X1 Qt]]. specialize (H2 s1 c1 I1 X1).
    destruct (run2 s1 c1) as [s2 c2 e|s2 c2|]; simpl in H2; [| |contradiction].
    + destruct H2 as [I2 [X2 Qe]]. apply (fail_safe_from C Inv ext ext_trans _ s s2 _ (ext_trans _ _ _ X1 X2)).
      apply H3; eauto.
    + destruct H2 as [I2 X2]. simpl. eauto.
  - destruct H1 as [I1 X1]. destruct p; [|simpl; auto].
    specialize (H2 s1 c1 I1 X1).
    destruct (run2 s1 c1) as [s2 c2 e|s2 c2|]; simpl in *; [| |contradiction].
    + destruct H2 as [I2 [X2 _]]. eauto.
    + destruct H2 as [I2 X2]. eauto.
Qed.
End Join.

Section Safe.
Variable gt : ref -> ref -> bool.
Variable C : Type.
Variable cget : C -> N -> list ref -> option ref.
Variable cadd : C -> N -> list ref -> ref -> C.
Hypothesis Hlossy : lossy cget cadd.
(** registry of substitution objects (DD/QuantLemmas.v) *)
Variable Sg : N -> option (list (nat * ref)).
Variable cap : nat.

Notation QOK := (QCacheOK cget Sg).
Notation sf := (serves_from cget).

(** ** A failed apply algorithm only added apply entries to the cache *)

Definition cfr (c : C) (r : res C) : Prop :=
  match r with
  | ROk _ c' _ => sf c c'
  | ROom _ c' => sf c c'
  | RStuck => True
  end.

Lemma join2_cfr : forall p c r1 run2 fin,
  cfr c r1 -> (forall s1 c1, cfr c1 (run2 s1 c1)) -> (forall s2 c2 t e, cfr c2 (fin s2 c2 t e)) ->
  cfr c (join2 p r1 run2 fin).
Proof.
  intros p c r1 run2 fin H1 H2 H3. unfold join2.
  destruct r1 as [s1 c1 t|s1 c1|]; simpl in H1; [| |exact I].
  - specialize (H2 s1 c1). destruct (run2 s1 c1) as [s2 c2 e|s2 c2|]; simpl in H2; [| |exact I].
    + specialize (H3 s2 c2 t e). destruct (fin s2 c2 t e) as [s3 c3 r|s3 c3|]; simpl in *; [| |exact I];
        (eapply sf_trans; [exact H1|]; eapply sf_trans; [exact H2 | exact H3]).
    + simpl. eapply sf_trans; eauto.
  - destruct p; [|exact H1]. specialize (H2 s1 c1).
    destruct (run2 s1 c1) as [s2 c2 e|s2 c2|]; simpl in *; [| |exact I]; eapply sf_trans; eauto.
Qed.

Lemma finish_cfr : forall lvl code args s2 c2 t e, (code <= 9)%N ->
  cfr c2 (finish C cadd cap lvl code args s2 c2 t e).
Proof.
  intros lvl code args s2 c2 t e Hk. unfold finish.
  destruct (mk_node_cap cap s2 lvl [E t; E e]) as [[s3 h]|]; simpl.
  - apply (sf_add C cget cadd Hlossy). exact Hk.
  - apply sf_refl.
Qed.

Lemma cfr_here : forall s c r, cfr c (ROk s c r).
Proof. intros. simpl. apply sf_refl. Qed.

Lemma apply_not_c_cfr : forall par fuel s c f, cfr c (apply_not_c C cget cadd cap par fuel s c f).
Proof.
  intros par. induction fuel as [|n IH]; intros s c f; [exact I|].
  rewrite apply_not_c_S. destruct f as [t|id].
  - destruct (view s (RT t)) as [[|b]|]; try exact I.
    destruct (term_of s (negb b)); [apply cfr_here | exact I].
  - destruct (find_node s id) as [nd|]; [|exact I].
    destruct (cget c code_not [RN id]); [apply cfr_here|].
    destruct (nchildren nd) as [|ft [|fe [|x r]]]; try exact I.
    apply join2_cfr; [apply IH | intros; apply IH | intros; apply finish_cfr; unfold code_not; lia].
Qed.

Lemma apply_bin_c_cfr : forall par fuel s c op f g, cfr c (apply_bin_c gt C cget cadd cap par fuel s c op f g).
Proof.
  intros par. induction fuel as [|n IH]; intros s c op f g; [exact I|].
  rewrite apply_bin_c_S.
  destruct (terminal_bin gt s op f g) as [r|r|o a b|]; [apply cfr_here | apply apply_not_c_cfr | | exact I].
  destruct (cget c (op_code o) [a; b]); [apply cfr_here|].
  destruct (inner s f) as [fnode|]; [|exact I]. destruct (inner s g) as [gnode|]; [|exact I].
  cbv zeta.
  destruct (cof2 f fnode _) as [[ft fe]|]; [|exact I]. destruct (cof2 g gnode _) as [[gt' ge]|]; [|exact I].
  apply join2_cfr; [apply IH | intros; apply IH | intros; apply finish_cfr; apply op_code_le].
Qed.

Lemma apply_ite_c_cfr : forall par fuel s c f g h, cfr c (apply_ite_c gt C cget cadd cap par fuel s c f g h).
Proof.
  intros par. induction fuel as [|n IH]; intros s c f g h; [exact I|].
  rewrite apply_ite_c_S.
  destruct (ref_eqb g h); [apply cfr_here|].
  destruct (ref_eqb f g); [apply apply_bin_c_cfr|].
  destruct (ref_eqb f h); [apply apply_bin_c_cfr|].
  destruct (view s f) as [[|bf]|]; [| apply cfr_here | exact I].
  destruct (view s g) as [[|[]]|]; destruct (view s h) as [[|[]]|];
    try exact I; try apply apply_bin_c_cfr; try apply apply_not_c_cfr; try apply cfr_here.
  destruct (cget c code_ite [f; g; h]); [apply cfr_here|].
  destruct (inner s f) as [fnode|]; [|exact I]. destruct (inner s g) as [gnode|]; [|exact I].
  destruct (inner s h) as [hnode|]; [|exact I]. cbv zeta.
  destruct (cof2 f fnode _) as [[ft fe]|]; [|exact I]. destruct (cof2 g gnode _) as [[gt' ge]|]; [|exact I].
  destruct (cof2 h hnode _) as [[ht he]|]; [|exact I].
  apply join2_cfr; [apply IH | intros; apply IH | intros; apply finish_cfr; unfold code_ite; lia].
Qed.

(** ** Never stuck; the state after a result or a failure *)

Definition QInv (s : snap) (c : C) : Prop := BddOK s /\ QOK s c.
Definition Qref (s : snap) (r : ref) : Prop := ref_ok s r.

Notation RS := (res_safe QInv extends Qref).
Notation FS := (fail_safe QInv extends).
Notation SIM := (sim C no_m2 cap 1).

Lemma qref_mono : forall s1 s2 x, extends s1 s2 -> Qref s1 x -> Qref s2 x.
Proof. intros s1 s2 x X H. apply (ext_ref_ok _ _ _ X H). Qed.

(** a [qresult_ok] (DD/QuantLemmas.v) run whose bounded counterpart returned [GOk] *)
Lemma rs_of_qres : forall s (rb : gres C ref) ru Phi s' c' r,
  SIM s rb ru -> qresult_ok cget Sg s ru Phi -> rb = GOk s' c' r ->
  QInv s' c' /\ extends s s' /\ Qref s' r.
Proof.
  intros s rb ru Phi s' c' r M [s1 [c1 [r1 [E1 [B1 [X1 [Q1 D1]]]]]]] E.
  pose proof (sim_never_wrong C no_m2 cap 1 ref s rb ru s' c' r M E) as Eu.
  rewrite Eu in E1. inversion E1; subst. split; [split; assumption|]. split; [exact X1 | apply (proj1 D1)].
Qed.

(** the inner calls *)
Lemma gof_fs : forall s c (rb : res C),
  BddOK s -> QOK s c -> OomSafe.res_safe cget s rb -> cfr c rb -> FS s (gof rb).
Proof.
  intros s c rb B Q S F. destruct rb as [s' c' r|s' c'|]; simpl in *; [exact I | | contradiction].
  destruct S as [B' [X O']]. split; [|exact X]. split; [exact B'|].
  apply (qcacheok_frame C cget Sg s s' c c' B X Q O' F).
Qed.

Lemma gof_not_rs : forall pin s c f, BddOK s -> QOK s c -> ref_ok s f ->
  RS s (gof (apply_not_c C cget cadd cap pin (S (nlevels s)) s c f)).
Proof.
  intros pin s c f B Q Hf. pose proof (rlevel_le s (bo_wf s B) f) as Hl.
  apply safe_intro.
  - apply (gof_fs s c _ B Q); [|apply apply_not_c_cfr].
    apply (apply_not_c_safe C cget cadd Hlossy cap pin _ s c f B (proj1 Q) Hf). lia.
  - intros s' c' r E. destruct (den_exists s f B Hf) as [phi D].
    apply (rs_of_qres s _ _ _ s' c' r (gof_not_sim C cget cadd cap pin _ s c f)
             (q_apply_not C cget cadd Hlossy Sg s c f phi B Q D) E).
Qed.

Lemma gof_bin_rs : forall pin op s c f g, BddOK s -> QOK s c -> ref_ok s f -> ref_ok s g ->
  RS s (gof (apply_bin_c gt C cget cadd cap pin (S (nlevels s)) s c op f g)).
Proof.
  intros pin op s c f g B Q Hf Hg.
  apply safe_intro.
  - apply (gof_fs s c _ B Q); [|apply apply_bin_c_cfr].
    apply (apply_bin_c_safe gt C cget cadd Hlossy cap pin op _ s c f g B (proj1 Q) Hf Hg). lia.
  - intros s' c' r E. destruct (den_exists s f B Hf) as [phi Df]. destruct (den_exists s g B Hg) as [psi Dg].
    apply (rs_of_qres s _ _ _ s' c' r (gof_bin_sim gt C cget cadd cap pin _ s c op f g)
             (q_apply_bin gt C cget cadd Hlossy Sg op s c f g phi psi B Q Df Dg) E).
Qed.

Lemma gof_ite_rs : forall pin s c f g h, BddOK s -> QOK s c -> ref_ok s f -> ref_ok s g -> ref_ok s h ->
  RS s (gof (apply_ite_c gt C cget cadd cap pin (S (nlevels s)) s c f g h)).
Proof.
  intros pin s c f g h B Q Hf Hg Hh.
  apply safe_intro.
  - apply (gof_fs s c _ B Q); [|apply apply_ite_c_cfr].
    apply (apply_ite_c_safe gt C cget cadd Hlossy cap pin _ s c f g h B (proj1 Q) Hf Hg Hh). lia.
  - intros s' c' r E. destruct (den_exists s f B Hf) as [phi Df]. destruct (den_exists s g B Hg) as [psi Dg].
    destruct (den_exists s h B Hh) as [theta Dh].
    apply (rs_of_qres s _ _ _ s' c' r (gof_ite_sim gt C cget cadd cap pin _ s c f g h)
             (q_apply_ite gt C cget cadd Hlossy Sg s c f g h phi psi theta B Q Df Dg Dh) E).
Qed.

Lemma gfalse_fs : forall s c, BddOK s -> FS s (gfalse C s c).
Proof.
  intros s c B. unfold gfalse. destruct (term_of_total s false B) as [t Et]. rewrite Et. exact I.
Qed.

(** [let res = apply_bin::<Q>(manager, rec, t, e)?; cache.add; Ok(res)] *)
Lemma bin_then_add_fs : forall pin op s2 c2 t e (kc : C -> ref -> C),
  QInv s2 c2 -> Qref s2 t -> Qref s2 e ->
  FS s2 (gbind (gof (apply_bin_c gt C cget cadd cap pin (S (nlevels s2)) s2 c2 op t e))
           (fun s3 c3 res => GOk s3 (kc c3 res) res)).
Proof.
  intros pin op s2 c2 t e kc [B2 Q2] Ht He.
  apply (gbind_safe C QInv extends extends_trans ref ref Qref).
  - apply gof_bin_rs; assumption.
  - intros. exact I.
Qed.

(** the two children of a stored node *)
Lemma two_children : forall s id nd, BddOK s -> find_node s id = Some nd ->
  exists ft fe, nchildren nd = [ft; fe] /\
    ref_ok s (eref ft) /\ ref_ok s (eref fe) /\
    nlevel nd < rlevel s (eref ft) /\ nlevel nd < rlevel s (eref fe).
Proof.
  intros s id nd B E. pose proof (bo_wf s B) as H.
  destruct (bdd_children s id nd B E) as [ft [fe Ech]]. exists ft, fe. split; [exact Ech|].
  assert (Hft : nth_error (nchildren nd) 0 = Some ft) by (rewrite Ech; reflexivity).
  assert (Hfe : nth_error (nchildren nd) 1 = Some fe) by (rewrite Ech; reflexivity).
  destruct (child_nth s H id nd 0 ft E Hft) as [Oft Lft].
  destruct (child_nth s H id nd 1 fe E Hfe) as [Ofe Lfe]. auto.
Qed.

(** *** [quant_c] *)

Theorem quant_c_safe : forall par pin q fuel s c f vars,
  BddOK s -> QOK s c -> ref_ok s f -> ref_ok s vars -> nlevels s - rlevel s f < fuel ->
  RS s (quant_c gt C cget cadd cap par pin fuel s c q f vars).
Proof.
  intros par pin q. induction fuel as [|n IH]; intros s c f vars B Q Hf Ov Hfuel; [lia|].
  pose proof (bo_wf s B) as H.
  apply safe_intro.
  2:{ intros s' c' r E. destruct (den_exists s f B Hf) as [phi D]. destruct (vchain_total s B vars Ov) as [L V].
      apply (rs_of_qres s _ _ _ s' c' r (quant_sim gt C cget cadd cap par pin (S n) s c q f vars)
               (quant_rec_ok gt C cget cadd Hlossy Sg q (S n) s c f vars phi L B Q D Ov V Hfuel) E). }
  cbn [quant_c]. destruct f as [t|fid].
  { destruct (negb (is_unique q) || _); [exact I | apply gfalse_fs; exact B]. }
  destruct Hf as [fnd Ef]. rewrite Ef. cbv zeta. rewrite (wf_stored s H fid fnd Ef).
  rewrite (rlevel_node s fid fnd Ef) in Hfuel. pose proof (wf_level s H fid fnd Ef) as Hlv.
  set (lvl := nlevel fnd) in *.
  (* the (popped) variable set *)
  assert (Hpop : exists vars', (if is_unique q then Some vars else set_pop (S (nlevels s)) s vars lvl) = Some vars' /\
                               ref_ok s vars').
  { destruct (is_unique q).
    - exists vars. auto.
    - destruct (vchain_total s B vars Ov) as [L V]. pose proof (rlevel_le s H vars).
      destruct (set_pop_ok s B (S (nlevels s)) vars L lvl Ov V ltac:(lia) ltac:(lia))
        as [vars' [L' [E [O' _]]]]. exists vars'. auto. }
  destruct Hpop as [vars' [Epop Ov']]. rewrite Epop. clear Epop.
  destruct vars' as [tv|vid]; [exact I|].
  destruct Ov' as [vnd Evn]. rewrite Evn. rewrite (wf_stored s H vid vnd Evn).
  destruct (is_unique q && _); [apply gfalse_fs; exact B|].
  destruct (cget c (qcode q) _); [exact I|].
  destruct (two_children s fid fnd B Ef) as [ft [fe [Ech [Oft [Ofe [Lft Lfe]]]]]]. rewrite Ech.
  fold lvl in Lft, Lfe.
  assert (Hvt : exists vt, (if Nat.eqb (nlevel vnd) lvl
                            then match nchildren vnd with [vt0; _] => Some (eref vt0) | _ => None end
                            else Some (RN vid)) = Some vt /\ ref_ok s vt).
  { destruct (Nat.eqb (nlevel vnd) lvl).
    - destruct (two_children s vid vnd B Evn) as [vt [ve [Evch [Ovt _]]]]. rewrite Evch. exists (eref vt). auto.
    - exists (RN vid). split; [reflexivity | exists vnd; exact Evn]. }
  destruct Hvt as [vt [Evt Ovt]]. rewrite Evt.
  pose proof (rlevel_le s H (eref ft)) as Hle1. pose proof (rlevel_le s H (eref fe)) as Hle2.
  apply (gjoin2_safe_q C QInv extends extends_trans ref ref ref Qref Qref); [exact qref_mono | | |].
  - apply IH; auto. lia.
  - intros s1 c1 [B1 Q1] X1. apply IH; auto; [apply (ext_ref_ok _ _ _ X1 Ofe) | apply (ext_ref_ok _ _ _ X1 Ovt)|].
    rewrite (ext_nlevels _ _ X1), (ext_rlevel _ _ _ X1 Ofe). lia.
  - intros s2 c2 t e I2 X2 Ht He. destruct (Nat.eqb lvl (nlevel vnd)).
    + apply bin_then_add_fs; assumption.
    + apply gfin_safe; [exact I2 | apply extends_refl].
Qed.

(** *** [restrict_c] *)

Theorem restrict_c_safe : forall par fuel s c f vars,
  BddOK s -> QOK s c -> ref_ok s f -> ref_ok s vars -> nlevels s - rlevel s f < fuel ->
  RS s (restrict_c C cget cadd cap par fuel s c f vars).
Proof.
  intros par. induction fuel as [|n IH]; intros s c f vars B Q Hf Ov Hfuel; [lia|].
  pose proof (bo_wf s B) as H.
  apply safe_intro.
  2:{ intros s' c' r E. destruct (den_exists s f B Hf) as [phi D]. destruct (lchain_total s B vars Ov) as [M V].
      apply (rs_of_qres s _ _ _ s' c' r (restrict_sim C cget cadd cap par (S n) s c f vars)
               (restrict_ok C cget cadd Hlossy Sg (S n) s c f vars phi M B Q D Ov V Hfuel) E). }
  cbn [restrict_c]. destruct f as [tf|fid]; [exact I|]. destruct vars as [tv|vid]; [exact I|].
  destruct (den_exists s _ B Hf) as [phi D]. destruct (lchain_total s B _ Ov) as [M V].
  destruct Hf as [fnd Ef]. destruct Ov as [vnd Ev]. rewrite Ef, Ev.
  rewrite (wf_stored s H fid fnd Ef). rewrite (rlevel_node s fid fnd Ef) in Hfuel.
  pose proof (wf_level s H fid fnd Ef) as Hlf. pose proof (wf_level s H vid vnd Ev) as Hlv.
  destruct (restrict_inner_ok s B (S (nlevels s + nlevels s)) fid fnd vid vnd phi M Ef Ev D V ltac:(lia))
    as [res [Eri P]].
  rewrite Eri. destruct res as [r|vars' f' fnode']; simpl in P; [exact I|].
  destruct P as [fid' [vid' [vnd' [phi' [M' [-> [Ef' [-> [Ev' [D' [V' [Hlt [Hle HE]]]]]]]]]]]]].
  destruct (cget c code_restrict _); [exact I|].
  destruct (two_children s fid' fnode' B Ef') as [ft [fe [Ech [Oft [Ofe [Lft Lfe]]]]]]. rewrite Ech.
  assert (Ov' : ref_ok s (RN vid')) by (exists vnd'; exact Ev').
  pose proof (rlevel_le s H (eref ft)) as Hle1. pose proof (rlevel_le s H (eref fe)) as Hle2.
  apply (gjoin2_safe C QInv extends extends_trans ref ref ref Qref Qref).
  - apply IH; auto. lia.
  - intros s1 c1 [B1 Q1] X1. apply IH; auto; [apply (ext_ref_ok _ _ _ X1 Ofe) | apply (ext_ref_ok _ _ _ X1 Ov')|].
    rewrite (ext_nlevels _ _ X1), (ext_rlevel _ _ _ X1 Ofe). lia.
  - intros s2 c2 t e I2 X2. apply gfin_safe; [exact I2 | apply extends_refl].
Qed.

(** *** [substitute_c] *)

Theorem substitute_c_safe : forall par pin fuel s c f sv id pairs,
  BddOK s -> QOK s c -> ref_ok s f -> SvOK s sv pairs -> Sg id = Some pairs ->
  nlevels s - rlevel s f < fuel ->
  RS s (substitute_c gt C cget cadd cap par pin fuel s c f sv id).
Proof.
  intros par pin. induction fuel as [|n IH]; intros s c f sv id pairs B Q Hf SV Es Hfuel; [lia|].
  pose proof (bo_wf s B) as H.
  apply safe_intro.
  2:{ intros s' c' r E. destruct (den_exists s f B Hf) as [phi D].
      apply (rs_of_qres s _ _ _ s' c' r (substitute_sim gt C cget cadd cap par pin (S n) s c f sv id)
               (substitute_ok gt C cget cadd Hlossy Sg (S n) s c f sv id pairs phi B Q D SV Es Hfuel) E). }
  cbn [substitute_c]. destruct f as [tf|fid]; [exact I|].
  destruct Hf as [fnd Ef]. rewrite Ef. cbv zeta. rewrite (wf_stored s H fid fnd Ef).
  rewrite (rlevel_node s fid fnd Ef) in Hfuel. pose proof (wf_level s H fid fnd Ef) as Hlv.
  set (lvl := nlevel fnd) in *.
  destruct (Nat.leb_spec (length sv) lvl) as [Hlen|Hlen]; [exact I|].
  destruct (cget c (code_subst id) _); [exact I|].
  destruct (two_children s fid fnd B Ef) as [ft [fe [Ech [Oft [Ofe [Lft Lfe]]]]]]. rewrite Ech.
  fold lvl in Lft, Lfe.
  pose proof (rlevel_le s H (eref ft)) as Hle1. pose proof (rlevel_le s H (eref fe)) as Hle2.
  destruct (nth_error sv lvl) as [r|] eqn:Er; [|apply nth_error_None in Er; lia].
  assert (Or : ref_ok s r).
  { destruct SV as [F _]. rewrite Forall_forall in F. apply F. eapply nth_error_In; eauto. }
  apply (gjoin2_safe_q C QInv extends extends_trans ref ref ref Qref Qref); [exact qref_mono | | |].
  - apply (IH s c (eref ft) sv id pairs); auto. lia.
  - intros s1 c1 [B1 Q1] X1.
    apply (IH s1 c1 (eref fe) sv id pairs); auto;
      [apply (ext_ref_ok _ _ _ X1 Ofe) | apply (svok_extends s s1 sv pairs H X1 SV)|].
    rewrite (ext_nlevels _ _ X1), (ext_rlevel _ _ _ X1 Ofe). lia.
  - intros s2 c2 t e [B2 Q2] X2 Ht He.
    apply (gbind_safe C QInv extends extends_trans ref ref Qref).
    + apply gof_ite_rs; auto. apply (ext_ref_ok _ _ _ X2 Or).
    + intros. exact I.
Qed.

(** *** [apply_quant_c] *)

(** the part of [apply_quant] after the terminal cases ([f], [g] = the operands as
    [terminal_bin] returns them) *)
Definition aq_body_c (p : bool) (pin : nat -> bool) (rec : snap -> C -> ref -> ref -> ref -> gres C ref)
    (s : snap) (c : C) (q : quantifier) (op : bop) (f g vars : ref) : gres C ref :=
  match inner s f, inner s g with
  | Some fnode, Some gnode =>
    let flevel := nstored fnode in
    let glevel := nstored gnode in
    let min_level := Nat.min flevel glevel in
    match (if is_unique q then Some vars else set_pop (S (nlevels s)) s vars min_level) with
    | None => GStuck
    | Some (RT _) => gof (apply_bin_c gt C cget cadd cap pin (S (nlevels s)) s c op f g)
    | Some (RN vid as vars') =>
      match find_node s vid with
      | None => GStuck
      | Some vnode =>
        let vlevel := nstored vnode in
        if Nat.ltb vlevel min_level && is_unique q then gfalse C s c
        else if Nat.ltb vlevel min_level then
          gof (apply_bin_c gt C cget cadd cap pin (S (nlevels s)) s c op f g)
        else
          match cget c (aqcode q op) [f; g; vars'] with
          | Some h => GOk s c h
          | None =>
            match (if Nat.eqb vlevel min_level
                   then match nchildren vnode with [vt; _] => Some (eref vt) | _ => None end
                   else Some vars'),
                  (if Nat.leb flevel glevel
                   then match nchildren fnode with [t; e] => Some (eref t, eref e) | _ => None end
                   else Some (f, f)),
                  (if Nat.leb glevel flevel
                   then match nchildren gnode with [t; e] => Some (eref t, eref e) | _ => None end
                   else Some (g, g)) with
            | Some vt, Some (ft, fe), Some (gt', ge) =>
              gjoin2 p (rec s c ft gt' vt) (fun s1 c1 => rec s1 c1 fe ge vt)
                (fun s2 c2 t e =>
                   if Nat.eqb min_level vlevel then
                     gbind (gof (apply_bin_c gt C cget cadd cap pin (S (nlevels s2)) s2 c2 (qop q) t e))
                       (fun s3 c3 res => GOk s3 (cadd c3 (aqcode q op) [f; g; vars'] res) res)
                   else
                     gfin s2 c2 (mk_node_cap cap s2 min_level [E t; E e])
                       (fun h => cadd c2 (aqcode q op) [f; g; vars'] (eref h)) (fun h => eref h))
            | _, _, _ => GStuck
            end
          end
      end
    end
  | _, _ => GStuck
  end.

Lemma apply_quant_c_S : forall par pin n s c q op f g vars,
  apply_quant_c gt C cget cadd cap par pin (S n) s c q op f g vars =
  match terminal_bin gt s op f g with
  | TFail => GStuck
  | TNot h =>
    gbind (gof (apply_not_c C cget cadd cap pin (S (nlevels s)) s c h))
      (fun s1 c1 inverse => quant_c gt C cget cadd cap pin pin (S (nlevels s1)) s1 c1 q inverse vars)
  | TDone h => quant_c gt C cget cadd cap pin pin (S (nlevels s)) s c q h vars
  | TBin _ a b =>
    aq_body_c (par n) pin (fun s' c' a' b' v' => apply_quant_c gt C cget cadd cap par pin n s' c' q op a' b' v')
      s c q op a b vars
  end.
Proof. reflexivity. Qed.

Lemma aq_body_c_fs : forall p pin q op n (rec : snap -> C -> ref -> ref -> ref -> gres C ref),
  (forall s c f g vars, BddOK s -> QOK s c -> ref_ok s f -> ref_ok s g -> ref_ok s vars ->
     nlevels s - Nat.min (rlevel s f) (rlevel s g) < n -> RS s (rec s c f g vars)) ->
  forall s c idf idg vars,
    BddOK s -> QOK s c -> ref_ok s (RN idf) -> ref_ok s (RN idg) -> ref_ok s vars ->
    nlevels s - Nat.min (rlevel s (RN idf)) (rlevel s (RN idg)) < S n ->
    FS s (aq_body_c p pin rec s c q op (RN idf) (RN idg) vars).
Proof.
  intros p pin q op n rec IH s c idf idg vars B Q Hf Hg Ov Hfuel. pose proof (bo_wf s B) as H.
  assert (Bin : FS s (gof (apply_bin_c gt C cget cadd cap pin (S (nlevels s)) s c op (RN idf) (RN idg))))
    by (eapply res_fail_safe; apply gof_bin_rs; assumption).
  destruct Hf as [fnd Ef]. destruct Hg as [gnd Eg].
  rewrite (rlevel_node s idf fnd Ef), (rlevel_node s idg gnd Eg) in Hfuel.
  pose proof (wf_level s H idf fnd Ef) as Hlf. pose proof (wf_level s H idg gnd Eg) as Hlg.
  unfold aq_body_c. simpl inner. rewrite Ef, Eg. cbv zeta.
  rewrite (wf_stored s H idf fnd Ef), (wf_stored s H idg gnd Eg).
  set (fl := nlevel fnd) in *. set (gl := nlevel gnd) in *. set (ml := Nat.min fl gl) in *.
  assert (Hpop : exists vars', (if is_unique q then Some vars else set_pop (S (nlevels s)) s vars ml) = Some vars' /\
                               ref_ok s vars').
  { destruct (is_unique q).
    - exists vars. auto.
    - destruct (vchain_total s B vars Ov) as [L V]. pose proof (rlevel_le s H vars).
      destruct (set_pop_ok s B (S (nlevels s)) vars L ml Ov V ltac:(lia) ltac:(unfold ml; lia))
        as [vars' [L' [E [O' _]]]]. exists vars'. auto. }
  destruct Hpop as [vars' [Epop Ov']]. rewrite Epop. clear Epop.
  destruct vars' as [tv|vid]; [exact Bin|].
  destruct Ov' as [vnd Evn]. rewrite Evn. rewrite (wf_stored s H vid vnd Evn).
  destruct (Nat.ltb (nlevel vnd) ml && is_unique q); [apply gfalse_fs; exact B|].
  destruct (Nat.ltb (nlevel vnd) ml); [exact Bin|].
  destruct (cget c (aqcode q op) _); [exact I|].
  assert (Hvt : exists vt, (if Nat.eqb (nlevel vnd) ml
                            then match nchildren vnd with [vt0; _] => Some (eref vt0) | _ => None end
                            else Some (RN vid)) = Some vt /\ ref_ok s vt).
  { destruct (Nat.eqb (nlevel vnd) ml).
    - destruct (two_children s vid vnd B Evn) as [vt [ve [Evch [Ovt _]]]]. rewrite Evch. exists (eref vt). auto.
    - exists (RN vid). split; [reflexivity | exists vnd; exact Evn]. }
  destruct Hvt as [vt [Evt Ovt]]. rewrite Evt.
  (* the cofactors of the operand(s) on the top-most level *)
  assert (Hfc : exists ft fe, (if Nat.leb fl gl
                               then match nchildren fnd with [t; e] => Some (eref t, eref e) | _ => None end
                               else Some (RN idf, RN idf)) = Some (ft, fe) /\
                              ref_ok s ft /\ ref_ok s fe /\
                              (if Nat.leb fl gl then fl < rlevel s ft /\ fl < rlevel s fe
                               else rlevel s ft = fl /\ rlevel s fe = fl)).
  { destruct (Nat.leb fl gl).
    - destruct (two_children s idf fnd B Ef) as [ft [fe [Ech [Oft [Ofe [Lft Lfe]]]]]]. rewrite Ech.
      exists (eref ft), (eref fe). fold fl in Lft, Lfe. auto.
    - exists (RN idf), (RN idf). rewrite (rlevel_node s idf fnd Ef). fold fl.
      repeat split; try (exists fnd; exact Ef). }
  assert (Hgc : exists gt' ge, (if Nat.leb gl fl
                               then match nchildren gnd with [t; e] => Some (eref t, eref e) | _ => None end
                               else Some (RN idg, RN idg)) = Some (gt', ge) /\
                              ref_ok s gt' /\ ref_ok s ge /\
                              (if Nat.leb gl fl then gl < rlevel s gt' /\ gl < rlevel s ge
                               else rlevel s gt' = gl /\ rlevel s ge = gl)).
  { destruct (Nat.leb gl fl).
    - destruct (two_children s idg gnd B Eg) as [gt' [ge [Ech [Ogt [Oge [Lgt Lge]]]]]]. rewrite Ech.
      exists (eref gt'), (eref ge). fold gl in Lgt, Lge. auto.
    - exists (RN idg), (RN idg). rewrite (rlevel_node s idg gnd Eg). fold gl.
      repeat split; try (exists gnd; exact Eg). }
  destruct Hfc as [ft [fe [Efc [Oft [Ofe Lf]]]]]. destruct Hgc as [gt' [ge [Egc [Ogt [Oge Lg]]]]].
  rewrite Efc, Egc.
  assert (Lt : ml < Nat.min (rlevel s ft) (rlevel s gt') /\ ml < Nat.min (rlevel s fe) (rlevel s ge)).
  { unfold ml. destruct (Nat.leb_spec fl gl); destruct (Nat.leb_spec gl fl); lia. }
  destruct Lt as [Lt Le].
  apply (gjoin2_safe_q C QInv extends extends_trans ref ref ref Qref Qref); [exact qref_mono | | |].
  - apply IH; auto. lia.
  - intros s1 c1 [B1 Q1] X1.
    apply IH; auto; [apply (ext_ref_ok _ _ _ X1 Ofe) | apply (ext_ref_ok _ _ _ X1 Oge)
                    | apply (ext_ref_ok _ _ _ X1 Ovt)|].
    rewrite (ext_nlevels _ _ X1), (ext_rlevel _ _ _ X1 Ofe), (ext_rlevel _ _ _ X1 Oge). lia.
  - intros s2 c2 t e I2 X2 Ht He. destruct (Nat.eqb ml (nlevel vnd)).
    + apply bin_then_add_fs; assumption.
    + apply gfin_safe; [exact I2 | apply extends_refl].
Qed.

Theorem apply_quant_c_safe : forall par pin q op fuel s c f g vars,
  BddOK s -> QOK s c -> ref_ok s f -> ref_ok s g -> ref_ok s vars ->
  nlevels s - Nat.min (rlevel s f) (rlevel s g) < fuel ->
  RS s (apply_quant_c gt C cget cadd cap par pin fuel s c q op f g vars).
Proof.
  intros par pin q op. induction fuel as [|n IH]; intros s c f g vars B Q Hf Hg Ov Hfuel; [lia|].
  pose proof (bo_wf s B) as H.
  apply safe_intro.
  2:{ intros s' c' r E. destruct (den_exists s f B Hf) as [phi Df]. destruct (den_exists s g B Hg) as [psi Dg].
      destruct (vchain_total s B vars Ov) as [L V].
      apply (rs_of_qres s _ _ _ s' c' r (apply_quant_sim gt C cget cadd cap par pin (S n) s c q op f g vars)
               (apply_quant_ok gt C cget cadd Hlossy Sg q op (S n) s c f g vars phi psi L B Q Df Dg Ov V Hfuel) E). }
  rewrite apply_quant_c_S.
  destruct (den_exists s f B Hf) as [phi Df]. destruct (den_exists s g B Hg) as [psi Dg].
  pose proof (terminal_bin_sound gt s op f g phi psi B Df Dg) as T.
  destruct (terminal_bin gt s op f g) as [r|r|o a b|]; [| | |contradiction].
  - (* Done *)
    eapply res_fail_safe.
    apply (quant_c_safe pin pin q _ s c r vars B Q (proj1 T) Ov).
    pose proof (rlevel_le s H r). lia.
  - (* Not *)
    destruct T as [Hr _].
    assert (Or : ref_ok s r) by (destruct Hr as [->| ->]; assumption).
    apply (gbind_safe C QInv extends extends_trans ref ref Qref).
    + apply gof_not_rs; assumption.
    + intros s1 c1 x [B1 Q1] X1 Hx. eapply res_fail_safe.
      apply (quant_c_safe pin pin q _ s1 c1 x vars B1 Q1 Hx (ext_ref_ok _ _ _ X1 Ov)).
      pose proof (rlevel_le s1 (bo_wf s1 B1) x). lia.
  - (* Binary *)
    destruct T as [_ [[idf ->] [[idg ->] Hab]]].
    destruct Hab as [[-> ->]|[-> [-> _]]].
    + apply (aq_body_c_fs (par n) pin q op n _ IH); assumption.
    + apply (aq_body_c_fs (par n) pin q op n _ IH); try assumption. rewrite Nat.min_comm. exact Hfuel.
Qed.

(** *** [substitute_prepare_c]: the variable nodes of the levels without a replacement *)

Definition Qrefs (s : snap) (l : list ref) : Prop := Forall (ref_ok s) l.

Lemma prepare_fill_c_fs : forall slots s c level,
  BddOK s -> QOK s c -> level + length slots <= nlevels s ->
  fail_safe QInv extends s (prepare_fill_c C cap s c slots level).
Proof.
  induction slots as [|[e|] rest IH]; intros s c level B Q Hlen; [exact I| |].
  - cbn [prepare_fill_c]. simpl in Hlen. specialize (IH s c (S level) B Q ltac:(lia)).
    destruct (prepare_fill_c C cap s c rest (S level)) as [s' c' l|s' c'|]; simpl in *; auto.
  - cbn [prepare_fill_c]. simpl in Hlen.
    destruct (term_of_total s true B) as [t1 E1]. destruct (term_of_total s false B) as [t0 E0].
    rewrite E1, E0. unfold gfin.
    destruct (get_or_insert_cap cap s level [E (RT t1); E (RT t0)]) as [[s1 e]|] eqn:Eg; simpl.
    2:{ split; [split; assumption | apply extends_refl]. }
    destruct (get_or_insert_cap_some cap s level _ _ Eg) as [Eg' _].
    destruct (var_node_ok s level t1 t0 s1 e B ltac:(lia) E1 E0 Eg') as [B1 [X1 _]].
    specialize (IH s1 c (S level) B1 (qcacheok_extends C cget Sg s s1 c B X1 Q)
                  ltac:(rewrite (ext_nlevels _ _ X1); lia)).
    destruct (prepare_fill_c C cap s1 c rest (S level)) as [s' c' l|s' c'|]; simpl in *; auto.
    destruct IH as [I' X']. split; [exact I' | eapply extends_trans; eauto].
Qed.

End Safe.
