(** * Out-of-memory behaviour of quantification / apply-and-quantify / restrict /
      substitute of the plain BDD kind (Mgr/OomBddQ.v), part 3: the C14 statements

    One statement per family for EVERY call [k : qcall] of the interface
    (forall / exists / unique, apply_forall / apply_exists / apply_unique with
    each of the 8 operators, restrict, substitute incl. substitute_prepare):
    [qrun_c] is the bounded run of the call, [qrun_u] the unbounded one of
    DD/Quant.v (C04).  They hold for every capacity, every cache that only
    serves what was added ([lossy]), every operand order [gt], either recursor
    at every depth of the algorithm's own recursion ([par]) and of the inner
    apply calls ([pin]). *)

From Coq Require Import List NArith PArith Bool Arith Lia FMapPositive.
From OxiVerif Require Import DD.Table DD.TableProofs DD.Sem DD.Build DD.BuildProofs
  DD.Apply DD.ApplyProofs DD.ApplyEvalProofs DD.Quant DD.QuantLemmas DD.QuantProofs DD.RestrictProofs
  DD.SubstProofs DD.ApplyQuantProofs DD.QuantSpecProofs DD.QuantTopProofs Mgr.Oom Mgr.OomProofs Mgr.OomSafe.
From OxiVerif Require Import Mgr.OomGen Mgr.OomGenProofs Mgr.OomBcddProofs
  Mgr.OomBddQ Mgr.OomBddQProofs Mgr.OomBddQSafe.
Import ListNotations.

(** the operands of a call are valid (for a substitution: what
    [Substitution] objects guarantee - every variable at most once, known
    variables, valid replacement functions - and the id is registered) *)
Definition qcall_ok (Sg : N -> option (list (nat * ref))) (s : snap) (k : qcall) : Prop :=
  match k with
  | KQuant _ f vars => ref_ok s f /\ ref_ok s vars
  | KApplyQuant _ _ f g vars => ref_ok s f /\ ref_ok s g /\ ref_ok s vars
  | KRestrict f vars => ref_ok s f /\ ref_ok s vars
  | KSubst f pairs id =>
    ref_ok s f /\ NoDup (map fst pairs) /\
    (forall v r, In (v, r) pairs -> v < nlevels s /\ ref_ok s r) /\ Sg id = Some pairs
  end.

(** what the result [r] (in table [s']) of call [k] (issued in table [s]) must
    denote: the specification functions of DD/Sem.v, for every reading of the
    operand [vars] as a variable set resp. a cube of literals *)
Definition qcall_spec (s : snap) (k : qcall) (s' : snap) (r : ref) : Prop :=
  match k with
  | KQuant q f vars =>
    forall vs, (forall v, In v vs -> v < nlevels s) -> is_varset s vars vs -> (q = QUnique -> NoDup vs) ->
    forall a, bfun_of s' r a = quant (qfun q) vs (bfun_of s f) a
  | KApplyQuant q op f g vars =>
    forall vs, (forall v, In v vs -> v < nlevels s) -> is_varset s vars vs -> (q = QUnique -> NoDup vs) ->
    forall a, bfun_of s' r a = quant (qfun q) vs (lift2 op (bfun_of s f) (bfun_of s g)) a
  | KRestrict f vars =>
    forall lits, NoDup (map fst lits) -> (forall p, In p lits -> fst p < nlevels s) -> is_cube s vars lits ->
    forall a, bfun_of s' r a = restrict_s lits (bfun_of s f) a
  | KSubst f pairs _ =>
    forall a, bfun_of s' r a = subst_s (map (fun p => (fst p, bfun_of s (snd p))) pairs) (bfun_of s f) a
  end.

Section Top.
Variable gt : ref -> ref -> bool.
Variable C : Type.
Variable cget : C -> N -> list ref -> option ref.
Variable cadd : C -> N -> list ref -> ref -> C.
Hypothesis Hlossy : lossy cget cadd.
Variable Sg : N -> option (list (nat * ref)).

Notation QOK := (QCacheOK cget Sg).
Notation QI := (QInv C cget Sg).
Notation RS := (res_safe (QInv C cget Sg) extends Qref).

(** the unbounded run of a call in a well-formed state (C04) *)
Theorem qrun_u_total : forall s c k, BddOK s -> QOK s c -> qcall_ok Sg s k ->
  exists su cu ru, qrun_u gt C cget cadd s c k = Some (su, cu, ru) /\
    BddOK su /\ extends s su /\ QOK su cu /\ ref_ok su ru /\ qcall_spec s k su ru.
Proof.
  intros s c [q f vars|q op f g vars|f vars|f pairs id] B Q Hk; cbn [qrun_u qcall_ok qcall_spec] in *.
  - destruct Hk as [Hf Hv]. apply (quant_edge_total gt C cget cadd Hlossy Sg q s c f vars B Q Hf Hv).
  - destruct Hk as [Hf [Hg Hv]].
    apply (apply_quant_edge_total gt C cget cadd Hlossy Sg q op s c f g vars B Q Hf Hg Hv).
  - destruct Hk as [Hf Hv]. apply (restrict_edge_total C cget cadd Hlossy Sg s c f vars B Q Hf Hv).
  - destruct Hk as [Hf [Hnd [Hp Es]]].
    apply (substitute_edge_sound gt C cget cadd Hlossy Sg s c f pairs id B Q Hf Hnd Hp Es).
Qed.

(** [substitute_prepare_c]: never stuck, and the replacement vector it returns is the
    one the substitution needs *)
Lemma substitute_prepare_c_safe : forall cap s c pairs, BddOK s -> QOK s c ->
  NoDup (map fst pairs) -> (forall v r, In (v, r) pairs -> v < nlevels s /\ ref_ok s r) ->
  res_safe QI extends (fun s0 sv => SvOK s0 sv pairs) s (substitute_prepare_c C cap s c pairs).
Proof.
  intros cap s c pairs B Q Hnd Hp. pose proof (bo_wf s B) as H.
  destruct (prepare_ok s pairs B Hnd Hp) as [s0 [sv [Ep [B0 [X0 SV]]]]].
  apply safe_intro.
  - unfold substitute_prepare_c.
    destruct (prepare_slots_ok s pairs [] H (fun v r Hin => proj1 (Hp v r Hin)) ltac:(simpl; lia))
      as [slots [Es [Hlen _]]].
    rewrite Es. apply (prepare_fill_c_fs C cget Sg cap slots s c 0 B Q). simpl. exact Hlen.
  - intros s' c' x E.
    pose proof (sim_never_wrong C no_m2 cap 1 _ s _ _ s' c' x (substitute_prepare_sim C cap s c pairs) E) as Eu.
    rewrite Ep in Eu. simpl in Eu. inversion Eu; subst s' c' x.
    split; [split; [exact B0 | apply (qcacheok_extends C cget Sg s s0 c B X0 Q)]|]. split; assumption.
Qed.

(** the bounded run of a call: never stuck; result or failure leave a
    well-formed extension with a correct cache *)
Theorem qrun_c_safe : forall cap par pin s c k, BddOK s -> QOK s c -> qcall_ok Sg s k ->
  RS s (qrun_c gt C cget cadd cap par pin s c k).
Proof.
  intros cap par pin s c k B Q Hk. pose proof (bo_wf s B) as H.
  destruct k as [q f vars|q op f g vars|f vars|f pairs id]; cbn [qrun_c qcall_ok] in *.
  - destruct Hk as [Hf Hv]. pose proof (rlevel_le s H f).
    apply (quant_c_safe gt C cget cadd Hlossy Sg cap par pin q _ s c f vars B Q Hf Hv). lia.
  - destruct Hk as [Hf [Hg Hv]].
    apply (apply_quant_c_safe gt C cget cadd Hlossy Sg cap par pin q op _ s c f g vars B Q Hf Hg Hv). lia.
  - destruct Hk as [Hf Hv]. pose proof (rlevel_le s H f).
    apply (restrict_c_safe C cget cadd Hlossy Sg cap par _ s c f vars B Q Hf Hv). lia.
  - destruct Hk as [Hf [Hnd [Hp Es]]].
    apply safe_intro.
    + unfold substitute_edge_c.
      apply (gbind_safe C QI extends extends_trans _ _ (fun s0 sv => SvOK s0 sv pairs)).
      * apply substitute_prepare_c_safe; assumption.
      * intros s0 c0 sv [B0 Q0] X0 SV. eapply res_fail_safe.
        apply (substitute_c_safe gt C cget cadd Hlossy Sg cap par pin _ s0 c0 f sv id pairs B0 Q0
                 (ext_ref_ok _ _ _ X0 Hf) SV Es).
        pose proof (rlevel_le s0 (bo_wf s0 B0) f). lia.
    + intros s' c' r E. destruct (den_exists s f B Hf) as [phi D].
      apply (rs_of_qres C cget Sg cap s _ _ _ s' c' r
               (qrun_sim gt C cget cadd cap par pin s c (KSubst f pairs id))
               (substitute_edge_ok gt C cget cadd Hlossy Sg s c f pairs id phi B Q D Hnd Hp Es) E).
Qed.

(** the state after a failure *)
Definition qfailed_ok (cap : nat) (s s' : snap) (c' : C) : Prop :=
  BddOK s' /\ QOK s' c' /\ extends s s' /\ intact s s' /\
  node_count s <= node_count s' /\ cap <= node_count s'.

Lemma qfailed_of_state : forall cap s s' c', BddOK s ->
  failed_state C no_m2 cap 1 QI extends s s' c' -> qfailed_ok cap s s' c'.
Proof.
  intros cap s s' c' B [[B' Q'] [X [G F]]]. simpl in G, F. unfold no_m2 in *.
  split; [exact B'|]. split; [exact Q'|]. split; [exact X|].
  split; [apply (extends_intact s s' B X)|]. lia.
Qed.

(** the outcome of a bounded run, given the table [su] of the unbounded run *)
Definition qexact (cap : nat) (s : snap) (rb : gres C ref) (su : snap) (cu : C) (ru : ref) : Prop :=
  (node_count su <= Nat.max cap (node_count s) -> rb = GOk su cu ru) /\
  (Nat.max cap (node_count s) < node_count su -> exists s' c', rb = GOom s' c' /\ qfailed_ok cap s s' c').

(** *** never a wrong edge: a result is literally the result of the unbounded run *)
Theorem qoom_never_wrong : forall cap par pin s c k s' c' r,
  qrun_c gt C cget cadd cap par pin s c k = GOk s' c' r ->
  qrun_u gt C cget cadd s c k = Some (s', c', r).
Proof.
  intros cap par pin s c k s' c' r E.
  apply (sim_never_wrong C no_m2 cap 1 ref _ _ _ _ _ _ (qrun_sim gt C cget cadd cap par pin s c k) E).
Qed.

(** ... hence the specified function, in a table in which everything that
    existed before is intact *)
Theorem qoom_never_wrong_sem : forall cap par pin s c k s' c' r,
  BddOK s -> QOK s c -> qcall_ok Sg s k ->
  qrun_c gt C cget cadd cap par pin s c k = GOk s' c' r ->
  BddOK s' /\ QOK s' c' /\ intact s s' /\ ref_ok s' r /\ qcall_spec s k s' r.
Proof.
  intros cap par pin s c k s' c' r B Q Hk E. apply qoom_never_wrong in E.
  destruct (qrun_u_total s c k B Q Hk) as [su [cu [ru [Eu [Bu [Xu [Qu [Ru Su]]]]]]]].
  rewrite E in Eu. inversion Eu; subst su cu ru.
  split; [exact Bu|]. split; [exact Qu|]. split; [apply (extends_intact s s' B Xu)|]. auto.
Qed.

(** *** the state after a failure *)
Theorem qoom_safe : forall cap par pin s c k s' c',
  BddOK s -> QOK s c -> qcall_ok Sg s k ->
  qrun_c gt C cget cadd cap par pin s c k = GOom s' c' ->
  qfailed_ok cap s s' c'.
Proof.
  intros cap par pin s c k s' c' B Q Hk E.
  pose proof (qrun_c_safe cap par pin s c k B Q Hk) as S.
  pose proof (qrun_sim gt C cget cadd cap par pin s c k) as M.
  rewrite E in S, M. apply (qfailed_of_state cap s s' c' B).
  apply (failed_intro C no_m2 cap 1 QI extends ref Qref s s' c' _ S M).
Qed.

(** *** no panic, no divergence *)
Theorem qoom_no_panic : forall cap par pin s c k,
  BddOK s -> QOK s c -> qcall_ok Sg s k ->
  qrun_c gt C cget cadd cap par pin s c k <> GStuck.
Proof.
  intros cap par pin s c k B Q Hk E.
  pose proof (qrun_c_safe cap par pin s c k B Q Hk) as S. rewrite E in S. exact S.
Qed.

(** *** retry: when the table of the unbounded run fits, the bounded run
    succeeds with exactly that result *)
Theorem qoom_retry : forall cap par pin s c k su cu ru,
  qrun_u gt C cget cadd s c k = Some (su, cu, ru) -> node_count su <= cap ->
  qrun_c gt C cget cadd cap par pin s c k = GOk su cu ru.
Proof.
  intros cap par pin s c k su cu ru E Hfit.
  pose proof (qrun_sim gt C cget cadd cap par pin s c k) as M. rewrite E in M.
  destruct M as [_ [G F]]. simpl in G. apply F. simpl. unfold no_m2 in *. lia.
Qed.

(** *** monotone in the capacity, independent of the recursors *)
Theorem qoom_monotone : forall cap cap' par par' pin pin' s c k s' c' r, cap <= cap' ->
  qrun_c gt C cget cadd cap par pin s c k = GOk s' c' r ->
  qrun_c gt C cget cadd cap' par' pin' s c k = GOk s' c' r.
Proof.
  intros cap cap' par par' pin pin' s c k s' c' r Hle E.
  apply (sim_monotone C ref no_m2 cap 1 cap' 1 s _ _ _ s' c' r Hle (le_n 1)
           (qrun_sim gt C cget cadd cap par pin s c k)
           (qrun_sim gt C cget cadd cap' par' pin' s c k) E).
Qed.

(** *** exactness: the call fails iff the table of the unbounded run does not fit *)
Theorem qoom_exact : forall cap par pin s c k,
  BddOK s -> QOK s c -> qcall_ok Sg s k ->
  exists su cu ru, qrun_u gt C cget cadd s c k = Some (su, cu, ru) /\
    qcall_spec s k su ru /\
    qexact cap s (qrun_c gt C cget cadd cap par pin s c k) su cu ru.
Proof.
  intros cap par pin s c k B Q Hk.
  destruct (qrun_u_total s c k B Q Hk) as [su [cu [ru [Eu [_ [_ [_ [_ Su]]]]]]]].
  exists su, cu, ru. split; [exact Eu|]. split; [exact Su|].
  pose proof (qrun_c_safe cap par pin s c k B Q Hk) as S.
  pose proof (qrun_sim gt C cget cadd cap par pin s c k) as M. rewrite Eu in M.
  destruct (exact_intro C no_m2 cap 1 QI extends ref Qref s _ su cu ru S M) as [A1 A2].
  destruct M as [_ F]. simpl in F. destruct F as [G _]. unfold no_m2 in *. split.
  - intros Hfit. apply A1. simpl. unfold no_m2. lia.
  - intros Hbig. destruct (A2 (or_introl Hbig)) as [s' [c' [E Fs]]].
    exists s', c'. split; [exact E | apply (qfailed_of_state cap s s' c' B Fs)].
Qed.

(** failing or not does not depend on the recursors *)
Theorem qoom_outcome_recursor_indep : forall cap par par' pin pin' s c k,
  BddOK s -> QOK s c -> qcall_ok Sg s k ->
  gres_code (qrun_c gt C cget cadd cap par pin s c k) =
  gres_code (qrun_c gt C cget cadd cap par' pin' s c k).
Proof.
  intros cap par par' pin pin' s c k B Q Hk.
  destruct (qoom_exact cap par pin s c k B Q Hk) as [su [cu [ru [E [_ [A1 B1]]]]]].
  destruct (qoom_exact cap par' pin' s c k B Q Hk) as [su' [cu' [ru' [E' [_ [A2 B2]]]]]].
  rewrite E in E'. inversion E'; subst su' cu' ru'.
  destruct (le_lt_dec (node_count su) (Nat.max cap (node_count s))) as [Hfit|Hbig].
  - rewrite (A1 Hfit), (A2 Hfit). reflexivity.
  - destruct (B1 Hbig) as [s1 [c1 [-> _]]]. destruct (B2 Hbig) as [s2 [c2 [-> _]]]. reflexivity.
Qed.

End Top.
