(** * The hypotheses of the C14 theorems are satisfiable and every outcome occurs

    A concrete BDD table ([ex3]: 3 levels, 6 nodes, 5 handles; h0 = l0 /\ l1 /\ l2, h4 = if l0 then l1 else l1 /\ l2)
    satisfies [BddOK] with exact reference counts; on it the bounded algorithms
    really return out-of-memory for small capacities - with a table that
    differs from the initial one (nodes created by the sub-calls that had
    succeeded stay behind as garbage) - and the result for larger ones; the
    two recursors differ in what they leave in the cache. *)

From Coq Require Import List NArith PArith Bool Arith Lia FMapPositive.
From OxiVerif Require Import DD.Table DD.TableProofs DD.Sem DD.Build DD.BuildProofs
  DD.Apply DD.ApplyProofs Mgr.Oom Mgr.OomProofs Mgr.OomSafe Mgr.OomGc.
Import ListNotations.

Definition ex3 : snap :=
  mkSnap KBdd
    (PositiveMap.add 6%positive (mkNode 0 [E (RN 2); E (RN 4)] 0 1)
    (PositiveMap.add 5%positive (mkNode 0 [E (RN 4); E (RT 0)] 0 1)
    (PositiveMap.add 4%positive (mkNode 1 [E (RN 1); E (RT 0)] 1 2)
    (PositiveMap.add 3%positive (mkNode 0 [E (RT 1); E (RT 0)] 0 1)
    (PositiveMap.add 2%positive (mkNode 1 [E (RT 1); E (RT 0)] 1 2)
    (PositiveMap.add 1%positive (mkNode 2 [E (RT 1); E (RT 0)] 2 2)
       (PositiveMap.empty node)))))))
    [(0%N, 0%N); (1%N, 1%N)]
    [0; 1; 2] [0; 1; 2]
    [(0%N, E (RN 5)); (1%N, E (RN 3)); (2%N, E (RN 2)); (3%N, E (RN 1)); (4%N, E (RN 6))].

Example ex3_ok : BddOK ex3 /\ rc_exact_b ex3 [] = true /\ node_count ex3 = 6.
Proof.
  split; [apply bdd_ok_b_spec; vm_compute; reflexivity|]. split; vm_compute; reflexivity.
Qed.

Example ex3_cache_ok : CacheOK ac_get ex3 [] /\ CacheOK nc_get ex3 tt.
Proof. split; [apply ac_empty_ok | apply nc_ok]. Qed.

Example ex3_refs_ok : ref_ok ex3 (RN 5) /\ ref_ok ex3 (RN 3) /\ ref_ok ex3 (RN 2) /\ ref_ok ex3 (RN 1) /\ ref_ok ex3 (RN 6).
Proof. repeat split; eexists; vm_compute; reflexivity. Qed.

(** outcome code (0 = result, 1 = out of memory, 2 = stuck), stored nodes afterwards, result *)
Definition out {C} (r : res C) := (res_code r, option_map node_count (res_snap r), res_ref r).

(** not (l0 /\ l1 /\ l2) needs three new nodes: with a full store it fails at
    once (table untouched), with one or two free slots it fails after having
    created one or two nodes, with three it succeeds *)
Example ex3_not :
  map (fun cap => out (not_nc cap false ex3 (RN 5))) [0; 6; 7; 8; 9; 10] =
  [(1, Some 6, None); (1, Some 6, None); (1, Some 7, None); (1, Some 8, None);
   (0, Some 9, Some (RN 9)); (0, Some 9, Some (RN 9))].
Proof. vm_compute. reflexivity. Qed.

(** the two nodes left behind by the failed run with capacity 8 are not
    referenced by any handle and every old node is unchanged *)
Example ex3_not_garbage :
  match not_nc 8 false ex3 (RN 5) with
  | ROom s' _ =>
      s_handles s' = s_handles ex3 /\ bdd_ok_b s' = true /\
      map fst (PositiveMap.elements (s_nodes s')) = [8; 4; 2; 6; 1; 5; 3; 7]%positive /\
      forallb (fun p => match find_node s' (fst p) with
                        | Some nd => same_node nd (snd p) | None => false end)
              (PositiveMap.elements (s_nodes ex3)) = true
  | _ => False
  end.
Proof. vm_compute. repeat split; reflexivity. Qed.

Example ex3_xor :
  map (fun cap => out (bin_nc cap true ex3 OXor (RN 5) (RN 2))) [6; 7; 8; 9; 10] =
  [(1, Some 6, None); (1, Some 7, None); (1, Some 8, None);
   (0, Some 9, Some (RN 9)); (0, Some 9, Some (RN 9))].
Proof. vm_compute. reflexivity. Qed.

Example ex3_ite :
  map (fun cap => out (ite_nc cap false ex3 (RN 2) (RN 5) (RN 1))) [6; 7; 8; 9] =
  [(1, Some 6, None); (1, Some 7, None); (0, Some 8, Some (RN 8)); (0, Some 8, Some (RN 8))].
Proof. vm_compute. reflexivity. Qed.

(** variable creation: the negated variable of level 2 does not exist yet *)
Example ex3_var :
  (match mk_var_cap 6 ex3 2 true with Some None => true | _ => false end) = true /\
  (match mk_var_cap 7 ex3 2 true with Some (Some (s', r)) => Nat.eqb (node_count s') 7 | _ => false end) = true /\
  (match mk_var_cap 0 ex3 2 false with Some (Some (s', r)) => Nat.eqb (node_count s') 6 | _ => false end) = true.
Proof. vm_compute. repeat split; reflexivity. Qed.

(** the sequential recursor stops at the first failing branch, the parallel
    one still runs the sibling: h4 \/ l2 with a full store fails in the then
    branch (l1 \/ l2 needs a node); the else branch (l1 /\ l2) \/ l2 = l2 needs
    none and, under the parallel recursor, leaves its entry in the cache of the
    failed run *)
Definition cache_of (r : res acache) : option acache :=
  match r with ROk _ c _ | ROom _ c => Some c | RStuck => None end.

Example ex3_recursors :
  let run p := apply_bin_c gt_none acache ac_get ac_add 6 (fun _ => p) 4 ex3 [] OOr (RN 6) (RN 1) in
  (res_code (run false), cache_of (run false)) = (1, Some []) /\
  (res_code (run true), cache_of (run true)) = (1, Some [(2%N, [RN 4; RN 1], RN 1)]).
Proof. vm_compute. split; reflexivity. Qed.

(** the instance of the theorems: whatever the capacity, the run on [ex3] is
    exactly "result iff it fits" *)
Example ex3_exact : forall cap p,
  exists su cu ru, apply_not unit nc_get nc_add 4 ex3 tt (RN 5) = Some (su, cu, ru) /\
    exact_outcome unit nc_get cap ex3 (not_nc cap p ex3 (RN 5)) su cu ru.
Proof.
  intros cap p.
  destruct (oom_exact_not unit nc_get nc_add nc_lossy cap (fun _ => p) 4 ex3 tt (RN 5))
    as [su [cu [ru [E [_ X]]]]].
  - apply ex3_ok.
  - apply nc_ok.
  - apply ex3_refs_ok.
  - vm_compute. lia.
  - exists su, cu, ru. split; [exact E | exact X].
Qed.

(** failure, collection, retry: [ex3] holds no garbage (exact counts, none
    zero), so a collection after the failed negation (capacity 8) restores
    [ex3]; the retry is then decided by the capacity alone *)
Example ex3_no_garbage : forall id nd, find_node ex3 id = Some nd -> reachable ex3 (handle_refs ex3) (RN id).
Proof.
  intros id nd E.
  pose proof (no_dead_reachable ex3 [] (bo_wf ex3 (proj1 ex3_ok))) as R. rewrite app_nil_r in R.
  apply (R ltac:(vm_compute; reflexivity) ltac:(vm_compute; reflexivity) id nd E).
Qed.

Example ex3_recover : forall s' c',
  not_nc 8 false ex3 (RN 5) = ROom s' c' ->
  collected (with_handles s' (s_handles s')) ex3 /\
  (forall cap p, 9 <= cap -> exists su ru, not_nc cap p ex3 (RN 5) = ROk su tt ru).
Proof.
  intros s' c' E. split.
  - destruct (oom_safe_not unit nc_get nc_add nc_lossy 8 (fun _ => false) 4 ex3 tt (RN 5) s' c')
      as [_ [_ [X _]]]; [apply ex3_ok | apply nc_ok | apply ex3_refs_ok | vm_compute; lia | exact E|].
    apply (gc_restores ex3 s' (proj1 ex3_ok) X ex3_no_garbage).
  - intros cap p Hcap.
    destruct (apply_not unit nc_get nc_add 4 ex3 tt (RN 5)) as [[[su []] ru]|] eqn:Eu; [|vm_compute in Eu; discriminate].
    exists su, ru. unfold not_nc. change (S (nlevels ex3)) with 4.
    apply (oom_retry_not unit nc_get nc_add cap (fun _ => p) 4 ex3 tt (RN 5) su tt ru Eu).
    vm_compute in Eu. inversion Eu; subst su. vm_compute. lia.
Qed.
