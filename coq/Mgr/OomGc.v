(** * After the failure: drop handles, collect, retry (C14, last clause)

    - [with_handles s hs]: the table with a sub-list of its handles (the user
      drops functions);
    - [collected s sg]: [sg] is what a garbage collection leaves of [s]: the
      same table restricted to the nodes reachable from a handle (that this is
      what [Manager::gc] does on the real manager is C05: exact reference
      counts, no node with count 0 after gc <-> every stored node reachable);
    - [collected_ok]: the collected table is again a well-formed BDD table, it
      is a sub-table of [s] (so every surviving reference means what it
      meant), all handles survive, no more nodes than before are stored;
    - [oom_recover_*]: an operation fails with out-of-memory; some handles
      (not the operands) are dropped; a collection runs; the cache is any
      correct cache (the code clears it).  Then the same operation on the same
      operands is again exactly "the correct result iff it fits" - now
      measured against the collected table, in which the garbage of the failed
      attempt is gone. *)

From Coq Require Import List NArith PArith Bool Arith Lia FMapPositive.
From OxiVerif Require Import DD.Table DD.TableProofs DD.Canon DD.Sem DD.Build DD.BuildProofs
  DD.Apply DD.ApplyProofs Mgr.Oom Mgr.OomProofs Mgr.OomSafe.
Import ListNotations.

(** ** Node counts of sub-tables *)

Lemma sub_count : forall a b,
  (forall id nd, find_node a id = Some nd -> find_node b id = Some nd) -> node_count a <= node_count b.
Proof.
  intros a b X. unfold node_count. rewrite !PositiveMap.cardinal_1.
  apply NoDup_incl_length.
  - apply (NoDup_map_inv fst). apply elements_keys_nodup.
  - intros [id nd] Hin. apply find_node_elements. apply X.
    apply find_node_elements. exact Hin.
Qed.

Lemma extends_count : forall a b, extends a b -> node_count a <= node_count b.
Proof. intros a b X. apply sub_count. apply (ext_nodes _ _ X). Qed.

(** ** Dropping handles *)

Definition with_handles (s : snap) (hs : list (N * edge)) : snap :=
  mkSnap (s_kind s) (s_nodes s) (s_terms s) (s_v2l s) (s_l2v s) hs.

Lemma semk_with_handles : forall s hs k r c0, semk (with_handles s hs) k r c0 = semk s k r c0.
Proof.
  intros s hs. induction k as [|k IH]; intros r c0; destruct r as [t|id]; try reflexivity.
  rewrite !semk_S. change (find_node (with_handles s hs) id) with (find_node s id).
  destruct (find_node s id) as [nd|]; [|reflexivity].
  destruct (nth_error (nchildren nd) (c0 (nlevel nd))); [apply IH | reflexivity].
Qed.

Lemma with_handles_ok : forall s hs, BddOK s -> incl hs (s_handles s) -> BddOK (with_handles s hs).
Proof.
  intros s hs B Hincl. pose proof (bo_wf s B) as H. constructor.
  - constructor; try (exact (wf_perm_len s H) || exact (wf_perm_v2l s H) || exact (wf_perm_l2v s H)
                      || exact (wf_term_ids s H) || exact (wf_term_vals s H)).
    + exact (wf_arity s H).
    + exact (wf_stored s H).
    + exact (wf_level s H).
    + exact (wf_child s H).
    + exact (wf_reduced s H).
    + exact (wf_tags s H).
    + exact (wf_unique s H).
    + intros h Hh. apply (wf_handles s H h (Hincl h Hh)).
  - exact (bo_kind s B).
  - exact (bo_codes s B).
  - exact (bo_false s B).
  - exact (bo_true s B).
Qed.

Lemma reach_with_handles : forall s hs r, incl hs (s_handles s) ->
  reachable (with_handles s hs) (handle_refs (with_handles s hs)) r ->
  reachable s (handle_refs s) r.
Proof.
  intros s hs r Hincl R. induction R as [r Hin|id nd e R IH E He].
  - apply reach_root. unfold handle_refs in *. simpl in Hin.
    apply in_map_iff in Hin. destruct Hin as [h [<- Hh]]. apply in_map_iff. exists h. auto.
  - apply (reach_child s _ id nd e IH E He).
Qed.

(** ** Collection *)

Record collected (s sg : snap) : Prop := mkCollected {
  co_kind : s_kind sg = s_kind s;
  co_terms : s_terms sg = s_terms s;
  co_v2l : s_v2l sg = s_v2l s;
  co_l2v : s_l2v sg = s_l2v s;
  co_handles : s_handles sg = s_handles s;
  co_nodes : forall id nd, find_node sg id = Some nd <->
               (find_node s id = Some nd /\ reachable s (handle_refs s) (RN id))
}.

Section Collected.
Variables s sg : snap.
Hypothesis B : BddOK s.
Hypothesis Cg : collected s sg.

Let H : WF s := bo_wf s B.

Lemma co_old : forall id nd, find_node sg id = Some nd -> find_node s id = Some nd.
Proof. intros id nd E. apply (proj1 (co_nodes s sg Cg id nd) E). Qed.

Lemma co_nlevels : nlevels sg = nlevels s.
Proof. unfold nlevels. rewrite (co_l2v s sg Cg). reflexivity. Qed.

Lemma co_term_val : forall t, term_val sg t = term_val s t.
Proof. intros t. unfold term_val. rewrite (co_terms s sg Cg). reflexivity. Qed.

(** a reference of [s] that is reachable from a handle survives *)
Lemma co_keeps : forall r, ref_ok s r -> reachable s (handle_refs s) r -> ref_ok sg r.
Proof.
  intros [t|id] Hok R; simpl in *.
  - rewrite co_term_val. exact Hok.
  - destruct Hok as [nd E]. exists nd. apply (co_nodes s sg Cg). auto.
Qed.

Lemma co_rlevel : forall r, ref_ok sg r -> rlevel sg r = rlevel s r.
Proof.
  intros [t|id] Hok; simpl.
  - apply co_nlevels.
  - destruct Hok as [nd E]. rewrite E, (co_old id nd E). reflexivity.
Qed.

Lemma co_child : forall id nd e, find_node sg id = Some nd -> In e (nchildren nd) ->
  ref_ok sg (eref e) /\ nlevel nd < rlevel sg (eref e).
Proof.
  intros id nd e E He. destruct (proj1 (co_nodes s sg Cg id nd) E) as [Es R].
  destruct (wf_child s H id nd e Es He) as [Ok Lv].
  assert (Okg : ref_ok sg (eref e)) by (apply co_keeps; [exact Ok | apply (reach_child s _ id nd e R Es He)]).
  split; [exact Okg | rewrite (co_rlevel _ Okg); exact Lv].
Qed.

Lemma collected_wf : WF sg.
Proof.
  pose proof (bo_kind s B) as Hk.
  constructor.
  - rewrite (co_v2l s sg Cg), (co_l2v s sg Cg). apply (wf_perm_len s H).
  - rewrite (co_v2l s sg Cg), (co_l2v s sg Cg). apply (wf_perm_v2l s H).
  - rewrite (co_v2l s sg Cg), (co_l2v s sg Cg). apply (wf_perm_l2v s H).
  - intros id nd E. rewrite (co_kind s sg Cg). apply (wf_arity s H id nd (co_old id nd E)).
  - intros id nd E. apply (wf_stored s H id nd (co_old id nd E)).
  - intros id nd E. rewrite co_nlevels. apply (wf_level s H id nd (co_old id nd E)).
  - apply co_child.
  - intros id nd E. pose proof (wf_reduced s H id nd (co_old id nd E)) as R.
    unfold reduced in *. rewrite (co_kind s sg Cg). rewrite Hk in *. exact R.
  - intros Hkk id nd e E He. rewrite (co_kind s sg Cg) in Hkk.
    apply (wf_tags s H Hkk id nd e (co_old id nd E) He).
  - intros i1 i2 n1 n2 E1 E2. apply (wf_unique s H i1 i2 n1 n2 (co_old _ _ E1) (co_old _ _ E2)).
  - rewrite (co_terms s sg Cg). apply (wf_term_ids s H).
  - rewrite (co_terms s sg Cg). apply (wf_term_vals s H).
  - intros h Hh. rewrite (co_handles s sg Cg) in Hh. destruct (wf_handles s H h Hh) as [Ok Tg].
    split; [|rewrite (co_kind s sg Cg); exact Tg].
    apply co_keeps; [exact Ok|]. apply reach_root. unfold handle_refs. apply in_map_iff. exists h. auto.
Qed.

Lemma collected_sub : extends sg s.
Proof.
  constructor; try (symmetry; apply Cg). exact co_old.
Qed.

Theorem collected_ok :
  BddOK sg /\ extends sg s /\
  (forall h, In h (s_handles s) -> ref_ok sg (eref (snd h))) /\
  (forall r, ref_ok sg r -> forall k c0, semk sg k r c0 = semk s k r c0) /\
  (forall id nd, find_node sg id = Some nd -> reachable sg (handle_refs sg) (RN id)) /\
  node_count sg <= node_count s.
Proof.
  pose proof collected_wf as Hg. pose proof collected_sub as X.
  split; [|split; [exact X|]; split; [|split; [|split]]].
  - constructor.
    + exact Hg.
    + rewrite (co_kind s sg Cg). apply (bo_kind s B).
    + intros t v. rewrite co_term_val. apply (bo_codes s B).
    + destruct (bo_false s B) as [t E]. exists t. rewrite co_term_val. exact E.
    + destruct (bo_true s B) as [t E]. exists t. rewrite co_term_val. exact E.
  - intros h Hh. rewrite <- (co_handles s sg Cg) in Hh. apply (wf_handles sg Hg h Hh).
  - intros r Hr k c0. symmetry. apply (semk_extends sg s Hg X k r c0 Hr).
  - (* every surviving node is reachable inside the collected table *)
    intros id nd E. destruct (proj1 (co_nodes s sg Cg id nd) E) as [_ R].
    assert (Gen : forall r, reachable s (handle_refs s) r -> ref_ok s r -> reachable sg (handle_refs sg) r).
    { intros r R0. induction R0 as [r Hin|pid pnd e R0 IH Ep He]; intros Hok.
      - apply reach_root. unfold handle_refs in *. rewrite (co_handles s sg Cg). exact Hin.
      - assert (Hp : ref_ok s (RN pid)) by (exists pnd; exact Ep).
        apply (reach_child sg _ pid pnd e (IH Hp)); [|exact He].
        apply (co_nodes s sg Cg). auto. }
    apply Gen; [exact R | exists nd; apply (co_old id nd E)].
  - apply (extends_count sg s X).
Qed.

End Collected.

(** ** Failure, drop, collection, retry *)

Section Recover.
Variable gt : ref -> ref -> bool.
Variable C : Type.
Variable cget : C -> N -> list ref -> option ref.
Variable cadd : C -> N -> list ref -> ref -> C.
Hypothesis Hlossy : lossy cget cadd.

(** the situation after: an operation on [s] failed leaving [s'], handles were
    dropped ([hs] remain, among them those of the operands [keep]), a
    collection produced [sg] *)
Definition recovered (s s' : snap) (hs : list (N * edge)) (keep : list ref) (sg : snap) : Prop :=
  BddOK s /\ extends s s' /\ BddOK s' /\
  incl hs (s_handles s') /\ (forall r, In r keep -> ref_ok s r /\ exists k, In (k, E r) hs) /\
  collected (with_handles s' hs) sg.

Lemma recovered_ok : forall s s' hs keep sg, recovered s s' hs keep sg ->
  BddOK sg /\ FUEL sg = FUEL s /\ node_count sg <= node_count s /\
  (forall id nd, find_node sg id = Some nd -> reachable sg (handle_refs sg) (RN id)) /\
  forall r, In r keep -> ref_ok sg r /\ forall c0 x, bvalue s r c0 x <-> bvalue sg r c0 x.
Proof.
  intros s s' hs keep sg [B [X [B' [Hincl [Hkeep Cg]]]]].
  pose proof (with_handles_ok s' hs B' Hincl) as B''.
  destruct (collected_ok _ sg B'' Cg) as [Bg [Xg [Hh [Hsem [Hlive Hcnt]]]]].
  assert (Hl : nlevels sg = nlevels s).
  { rewrite (co_nlevels _ sg Cg). change (nlevels (with_handles s' hs)) with (nlevels s').
    apply (ext_nlevels _ _ X). }
  split; [exact Bg|]. split; [unfold FUEL; rewrite Hl; reflexivity|].
  split.
  { (* everything the failed attempt created is gone: the collected table is a sub-table of [s] *)
    apply sub_count.
    intros id nd Eg.
    destruct (proj1 (co_nodes _ sg Cg id nd) Eg) as [E' R'].
    change (find_node (with_handles s' hs) id) with (find_node s' id) in E'.
    apply (reach_with_handles s' hs _ Hincl) in R'.
    destruct (reach_old s s' (bo_wf s B) X _ R') as [[nd0 E0] _].
    pose proof (ext_nodes _ _ X id nd0 E0) as E0'. rewrite E' in E0'. inversion E0'; subst. exact E0. }
  split; [exact Hlive|].
  intros r Hr. destruct (Hkeep r Hr) as [Hok [k Hk]].
  assert (Hokg : ref_ok sg r).
  { apply (Hh (k, E r)). exact Hk. }
  split; [exact Hokg|]. intros c0 x. unfold bvalue, FUEL. rewrite Hl.
  rewrite (Hsem r Hokg), semk_with_handles, (semk_extends s s' (bo_wf s B) X _ r c0 Hok). reflexivity.
Qed.

Theorem oom_recover_not : forall cap par fuel s c f s' c' hs sg cg,
  BddOK s -> CacheOK cget s c -> ref_ok s f -> FUEL s <= fuel ->
  apply_not_c C cget cadd cap par fuel s c f = ROom s' c' ->
  incl hs (s_handles s') -> (exists k, In (k, E f) hs) ->
  collected (with_handles s' hs) sg -> CacheOK cget sg cg ->
  BddOK sg /\ node_count sg <= node_count s /\
  exists su cu ru, apply_not C cget cadd fuel sg cg f = Some (su, cu, ru) /\
    (forall c0, bchoice c0 -> exists x, bvalue s f c0 x /\ bvalue su ru c0 (negb x)) /\
    exact_outcome C cget cap sg (apply_not_c C cget cadd cap par fuel sg cg f) su cu ru.
Proof.
  intros cap par fuel s c f s' c' hs sg cg B O Hf Hfuel E Hincl Hk Cg Og.
  destruct (oom_safe_not C cget cadd Hlossy cap par fuel s c f s' c' B O Hf Hfuel E)
    as [B' [_ [X _]]].
  assert (R : recovered s s' hs [f] sg).
  { split; [exact B|]. split; [exact X|]. split; [exact B'|]. split; [exact Hincl|]. split; [|exact Cg].
    intros r [<-|[]]. auto. }
  destruct (recovered_ok s s' hs [f] sg R) as [Bg [Hfu [Hcnt [_ Hops]]]].
  destruct (Hops f (or_introl eq_refl)) as [Hfg Vf].
  split; [exact Bg|]. split; [exact Hcnt|].
  destruct (oom_exact_not C cget cadd Hlossy cap par fuel sg cg f Bg Og Hfg ltac:(rewrite Hfu; exact Hfuel))
    as [su [cu [ru [Eu [V X']]]]].
  exists su, cu, ru. split; [exact Eu|]. split; [|exact X'].
  intros c0 Hc. destruct (V c0 Hc) as [x [Vx Vr]]. exists x. split; [apply Vf; exact Vx | exact Vr].
Qed.

Theorem oom_recover_bin : forall cap par op fuel s c f g s' c' hs sg cg,
  BddOK s -> CacheOK cget s c -> ref_ok s f -> ref_ok s g -> FUEL s <= fuel ->
  apply_bin_c gt C cget cadd cap par fuel s c op f g = ROom s' c' ->
  incl hs (s_handles s') -> (exists k, In (k, E f) hs) -> (exists k, In (k, E g) hs) ->
  collected (with_handles s' hs) sg -> CacheOK cget sg cg ->
  BddOK sg /\ node_count sg <= node_count s /\
  exists su cu ru, apply_bin gt C cget cadd fuel sg cg op f g = Some (su, cu, ru) /\
    (forall c0, bchoice c0 -> exists x y,
       bvalue s f c0 x /\ bvalue s g c0 y /\ bvalue su ru c0 (eval_bop op x y)) /\
    exact_outcome C cget cap sg (apply_bin_c gt C cget cadd cap par fuel sg cg op f g) su cu ru.
Proof.
  intros cap par op fuel s c f g s' c' hs sg cg B O Hf Hg Hfuel E Hincl Hkf Hkg Cg Og.
  destruct (oom_safe_bin gt C cget cadd Hlossy cap par op fuel s c f g s' c' B O Hf Hg Hfuel E)
    as [B' [_ [X _]]].
  assert (R : recovered s s' hs [f; g] sg).
  { split; [exact B|]. split; [exact X|]. split; [exact B'|]. split; [exact Hincl|]. split; [|exact Cg].
    intros r [<-|[<-|[]]]; auto. }
  destruct (recovered_ok s s' hs [f; g] sg R) as [Bg [Hfu [Hcnt [_ Hops]]]].
  destruct (Hops f (or_introl eq_refl)) as [Hfg Vf].
  destruct (Hops g (or_intror (or_introl eq_refl))) as [Hgg Vg].
  split; [exact Bg|]. split; [exact Hcnt|].
  destruct (oom_exact_bin gt C cget cadd Hlossy cap par op fuel sg cg f g Bg Og Hfg Hgg
              ltac:(rewrite Hfu; exact Hfuel)) as [su [cu [ru [Eu [V X']]]]].
  exists su, cu, ru. split; [exact Eu|]. split; [|exact X'].
  intros c0 Hc. destruct (V c0 Hc) as [x [y [Vx [Vy Vr]]]]. exists x, y.
  split; [apply Vf; exact Vx|]. split; [apply Vg; exact Vy | exact Vr].
Qed.

Theorem oom_recover_ite : forall cap par fuel s c f g h s' c' hs sg cg,
  BddOK s -> CacheOK cget s c -> ref_ok s f -> ref_ok s g -> ref_ok s h -> FUEL s <= fuel ->
  apply_ite_c gt C cget cadd cap par fuel s c f g h = ROom s' c' ->
  incl hs (s_handles s') ->
  (exists k, In (k, E f) hs) -> (exists k, In (k, E g) hs) -> (exists k, In (k, E h) hs) ->
  collected (with_handles s' hs) sg -> CacheOK cget sg cg ->
  BddOK sg /\ node_count sg <= node_count s /\
  exists su cu ru, apply_ite gt C cget cadd fuel sg cg f g h = Some (su, cu, ru) /\
    (forall c0, bchoice c0 -> exists x y z,
       bvalue s f c0 x /\ bvalue s g c0 y /\ bvalue s h c0 z /\ bvalue su ru c0 (if x then y else z)) /\
    exact_outcome C cget cap sg (apply_ite_c gt C cget cadd cap par fuel sg cg f g h) su cu ru.
Proof.
  intros cap par fuel s c f g h s' c' hs sg cg B O Hf Hg Hh Hfuel E Hincl Hkf Hkg Hkh Cg Og.
  destruct (oom_safe_ite gt C cget cadd Hlossy cap par fuel s c f g h s' c' B O Hf Hg Hh Hfuel E)
    as [B' [_ [X _]]].
  assert (R : recovered s s' hs [f; g; h] sg).
  { split; [exact B|]. split; [exact X|]. split; [exact B'|]. split; [exact Hincl|]. split; [|exact Cg].
    intros r [<-|[<-|[<-|[]]]]; auto. }
  destruct (recovered_ok s s' hs [f; g; h] sg R) as [Bg [Hfu [Hcnt [_ Hops]]]].
  destruct (Hops f (or_introl eq_refl)) as [Hfg Vf].
  destruct (Hops g (or_intror (or_introl eq_refl))) as [Hgg Vg].
  destruct (Hops h (or_intror (or_intror (or_introl eq_refl)))) as [Hhg Vh].
  split; [exact Bg|]. split; [exact Hcnt|].
  destruct (oom_exact_ite gt C cget cadd Hlossy cap par fuel sg cg f g h Bg Og Hfg Hgg Hhg
              ltac:(rewrite Hfu; exact Hfuel)) as [su [cu [ru [Eu [V X']]]]].
  exists su, cu, ru. split; [exact Eu|]. split; [|exact X'].
  intros c0 Hc. destruct (V c0 Hc) as [x [y [z [Vx [Vy [Vz Vr]]]]]]. exists x, y, z.
  split; [apply Vf; exact Vx|]. split; [apply Vg; exact Vy|]. split; [apply Vh; exact Vz | exact Vr].
Qed.

End Recover.

(** ** The collection hypothesis is satisfiable: when the table held no garbage
    before the failed operation, a collection (no handle dropped) restores
    exactly that table *)

Lemma reach_all_handles : forall s r,
  reachable s (handle_refs s) r ->
  reachable (with_handles s (s_handles s)) (handle_refs (with_handles s (s_handles s))) r.
Proof.
  intros s r R. induction R as [r Hin|id nd e R IH E He].
  - apply reach_root. exact Hin.
  - apply (reach_child _ _ id nd e IH E He).
Qed.

Theorem gc_restores : forall s s', BddOK s -> extends s s' ->
  (forall id nd, find_node s id = Some nd -> reachable s (handle_refs s) (RN id)) ->
  collected (with_handles s' (s_handles s')) s.
Proof.
  intros s s' B X Hlive. constructor; simpl.
  - symmetry. apply (ext_kind _ _ X).
  - symmetry. apply (ext_terms _ _ X).
  - symmetry. apply (ext_v2l _ _ X).
  - symmetry. apply (ext_l2v _ _ X).
  - symmetry. apply (ext_handles _ _ X).
  - intros id nd. change (find_node (with_handles s' (s_handles s')) id) with (find_node s' id). split.
    + intros E. split; [apply (ext_nodes _ _ X id nd E)|].
      apply reach_all_handles. apply (reach_new s s' X). apply (Hlive id nd E).
    + intros [E' R']. apply (reach_with_handles s' (s_handles s') _ (incl_refl _)) in R'.
      destruct (reach_old s s' (bo_wf s B) X _ R') as [[nd0 E0] _].
      pose proof (ext_nodes _ _ X id nd0 E0) as E0'. rewrite E' in E0'. inversion E0'; subst. exact E0.
Qed.
