(** * The error monad of the apply algorithms, generic part (C14, packages C14y)

    Executable definitions only (proofs: Mgr/OomGenProofs.v).  Mgr/Oom.v restates
    the plain BDD algorithms in the error monad of the code ([AllocResult<Edge>])
    with the result type [ref] fixed.  The complement-edge BDD, ZBDD and MTBDD
    rule sets (Mgr/OomBcdd.v, Mgr/OomZbdd.v, Mgr/OomMtbdd.v) return edges resp.
    references and have more recursion patterns; this file has the result type
    and the control-flow combinators they share.

    - [gres C R]: [GOk s c r] = [Ok(edge)] with the table and cache at that
      point, [GOom s c] = [Err(OutOfMemory)] with the table and cache at the point
      of failure (nothing is rolled back by the code: the nodes created by the
      sub-calls that had succeeded stay stored as garbage, the cache keeps what
      they added), [GStuck] = an [unwrap] of the code would panic / fuel
      exhausted (what [None] is in the unbounded models; excluded by theorems);
    - [gbind r k] = [let x = r?; k(x)]: every [?] propagates the failure
      unchanged;
    - [gjoin2 p r1 run2 fin] = [let (a, b) = rec.binary(..)?; fin(a, b)] for the
      recursor methods [binary] / [ternary] / [binary_ternary] / [unary] of
      oxidd-rules-bdd/src/recursor.rs and oxidd-rules-zbdd/src/recursor.rs:
      [p = false]: [SequentialRecursor] (returns at the first [?] that fails, the
      second branch is not started); [p = true]: [ParallelRecursor]
      ([Ok((ra?, rb?))] after [join]: both branches have run, the edge of a
      successful sibling is dropped by its [EdgeDropGuard]) - sequentialised as
      in Mgr/Oom.v: first branch, then second branch on the resulting table;
    - [gfin s c o kc kr] = [let h = reduce(..)?; cache.add(..); Ok(h)] where [o]
      is the outcome of the node creation ([None] = [Err(OutOfMemory)], table
      unchanged). *)

From Coq Require Import List NArith PArith Bool Arith.
From OxiVerif Require Import DD.Table.
Import ListNotations.

Inductive gres (C R : Type) : Type :=
| GOk (s : snap) (c : C) (r : R)
| GOom (s : snap) (c : C)
| GStuck.
Arguments GOk {C R}.
Arguments GOom {C R}.
Arguments GStuck {C R}.

(** [let x = r1?; k(x)] *)
Definition gbind {C R R' : Type} (r1 : gres C R) (k : snap -> C -> R -> gres C R') : gres C R' :=
  match r1 with
  | GOk s c x => k s c x
  | GOom s c => GOom s c
  | GStuck => GStuck
  end.

(** [let (a, b) = rec.binary(op_a, .., op_b, ..)?; fin(a, b)] *)
Definition gjoin2 {C R1 R2 R' : Type} (p : bool) (r1 : gres C R1) (run2 : snap -> C -> gres C R2)
  (fin : snap -> C -> R1 -> R2 -> gres C R') : gres C R' :=
  match r1 with
  | GStuck => GStuck
  | GOom s1 c1 =>
    if p then
      (* the sibling still runs; its edge is dropped *)
      match run2 s1 c1 with
      | GOk s2 c2 _ => GOom s2 c2
      | GOom s2 c2 => GOom s2 c2
      | GStuck => GStuck
      end
    else GOom s1 c1
  | GOk s1 c1 t =>
    match run2 s1 c1 with
    | GStuck => GStuck
    | GOom s2 c2 => GOom s2 c2
    | GOk s2 c2 e => fin s2 c2 t e
    end
  end.

(** [let h = <node creation>?; <cache insertion>; Ok(..h..)] *)
Definition gfin {C R R' : Type} (s : snap) (c : C) (o : option (snap * R)) (kc : R -> C) (kr : R -> R')
  : gres C R' :=
  match o with
  | Some (s', h) => GOk s' (kc h) (kr h)
  | None => GOom s c
  end.

(** outcome as the driver compares it: 0 = ok, 1 = out of memory, 2 = stuck;
    the table afterwards; the result *)
Definition gres_code {C R : Type} (r : gres C R) : nat :=
  match r with GOk _ _ _ => 0 | GOom _ _ => 1 | GStuck => 2 end.
Definition gres_snap {C R : Type} (r : gres C R) : option snap :=
  match r with GOk s _ _ => Some s | GOom s _ => Some s | GStuck => None end.
Definition gres_val {C R : Type} (r : gres C R) : option R :=
  match r with GOk _ _ x => Some x | _ => None end.

(** [DynamicTerminalManager::len()]: the number of stored terminals *)
Definition term_count (s : snap) : nat := length (s_terms s).
