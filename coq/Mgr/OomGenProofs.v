(** * The error monad of the apply algorithms, generic part: proofs (C14y)

    For the combinators of Mgr/OomGen.v ([gbind], [gjoin2], [gfin]) and their
    unbounded counterparts ([ubind], [ujoin2], [ufin]: the shapes the unbounded
    models DD/ApplyBcdd.v, DD/ZbddOps.v, DD/ZbddBool.v, DD/ApplyMtbdd.v are
    convertible to):

    - [sim] = [refines] /\ [fits] (no invariant needed): a bounded result is
      literally the unbounded result and stays within the budgets; a bounded
      failure has a full store; an unbounded result that stays within the
      budgets is delivered by the bounded run.  Two budgets: inner nodes
      ([node_count], capacity [cap]) and a second resource [m2] with capacity
      [cap2] (the terminals of an MTBDD; [m2 = fun _ => 0], [cap2 = 1] for the
      kinds with static terminals);
    - [res_safe] / [fail_safe] for an invariant [Inv] and a table order [ext]:
      never stuck, and the table left behind - by a result or by a failure -
      satisfies the invariant and extends the table before;
    - [exact_outcome], monotonicity in the capacities;
    - [intact0]: what an extension of the node table preserves for the owner
      of a handle (generic part of [intact] of Mgr/OomSafe.v). *)

From Coq Require Import List NArith PArith Bool Arith Lia FMapPositive.
From OxiVerif Require Import DD.Table DD.TableProofs DD.Build DD.BuildProofs Mgr.Oom Mgr.OomProofs.
From OxiVerif Require Import Mgr.OomGen.
Import ListNotations.

(** ** The shapes of the unbounded algorithms *)

Definition ubind {C R R' : Type} (u : option (snap * C * R)) (k : snap -> C -> R -> option (snap * C * R'))
  : option (snap * C * R') :=
  match u with
  | None => None
  | Some (s, c, x) => k s c x
  end.

Definition ujoin2 {C R1 R2 R' : Type} (u1 : option (snap * C * R1)) (urun2 : snap -> C -> option (snap * C * R2))
  (ufn : snap -> C -> R1 -> R2 -> option (snap * C * R')) : option (snap * C * R') :=
  match u1 with
  | None => None
  | Some (s1, c1, t) =>
    match urun2 s1 c1 with
    | None => None
    | Some (s2, c2, e) => ufn s2 c2 t e
    end
  end.

Definition ufin {C R R' : Type} (u : snap * R) (kc : R -> C) (kr : R -> R') : option (snap * C * R') :=
  let '(s', h) := u in Some (s', kc h, kr h).

(** ** Refinement in both directions *)

Section Sim.
Variable C : Type.
(** the second resource; it only depends on the terminal list *)
Variable m2 : snap -> nat.
Hypothesis m2_terms : forall s s', s_terms s' = s_terms s -> m2 s' = m2 s.
Variables cap cap2 : nat.

Definition within (s s' : snap) : Prop :=
  node_count s <= node_count s' <= Nat.max cap (node_count s) /\
  m2 s <= m2 s' <= Nat.max cap2 (m2 s).
Definition grown (s s' : snap) : Prop := node_count s <= node_count s' /\ m2 s <= m2 s'.
Definition full (s' : snap) : Prop := cap <= node_count s' \/ cap2 <= m2 s'.

Definition refines {R : Type} (s : snap) (rb : gres C R) (ru : option (snap * C * R)) : Prop :=
  match rb with
  | GOk s' c' r => ru = Some (s', c', r) /\ within s s'
  | GOom s' c' => grown s s' /\ full s'
  | GStuck => True
  end.

Definition fits {R : Type} (s : snap) (ru : option (snap * C * R)) (rb : gres C R) : Prop :=
  match ru with
  | Some (s', c', r) => grown s s' /\ (within s s' -> rb = GOk s' c' r)
  | None => True
  end.

Definition sim {R : Type} (s : snap) (rb : gres C R) (ru : option (snap * C * R)) : Prop :=
  refines s rb ru /\ fits s ru rb.

Ltac wl := unfold within, grown, full in *; lia.

Lemma sim_here : forall R s c (r : R), sim s (GOk s c r) (Some (s, c, r)).
Proof. intros. split; simpl; (split; [reflexivity || wl | try reflexivity; wl]). Qed.

Lemma sim_stuck : forall R s, @sim R s GStuck None.
Proof. intros. split; exact I. Qed.

(** the outcome [o] of a bounded node / terminal creation against the
    unbounded creation [u] *)
Definition leaf_rel {R : Type} (s : snap) (o : option (snap * R)) (u : snap * R) : Prop :=
  grown s (fst u) /\
  match o with
  | Some x => x = u /\ within s (fst u)
  | None => full s /\ ~ within s (fst u)
  end.

Lemma leaf_same : forall R s (r : R), leaf_rel s (Some (s, r)) (s, r).
Proof. intros. split; simpl; [wl|]. split; [reflexivity | wl]. Qed.

Lemma gfin_sim : forall R R' s c (o : option (snap * R)) u (kc : R -> C) (kr : R -> R'),
  leaf_rel s o u -> sim s (gfin s c o kc kr) (ufin u kc kr).
Proof.
  intros R R' s c o [su h] kc kr [G L]. simpl in G. unfold gfin, ufin. split.
  - destruct o as [[s' h']|]; simpl in *.
    + destruct L as [Hx W]. inversion Hx; subst. auto.
    + destruct L as [F _]. split; [wl | exact F].
  - simpl. split; [exact G|]. intros W. destruct o as [[s' h']|]; simpl in L.
    + destruct L as [Hx _]. inversion Hx; subst. reflexivity.
    + destruct L as [_ N]. contradiction.
Qed.

Lemma gbind_sim : forall R R' s (r1 : gres C R) u1 (k : snap -> C -> R -> gres C R') uk,
  sim s r1 u1 -> (forall s1 c1 x, sim s1 (k s1 c1 x) (uk s1 c1 x)) ->
  sim s (gbind r1 k) (ubind u1 uk).
Proof.
  intros R R' s r1 u1 k uk [A1 B1] H2. split.
  - unfold gbind, ubind. destruct r1 as [s1 c1 x|s1 c1|]; simpl in A1; [| |exact I].
    + destruct A1 as [-> W1]. destruct (H2 s1 c1 x) as [A2 _].
      destruct (k s1 c1 x) as [s2 c2 y|s2 c2|]; simpl in *; [| |exact I].
      * destruct A2 as [-> W2]. split; [reflexivity | wl].
      * wl.
    + simpl. exact A1.
  - unfold ubind. destruct u1 as [[[s1 c1] x]|]; [|exact I]. simpl in B1. destruct B1 as [G1 F1].
    destruct (H2 s1 c1 x) as [_ B2]. destruct (uk s1 c1 x) as [[[s2 c2] y]|]; [|exact I].
    simpl in B2 |- *. destruct B2 as [G2 F2]. split; [wl|]. intros W.
    rewrite F1 by wl. simpl. apply F2. wl.
Qed.

Lemma gjoin2_sim : forall R1 R2 R' p s (r1 : gres C R1) u1 (run2 : snap -> C -> gres C R2) urun2
    (fin : snap -> C -> R1 -> R2 -> gres C R') ufn,
  sim s r1 u1 ->
  (forall s1 c1, sim s1 (run2 s1 c1) (urun2 s1 c1)) ->
  (forall s2 c2 t e, sim s2 (fin s2 c2 t e) (ufn s2 c2 t e)) ->
  sim s (gjoin2 p r1 run2 fin) (ujoin2 u1 urun2 ufn).
Proof.
  intros R1 R2 R' p s r1 u1 run2 urun2 fin ufn [A1 B1] H2 H3. split.
  - unfold gjoin2, ujoin2. destruct r1 as [s1 c1 t|s1 c1|]; simpl in A1; [| |exact I].
    + destruct A1 as [-> W1]. destruct (H2 s1 c1) as [A2 _].
      destruct (run2 s1 c1) as [s2 c2 e|s2 c2|]; simpl in A2; [| |exact I].
      * destruct A2 as [-> W2]. destruct (H3 s2 c2 t e) as [A3 _].
        destruct (fin s2 c2 t e) as [s3 c3 r|s3 c3|]; simpl in *; [| |exact I].
        -- destruct A3 as [-> W3]. split; [reflexivity | wl].
        -- wl.
      * simpl. wl.
    + destruct p; [|simpl; exact A1]. destruct (H2 s1 c1) as [A2 _].
      destruct (run2 s1 c1) as [s2 c2 e|s2 c2|]; simpl in *; [wl | wl | exact I].
  - unfold ujoin2. destruct u1 as [[[s1 c1] t]|]; [|exact I]. simpl in B1. destruct B1 as [G1 F1].
    destruct (H2 s1 c1) as [_ B2]. destruct (urun2 s1 c1) as [[[s2 c2] e]|]; [|exact I].
    simpl in B2. destruct B2 as [G2 F2].
    destruct (H3 s2 c2 t e) as [_ B3]. destruct (ufn s2 c2 t e) as [[[s3 c3] r]|]; [|exact I].
    simpl in B3 |- *. destruct B3 as [G3 F3]. split; [wl|]. intros W.
    unfold gjoin2. rewrite F1 by wl. rewrite F2 by wl. apply F3. wl.
Qed.

(** *** the node store: [get_or_insert_cap] / [mk_node_cap] of Mgr/Oom.v *)

Lemma m2_set_nodes : forall s m, m2 (set_nodes s m) = m2 s.
Proof. intros. apply m2_terms. reflexivity. Qed.

Lemma m2_get_or_insert : forall s lvl ch, m2 (fst (get_or_insert s lvl ch)) = m2 s.
Proof.
  intros. unfold get_or_insert. destruct (find_dup s lvl ch); simpl; [reflexivity | apply m2_set_nodes].
Qed.

Lemma goi_leaf : forall s lvl ch, leaf_rel s (get_or_insert_cap cap s lvl ch) (get_or_insert s lvl ch).
Proof.
  intros s lvl ch. pose proof (m2_get_or_insert s lvl ch) as M.
  destruct (get_or_insert s lvl ch) as [s' e] eqn:Eg. simpl in M.
  destruct (get_or_insert_cap_fits cap s lvl ch s' e Eg) as [Hc Hf].
  split; [simpl; wl|].
  destruct (get_or_insert_cap cap s lvl ch) as [x|] eqn:Ec.
  - destruct (get_or_insert_cap_some cap s lvl ch x Ec) as [Hx Hb]. rewrite Eg in Hx. subst x.
    split; [reflexivity|]. simpl in *. wl.
  - destruct (get_or_insert_cap_none cap s lvl ch Ec) as [_ Hfull]. split; [wl|].
    intros W. simpl in W. assert (Hn : None = Some (s', e)) by (apply Hf; wl). discriminate.
Qed.

Lemma mk_node_leaf : forall s lvl ch, leaf_rel s (mk_node_cap cap s lvl ch) (mk_node s lvl ch).
Proof.
  intros s lvl ch. unfold mk_node_cap, mk_node.
  destruct ch as [|c0 rest]; [apply leaf_same|].
  destruct (all_equal (c0 :: rest)); [apply leaf_same | apply goi_leaf].
Qed.

(** a leaf whose result is post-processed *)
Lemma leaf_map : forall R R' s (o : option (snap * R)) u (f : R -> R'),
  leaf_rel s o u ->
  leaf_rel s (match o with Some (s', r) => Some (s', f r) | None => None end) (let '(s', r) := u in (s', f r)).
Proof.
  intros R R' s o [su r] f [G L]. split; [exact G|].
  destruct o as [[s' r']|]; simpl in *; [|exact L].
  destruct L as [Hx W]. inversion Hx; subst. auto.
Qed.

(** ** Consequences of [sim] *)

Lemma sim_never_wrong : forall R s (rb : gres C R) ru s' c' r,
  sim s rb ru -> rb = GOk s' c' r -> ru = Some (s', c', r).
Proof. intros R s rb ru s' c' r [A _] E. rewrite E in A. apply A. Qed.

Lemma sim_retry : forall R s (rb : gres C R) su cu r,
  sim s rb (Some (su, cu, r)) -> within s su -> rb = GOk su cu r.
Proof. intros R s rb su cu r [_ B] W. apply B. exact W. Qed.

End Sim.

Arguments within m2 cap cap2 s s' /.
Arguments grown m2 s s' /.
Arguments full m2 cap cap2 s' /.

(** a success is a success with every larger pair of capacities *)
Lemma sim_monotone : forall C R m2 cap cap2 cap' cap2' s (rb rb' : gres C R) ru s' c' r,
  cap <= cap' -> cap2 <= cap2' ->
  sim C m2 cap cap2 s rb ru -> sim C m2 cap' cap2' s rb' ru ->
  rb = GOk s' c' r -> rb' = GOk s' c' r.
Proof.
  intros C R m2 cap cap2 cap' cap2' s rb rb' ru s' c' r H1 H2 [A _] [_ B] E.
  rewrite E in A. destruct A as [-> W]. apply B. simpl in *. lia.
Qed.

(** ** Never stuck; the table after a result or a failure *)

Section Safe.
Variable C : Type.
Variable Inv : snap -> C -> Prop.
Variable ext : snap -> snap -> Prop.
Hypothesis ext_trans : forall s1 s2 s3, ext s1 s2 -> ext s2 s3 -> ext s1 s3.

Definition res_safe {R : Type} (Q : snap -> R -> Prop) (s : snap) (r : gres C R) : Prop :=
  match r with
  | GOk s' c' x => Inv s' c' /\ ext s s' /\ Q s' x
  | GOom s' c' => Inv s' c' /\ ext s s'
  | GStuck => False
  end.

(** the part that is proved by walking through the bounded algorithm (the
    [GOk] case follows from the refinement and the theorems about the unbounded
    algorithm) *)
Definition fail_safe {R : Type} (s : snap) (r : gres C R) : Prop :=
  match r with
  | GOk _ _ _ => True
  | GOom s' c' => Inv s' c' /\ ext s s'
  | GStuck => False
  end.

Lemma res_fail_safe : forall R Q s (r : gres C R), res_safe Q s r -> fail_safe s r.
Proof. intros R Q s [s' c' x|s' c'|]; simpl; tauto. Qed.

Lemma safe_intro : forall R (Q : snap -> R -> Prop) s (r : gres C R),
  fail_safe s r ->
  (forall s' c' x, r = GOk s' c' x -> Inv s' c' /\ ext s s' /\ Q s' x) ->
  res_safe Q s r.
Proof. intros R Q s [s' c' x|s' c'|] W H; simpl in *; auto. Qed.

Lemma res_safe_weaken : forall R (Q Q' : snap -> R -> Prop) s (r : gres C R),
  res_safe Q s r -> (forall s' x, Q s' x -> Q' s' x) -> res_safe Q' s r.
Proof. intros R Q Q' s [s' c' x|s' c'|] H HQ; simpl in *; auto. destruct H as [A [B D]]. auto. Qed.

Lemma fail_safe_here : forall R s c (x : R), fail_safe s (GOk s c x).
Proof. intros. exact I. Qed.

Lemma fail_safe_from : forall R s s1 (r : gres C R), ext s s1 -> fail_safe s1 r -> fail_safe s r.
Proof. intros R s s1 [s' c' x|s' c'|] X H; simpl in *; auto. destruct H. eauto. Qed.

Lemma gfin_safe : forall R R' s c (o : option (snap * R)) (kc : R -> C) (kr : R -> R'),
  Inv s c -> ext s s -> fail_safe s (gfin s c o kc kr).
Proof. intros R R' s c [[s' h]|] kc kr I X; simpl; auto. Qed.

Lemma gbind_safe : forall R R' (Q : snap -> R -> Prop) s (r1 : gres C R) (k : snap -> C -> R -> gres C R'),
  res_safe Q s r1 ->
  (forall s1 c1 x, Inv s1 c1 -> ext s s1 -> Q s1 x -> fail_safe s1 (k s1 c1 x)) ->
  fail_safe s (gbind r1 k).
Proof.
  intros R R' Q s r1 k H1 H2. unfold gbind. destruct r1 as [s1 c1 x|s1 c1|]; simpl in H1; [| |contradiction].
  - destruct H1 as [I1 [X1 Q1]]. apply (fail_safe_from _ s s1 _ X1). apply H2; auto.
  - exact H1.
Qed.

Lemma gjoin2_safe : forall R1 R2 R' (Q1 : snap -> R1 -> Prop) (Q2 : snap -> R2 -> Prop) p s
    (r1 : gres C R1) (run2 : snap -> C -> gres C R2) (fin : snap -> C -> R1 -> R2 -> gres C R'),
  res_safe Q1 s r1 ->
  (forall s1 c1, Inv s1 c1 -> ext s s1 -> res_safe Q2 s1 (run2 s1 c1)) ->
  (forall s2 c2 t e, Inv s2 c2 -> ext s s2 -> fail_safe s2 (fin s2 c2 t e)) ->
  fail_safe s (gjoin2 p r1 run2 fin).
Proof.
  intros R1 R2 R' Q1 Q2 p s r1 run2 fin H1 H2 H3. unfold gjoin2.
  destruct r1 as [s1 c1 t|s1 c1|]; simpl in H1; [| |contradiction].
  - destruct H1 as [I1 [X1 _]]. specialize (H2 s1 c1 I1 X1).
    destruct (run2 s1 c1) as [s2 c2 e|s2 c2|]; simpl in H2; [| |contradiction].
    + destruct H2 as [I2 [X2 _]]. apply (fail_safe_from _ s s2 _ (ext_trans _ _ _ X1 X2)).
      apply H3; eauto.
    + destruct H2 as [I2 X2]. simpl. eauto.
  - destruct H1 as [I1 X1]. destruct p; [|simpl; auto].
    specialize (H2 s1 c1 I1 X1).
    destruct (run2 s1 c1) as [s2 c2 e|s2 c2|]; simpl in *; [| |contradiction].
    + destruct H2 as [I2 [X2 _]]. eauto.
    + destruct H2 as [I2 X2]. eauto.
Qed.

End Safe.

Arguments res_safe {C} Inv ext {R} Q s r.
Arguments fail_safe {C} Inv ext {R} s r.

(** ** Exactness: the bounded run delivers the unbounded result exactly when it
    stays within the budgets, and fails (leaving a safe table, store full)
    otherwise *)

Section Exact.
Variable C : Type.
Variable m2 : snap -> nat.
Variables cap cap2 : nat.
Variable Inv : snap -> C -> Prop.
Variable ext : snap -> snap -> Prop.

Definition failed_state (s s' : snap) (c' : C) : Prop :=
  Inv s' c' /\ ext s s' /\ grown m2 s s' /\ full m2 cap cap2 s'.

Definition exact_outcome {R : Type} (s : snap) (rb : gres C R) (su : snap) (cu : C) (ru : R) : Prop :=
  (within m2 cap cap2 s su -> rb = GOk su cu ru) /\
  (Nat.max cap (node_count s) < node_count su \/ Nat.max cap2 (m2 s) < m2 su ->
   exists s' c', rb = GOom s' c' /\ failed_state s s' c').

Lemma failed_intro : forall R (Q : snap -> R -> Prop) s s' c' ru,
  res_safe Inv ext Q s (GOom s' c') -> sim C m2 cap cap2 s (@GOom C R s' c') ru -> failed_state s s' c'.
Proof.
  intros R Q s s' c' ru [I X] [[G F] _]. split; [exact I|]. split; [exact X|]. split; assumption.
Qed.

Lemma exact_intro : forall R (Q : snap -> R -> Prop) s (rb : gres C R) su cu ru,
  res_safe Inv ext Q s rb -> sim C m2 cap cap2 s rb (Some (su, cu, ru)) -> exact_outcome s rb su cu ru.
Proof.
  intros R Q s rb su cu ru S [A B]. split; [apply B|].
  intros Hbig. destruct rb as [s' c' r|s' c'|]; [| |contradiction].
  - exfalso. simpl in A. destruct A as [Eu W]. inversion Eu; subst. simpl in W. lia.
  - exists s', c'. split; [reflexivity|]. apply (failed_intro R Q s s' c' (Some (su, cu, ru)) S).
    split; assumption.
Qed.

(** failing or not is decided by the unbounded run: it does not depend on the recursor *)
Lemma exact_code : forall R s (rb rb' : gres C R) su cu ru,
  grown m2 s su ->
  exact_outcome s rb su cu ru -> exact_outcome s rb' su cu ru -> gres_code rb = gres_code rb'.
Proof.
  intros R s rb rb' su cu ru G [A1 B1] [A2 B2]. simpl in G.
  destruct (le_lt_dec (node_count su) (Nat.max cap (node_count s))) as [Hf1|Hb1].
  - destruct (le_lt_dec (m2 su) (Nat.max cap2 (m2 s))) as [Hf2|Hb2].
    + rewrite A1, A2 by (simpl; lia). reflexivity.
    + destruct (B1 (or_intror Hb2)) as [s1 [c1 [-> _]]]. destruct (B2 (or_intror Hb2)) as [s2 [c2 [-> _]]].
      reflexivity.
  - destruct (B1 (or_introl Hb1)) as [s1 [c1 [-> _]]]. destruct (B2 (or_introl Hb1)) as [s2 [c2 [-> _]]].
    reflexivity.
Qed.

End Exact.

(** ** What an extension of the node table preserves (kind-independent part) *)

(** [s'] stores every node of [s] unchanged and has the same handles, order
    and variables ([extends] of DD/BuildProofs.v and [mext] of
    DD/ApplyMtbddBase.v without their clause on the terminals) *)
Record next (s s' : snap) : Prop := mkNext {
  nx_v2l : s_v2l s' = s_v2l s;
  nx_l2v : s_l2v s' = s_l2v s;
  nx_handles : s_handles s' = s_handles s;
  nx_nodes : forall id nd, find_node s id = Some nd -> find_node s' id = Some nd
}.

Lemma next_of_extends : forall s s', extends s s' -> next s s'.
Proof. intros s s' X. constructor; apply X. Qed.

Lemma next_handle_refs : forall s s', next s s' -> handle_refs s' = handle_refs s.
Proof. intros s s' X. unfold handle_refs. rewrite (nx_handles _ _ X). reflexivity. Qed.

Lemma next_reach_old : forall s s', WF s -> next s s' ->
  forall r, reachable s' (handle_refs s') r -> ref_ok s r /\ reachable s (handle_refs s) r.
Proof.
  intros s s' H X r R. induction R as [r Hin|id nd e R IH E He].
  - rewrite (next_handle_refs s s' X) in Hin. split; [|apply reach_root; exact Hin].
    unfold handle_refs in Hin. apply in_map_iff in Hin. destruct Hin as [h [<- Hh]].
    apply (wf_handles s H h Hh).
  - destruct IH as [[nd0 E0] R0].
    pose proof (nx_nodes _ _ X id nd0 E0) as E0'. rewrite E in E0'. inversion E0'; subst nd0.
    split; [apply (wf_child s H id nd e E0 He) | apply (reach_child s _ id nd e R0 E0 He)].
Qed.

Lemma next_reach_new : forall s s', next s s' ->
  forall r, reachable s (handle_refs s) r -> reachable s' (handle_refs s') r.
Proof.
  intros s s' X r R. induction R as [r Hin|id nd e R IH E He].
  - apply reach_root. rewrite (next_handle_refs s s' X). exact Hin.
  - apply (reach_child s' _ id nd e IH (nx_nodes _ _ X id nd E) He).
Qed.

(** the state [s'] left by an operation that started in [s] (in particular by
    one that failed), for every owner of a handle: kind-independent part *)
Record intact0 (s s' : snap) : Prop := mkIntact0 {
  (* the handle list is unchanged *)
  i0_handles : s_handles s' = s_handles s;
  (* same variables and order *)
  i0_order : s_v2l s' = s_v2l s /\ s_l2v s' = s_l2v s;
  (* every stored node is still stored, unchanged *)
  i0_nodes : forall id nd, find_node s id = Some nd -> find_node s' id = Some nd;
  (* the nodes that were added are garbage: unreachable from every handle *)
  i0_garbage : forall id, find_node s id = None -> ~ reachable s' (handle_refs s') (RN id);
  (* the live part of the diagram is exactly what it was *)
  i0_live : forall r, reachable s' (handle_refs s') r <-> reachable s (handle_refs s) r
}.

Theorem next_intact0 : forall s s', WF s -> next s s' -> intact0 s s'.
Proof.
  intros s s' H X. constructor.
  - apply (nx_handles _ _ X).
  - split; [apply (nx_v2l _ _ X) | apply (nx_l2v _ _ X)].
  - apply (nx_nodes _ _ X).
  - intros id En R. destruct (next_reach_old s s' H X _ R) as [[nd E] _]. congruence.
  - intros r. split; [intros R; apply (next_reach_old s s' H X _ R) | apply (next_reach_new s s' X)].
Qed.
