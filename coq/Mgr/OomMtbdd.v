(** * The MTBDD apply algorithms on stores of bounded capacity: inner nodes AND terminals (C14y)

    Executable definitions only (proofs: Mgr/OomMtbddProofs.v, Mgr/OomMtbddSafe.v,
    non-vacuity: Mgr/OomMtbddExamples.v).  The algorithms of DD/ApplyMtbdd.v
    ([mt_tb], [mt_apply_bin], [mt_apply_ite], [mt_restrict], [mt_const],
    [mt_var]) once more, now in the error monad of the code
    ([AllocResult<Edge>], Mgr/OomGen.v) with TWO budgets:

    - [cap]: the capacity of the inner-node store.  [mk_node_cap] /
      [get_or_insert_cap] of Mgr/Oom.v ([reduce] of oxidd-rules-mtbdd/src/lib.rs =
      [MTBDDRules::reduce] + [then_insert] = [LevelView::get_or_insert] +
      [Store::add_node] of oxidd-manager-index/src/manager.rs): equal children -
      no allocation; a unique-table hit never fails; a NEW node fails with
      [OutOfMemory] iff [cap] nodes are stored;
    - [tcap]: the capacity of the terminal store.  [get_terminal_cap] mirrors
      [DynamicTerminalManager::get_edge] of
      oxidd-manager-index/src/terminal_manager/dynamic.rs (model Mgr/Terminals.v,
      theorem [C05_term_get_oom_iff]): a value that is stored is found and never
      fails; a NEW value fails with [Err(OutOfMemory)] iff the free chain is empty
      ([next_free == store.len()]), i.e. iff all [tcap] slots are in use; nothing
      changes in that case.  [term_count] (Mgr/OomGen.v) = the number of stored
      terminals, dead ones included (they keep their slot until a collection).

    The MTBDD code has NO recursor: oxidd-rules-mtbdd/src/apply_rec.rs is always
    sequential ([let t = EdgeDropGuard::new(.., apply_bin(f0, g0)?); let e =
    EdgeDropGuard::new(.., apply_bin(f1, g1)?); let h = reduce(..)?;]): the second
    branch is not started when the first one failed, and [t]'s guard drops the
    first result when the second one fails.  Hence [gjoin2 false] everywhere and
    no [par] parameter.

    Result: [GOk s c r] / [GOom s c] (table and cache at the point of failure;
    nothing is rolled back: nodes AND terminals created by the sub-calls that had
    succeeded stay stored as garbage until a collection) / [GStuck] (= [None] of
    DD/ApplyMtbdd.v: fuel exhausted or an [unwrap] of the code would panic;
    excluded by theorems).  Reference counts are not part of the model. *)

From Coq Require Import List NArith ZArith PArith Bool Arith FMapPositive.
From OxiVerif Require Import DD.Table DD.Sem DD.Build DD.Apply DD.ApplyMtbdd Num.I64 Mgr.Oom.
From OxiVerif Require Import Mgr.OomGen.
Import ListNotations.

(** [Manager::get_terminal(value)] = [DynamicTerminalManager::get_edge]:
    [find_or_find_insert_slot]: found - the id, never fails; not found -
    [Err(OutOfMemory)] iff [next_free == store.len()] (all [tcap] slots in use),
    otherwise the new terminal of [get_terminal].  [None] = [Err(OutOfMemory)],
    the manager is unchanged. *)
Definition get_terminal_cap (tcap : nat) (s : snap) (v : i64v) : option (snap * ref) :=
  match rassoc_N (s_terms s) (code v) with
  | Some t => Some (s, RT t)
  | None => if Nat.ltb (term_count s) tcap then Some (get_terminal s v) else None
  end.

(** [Done(m.get_terminal(val)?)]; [None] = the [?] returns [Err(OutOfMemory)] *)
Definition done_val_c (tcap : nat) (s : snap) (v : i64v) : option mtb_res :=
  match get_terminal_cap tcap s v with
  | Some (s', r) => Some (MDone s' r)
  | None => None
  end.

Section TB.
(** capacity of the terminal store *)
Variable tcap : nat.
(** the (unobservable) edge order used to normalise commutative operand pairs *)
Variable gt : ref -> ref -> bool.

(** [terminal_bin::<OP>] of oxidd-rules-mtbdd/src/lib.rs, arm by arm in the
    order of the source as [mt_tb] of DD/ApplyMtbdd.v; the arms that call
    [m.get_terminal(..)?] can fail ([None]), the arms that clone an operand
    edge or return the normalised [Binary(..)] triple cannot *)
Definition mt_tb_c (s : snap) (op : mop) (f g : ref) (vf vg : mview) : option mtb_res :=
  match op with
  | MAdd =>
    match vf, vg with
    | MT a, MT b => done_val_c tcap s (i64_add a b)
    | _, _ =>
      if is_t i64_is_zero vf then Some (MDone s g)
      else if is_t i64_is_zero vg then Some (MDone s f)
      else if is_t i64_is_nan vf || is_t i64_is_nan vg then done_val_c tcap s i64_nan
      else if gt f g then Some (MBin MAdd g f)
      else Some (MBin MAdd f g)
    end
  | MSub =>
    match vf, vg with
    | MT a, MT b => done_val_c tcap s (i64_sub a b)
    | _, _ =>
      if is_t i64_is_zero vg then Some (MDone s f)
      else if is_t i64_is_nan vf || is_t i64_is_nan vg then done_val_c tcap s i64_nan
      else Some (MBin MSub f g)
    end
  | MMul =>
    match vf, vg with
    | MT a, MT b => done_val_c tcap s (i64_mul a b)
    | _, _ =>
      if is_t i64_is_one vf then Some (MDone s g)
      else if is_t i64_is_one vg then Some (MDone s f)
      else if is_t i64_is_nan vf || is_t i64_is_nan vg then done_val_c tcap s i64_nan
      else if gt f g then Some (MBin MMul g f)
      else Some (MBin MMul f g)
    end
  | MDiv =>
    match vf, vg with
    | MT a, MT b => done_val_c tcap s (i64_div a b)
    | _, _ =>
      if is_t i64_is_one vg then Some (MDone s f)
      else if is_t i64_is_nan vf || is_t i64_is_nan vg then done_val_c tcap s i64_nan
      else Some (MBin MDiv f g)
    end
  | MMin =>
    if ref_eqb f g then Some (MDone s f) else
    match vf, vg with
    | MT a, MT b =>
      match i64_partial_cmp a b with
      | Some Lt | Some Eq => Some (MDone s f)
      | Some Gt => Some (MDone s g)
      | None => done_val_c tcap s i64_nan
      end
    | _, _ =>
      if is_t i64_is_nan vf || is_t i64_is_nan vg then done_val_c tcap s i64_nan
      else if gt f g then Some (MBin MMin g f)
      else Some (MBin MMin f g)
    end
  | MMax =>
    if ref_eqb f g then Some (MDone s f) else
    match vf, vg with
    | MT a, MT b =>
      match i64_partial_cmp a b with
      | Some Gt | Some Eq => Some (MDone s f)
      | Some Lt => Some (MDone s g)
      | None => done_val_c tcap s i64_nan
      end
    | _, _ =>
      if is_t i64_is_nan vf || is_t i64_is_nan vg then done_val_c tcap s i64_nan
      else if gt f g then Some (MBin MMax g f)
      else Some (MBin MMax f g)
    end
  end.

End TB.

Section Bounded.
(** the edge order, the cache, as in DD/ApplyMtbdd.v *)
Variable gt : ref -> ref -> bool.
Variable C : Type.
Variable cget : C -> N -> list ref -> option ref.
Variable cadd : C -> N -> list ref -> ref -> C.
(** capacities of the inner-node store and of the terminal store *)
Variable cap : nat.
Variable tcap : nat.

Definition mres_c : Type := gres C ref.

(** [let t = EdgeDropGuard::new(manager, rec(..)?); let e = EdgeDropGuard::new(manager, rec(..)?);
     let h = reduce(manager, level, t.into_edge(), e.into_edge(), op)?;
     manager.apply_cache().add(manager, op, key, h.borrowed()); Ok(h)]
    - the common tail of [apply_bin], [apply_ite] and [restrict] (sequential:
    [gjoin2 false]) *)
Definition mt_step_c (r1 : mres_c) (run2 : snap -> C -> mres_c) (lvl : nat) (code : N) (key : list ref)
  : mres_c :=
  gjoin2 false r1 run2
    (fun s2 c2 t e =>
       gfin s2 c2 (mk_node_cap cap s2 lvl [E t; E e]) (fun h => cadd c2 code key (eref h)) (fun h => eref h)).

(** [apply_bin::<OP>]: [terminal_bin::<OP>(manager, &f, &g)?] first *)
Fixpoint mt_apply_bin_c (fuel : nat) (s : snap) (c : C) (op : mop) (f g : ref) : mres_c :=
  match fuel with
  | O => GStuck
  | S n =>
    match mt_view s f, mt_view s g with
    | Some vf, Some vg =>
      match mt_tb_c tcap gt s op f g vf vg with
      | None => GOom s c                                   (* the [?] after [terminal_bin] *)
      | Some (MDone s' h) => GOk s' c h
      | Some (MBin o a b) =>
        match cget c (mop_code o) [a; b] with
        | Some h => GOk s c h
        | None =>
          match omin (olevel vf) (olevel vg) with
          | None => GStuck                                 (* both terminals: [unwrap_inner] would panic *)
          | Some lvl =>
            match mt_cof f vf lvl, mt_cof g vg lvl with
            | Some (f0, f1), Some (g0, g1) =>
              mt_step_c (mt_apply_bin_c n s c op f0 g0) (fun s1 c1 => mt_apply_bin_c n s1 c1 op f1 g1)
                        lvl (mop_code o) [a; b]
            | _, _ => GStuck
            end
          end
        end
      end
    | _, _ => GStuck
    end
  end.

(** [apply_ite]: no terminal is created; only [reduce(..)?] can fail *)
Fixpoint mt_apply_ite_c (fuel : nat) (s : snap) (c : C) (f g h : ref) : mres_c :=
  match fuel with
  | O => GStuck
  | S n =>
    if ref_eqb g h then GOk s c g
    else
      match mt_view s f with
      | None => GStuck
      | Some (MT t) => GOk s c (if i64_is_zero t then h else g)
      | Some (MI fnode) =>
        match cget c mcode_ite [f; g; h] with
        | Some r => GOk s c r
        | None =>
          match mt_view s g, mt_view s h with
          | Some vg, Some vh =>
            match omin (omin (Some (nstored fnode)) (olevel vg)) (olevel vh) with
            | None => GStuck
            | Some lvl =>
              match cof2 f fnode lvl, mt_cof g vg lvl, mt_cof h vh lvl with
              | Some (ft, fe), Some (gt', ge), Some (ht, he) =>
                mt_step_c (mt_apply_ite_c n s c ft gt' ht) (fun s1 c1 => mt_apply_ite_c n s1 c1 fe ge he)
                          lvl mcode_ite [f; g; h]
              | _, _, _ => GStuck
              end
            end
          | _, _ => GStuck
          end
        end
      end
  end.

(** [restrict]; its tail-recursive [inner] ([mt_restrict_inner] of
    DD/ApplyMtbdd.v) allocates nothing and is reused unchanged *)
Fixpoint mt_restrict_c (fuel : nat) (s : snap) (c : C) (f vars : ref) : mres_c :=
  match fuel with
  | O => GStuck
  | S n =>
    match mt_view s f, mt_view s vars with
    | Some (MI fnode), Some (MI vnode) =>
      match mt_restrict_inner (rin_fuel s) s f fnode (nstored fnode) vars vnode with
      | None => GStuck
      | Some (RDone r) => GOk s c r
      | Some (RRec vars' f' fnode') =>
        match cget c mcode_restrict [f'; vars'] with
        | Some r => GOk s c r
        | None =>
          match nchildren fnode' with
          | [ft; fe] =>
            mt_step_c (mt_restrict_c n s c (eref ft) vars') (fun s1 c1 => mt_restrict_c n s1 c1 (eref fe) vars')
                      (nstored fnode') mcode_restrict [f'; vars']
          | _ => GStuck
          end
        end
      end
    | Some _, Some _ => GOk s c f
    | _, _ => GStuck
    end
  end.

End Bounded.

(** ** Constants and variables *)

(** [constant_edge] = [manager.get_terminal(value)]; [None] = [Err(OutOfMemory)],
    the manager is untouched *)
Definition mt_const_cap (tcap : nat) (s : snap) (v : i64v) : option (snap * ref) :=
  get_terminal_cap tcap s v.

(** the three fallible steps of [var_edge] after [var_to_level]:
    [let t = EdgeDropGuard::new(.., manager.get_terminal(T::one())?);
     let e = EdgeDropGuard::new(.., manager.get_terminal(T::zero())?);
     LevelView::get_or_insert(&mut manager.level(level), InnerNode::new(level, [t, e]))]
    A failure of a later step leaves the terminals created by the earlier ones
    stored (garbage until a collection): [GOom] carries the table at the point of
    failure. *)
Definition mt_var_steps (cap tcap : nat) (s : snap) (lvl : nat) : gres unit ref :=
  gbind (gfin s tt (get_terminal_cap tcap s i64_one) (fun _ => tt) (fun t => t))
    (fun s1 _ t =>
       gbind (gfin s1 tt (get_terminal_cap tcap s1 i64_zero) (fun _ => tt) (fun e => e))
         (fun s2 _ e =>
            gfin s2 tt (get_or_insert_cap cap s2 lvl [E t; E e]) (fun _ => tt) (fun h => eref h))).

(** [var_edge]; the outer [None] = [var_to_level] panics (no such variable) *)
Definition mt_var_cap (cap tcap : nat) (s : snap) (v : nat) : option (gres unit ref) :=
  match nth_error (s_v2l s) v with
  | Some lvl => Some (mt_var_steps cap tcap s lvl)
  | None => None
  end.

(** ** The instances the correspondence run evaluates on snapshots of the real
    manager: no apply cache, standard fuel (as [bin_nc] / [ite_nc] of Mgr/Oom.v;
    without a cache the operand order [gt] is unobservable: it only decides the
    cache key) *)

Definition mbin_nc (cap tcap : nat) (s : snap) (op : mop) (f g : ref) : gres unit ref :=
  mt_apply_bin_c gt_none unit nc_get nc_add cap tcap (S (nlevels s)) s tt op f g.
Definition mite_nc (cap : nat) (s : snap) (f g h : ref) : gres unit ref :=
  mt_apply_ite_c unit nc_get nc_add cap (S (nlevels s)) s tt f g h.
Definition mrestrict_nc (cap : nat) (s : snap) (f vars : ref) : gres unit ref :=
  mt_restrict_c unit nc_get nc_add cap (S (nlevels s)) s tt f vars.
