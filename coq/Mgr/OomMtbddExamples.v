(** * Non-vacuity of the MTBDD out-of-memory statements (Mgr/OomMtbddSafe.v)

    On the concrete table [ex1] of DD/ApplyMtbddExamples.v (two variables,
    f = 3*x0 + x1; 5 inner nodes, the 4 terminals 1, 0, 3, 4), with handles on
    f, x0, x1 ([exh]), the bounded model is run ([vm_compute]) with budgets at
    which

    - (a) the NODE budget fails,
    - (b) the TERMINAL budget fails although the nodes would fit,
    - (c) both suffice: the result is the result of the unbounded run,
    - (d) a failure leaves garbage behind (a node, a terminal, or both, created
      before the step that failed); the table still passes [mt_ok_b] and every
      node / terminal that existed is unchanged,

    for [apply_bin] (add, mul), [apply_ite], [restrict], [var_edge] and
    [constant_edge]; and the hypotheses of the [moom_*] theorems are instantiated
    on [exh]. *)

From Coq Require Import List NArith ZArith PArith Bool Arith Lia FMapPositive.
From OxiVerif Require Import DD.Table DD.TableProofs DD.Sem DD.Build DD.BuildProofs
  DD.Apply DD.ApplyProofs DD.ApplyMtbdd DD.ApplyMtbddBase DD.ApplyMtbddProofs
  DD.ApplyMtbddIte DD.ApplyMtbddRestrict DD.ApplyMtbddTop DD.ApplyMtbddExamples Num.I64 Num.I64Proofs
  Mgr.Oom Mgr.OomProofs.
From OxiVerif Require Import Mgr.OomGen Mgr.OomGenProofs.
From OxiVerif Require Import Mgr.OomMtbdd Mgr.OomMtbddProofs Mgr.OomMtbddSafe.
Import ListNotations.

(** [ex1] with handles on f, x0 and x1 *)
Definition exh : snap :=
  mkSnap (s_kind ex1) (s_nodes ex1) (s_terms ex1) (s_v2l ex1) (s_l2v ex1)
         [(0%N, E ex_f); (1%N, E ex_x0); (2%N, E ex_x1)].

Example exh_ok : MtOK exh.
Proof. apply mt_ok_b_spec. vm_compute. reflexivity. Qed.

Example exh_counts : node_count exh = 5 /\ term_count exh = 4 /\
  map (fun p : N * N => decode (snd p)) (s_terms exh) = [INum 4; INum 3; INum 0; INum 1].
Proof. vm_compute. repeat split; reflexivity. Qed.

Example exh_state : MtOK exh /\ node_count exh = 5 /\ term_count exh = 4.
Proof. split; [exact exh_ok|]. destruct exh_counts as [A [B _]]. split; assumption. Qed.

Example exh_refs : ref_ok exh ex_f /\ ref_ok exh ex_x0 /\ ref_ok exh ex_x1 /\ Cube exh ex_x1 [(1, true)].
Proof.
  split; [vm_compute; eexists; reflexivity|]. split; [vm_compute; eexists; reflexivity|].
  split; [vm_compute; eexists; reflexivity|].
  apply (cube_lits_sound exh exh_ok 3). vm_compute. reflexivity.
Qed.

(** what the correspondence run compares: outcome code, (stored nodes, stored
    terminals, invariant) of the table left behind, result *)
Definition summ (r : gres unit ref) : nat * option (nat * nat * bool) * option ref :=
  (gres_code r,
   match gres_snap r with Some s => Some (node_count s, term_count s, mt_ok_b s) | None => None end,
   gres_val r).

Fixpoint edges_eqb (a b : list edge) : bool :=
  match a, b with
  | [], [] => true
  | x :: r, y :: r' => edge_eqb x y && edges_eqb r r'
  | _, _ => false
  end.

(** every node and every terminal of [s] is in [s'], unchanged *)
Definition kept_b (s s' : snap) : bool :=
  forallb (fun p : positive * node =>
             match find_node s' (fst p) with
             | Some nd => Nat.eqb (nlevel nd) (nlevel (snd p)) &&
                          edges_eqb (nchildren nd) (nchildren (snd p))
             | None => false
             end) (PositiveMap.elements (s_nodes s))
  && forallb (fun p : N * N => match term_val s' (fst p) with Some c => N.eqb c (snd p) | None => false end)
             (s_terms s).

(** value table of the result of a bounded run *)
Definition gvt (r : gres unit ref) : list (option i64v) :=
  match r with GOk s _ x => vt s x | _ => [] end.

(** ** [apply_bin]: f + x0 = 4*x0 + x1 needs 2 new nodes and 1 new terminal (5) *)

(** (c) both budgets suffice: exactly the unbounded result *)
Example ex_add_ok :
  summ (mbin_nc 7 5 exh MAdd ex_f ex_x0) = (0, Some (7, 5, true), Some (RN 8)) /\
  gvt (mbin_nc 7 5 exh MAdd ex_f ex_x0) = [Some (INum 0); Some (INum 4); Some (INum 1); Some (INum 5)] /\
  match mbin_nc 7 5 exh MAdd ex_f ex_x0,
        mt_apply_bin gt_none unit nc_get nc_add (S (nlevels exh)) exh tt MAdd ex_f ex_x0 with
  | GOk s _ r, Some (su, _, ru) =>
    r = ru /\ PositiveMap.elements (s_nodes s) = PositiveMap.elements (s_nodes su) /\ s_terms s = s_terms su
  | _, _ => False
  end.
Proof. vm_compute. repeat split; reflexivity. Qed.

(** (a) the node budget fails; the store is full from the start: no node is
    created, but the terminal 5 = 4 + 1 computed before the failing [reduce]
    stays behind (d) *)
Example ex_add_node_budget :
  summ (mbin_nc 5 100 exh MAdd ex_f ex_x0) = (1, Some (5, 5, true), None) /\
  match gres_snap (mbin_nc 5 100 exh MAdd ex_f ex_x0) with
  | Some s' => kept_b exh s' = true /\
               map (fun p : N * N => decode (snd p)) (s_terms s') = [INum 5; INum 4; INum 3; INum 0; INum 1]
  | None => False
  end.
Proof. vm_compute. repeat split; reflexivity. Qed.

(** (a) + (d) one free slot: the node (x1 ? 5 : 4) is created, the root fails;
    the new node and the new terminal are garbage, the old table is unchanged *)
Example ex_add_node_budget_garbage :
  summ (mbin_nc 6 100 exh MAdd ex_f ex_x0) = (1, Some (6, 5, true), None) /\
  match gres_snap (mbin_nc 6 100 exh MAdd ex_f ex_x0) with
  | Some s' => kept_b exh s' = true /\ s_handles s' = s_handles exh
  | None => False
  end.
Proof. vm_compute. repeat split; reflexivity. Qed.

(** (b) the terminal budget fails although 100 node slots are free: nothing
    was created *)
Example ex_add_term_budget :
  summ (mbin_nc 100 4 exh MAdd ex_f ex_x0) = (1, Some (5, 4, true), None) /\
  summ (mbin_nc 7 4 exh MAdd ex_f ex_x0) = (1, Some (5, 4, true), None).
Proof. vm_compute. split; reflexivity. Qed.

(** f * f needs the two new terminals 9 and 16: with one free terminal slot the
    first one is created and stays behind when the second one fails (d) *)
Example ex_mul_term_garbage :
  summ (mbin_nc 100 6 exh MMul ex_f ex_f) = (0, Some (7, 6, true), Some (RN 8)) /\
  summ (mbin_nc 100 5 exh MMul ex_f ex_f) = (1, Some (5, 5, true), None) /\
  match gres_snap (mbin_nc 100 5 exh MMul ex_f ex_f) with
  | Some s' => kept_b exh s' = true /\ term_count s' = S (term_count exh)
  | None => False
  end.
Proof. vm_compute. repeat split; reflexivity. Qed.

(** the whole sweep of both budgets for f + x0: success iff cap >= 7 and tcap >= 5 *)
Example ex_add_sweep :
  forallb (fun cap => forallb (fun tcap =>
     Nat.eqb (gres_code (mbin_nc cap tcap exh MAdd ex_f ex_x0))
             (if Nat.leb 7 cap && Nat.leb 5 tcap then 0 else 1)) (seq 0 8)) (seq 0 10) = true.
Proof. vm_compute. reflexivity. Qed.

(** ** [apply_ite]: ite(x1, f, x0) = x0 ? (x1 ? 4 : 1) : x1 needs 2 new nodes, no terminal *)

Example ex_ite :
  summ (mite_nc 7 exh ex_x1 ex_f ex_x0) = (0, Some (7, 4, true), Some (RN 8)) /\
  gvt (mite_nc 7 exh ex_x1 ex_f ex_x0) = [Some (INum 0); Some (INum 1); Some (INum 1); Some (INum 4)] /\
  summ (mite_nc 6 exh ex_x1 ex_f ex_x0) = (1, Some (6, 4, true), None) /\
  summ (mite_nc 5 exh ex_x1 ex_f ex_x0) = (1, Some (5, 4, true), None) /\
  match gres_snap (mite_nc 6 exh ex_x1 ex_f ex_x0) with
  | Some s' => kept_b exh s' = true
  | None => False
  end.
Proof. vm_compute. repeat split; reflexivity. Qed.

(** ** [restrict]: f with x1 := 1 = x0 ? 4 : 1 needs 1 new node *)

Example ex_restrict :
  summ (mrestrict_nc 6 exh ex_f ex_x1) = (0, Some (6, 4, true), Some (RN 7)) /\
  gvt (mrestrict_nc 6 exh ex_f ex_x1) = [Some (INum 1); Some (INum 4); Some (INum 1); Some (INum 4)] /\
  summ (mrestrict_nc 5 exh ex_f ex_x1) = (1, Some (5, 4, true), None).
Proof. vm_compute. repeat split; reflexivity. Qed.

(** ** [var_edge] on the empty manager [ex0]: two terminals, then one node *)

Definition vsumm (o : option (gres unit ref)) := match o with Some r => Some (summ r) | None => None end.

Example ex_var :
  (* enough of both *)
  vsumm (mt_var_cap 1 2 ex0 0) = Some (0, Some (1, 2, true), Some (RN 2)) /\
  (* no terminal slot: [get_terminal(one)?] fails, nothing created *)
  vsumm (mt_var_cap 1 0 ex0 0) = Some (1, Some (0, 0, true), None) /\
  (* one terminal slot: the terminal 1 is created, [get_terminal(zero)?] fails (d) *)
  vsumm (mt_var_cap 1 1 ex0 0) = Some (1, Some (0, 1, true), None) /\
  (* no node slot: both terminals are created, [get_or_insert] fails (a) + (d) *)
  vsumm (mt_var_cap 0 2 ex0 0) = Some (1, Some (0, 2, true), None) /\
  (* the variable exists already: nothing is needed *)
  vsumm (mt_var_cap 0 0 exh 0) = Some (0, Some (5, 4, true), Some (RN 2)) /\
  (* no such variable: [var_to_level] panics *)
  mt_var_cap 1 2 ex0 5 = None.
Proof. vm_compute. repeat split; reflexivity. Qed.

(** ** [constant_edge] *)

Example ex_const :
  (* a stored value is found whatever the capacity *)
  (match mt_const_cap 0 exh (INum 3) with Some (s', r) => r = RT 3 /\ term_count s' = 4 | None => False end) /\
  (* a new value with a full store: [Err(OutOfMemory)] *)
  mt_const_cap 4 exh (INum 7) = None /\
  (* with a free slot *)
  (match mt_const_cap 5 exh (INum 7) with Some (s', r) => r = RT 5 /\ term_count s' = 5 /\ mt_ok_b s' = true
                                    | None => False end).
Proof. vm_compute. repeat split; reflexivity. Qed.

(** ** The theorems of Mgr/OomMtbddSafe.v apply to [exh] *)

(** the failed addition with one free node slot: [moom_safe_bin] gives the full
    description of the state left behind *)
Example ex_safe_instance :
  exists s' c', mbin_nc 6 100 exh MAdd ex_f ex_x0 = GOom s' c' /\
    mfailed_ok unit nc_get 6 100 exh s' c' /\ node_count s' = 6 /\ term_count s' = 5.
Proof.
  destruct (mbin_nc 6 100 exh MAdd ex_f ex_x0) as [s' c' r|s' c'|] eqn:E;
    [vm_compute in E; discriminate | | vm_compute in E; discriminate].
  exists s', c'. split; [reflexivity|]. destruct exh_refs as [Hf [Hx0 _]].
  split.
  - apply (moom_safe_bin gt_none unit nc_get nc_add nc_lossy 6 100 MAdd (S (nlevels exh)) exh tt ex_f ex_x0 s' c'
             exh_ok (mnc_ok exh tt) Hf Hx0 (le_n _) E).
  - assert (Es : gres_snap (mbin_nc 6 100 exh MAdd ex_f ex_x0) = Some s') by (rewrite E; reflexivity).
    vm_compute in Es. inversion Es; subst s'. vm_compute. split; reflexivity.
Qed.

(** exactness on [exh]: the table of the unbounded run has 7 nodes and 5 terminals *)
Example ex_add_unbounded_counts :
  match mt_apply_bin gt_none unit nc_get nc_add (S (nlevels exh)) exh tt MAdd ex_f ex_x0 with
  | Some (s, _, _) => node_count s = 7 /\ term_count s = 5
  | None => False
  end.
Proof. vm_compute. split; reflexivity. Qed.

Example ex_exact_instance : forall cap tcap,
  exists su cu ru,
    mt_apply_bin gt_none unit nc_get nc_add (S (nlevels exh)) exh tt MAdd ex_f ex_x0 = Some (su, cu, ru) /\
    node_count su = 7 /\ term_count su = 5 /\
    mexact unit nc_get cap tcap exh (mbin_nc cap tcap exh MAdd ex_f ex_x0) su cu ru.
Proof.
  intros cap tcap. destruct exh_refs as [Hf [Hx0 _]].
  destruct (moom_exact_bin gt_none unit nc_get nc_add nc_lossy cap tcap MAdd (S (nlevels exh)) exh tt ex_f ex_x0
              exh_ok (mnc_ok exh tt) Hf Hx0 (le_n _)) as [su [cu [ru [Eu [_ X]]]]].
  exists su, cu, ru. split; [exact Eu|].
  pose proof ex_add_unbounded_counts as Es. rewrite Eu in Es. destruct Es as [Hn Ht].
  split; [exact Hn|]. split; [exact Ht | exact X].
Qed.

(** ... hence: the bounded addition on [exh] succeeds iff cap >= 7 and tcap >= 5
    (a theorem instance, not a computation: for ALL capacities) *)
Example ex_exact_consequence : forall cap tcap,
  (7 <= cap /\ 5 <= tcap -> gres_code (mbin_nc cap tcap exh MAdd ex_f ex_x0) = 0) /\
  (cap < 7 \/ tcap < 5 -> gres_code (mbin_nc cap tcap exh MAdd ex_f ex_x0) = 1).
Proof.
  intros cap tcap. destruct (ex_exact_instance cap tcap) as [su [cu [ru [_ [Hn [Ht [A B]]]]]]].
  destruct exh_counts as [Cn [Ct _]]. rewrite Hn, Ht, Cn, Ct in *. split.
  - intros [H1 H2]. rewrite A by lia. reflexivity.
  - intros Hs. destruct B as [s' [c' [-> _]]]; [lia | reflexivity].
Qed.
