(** * Out-of-memory behaviour of the MTBDD apply algorithms (Mgr/OomMtbdd.v), part 1

    Facts that need no invariant (every table, cache, fuel, operand order and
    both capacities): [mt_*_sim] - the generic refinement [sim] of
    Mgr/OomGenProofs.v instantiated with the TWO budgets of an MTBDD manager:
    inner nodes ([node_count], capacity [cap]) and terminals ([term_count],
    capacity [tcap]):

    - when the bounded algorithm returns [GOk s' c' r] the unbounded algorithm
      of DD/ApplyMtbdd.v returns literally [Some (s', c', r)], and at most [cap]
      nodes / [tcap] terminals are stored unless no node / terminal was added;
    - when it returns [GOom s' c'] no node and no terminal has disappeared and
      one of the two stores is full;
    - when the unbounded algorithm returns a table that fits both budgets, the
      bounded one returns exactly that result.

    The invariant-dependent part is in Mgr/OomMtbddSafe.v. *)

From Coq Require Import List NArith ZArith PArith Bool Arith Lia FMapPositive.
From OxiVerif Require Import DD.Table DD.TableProofs DD.Sem DD.Build DD.BuildProofs
  DD.Apply DD.ApplyMtbdd DD.ApplyMtbddBase DD.ApplyMtbddProofs DD.ApplyMtbddIte DD.ApplyMtbddRestrict
  Num.I64 Mgr.Oom Mgr.OomProofs.
From OxiVerif Require Import Mgr.OomGen Mgr.OomGenProofs.
From OxiVerif Require Import Mgr.OomMtbdd.
Import ListNotations.

(** ** The second resource: the number of stored terminals *)

Lemma term_count_terms : forall s s' : snap, s_terms s' = s_terms s -> term_count s' = term_count s.
Proof. intros s s' E. unfold term_count. rewrite E. reflexivity. Qed.

Lemma term_count_set_terms : forall s l, term_count (set_terms s l) = length l.
Proof. reflexivity. Qed.

(** the terminal store does not touch the node store *)
Lemma node_count_set_terms : forall s l, node_count (set_terms s l) = node_count s.
Proof. reflexivity. Qed.

(** [get_terminal] adds at most one terminal and no node *)
Lemma get_terminal_counts : forall s v s' r, get_terminal s v = (s', r) ->
  node_count s' = node_count s /\
  (term_count s' = term_count s \/ term_count s' = S (term_count s)).
Proof.
  intros s v s' r. unfold get_terminal.
  destruct (rassoc_N (s_terms s) (code v)); intros E; inversion E; subst; clear E.
  - auto.
  - rewrite node_count_set_terms, term_count_set_terms. simpl. auto.
Qed.

Lemma get_terminal_cap_some : forall tcap s v x, get_terminal_cap tcap s v = Some x ->
  x = get_terminal s v /\ term_count (fst x) <= Nat.max tcap (term_count s).
Proof.
  intros tcap s v x. unfold get_terminal_cap, get_terminal.
  destruct (rassoc_N (s_terms s) (code v)) as [t|].
  - intros E. inversion E; subst. simpl. split; [reflexivity | lia].
  - destruct (Nat.ltb_spec (term_count s) tcap) as [Hlt|Hge]; [|discriminate].
    intros E. inversion E; subst. split; [reflexivity|].
    simpl fst. rewrite term_count_set_terms. simpl. unfold term_count in *. lia.
Qed.

(** a failure: the value is new, all [tcap] slots are in use *)
Lemma get_terminal_cap_none : forall tcap s v, get_terminal_cap tcap s v = None ->
  rassoc_N (s_terms s) (code v) = None /\ tcap <= term_count s.
Proof.
  intros tcap s v. unfold get_terminal_cap.
  destruct (rassoc_N (s_terms s) (code v)) as [t|]; [discriminate|].
  destruct (Nat.ltb_spec (term_count s) tcap) as [Hlt|Hge]; [discriminate|].
  intros _. split; [reflexivity | exact Hge].
Qed.

(** [Err(OutOfMemory)] iff the value is new and the store is full (the shape of
    [C05_term_get_oom_iff]) *)
Theorem get_terminal_cap_oom_iff : forall tcap s v,
  get_terminal_cap tcap s v = None <->
  rassoc_N (s_terms s) (code v) = None /\ tcap <= term_count s.
Proof.
  intros tcap s v. split; [apply get_terminal_cap_none|].
  intros [E Hge]. unfold get_terminal_cap. rewrite E.
  destruct (Nat.ltb_spec (term_count s) tcap); [lia | reflexivity].
Qed.

(** a stored value is found whatever the capacity *)
Lemma get_terminal_cap_found : forall tcap s v t, rassoc_N (s_terms s) (code v) = Some t ->
  get_terminal_cap tcap s v = Some (s, RT t) /\ get_terminal s v = (s, RT t).
Proof. intros tcap s v t E. unfold get_terminal_cap, get_terminal. rewrite E. auto. Qed.

Section Sim.
Variable gt : ref -> ref -> bool.
Variable C : Type.
Variable cget : C -> N -> list ref -> option ref.
Variable cadd : C -> N -> list ref -> ref -> C.
Variable cap : nat.
Variable tcap : nat.

Notation SIM := (sim C term_count cap tcap).
Notation LEAF := (leaf_rel term_count cap tcap).

(** ** Leaves *)

Lemma get_terminal_leaf : forall s v, LEAF s (get_terminal_cap tcap s v) (get_terminal s v).
Proof.
  intros s v. unfold get_terminal_cap, get_terminal.
  destruct (rassoc_N (s_terms s) (code v)) as [t|]; [apply leaf_same|].
  split.
  - simpl. rewrite node_count_set_terms, term_count_set_terms. simpl. unfold term_count. lia.
  - destruct (Nat.ltb_spec (term_count s) tcap) as [Hlt|Hge]; simpl;
      rewrite node_count_set_terms, term_count_set_terms; simpl; unfold term_count in *.
    + split; [reflexivity | lia].
    + split; [right; exact Hge | lia].
Qed.

Lemma mk_node_leaf_m : forall s lvl ch, LEAF s (mk_node_cap cap s lvl ch) (mk_node s lvl ch).
Proof. intros. apply mk_node_leaf. exact term_count_terms. Qed.

Lemma goi_leaf_m : forall s lvl ch, LEAF s (get_or_insert_cap cap s lvl ch) (get_or_insert s lvl ch).
Proof. intros. apply goi_leaf. exact term_count_terms. Qed.

(** ** [terminal_bin]: the bounded version against [mt_tb] *)

(** the finished result, if any, as a leaf outcome *)
Definition tb_done (oc : option (snap * ref)) : option mtb_res :=
  match oc with Some (s', r) => Some (MDone s' r) | None => None end.

(** [oc] = outcome of the bounded [terminal_bin], [u] = result of [mt_tb]: the
    normalised triple is the same and cannot fail; a finished result is a leaf
    (an existing edge, or [get_terminal(..)?]) *)
Definition tb_rel (s : snap) (oc : option mtb_res) (u : mtb_res) : Prop :=
  match u with
  | MBin o a b => oc = Some (MBin o a b)
  | MDone s' r => exists o, oc = tb_done o /\ LEAF s o (s', r)
  end.

Lemma tb_rel_here : forall s r, tb_rel s (Some (MDone s r)) (MDone s r).
Proof. intros s r. exists (Some (s, r)). split; [reflexivity | apply leaf_same]. Qed.

Lemma tb_rel_val : forall s v, tb_rel s (done_val_c tcap s v) (done_val s v).
Proof.
  intros s v. unfold done_val_c, done_val. pose proof (get_terminal_leaf s v) as L.
  destruct (get_terminal s v) as [s' r]. exists (get_terminal_cap tcap s v). split; [|exact L].
  destruct (get_terminal_cap tcap s v) as [[s2 r2]|]; reflexivity.
Qed.

Lemma tb_rel_bin : forall s o a b, tb_rel s (Some (MBin o a b)) (MBin o a b).
Proof. reflexivity. Qed.

Ltac tb_arm :=
  repeat match goal with
  | |- tb_rel _ (Some (MDone ?s ?r)) (MDone ?s ?r) => apply tb_rel_here
  | |- tb_rel _ (done_val_c _ _ _) (done_val _ _) => apply tb_rel_val
  | |- tb_rel _ (Some (MBin _ _ _)) (MBin _ _ _) => apply tb_rel_bin
  | |- tb_rel _ (if ?b then _ else _) (if ?b then _ else _) => destruct b
  | |- tb_rel _ (match ?x with Some _ => _ | None => _ end) (match ?x with Some _ => _ | None => _ end) =>
      destruct x as [[| |]|]
  end.

Theorem mt_tb_rel : forall s op f g vf vg,
  tb_rel s (mt_tb_c tcap gt s op f g vf vg) (mt_tb gt s op f g vf vg).
Proof.
  intros s op f g vf vg. destruct op; unfold mt_tb_c, mt_tb;
    destruct vf as [nf|a], vg as [ng|b]; tb_arm.
Qed.

(** ** Unfolding lemmas: the unbounded algorithms have the [ujoin2]/[ufin] shape *)

(** the common tail of the three unbounded algorithms *)
Definition mt_step_u (u1 : option (snap * C * ref)) (urun2 : snap -> C -> option (snap * C * ref))
    (lvl : nat) (code : N) (key : list ref) : option (snap * C * ref) :=
  ujoin2 u1 urun2
    (fun s2 c2 t e => ufin (mk_node s2 lvl [E t; E e]) (fun h => cadd c2 code key (eref h)) (fun h => eref h)).

Lemma mt_apply_bin_U : forall n s c op f g,
  mt_apply_bin gt C cget cadd (S n) s c op f g =
  match mt_view s f, mt_view s g with
  | Some vf, Some vg =>
    match mt_tb gt s op f g vf vg with
    | MDone s' h => Some (s', c, h)
    | MBin o a b =>
      match cget c (mop_code o) [a; b] with
      | Some h => Some (s, c, h)
      | None =>
        match omin (olevel vf) (olevel vg) with
        | None => None
        | Some lvl =>
          match mt_cof f vf lvl, mt_cof g vg lvl with
          | Some (f0, f1), Some (g0, g1) =>
            mt_step_u (mt_apply_bin gt C cget cadd n s c op f0 g0)
                      (fun s1 c1 => mt_apply_bin gt C cget cadd n s1 c1 op f1 g1)
                      lvl (mop_code o) [a; b]
          | _, _ => None
          end
        end
      end
    end
  | _, _ => None
  end.
Proof. reflexivity. Qed.

Lemma mt_apply_ite_U : forall n s c f g h,
  mt_apply_ite C cget cadd (S n) s c f g h =
    if ref_eqb g h then Some (s, c, g)
    else
      match mt_view s f with
      | None => None
      | Some (MT t) => Some (s, c, if i64_is_zero t then h else g)
      | Some (MI fnode) =>
        match cget c mcode_ite [f; g; h] with
        | Some r => Some (s, c, r)
        | None =>
          match mt_view s g, mt_view s h with
          | Some vg, Some vh =>
            match omin (omin (Some (nstored fnode)) (olevel vg)) (olevel vh) with
            | None => None
            | Some lvl =>
              match cof2 f fnode lvl, mt_cof g vg lvl, mt_cof h vh lvl with
              | Some (ft, fe), Some (gt', ge), Some (ht, he) =>
                mt_step_u (mt_apply_ite C cget cadd n s c ft gt' ht)
                          (fun s1 c1 => mt_apply_ite C cget cadd n s1 c1 fe ge he)
                          lvl mcode_ite [f; g; h]
              | _, _, _ => None
              end
            end
          | _, _ => None
          end
        end
      end.
Proof. reflexivity. Qed.

Lemma mt_restrict_U : forall n s c f vars,
  mt_restrict C cget cadd (S n) s c f vars =
    match mt_view s f, mt_view s vars with
    | Some (MI fnode), Some (MI vnode) =>
      match mt_restrict_inner (rin_fuel s) s f fnode (nstored fnode) vars vnode with
      | None => None
      | Some (RDone r) => Some (s, c, r)
      | Some (RRec vars' f' fnode') =>
        match cget c mcode_restrict [f'; vars'] with
        | Some r => Some (s, c, r)
        | None =>
          match nchildren fnode' with
          | [ft; fe] =>
            mt_step_u (mt_restrict C cget cadd n s c (eref ft) vars')
                      (fun s1 c1 => mt_restrict C cget cadd n s1 c1 (eref fe) vars')
                      (nstored fnode') mcode_restrict [f'; vars']
          | _ => None
          end
        end
      end
    | Some _, Some _ => Some (s, c, f)
    | _, _ => None
    end.
Proof. reflexivity. Qed.

Lemma mt_apply_bin_c_S : forall n s c op f g,
  mt_apply_bin_c gt C cget cadd cap tcap (S n) s c op f g =
  match mt_view s f, mt_view s g with
  | Some vf, Some vg =>
    match mt_tb_c tcap gt s op f g vf vg with
    | None => GOom s c
    | Some (MDone s' h) => GOk s' c h
    | Some (MBin o a b) =>
      match cget c (mop_code o) [a; b] with
      | Some h => GOk s c h
      | None =>
        match omin (olevel vf) (olevel vg) with
        | None => GStuck
        | Some lvl =>
          match mt_cof f vf lvl, mt_cof g vg lvl with
          | Some (f0, f1), Some (g0, g1) =>
            mt_step_c C cadd cap (mt_apply_bin_c gt C cget cadd cap tcap n s c op f0 g0)
                      (fun s1 c1 => mt_apply_bin_c gt C cget cadd cap tcap n s1 c1 op f1 g1)
                      lvl (mop_code o) [a; b]
          | _, _ => GStuck
          end
        end
      end
    end
  | _, _ => GStuck
  end.
Proof. reflexivity. Qed.

Lemma mt_apply_ite_c_S : forall n s c f g h,
  mt_apply_ite_c C cget cadd cap (S n) s c f g h =
    if ref_eqb g h then GOk s c g
    else
      match mt_view s f with
      | None => GStuck
      | Some (MT t) => GOk s c (if i64_is_zero t then h else g)
      | Some (MI fnode) =>
        match cget c mcode_ite [f; g; h] with
        | Some r => GOk s c r
        | None =>
          match mt_view s g, mt_view s h with
          | Some vg, Some vh =>
            match omin (omin (Some (nstored fnode)) (olevel vg)) (olevel vh) with
            | None => GStuck
            | Some lvl =>
              match cof2 f fnode lvl, mt_cof g vg lvl, mt_cof h vh lvl with
              | Some (ft, fe), Some (gt', ge), Some (ht, he) =>
                mt_step_c C cadd cap (mt_apply_ite_c C cget cadd cap n s c ft gt' ht)
                          (fun s1 c1 => mt_apply_ite_c C cget cadd cap n s1 c1 fe ge he)
                          lvl mcode_ite [f; g; h]
              | _, _, _ => GStuck
              end
            end
          | _, _ => GStuck
          end
        end
      end.
Proof. reflexivity. Qed.

Lemma mt_restrict_c_S : forall n s c f vars,
  mt_restrict_c C cget cadd cap (S n) s c f vars =
    match mt_view s f, mt_view s vars with
    | Some (MI fnode), Some (MI vnode) =>
      match mt_restrict_inner (rin_fuel s) s f fnode (nstored fnode) vars vnode with
      | None => GStuck
      | Some (RDone r) => GOk s c r
      | Some (RRec vars' f' fnode') =>
        match cget c mcode_restrict [f'; vars'] with
        | Some r => GOk s c r
        | None =>
          match nchildren fnode' with
          | [ft; fe] =>
            mt_step_c C cadd cap (mt_restrict_c C cget cadd cap n s c (eref ft) vars')
                      (fun s1 c1 => mt_restrict_c C cget cadd cap n s1 c1 (eref fe) vars')
                      (nstored fnode') mcode_restrict [f'; vars']
          | _ => GStuck
          end
        end
      end
    | Some _, Some _ => GOk s c f
    | _, _ => GStuck
    end.
Proof. reflexivity. Qed.

(** ** The walks *)

Lemma mt_step_sim : forall s (r1 : mres_c C) u1 (run2 : snap -> C -> mres_c C) urun2 lvl code key,
  SIM s r1 u1 -> (forall s1 c1, SIM s1 (run2 s1 c1) (urun2 s1 c1)) ->
  SIM s (mt_step_c C cadd cap r1 run2 lvl code key) (mt_step_u u1 urun2 lvl code key).
Proof.
  intros s r1 u1 run2 urun2 lvl code key H1 H2. unfold mt_step_c, mt_step_u.
  apply gjoin2_sim; [exact H1 | exact H2|].
  intros s2 c2 t e. apply gfin_sim. apply mk_node_leaf_m.
Qed.

(** a finished result of [terminal_bin] *)
Lemma tb_done_sim : forall s (c : C) o s' r, LEAF s o (s', r) ->
  SIM s (match tb_done o with
         | None => GOom s c
         | Some (MDone s2 h) => GOk s2 c h
         | Some (MBin _ _ _) => GStuck
         end) (Some (s', c, r)).
Proof.
  intros s c o s' r L.
  pose proof (gfin_sim C term_count cap tcap ref ref s c o (s', r) (fun _ => c) (fun h => h) L) as G.
  destruct o as [[s2 r2]|]; exact G.
Qed.

Theorem mt_apply_bin_sim : forall fuel s c op f g,
  SIM s (mt_apply_bin_c gt C cget cadd cap tcap fuel s c op f g) (mt_apply_bin gt C cget cadd fuel s c op f g).
Proof.
  induction fuel as [|n IH]; intros s c op f g; [apply sim_stuck|].
  rewrite mt_apply_bin_c_S, mt_apply_bin_U.
  destruct (mt_view s f) as [vf|]; [|apply sim_stuck].
  destruct (mt_view s g) as [vg|]; [|apply sim_stuck].
  pose proof (mt_tb_rel s op f g vf vg) as T.
  destruct (mt_tb gt s op f g vf vg) as [s' r|o a b]; simpl in T.
  - destruct T as [oc [-> L]].
    pose proof (tb_done_sim s c oc s' r L) as G.
    destruct oc as [[s2 r2]|]; exact G.
  - rewrite T.
    destruct (cget c (mop_code o) [a; b]); [apply sim_here|].
    destruct (omin (olevel vf) (olevel vg)) as [lvl|]; [|apply sim_stuck].
    destruct (mt_cof f vf lvl) as [[f0 f1]|]; [|apply sim_stuck].
    destruct (mt_cof g vg lvl) as [[g0 g1]|]; [|apply sim_stuck].
    apply mt_step_sim; [apply IH | intros; apply IH].
Qed.

Theorem mt_apply_ite_sim : forall fuel s c f g h,
  SIM s (mt_apply_ite_c C cget cadd cap fuel s c f g h) (mt_apply_ite C cget cadd fuel s c f g h).
Proof.
  induction fuel as [|n IH]; intros s c f g h; [apply sim_stuck|].
  rewrite mt_apply_ite_c_S, mt_apply_ite_U.
  destruct (ref_eqb g h); [apply sim_here|].
  destruct (mt_view s f) as [[fnode|t]|]; [| apply sim_here | apply sim_stuck].
  destruct (cget c mcode_ite [f; g; h]); [apply sim_here|].
  destruct (mt_view s g) as [vg|]; [|apply sim_stuck].
  destruct (mt_view s h) as [vh|]; [|apply sim_stuck].
  destruct (omin (omin (Some (nstored fnode)) (olevel vg)) (olevel vh)) as [lvl|]; [|apply sim_stuck].
  destruct (cof2 f fnode lvl) as [[ft fe]|]; [|apply sim_stuck].
  destruct (mt_cof g vg lvl) as [[gt' ge]|]; [|apply sim_stuck].
  destruct (mt_cof h vh lvl) as [[ht he]|]; [|apply sim_stuck].
  apply mt_step_sim; [apply IH | intros; apply IH].
Qed.

Theorem mt_restrict_sim : forall fuel s c f vars,
  SIM s (mt_restrict_c C cget cadd cap fuel s c f vars) (mt_restrict C cget cadd fuel s c f vars).
Proof.
  induction fuel as [|n IH]; intros s c f vars; [apply sim_stuck|].
  rewrite mt_restrict_c_S, mt_restrict_U.
  destruct (mt_view s f) as [[fnode|tf]|]; [| |apply sim_stuck].
  2:{ destruct (mt_view s vars) as [[vnode|tv]|]; [apply sim_here | apply sim_here | apply sim_stuck]. }
  destruct (mt_view s vars) as [[vnode|tv]|]; [| apply sim_here | apply sim_stuck].
  destruct (mt_restrict_inner (rin_fuel s) s f fnode (nstored fnode) vars vnode) as [[r|vars' f' fnode']|];
    [apply sim_here | | apply sim_stuck].
  destruct (cget c mcode_restrict [f'; vars']); [apply sim_here|].
  destruct (nchildren fnode') as [|ft [|fe [|x rest]]]; try apply sim_stuck.
  apply mt_step_sim; [apply IH | intros; apply IH].
Qed.

End Sim.

(** ** Constants and variables *)

Theorem mt_const_cap_leaf : forall cap tcap s v,
  leaf_rel term_count cap tcap s (mt_const_cap tcap s v) (mt_const s v).
Proof. intros. apply get_terminal_leaf. Qed.

(** the unbounded [var_edge] in the shape of [mt_var_steps] (cache type [unit]) *)
Definition mt_var_steps_u (s : snap) (lvl : nat) : option (snap * unit * ref) :=
  ubind (ufin (get_terminal s i64_one) (fun _ => tt) (fun t => t))
    (fun s1 _ t =>
       ubind (ufin (get_terminal s1 i64_zero) (fun _ => tt) (fun e => e))
         (fun s2 _ e => ufin (get_or_insert s2 lvl [E t; E e]) (fun _ => tt) (fun h => eref h))).

Lemma mt_var_U : forall s v,
  mt_var s v =
  match nth_error (s_v2l s) v with
  | Some lvl => match mt_var_steps_u s lvl with Some (s', _, r) => Some (s', r) | None => None end
  | None => None
  end.
Proof.
  intros s v. unfold mt_var, mt_var_steps_u, ubind, ufin.
  destruct (nth_error (s_v2l s) v) as [lvl|]; [|reflexivity].
  destruct (get_terminal s i64_one) as [s1 t].
  destruct (get_terminal s1 i64_zero) as [s2 e].
  destruct (get_or_insert s2 lvl [E t; E e]) as [s3 h]. reflexivity.
Qed.

Theorem mt_var_steps_sim : forall cap tcap s lvl,
  sim unit term_count cap tcap s (mt_var_steps cap tcap s lvl) (mt_var_steps_u s lvl).
Proof.
  intros cap tcap s lvl. unfold mt_var_steps, mt_var_steps_u.
  apply gbind_sim; [apply gfin_sim; apply get_terminal_leaf|].
  intros s1 c1 t. apply gbind_sim; [apply gfin_sim; apply get_terminal_leaf|].
  intros s2 c2 e. apply gfin_sim. apply goi_leaf_m.
Qed.

(** the unbounded [var_edge] never fails to produce a table once the variable exists *)
Lemma mt_var_steps_u_some : forall s lvl, exists s' r, mt_var_steps_u s lvl = Some (s', tt, r).
Proof.
  intros s lvl. unfold mt_var_steps_u, ubind, ufin.
  destruct (get_terminal s i64_one) as [s1 t].
  destruct (get_terminal s1 i64_zero) as [s2 e].
  destruct (get_or_insert s2 lvl [E t; E e]) as [s3 h]. eauto.
Qed.

(** ** [apply_ite] and [restrict] never touch the terminal store

    The bounded versions do not even take [tcap]; since [mt_*_sim] holds for
    EVERY terminal capacity, the result table of the unbounded run has exactly
    the terminals it started with (as many: the count is what the budget sees). *)

Lemma mt_apply_ite_terms : forall C cget cadd fuel s c f g h su cu ru,
  mt_apply_ite C cget cadd fuel s c f g h = Some (su, cu, ru) -> term_count su = term_count s.
Proof.
  intros C cget cadd fuel s c f g h su cu ru E.
  pose proof (mt_apply_ite_sim C cget cadd (node_count su) (term_count su) fuel s c f g h) as M1.
  pose proof (mt_apply_ite_sim C cget cadd (node_count su) 0 fuel s c f g h) as M0.
  rewrite E in M1, M0. destruct M1 as [_ [G F]]. simpl in G.
  assert (Eb : mt_apply_ite_c C cget cadd (node_count su) fuel s c f g h = GOk su cu ru)
    by (apply F; simpl; lia).
  rewrite Eb in M0. destruct M0 as [[_ W] _]. simpl in W. lia.
Qed.

Lemma mt_restrict_terms : forall C cget cadd fuel s c f vars su cu ru,
  mt_restrict C cget cadd fuel s c f vars = Some (su, cu, ru) -> term_count su = term_count s.
Proof.
  intros C cget cadd fuel s c f vars su cu ru E.
  pose proof (mt_restrict_sim C cget cadd (node_count su) (term_count su) fuel s c f vars) as M1.
  pose proof (mt_restrict_sim C cget cadd (node_count su) 0 fuel s c f vars) as M0.
  rewrite E in M1, M0. destruct M1 as [_ [G F]]. simpl in G.
  assert (Eb : mt_restrict_c C cget cadd (node_count su) fuel s c f vars = GOk su cu ru)
    by (apply F; simpl; lia).
  rewrite Eb in M0. destruct M0 as [[_ W] _]. simpl in W. lia.
Qed.

(** a failure of [apply_ite] / [restrict] is a failure of the NODE store *)
Lemma mt_apply_ite_oom_nodes : forall C cget cadd cap fuel s c f g h s' c',
  mt_apply_ite_c C cget cadd cap fuel s c f g h = GOom s' c' ->
  node_count s <= node_count s' /\ cap <= node_count s'.
Proof.
  intros C cget cadd cap fuel s c f g h s' c' E.
  pose proof (mt_apply_ite_sim C cget cadd cap (S (term_count s')) fuel s c f g h) as M.
  rewrite E in M. destruct M as [[G F] _]. simpl in G, F. lia.
Qed.

Lemma mt_restrict_oom_nodes : forall C cget cadd cap fuel s c f vars s' c',
  mt_restrict_c C cget cadd cap fuel s c f vars = GOom s' c' ->
  node_count s <= node_count s' /\ cap <= node_count s'.
Proof.
  intros C cget cadd cap fuel s c f vars s' c' E.
  pose proof (mt_restrict_sim C cget cadd cap (S (term_count s')) fuel s c f vars) as M.
  rewrite E in M. destruct M as [[G F] _]. simpl in G, F. lia.
Qed.
