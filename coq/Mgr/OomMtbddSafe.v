(** * Out-of-memory behaviour of the MTBDD apply algorithms (Mgr/OomMtbdd.v), part 2

    Under the invariant of the C10 theorems for MTBDDs ([MtOK], [MCacheOK],
    operands are valid references, standard fuel; [restrict]: the second operand
    is a [Cube]):

    - [mt_*_c_safe]: the bounded algorithms never get stuck, and whatever they
      return - result or out-of-memory - the table they leave is a well-formed
      MTBDD table that extends ([mext]: nodes AND terminals may have been added)
      the one they started from, with a correct cache; [apply_ite] and
      [restrict] moreover leave the number of terminals unchanged ([mext0]);
    - [intact_m]: what "extension" means for the owner of a handle;
    - [moom_*]: the C14 statements for [mt_apply_bin_c] (all six operators),
      [mt_apply_ite_c], [mt_restrict_c], [mt_const_cap], [mt_var_cap], with the
      two budgets [cap] (inner nodes) and [tcap] (terminals). *)

From Coq Require Import List NArith ZArith PArith Bool Arith Lia FMapPositive.
From OxiVerif Require Import DD.Table DD.TableProofs DD.Canon DD.Sem DD.Build DD.BuildProofs
  DD.Apply DD.ApplyProofs DD.ApplyEvalProofs DD.ApplyMtbdd DD.ApplyMtbddBase DD.ApplyMtbddProofs
  DD.ApplyMtbddIte DD.ApplyMtbddRestrict DD.ApplyMtbddTop Num.I64 Num.I64Proofs Mgr.Oom Mgr.OomProofs.
From OxiVerif Require Import Mgr.OomGen Mgr.OomGenProofs.
From OxiVerif Require Import Mgr.OomMtbdd Mgr.OomMtbddProofs.
Import ListNotations.

(** ** What an extension preserves (MTBDD: the terminal store may have grown) *)

Record intact_m (s s' : snap) : Prop := mkIntactM {
  (* handles, order, stored nodes unchanged; added nodes unreachable; live part unchanged *)
  im_base : intact0 s s';
  (* every terminal is still a terminal, with the same value *)
  im_terms : forall t c, term_val s t = Some c -> term_val s' t = Some c;
  (* every valid reference stays valid and means the same function, under every fuel *)
  im_sem : forall r, ref_ok s r -> ref_ok s' r /\ forall k c0, semk s' k r c0 = semk s k r c0;
  (* every handle has the same value under every assignment *)
  im_handle_sem : forall h, In h (s_handles s) ->
             forall c0, sem_edge s' (snd h) c0 = sem_edge s (snd h) c0
}.

Lemma next_of_mext : forall s s', mext s s' -> next s s'.
Proof.
  intros s s' X. constructor;
    [apply (mx_v2l _ _ X) | apply (mx_l2v _ _ X) | apply (mx_handles _ _ X) | apply (mx_nodes _ _ X)].
Qed.

Theorem mext_intact_m : forall s s', MtOK s -> mext s s' -> intact_m s s'.
Proof.
  intros s s' B X. pose proof (mo_wf s B) as H. constructor.
  - apply (next_intact0 s s' H (next_of_mext s s' X)).
  - apply (mx_terms _ _ X).
  - intros r Hr. split; [apply (mx_ref_ok _ _ _ X Hr)|].
    intros k c0. apply (semk_mext s s' H X k r c0 Hr).
  - intros h Hh c0. unfold sem_edge. rewrite (mx_kind _ _ X), (mo_kind s B), (mx_nlevels _ _ X).
    cbv beta iota zeta. apply (semk_mext s s' H X). apply (proj1 (wf_handles s H h Hh)).
Qed.

Theorem intact_m_elim : forall s s', intact_m s s' ->
  s_handles s' = s_handles s /\
  s_v2l s' = s_v2l s /\ s_l2v s' = s_l2v s /\
  (forall t c, term_val s t = Some c -> term_val s' t = Some c) /\
  (forall id nd, find_node s id = Some nd -> find_node s' id = Some nd) /\
  (forall r, ref_ok s r -> ref_ok s' r /\ forall k c0, semk s' k r c0 = semk s k r c0) /\
  (forall h, In h (s_handles s) -> forall c0, sem_edge s' (snd h) c0 = sem_edge s (snd h) c0) /\
  (forall id, find_node s id = None -> ~ reachable s' (handle_refs s') (RN id)) /\
  (forall r, reachable s' (handle_refs s') r <-> reachable s (handle_refs s) r).
Proof.
  intros s s' [[A [B1 B2] C0 F G] T D E0]. repeat (split; [assumption|]). assumption.
Qed.

(** extension without a new terminal: what [apply_ite] and [restrict] do *)
Definition mext0 (s s' : snap) : Prop := mext s s' /\ term_count s' = term_count s.

Lemma mext0_refl : forall s, mext0 s s.
Proof. intros s. split; [apply mext_refl | reflexivity]. Qed.

Lemma mext0_trans : forall s1 s2 s3, mext0 s1 s2 -> mext0 s2 s3 -> mext0 s1 s3.
Proof. intros s1 s2 s3 [A A'] [B B']. split; [eapply mext_trans; eauto | congruence]. Qed.

Section Safe.
Variable gt : ref -> ref -> bool.
Variable C : Type.
Variable cget : C -> N -> list ref -> option ref.
Variable cadd : C -> N -> list ref -> ref -> C.
Hypothesis Hlossy : lossy cget cadd.
Variable cap : nat.
Variable tcap : nat.

Definition MInv (s : snap) (c : C) : Prop := MtOK s /\ MCacheOK cget s c.
Definition Qref (s : snap) (r : ref) : Prop := ref_ok s r.

Notation RS := (res_safe MInv mext Qref).
Notation FS := (fail_safe MInv mext).
Notation RS0 := (res_safe MInv mext0 Qref).
Notation FS0 := (fail_safe MInv mext0).

(** ** [mt_apply_bin_c] *)

Lemma mbin_ok_safe : forall op fuel s c f g s' c' r,
  MtOK s -> MCacheOK cget s c -> ref_ok s f -> ref_ok s g ->
  nlevels s - Nat.min (rlevel s f) (rlevel s g) < fuel ->
  mt_apply_bin_c gt C cget cadd cap tcap fuel s c op f g = GOk s' c' r ->
  MInv s' c' /\ mext s s' /\ Qref s' r.
Proof.
  intros op fuel s c f g s' c' r B O Hf Hg Hfuel E.
  pose proof (sim_never_wrong C term_count cap tcap ref _ _ _ _ _ _
                (mt_apply_bin_sim gt C cget cadd cap tcap fuel s c op f g) E) as Eu.
  destruct (denm_exists s f B Hf) as [phi Df]. destruct (denm_exists s g B Hg) as [psi Dg].
  destruct (mt_apply_bin_ok gt C cget cadd Hlossy op fuel s c f g phi psi B O Df Dg Hfuel)
    as [s1 [c1 [r1 [E1 [B1 [X1 [O1 [D1 _]]]]]]]].
  rewrite Eu in E1. inversion E1; subst. split; [split; assumption|]. split; [exact X1 | apply (proj1 D1)].
Qed.

Theorem mt_apply_bin_c_safe : forall op fuel s c f g,
  MtOK s -> MCacheOK cget s c -> ref_ok s f -> ref_ok s g ->
  nlevels s - Nat.min (rlevel s f) (rlevel s g) < fuel ->
  RS s (mt_apply_bin_c gt C cget cadd cap tcap fuel s c op f g).
Proof.
  intros op. induction fuel as [|n IH]; intros s c f g B O Hf Hg Hfuel; [lia|].
  apply safe_intro; [|intros s' c' r E; apply (mbin_ok_safe op (S n) s c f g s' c' r B O Hf Hg Hfuel E)].
  pose proof (mo_wf s B) as H.
  rewrite mt_apply_bin_c_S.
  destruct (denm_exists s f B Hf) as [phi Df]. destruct (denm_exists s g B Hg) as [psi Dg].
  destruct (mt_view_total s f Hf) as [vf Vf]. destruct (mt_view_total s g Hg) as [vg Vg].
  rewrite Vf, Vg.
  pose proof (mt_tb_rel gt cap tcap s op f g vf vg) as R.
  pose proof (mt_tb_sound gt s op f g vf vg phi psi B Df Dg Vf Vg) as T.
  destruct (mt_tb gt s op f g vf vg) as [s1 r1|o a b]; unfold tb_rel in R; simpl in T.
  - (* a finished result: an existing edge or [get_terminal(..)?] *)
    destruct R as [oc [-> L]]. destruct oc as [[s2 r2]|]; simpl; [exact I|].
    split; [split; assumption | apply mext_refl].
  - rewrite R. destruct T as [-> [Hin Hab]].
    destruct (cget c (mop_code op) [a; b]); [exact I|].
    destruct (omin_level s f g vf vg H Vf Vg Hin) as [El Hlvl]. rewrite El.
    set (lvl := Nat.min (rlevel s f) (rlevel s g)) in *.
    destruct (mt_cof_ok s f vf phi lvl B Df Vf ltac:(lia) Hlvl) as [ft [fe [Ecf [Dft [Dfe [Lft Lfe]]]]]].
    destruct (mt_cof_ok s g vg psi lvl B Dg Vg ltac:(lia) Hlvl) as [gt' [ge [Ecg [Dgt [Dge [Lgt Lge]]]]]].
    rewrite Ecf, Ecg. unfold mt_step_c.
    apply (gjoin2_safe C MInv mext mext_trans ref ref ref Qref Qref).
    + apply IH; auto; [apply (proj1 Dft) | apply (proj1 Dgt) | lia].
    + intros s1 c1 [B1 O1] X1.
      apply IH; auto; [apply (mx_ref_ok _ _ _ X1 (proj1 Dfe)) | apply (mx_ref_ok _ _ _ X1 (proj1 Dge))|].
      rewrite (mx_nlevels _ _ X1), (mx_rlevel _ _ _ X1 (proj1 Dfe)), (mx_rlevel _ _ _ X1 (proj1 Dge)). lia.
    + intros s2 c2 t e I2 X2. apply gfin_safe; [exact I2 | apply mext_refl].
Qed.

(** ** [mt_apply_ite_c] *)

Lemma mite_ok_safe : forall fuel s c f g h s' c' r,
  MtOK s -> MCacheOK cget s c -> ref_ok s f -> ref_ok s g -> ref_ok s h ->
  nlevels s - Nat.min (Nat.min (rlevel s f) (rlevel s g)) (rlevel s h) < fuel ->
  mt_apply_ite_c C cget cadd cap fuel s c f g h = GOk s' c' r ->
  MInv s' c' /\ mext0 s s' /\ Qref s' r.
Proof.
  intros fuel s c f g h s' c' r B O Hf Hg Hh Hfuel E.
  pose proof (sim_never_wrong C term_count cap 0 ref _ _ _ _ _ _
                (mt_apply_ite_sim C cget cadd cap 0 fuel s c f g h) E) as Eu.
  destruct (denm_exists s f B Hf) as [phi Df]. destruct (denm_exists s g B Hg) as [psi Dg].
  destruct (denm_exists s h B Hh) as [theta Dh].
  destruct (mt_apply_ite_ok C cget cadd Hlossy fuel s c f g h phi psi theta B O Df Dg Dh Hfuel)
    as [s1 [c1 [r1 [E1 [B1 [X1 [O1 [D1 _]]]]]]]].
  rewrite Eu in E1. inversion E1; subst. split; [split; assumption|].
  split; [|apply (proj1 D1)]. split; [exact X1|].
  apply (mt_apply_ite_terms C cget cadd fuel s c f g h _ _ _ Eu).
Qed.

Theorem mt_apply_ite_c_safe : forall fuel s c f g h,
  MtOK s -> MCacheOK cget s c -> ref_ok s f -> ref_ok s g -> ref_ok s h ->
  nlevels s - Nat.min (Nat.min (rlevel s f) (rlevel s g)) (rlevel s h) < fuel ->
  RS0 s (mt_apply_ite_c C cget cadd cap fuel s c f g h).
Proof.
  induction fuel as [|n IH]; intros s c f g h B O Hf Hg Hh Hfuel; [lia|].
  apply safe_intro; [|intros s' c' r E; apply (mite_ok_safe (S n) s c f g h s' c' r B O Hf Hg Hh Hfuel E)].
  pose proof (mo_wf s B) as H.
  rewrite mt_apply_ite_c_S.
  destruct (ref_eqb g h); [exact I|].
  destruct (denm_exists s f B Hf) as [phi Df]. destruct (denm_exists s g B Hg) as [psi Dg].
  destruct (denm_exists s h B Hh) as [theta Dh].
  destruct (mt_view_total s f Hf) as [vf Vf]. rewrite Vf.
  destruct vf as [fnode|tv]; [|exact I].
  destruct (mt_view_MI s f fnode Vf) as [idf [-> Ef]].
  destruct (cget c mcode_ite [RN idf; g; h]); [exact I|].
  destruct (mt_view_total s g Hg) as [vg Vg]. destruct (mt_view_total s h Hh) as [vh Vh].
  rewrite Vg, Vh.
  rewrite (omin3_level s idf fnode g h vg vh H Ef Vg Vh).
  rewrite (rlevel_node s idf fnode Ef) in Hfuel.
  pose proof (wf_level s H idf fnode Ef) as Hlf.
  pose proof (rlevel_le s H g) as Hlg. pose proof (rlevel_le s H h) as Hlh.
  set (lvl := Nat.min (Nat.min (nlevel fnode) (rlevel s g)) (rlevel s h)) in *.
  assert (Hlvl : lvl < nlevels s) by lia.
  destruct (cof2_okM s idf fnode phi lvl B Df Ef ltac:(lia)) as [ft [fe [Ecf [Dft [Dfe [Lft Lfe]]]]]].
  destruct (mt_cof_ok s g vg psi lvl B Dg Vg ltac:(lia) Hlvl) as [gt' [ge [Ecg [Dgt [Dge [Lgt Lge]]]]]].
  destruct (mt_cof_ok s h vh theta lvl B Dh Vh ltac:(lia) Hlvl) as [ht [he [Ech [Dht [Dhe [Lht Lhe]]]]]].
  rewrite Ecf, Ecg, Ech. unfold mt_step_c.
  apply (gjoin2_safe C MInv mext0 mext0_trans ref ref ref Qref Qref).
  - apply IH; auto; [apply (proj1 Dft) | apply (proj1 Dgt) | apply (proj1 Dht) | lia].
  - intros s1 c1 [B1 O1] [X1 _].
    apply IH; auto; [apply (mx_ref_ok _ _ _ X1 (proj1 Dfe)) | apply (mx_ref_ok _ _ _ X1 (proj1 Dge))
                    | apply (mx_ref_ok _ _ _ X1 (proj1 Dhe))|].
    rewrite (mx_nlevels _ _ X1), (mx_rlevel _ _ _ X1 (proj1 Dfe)),
            (mx_rlevel _ _ _ X1 (proj1 Dge)), (mx_rlevel _ _ _ X1 (proj1 Dhe)). lia.
  - intros s2 c2 t e I2 X2. apply gfin_safe; [exact I2 | apply mext0_refl].
Qed.

(** ** [mt_restrict_c] *)

Lemma mrestrict_ok_safe : forall fuel s c f vars lits s' c' r,
  MtOK s -> MCacheOK cget s c -> ref_ok s f -> Cube s vars lits ->
  nlevels s - rlevel s f < fuel ->
  mt_restrict_c C cget cadd cap fuel s c f vars = GOk s' c' r ->
  MInv s' c' /\ mext0 s s' /\ Qref s' r.
Proof.
  intros fuel s c f vars lits s' c' r B O Hf Hcube Hfuel E.
  pose proof (sim_never_wrong C term_count cap 0 ref _ _ _ _ _ _
                (mt_restrict_sim C cget cadd cap 0 fuel s c f vars) E) as Eu.
  destruct (denm_exists s f B Hf) as [phi Df].
  destruct (mt_restrict_ok C cget cadd Hlossy fuel s c f vars phi lits B O Df Hcube Hfuel)
    as [s1 [c1 [r1 [E1 [B1 [X1 [O1 [D1 _]]]]]]]].
  rewrite Eu in E1. inversion E1; subst. split; [split; assumption|].
  split; [|apply (proj1 D1)]. split; [exact X1|].
  apply (mt_restrict_terms C cget cadd fuel s c f vars _ _ _ Eu).
Qed.

Theorem mt_restrict_c_safe : forall fuel s c f vars lits,
  MtOK s -> MCacheOK cget s c -> ref_ok s f -> Cube s vars lits ->
  nlevels s - rlevel s f < fuel ->
  RS0 s (mt_restrict_c C cget cadd cap fuel s c f vars).
Proof.
  induction fuel as [|n IH]; intros s c f vars lits B O Hf Hcube Hfuel; [lia|].
  apply safe_intro;
    [|intros s' c' r E; apply (mrestrict_ok_safe (S n) s c f vars lits s' c' r B O Hf Hcube Hfuel E)].
  pose proof (mo_wf s B) as H.
  rewrite mt_restrict_c_S.
  destruct (denm_exists s f B Hf) as [phi Df].
  destruct (mt_view_total s f Hf) as [vf Vf]. rewrite Vf.
  assert (Ovars : ref_ok s vars) by (inversion Hcube; subst; simpl; eauto).
  destruct (mt_view_total s vars Ovars) as [vv Vv]. rewrite Vv.
  destruct vf as [fnode|x]; [|destruct vv; exact I].
  destruct vv as [vnode|x]; [|exact I].
  destruct (mt_view_MI s f fnode Vf) as [idf [-> Ef]].
  destruct (mt_view_MI s vars vnode Vv) as [idv [-> Ev]].
  rewrite (wf_stored s H idf fnode Ef).
  pose proof (wf_level s H idf fnode Ef) as Hlf. pose proof (wf_level s H idv vnode Ev) as Hlv.
  destruct (mt_restrict_inner_ok (rin_fuel s) s idf fnode idv vnode phi lits B Ef Ev Df Hcube
              ltac:(unfold rin_fuel; lia)) as [res [Eres Pres]].
  rewrite Eres. destruct res as [r|vars' f' fnode']; simpl in Pres; [exact I|].
  destruct Pres as [id' [phi' [lits' [-> [E' [Df' [Hcube' [Lv' [Lf' Eq']]]]]]]]].
  rewrite (rlevel_node s idf fnode Ef) in Hfuel.
  destruct (cget c mcode_restrict [RN id'; vars']); [exact I|].
  destruct (mt_children s id' fnode' B E') as [a [b Ech]]. rewrite Ech.
  rewrite (wf_stored s H id' fnode' E').
  pose proof (wf_level s H id' fnode' E') as Hl'.
  assert (Ha : nth_error (nchildren fnode') 0 = Some a) by (rewrite Ech; reflexivity).
  assert (Hb : nth_error (nchildren fnode') 1 = Some b) by (rewrite Ech; reflexivity).
  destruct (child_nth s H id' fnode' 0 a E' Ha) as [Oa La].
  destruct (child_nth s H id' fnode' 1 b E' Hb) as [Ob Lb].
  unfold mt_step_c.
  apply (gjoin2_safe C MInv mext0 mext0_trans ref ref ref Qref Qref).
  - apply (IH s c (eref a) vars' lits'); auto. lia.
  - intros s1 c1 [B1 O1] [X1 _].
    apply (IH s1 c1 (eref b) vars' lits'); auto;
      [apply (mx_ref_ok _ _ _ X1 Ob) | apply (cube_mext s s1 _ _ X1 Hcube')|].
    rewrite (mx_nlevels _ _ X1), (mx_rlevel _ _ _ X1 Ob). lia.
  - intros s2 c2 t e I2 X2. apply gfin_safe; [exact I2 | apply mext0_refl].
Qed.

End Safe.

(** ** The C14 statements for MTBDDs: [apply_bin], [apply_ite], [restrict] *)

Section Top.
Variable gt : ref -> ref -> bool.
Variable C : Type.
Variable cget : C -> N -> list ref -> option ref.
Variable cadd : C -> N -> list ref -> ref -> C.
Hypothesis Hlossy : lossy cget cadd.

(** the state after a failure (two budgets): a well-formed MTBDD table with a
    correct cache that extends the table before, in which everything that
    existed is intact; no node and no terminal has disappeared; one of the two
    stores is full *)
Definition mfailed_ok (cap tcap : nat) (s s' : snap) (c' : C) : Prop :=
  MtOK s' /\ MCacheOK cget s' c' /\ mext s s' /\ intact_m s s' /\
  node_count s <= node_count s' /\ term_count s <= term_count s' /\
  (cap <= node_count s' \/ tcap <= term_count s').

Lemma mfailed_of_state : forall cap tcap s s' c', MtOK s ->
  failed_state C term_count cap tcap (MInv C cget) mext s s' c' -> mfailed_ok cap tcap s s' c'.
Proof.
  intros cap tcap s s' c' B [[B' O'] [X [G F]]]. simpl in G, F.
  split; [exact B'|]. split; [exact O'|]. split; [exact X|].
  split; [apply (mext_intact_m s s' B X)|]. split; [apply G|]. split; [apply G | exact F].
Qed.

(** the outcome of a bounded run, given the table [su] of the unbounded run:
    the unbounded result exactly when BOTH stores suffice *)
Definition mexact (cap tcap : nat) (s : snap) (rb : gres C ref) (su : snap) (cu : C) (ru : ref) : Prop :=
  (node_count su <= Nat.max cap (node_count s) /\ term_count su <= Nat.max tcap (term_count s) ->
     rb = GOk su cu ru) /\
  (Nat.max cap (node_count s) < node_count su \/ Nat.max tcap (term_count s) < term_count su ->
     exists s' c', rb = GOom s' c' /\ mfailed_ok cap tcap s s' c').

Lemma mexact_intro : forall cap tcap s rb su cu ru, MtOK s ->
  res_safe (MInv C cget) mext Qref s rb -> sim C term_count cap tcap s rb (Some (su, cu, ru)) ->
  mexact cap tcap s rb su cu ru.
Proof.
  intros cap tcap s rb su cu ru B S M.
  destruct (exact_intro C term_count cap tcap (MInv C cget) mext ref Qref s rb su cu ru S M) as [A1 A2].
  destruct M as [_ F]. simpl in F. destruct F as [G _]. split.
  - intros [Hn Ht]. apply A1. simpl. lia.
  - intros Hbig. destruct (A2 Hbig) as [s' [c' [E Fs]]].
    exists s', c'. split; [exact E | apply (mfailed_of_state cap tcap s s' c' B Fs)].
Qed.

(** failing or not is decided by the table of the unbounded run *)
Lemma mexact_code : forall cap tcap s rb rb' su cu ru,
  mexact cap tcap s rb su cu ru -> mexact cap tcap s rb' su cu ru -> gres_code rb = gres_code rb'.
Proof.
  intros cap tcap s rb rb' su cu ru [A1 B1] [A2 B2].
  destruct (le_lt_dec (node_count su) (Nat.max cap (node_count s))) as [Hn|Hn].
  - destruct (le_lt_dec (term_count su) (Nat.max tcap (term_count s))) as [Ht|Ht].
    + rewrite (A1 (conj Hn Ht)), (A2 (conj Hn Ht)). reflexivity.
    + destruct (B1 (or_intror Ht)) as [s1 [c1 [-> _]]]. destruct (B2 (or_intror Ht)) as [s2 [c2 [-> _]]].
      reflexivity.
  - destruct (B1 (or_introl Hn)) as [s1 [c1 [-> _]]]. destruct (B2 (or_introl Hn)) as [s2 [c2 [-> _]]].
    reflexivity.
Qed.

(** the same for the operations that never create a terminal ([apply_ite],
    [restrict]): one budget, the terminal store is untouched *)
Definition mfailed_n (cap : nat) (s s' : snap) (c' : C) : Prop :=
  MtOK s' /\ MCacheOK cget s' c' /\ mext s s' /\ intact_m s s' /\
  node_count s <= node_count s' /\ cap <= node_count s' /\ term_count s' = term_count s.

Definition mexact_n (cap : nat) (s : snap) (rb : gres C ref) (su : snap) (cu : C) (ru : ref) : Prop :=
  (node_count su <= Nat.max cap (node_count s) -> rb = GOk su cu ru) /\
  (Nat.max cap (node_count s) < node_count su -> exists s' c', rb = GOom s' c' /\ mfailed_n cap s s' c').

(** a one-budget failure is a two-budget failure for every terminal capacity *)
Lemma mfailed_n_ok : forall cap tcap s s' c', mfailed_n cap s s' c' -> mfailed_ok cap tcap s s' c'.
Proof.
  intros cap tcap s s' c' [B [O [X [I [G [F T]]]]]]. unfold mfailed_ok.
  split; [exact B|]. split; [exact O|]. split; [exact X|]. split; [exact I|].
  split; [exact G|]. split; [lia | left; exact F].
Qed.

Lemma mfailed_n_intro : forall cap s (rb : gres C ref) s' c' ru, MtOK s ->
  res_safe (MInv C cget) mext0 Qref s rb -> rb = GOom s' c' ->
  (forall tcap, sim C term_count cap tcap s rb ru) -> mfailed_n cap s s' c'.
Proof.
  intros cap s rb s' c' ru B S E M. subst rb. destruct S as [[B' O'] [X T]].
  destruct (M (S (term_count s'))) as [[G F] _]. simpl in G, F.
  split; [exact B'|]. split; [exact O'|]. split; [exact X|].
  split; [apply (mext_intact_m s s' B X)|]. split; [lia|]. split; [lia | exact T].
Qed.

Lemma mexact_n_intro : forall cap s rb su cu ru, MtOK s ->
  res_safe (MInv C cget) mext0 Qref s rb ->
  (forall tcap, sim C term_count cap tcap s rb (Some (su, cu, ru))) ->
  term_count su = term_count s ->
  mexact_n cap s rb su cu ru.
Proof.
  intros cap s rb su cu ru B S M T. split.
  - intros Hfit. destruct (M 0) as [_ [G F]]. simpl in G. apply F. simpl. lia.
  - intros Hbig. destruct rb as [s' c' r|s' c'|] eqn:Erb; [| |contradiction].
    + exfalso. destruct (M 0) as [[Eu W] _]. inversion Eu; subst. simpl in W. lia.
    + exists s', c'. split; [reflexivity|].
      apply (mfailed_n_intro cap s (GOom s' c') s' c' (Some (su, cu, ru)) B S eq_refl M).
Qed.

(** *** never a wrong reference: a result is literally the result of the unbounded run *)

Theorem moom_never_wrong_bin : forall cap tcap op fuel s c f g s' c' r,
  mt_apply_bin_c gt C cget cadd cap tcap fuel s c op f g = GOk s' c' r ->
  mt_apply_bin gt C cget cadd fuel s c op f g = Some (s', c', r).
Proof.
  intros cap tcap op fuel s c f g s' c' r E.
  apply (sim_never_wrong C term_count cap tcap ref _ _ _ _ _ _
           (mt_apply_bin_sim gt C cget cadd cap tcap fuel s c op f g) E).
Qed.

Theorem moom_never_wrong_ite : forall cap fuel s c f g h s' c' r,
  mt_apply_ite_c C cget cadd cap fuel s c f g h = GOk s' c' r ->
  mt_apply_ite C cget cadd fuel s c f g h = Some (s', c', r).
Proof.
  intros cap fuel s c f g h s' c' r E.
  apply (sim_never_wrong C term_count cap 0 ref _ _ _ _ _ _
           (mt_apply_ite_sim C cget cadd cap 0 fuel s c f g h) E).
Qed.

Theorem moom_never_wrong_restrict : forall cap fuel s c f vars s' c' r,
  mt_restrict_c C cget cadd cap fuel s c f vars = GOk s' c' r ->
  mt_restrict C cget cadd fuel s c f vars = Some (s', c', r).
Proof.
  intros cap fuel s c f vars s' c' r E.
  apply (sim_never_wrong C term_count cap 0 ref _ _ _ _ _ _
           (mt_restrict_sim C cget cadd cap 0 fuel s c f vars) E).
Qed.

(** ... hence the pointwise operation of the operands (C10), in a table in
    which everything that existed before is intact *)

Theorem moom_never_wrong_bin_sem : forall cap tcap op fuel s c f g s' c' r,
  MtOK s -> MCacheOK cget s c -> ref_ok s f -> ref_ok s g -> FUEL s <= fuel ->
  mt_apply_bin_c gt C cget cadd cap tcap fuel s c op f g = GOk s' c' r ->
  MtOK s' /\ MCacheOK cget s' c' /\ mext s s' /\ intact_m s s' /\ ref_ok s' r /\
  forall c0, bchoice c0 -> exists x y,
    mvalue s f c0 x /\ mvalue s g c0 y /\ mvalue s' r c0 (mop_eval op x y).
Proof.
  intros cap tcap op fuel s c f g s' c' r B O Hf Hg Hfuel E.
  apply moom_never_wrong_bin in E.
  destruct (mt_apply_bin_sound gt C cget cadd Hlossy op fuel s c f g B O Hf Hg Hfuel)
    as [s1 [c1 [r1 [E1 [B1 [X1 [O1 [R1 V1]]]]]]]].
  rewrite E in E1. inversion E1; subst s1 c1 r1.
  split; [exact B1|]. split; [exact O1|]. split; [exact X1|].
  split; [apply (mext_intact_m s s' B X1)|]. auto.
Qed.

Theorem moom_never_wrong_ite_sem : forall cap fuel s c f g h s' c' r,
  MtOK s -> MCacheOK cget s c -> ref_ok s f -> ref_ok s g -> ref_ok s h -> FUEL s <= fuel ->
  mt_apply_ite_c C cget cadd cap fuel s c f g h = GOk s' c' r ->
  MtOK s' /\ MCacheOK cget s' c' /\ mext s s' /\ intact_m s s' /\ term_count s' = term_count s /\
  ref_ok s' r /\
  forall c0, bchoice c0 -> exists x y z,
    mvalue s f c0 x /\ mvalue s g c0 y /\ mvalue s h c0 z /\
    mvalue s' r c0 (if i64_is_zero x then z else y).
Proof.
  intros cap fuel s c f g h s' c' r B O Hf Hg Hh Hfuel E.
  apply moom_never_wrong_ite in E.
  destruct (mt_apply_ite_sound C cget cadd Hlossy fuel s c f g h B O Hf Hg Hh Hfuel)
    as [s1 [c1 [r1 [E1 [B1 [X1 [O1 [R1 V1]]]]]]]].
  rewrite E in E1. inversion E1; subst s1 c1 r1.
  split; [exact B1|]. split; [exact O1|]. split; [exact X1|].
  split; [apply (mext_intact_m s s' B X1)|].
  split; [apply (mt_apply_ite_terms C cget cadd fuel s c f g h _ _ _ E)|]. auto.
Qed.

Theorem moom_never_wrong_restrict_sem : forall cap fuel s c f vars lits s' c' r,
  MtOK s -> MCacheOK cget s c -> ref_ok s f -> Cube s vars lits -> FUEL s <= fuel ->
  mt_restrict_c C cget cadd cap fuel s c f vars = GOk s' c' r ->
  MtOK s' /\ MCacheOK cget s' c' /\ mext s s' /\ intact_m s s' /\ term_count s' = term_count s /\
  ref_ok s' r /\
  forall c0, bchoice c0 -> exists x, mvalue s f (ovr lits c0) x /\ mvalue s' r c0 x.
Proof.
  intros cap fuel s c f vars lits s' c' r B O Hf Hcube Hfuel E.
  apply moom_never_wrong_restrict in E.
  destruct (mt_restrict_sound C cget cadd Hlossy fuel s c f vars lits B O Hf Hcube Hfuel)
    as [s1 [c1 [r1 [E1 [B1 [X1 [O1 [R1 V1]]]]]]]].
  rewrite E in E1. inversion E1; subst s1 c1 r1.
  split; [exact B1|]. split; [exact O1|]. split; [exact X1|].
  split; [apply (mext_intact_m s s' B X1)|].
  split; [apply (mt_restrict_terms C cget cadd fuel s c f vars _ _ _ E)|]. auto.
Qed.

(** *** the safe-run facts in the form the statements below use *)

Lemma mbin_rs : forall cap tcap op fuel s c f g,
  MtOK s -> MCacheOK cget s c -> ref_ok s f -> ref_ok s g -> FUEL s <= fuel ->
  res_safe (MInv C cget) mext Qref s (mt_apply_bin_c gt C cget cadd cap tcap fuel s c op f g).
Proof.
  intros cap tcap op fuel s c f g B O Hf Hg Hfuel. unfold FUEL in Hfuel.
  apply (mt_apply_bin_c_safe gt C cget cadd Hlossy); auto. lia.
Qed.

Lemma mite_rs : forall cap fuel s c f g h,
  MtOK s -> MCacheOK cget s c -> ref_ok s f -> ref_ok s g -> ref_ok s h -> FUEL s <= fuel ->
  res_safe (MInv C cget) mext0 Qref s (mt_apply_ite_c C cget cadd cap fuel s c f g h).
Proof.
  intros cap fuel s c f g h B O Hf Hg Hh Hfuel. unfold FUEL in Hfuel.
  apply (mt_apply_ite_c_safe C cget cadd Hlossy); auto. lia.
Qed.

Lemma mrestrict_rs : forall cap fuel s c f vars lits,
  MtOK s -> MCacheOK cget s c -> ref_ok s f -> Cube s vars lits -> FUEL s <= fuel ->
  res_safe (MInv C cget) mext0 Qref s (mt_restrict_c C cget cadd cap fuel s c f vars).
Proof.
  intros cap fuel s c f vars lits B O Hf Hcube Hfuel. unfold FUEL in Hfuel.
  apply (mt_restrict_c_safe C cget cadd Hlossy cap fuel s c f vars lits); auto. lia.
Qed.

(** *** the state after a failure *)

Theorem moom_safe_bin : forall cap tcap op fuel s c f g s' c',
  MtOK s -> MCacheOK cget s c -> ref_ok s f -> ref_ok s g -> FUEL s <= fuel ->
  mt_apply_bin_c gt C cget cadd cap tcap fuel s c op f g = GOom s' c' ->
  mfailed_ok cap tcap s s' c'.
Proof.
  intros cap tcap op fuel s c f g s' c' B O Hf Hg Hfuel E.
  pose proof (mbin_rs cap tcap op fuel s c f g B O Hf Hg Hfuel) as S.
  pose proof (mt_apply_bin_sim gt C cget cadd cap tcap fuel s c op f g) as M.
  rewrite E in S, M. apply (mfailed_of_state cap tcap s s' c' B).
  apply (failed_intro C term_count cap tcap (MInv C cget) mext ref Qref s s' c' _ S M).
Qed.

Theorem moom_safe_ite : forall cap fuel s c f g h s' c',
  MtOK s -> MCacheOK cget s c -> ref_ok s f -> ref_ok s g -> ref_ok s h -> FUEL s <= fuel ->
  mt_apply_ite_c C cget cadd cap fuel s c f g h = GOom s' c' ->
  mfailed_n cap s s' c'.
Proof.
  intros cap fuel s c f g h s' c' B O Hf Hg Hh Hfuel E.
  apply (mfailed_n_intro cap s _ s' c' (mt_apply_ite C cget cadd fuel s c f g h) B
           (mite_rs cap fuel s c f g h B O Hf Hg Hh Hfuel) E).
  intros tcap. apply mt_apply_ite_sim.
Qed.

Theorem moom_safe_restrict : forall cap fuel s c f vars lits s' c',
  MtOK s -> MCacheOK cget s c -> ref_ok s f -> Cube s vars lits -> FUEL s <= fuel ->
  mt_restrict_c C cget cadd cap fuel s c f vars = GOom s' c' ->
  mfailed_n cap s s' c'.
Proof.
  intros cap fuel s c f vars lits s' c' B O Hf Hcube Hfuel E.
  apply (mfailed_n_intro cap s _ s' c' (mt_restrict C cget cadd fuel s c f vars) B
           (mrestrict_rs cap fuel s c f vars lits B O Hf Hcube Hfuel) E).
  intros tcap. apply mt_restrict_sim.
Qed.

(** *** no panic, no divergence *)

Theorem moom_no_panic_bin : forall cap tcap op fuel s c f g,
  MtOK s -> MCacheOK cget s c -> ref_ok s f -> ref_ok s g -> FUEL s <= fuel ->
  mt_apply_bin_c gt C cget cadd cap tcap fuel s c op f g <> GStuck.
Proof.
  intros cap tcap op fuel s c f g B O Hf Hg Hfuel E.
  pose proof (mbin_rs cap tcap op fuel s c f g B O Hf Hg Hfuel) as S. rewrite E in S. exact S.
Qed.

Theorem moom_no_panic_ite : forall cap fuel s c f g h,
  MtOK s -> MCacheOK cget s c -> ref_ok s f -> ref_ok s g -> ref_ok s h -> FUEL s <= fuel ->
  mt_apply_ite_c C cget cadd cap fuel s c f g h <> GStuck.
Proof.
  intros cap fuel s c f g h B O Hf Hg Hh Hfuel E.
  pose proof (mite_rs cap fuel s c f g h B O Hf Hg Hh Hfuel) as S. rewrite E in S. exact S.
Qed.

Theorem moom_no_panic_restrict : forall cap fuel s c f vars lits,
  MtOK s -> MCacheOK cget s c -> ref_ok s f -> Cube s vars lits -> FUEL s <= fuel ->
  mt_restrict_c C cget cadd cap fuel s c f vars <> GStuck.
Proof.
  intros cap fuel s c f vars lits B O Hf Hcube Hfuel E.
  pose proof (mrestrict_rs cap fuel s c f vars lits B O Hf Hcube Hfuel) as S. rewrite E in S. exact S.
Qed.

(** *** retry: when the table of the unbounded run fits, the bounded run
    succeeds with exactly that result *)

Theorem moom_retry_bin : forall cap tcap op fuel s c f g su cu ru,
  mt_apply_bin gt C cget cadd fuel s c op f g = Some (su, cu, ru) ->
  node_count su <= cap -> term_count su <= tcap ->
  mt_apply_bin_c gt C cget cadd cap tcap fuel s c op f g = GOk su cu ru.
Proof.
  intros cap tcap op fuel s c f g su cu ru E Hn Ht.
  pose proof (mt_apply_bin_sim gt C cget cadd cap tcap fuel s c op f g) as M. rewrite E in M.
  destruct M as [_ [G F]]. simpl in G. apply F. simpl. lia.
Qed.

Theorem moom_retry_ite : forall cap fuel s c f g h su cu ru,
  mt_apply_ite C cget cadd fuel s c f g h = Some (su, cu, ru) -> node_count su <= cap ->
  mt_apply_ite_c C cget cadd cap fuel s c f g h = GOk su cu ru.
Proof.
  intros cap fuel s c f g h su cu ru E Hn.
  pose proof (mt_apply_ite_sim C cget cadd cap (term_count su) fuel s c f g h) as M. rewrite E in M.
  destruct M as [_ [G F]]. simpl in G. apply F. simpl. lia.
Qed.

Theorem moom_retry_restrict : forall cap fuel s c f vars su cu ru,
  mt_restrict C cget cadd fuel s c f vars = Some (su, cu, ru) -> node_count su <= cap ->
  mt_restrict_c C cget cadd cap fuel s c f vars = GOk su cu ru.
Proof.
  intros cap fuel s c f vars su cu ru E Hn.
  pose proof (mt_restrict_sim C cget cadd cap (term_count su) fuel s c f vars) as M. rewrite E in M.
  destruct M as [_ [G F]]. simpl in G. apply F. simpl. lia.
Qed.

(** *** monotone in both capacities *)

Theorem moom_monotone_bin : forall cap cap' tcap tcap' op fuel s c f g s' c' r,
  cap <= cap' -> tcap <= tcap' ->
  mt_apply_bin_c gt C cget cadd cap tcap fuel s c op f g = GOk s' c' r ->
  mt_apply_bin_c gt C cget cadd cap' tcap' fuel s c op f g = GOk s' c' r.
Proof.
  intros cap cap' tcap tcap' op fuel s c f g s' c' r Hc Ht E.
  apply (sim_monotone C ref term_count cap tcap cap' tcap' s _ _ _ s' c' r Hc Ht
           (mt_apply_bin_sim gt C cget cadd cap tcap fuel s c op f g)
           (mt_apply_bin_sim gt C cget cadd cap' tcap' fuel s c op f g) E).
Qed.

Theorem moom_monotone_ite : forall cap cap' fuel s c f g h s' c' r, cap <= cap' ->
  mt_apply_ite_c C cget cadd cap fuel s c f g h = GOk s' c' r ->
  mt_apply_ite_c C cget cadd cap' fuel s c f g h = GOk s' c' r.
Proof.
  intros cap cap' fuel s c f g h s' c' r Hc E.
  apply (sim_monotone C ref term_count cap 0 cap' 0 s _ _ _ s' c' r Hc (le_n 0)
           (mt_apply_ite_sim C cget cadd cap 0 fuel s c f g h)
           (mt_apply_ite_sim C cget cadd cap' 0 fuel s c f g h) E).
Qed.

Theorem moom_monotone_restrict : forall cap cap' fuel s c f vars s' c' r, cap <= cap' ->
  mt_restrict_c C cget cadd cap fuel s c f vars = GOk s' c' r ->
  mt_restrict_c C cget cadd cap' fuel s c f vars = GOk s' c' r.
Proof.
  intros cap cap' fuel s c f vars s' c' r Hc E.
  apply (sim_monotone C ref term_count cap 0 cap' 0 s _ _ _ s' c' r Hc (le_n 0)
           (mt_restrict_sim C cget cadd cap 0 fuel s c f vars)
           (mt_restrict_sim C cget cadd cap' 0 fuel s c f vars) E).
Qed.

(** *** exactness *)

Theorem moom_exact_bin : forall cap tcap op fuel s c f g,
  MtOK s -> MCacheOK cget s c -> ref_ok s f -> ref_ok s g -> FUEL s <= fuel ->
  exists su cu ru, mt_apply_bin gt C cget cadd fuel s c op f g = Some (su, cu, ru) /\
    (forall c0, bchoice c0 -> exists x y,
       mvalue s f c0 x /\ mvalue s g c0 y /\ mvalue su ru c0 (mop_eval op x y)) /\
    mexact cap tcap s (mt_apply_bin_c gt C cget cadd cap tcap fuel s c op f g) su cu ru.
Proof.
  intros cap tcap op fuel s c f g B O Hf Hg Hfuel.
  destruct (mt_apply_bin_sound gt C cget cadd Hlossy op fuel s c f g B O Hf Hg Hfuel)
    as [su [cu [ru [Eu [_ [_ [_ [_ V]]]]]]]].
  exists su, cu, ru. split; [exact Eu|]. split; [exact V|].
  apply mexact_intro; [exact B | apply mbin_rs; auto |]. rewrite <- Eu. apply mt_apply_bin_sim.
Qed.

Theorem moom_exact_ite : forall cap fuel s c f g h,
  MtOK s -> MCacheOK cget s c -> ref_ok s f -> ref_ok s g -> ref_ok s h -> FUEL s <= fuel ->
  exists su cu ru, mt_apply_ite C cget cadd fuel s c f g h = Some (su, cu, ru) /\
    term_count su = term_count s /\
    (forall c0, bchoice c0 -> exists x y z,
       mvalue s f c0 x /\ mvalue s g c0 y /\ mvalue s h c0 z /\
       mvalue su ru c0 (if i64_is_zero x then z else y)) /\
    mexact_n cap s (mt_apply_ite_c C cget cadd cap fuel s c f g h) su cu ru.
Proof.
  intros cap fuel s c f g h B O Hf Hg Hh Hfuel.
  destruct (mt_apply_ite_sound C cget cadd Hlossy fuel s c f g h B O Hf Hg Hh Hfuel)
    as [su [cu [ru [Eu [_ [_ [_ [_ V]]]]]]]].
  pose proof (mt_apply_ite_terms C cget cadd fuel s c f g h _ _ _ Eu) as T.
  exists su, cu, ru. split; [exact Eu|]. split; [exact T|]. split; [exact V|].
  apply mexact_n_intro; [exact B | apply mite_rs; auto | | exact T].
  intros tcap. rewrite <- Eu. apply mt_apply_ite_sim.
Qed.

Theorem moom_exact_restrict : forall cap fuel s c f vars lits,
  MtOK s -> MCacheOK cget s c -> ref_ok s f -> Cube s vars lits -> FUEL s <= fuel ->
  exists su cu ru, mt_restrict C cget cadd fuel s c f vars = Some (su, cu, ru) /\
    term_count su = term_count s /\
    (forall c0, bchoice c0 -> exists x, mvalue s f (ovr lits c0) x /\ mvalue su ru c0 x) /\
    mexact_n cap s (mt_restrict_c C cget cadd cap fuel s c f vars) su cu ru.
Proof.
  intros cap fuel s c f vars lits B O Hf Hcube Hfuel.
  destruct (mt_restrict_sound C cget cadd Hlossy fuel s c f vars lits B O Hf Hcube Hfuel)
    as [su [cu [ru [Eu [_ [_ [_ [_ V]]]]]]]].
  pose proof (mt_restrict_terms C cget cadd fuel s c f vars _ _ _ Eu) as T.
  exists su, cu, ru. split; [exact Eu|]. split; [exact T|]. split; [exact V|].
  apply mexact_n_intro; [exact B | apply (mrestrict_rs cap fuel s c f vars lits); auto | | exact T].
  intros tcap. rewrite <- Eu. apply mt_restrict_sim.
Qed.

End Top.

(** ** Constants: one terminal.  On failure no table is returned: the manager
    is untouched. *)

(** "the value is new" in terms of the table's terminals *)
Lemma value_new_iff : forall s v, WF s ->
  (rassoc_N (s_terms s) (code v) = None <-> forall t, term_val s t <> Some (code v)).
Proof.
  intros s v H. split.
  - intros E t Et. apply (rassoc_N_none _ _ E). apply assoc_N_In in Et.
    apply (in_map snd) in Et. exact Et.
  - intros Hn. destruct (rassoc_N (s_terms s) (code v)) as [t|] eqn:E; [|reflexivity].
    exfalso. apply (Hn t). apply rassoc_N_In in E.
    apply In_assoc_N; [apply (wf_term_ids s H) | exact E].
Qed.

Theorem moom_const_never_wrong : forall tcap s v s' r,
  mt_const_cap tcap s v = Some (s', r) -> mt_const s v = (s', r).
Proof.
  intros tcap s v s' r E. destruct (get_terminal_cap_some tcap s v (s', r) E) as [Ex _].
  symmetry. exact Ex.
Qed.

(** [Err(OutOfMemory)] iff no terminal carries the value and all [tcap] slots are in use *)
Theorem moom_const_oom_iff : forall tcap s v, WF s ->
  (mt_const_cap tcap s v = None <->
   (forall t, term_val s t <> Some (code v)) /\ tcap <= term_count s).
Proof.
  intros tcap s v H. unfold mt_const_cap. rewrite get_terminal_cap_oom_iff, (value_new_iff s v H).
  reflexivity.
Qed.

Theorem moom_const_exact : forall tcap s v, MtOK s -> wf v ->
  exists s' r, mt_const s v = (s', r) /\ MtOK s' /\ mext s s' /\ intact_m s s' /\ ref_ok s' r /\
    (forall a, mfun_of s' r a = v) /\
    node_count s' = node_count s /\ term_count s <= term_count s' /\
    (term_count s' <= Nat.max tcap (term_count s) -> mt_const_cap tcap s v = Some (s', r)) /\
    (Nat.max tcap (term_count s) < term_count s' ->
       mt_const_cap tcap s v = None /\ tcap <= term_count s).
Proof.
  intros tcap s v B Hv. destruct (mt_const s v) as [s' r] eqn:Ec.
  destruct (mt_const_mfun s v s' r B Hv Ec) as [B' [X [R V]]].
  destruct (get_terminal_counts s v s' r Ec) as [Hn Ht].
  exists s', r. split; [reflexivity|]. split; [exact B'|]. split; [exact X|].
  split; [apply (mext_intact_m s s' B X)|]. split; [exact R|]. split; [exact V|].
  split; [exact Hn|]. split; [lia|].
  pose proof (mt_const_cap_leaf 0 tcap s v) as [G L]. rewrite Ec in G, L. simpl in G, L. split.
  - intros Hfit. destruct (mt_const_cap tcap s v) as [x|]; [destruct L as [-> _]; reflexivity|].
    exfalso. destruct L as [_ N]. apply N. lia.
  - intros Hbig. destruct (mt_const_cap tcap s v) as [x|]; [exfalso; destruct L as [_ W]; lia|].
    split; [reflexivity|]. destruct L as [[F|F] _]; lia.
Qed.

Theorem moom_const_retry : forall tcap s v s' r,
  mt_const s v = (s', r) -> term_count s' <= tcap -> mt_const_cap tcap s v = Some (s', r).
Proof.
  intros tcap s v s' r Ec Hfit. destruct (get_terminal_counts s v s' r Ec) as [Hn Ht].
  pose proof (mt_const_cap_leaf 0 tcap s v) as [G L]. rewrite Ec in G, L. simpl in G, L.
  destruct (mt_const_cap tcap s v) as [x|]; [destruct L as [-> _]; reflexivity|].
  exfalso. destruct L as [_ N]. apply N. lia.
Qed.

Theorem moom_const_monotone : forall tcap tcap' s v x, tcap <= tcap' ->
  mt_const_cap tcap s v = Some x -> mt_const_cap tcap' s v = Some x.
Proof.
  intros tcap tcap' s v x Hle. unfold mt_const_cap, get_terminal_cap.
  destruct (rassoc_N (s_terms s) (code v)); [auto|].
  destruct (Nat.ltb_spec (term_count s) tcap); [|discriminate].
  destruct (Nat.ltb_spec (term_count s) tcap'); [auto | lia].
Qed.

(** ** Variables: two terminals and one node.  A failure of a later step leaves
    what the earlier steps created (garbage until a collection). *)

Notation VInv := (MInv unit nc_get).

Lemma vinv_intro : forall s c, MtOK s -> VInv s c.
Proof. intros s c B. split; [exact B | apply mnc_ok]. Qed.

(** [get_terminal(v)?] as a step of [var_edge] *)
Lemma gterm_rs : forall tcap s v, MtOK s -> wf v ->
  res_safe VInv mext (fun (_ : snap) (_ : ref) => True) s
    (gfin s tt (get_terminal_cap tcap s v) (fun _ => tt) (fun t => t)).
Proof.
  intros tcap s v B Hv. destruct (get_terminal_cap tcap s v) as [[s1 t]|] eqn:E; simpl.
  - destruct (get_terminal_cap_some tcap s v _ E) as [Ex _]. symmetry in Ex.
    destruct (get_terminal_ok s v s1 t B Hv Ex) as [B1 [X1 _]].
    split; [apply vinv_intro; exact B1|]. split; [exact X1 | exact I].
  - split; [apply vinv_intro; exact B | apply mext_refl].
Qed.

Lemma mvar_steps_rs : forall cap tcap s v lvl, MtOK s -> v < nlevels s ->
  nth_error (s_v2l s) v = Some lvl ->
  res_safe VInv mext Qref s (mt_var_steps cap tcap s lvl).
Proof.
  intros cap tcap s v lvl B Hv El. apply safe_intro.
  - unfold mt_var_steps.
    apply (gbind_safe unit VInv mext mext_trans ref ref (fun _ _ => True)).
    { apply gterm_rs; [exact B | apply wf_one]. }
    intros s1 c1 t [B1 _] X1 _.
    apply (gbind_safe unit VInv mext mext_trans ref ref (fun _ _ => True)).
    { apply gterm_rs; [exact B1 | apply wf_zero]. }
    intros s2 c2 e [B2 _] X2 _.
    apply gfin_safe; [apply vinv_intro; exact B2 | apply mext_refl].
  - intros s' c' r E.
    pose proof (sim_never_wrong unit term_count cap tcap ref _ _ _ _ _ _
                  (mt_var_steps_sim cap tcap s lvl) E) as Eu.
    destruct (mt_var_ok s v B Hv) as [lvl0 [s0 [r0 [El0 [Em [B0 [X0 D0]]]]]]].
    rewrite mt_var_U, El, Eu in Em. inversion Em; subst s0 r0.
    split; [apply vinv_intro; exact B0|]. split; [exact X0 | apply (proj1 D0)].
Qed.

Theorem moom_never_wrong_var : forall cap tcap s v s' c' r,
  mt_var_cap cap tcap s v = Some (GOk s' c' r) -> mt_var s v = Some (s', r).
Proof.
  intros cap tcap s v s' c' r E. unfold mt_var_cap in E. rewrite mt_var_U.
  destruct (nth_error (s_v2l s) v) as [lvl|]; [|discriminate].
  assert (E' : mt_var_steps cap tcap s lvl = GOk s' c' r) by congruence.
  rewrite (sim_never_wrong unit term_count cap tcap ref _ _ _ _ _ _ (mt_var_steps_sim cap tcap s lvl) E').
  reflexivity.
Qed.

(** the model panics exactly when the unbounded one does: no such variable *)
Theorem moom_var_panic_iff : forall cap tcap s v,
  mt_var_cap cap tcap s v = None <-> mt_var s v = None.
Proof.
  intros cap tcap s v. unfold mt_var_cap. rewrite mt_var_U.
  destruct (nth_error (s_v2l s) v) as [lvl|]; [|tauto].
  destruct (mt_var_steps_u_some s lvl) as [s' [r ->]]. split; discriminate.
Qed.

Theorem moom_no_panic_var : forall cap tcap s v, MtOK s -> v < nlevels s ->
  exists rb, mt_var_cap cap tcap s v = Some rb /\ rb <> GStuck.
Proof.
  intros cap tcap s v B Hv.
  destruct (mt_var_ok s v B Hv) as [lvl [s0 [r0 [El _]]]].
  unfold mt_var_cap. rewrite El. eexists. split; [reflexivity|].
  intros E. pose proof (mvar_steps_rs cap tcap s v lvl B Hv El) as S. rewrite E in S. exact S.
Qed.

Theorem moom_safe_var : forall cap tcap s v s' c', MtOK s -> v < nlevels s ->
  mt_var_cap cap tcap s v = Some (GOom s' c') ->
  mfailed_ok unit nc_get cap tcap s s' c'.
Proof.
  intros cap tcap s v s' c' B Hv E.
  destruct (mt_var_ok s v B Hv) as [lvl [s0 [r0 [El _]]]].
  unfold mt_var_cap in E. rewrite El in E.
  assert (E' : mt_var_steps cap tcap s lvl = GOom s' c') by congruence.
  pose proof (mvar_steps_rs cap tcap s v lvl B Hv El) as S.
  pose proof (mt_var_steps_sim cap tcap s lvl) as M.
  rewrite E' in S, M. apply (mfailed_of_state unit nc_get cap tcap s s' c' B).
  apply (failed_intro unit term_count cap tcap VInv mext ref Qref s s' c' _ S M).
Qed.

Theorem moom_exact_var : forall cap tcap s v, MtOK s -> v < nlevels s ->
  exists s' r, mt_var s v = Some (s', r) /\ MtOK s' /\ mext s s' /\ intact_m s s' /\ ref_ok s' r /\
    (forall a, mfun_of s' r a = if a v then i64_one else i64_zero) /\
    exists rb, mt_var_cap cap tcap s v = Some rb /\ mexact unit nc_get cap tcap s rb s' tt r.
Proof.
  intros cap tcap s v B Hv.
  destruct (mt_var_mfun s v B Hv) as [s' [r [Em [B' [X [R V]]]]]].
  destruct (mt_var_ok s v B Hv) as [lvl [s0 [r0 [El _]]]].
  exists s', r. split; [exact Em|]. split; [exact B'|]. split; [exact X|].
  split; [apply (mext_intact_m s s' B X)|]. split; [exact R|]. split; [exact V|].
  unfold mt_var_cap. rewrite El. eexists. split; [reflexivity|].
  apply mexact_intro; [exact B | apply (mvar_steps_rs cap tcap s v lvl B Hv El)|].
  pose proof (mt_var_steps_sim cap tcap s lvl) as M.
  rewrite mt_var_U, El in Em.
  destruct (mt_var_steps_u s lvl) as [[[s1 c1] r1]|]; [|discriminate].
  inversion Em; subst s1 r1. destruct c1. exact M.
Qed.

Theorem moom_retry_var : forall cap tcap s v su ru,
  mt_var s v = Some (su, ru) -> node_count su <= cap -> term_count su <= tcap ->
  mt_var_cap cap tcap s v = Some (GOk su tt ru).
Proof.
  intros cap tcap s v su ru Em Hn Ht. unfold mt_var_cap. rewrite mt_var_U in Em.
  destruct (nth_error (s_v2l s) v) as [lvl|]; [|discriminate].
  pose proof (mt_var_steps_sim cap tcap s lvl) as M.
  destruct (mt_var_steps_u s lvl) as [[[s1 c1] r1]|]; [|discriminate].
  inversion Em; subst s1 r1. destruct c1.
  destruct M as [_ [G F]]. simpl in G. rewrite F by (simpl; lia). reflexivity.
Qed.

Theorem moom_monotone_var : forall cap cap' tcap tcap' s v s' c' r, cap <= cap' -> tcap <= tcap' ->
  mt_var_cap cap tcap s v = Some (GOk s' c' r) -> mt_var_cap cap' tcap' s v = Some (GOk s' c' r).
Proof.
  intros cap cap' tcap tcap' s v s' c' r Hc Ht E. unfold mt_var_cap in *.
  destruct (nth_error (s_v2l s) v) as [lvl|]; [|discriminate].
  assert (E' : mt_var_steps cap tcap s lvl = GOk s' c' r) by congruence.
  rewrite (sim_monotone unit ref term_count cap tcap cap' tcap' s _ _ _ s' c' r Hc Ht
             (mt_var_steps_sim cap tcap s lvl) (mt_var_steps_sim cap' tcap' s lvl) E').
  reflexivity.
Qed.
