(** * C14x - the BDD apply algorithms on a bounded node store WITH explicit ownership

    Executable definitions only (proofs: Mgr/OomOwnProofs.v, Mgr/OomOwnSafe.v,
    Mgr/OomOwnGc.v).  Mgr/Oom.v models [apply_not] / [apply_bin] / [apply_ite] in the
    error monad of the code but without reference counts.  Here the same algorithms
    once more, on the state of the interleaving model of Mgr/Conc.v:

      [cst] = table WITH reference counts ([crc]: as reported by the API, the unique
              table's own reference excluded) + the multiset [cown] of the owned edges
              (tokens [(thread, edge)]; terminal edges are not tracked, as in Conc.v).

    Every ownership-relevant step of the code is explicit:

      [o_clone]   `Manager::clone_edge`  (+1 token, count + 1); also what
                  `apply_cache().get` does with the edge it returns (the cache holds
                  weak edges, the lookup clones)
      [o_drop]    `Manager::drop_edge`   (-1 token, count - 1); STUCK if the operation
                  does not own such an edge (double release) or the count is 0
                  (underflow: `debug_assert!(_old_rc > 1)` in `Store::drop_edge`)
      [o_goi]     `LevelView::get_or_insert(InnerNode::new(level, [t, e]))`
                  (oxidd-manager-index/src/manager.rs `LevelViewSet::get_or_insert`):
                  the two child edges are MOVED into the call (their tokens leave
                  [cown]); found: `drop(node)` = the children are released again
                  ([dec_children]) and the table's edge is cloned; not found:
                  `Store::add_node`: a free slot -> the node is written with count 1,
                  the children's counts are unchanged (moved into the node); no slot
                  (all [cap] slots in use) -> `node.drop_with(|e| self.drop_edge(e))`
                  and `Err(OutOfMemory)`
      [o_reduce]  `reduce` of oxidd-rules-bdd/src/simple/mod.rs
                  (`if t == e { manager.drop_edge(e); return Ok(t) }`)
      frames      the local variables of a function activation that hold an owned
                  edge: [(r, true)] = inside an `EdgeDropGuard`, [(r, false)] = a
                  bare `Edge`.  [unwind] is what happens to them when the function is
                  left through `?`: `Drop for EdgeDropGuard` releases the guarded
                  ones, bare edges are forgotten (LEAKED: the token stays in [cown],
                  the count stays up).
      [rec2]      `Recursor::{unary,binary,ternary,subst}` of
                  oxidd-rules-bdd/src/recursor.rs with the guard placement of the code:
                  [SequentialRecursor]: `let ra = EdgeDropGuard::new(m, op(..)?);
                  let rb = EdgeDropGuard::new(m, op(..)?); Ok((ra, rb))` - the second
                  `?` leaves with [ra] guarded;  [ParallelRecursor]: both closures of
                  `join` wrap their edge in a guard before returning, then
                  `Ok((ra?, rb?))` - whichever result is `Ok` is a guard when the
                  other one's `?` leaves (sequentialised as in Mgr/Oom.v: first
                  branch, then second branch on the resulting state).

    The guard placement is a parameter ([late a] for the recursor method of arity [a]):
    [late a = false] is the code; [late a = true] is the variant in which the guards
    are only created after both `?` (`let ea = op(..)?; let eb = op(..)?;
    Ok((EdgeDropGuard::new(m, ea), EdgeDropGuard::new(m, eb)))`, resp. the closures
    returning bare edges) - the seeded ownership slip.  The theorems are about
    [guards_code]; the variant is only used for the refutation lemmas.

    Result: [OOk s c r] / [OErr s c] = [Err(OutOfMemory)] / [OStuck] = one of the
    code's `unwrap`s would panic, an edge is released that the operation does not own,
    a count would underflow, the precondition of `get_or_insert` (children stored
    below the level, reduced) is violated, or fuel is exhausted. *)

From Coq Require Import List NArith PArith Bool Arith FMapPositive.
From OxiVerif Require Import DD.Table DD.Sem DD.Build DD.Apply Mgr.Conc.
Import ListNotations.

Inductive ores (C : Type) : Type :=
| OOk (s : cst) (c : C) (r : ref)
| OErr (s : cst) (c : C)
| OStuck.
Arguments OOk {C}.
Arguments OErr {C}.
Arguments OStuck {C}.

(** result of [get_or_insert] / [reduce] *)
Inductive gres : Type :=
| GOk (s : cst) (r : ref)
| GErr (s : cst)
| GStuck.

(** an id that no stored node carries (the slot the allocator hands out) *)
Definition cmax (t : ctable) : positive :=
  fold_right (fun (p : positive * cnode) m => Pos.max (fst p) m) 1%positive t.
Definition cfresh (t : ctable) : positive := Pos.succ (cmax t).

(** `Manager::num_inner_nodes`: the stored nodes, dead ones included *)
Definition cnode_count (s : cst) : nat := length (cn s).

(** local variables holding an owned edge; [true] = wrapped in an `EdgeDropGuard` *)
Definition frame := list (ref * bool).

(** guard placement of the code / of the seeded slip in the recursor method of arity 3 *)
Definition guards_code : nat -> bool := fun _ => false.
Definition guards_late_ternary : nat -> bool := fun a => Nat.eqb a 3.
Definition guards_late_all : nat -> bool := fun _ => true.

Section Own.
(** static terminal table (id |-> value code), number of levels, executing thread *)
Variable terms : list (N * N).
Variable nl : nat.
Variable tid : nat.
(** capacity of the inner-node store *)
Variable cap : nat.

(** the terminal part of a manager as a [snap] without nodes: [view], [term_of] and
    [terminal_bin] of DD/Apply.v only look at [s_terms] *)
Definition tsnap : snap := mkSnap KBdd (PositiveMap.empty node) terms [] [] [].

(** the token for an owned edge to [r] (none for terminals) *)
Definition tokr (r : ref) : list (nat * edge) :=
  match r with RN _ => [(tid, E r)] | RT _ => [] end.

(** `Manager::clone_edge` *)
Definition o_clone (s : cst) (r : ref) : option cst :=
  match r with
  | RT _ => if cref_ok_b terms (cn s) r then Some s else None
  | RN id =>
    match cfind (cn s) id with
    | Some _ => Some (mkCst (rc_inc id (cn s)) ((tid, E r) :: cown s))
    | None => None
    end
  end.

(** `Manager::drop_edge` *)
Definition o_drop (s : cst) (r : ref) : option cst :=
  match r with
  | RT _ => if cref_ok_b terms (cn s) r then Some s else None
  | RN id =>
    match cfind (cn s) id with
    | Some nd =>
      if N.eqb (crc nd) 0 then None
      else match take_tok (tid, E r) (cown s) with
           | Some own' => Some (mkCst (rc_dec id (cn s)) own')
           | None => None
           end
    | None => None
    end
  end.

(** `LevelView::get_or_insert(InnerNode::new(lvl, [t, e]))` on a store with [cap] slots *)
Definition o_goi (s : cst) (lvl : nat) (t e : ref) : gres :=
  let ch := [E t; E e] in
  if node_pre_b KBdd terms nl (cn s) lvl ch then
    match take_toks tid ch (cown s) with
    | None => GStuck
    | Some own1 =>
      match find_shape (cn s) lvl ch with
      | Some id =>
        if dec_ok_b (cn s) ch
        then GOk (mkCst (rc_inc id (dec_children (cn s) ch)) ((tid, E (RN id)) :: own1)) (RN id)
        else GStuck
      | None =>
        if Nat.ltb (cnode_count s) cap then
          let fr := cfresh (cn s) in
          GOk (mkCst ((fr, mkC lvl ch 1%N) :: cn s) ((tid, E (RN fr)) :: own1)) (RN fr)
        else if dec_ok_b (cn s) ch
        then GErr (mkCst (dec_children (cn s) ch) own1)
        else GStuck
      end
    end
  else GStuck.

(** `reduce(manager, level, t, e, op)` *)
Definition o_reduce (s : cst) (lvl : nat) (t e : ref) : gres :=
  if ref_eqb t e then
    match o_drop s e with Some s1 => GOk s1 t | None => GStuck end
  else o_goi s lvl t e.

(** leaving a function through `?` with the locals [fr] *)
Fixpoint unwind (s : cst) (fr : frame) : option cst :=
  match fr with
  | [] => Some s
  | (r, true) :: rest =>
    match o_drop s r with Some s1 => unwind s1 rest | None => None end
  | (_, false) :: rest => unwind s rest
  end.

Section Alg.
Variable gt : ref -> ref -> bool.
Variable C : Type.
Variable cget : C -> N -> list ref -> option ref.
Variable cadd : C -> N -> list ref -> ref -> C.
(** recursor in use at remaining depth [n] *)
Variable par : nat -> bool.
(** guard placement in the recursor method of arity [a] *)
Variable late : nat -> bool.

(** `?` on an `Err` while the locals [fr] are alive *)
Definition err (s : cst) (c : C) (fr : frame) : ores C :=
  match unwind s fr with Some s' => OErr s' c | None => OStuck end.

(** `return Ok(manager.clone_edge(&h))`, `return Ok(h)` for a cache hit *)
Definition clone_ret (s : cst) (c : C) (h : ref) : ores C :=
  match o_clone s h with Some s' => OOk s' c h | None => OStuck end.

(** `SequentialRecursor::{unary,binary,ternary,subst}(..)?` followed by [fin], which
    receives the two results (guarded unless [lt]) *)
Definition seq2 (lt : bool) (r1 : ores C) (run2 : cst -> C -> ores C)
  (fin : cst -> C -> ref -> ref -> ores C) : ores C :=
  match r1 with
  | OStuck => OStuck
  | OErr s1 c1 => err s1 c1 []
  | OOk s1 c1 t =>
    match run2 s1 c1 with
    | OStuck => OStuck
    | OErr s2 c2 => err s2 c2 [(t, negb lt)]
    | OOk s2 c2 e => fin s2 c2 t e
    end
  end.

(** `ParallelRecursor::{unary,binary,ternary,subst}(..)?` followed by [fin] *)
Definition par2 (lt : bool) (r1 : ores C) (run2 : cst -> C -> ores C)
  (fin : cst -> C -> ref -> ref -> ores C) : ores C :=
  match r1 with
  | OStuck => OStuck
  | OErr s1 c1 =>
    match run2 s1 c1 with
    | OStuck => OStuck
    | OErr s2 c2 => err s2 c2 []
    | OOk s2 c2 e => err s2 c2 [(e, negb lt)]
    end
  | OOk s1 c1 t =>
    match run2 s1 c1 with
    | OStuck => OStuck
    | OErr s2 c2 => err s2 c2 [(t, negb lt)]
    | OOk s2 c2 e => fin s2 c2 t e
    end
  end.

Definition rec2 (p lt : bool) := if p then par2 lt else seq2 lt.

(** `let h = reduce(manager, level, t.into_edge(), e.into_edge(), op)?;
    apply_cache().add(..); Ok(h)`: both guards are defused, the edges are moved into
    [reduce]; no owned local is alive at the `?` *)
Definition finish (lvl : nat) (code : N) (args : list ref)
  (s2 : cst) (c2 : C) (t e : ref) : ores C :=
  match o_reduce s2 lvl t e with
  | GOk s3 h => OOk s3 (cadd c2 code args h) h
  | GErr s3 => err s3 c2 []
  | GStuck => OStuck
  end.

(** `get_node(..).unwrap_inner()` *)
Definition cinner (s : cst) (r : ref) : option cnode :=
  match r with RN id => cfind (cn s) id | RT _ => None end.

(** the cofactor pair used by the recursion (borrowed edges: no ownership) *)
Definition ccof2 (r : ref) (nd : cnode) (lvl : nat) : option (ref * ref) :=
  if Nat.eqb (cl nd) lvl then
    match cch nd with
    | [t; e] => Some (eref t, eref e)
    | _ => None
    end
  else Some (r, r).

(** [apply_not] *)
Fixpoint not_o (fuel : nat) (s : cst) (c : C) (f : ref) : ores C :=
  match fuel with
  | O => OStuck
  | S n =>
    match f with
    | RT _ =>
      match view tsnap f with
      | Some (VT b) =>
        match term_of tsnap (negb b) with Some t => OOk s c (RT t) | None => OStuck end
      | _ => OStuck
      end
    | RN id =>
      match cfind (cn s) id with
      | None => OStuck
      | Some nd =>
        match cget c code_not [f] with
        | Some h => clone_ret s c h
        | None =>
          match cch nd with
          | [ft; fe] =>
            rec2 (par n) (late 1) (not_o n s c (eref ft))
                 (fun s1 c1 => not_o n s1 c1 (eref fe))
                 (finish (cl nd) code_not [f])
          | _ => OStuck
          end
        end
      end
    end
  end.

(** [apply_bin::<OP>]; `Operation::Done(h)`: [h] is a clone of an operand or a terminal *)
Fixpoint bin_o (fuel : nat) (s : cst) (c : C) (op : bop) (f g : ref) : ores C :=
  match fuel with
  | O => OStuck
  | S n =>
    match terminal_bin gt tsnap op f g with
    | TFail => OStuck
    | TDone h => clone_ret s c h
    | TNot r => not_o fuel s c r
    | TBin o a b =>
      match cget c (op_code o) [a; b] with
      | Some h => clone_ret s c h
      | None =>
        match cinner s f, cinner s g with
        | Some fnode, Some gnode =>
          let lvl := Nat.min (cl fnode) (cl gnode) in
          match ccof2 f fnode lvl, ccof2 g gnode lvl with
          | Some (ft, fe), Some (gt', ge) =>
            rec2 (par n) (late 2) (bin_o n s c op ft gt')
                 (fun s1 c1 => bin_o n s1 c1 op fe ge)
                 (finish lvl (op_code o) [a; b])
          | _, _ => OStuck
          end
        | _, _ => OStuck
        end
      end
    end
  end.

(** [apply_ite] *)
Fixpoint ite_o (fuel : nat) (s : cst) (c : C) (f g h : ref) : ores C :=
  match fuel with
  | O => OStuck
  | S n =>
    if ref_eqb g h then clone_ret s c g
    else if ref_eqb f g then bin_o fuel s c OOr f h
    else if ref_eqb f h then bin_o fuel s c OAnd f g
    else
      match view tsnap f with
      | None => OStuck
      | Some (VT b) => clone_ret s c (if b then g else h)
      | Some VI =>
        match view tsnap g, view tsnap h with
        | Some (VT true), Some VI => bin_o fuel s c OOr f h
        | Some (VT false), Some VI => bin_o fuel s c OImpStrict f h
        | Some VI, Some (VT true) => bin_o fuel s c OImp f g
        | Some VI, Some (VT false) => bin_o fuel s c OAnd f g
        | Some (VT false), Some (VT _) => not_o fuel s c f
        | Some (VT true), Some (VT _) => clone_ret s c f
        | Some VI, Some VI =>
          match cget c code_ite [f; g; h] with
          | Some r => clone_ret s c r
          | None =>
            match cinner s f, cinner s g, cinner s h with
            | Some fnode, Some gnode, Some hnode =>
              let lvl := Nat.min (Nat.min (cl fnode) (cl gnode)) (cl hnode) in
              match ccof2 f fnode lvl, ccof2 g gnode lvl, ccof2 h hnode lvl with
              | Some (ft, fe), Some (gt', ge), Some (ht, he) =>
                rec2 (par n) (late 3) (ite_o n s c ft gt' ht)
                     (fun s1 c1 => ite_o n s1 c1 fe ge he)
                     (finish lvl code_ite [f; g; h])
              | _, _, _ => OStuck
              end
            | _, _, _ => OStuck
            end
          end
        | _, _ => OStuck
        end
      end
  end.

End Alg.
End Own.

(** ** Instances: no apply cache / the unbounded association-list cache of DD/Apply.v,
    one recursor at every depth, standard fuel, code's guard placement *)

Definition gt_no : ref -> ref -> bool := fun _ _ => false.

Definition not_on (terms : list (N * N)) (nl tid cap : nat) (p : bool) (late : nat -> bool)
  (s : cst) (f : ref) : ores unit :=
  not_o terms nl tid cap unit nc_get nc_add (fun _ => p) late (S nl) s tt f.
Definition bin_on (terms : list (N * N)) (nl tid cap : nat) (p : bool) (late : nat -> bool)
  (s : cst) (op : bop) (f g : ref) : ores unit :=
  bin_o terms nl tid cap gt_no unit nc_get nc_add (fun _ => p) late (S nl) s tt op f g.
Definition ite_on (terms : list (N * N)) (nl tid cap : nat) (p : bool) (late : nat -> bool)
  (s : cst) (f g h : ref) : ores unit :=
  ite_o terms nl tid cap gt_no unit nc_get nc_add (fun _ => p) late (S nl) s tt f g h.

Definition ores_code {C : Type} (r : ores C) : nat :=
  match r with OOk _ _ _ => 0 | OErr _ _ => 1 | OStuck => 2 end.
Definition ores_st {C : Type} (r : ores C) : option cst :=
  match r with OOk s _ _ => Some s | OErr s _ => Some s | OStuck => None end.
Definition ores_ref {C : Type} (r : ores C) : option ref :=
  match r with OOk _ _ r => Some r | _ => None end.
