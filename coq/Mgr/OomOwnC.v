(** * C14o - the complement-edge (BCDD) apply algorithms on a bounded node store WITH
      explicit ownership

    Executable definitions only (proofs: Mgr/OomOwnCProofs.v, statements:
    Mgr/OomOwnCThms.v).  Mgr/OomBcdd.v (C14y) has these algorithms in the error monad of
    the code without reference counts; here once more on the state [cst] of Mgr/Conc.v
    with the ownership primitives of Mgr/OomOwnZK.v at [k = KBcdd].  Owned edges are
    TAGGED values: the token of an owned edge carries its tag, `not_owned` / `with_tag_owned`
    replace the token by the one with the other tag ([e_not]) without touching the count.
    Mirrors oxidd-rules-bdd/src/complement_edge/mod.rs and apply_rec.rs:

      [c_reduce]      `reduce(manager, level, t, e, op)`: `t == e`: `drop_edge(e)`,
                      `Ok(t)`; then-edge complemented: `[t.with_tag_owned(None),
                      e.with_tag_owned(!et)]` moved into `get_or_insert`, the returned
                      edge `.with_tag_owned(Complemented)`; otherwise `[t, e]` moved in
      [cc_terminal]   `terminal_and` / `terminal_xor`: `Done(h)`: [h] is a terminal or a
                      clone of an operand (for xor possibly with the other tag:
                      `not_owned(clone_edge(..))`; modelled as the clone of the edge
                      value that is returned)
      [cbin_o]        `apply_bin::<OP>` (And, Xor): operand order, cache hit = clone,
                      `rec.binary(..)?` ([erec2]), `reduce(..)?` with both guards
                      defused, cache insertion
      [cnot_o]        `not_edge` = `Ok(not_owned(clone_edge(edge)))`: NO allocation
      [onot_o]        `Ok(not_owned(apply..(..)?))`
      [cop_o]         the eight operators of `BooleanFunction for BCDDFunction`
      [cite_o]        `apply_ite` with its terminal cases in the order of the code,
                      `rec.ternary(..)?`, `reduce(..)?`

    Guard placement parameter [late] as in Mgr/OomOwn.v (2 = `binary`, 3 = `ternary`);
    the code is [guards_code]. *)

From Coq Require Import List NArith PArith Bool Arith FMapPositive.
From OxiVerif Require Import DD.Table DD.Sem DD.Build DD.Apply DD.ApplyBcdd Mgr.Conc Mgr.OomOwn Mgr.OomOwnZK.
Import ListNotations.

Section OwnC.
Variable terms : list (N * N).
Variable nl : nat.
Variable tid : nat.
Variable cap : nat.

(** the terminal part of the manager as a node-less snapshot ([cget_terminal] only
    looks at [s_terms]) *)
Definition btsnap : snap := mkSnap KBcdd (PositiveMap.empty node) terms [] [] [].

Notation e_clone := (e_clone KBcdd terms tid).
Notation e_drop := (e_drop terms tid).
Notation e_not := (e_not KBcdd terms tid).
Notation e_goi := (e_goi KBcdd terms nl tid cap).

(** `reduce` *)
Definition c_reduce (s : cst) (lvl : nat) (t e : edge) : OomOwnZK.krres :=
  if edge_eqb t e then
    match e_drop s e with Some s1 => KOk s1 t | None => KStuck end
  else if etag t then
    match e_not s t with
    | None => KStuck
    | Some s1 =>
      match e_not s1 e with
      | None => KStuck
      | Some s2 =>
        match e_goi s2 lvl (eflip t) (eflip e) with
        | KOk s3 h =>
          match e_not s3 h with Some s4 => KOk s4 (eflip h) | None => KStuck end
        | KErr s3 => KErr s3
        | KStuck => KStuck
        end
      end
    end
  else e_goi s lvl t e.

(** `manager.get_node(e)` *)
Definition bc_view (s : cst) (e : edge) : option cnview :=
  match eref e with
  | RN id => match cfind (cn s) id with Some nd => Some (NVI (to_node nd)) | None => None end
  | RT t => match assoc_N terms t with Some _ => Some NVT | None => None end
  end.

(** `terminal_and` / `terminal_xor` ([cterminal] of DD/ApplyBcdd.v on a [cst]) *)
Definition cc_terminal_and (s : cst) (f g : edge) : ApplyBcdd.kres :=
  if ref_eqb (eref f) (eref g) then
    if Bool.eqb (etag f) (etag g) then KDone g else kterm btsnap false
  else
    match bc_view s f, bc_view s g with
    | Some (NVI fnode), Some (NVI gnode) => KNodes fnode gnode
    | Some (NVI _), Some NVT => if etag g then kterm btsnap false else KDone f
    | Some NVT, Some (NVI _) => if etag f then kterm btsnap false else KDone g
    | Some NVT, Some NVT => kterm btsnap (negb (etag f) && negb (etag g))
    | _, _ => KFail
    end.

Definition cc_terminal_xor (s : cst) (f g : edge) : ApplyBcdd.kres :=
  if ref_eqb (eref f) (eref g) then kterm btsnap (negb (Bool.eqb (etag f) (etag g)))
  else
    match bc_view s f, bc_view s g with
    | Some (NVI fnode), Some (NVI gnode) => KNodes fnode gnode
    | Some (NVI _), Some NVT => KDone (if etag g then f else eflip f)
    | Some NVT, Some (NVI _) => KDone (if etag f then g else eflip g)
    | Some NVT, Some NVT => kterm btsnap (negb (Bool.eqb (etag f) (etag g)))
    | _, _ => KFail
    end.

Definition cc_terminal (s : cst) (o : cop) (f g : edge) : ApplyBcdd.kres :=
  match o with CAnd => cc_terminal_and s f g | CXor => cc_terminal_xor s f g end.

Section Alg.
Variable lt : edge -> edge -> bool.
Variable C : Type.
Variable cget : C -> N -> list edge -> option edge.
Variable cadd : C -> N -> list edge -> edge -> C.
Variable par : nat -> bool.
Variable late : nat -> bool.

Notation eclone_ret := (eclone_ret KBcdd terms tid C).
Notation ebind := (ebind terms tid C).
Notation erec2 := (erec2 terms tid C).
Notation efin := (efin terms tid C).

(** the part of [apply_bin] after the terminal cases and the operand ordering *)
Definition cbin_step_o (p : bool) (rec : cst -> C -> edge -> edge -> eres C)
    (s : cst) (c : C) (op : cop) (f : edge) (fnode : node) (g : edge) (gnode : node) : eres C :=
  match cget c (cop_code op) [f; g] with
  | Some h => eclone_ret s c h
  | None =>
    let lvl := Nat.min (nstored fnode) (nstored gnode) in
    match ApplyBcdd.ccof2 f fnode lvl, ApplyBcdd.ccof2 g gnode lvl with
    | Some (ft, fe), Some (gt, ge) =>
      erec2 p (late 2) (rec s c ft gt) (fun s1 c1 => rec s1 c1 fe ge)
        (fun s2 c2 t e => efin (c_reduce s2 lvl t e) c2 (fun h => cadd c2 (cop_code op) [f; g] h))
    | _, _ => EStuck
    end
  end.

(** [apply_bin::<OP>] *)
Fixpoint cbin_o (fuel : nat) (s : cst) (c : C) (op : cop) (f g : edge) : eres C :=
  match fuel with
  | O => EStuck
  | S n =>
    match cc_terminal s op f g with
    | KFail => EStuck
    | KDone h => eclone_ret s c h
    | KNodes fnode gnode =>
      if lt f g
      then cbin_step_o (par n) (fun s' c' f' g' => cbin_o n s' c' op f' g') s c op f fnode g gnode
      else cbin_step_o (par n) (fun s' c' f' g' => cbin_o n s' c' op f' g') s c op g gnode f fnode
    end
  end.

(** `Ok(not_owned(r?))` *)
Definition onot_o (r : eres C) : eres C :=
  ebind r (fun s c e => match e_not s e with Some s' => EOk s' c (eflip e) | None => EStuck end).

(** `not_edge` *)
Definition cnot_o (s : cst) (c : C) (f : edge) : eres C := onot_o (eclone_ret s c f).

(** the eight binary operators of `BooleanFunction for BCDDFunction` *)
Definition cop_o (fuel : nat) (s : cst) (c : C) (o : bop) (f g : edge) : eres C :=
  match o with
  | OAnd => cbin_o fuel s c CAnd f g
  | OOr => onot_o (cbin_o fuel s c CAnd (eflip f) (eflip g))
  | ONand => onot_o (cbin_o fuel s c CAnd f g)
  | ONor => cbin_o fuel s c CAnd (eflip f) (eflip g)
  | OXor => cbin_o fuel s c CXor f g
  | OEquiv => onot_o (cbin_o fuel s c CXor f g)
  | OImp => onot_o (cbin_o fuel s c CAnd f (eflip g))
  | OImpStrict => cbin_o fuel s c CAnd (eflip f) g
  end.

(** the part of [apply_ite] after its terminal cases *)
Definition cite_step_o (p : bool) (rec : cst -> C -> edge -> edge -> edge -> eres C)
    (s : cst) (c : C) (f : edge) (fnode : node) (g : edge) (gnode : node) (h : edge) (hnode : node)
  : eres C :=
  match cget c ccode_ite [f; g; h] with
  | Some r => eclone_ret s c r
  | None =>
    let lvl := Nat.min (Nat.min (nstored fnode) (nstored gnode)) (nstored hnode) in
    match ApplyBcdd.ccof2 f fnode lvl, ApplyBcdd.ccof2 g gnode lvl, ApplyBcdd.ccof2 h hnode lvl with
    | Some (ft, fe), Some (gt, ge), Some (ht, he) =>
      erec2 p (late 3) (rec s c ft gt ht) (fun s1 c1 => rec s1 c1 fe ge he)
        (fun s2 c2 t e => efin (c_reduce s2 lvl t e) c2 (fun r => cadd c2 ccode_ite [f; g; h] r))
    | _, _, _ => EStuck
    end
  end.

(** [apply_ite] *)
Fixpoint cite_o (fuel : nat) (s : cst) (c : C) (f g h : edge) : eres C :=
  match fuel with
  | O => EStuck
  | S n =>
    if ref_eqb (eref g) (eref h) then
      if Bool.eqb (etag g) (etag h) then eclone_ret s c g
      else onot_o (cbin_o fuel s c CXor f g)
    else if ref_eqb (eref f) (eref g) then
      if Bool.eqb (etag f) (etag g) then onot_o (cbin_o fuel s c CAnd (eflip f) (eflip h))
      else cbin_o fuel s c CAnd (eflip f) h
    else if ref_eqb (eref f) (eref h) then
      if Bool.eqb (etag f) (etag h) then cbin_o fuel s c CAnd f g
      else onot_o (cbin_o fuel s c CAnd f (eflip g))
    else
      match bc_view s f with
      | None => EStuck
      | Some NVT => eclone_ret s c (if etag f then h else g)
      | Some (NVI fnode) =>
        match bc_view s g, bc_view s h with
        | Some (NVI gnode), Some (NVI hnode) =>
          cite_step_o (par n) (fun s' c' f' g' h' => cite_o n s' c' f' g' h') s c f fnode g gnode h hnode
        | Some NVT, Some (NVI _) =>
          if etag g then cbin_o fuel s c CAnd (eflip f) h
          else onot_o (cbin_o fuel s c CAnd (eflip f) (eflip h))
        | Some _, Some NVT =>
          if etag h then cbin_o fuel s c CAnd f g
          else onot_o (cbin_o fuel s c CAnd f (eflip g))
        | _, _ => EStuck
        end
      end
  end.

End Alg.
End OwnC.

(** instances: no apply cache, one recursor, standard fuel *)
Definition elt_no : edge -> edge -> bool := fun _ _ => false.
Definition cnot_on (terms : list (N * N)) (nl tid : nat) (s : cst) (f : edge) : eres unit :=
  cnot_o terms tid unit s tt f.
Definition cop_on (terms : list (N * N)) (nl tid cap : nat) (p : bool) (late : nat -> bool)
  (s : cst) (o : bop) (f g : edge) : eres unit :=
  cop_o terms nl tid cap elt_no unit enc_get enc_add (fun _ => p) late (S nl) s tt o f g.
Definition cite_on (terms : list (N * N)) (nl tid cap : nat) (p : bool) (late : nat -> bool)
  (s : cst) (f g h : edge) : eres unit :=
  cite_o terms nl tid cap elt_no unit enc_get enc_add (fun _ => p) late (S nl) s tt f g h.
