(** * C14o - the complement-edge ownership model on a concrete manager: non-vacuity,
      refutation of the late guard placement in `binary` / `ternary`

    [exc]: three variables x0 = node 1, x1 = node 2, x2 = node 3 (level i, [T, ¬T]),
    node 4 = (level 0, [x1, x2]), node 5 = (level 0, [x2, ¬x1]); the caller owns the
    five edges 4, ¬5, 1, 2, ¬3 (tokens carry the tag).  Counts exact ([exc_inv]). *)

From Coq Require Import List NArith PArith Bool Arith Lia Permutation.
From OxiVerif Require Import DD.Table DD.TableProofs DD.Sem DD.Build DD.Apply DD.ApplyBcdd
  Mgr.Conc Mgr.ConcBase Mgr.ConcProofs Mgr.ConcSnap Mgr.ConcGc Mgr.ConcGcProofs
  Mgr.OomOwn Mgr.OomOwnProofs Mgr.OomOwnZK Mgr.OomOwnZKProofs Mgr.OomOwnZThms
  Mgr.OomOwnC Mgr.OomOwnCProofs Mgr.OomOwnCThms.
Import ListNotations.

Definition cterms : list (N * N) := [(0%N, 1%N)].
Definition cT := mkEdge (RT 0%N) false.
Definition cF := mkEdge (RT 0%N) true.
Definition cN (p : positive) := E (RN p).
Definition cNn (p : positive) := mkEdge (RN p) true.

Definition exc : cst := mkCst
  [ (5%positive, mkC 0 [cN 3; cNn 2] 1%N);
    (4%positive, mkC 0 [cN 2; cN 3] 1%N);
    (3%positive, mkC 2 [cT; cF] 3%N);
    (2%positive, mkC 1 [cT; cF] 3%N);
    (1%positive, mkC 0 [cT; cF] 1%N) ]
  [ (0, cN 4); (0, cNn 5); (0, cN 1); (0, cN 2); (0, cNn 3) ].

Example exc_inv : CInv KBcdd cterms 3 exc /\ terms_unique_b cterms = true.
Proof. split; [apply cinv_b_spec; vm_compute; reflexivity | reflexivity]. Qed.

Definition cout {C} (r : eres C) :=
  (eres_code r, option_map cnode_count (eres_st r),
   option_map (fun s => length (cown s)) (eres_st r), eres_edge r,
   option_map (cinv_b KBcdd cterms 3) (eres_st r)).

(** node 4 <op> node 5 for capacities 5 .. 8, both recursors: five tokens after a
    failure, six after a result (the xor result is a complemented edge), counts exact *)
Example exc_ops : forall p,
  map (fun op => map (fun cap => cout (cop_on cterms 3 0 cap p guards_code exc op (cN 4) (cN 5))) [5; 6; 7; 8])
      [OAnd; OXor; OEquiv] =
  [ [(1, Some 5, Some 5, None, Some true); (1, Some 6, Some 5, None, Some true);
     (1, Some 7, Some 5, None, Some true); (0, Some 8, Some 6, Some (cN 8), Some true)];
    [(1, Some 5, Some 5, None, Some true); (1, Some 6, Some 5, None, Some true);
     (0, Some 7, Some 6, Some (cNn 7), Some true); (0, Some 7, Some 6, Some (cNn 7), Some true)];
    [(1, Some 5, Some 5, None, Some true); (1, Some 6, Some 5, None, Some true);
     (0, Some 7, Some 6, Some (cN 7), Some true); (0, Some 7, Some 6, Some (cN 7), Some true)] ].
Proof. intros [|]; vm_compute; reflexivity. Qed.

Example exc_ite_not : forall p,
  map (fun cap => cout (cite_on cterms 3 0 cap p guards_code exc (cN 2) (cN 4) (cN 5))) [5; 6; 7; 8] =
  [(1, Some 5, Some 5, None, Some true); (1, Some 6, Some 5, None, Some true);
   (1, Some 7, Some 5, None, Some true); (0, Some 8, Some 6, Some (cN 8), Some true)] /\
  cout (cnot_on cterms 3 0 exc (cN 4)) = (0, Some 5, Some 6, Some (cNn 4), Some true).
Proof. intros [|]; split; vm_compute; reflexivity. Qed.

(** the failed conjunction with 6 slots: the then-branch created node 6, the
    else-branch ran out of memory; the recursor's guard released node 6 (count 0),
    the tokens are literally the caller's, the collection returns the original table *)
Example exc_and_garbage :
  match cop_on cterms 3 0 6 false guards_code exc OAnd (cN 4) (cN 5) with
  | EErr s' _ =>
      cown s' = cown exc /\
      map (fun p => (fst p, crc (snd p))) (cn s') =
        [(6%positive, 0%N); (5%positive, 1%N); (4%positive, 1%N); (3%positive, 4%N);
         (2%positive, 3%N); (1%positive, 1%N)] /\
      collect KBcdd cterms 3 s' = exc
  | _ => False
  end.
Proof. vm_compute. repeat split; reflexivity. Qed.

(** ** Refutation: the recursor guards created after both `?` *)

Definition cleaks {C} (s : cst) (o : eres C) : Prop :=
  match o with
  | EErr s' _ =>
      ~ Permutation (cown s') (cown s) /\
      length (cown s') = S (length (cown s)) /\
      exists id, cfind (cn s) id = None /\
                 cfind (cn (collect KBcdd cterms 3 s')) id <> None
  | _ => False
  end.

Lemma cleak_by_length : forall s s' : cst, length (cown s') = S (length (cown s)) ->
  ~ Permutation (cown s') (cown s).
Proof. intros s s' L P. apply Permutation_length in P. lia. Qed.

Theorem ownc_balance_late_refuted : forall p,
  cleaks exc (cop_on cterms 3 0 6 p guards_late_all exc OAnd (cN 4) (cN 5)) /\
  cleaks exc (cite_on cterms 3 0 6 p guards_late_ternary exc (cN 2) (cN 4) (cN 5)) /\
  kown_post KBcdd cterms 3 0 unit exc (cop_on cterms 3 0 6 p guards_code exc OAnd (cN 4) (cN 5)) /\
  eres_code (cop_on cterms 3 0 6 p guards_code exc OAnd (cN 4) (cN 5)) = 1 /\
  eres_code (cite_on cterms 3 0 6 p guards_code exc (cN 2) (cN 4) (cN 5)) = 1.
Proof.
  intros p. split; [|split; [|split; [apply ownc_balance_op | split; destruct p; vm_compute; reflexivity]]].
  - destruct p.
    + remember (cop_on cterms 3 0 6 true guards_late_all exc OAnd (cN 4) (cN 5)) as o eqn:Eo.
      vm_compute in Eo. subst o. unfold cleaks.
      split; [apply cleak_by_length; reflexivity|]. split; [reflexivity|].
      exists 6%positive. split; [reflexivity|]. vm_compute. discriminate.
    + remember (cop_on cterms 3 0 6 false guards_late_all exc OAnd (cN 4) (cN 5)) as o eqn:Eo.
      vm_compute in Eo. subst o. unfold cleaks.
      split; [apply cleak_by_length; reflexivity|]. split; [reflexivity|].
      exists 6%positive. split; [reflexivity|]. vm_compute. discriminate.
  - destruct p.
    + remember (cite_on cterms 3 0 6 true guards_late_ternary exc (cN 2) (cN 4) (cN 5)) as o eqn:Eo.
      vm_compute in Eo. subst o. unfold cleaks.
      split; [apply cleak_by_length; reflexivity|]. split; [reflexivity|].
      exists 6%positive. split; [reflexivity|]. vm_compute. discriminate.
    + remember (cite_on cterms 3 0 6 false guards_late_ternary exc (cN 2) (cN 4) (cN 5)) as o eqn:Eo.
      vm_compute in Eo. subst o. unfold cleaks.
      split; [apply cleak_by_length; reflexivity|]. split; [reflexivity|].
      exists 6%positive. split; [reflexivity|]. vm_compute. discriminate.
Qed.
