(** * C14o - ownership balance of the complement-edge apply algorithms (Mgr/OomOwnC.v),
      for every outcome, capacity, cache, recursor, operand order and fuel;
      invariant-free *)

From Coq Require Import List NArith PArith Bool Arith Lia Permutation.
From OxiVerif Require Import DD.Table DD.TableProofs DD.Sem DD.Build DD.Apply DD.ApplyBcdd
  Mgr.Conc Mgr.ConcBase Mgr.ConcProofs Mgr.OomOwn Mgr.OomOwnProofs Mgr.OomOwnZK Mgr.OomOwnZKProofs Mgr.OomOwnC.
Import ListNotations.

Arguments N.add : simpl never.
Arguments N.sub : simpl never.
Arguments N.mul : simpl never.

Section Proofs.
Variable terms : list (N * N).
Variable nl : nat.
Variable tid : nat.
Variable cap : nat.

Notation toke := (toke tid).
Notation kframe_ok := (kframe_ok KBcdd terms nl).
Notation c_reduce := (c_reduce terms nl tid cap).

Lemma c_reduce_spec : forall s lvl t e,
  match c_reduce s lvl t e with
  | KOk s' h => meq ((toke t ++ toke e) ++ cown s') (toke h ++ cown s) /\ kframe_ok s s'
  | KErr s' => meq ((toke t ++ toke e) ++ cown s') (cown s) /\ kframe_ok s s'
  | KStuck => True
  end.
Proof.
  intros s lvl t e. unfold OomOwnC.c_reduce. destruct (edge_eqb t e).
  - destruct (e_drop terms tid s e) as [s1|] eqn:Hd; [|exact I].
    destruct (e_drop_spec KBcdd terms nl tid _ _ _ Hd) as [M Fr]. split; [|exact Fr].
    intro x. generalize (M x). mqk.
  - destruct (etag t).
    + destruct (e_not KBcdd terms tid s t) as [s1|] eqn:H1; [|exact I].
      destruct (e_not_spec KBcdd terms nl tid _ _ _ H1) as [M1 F1].
      destruct (e_not KBcdd terms tid s1 e) as [s2|] eqn:H2; [|exact I].
      destruct (e_not_spec KBcdd terms nl tid _ _ _ H2) as [M2 F2].
      pose proof (e_goi_spec KBcdd terms nl tid cap s2 lvl (eflip t) (eflip e)) as G.
      destruct (e_goi KBcdd terms nl tid cap s2 lvl (eflip t) (eflip e)) as [s3 h|s3|]; [| |exact I].
      * destruct G as [M3 F3].
        destruct (e_not KBcdd terms tid s3 h) as [s4|] eqn:H4; [|exact I].
        destruct (e_not_spec KBcdd terms nl tid _ _ _ H4) as [M4 F4].
        split; [|eapply kframe_trans; [|exact F4]; eapply kframe_trans; [|exact F3];
                 eapply kframe_trans; eauto].
        intro x. generalize (M1 x) (M2 x) (M3 x) (M4 x). mqk.
      * destruct G as [M3 F3].
        split; [|eapply kframe_trans; [|exact F3]; eapply kframe_trans; eauto].
        intro x. generalize (M1 x) (M2 x) (M3 x). mqk.
    + pose proof (e_goi_spec KBcdd terms nl tid cap s lvl t e) as G.
      destruct (e_goi KBcdd terms nl tid cap s lvl t e) as [s' h|s'|]; [| |exact I];
        destruct G as [M Fr]; (split; [|exact Fr]); intro x; generalize (M x); mqk.
Qed.

Section Alg.
Variable lt : edge -> edge -> bool.
Variable C : Type.
Variable cget : C -> N -> list edge -> option edge.
Variable cadd : C -> N -> list edge -> edge -> C.
Variable par : nat -> bool.

Notation kbal := (kbal KBcdd terms nl tid C).
Notation cbin_step_o := (cbin_step_o terms nl tid cap C cget cadd guards_code).
Notation cbin_o := (cbin_o terms nl tid cap lt C cget cadd par guards_code).
Notation onot_o := (onot_o terms tid C).
Notation cnot_o := (cnot_o terms tid C).
Notation cop_o := (cop_o terms nl tid cap lt C cget cadd par guards_code).
Notation cite_step_o := (cite_step_o terms nl tid cap C cget cadd guards_code).
Notation cite_o := (cite_o terms nl tid cap lt C cget cadd par guards_code).

Lemma cfin_bal : forall s c lvl t e upd,
  kbal s (toke t ++ toke e) (efin terms tid C (c_reduce s lvl t e) c upd).
Proof. intros. apply efin_bal. apply c_reduce_spec. Qed.

Lemma cbin_step_o_bal : forall p rec s c op f fnode g gnode,
  (forall s' c' f' g', kbal s' [] (rec s' c' f' g')) ->
  kbal s [] (cbin_step_o p rec s c op f fnode g gnode).
Proof.
  intros p rec s c op f fnode g gnode Hr. unfold OomOwnC.cbin_step_o.
  destruct (cget c (cop_code op) [f; g]) as [h|]; [apply eclone_ret_bal|]. cbv zeta.
  destruct (ApplyBcdd.ccof2 f fnode _) as [[ft fe]|]; [|exact I].
  destruct (ApplyBcdd.ccof2 g gnode _) as [[gt ge]|]; [|exact I].
  apply erec2_bal; [apply Hr | intros; apply Hr | intros; apply cfin_bal].
Qed.

Lemma cbin_o_bal : forall fuel s c op f g, kbal s [] (cbin_o fuel s c op f g).
Proof.
  induction fuel as [|n IH]; intros s c op f g; [exact I|].
  cbn [OomOwnC.cbin_o].
  destruct (cc_terminal terms s op f g) as [h|fnode gnode|]; [apply eclone_ret_bal | | exact I].
  destruct (lt f g); apply cbin_step_o_bal; intros; apply IH.
Qed.

Lemma onot_o_bal : forall s r, kbal s [] r -> kbal s [] (onot_o r).
Proof.
  intros s r B. unfold OomOwnC.onot_o. apply ebind_bal; [exact B|].
  intros s1 c1 e. destruct (e_not KBcdd terms tid s1 e) as [s'|] eqn:H; [|exact I].
  simpl. apply (e_not_spec KBcdd terms nl tid _ _ _ H).
Qed.

Lemma cnot_o_bal : forall s c f, kbal s [] (cnot_o s c f).
Proof. intros. unfold OomOwnC.cnot_o. apply onot_o_bal. apply eclone_ret_bal. Qed.

Lemma cop_o_bal : forall fuel s c o f g, kbal s [] (cop_o fuel s c o f g).
Proof.
  intros fuel s c o f g. unfold OomOwnC.cop_o.
  destruct o; try apply onot_o_bal; apply cbin_o_bal.
Qed.

Lemma cite_step_o_bal : forall p rec s c f fnode g gnode h hnode,
  (forall s' c' f' g' h', kbal s' [] (rec s' c' f' g' h')) ->
  kbal s [] (cite_step_o p rec s c f fnode g gnode h hnode).
Proof.
  intros p rec s c f fnode g gnode h hnode Hr. unfold OomOwnC.cite_step_o.
  destruct (cget c ccode_ite [f; g; h]) as [r|]; [apply eclone_ret_bal|]. cbv zeta.
  destruct (ApplyBcdd.ccof2 f fnode _) as [[ft fe]|]; [|exact I].
  destruct (ApplyBcdd.ccof2 g gnode _) as [[gt ge]|]; [|exact I].
  destruct (ApplyBcdd.ccof2 h hnode _) as [[ht he]|]; [|exact I].
  apply erec2_bal; [apply Hr | intros; apply Hr | intros; apply cfin_bal].
Qed.

Lemma cite_o_bal : forall fuel s c f g h, kbal s [] (cite_o fuel s c f g h).
Proof.
  induction fuel as [|n IH]; intros s c f g h; [exact I|].
  cbn [OomOwnC.cite_o].
  destruct (ref_eqb (eref g) (eref h)).
  { destruct (Bool.eqb (etag g) (etag h)); [apply eclone_ret_bal | apply onot_o_bal; apply cbin_o_bal]. }
  destruct (ref_eqb (eref f) (eref g)).
  { destruct (Bool.eqb (etag f) (etag g)); [apply onot_o_bal|]; apply cbin_o_bal. }
  destruct (ref_eqb (eref f) (eref h)).
  { destruct (Bool.eqb (etag f) (etag h)); [|apply onot_o_bal]; apply cbin_o_bal. }
  destruct (bc_view terms s f) as [[fnode|]|]; [| apply eclone_ret_bal | exact I].
  destruct (bc_view terms s g) as [[gnode|]|]; destruct (bc_view terms s h) as [[hnode|]|]; try exact I.
  - apply cite_step_o_bal. intros; apply IH.
  - destruct (etag h); [|apply onot_o_bal]; apply cbin_o_bal.
  - destruct (etag g); [|apply onot_o_bal]; apply cbin_o_bal.
  - destruct (etag h); [|apply onot_o_bal]; apply cbin_o_bal.
Qed.

End Alg.
End Proofs.
