(** * C14o - the statements about the complement-edge ownership model (Mgr/OomOwnC.v)

    For [cbin_o] (`apply_bin::<And / Xor>`), [cnot_o] (`not_edge`: a tag flip, never
    fails), the eight operators [cop_o] and [cite_o] with the guard placement of the
    code, every capacity, cache, recursor choice, operand order, fuel:
    BALANCE ([ownc_balance_*], no hypothesis; tokens are TAGGED edges), COUNTS
    ([ownc_counts_*]: [CInv KBcdd] preserved, snapshot [WF] with [rc_exact_b]) and
    ROLLBACK ([ownc_err_collect_*]).  [kown_post], [krolled_back]: Mgr/OomOwnZThms.v. *)

From Coq Require Import List NArith PArith Bool Arith Lia Permutation.
From OxiVerif Require Import DD.Table DD.TableProofs DD.Sem DD.Build DD.Apply DD.ApplyBcdd
  Mgr.Conc Mgr.ConcBase Mgr.ConcProofs Mgr.ConcSnap Mgr.ConcGc Mgr.ConcGcProofs
  Mgr.OomOwn Mgr.OomOwnProofs Mgr.OomOwnZK Mgr.OomOwnZKProofs Mgr.OomOwnZGc Mgr.OomOwnZThms
  Mgr.OomOwnC Mgr.OomOwnCProofs.
Import ListNotations.

Section Thms.
Variable terms : list (N * N).
Variable nl : nat.
Variable tid : nat.
Variable cap : nat.
Variable lt : edge -> edge -> bool.
Variable C : Type.
Variable cget : C -> N -> list edge -> option edge.
Variable cadd : C -> N -> list edge -> edge -> C.
Variable par : nat -> bool.

Notation CInv := (CInv KBcdd terms nl).
Notation to_snap := (to_snap KBcdd terms nl).
Notation post := (kown_post KBcdd terms nl tid C).
Notation rolled := (krolled_back KBcdd terms nl).
Notation cbin_o := (cbin_o terms nl tid cap lt C cget cadd par guards_code).
Notation cnot_o := (cnot_o terms tid C).
Notation cop_o := (cop_o terms nl tid cap lt C cget cadd par guards_code).
Notation cite_o := (cite_o terms nl tid cap lt C cget cadd par guards_code).

Theorem ownc_balance_bin : forall fuel s c op f g, post s (cbin_o fuel s c op f g).
Proof. intros. apply kbal_post. apply cbin_o_bal. Qed.
Theorem ownc_balance_not : forall s c f, post s (cnot_o s c f).
Proof. intros. apply kbal_post. apply cnot_o_bal. Qed.
Theorem ownc_balance_op : forall fuel s c o f g, post s (cop_o fuel s c o f g).
Proof. intros. apply kbal_post. apply cop_o_bal. Qed.
Theorem ownc_balance_ite : forall fuel s c f g h, post s (cite_o fuel s c f g h).
Proof. intros. apply kbal_post. apply cite_o_bal. Qed.

(** `not_edge` allocates nothing: it never reports out-of-memory *)
Theorem ownc_not_never_oom : forall s c f, eres_code (cnot_o s c f) <> 1.
Proof.
  intros s c f. unfold OomOwnC.cnot_o, OomOwnC.onot_o, eclone_ret.
  destruct (e_clone KBcdd terms tid s f) as [s1|]; simpl; [|discriminate].
  destruct (e_not KBcdd terms tid s1 f); simpl; discriminate.
Qed.

Definition ccounts_ok (o : eres C) : Prop :=
  forall s', eres_st o = Some s' ->
    CInv s' /\ WF (to_snap s') /\ rc_exact_b (to_snap s') [] = true.

Theorem ownc_counts_op : forall fuel s c o f g, CInv s -> terms_unique_b terms = true ->
  ccounts_ok (cop_o fuel s c o f g).
Proof. intros fuel s c o f g H Ht s'. apply (kown_post_counts KBcdd terms nl tid C s); auto. apply ownc_balance_op. Qed.
Theorem ownc_counts_not : forall s c f, CInv s -> terms_unique_b terms = true ->
  ccounts_ok (cnot_o s c f).
Proof. intros s c f H Ht s'. apply (kown_post_counts KBcdd terms nl tid C s); auto. apply ownc_balance_not. Qed.
Theorem ownc_counts_ite : forall fuel s c f g h, CInv s -> terms_unique_b terms = true ->
  ccounts_ok (cite_o fuel s c f g h).
Proof. intros fuel s c f g h H Ht s'. apply (kown_post_counts KBcdd terms nl tid C s); auto. apply ownc_balance_ite. Qed.

Theorem ownc_err_collect_op : forall fuel s c o f g s' c', CInv s ->
  cop_o fuel s c o f g = EErr s' c' -> rolled s s'.
Proof.
  intros fuel s c o f g s' c' H E. apply (kown_post_rollback KBcdd terms nl tid C s s' c' H).
  rewrite <- E. apply ownc_balance_op.
Qed.
Theorem ownc_err_collect_ite : forall fuel s c f g h s' c', CInv s ->
  cite_o fuel s c f g h = EErr s' c' -> rolled s s'.
Proof.
  intros fuel s c f g h s' c' H E. apply (kown_post_rollback KBcdd terms nl tid C s s' c' H).
  rewrite <- E. apply ownc_balance_ite.
Qed.

End Thms.
