(** * C14x - the hypotheses are satisfiable, every outcome occurs, and the statements
      have teeth: the seeded guard placement violates them

    [ex3o] is the table [ex3] of Mgr/OomExamples.v (3 levels, 6 nodes, h0 = l0 /\ l1 /\ l2,
    ...) as a state of the interleaving model: exact counts, five tokens of thread 0
    (the handles).  On it: the outcomes of [not_o] for the capacities 0 .. 10 (the same
    OOM-or-not and node counts as [not_nc] of Mgr/Oom.v), the garbage a failed run
    leaves behind with exact counts, the collection that removes it, and the
    REFUTATIONS: with the guards of the recursor created only after both `?`
    ([guards_late_ternary], the seeded `ternary` slip; [guards_late_all]) a failing
    second branch leaks the first branch's edge: BALANCE (statement 1) is violated and
    the collection does NOT return the table to the reachable part of the original
    (statement 4) - for the sequential and for the parallel recursor. *)

From Coq Require Import List NArith PArith Bool Arith Lia Permutation.
From OxiVerif Require Import DD.Table DD.TableProofs DD.Sem DD.Build DD.Apply DD.ApplyProofs
  Mgr.Conc Mgr.ConcBase Mgr.ConcProofs Mgr.ConcSnap Mgr.ConcGc Mgr.ConcGcProofs
  Mgr.OomOwn Mgr.OomOwnProofs Mgr.OomOwnSafe Mgr.OomOwnGc Mgr.OomOwnThms.
Import ListNotations.

Definition ex_terms : list (N * N) := [(0%N, 0%N); (1%N, 1%N)].
Definition T0 : edge := E (RT 0).
Definition T1 : edge := E (RT 1).

Definition ex3o : cst := mkCst
  [(6%positive, mkC 0 [E (RN 2); E (RN 4)] 1);
   (5%positive, mkC 0 [E (RN 4); T0] 1);
   (4%positive, mkC 1 [E (RN 1); T0] 2);
   (3%positive, mkC 0 [T1; T0] 1);
   (2%positive, mkC 1 [T1; T0] 2);
   (1%positive, mkC 2 [T1; T0] 2)]
  [(0, E (RN 5)); (0, E (RN 3)); (0, E (RN 2)); (0, E (RN 1)); (0, E (RN 6))].

Example ex3o_inv : CInv KBdd ex_terms 3 ex3o.
Proof. apply cinv_b_spec. vm_compute. reflexivity. Qed.

Example ex_terms_ok : bterms_ok ex_terms /\ terms_unique_b ex_terms = true.
Proof.
  split; [|reflexivity]. split; [|split; [eexists; reflexivity | split; [eexists; reflexivity|]]].
  2: { intros t0 t1 H0 H1. vm_compute in H0, H1. inversion H0; inversion H1; subst. discriminate. }
  intros x v H. unfold ex_terms in H.
  destruct x as [|[q|q|]]; simpl in H; try discriminate; inversion H; auto.
Qed.

(** the empty association-list cache and the cache that stores nothing *)
Example ex_cache_ok : forall t, COK ex_terms 3 acache ac_get t [] /\ COK ex_terms 3 unit nc_get t tt.
Proof. intros t. split; intros code args h G; discriminate. Qed.

Example ex3o_stored : forall i, In i [1; 2; 3; 4; 5; 6]%positive -> stored ex_terms (cn ex3o) (RN i).
Proof. intros i H. simpl in H. repeat (destruct H as [<-|H]; [reflexivity|]). destruct H. Qed.

Example ex3o_state : CInv KBdd ex_terms 3 ex3o /\ bterms_ok ex_terms /\
  terms_unique_b ex_terms = true /\ COK ex_terms 3 acache ac_get (cn ex3o) [] /\
  (forall i, In i [1; 2; 3; 4; 5; 6]%positive -> stored ex_terms (cn ex3o) (RN i)).
Proof.
  exact (conj ex3o_inv (conj (proj1 ex_terms_ok) (conj (proj2 ex_terms_ok)
          (conj (proj1 (ex_cache_ok (cn ex3o))) ex3o_stored)))).
Qed.

(** outcome (0 = result, 1 = out of memory, 2 = stuck), stored nodes, tokens owned,
    result, executable invariant *)
Definition oout {C} (r : ores C) :=
  (ores_code r, option_map cnode_count (ores_st r),
   option_map (fun s => length (cown s)) (ores_st r), ores_ref r,
   option_map (cinv_b KBdd ex_terms 3) (ores_st r)).

(** not (l0 /\ l1 /\ l2): as [ex3_not] of Mgr/OomExamples.v; five tokens after a
    failure, six after a success, counts exact *)
Example ex3o_not : forall p,
  map (fun cap => oout (not_on ex_terms 3 0 cap p guards_code ex3o (RN 5))) [0; 6; 7; 8; 9; 10] =
  [(1, Some 6, Some 5, None, Some true); (1, Some 6, Some 5, None, Some true);
   (1, Some 7, Some 5, None, Some true); (1, Some 8, Some 5, None, Some true);
   (0, Some 9, Some 6, Some (RN 9), Some true); (0, Some 9, Some 6, Some (RN 9), Some true)].
Proof. intros [|]; vm_compute; reflexivity. Qed.

Example ex3o_xor_ite :
  map (fun cap => oout (bin_on ex_terms 3 0 cap true guards_code ex3o OXor (RN 5) (RN 2))) [6; 7; 8; 9] =
  [(1, Some 6, Some 5, None, Some true); (1, Some 7, Some 5, None, Some true);
   (1, Some 8, Some 5, None, Some true); (0, Some 9, Some 6, Some (RN 9), Some true)] /\
  map (fun cap => oout (ite_on ex_terms 3 0 cap false guards_code ex3o (RN 2) (RN 5) (RN 1))) [6; 7; 8] =
  [(1, Some 6, Some 5, None, Some true); (1, Some 7, Some 5, None, Some true);
   (0, Some 8, Some 6, Some (RN 8), Some true)].
Proof. split; vm_compute; reflexivity. Qed.

(** the failed run with capacity 8 leaves two dead nodes (7: count 1 = its parent 8,
    8: count 0), the tokens are literally the caller's, and the collection removes
    exactly the two: the table is the original one *)
Example ex3o_not_garbage :
  match not_on ex_terms 3 0 8 false guards_code ex3o (RN 5) with
  | OErr s' _ =>
      cown s' = cown ex3o /\
      map (fun p => (fst p, crc (snd p))) (cn s') =
        [(8%positive, 0%N); (7%positive, 1%N); (6%positive, 1%N); (5%positive, 1%N);
         (4%positive, 2%N); (3%positive, 1%N); (2%positive, 2%N); (1%positive, 2%N)] /\
      collect KBdd ex_terms 3 s' = ex3o
  | _ => False
  end.
Proof. vm_compute. repeat split; reflexivity. Qed.

(** instance of statement 3 (TOTAL): its hypotheses hold for [ex3o] *)
Example ex3o_total : forall cap par fuel i j k, S 3 <= fuel ->
  In i [1; 2; 3; 4; 5; 6]%positive -> In j [1; 2; 3; 4; 5; 6]%positive ->
  In k [1; 2; 3; 4; 5; 6]%positive ->
  own_total ex_terms 3 acache ac_get
    (ite_o ex_terms 3 0 cap gt_no acache ac_get ac_add par guards_code fuel ex3o [] (RN i) (RN j) (RN k)).
Proof.
  intros cap par fuel i j k Hf Hi Hj Hk.
  apply (own_total_ite ex_terms 3 0 cap gt_no acache ac_get ac_add par (proj1 ex_terms_ok) ac_lossy);
    auto using ex3o_inv, ex3o_stored. apply (proj1 (ex_cache_ok _)).
Qed.

(** ** Refutations: the variant with the guards created after the second `?` *)

(** what a leak looks like: the run fails, the thread owns one token more than before
    (so BALANCE is false), and after the collection a node that did not exist before
    the operation is still stored (so ROLLBACK is false) *)
Definition leaks {C} (s : cst) (o : ores C) : Prop :=
  match o with
  | OErr s' _ =>
      ~ Permutation (cown s') (cown s) /\
      length (cown s') = S (length (cown s)) /\
      exists id, cfind (cn s) id = None /\
                 cfind (cn (collect KBdd ex_terms 3 s')) id <> None
  | _ => False
  end.

Lemma leak_by_length : forall s s' : cst, length (cown s') = S (length (cown s)) ->
  ~ Permutation (cown s') (cown s).
Proof. intros s s' L P. apply Permutation_length in P. lia. Qed.

(** the seeded slip of `ParallelRecursor::ternary` (and its sequential analogue):
    if x2 then x0 else x1 with 8 slots - the then-branch creates a node, the
    else-branch runs out of memory, the then-result is forgotten *)
Theorem own_balance_late_ternary_refuted : forall p,
  leaks ex3o (ite_on ex_terms 3 0 8 p guards_late_ternary ex3o (RN 1) (RN 3) (RN 2)) /\
  own_post ex_terms 3 0 unit ex3o (ite_on ex_terms 3 0 8 p guards_code ex3o (RN 1) (RN 3) (RN 2)) /\
  ores_code (ite_on ex_terms 3 0 8 p guards_code ex3o (RN 1) (RN 3) (RN 2)) = 1.
Proof.
  intros p. split; [|split; [apply own_balance_ite | destruct p; vm_compute; reflexivity]].
  destruct p.
  - remember (ite_on ex_terms 3 0 8 true guards_late_ternary ex3o (RN 1) (RN 3) (RN 2)) as o eqn:Eo.
    vm_compute in Eo. subst o. unfold leaks.
    split; [apply leak_by_length; reflexivity|]. split; [reflexivity|].
    exists 7%positive. split; [reflexivity|]. vm_compute. discriminate.
  - remember (ite_on ex_terms 3 0 8 false guards_late_ternary ex3o (RN 1) (RN 3) (RN 2)) as o eqn:Eo.
    vm_compute in Eo. subst o. unfold leaks.
    split; [apply leak_by_length; reflexivity|]. split; [reflexivity|].
    exists 7%positive. split; [reflexivity|]. vm_compute. discriminate.
Qed.

(** the same slip in `unary` / `binary` *)
Theorem own_balance_late_unary_binary_refuted : forall p,
  leaks ex3o (not_on ex_terms 3 0 8 p guards_late_all ex3o (RN 6)) /\
  leaks ex3o (bin_on ex_terms 3 0 8 p guards_late_all ex3o OXor (RN 1) (RN 6)).
Proof.
  intros p. destruct p; split.
  - remember (not_on ex_terms 3 0 8 true guards_late_all ex3o (RN 6)) as o eqn:Eo.
    vm_compute in Eo. subst o. unfold leaks.
    split; [apply leak_by_length; reflexivity|]. split; [reflexivity|].
    exists 7%positive. split; [reflexivity|]. vm_compute. discriminate.
  - remember (bin_on ex_terms 3 0 8 true guards_late_all ex3o OXor (RN 1) (RN 6)) as o eqn:Eo.
    vm_compute in Eo. subst o. unfold leaks.
    split; [apply leak_by_length; reflexivity|]. split; [reflexivity|].
    exists 7%positive. split; [reflexivity|]. vm_compute. discriminate.
  - remember (not_on ex_terms 3 0 8 false guards_late_all ex3o (RN 6)) as o eqn:Eo.
    vm_compute in Eo. subst o. unfold leaks.
    split; [apply leak_by_length; reflexivity|]. split; [reflexivity|].
    exists 7%positive. split; [reflexivity|]. vm_compute. discriminate.
  - remember (bin_on ex_terms 3 0 8 false guards_late_all ex3o OXor (RN 1) (RN 6)) as o eqn:Eo.
    vm_compute in Eo. subst o. unfold leaks.
    split; [apply leak_by_length; reflexivity|]. split; [reflexivity|].
    exists 7%positive. split; [reflexivity|]. vm_compute. discriminate.
Qed.
