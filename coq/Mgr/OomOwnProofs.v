(** * C14x - ownership balance and exact reference counts of the bounded apply
      algorithms, for every outcome (invariant-free part)

    For every table, token multiset, cache, capacity, recursor, fuel and operands:
    whatever [not_o] / [bin_o] / [ite_o] (Mgr/OomOwn.v, guard placement of the code)
    return,

      BALANCE  [OOk s' _ r]: the tokens owned afterwards are the tokens owned before
               plus one token for [r];  [OErr s' _]: exactly the tokens owned before
               (as multisets: nothing leaked, nothing released twice);
      FRAME    every node stored before is stored afterwards with the same level and
               children ([ext]);
      COUNTS   the invariant [CInv] of Mgr/ConcProofs.v (table structurally intact,
               owned edges valid, reference counts EXACT = owners + parents) is
               preserved.

    The walk through the algorithms is done once for the combinator [rec2]
    ([rec2_bal]); [bal s l o] is the balance of a computation that additionally
    consumes the tokens [l] (the continuation of the recursors consumes the two
    sub-results). *)

From Coq Require Import List NArith PArith Bool Arith Lia Permutation.
From OxiVerif Require Import DD.Table DD.TableProofs DD.Sem DD.Build DD.Apply
  Mgr.Conc Mgr.ConcBase Mgr.ConcProofs Mgr.OomOwn.
Import ListNotations.

Arguments N.add : simpl never.
Arguments N.sub : simpl never.
Arguments N.mul : simpl never.

(** ** multisets of tokens *)

Definition ref_dec : forall a b : ref, {a = b} + {a <> b}.
Proof. decide equality; [apply N.eq_dec | apply Pos.eq_dec]. Defined.

Definition edge_dec : forall a b : edge, {a = b} + {a <> b}.
Proof. decide equality; [apply Bool.bool_dec | apply ref_dec]. Defined.

Definition tok_dec : forall a b : nat * edge, {a = b} + {a <> b}.
Proof. decide equality; [apply edge_dec | apply Nat.eq_dec]. Defined.

(** equal as multisets *)
Definition meq (l l' : list (nat * edge)) : Prop :=
  forall x, count_occ tok_dec l x = count_occ tok_dec l' x.

Lemma meq_perm : forall l l', meq l l' <-> Permutation l l'.
Proof. intros l l'. symmetry. apply (Permutation_count_occ tok_dec). Qed.

Lemma count_occ_cons_split : forall (a : nat * edge) l x,
  count_occ tok_dec (a :: l) x = count_occ tok_dec [a] x + count_occ tok_dec l x.
Proof. intros a l x. simpl. destruct (tok_dec a x); lia. Qed.

Ltac split_cons :=
  repeat match goal with
         | |- context [count_occ tok_dec (?a :: ?l) ?x] =>
           lazymatch l with
           | nil => fail
           | _ => rewrite (count_occ_cons_split a l x)
           end
         end.

(** [intro x. generalize (M1 x) .. (Mn x). mq.] *)
Ltac mq :=
  cbn [OomOwn.tokr cown cn];
  repeat rewrite count_occ_app;
  split_cons;
  repeat rewrite count_occ_nil;
  intros; lia.

Lemma meq_refl : forall l, meq l l.
Proof. intros l x. reflexivity. Qed.

Lemma meq_In : forall l l' x, meq l l' -> In x l -> In x l'.
Proof.
  intros l l' x H Hin. apply (count_occ_In tok_dec). rewrite <- (H x).
  apply (count_occ_In tok_dec). exact Hin.
Qed.

Lemma take_tok_meq : forall x own own', take_tok x own = Some own' -> meq own ([x] ++ own').
Proof.
  induction own as [|y r IH]; intros own' H; simpl in H; [discriminate|].
  destruct (tok_eqb x y) eqn:E.
  - apply tok_eqb_eq in E. subst y. inversion H; subst. apply meq_refl.
  - destruct (take_tok x r) as [r'|] eqn:Er; [|discriminate]. inversion H; subst.
    specialize (IH r' eq_refl). intro z. specialize (IH z). simpl in *.
    destruct (tok_dec y z); destruct (tok_dec x z); lia.
Qed.

Section Proofs.
Variable terms : list (N * N).
Variable nl : nat.
Variable tid : nat.
Variable cap : nat.

Notation CInv := (CInv KBdd terms nl).
Notation tokr := (tokr tid).
Notation o_clone := (o_clone terms tid).
Notation o_drop := (o_drop terms tid).
Notation o_goi := (o_goi terms nl tid cap).
Notation o_reduce := (o_reduce terms nl tid cap).
Notation unwind := (unwind terms tid).

(** every node stored in [s] is stored in [s'] with the same level and children *)
Definition ext (s s' : cst) : Prop :=
  forall id nd, cfind (cn s) id = Some nd ->
    exists nd', cfind (cn s') id = Some nd' /\ cl nd' = cl nd /\ cch nd' = cch nd.

Definition frame_ok (s s' : cst) : Prop := ext s s' /\ (CInv s -> CInv s').

Lemma ext_refl : forall s, ext s s.
Proof. intros s id nd F. exists nd. auto. Qed.

Lemma ext_trans : forall a b c, ext a b -> ext b c -> ext a c.
Proof.
  intros a b c H1 H2 id nd F. destruct (H1 id nd F) as [nd1 [F1 [L1 C1]]].
  destruct (H2 id nd1 F1) as [nd2 [F2 [L2 C2]]]. exists nd2. split; [exact F2|]. split; congruence.
Qed.

Lemma frame_refl : forall s, frame_ok s s.
Proof. intros s. split; [apply ext_refl | auto]. Qed.

Lemma frame_trans : forall a b c, frame_ok a b -> frame_ok b c -> frame_ok a c.
Proof. intros a b c [E1 I1] [E2 I2]. split; [eapply ext_trans; eauto | auto]. Qed.

Lemma ext_shape : forall s s', cn_shape (cn s') = cn_shape (cn s) -> ext s s'.
Proof. intros s s' E id nd F. apply (shape_eq_find (cn s) (cn s') id nd (eq_sym E) F). Qed.

Lemma tokr_RN : forall id, tokr (RN id) = [(tid, E (RN id))].
Proof. reflexivity. Qed.

Lemma E_edge_ok : forall t id nd, cfind t id = Some nd -> edge_ok_b KBdd terms t (E (RN id)) = true.
Proof. intros t id nd F. unfold Conc.edge_ok_b. simpl. rewrite F. reflexivity. Qed.

(** ** the primitives *)

Lemma o_clone_spec : forall s r s', o_clone s r = Some s' ->
  meq (cown s') (tokr r ++ cown s) /\ frame_ok s s'.
Proof.
  intros s r s' H. destruct r as [x|id]; unfold OomOwn.o_clone in H.
  - destruct (cref_ok_b terms (cn s) (RT x)); inversion H; subst.
    split; [apply meq_refl | apply frame_refl].
  - destruct (cfind (cn s) id) as [nd|] eqn:F; [|discriminate]. inversion H; subst. simpl.
    split; [apply meq_refl|]. split.
    + apply ext_shape. simpl. apply cn_shape_rc_upd.
    + intros I. apply (inv_retain KBdd terms nl s tid (E (RN id)) id I eq_refl).
      apply (E_edge_ok _ _ _ F).
Qed.

Lemma o_drop_spec : forall s r s', o_drop s r = Some s' ->
  meq (tokr r ++ cown s') (cown s) /\ frame_ok s s'.
Proof.
  intros s r s' H. destruct r as [x|id]; unfold OomOwn.o_drop in H.
  - destruct (cref_ok_b terms (cn s) (RT x)); inversion H; subst.
    split; [apply meq_refl | apply frame_refl].
  - destruct (cfind (cn s) id) as [nd|] eqn:F; [|discriminate].
    destruct (N.eqb (crc nd) 0); [discriminate|].
    destruct (take_tok (tid, E (RN id)) (cown s)) as [own'|] eqn:Ht; [|discriminate].
    inversion H; subst. simpl. split.
    + pose proof (take_tok_meq _ _ _ Ht) as M. intro x. generalize (M x). mq.
    + split.
      * apply ext_shape. simpl. apply cn_shape_rc_upd.
      * intros I. apply (inv_release KBdd terms nl s tid (E (RN id)) id own' I eq_refl Ht).
Qed.

Lemma take_toks_meq : forall t e own own1, take_toks tid [E t; E e] own = Some own1 ->
  meq own (tokr t ++ tokr e ++ own1).
Proof.
  intros t e own own1 H. simpl in H.
  destruct t as [x|i]; destruct e as [y|j]; simpl in *.
  - inversion H; subst. apply meq_refl.
  - destruct (take_tok (tid, E (RN j)) own) as [o1|] eqn:H1; [|discriminate].
    inversion H; subst. exact (take_tok_meq _ _ _ H1).
  - destruct (take_tok (tid, E (RN i)) own) as [o1|] eqn:H1; [|discriminate].
    inversion H; subst. exact (take_tok_meq _ _ _ H1).
  - destruct (take_tok (tid, E (RN i)) own) as [o1|] eqn:H1; [|discriminate].
    destruct (take_tok (tid, E (RN j)) o1) as [o2|] eqn:H2; [|discriminate].
    inversion H; subst.
    pose proof (take_tok_meq _ _ _ H1) as M1. pose proof (take_tok_meq _ _ _ H2) as M2.
    intro x. generalize (M1 x) (M2 x). mq.
Qed.

(** `node.drop_with(|e| drop_edge(e))` of a node that owns its child edges *)
Lemma inv_release_children : forall ch t own own1, CInv (mkCst t own) ->
  take_toks tid ch own = Some own1 -> CInv (mkCst (dec_children t ch) own1).
Proof.
  induction ch as [|e r IH]; intros t own own1 I H; simpl in H.
  - inversion H; subst. exact I.
  - simpl dec_children. destruct (eref e) as [x|id] eqn:Er.
    + simpl. apply (IH t own own1 I H).
    + destruct (take_tok (tid, e) own) as [o1|] eqn:H1; [|discriminate]. simpl.
      apply (IH (rc_dec id t) o1 own1); [|exact H].
      apply (inv_release KBdd terms nl (mkCst t own) tid e id o1 I Er H1).
Qed.

Lemma cmax_ge : forall t id nd, cfind t id = Some nd -> (id <= cmax t)%positive.
Proof.
  induction t as [|[i n] r IH]; intros id nd F; simpl in F; [discriminate|].
  simpl. destruct (Pos.eqb_spec i id) as [->|_].
  - apply Pos.le_max_l.
  - etransitivity; [apply (IH id nd F) | apply Pos.le_max_r].
Qed.

Lemma cfresh_absent : forall t, cfind t (cfresh t) = None.
Proof.
  intros t. destruct (cfind t (cfresh t)) as [nd|] eqn:F; [|reflexivity].
  pose proof (cmax_ge t _ nd F). unfold cfresh in *. lia.
Qed.

Lemma o_goi_spec : forall s lvl t e,
  match o_goi s lvl t e with
  | GOk s' h => meq (tokr t ++ tokr e ++ cown s') (tokr h ++ cown s) /\ frame_ok s s'
  | GErr s' => meq (tokr t ++ tokr e ++ cown s') (cown s) /\ frame_ok s s'
  | GStuck => True
  end.
Proof.
  intros s lvl t e. unfold OomOwn.o_goi.
  destruct (node_pre_b KBdd terms nl (cn s) lvl [E t; E e]) eqn:Hpre; [|exact I].
  destruct (take_toks tid [E t; E e] (cown s)) as [own1|] eqn:Ht; [|exact I].
  pose proof (take_toks_meq _ _ _ _ Ht) as M.
  destruct (find_shape (cn s) lvl [E t; E e]) as [id|] eqn:Hf.
  - destruct (dec_ok_b (cn s) [E t; E e]); [|exact I]. cbn [cown cn]. split.
    + intro x. generalize (M x). mq.
    + split.
      * apply ext_shape. cbn [cn]. unfold rc_inc. rewrite cn_shape_rc_upd, cn_shape_dec_children.
        reflexivity.
      * intros H. apply (inv_goi_found KBdd terms nl s tid lvl _ own1 id H Ht Hf).
  - destruct (Nat.ltb (cnode_count s) cap).
    + cbn [cown cn]. split.
      * intro x. generalize (M x). mq.
      * split.
        -- intros id nd F. exists nd. cbn [cn]. rewrite cfind_cons.
           destruct (Pos.eqb_spec (cfresh (cn s)) id) as [Eq|_]; [|auto].
           rewrite <- Eq, cfresh_absent in F. discriminate.
        -- intros H. apply (inv_goi_new KBdd terms nl s tid lvl _ own1 _ H Hpre Ht Hf).
           apply cfresh_absent.
    + destruct (dec_ok_b (cn s) [E t; E e]); [|exact I]. cbn [cown cn]. split.
      * intro x. generalize (M x). mq.
      * split.
        -- apply ext_shape. cbn [cn]. apply cn_shape_dec_children.
        -- intros H. apply (inv_release_children _ (cn s) (cown s) own1); [|exact Ht].
           destruct s; exact H.
Qed.

Lemma ref_eqb_eq : forall a b, ref_eqb a b = true <-> a = b.
Proof.
  intros [x|i] [y|j]; simpl; split; intros H; try discriminate; try congruence.
  - apply N.eqb_eq in H. congruence.
  - inversion H. apply N.eqb_refl.
  - apply Pos.eqb_eq in H. congruence.
  - inversion H. apply Pos.eqb_refl.
Qed.

Lemma o_reduce_spec : forall s lvl t e,
  match o_reduce s lvl t e with
  | GOk s' h => meq (tokr t ++ tokr e ++ cown s') (tokr h ++ cown s) /\ frame_ok s s'
  | GErr s' => meq (tokr t ++ tokr e ++ cown s') (cown s) /\ frame_ok s s'
  | GStuck => True
  end.
Proof.
  intros s lvl t e. unfold OomOwn.o_reduce. destruct (ref_eqb t e) eqn:Eq.
  - destruct (o_drop s e) as [s1|] eqn:Hd; [|exact I].
    destruct (o_drop_spec _ _ _ Hd) as [M Fr]. split; [|exact Fr].
    intro x. generalize (M x). mq.
  - apply o_goi_spec.
Qed.

(** the tokens the guards of a frame release *)
Fixpoint gtoks (fr : frame) : list (nat * edge) :=
  match fr with
  | [] => []
  | (r, true) :: rest => tokr r ++ gtoks rest
  | (_, false) :: rest => gtoks rest
  end.

Lemma unwind_spec : forall fr s s', unwind s fr = Some s' ->
  meq (gtoks fr ++ cown s') (cown s) /\ frame_ok s s'.
Proof.
  induction fr as [|[r g] rest IH]; intros s s' H; simpl in H.
  - inversion H; subst. split; [apply meq_refl | apply frame_refl].
  - destruct g.
    + destruct (o_drop s r) as [s1|] eqn:Hd; [|discriminate].
      destruct (o_drop_spec _ _ _ Hd) as [M1 F1]. destruct (IH s1 s' H) as [M2 F2].
      split; [|eapply frame_trans; eauto].
      intro x. generalize (M1 x) (M2 x). cbn [gtoks]. mq.

    + apply (IH s s' H).
Qed.

(** ** balance of a computation that consumes the tokens [l] *)

Section Alg.
Variable gt : ref -> ref -> bool.
Variable C : Type.
Variable cget : C -> N -> list ref -> option ref.
Variable cadd : C -> N -> list ref -> ref -> C.
Variable par : nat -> bool.

Definition bal (s : cst) (l : list (nat * edge)) (o : ores C) : Prop :=
  match o with
  | OOk s' _ r => meq (l ++ cown s') (tokr r ++ cown s) /\ frame_ok s s'
  | OErr s' _ => meq (l ++ cown s') (cown s) /\ frame_ok s s'
  | OStuck => True
  end.

Notation err := (err terms tid C).
Notation clone_ret := (clone_ret terms tid C).
Notation finish := (finish terms nl tid cap C cadd).
Notation not_o := (not_o terms nl tid cap C cget cadd par guards_code).
Notation bin_o := (bin_o terms nl tid cap gt C cget cadd par guards_code).
Notation ite_o := (ite_o terms nl tid cap gt C cget cadd par guards_code).

Lemma err_bal : forall s c fr,
  match err s c fr with
  | OErr s' c' => c' = c /\ meq (gtoks fr ++ cown s') (cown s) /\ frame_ok s s'
  | OStuck => True
  | OOk _ _ _ => False
  end.
Proof.
  intros s c fr. unfold OomOwn.err. destruct (unwind s fr) as [s'|] eqn:H; [|exact I].
  destruct (unwind_spec _ _ _ H). auto.
Qed.

Lemma clone_ret_bal : forall s c h, bal s [] (clone_ret s c h).
Proof.
  intros s c h. unfold OomOwn.clone_ret. destruct (o_clone s h) as [s'|] eqn:H; [|exact I].
  simpl. apply (o_clone_spec _ _ _ H).
Qed.

Lemma finish_bal : forall lvl code args s2 c2 t e,
  bal s2 (tokr t ++ tokr e) (finish lvl code args s2 c2 t e).
Proof.
  intros lvl code args s2 c2 t e. unfold OomOwn.finish.
  pose proof (o_reduce_spec s2 lvl t e) as R.
  destruct (o_reduce s2 lvl t e) as [s3 h|s3|]; [| |exact I].
  - simpl. destruct R as [M Fr]. split; [|exact Fr].
    intro x. generalize (M x). mq.
  - pose proof (err_bal s3 c2 []) as Eb. destruct (err s3 c2 []) as [| s4 c4 |]; [destruct Eb| |exact I].
    destruct Eb as [_ [M4 F4]]. destruct R as [M Fr]. simpl.
    split; [|eapply frame_trans; eauto].
    intro x. generalize (M x) (M4 x). cbn [gtoks]. mq.
Qed.

(** a failing `?` with the locals [fr] after a computation with balance [l0 + gtoks fr] *)
Lemma err_after : forall s s2 c2 fr l,
  meq (cown s2) (gtoks fr ++ l ++ cown s) -> frame_ok s s2 ->
  match err s2 c2 fr with
  | OErr s' _ => meq (cown s') (l ++ cown s) /\ frame_ok s s'
  | OStuck => True
  | OOk _ _ _ => False
  end.
Proof.
  intros s s2 c2 fr l M Fr. pose proof (err_bal s2 c2 fr) as Eb.
  destruct (err s2 c2 fr) as [| s3 c3 |]; [exact Eb| |exact I].
  destruct Eb as [_ [M3 F3]]. split; [|eapply frame_trans; eauto].
  intro x. generalize (M x) (M3 x). mq.
Qed.

(** the recursors with the guard placement of the code *)
Lemma rec2_bal : forall p s r1 run2 fin,
  bal s [] r1 ->
  (forall s1 c1, bal s1 [] (run2 s1 c1)) ->
  (forall s2 c2 t e, bal s2 (tokr t ++ tokr e) (fin s2 c2 t e)) ->
  bal s [] (rec2 terms tid C p false r1 run2 fin).
Proof.
  intros p s r1 run2 fin B1 B2 Bf.
  assert (Hok : forall s1 c1 t, bal s [] (OOk s1 c1 t) ->
            bal s [] (match run2 s1 c1 with
                      | OStuck => OStuck
                      | OErr s2 c2 => err s2 c2 [(t, negb false)]
                      | OOk s2 c2 e => fin s2 c2 t e
                      end)).
  { intros s1 c1 t [M1 F1]. specialize (B2 s1 c1).
    destruct (run2 s1 c1) as [s2 c2 e|s2 c2|]; [| |exact I].
    - destruct B2 as [M2 F2]. specialize (Bf s2 c2 t e).
      destruct (fin s2 c2 t e) as [s3 c3 h|s3 c3|]; [| |exact I].
      + destruct Bf as [M3 F3]. simpl. split; [|eapply frame_trans; [|exact F3]; eapply frame_trans; eauto].
        intro x. generalize (M1 x) (M2 x) (M3 x). mq.
      + destruct Bf as [M3 F3]. simpl. split; [|eapply frame_trans; [|exact F3]; eapply frame_trans; eauto].
        intro x. generalize (M1 x) (M2 x) (M3 x). mq.
    - destruct B2 as [M2 F2]. simpl negb.
      pose proof (err_after s s2 c2 [(t, true)] [] ) as Ea. simpl in Ea.
      assert (Mx : meq (cown s2) ((tokr t ++ []) ++ cown s)).
      { intro x. generalize (M1 x) (M2 x). mq. }
      specialize (Ea Mx (frame_trans _ _ _ F1 F2)).
      destruct (err s2 c2 [(t, true)]) as [| s3 c3 |]; [destruct Ea| |exact I].
      simpl. exact Ea. }
  destruct p; simpl.
  - (* parallel *)
    unfold par2. destruct r1 as [s1 c1 t|s1 c1|]; [apply Hok; exact B1| |exact I].
    destruct B1 as [M1 F1]. specialize (B2 s1 c1).
    destruct (run2 s1 c1) as [s2 c2 e|s2 c2|]; [| |exact I].
    + destruct B2 as [M2 F2]. simpl negb.
      pose proof (err_after s s2 c2 [(e, true)] []) as Ea. simpl in Ea.
      assert (Mx : meq (cown s2) ((tokr e ++ []) ++ cown s)).
      { intro x. generalize (M1 x) (M2 x). mq. }
      specialize (Ea Mx (frame_trans _ _ _ F1 F2)).
      destruct (err s2 c2 [(e, true)]) as [| s3 c3 |]; [destruct Ea| |exact I].
      simpl. exact Ea.
    + destruct B2 as [M2 F2]. unfold OomOwn.err. simpl.
      split; [|apply (frame_trans _ _ _ F1 F2)].
      intro x. generalize (M1 x) (M2 x). mq.
  - (* sequential *)
    unfold seq2. destruct r1 as [s1 c1 t|s1 c1|]; [apply Hok; exact B1| |exact I].
    destruct B1 as [M1 F1]. unfold OomOwn.err. simpl. split; [exact M1 | exact F1].
Qed.

(** ** the three algorithms *)

Lemma not_o_bal : forall fuel s c f, bal s [] (not_o fuel s c f).
Proof.
  induction fuel as [|n IH]; intros s c f; simpl; [exact I|].
  destruct f as [x|id].
  - destruct (view (tsnap terms) (RT x)) as [[|b]|]; try exact I.
    destruct (term_of (tsnap terms) (negb b)); [|exact I].
    simpl. split; [apply meq_refl | apply frame_refl].
  - destruct (cfind (cn s) id) as [nd|]; [|exact I].
    destruct (cget c code_not [RN id]) as [h|]; [apply clone_ret_bal|].
    destruct (cch nd) as [|ft [|fe [|x r]]]; try exact I.
    apply rec2_bal; [apply IH | intros; apply IH | intros; apply finish_bal].
Qed.

Lemma bin_o_bal : forall fuel s c op f g, bal s [] (bin_o fuel s c op f g).
Proof.
  induction fuel as [|n IH]; intros s c op f g; [exact I|].
  cbn [OomOwn.bin_o].
  destruct (terminal_bin gt (tsnap terms) op f g) as [h|r|o a b|]; try exact I.
  - apply clone_ret_bal.
  - apply not_o_bal.
  - destruct (cget c (op_code o) [a; b]) as [h|]; [apply clone_ret_bal|].
    destruct (cinner s f) as [fnode|]; [|exact I].
    destruct (cinner s g) as [gnode|]; [|exact I].
    destruct (ccof2 f fnode _) as [[ft fe]|]; [|exact I].
    destruct (ccof2 g gnode _) as [[gt' ge]|]; [|exact I].
    apply rec2_bal; [apply IH | intros; apply IH | intros; apply finish_bal].
Qed.

Lemma ite_o_bal : forall fuel s c f g h, bal s [] (ite_o fuel s c f g h).
Proof.
  induction fuel as [|n IH]; intros s c f g h; [exact I|].
  cbn [OomOwn.ite_o].
  destruct (ref_eqb g h); [apply clone_ret_bal|].
  destruct (ref_eqb f g); [apply bin_o_bal|].
  destruct (ref_eqb f h); [apply bin_o_bal|].
  destruct (view (tsnap terms) f) as [[|b]|]; [| apply clone_ret_bal | exact I].
  destruct (view (tsnap terms) g) as [[|[|]]|]; destruct (view (tsnap terms) h) as [[|[|]]|];
    try exact I; try apply bin_o_bal; try apply not_o_bal; try apply clone_ret_bal.
  destruct (cget c code_ite [f; g; h]) as [r|]; [apply clone_ret_bal|].
  destruct (cinner s f) as [fnode|]; [|exact I].
  destruct (cinner s g) as [gnode|]; [|exact I].
  destruct (cinner s h) as [hnode|]; [|exact I].
  destruct (ccof2 f fnode _) as [[ft fe]|]; [|exact I].
  destruct (ccof2 g gnode _) as [[gt' ge]|]; [|exact I].
  destruct (ccof2 h hnode _) as [[ht he]|]; [|exact I].
  apply rec2_bal; [apply IH | intros; apply IH | intros; apply finish_bal].
Qed.

End Alg.
End Proofs.
