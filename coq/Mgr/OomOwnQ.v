(** * C14x - substitution and quantification with explicit ownership (model)

    Executable definitions only; continues Mgr/OomOwn.v (state, primitives, frames,
    recursors) for the functions of oxidd-rules-bdd/src/simple/apply_rec.rs that keep
    `EdgeDropGuard`s / an `EdgeVecDropGuard` alive ACROSS a fallible call (the plain
    apply algorithms defuse their guards before the only fallible call, [reduce]):

      [prepare_fill_o]  `substitute_prepare`, second loop:
                        `let mut res = EdgeVecDropGuard::new(manager, Vec::..);`
                        then per level `res.push(clone_edge(e))` or
                        `res.push(level.get_or_insert(InnerNode::new(level, [t, e]))?)`
                        - the `?` leaves with the vector guarded: every edge pushed so
                        far is dropped.  ([late 0 = true]: the seeded variant in which
                        the vector is only wrapped for the final `Ok(..)`.)
                        The first loop (`subst[level] = Some(r)`, borrowed edges, no
                        ownership) is [prepare_slots] of DD/Quant.v.
      [subst_o]         `substitute`: `let (t, e) = rec.subst(..)?;
                        let res = apply_ite(rec, subst[level].borrowed(), t.borrowed(),
                        e.borrowed())?;` - both guards are alive during `apply_ite` and
                        its `?`, and are dropped when the function returns.
      [substitute_o]    `substitute_edge`: `let subst = substitute_prepare(..)?;
                        substitute(manager, rec, edge, &subst, id)` - the vector guard
                        is dropped when the function returns (result or error).
      [quant_o]         `quant::<Q>`: `let (t, e) = rec.binary(..)?; let res =
                        if flevel == vlevel { apply_bin::<Q>(rec, t.borrowed(),
                        e.borrowed()) } else { reduce(level, t.into_edge(),
                        e.into_edge()) }?;`; [cset_pop] = `set_pop` (borrowed).

    Cache keys as in DD/Quant.v ([qcode], [code_subst id]).  Not modelled:
    [restrict], [apply_quant] (same shapes: `rec.binary`/`ternary` + [reduce] /
    [apply_bin] with live guards). *)

From Coq Require Import List NArith PArith Bool Arith FMapPositive.
From OxiVerif Require Import DD.Table DD.Sem DD.Build DD.Apply DD.Quant Mgr.Conc Mgr.OomOwn.
Import ListNotations.

(** result of [substitute_prepare]: the vector of owned edges *)
Inductive vres : Type :=
| VOk (s : cst) (v : list ref)
| VErr (s : cst)
| VStuck.

(** guard placement: the vector guard of [substitute_prepare] created too late *)
Definition guards_late_vec : nat -> bool := fun a => Nat.eqb a 0.

Section OwnQ.
Variable terms : list (N * N).
Variable nl : nat.
Variable tid : nat.
Variable cap : nat.

Notation tsnap := (tsnap terms).
Notation o_clone := (o_clone terms tid).
Notation o_goi := (o_goi terms nl tid cap).
Notation unwind := (unwind terms tid).

(** the locals of an `EdgeVecDropGuard` ([g = true]) / a plain `Vec<Edge>` *)
Definition vframe (g : bool) (v : list ref) : frame := map (fun r => (r, g)) v.

(** `substitute_prepare`, second loop; [acc] = the edges pushed so far, last first *)
Fixpoint prepare_fill_o (lv : bool) (s : cst) (slots : list (option ref)) (level : nat)
  (acc : list ref) : vres :=
  match slots with
  | [] => VOk s (rev acc)
  | Some e :: rest =>
    match o_clone s e with
    | Some s1 => prepare_fill_o lv s1 rest (S level) (e :: acc)
    | None => VStuck
    end
  | None :: rest =>
    match term_of tsnap true, term_of tsnap false with
    | Some t1, Some t0 =>
      (* the two `EdgeDropGuard`s around the terminal edges are defused by
         `into_edge()` before the call *)
      match o_goi s level (RT t1) (RT t0) with
      | GOk s1 r => prepare_fill_o lv s1 rest (S level) (r :: acc)
      | GErr s1 =>
        match unwind s1 (vframe (negb lv) (rev acc)) with
        | Some s2 => VErr s2
        | None => VStuck
        end
      | GStuck => VStuck
      end
    | _, _ => VStuck
    end
  end.

Section Alg.
Variable gt : ref -> ref -> bool.
Variable C : Type.
Variable cget : C -> N -> list ref -> option ref.
Variable cadd : C -> N -> list ref -> ref -> C.
Variable par : nat -> bool.
Variable late : nat -> bool.

Notation err := (err terms tid C).
Notation clone_ret := (clone_ret terms tid C).
Notation rec2 := (rec2 terms tid C).
Notation finish := (finish terms nl tid cap C cadd).
Notation bin_o := (bin_o terms nl tid cap gt C cget cadd par late).
Notation ite_o := (ite_o terms nl tid cap gt C cget cadd par late).

(** a fallible call [o] made while the guards [t], [e] of the recursor are alive;
    they are dropped when the function returns, whatever the outcome; on success the
    result is entered into the cache *)
Definition with_guards (code : N) (args : list ref) (t e : ref) (o : ores C) : ores C :=
  match o with
  | OOk s3 c3 r =>
    match unwind s3 [(e, true); (t, true)] with
    | Some s4 => OOk s4 (cadd c3 code args r) r
    | None => OStuck
    end
  | OErr s3 c3 => err s3 c3 [(e, true); (t, true)]
  | OStuck => OStuck
  end.

(** [substitute]; [sv] = the vector of [substitute_prepare] (borrowed) *)
Fixpoint subst_o (fuel : nat) (s : cst) (c : C) (f : ref) (sv : list ref) (id : N) : ores C :=
  match fuel with
  | O => OStuck
  | S n =>
    match f with
    | RT _ => clone_ret s c f
    | RN fid =>
      match cfind (cn s) fid with
      | None => OStuck
      | Some fnode =>
        match nth_error sv (cl fnode) with
        | None => clone_ret s c f                       (* level >= subst.len() *)
        | Some rep =>
          match cget c (code_subst id) [f] with
          | Some h => clone_ret s c h
          | None =>
            match cch fnode with
            | [ft; fe] =>
              rec2 (par n) (late 4) (subst_o n s c (eref ft) sv id)
                   (fun s1 c1 => subst_o n s1 c1 (eref fe) sv id)
                   (fun s2 c2 t e =>
                      with_guards (code_subst id) [f] t e (ite_o (S nl) s2 c2 rep t e))
            | _ => OStuck
            end
          end
        end
      end
    end
  end.

(** [substitute_edge] *)
Definition substitute_o (fuel : nat) (s : cst) (c : C) (f : ref) (slots : list (option ref))
  (id : N) : ores C :=
  match prepare_fill_o (late 0) s slots 0 [] with
  | VStuck => OStuck
  | VErr s1 => OErr s1 c
  | VOk s1 sv =>
    match subst_o fuel s1 c f sv id with
    | OOk s2 c2 r =>
      match unwind s2 (vframe true sv) with
      | Some s3 => OOk s3 c2 r
      | None => OStuck
      end
    | OErr s2 c2 => err s2 c2 (vframe true sv)
    | OStuck => OStuck
    end
  end.

(** [set_pop] (oxidd-rules-bdd/src/lib.rs) *)
Fixpoint cset_pop (fuel : nat) (s : cst) (set : ref) (until : nat) : option ref :=
  match set with
  | RT _ => Some set
  | RN id =>
    match fuel with
    | O => None
    | S n =>
      match cfind (cn s) id with
      | None => None
      | Some nd =>
        if Nat.leb until (cl nd) then Some set
        else match cch nd with
             | [t; _] => cset_pop n s (eref t) until
             | _ => None
             end
      end
    end
  end.

(** [quant::<Q>] *)
Fixpoint quant_o (fuel : nat) (s : cst) (c : C) (q : quantifier) (f vars : ref) : ores C :=
  match fuel with
  | O => OStuck
  | S n =>
    match f with
    | RT _ =>
      if negb (is_unique q) || (match vars with RT _ => true | RN _ => false end)
      then clone_ret s c f
      else match term_of tsnap false with Some t => OOk s c (RT t) | None => OStuck end
    | RN fid =>
      match cfind (cn s) fid with
      | None => OStuck
      | Some fnode =>
        let flevel := cl fnode in
        match (if is_unique q then Some vars else cset_pop (S nl) s vars flevel) with
        | None => OStuck
        | Some (RT _) => clone_ret s c f
        | Some (RN vid as vars') =>
          match cfind (cn s) vid with
          | None => OStuck
          | Some vnode =>
            let vlevel := cl vnode in
            if is_unique q && Nat.ltb vlevel flevel then
              match term_of tsnap false with Some t => OOk s c (RT t) | None => OStuck end
            else
              match cget c (qcode q) [f; vars'] with
              | Some h => clone_ret s c h
              | None =>
                match cch fnode,
                      (if Nat.eqb vlevel flevel
                       then match cch vnode with [vt; _] => Some (eref vt) | _ => None end
                       else Some vars') with
                | [ft; fe], Some vt =>
                  rec2 (par n) (late 2) (quant_o n s c q (eref ft) vt)
                       (fun s1 c1 => quant_o n s1 c1 q (eref fe) vt)
                       (fun s2 c2 t e =>
                          if Nat.eqb flevel vlevel
                          then with_guards (qcode q) [f; vars'] t e
                                           (bin_o (S nl) s2 c2 (qop q) t e)
                          else finish flevel (qcode q) [f; vars'] s2 c2 t e)
                | _, _ => OStuck
                end
              end
          end
        end
      end
    end
  end.

End Alg.
End OwnQ.

(** instances: no cache, one recursor at every depth, standard fuel *)
Definition substitute_on (terms : list (N * N)) (nl tid cap : nat) (p : bool) (late : nat -> bool)
  (s : cst) (f : ref) (slots : list (option ref)) : ores unit :=
  substitute_o terms nl tid cap gt_no unit nc_get nc_add (fun _ => p) late (S nl) s tt f slots 0%N.
Definition quant_on (terms : list (N * N)) (nl tid cap : nat) (p : bool) (late : nat -> bool)
  (s : cst) (q : quantifier) (f vars : ref) : ores unit :=
  quant_o terms nl tid cap gt_no unit nc_get nc_add (fun _ => p) late (S nl) s tt q f vars.
