(** * C14x - balance, frame and exact counts for substitution and quantification
      (invariant-free part; continues Mgr/OomOwnProofs.v)

    [prepare_fill_o] (`substitute_prepare`), [subst_o] (`substitute`),
    [substitute_o] (`substitute_edge`) and [quant_o] (`quant`) of Mgr/OomOwnQ.v with
    the guard placement of the code: for every outcome the tokens owned afterwards are
    the caller's (plus the result / the vector on success), old nodes are kept, [CInv]
    is preserved. *)

From Coq Require Import List NArith PArith Bool Arith Lia Permutation.
From OxiVerif Require Import DD.Table DD.TableProofs DD.Sem DD.Build DD.Apply DD.Quant
  Mgr.Conc Mgr.ConcBase Mgr.ConcProofs Mgr.OomOwn Mgr.OomOwnProofs Mgr.OomOwnQ.
Import ListNotations.

Section Proofs.
Variable terms : list (N * N).
Variable nl : nat.
Variable tid : nat.
Variable cap : nat.

Notation CInv := (CInv KBdd terms nl).
Notation tokr := (tokr tid).
Notation o_clone := (o_clone terms tid).
Notation o_goi := (o_goi terms nl tid cap).
Notation unwind := (unwind terms tid).
Notation gtoks := (gtoks tid).
Notation frame_ok := (frame_ok terms nl).

(** the tokens for a vector of owned edges *)
Definition toks (v : list ref) : list (nat * edge) := flat_map tokr v.

Lemma gtoks_vframe : forall v, gtoks (vframe true v) = toks v.
Proof. induction v as [|a r IH]; simpl; [reflexivity|]. rewrite IH. reflexivity. Qed.

Lemma gtoks_vframe_false : forall v, gtoks (vframe false v) = [].
Proof. induction v as [|a r IH]; simpl; auto. Qed.

Lemma toks_app : forall a b, toks (a ++ b) = toks a ++ toks b.
Proof. intros a b. unfold toks. apply flat_map_app. Qed.

Lemma toks_rev : forall l, meq (toks (rev l)) (toks l).
Proof.
  induction l as [|a r IH]; [apply meq_refl|]. simpl rev. rewrite toks_app. simpl.
  rewrite app_nil_r. intro x. generalize (IH x). mq.
Qed.

Definition vbal (s : cst) (acc : list ref) (o : vres) : Prop :=
  match o with
  | VOk s' v => meq (toks acc ++ cown s') (toks v ++ cown s) /\ frame_ok s s'
  | VErr s' => meq (toks acc ++ cown s') (cown s) /\ frame_ok s s'
  | VStuck => True
  end.

Lemma prepare_fill_bal : forall slots s level acc,
  vbal s acc (prepare_fill_o terms nl tid cap false s slots level acc).
Proof.
  induction slots as [|[e|] rest IH]; intros s level acc; simpl.
  - split; [|apply frame_refl]. intro x. generalize (toks_rev acc x). mq.
  - destruct (o_clone s e) as [s1|] eqn:Hc; [|exact I].
    destruct (o_clone_spec terms nl tid _ _ _ Hc) as [M1 F1].
    specialize (IH s1 (S level) (e :: acc)).
    destruct (prepare_fill_o terms nl tid cap false s1 rest (S level) (e :: acc)) as [s' v|s'|]; [| |exact I];
      destruct IH as [M F]; (split; [|eapply frame_trans; eauto]);
      intro x; generalize (M x) (M1 x); simpl toks; mq.
  - destruct (term_of (tsnap terms) true) as [t1|]; [|exact I].
    destruct (term_of (tsnap terms) false) as [t0|]; [|exact I].
    pose proof (o_goi_spec terms nl tid cap s level (RT t1) (RT t0)) as G.
    destruct (o_goi s level (RT t1) (RT t0)) as [s1 r|s1|]; [| |exact I].
    + destruct G as [M1 F1]. specialize (IH s1 (S level) (r :: acc)).
      destruct (prepare_fill_o terms nl tid cap false s1 rest (S level) (r :: acc)) as [s' v|s'|]; [| |exact I];
        destruct IH as [M F]; (split; [|eapply frame_trans; eauto]);
        intro x; generalize (M x) (M1 x); simpl toks; mq.
    + destruct G as [M1 F1]. simpl negb.
      destruct (unwind s1 (vframe true (rev acc))) as [s2|] eqn:Hu; [|exact I].
      destruct (unwind_spec terms nl tid _ _ _ Hu) as [M2 F2]. rewrite gtoks_vframe in M2.
      split; [|eapply frame_trans; eauto].
      intro x. generalize (M1 x) (M2 x) (toks_rev acc x). mq.
Qed.

Section Alg.
Variable gt : ref -> ref -> bool.
Variable C : Type.
Variable cget : C -> N -> list ref -> option ref.
Variable cadd : C -> N -> list ref -> ref -> C.
Variable par : nat -> bool.

Notation bal := (bal terms nl tid C).
Notation err := (err terms tid C).
Notation clone_ret := (clone_ret terms tid C).
Notation bin_o := (bin_o terms nl tid cap gt C cget cadd par guards_code).
Notation ite_o := (ite_o terms nl tid cap gt C cget cadd par guards_code).
Notation with_guards := (with_guards terms tid C cadd).
Notation subst_o := (subst_o terms nl tid cap gt C cget cadd par guards_code).
Notation substitute_o := (substitute_o terms nl tid cap gt C cget cadd par guards_code).
Notation quant_o := (quant_o terms nl tid cap gt C cget cadd par guards_code).

Lemma with_guards_bal : forall code args s2 t e o, bal s2 [] o ->
  bal s2 (tokr t ++ tokr e) (with_guards code args t e o).
Proof.
  intros code args s2 t e [s3 c3 r|s3 c3|] B; simpl; [| |exact I].
  - destruct B as [M3 F3].
    destruct (OomOwn.o_drop terms tid s3 e) as [s4|] eqn:H1; [|exact I].
    destruct (OomOwn.o_drop terms tid s4 t) as [s5|] eqn:H2; [|exact I].
    destruct (o_drop_spec terms nl tid _ _ _ H1) as [M4 F4].
    destruct (o_drop_spec terms nl tid _ _ _ H2) as [M5 F5]. simpl.
    split; [|eapply frame_trans; [exact F3|]; eapply frame_trans; eauto].
    intro x. generalize (M3 x) (M4 x) (M5 x). mq.
  - destruct B as [M3 F3].
    pose proof (err_bal terms nl tid C s3 c3 [(e, true); (t, true)]) as Eb.
    destruct (err s3 c3 [(e, true); (t, true)]) as [|s4 c4|]; [destruct Eb| |exact I].
    destruct Eb as [_ [M4 F4]]. simpl. split; [|eapply frame_trans; eauto].
    intro x. generalize (M3 x) (M4 x). cbn [OomOwnProofs.gtoks]. mq.
Qed.

Lemma subst_o_bal : forall fuel s c f sv id, bal s [] (subst_o fuel s c f sv id).
Proof.
  induction fuel as [|n IH]; intros s c f sv id; [exact I|]. cbn [OomOwnQ.subst_o].
  destruct f as [x|fid]; [apply clone_ret_bal|].
  destruct (cfind (cn s) fid) as [fnode|]; [|exact I].
  destruct (nth_error sv (cl fnode)) as [rep|]; [|apply clone_ret_bal].
  destruct (cget c (code_subst id) [RN fid]) as [h|]; [apply clone_ret_bal|].
  destruct (cch fnode) as [|ft [|fe [|x r]]]; try exact I.
  apply rec2_bal; [apply IH | intros; apply IH |].
  intros s2 c2 t e. apply with_guards_bal. apply ite_o_bal.
Qed.

Lemma substitute_o_bal : forall fuel s c f slots id, bal s [] (substitute_o fuel s c f slots id).
Proof.
  intros fuel s c f slots id. unfold OomOwnQ.substitute_o.
  change (guards_code 0) with false.
  pose proof (prepare_fill_bal slots s 0 []) as P.
  destruct (prepare_fill_o terms nl tid cap false s slots 0 []) as [s1 sv|s1|]; [| |exact I].
  - destruct P as [M1 F1]. pose proof (subst_o_bal fuel s1 c f sv id) as B.
    destruct (subst_o fuel s1 c f sv id) as [s2 c2 r|s2 c2|]; [| |exact I].
    + destruct B as [M2 F2]. destruct (unwind s2 (vframe true sv)) as [s3|] eqn:Hu; [|exact I].
      destruct (unwind_spec terms nl tid _ _ _ Hu) as [M3 F3]. rewrite gtoks_vframe in M3. simpl.
      split; [|eapply frame_trans; [exact F1|]; eapply frame_trans; eauto].
      intro x. generalize (M1 x) (M2 x) (M3 x). simpl toks. mq.
    + destruct B as [M2 F2].
      pose proof (err_bal terms nl tid C s2 c2 (vframe true sv)) as Eb.
      destruct (err s2 c2 (vframe true sv)) as [|s3 c3|]; [destruct Eb| |exact I].
      destruct Eb as [_ [M3 F3]]. rewrite gtoks_vframe in M3. simpl.
      split; [|eapply frame_trans; [exact F1|]; eapply frame_trans; eauto].
      intro x. generalize (M1 x) (M2 x) (M3 x). simpl toks. mq.
  - destruct P as [M1 F1]. simpl. split; [|exact F1]. intro x. generalize (M1 x). simpl toks. mq.
Qed.

Lemma quant_o_bal : forall fuel s c q f vars, bal s [] (quant_o fuel s c q f vars).
Proof.
  induction fuel as [|n IH]; intros s c q f vars; [exact I|]. cbn [OomOwnQ.quant_o].
  destruct f as [x|fid].
  - destruct (negb (is_unique q) || match vars with RT _ => true | RN _ => false end);
      [apply clone_ret_bal|].
    destruct (term_of (tsnap terms) false); [|exact I]. simpl. split; [apply meq_refl | apply frame_refl].
  - destruct (cfind (cn s) fid) as [fnode|]; [|exact I].
    destruct (if is_unique q then Some vars else cset_pop (S nl) s vars (cl fnode)) as [[x|vid]|];
      [apply clone_ret_bal| |exact I].
    destruct (cfind (cn s) vid) as [vnode|]; [|exact I].
    destruct (is_unique q && Nat.ltb (cl vnode) (cl fnode)).
    { destruct (term_of (tsnap terms) false); [|exact I]. simpl. split; [apply meq_refl | apply frame_refl]. }
    destruct (cget c (qcode q) [RN fid; RN vid]) as [h|]; [apply clone_ret_bal|].
    destruct (cch fnode) as [|ft [|fe [|x r]]]; try exact I.
    destruct (if Nat.eqb (cl vnode) (cl fnode)
              then match cch vnode with [vt; _] => Some (eref vt) | _ => None end
              else Some (RN vid)) as [vt|]; [|exact I].
    apply rec2_bal; [apply IH | intros; apply IH |].
    intros s2 c2 t e. destruct (Nat.eqb (cl fnode) (cl vnode)).
    + apply with_guards_bal. apply bin_o_bal.
    + apply finish_bal.
Qed.

End Alg.
End Proofs.
