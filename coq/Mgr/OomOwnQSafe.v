(** * C14x - substitution and quantification never get stuck
      (continues Mgr/OomOwnSafe.v)

    Under [CInv], stored operands (replacement functions, variable set), a cache
    satisfying [COK] (any [lossy] implementation), Boolean terminals and enough fuel,
    [prepare_fill_o], [subst_o], [substitute_o] and [quant_o] of Mgr/OomOwnQ.v (guard
    placement of the code) return a result or out-of-memory: the guards that are alive
    across `apply_ite` / `apply_bin` and the vector guard of `substitute_prepare`
    always find their tokens and positive counts when they are dropped. *)

From Coq Require Import List NArith PArith Bool Arith Lia Permutation.
From OxiVerif Require Import DD.Table DD.TableProofs DD.Sem DD.Build DD.Apply DD.ApplyProofs DD.Quant
  Mgr.Conc Mgr.ConcBase Mgr.ConcProofs Mgr.ConcGcProofs
  Mgr.OomOwn Mgr.OomOwnProofs Mgr.OomOwnSafe Mgr.OomOwnQ Mgr.OomOwnQProofs.
Import ListNotations.

Lemma lvl_code_subst : forall id, lvl_code (code_subst id) = false.
Proof. intros id. unfold lvl_code, code_subst. apply N.ltb_ge. lia. Qed.

Lemma lvl_code_q : forall q, lvl_code (qcode q) = true.
Proof. destruct q; reflexivity. Qed.

Section Safe.
Variable terms : list (N * N).
Variable nl : nat.
Variable tid : nat.
Variable cap : nat.
Hypothesis BT : bterms_ok terms.

Notation CInv := (CInv KBdd terms nl).
Notation tokr := (tokr tid).
Notation toks := (toks tid).
Notation gtoks := (gtoks tid).
Notation o_clone := (o_clone terms tid).
Notation o_drop := (o_drop terms tid).
Notation o_goi := (o_goi terms nl tid cap).
Notation unwind := (unwind terms tid).
Notation crlevel := (crlevel nl).
Notation tsnap := (tsnap terms).
Notation stored := (stored terms).
Notation minlvl := (minlvl nl).
Notation has2 := (has2 tid).
Notation frame_ok := (frame_ok terms nl).

(** dropping the guards of a frame whose guarded edges are owned and stored *)
Lemma unwind_enabled : forall fr s rest, CInv s ->
  (forall r, In (r, true) fr -> stored (cn s) r) ->
  meq (cown s) (gtoks fr ++ rest) -> exists s', unwind s fr = Some s'.
Proof.
  induction fr as [|[r g] fr IH]; intros s rest H St M; simpl; [eauto|].
  destruct g.
  - destruct (o_drop_enabled terms nl tid s r H (St r (or_introl eq_refl))) as [s1 Hd].
    { intros id Er. apply (tok_in tid _ r (gtoks fr ++ rest) id); [|exact Er].
      intro x. generalize (M x). cbn [OomOwnProofs.gtoks]. mq. }
    rewrite Hd. destruct (o_drop_spec terms nl tid _ _ _ Hd) as [M1 [X1 I1]].
    apply (IH s1 rest (I1 H)).
    + intros r' Hr'. eapply ext_stored; [exact X1|]. apply St. right. exact Hr'.
    + intro x. generalize (M x) (M1 x). cbn [OomOwnProofs.gtoks]. mq.
  - apply (IH s rest H); [|exact M]. intros r' Hr'. apply St. right. exact Hr'.
Qed.

Lemma term_of_distinct : forall t1 t0, term_of tsnap true = Some t1 -> term_of tsnap false = Some t0 ->
  ref_eqb (RT t1) (RT t0) = false.
Proof.
  intros t1 t0 H1 H0. unfold term_of in *. simpl in *.
  pose proof (proj2 (proj2 (proj2 BT)) t0 t1 H0 H1) as Ne.
  destruct (N.eqb_spec t1 t0); [congruence | reflexivity].
Qed.

(** ** substitute_prepare *)

Definition vsafe (o : vres) : Prop :=
  match o with
  | VOk s' v => forall x, In x v -> stored (cn s') x
  | VErr _ => True
  | VStuck => False
  end.

Lemma prepare_fill_safe : forall slots s level acc rest, CInv s ->
  (forall e, In (Some e) slots -> stored (cn s) e) -> level + length slots <= nl ->
  (forall x, In x acc -> stored (cn s) x) -> meq (cown s) (toks acc ++ rest) ->
  vsafe (prepare_fill_o terms nl tid cap false s slots level acc).
Proof.
  induction slots as [|[e|] slots IH]; intros s level acc rest H Ss Hl Sa M; simpl.
  - intros x Hx. apply Sa. apply in_rev. exact Hx.
  - destruct (o_clone_enabled terms tid s e (Ss e (or_introl eq_refl))) as [s1 Hc]. rewrite Hc.
    destruct (o_clone_spec terms nl tid _ _ _ Hc) as [M1 [X1 I1]].
    apply (IH s1 (S level) (e :: acc) rest (I1 H)).
    + intros e' He'. eapply ext_stored; [exact X1|]. apply Ss. right. exact He'.
    + simpl in Hl. lia.
    + intros x [<-|Hx]; eapply ext_stored; try exact X1; [apply Ss; left; reflexivity | apply Sa; exact Hx].
    + intro x. generalize (M x) (M1 x). simpl OomOwnQProofs.toks. mq.
  - destruct (term_of_total terms BT true) as [t1 T1]. destruct (term_of_total terms BT false) as [t0 T0].
    rewrite T1, T0. simpl in Hl.
    pose proof (o_goi_enabled terms nl tid cap s level (RT t1) (RT t0) H ltac:(lia)
                  (term_of_stored terms _ _ _ T1) (term_of_stored terms _ _ _ T0)
                  ltac:(simpl; lia) ltac:(simpl; lia) (term_of_distinct _ _ T1 T0)) as G.
    assert (H2 : has2 s (RT t1) (RT t0)) by (exists (cown s); apply meq_refl).
    specialize (G H2).
    pose proof (o_goi_spec terms nl tid cap s level (RT t1) (RT t0)) as Sp.
    destruct (o_goi s level (RT t1) (RT t0)) as [s1 r|s1|]; [| |destruct G].
    + destruct G as [id [nd [-> [F L]]]]. destruct Sp as [M1 [X1 I1]].
      apply (IH s1 (S level) (RN id :: acc) rest (I1 H)).
      * intros e' He'. eapply ext_stored; [exact X1|]. apply Ss. right. exact He'.
      * lia.
      * intros x [<-|Hx]; [apply stored_RN; eauto | eapply ext_stored; [exact X1 | apply Sa; exact Hx]].
      * intro x. generalize (M x) (M1 x). simpl OomOwnQProofs.toks. mq.
    + destruct Sp as [M1 [X1 I1]]. simpl negb.
      destruct (unwind_enabled (vframe true (rev acc)) s1 rest (I1 H)) as [s2 Hu].
      * intros r Hr. unfold vframe in Hr. apply in_map_iff in Hr. destruct Hr as [y [Ey Hy]].
        inversion Ey; subst. eapply ext_stored; [exact X1|]. apply Sa. apply in_rev. exact Hy.
      * rewrite gtoks_vframe. intro x. generalize (M x) (M1 x) (toks_rev tid acc x). mq.
      * rewrite Hu. exact I.
Qed.

Section Alg.
Variable gt : ref -> ref -> bool.
Variable C : Type.
Variable cget : C -> N -> list ref -> option ref.
Variable cadd : C -> N -> list ref -> ref -> C.
Variable par : nat -> bool.
Hypothesis Hlossy : lossy cget cadd.

Notation COK := (COK terms nl C cget).
Notation safe := (safe terms nl C cget).
Notation bal := (bal terms nl tid C).
Notation err := (err terms tid C).
Notation clone_ret := (clone_ret terms tid C).
Notation finish := (finish terms nl tid cap C cadd).
Notation bin_o := (bin_o terms nl tid cap gt C cget cadd par guards_code).
Notation ite_o := (ite_o terms nl tid cap gt C cget cadd par guards_code).
Notation with_guards := (with_guards terms tid C cadd).
Notation subst_o := (subst_o terms nl tid cap gt C cget cadd par guards_code).
Notation substitute_o := (substitute_o terms nl tid cap gt C cget cadd par guards_code).
Notation quant_o := (quant_o terms nl tid cap gt C cget cadd par guards_code).

Lemma err_safe : forall s c fr lb rest, CInv s -> COK (cn s) c ->
  (forall r, In (r, true) fr -> stored (cn s) r) -> meq (cown s) (gtoks fr ++ rest) ->
  safe lb (err s c fr).
Proof.
  intros s c fr lb rest H Hc St M. unfold OomOwn.err.
  destruct (unwind_enabled fr s rest H St M) as [s' Hu]. rewrite Hu.
  destruct (unwind_spec terms nl tid _ _ _ Hu) as [_ [X _]]. cbn [OomOwnSafe.safe].
  apply (COK_ext terms nl C cget _ _ _ X Hc).
Qed.

(** a fallible call made while the two guards of the recursor are alive *)
Lemma with_guards_safe : forall code args s2 t e o lb, CInv s2 -> bal s2 [] o -> safe lb o ->
  stored (cn s2) t -> stored (cn s2) e -> has2 s2 t e ->
  (forall r, In r args -> stored (cn s2) r) ->
  (lvl_code code = true -> minlvl (cn s2) args <= lb) ->
  safe lb (with_guards code args t e o).
Proof.
  intros code args s2 t e o lb H B S St Se [rest0 M0] Sa La.
  destruct o as [s3 c3 r|s3 c3|]; [| |destruct S].
  - destruct B as [M3 [X3 I3]]. destruct S as [C3 [Sr Lr]]. pose proof (I3 H) as H3.
    unfold OomOwnQ.with_guards.
    destruct (unwind_enabled [(e, true); (t, true)] s3 (tokr r ++ rest0) H3) as [s4 Hu].
    + intros x [Ex|[Ex|[]]]; inversion Ex; subst; eapply ext_stored; eauto.
    + intro x. generalize (M0 x) (M3 x). cbn [OomOwnProofs.gtoks]. mq.
    + rewrite Hu. destruct (unwind_spec terms nl tid _ _ _ Hu) as [_ [X4 _]]. cbn [OomOwnSafe.safe].
      assert (Sr4 : stored (cn s4) r) by (eapply ext_stored; eauto).
      assert (Lr4 : crlevel (cn s4) r = crlevel (cn s3) r) by (apply (ext_crlevel terms nl s3 s4 r X4 Sr)).
      split; [|split; [exact Sr4 | lia]].
      apply COK_add; auto.
      * eapply COK_ext; eauto.
      * intros x Hx. eapply ext_stored; [exact X4|]. eapply ext_stored; [exact X3|]. auto.
      * intros Hl. rewrite (ext_minlvl terms nl s2 s4 args (ext_trans _ _ _ X3 X4) Sa).
        specialize (La Hl). lia.
  - destruct B as [M3 [X3 I3]]. pose proof (I3 H) as H3. unfold OomOwnQ.with_guards.
    apply (err_safe s3 c3 _ lb rest0 H3 S).
    + intros x [Ex|[Ex|[]]]; inversion Ex; subst; eapply ext_stored; eauto.
    + intro x. generalize (M0 x) (M3 x). cbn [OomOwnProofs.gtoks]. mq.
Qed.

(** ** substitute *)
Lemma subst_o_safe : forall fuel s c f sv id, CInv s -> COK (cn s) c -> stored (cn s) f ->
  (forall x, In x sv -> stored (cn s) x) -> nl < fuel + crlevel (cn s) f ->
  safe 0 (subst_o fuel s c f sv id).
Proof.
  induction fuel as [|n IH]; intros s c f sv id H Hc Sf Sv Hfuel.
  { pose proof (crlevel_le terms nl s f H). lia. }
  cbn [OomOwnQ.subst_o]. destruct f as [x|fid]; [apply clone_ret_safe; auto; lia|].
  pose proof Sf as Sf'. apply stored_RN in Sf'. destruct Sf' as [fnode F]. rewrite F.
  destruct (nth_error sv (cl fnode)) as [rep|] eqn:Hn; [|apply clone_ret_safe; auto; lia].
  destruct (cget c (code_subst id) [RN fid]) as [h|] eqn:G.
  { destruct (Hc _ _ _ G) as [Sh _]. apply clone_ret_safe; auto. lia. }
  destruct (node_children terms nl s fid fnode H F) as [Hl [ft [fe [Ech [_ [_ [St [Se [Lt Le]]]]]]]]].
  rewrite Ech.
  assert (Lf : crlevel (cn s) (RN fid) = cl fnode) by (simpl; rewrite F; reflexivity).
  rewrite Lf in Hfuel.
  apply (rec2_safe terms nl tid C cget (par n) s 0 0); [exact H | apply subst_o_bal | | |].
  - apply IH; auto. lia.
  - intros s1 c1 H1 X1 C1. split; [apply subst_o_bal|].
    pose proof (ext_crlevel terms nl _ _ _ X1 Se) as Le1.
    apply IH; auto; [eapply ext_stored; eauto | intros x Hx; eapply ext_stored; eauto | lia].
  - intros s2 c2 t e H2 X2 C2 St2 Se2 _ _ T2.
    assert (Srep : stored (cn s2) rep).
    { eapply ext_stored; [exact X2|]. apply Sv. eapply nth_error_In; eauto. }
    apply (with_guards_safe _ _ s2); auto.
    + apply ite_o_bal.
    + eapply safe_weaken; [|apply (ite_o_safe terms nl tid cap BT gt C cget cadd par Hlossy); auto].
      * lia.
      * pose proof (minlvl_le_nl nl (cn s2) [rep; t; e]). lia.
    + intros r [<-|[]]. eapply ext_stored; eauto.
    + rewrite lvl_code_subst. discriminate.
Qed.

(** ** substitute_edge *)
Lemma substitute_o_safe : forall fuel s c f slots id, CInv s -> COK (cn s) c -> stored (cn s) f ->
  (forall e, In (Some e) slots -> stored (cn s) e) -> length slots <= nl -> S nl <= fuel ->
  safe 0 (substitute_o fuel s c f slots id).
Proof.
  intros fuel s c f slots id H Hc Sf Ss Hl Hfuel. unfold OomOwnQ.substitute_o.
  change (guards_code 0) with false.
  pose proof (prepare_fill_bal terms nl tid cap slots s 0 []) as P.
  pose proof (prepare_fill_safe slots s 0 [] (cown s) H Ss ltac:(simpl; lia)
                ltac:(intros x []) ltac:(apply meq_refl)) as V.
  destruct (prepare_fill_o terms nl tid cap false s slots 0 []) as [s1 sv|s1|]; [| |destruct V].
  - destruct P as [M1 [X1 I1]]. pose proof (I1 H) as H1.
    assert (C1 : COK (cn s1) c) by (eapply COK_ext; eauto).
    assert (Sf1 : stored (cn s1) f) by (eapply ext_stored; eauto).
    pose proof (subst_o_bal terms nl tid cap gt C cget cadd par fuel s1 c f sv id) as B.
    pose proof (subst_o_safe fuel s1 c f sv id H1 C1 Sf1 V ltac:(lia)) as S2.
    destruct (subst_o fuel s1 c f sv id) as [s2 c2 r|s2 c2|]; [| |destruct S2].
    + destruct B as [M2 [X2 I2]]. destruct S2 as [C2 [Sr _]]. pose proof (I2 H1) as H2.
      destruct (unwind_enabled (vframe true sv) s2 (tokr r ++ cown s) H2) as [s3 Hu].
      * intros x Hx. unfold vframe in Hx. apply in_map_iff in Hx. destruct Hx as [y [Ey Hy]].
        inversion Ey; subst. eapply ext_stored; [exact X2|]. apply V. exact Hy.
      * rewrite gtoks_vframe. intro x. generalize (M1 x) (M2 x). simpl OomOwnQProofs.toks. mq.
      * rewrite Hu. destruct (unwind_spec terms nl tid _ _ _ Hu) as [_ [X3 _]]. cbn [OomOwnSafe.safe].
        split; [eapply COK_ext; eauto|]. split; [eapply ext_stored; eauto | lia].
    + destruct B as [M2 [X2 I2]]. pose proof (I2 H1) as H2.
      apply (err_safe s2 c2 _ 0 (cown s) H2 S2).
      * intros x Hx. unfold vframe in Hx. apply in_map_iff in Hx. destruct Hx as [y [Ey Hy]].
        inversion Ey; subst. eapply ext_stored; [exact X2|]. apply V. exact Hy.
      * rewrite gtoks_vframe. intro x. generalize (M1 x) (M2 x). simpl OomOwnQProofs.toks. mq.
  - destruct P as [_ [X1 _]]. cbn [OomOwnSafe.safe]. apply (COK_ext terms nl C cget _ _ _ X1 Hc).
Qed.

(** ** set_pop and quant *)
Lemma cset_pop_ok : forall fuel s set until, CInv s -> stored (cn s) set ->
  nl < fuel + crlevel (cn s) set ->
  exists r, cset_pop fuel s set until = Some r /\ stored (cn s) r /\
            match r with RN _ => until <= crlevel (cn s) r | RT _ => True end.
Proof.
  induction fuel as [|n IH]; intros s set until H St Hf.
  { pose proof (crlevel_le terms nl s set H). lia. }
  destruct set as [x|id]; [exists (RT x); simpl; auto|].
  pose proof St as St'. apply stored_RN in St'. destruct St' as [nd F].
  cbn [cset_pop]. rewrite F.
  assert (Lf : crlevel (cn s) (RN id) = cl nd) by (simpl; rewrite F; reflexivity).
  destruct (Nat.leb_spec until (cl nd)) as [Le|Gt].
  - exists (RN id). rewrite Lf. auto.
  - destruct (node_children terms nl s id nd H F) as [Hl [ft [fe [Ech [_ [_ [Sft [_ [Lt _]]]]]]]]].
    rewrite Ech. apply IH; auto. lia.
Qed.

Lemma minlvl1 : forall t a, minlvl t [a] = Nat.min (crlevel t a) nl.
Proof. reflexivity. Qed.

Lemma quant_o_safe : forall fuel s c q f vars, CInv s -> COK (cn s) c ->
  stored (cn s) f -> stored (cn s) vars -> nl < fuel + crlevel (cn s) f ->
  safe (minlvl (cn s) [f]) (quant_o fuel s c q f vars).
Proof.
  induction fuel as [|n IH]; intros s c q f vars H Hc Sf Sv Hfuel.
  { pose proof (crlevel_le terms nl s f H). lia. }
  cbn [OomOwnQ.quant_o]. rewrite minlvl1. destruct f as [x|fid].
  - destruct (negb (is_unique q) || match vars with RT _ => true | RN _ => false end).
    + apply clone_ret_safe; auto. lia.
    + destruct (term_of_total terms BT false) as [t0 T0]. rewrite T0. simpl.
      split; [exact Hc|]. split; [apply (term_of_stored terms _ _ _ T0) | lia].
  - pose proof Sf as Sf'. apply stored_RN in Sf'. destruct Sf' as [fnode F]. rewrite F.
    assert (Lf : crlevel (cn s) (RN fid) = cl fnode) by (simpl; rewrite F; reflexivity).
    rewrite Lf in *.
    pose proof (stored_level_lt KBdd terms nl s fid fnode H F) as Hlf.
    assert (Hv : exists r, (if is_unique q then Some vars else cset_pop (S nl) s vars (cl fnode)) = Some r /\
                           stored (cn s) r /\
                           (is_unique q = false -> match r with RN _ => cl fnode <= crlevel (cn s) r | RT _ => True end)).
    { destruct (is_unique q).
      - exists vars. split; [reflexivity|]. split; [exact Sv | discriminate].
      - destruct (cset_pop_ok (S nl) s vars (cl fnode) H Sv ltac:(lia)) as [r [E [Sr Lr]]].
        exists r. auto. }
    destruct Hv as [vars' [Ev [Sv' Lv']]]. rewrite Ev.
    destruct vars' as [x|vid]; [apply clone_ret_safe; auto; lia|].
    pose proof Sv' as Sv''. apply stored_RN in Sv''. destruct Sv'' as [vnode Fv]. rewrite Fv.
    assert (Lvn : crlevel (cn s) (RN vid) = cl vnode) by (simpl; rewrite Fv; reflexivity).
    rewrite Lvn in Lv'.
    destruct (is_unique q && Nat.ltb (cl vnode) (cl fnode)) eqn:Eu.
    { destruct (term_of_total terms BT false) as [t0 T0]. rewrite T0. simpl.
      split; [exact Hc|]. split; [apply (term_of_stored terms _ _ _ T0) | lia]. }
    assert (Lfv : cl fnode <= cl vnode).
    { destruct (is_unique q); [|auto]. simpl in Eu. apply Nat.ltb_ge in Eu. exact Eu. }
    assert (Hm : minlvl (cn s) [RN fid; RN vid] = cl fnode).
    { rewrite minlvl2. rewrite Lf, Lvn. lia. }
    destruct (cget c (qcode q) [RN fid; RN vid]) as [h|] eqn:G.
    { destruct (Hc _ _ _ G) as [Sh [_ L]]. specialize (L (lvl_code_q q)).
      apply clone_ret_safe; auto. lia. }
    destruct (node_children terms nl s fid fnode H F) as [_ [ft [fe [Ech [_ [_ [St [Se [Lt Le]]]]]]]]].
    rewrite Ech.
    assert (Hvt : exists vt, (if Nat.eqb (cl vnode) (cl fnode)
                              then match cch vnode with [vt; _] => Some (eref vt) | _ => None end
                              else Some (RN vid)) = Some vt /\ stored (cn s) vt).
    { destruct (Nat.eqb (cl vnode) (cl fnode)); [|eauto].
      destruct (node_children terms nl s vid vnode H Fv) as [_ [v1 [v2 [Ev1 [_ [_ [S1 _]]]]]]].
      rewrite Ev1. eauto. }
    destruct Hvt as [vt [Evt Svt]]. rewrite Evt.
    apply (rec2_safe terms nl tid C cget (par n) s _ (S (cl fnode))); [exact H | apply quant_o_bal | | |].
    + eapply safe_weaken; [|apply IH; auto; lia]. rewrite minlvl1. lia.
    + intros s1 c1 H1 X1 C1. split; [apply quant_o_bal|].
      pose proof (ext_crlevel terms nl _ _ _ X1 Se) as Le1.
      eapply safe_weaken; [|apply IH; auto; try (eapply ext_stored; eauto); lia]. rewrite minlvl1. lia.
    + intros s2 c2 t e H2 X2 C2 St2 Se2 Lt2 Le2 T2.
      assert (Sargs : forall r, In r [RN fid; RN vid] -> stored (cn s2) r).
      { intros r [<-|[<-|[]]]; eapply ext_stored; eauto. }
      assert (Hm2 : minlvl (cn s2) [RN fid; RN vid] = cl fnode).
      { rewrite (ext_minlvl terms nl s s2 [RN fid; RN vid] X2); [exact Hm|].
        intros r [<-|[<-|[]]]; assumption. }
      destruct (Nat.eqb (cl fnode) (cl vnode)).
      * apply (with_guards_safe _ _ s2); auto.
        -- apply bin_o_bal.
        -- eapply safe_weaken; [|apply (bin_o_safe terms nl tid cap BT gt C cget cadd par Hlossy); auto].
           ++ rewrite minlvl2. lia.
           ++ pose proof (minlvl_le_nl nl (cn s2) [t; e]). lia.
        -- intros _. lia.
      * apply finish_safe; auto; lia.
Qed.

End Alg.
End Safe.
