(** * C14x - substitution and quantification: the statements, examples, refutation

    The four statements of Mgr/OomOwnThms.v (BALANCE, COUNTS, TOTAL, ROLLBACK) for
    [prepare_fill_o] (`substitute_prepare`), [substitute_o] (`substitute_edge` =
    `substitute_prepare` + `substitute` + drop of the vector guard) and [quant_o]
    (`quant`) of Mgr/OomOwnQ.v; the seeded slip of `substitute_prepare` (vector guard
    created only for the final `Ok`, [guards_late_vec]) is refuted on a concrete table
    with a level whose variable node does not exist yet. *)

From Coq Require Import List NArith PArith Bool Arith Lia Permutation.
From OxiVerif Require Import DD.Table DD.TableProofs DD.Sem DD.Build DD.Apply DD.ApplyProofs DD.Quant
  Mgr.Conc Mgr.ConcBase Mgr.ConcProofs Mgr.ConcSnap Mgr.ConcGc Mgr.ConcGcProofs
  Mgr.OomOwn Mgr.OomOwnProofs Mgr.OomOwnSafe Mgr.OomOwnGc Mgr.OomOwnThms
  Mgr.OomOwnQ Mgr.OomOwnQProofs Mgr.OomOwnQSafe Mgr.OomOwnExamples.
Import ListNotations.

Section Thms.
Variable terms : list (N * N).
Variable nl : nat.
Variable tid : nat.
Variable cap : nat.
Variable gt : ref -> ref -> bool.
Variable C : Type.
Variable cget : C -> N -> list ref -> option ref.
Variable cadd : C -> N -> list ref -> ref -> C.
Variable par : nat -> bool.

Notation CInv := (CInv KBdd terms nl).
Notation toks := (toks tid).
Notation own_post := (own_post terms nl tid C).
Notation own_total := (own_total terms nl C cget).
Notation rolled_back := (rolled_back terms nl).
Notation stored := (stored terms).
Notation COK := (COK terms nl C cget).
Notation prepare_fill_o := (prepare_fill_o terms nl tid cap false).
Notation substitute_o := (substitute_o terms nl tid cap gt C cget cadd par guards_code).
Notation quant_o := (quant_o terms nl tid cap gt C cget cadd par guards_code).

(** `substitute_prepare`: on success the thread additionally owns the vector *)
Theorem own_balance_prepare : forall s slots,
  match prepare_fill_o s slots 0 [] with
  | VOk s' v => Permutation (cown s') (toks v ++ cown s) /\ ext s s' /\ (CInv s -> CInv s')
  | VErr s' => Permutation (cown s') (cown s) /\ ext s s' /\ (CInv s -> CInv s')
  | VStuck => True
  end.
Proof.
  intros s slots. pose proof (prepare_fill_bal terms nl tid cap slots s 0 []) as P.
  destruct (OomOwnQ.prepare_fill_o terms nl tid cap false s slots 0 []) as [s' v|s'|]; [| |exact I];
    destruct P as [M [X I0]]; (split; [apply meq_perm; exact M | auto]).
Qed.

Theorem own_balance_substitute : forall fuel s c f slots id,
  own_post s (substitute_o fuel s c f slots id).
Proof. intros. apply bal_post. apply substitute_o_bal. Qed.

Theorem own_balance_quant : forall fuel s c q f vars, own_post s (quant_o fuel s c q f vars).
Proof. intros. apply bal_post. apply quant_o_bal. Qed.

Theorem own_counts_substitute : forall fuel s c f slots id s', CInv s -> terms_unique_b terms = true ->
  ores_st (substitute_o fuel s c f slots id) = Some s' ->
  CInv s' /\ WF (to_snap KBdd terms nl s') /\ rc_exact_b (to_snap KBdd terms nl s') [] = true.
Proof.
  intros fuel s c f slots id s' H Ht. apply (own_post_counts terms nl tid C s); auto.
  apply own_balance_substitute.
Qed.

Theorem own_counts_quant : forall fuel s c q f vars s', CInv s -> terms_unique_b terms = true ->
  ores_st (quant_o fuel s c q f vars) = Some s' ->
  CInv s' /\ WF (to_snap KBdd terms nl s') /\ rc_exact_b (to_snap KBdd terms nl s') [] = true.
Proof.
  intros fuel s c q f vars s' H Ht. apply (own_post_counts terms nl tid C s); auto.
  apply own_balance_quant.
Qed.

Theorem own_err_collect_substitute : forall fuel s c f slots id s' c', CInv s ->
  substitute_o fuel s c f slots id = OErr s' c' -> rolled_back s s'.
Proof.
  intros fuel s c f slots id s' c' H E. apply (own_post_rollback terms nl tid C s s' c' H).
  rewrite <- E. apply own_balance_substitute.
Qed.

Theorem own_err_collect_quant : forall fuel s c q f vars s' c', CInv s ->
  quant_o fuel s c q f vars = OErr s' c' -> rolled_back s s'.
Proof.
  intros fuel s c q f vars s' c' H E. apply (own_post_rollback terms nl tid C s s' c' H).
  rewrite <- E. apply own_balance_quant.
Qed.

Section Total.
Hypothesis BT : bterms_ok terms.
Hypothesis Hlossy : lossy cget cadd.

Theorem own_total_substitute : forall fuel s c f slots id, CInv s -> COK (cn s) c ->
  stored (cn s) f -> (forall e, In (Some e) slots -> stored (cn s) e) -> length slots <= nl ->
  S nl <= fuel -> own_total (substitute_o fuel s c f slots id).
Proof.
  intros fuel s c f slots id H Hc Sf Ss Hl Hf. eapply safe_total.
  apply (substitute_o_safe terms nl tid cap BT gt C cget cadd par Hlossy); auto.
Qed.

Theorem own_total_quant : forall fuel s c q f vars, CInv s -> COK (cn s) c ->
  stored (cn s) f -> stored (cn s) vars -> S nl <= fuel -> own_total (quant_o fuel s c q f vars).
Proof.
  intros fuel s c q f vars H Hc Sf Sv Hf. eapply safe_total.
  apply (quant_o_safe terms nl tid cap BT gt C cget cadd par Hlossy); auto. lia.
Qed.
End Total.

End Thms.

(** ** examples and the refutation *)

(** x0 and x2 exist, the variable node of level 1 does not *)
Definition ex2o : cst := mkCst
  [(2%positive, mkC 0 [T1; T0] 1); (1%positive, mkC 2 [T1; T0] 1)]
  [(0, E (RN 2)); (0, E (RN 1))].

Example ex2o_inv : CInv KBdd ex_terms 3 ex2o.
Proof. apply cinv_b_spec. vm_compute. reflexivity. Qed.

(** x0[x0 := x2] with the levels 0..1 prepared (level 1 is not in the substitution:
    its variable node has to be created): with 2 slots `substitute_prepare` fails at
    level 1 after having cloned x2 for level 0; with 3 slots the result is x2 *)
Example ex2o_substitute : forall p,
  map (fun cap => oout (substitute_on ex_terms 3 0 cap p guards_code ex2o (RN 2) [Some (RN 1); None])) [2; 3] =
  [(1, Some 2, Some 2, None, Some true); (0, Some 3, Some 3, Some (RN 1), Some true)].
Proof. intros [|]; vm_compute; reflexivity. Qed.

Example ex3o_quant :
  map (fun cap => oout (quant_on ex_terms 3 0 cap false guards_code ex3o QUnique (RN 6) (RN 3))) [6; 7; 8] =
  [(1, Some 6, Some 5, None, Some true); (1, Some 7, Some 5, None, Some true);
   (0, Some 8, Some 6, Some (RN 8), Some true)] /\
  map (fun cap => oout (quant_on ex_terms 3 0 cap true guards_code ex3o QExists (RN 6) (RN 2))) [6; 7] =
  [(1, Some 6, Some 5, None, Some true); (0, Some 7, Some 6, Some (RN 7), Some true)] /\
  map (fun cap => oout (substitute_on ex_terms 3 0 cap true guards_code ex3o (RN 5)
                          [Some (RN 1); Some (RN 3); Some (RN 2)])) [6; 7] =
  [(1, Some 6, Some 5, None, Some true); (0, Some 7, Some 6, Some (RN 5), Some true)].
Proof. repeat split; vm_compute; reflexivity. Qed.

(** the seeded slip of `substitute_prepare`: the cloned replacement edge is leaked -
    one token more than before, and after the collection the count of x2 is 2
    instead of 1 (ROLLBACK's entry-by-entry equality is false) *)
Theorem own_balance_late_vec_refuted : forall p,
  (match substitute_on ex_terms 3 0 2 p guards_late_vec ex2o (RN 2) [Some (RN 1); None] with
   | OErr s' _ =>
       ~ Permutation (cown s') (cown ex2o) /\
       length (cown s') = S (length (cown ex2o)) /\
       option_map crc (cfind (cn (collect KBdd ex_terms 3 s')) 1%positive) = Some 2%N /\
       option_map crc (cfind (cn (collect KBdd ex_terms 3 ex2o)) 1%positive) = Some 1%N
   | _ => False
   end) /\
  own_post ex_terms 3 0 unit ex2o
    (substitute_on ex_terms 3 0 2 p guards_code ex2o (RN 2) [Some (RN 1); None]) /\
  ores_code (substitute_on ex_terms 3 0 2 p guards_code ex2o (RN 2) [Some (RN 1); None]) = 1.
Proof.
  intros p. split; [|split; [apply own_balance_substitute | destruct p; vm_compute; reflexivity]].
  destruct p.
  - remember (substitute_on ex_terms 3 0 2 true guards_late_vec ex2o (RN 2) [Some (RN 1); None]) as o eqn:Eo.
    vm_compute in Eo. subst o.
    split; [apply leak_by_length; reflexivity|]. split; [reflexivity|]. split; vm_compute; reflexivity.
  - remember (substitute_on ex_terms 3 0 2 false guards_late_vec ex2o (RN 2) [Some (RN 1); None]) as o eqn:Eo.
    vm_compute in Eo. subst o.
    split; [apply leak_by_length; reflexivity|]. split; [reflexivity|]. split; vm_compute; reflexivity.
Qed.

(** instance of TOTAL for the sparse substitution *)
Example ex2o_total : forall cap par fuel, S 3 <= fuel ->
  own_total ex_terms 3 acache ac_get
    (substitute_o ex_terms 3 0 cap gt_no acache ac_get ac_add par guards_code fuel ex2o []
       (RN 2) [Some (RN 1); None] 0%N).
Proof.
  intros cap par fuel Hf.
  apply (own_total_substitute ex_terms 3 0 cap gt_no acache ac_get ac_add par (proj1 ex_terms_ok) ac_lossy);
    [exact ex2o_inv | apply (proj1 (ex_cache_ok _)) | reflexivity | | simpl; lia | exact Hf].
  intros e [Ee|[Ee|[]]]; inversion Ee; subst. reflexivity.
Qed.

Example ex_subst_quant :
  CInv KBdd ex_terms 3 ex2o /\
  (forall p, map (fun cap => oout (substitute_on ex_terms 3 0 cap p guards_code ex2o (RN 2) [Some (RN 1); None])) [2; 3] =
     [(1, Some 2, Some 2, None, Some true); (0, Some 3, Some 3, Some (RN 1), Some true)]) /\
  map (fun cap => oout (quant_on ex_terms 3 0 cap false guards_code ex3o QUnique (RN 6) (RN 3))) [6; 7; 8] =
  [(1, Some 6, Some 5, None, Some true); (1, Some 7, Some 5, None, Some true);
   (0, Some 8, Some 6, Some (RN 8), Some true)].
Proof. exact (conj ex2o_inv (conj ex2o_substitute (proj1 ex3o_quant))). Qed.
