(** * C14x - the ownership model never gets stuck: no double release, no count
      underflow, no violated precondition of get_or_insert, on any path

    Under the invariant [CInv] of Mgr/ConcProofs.v (exact counts), operands that are
    stored, a cache whose entries refer to stored nodes at plausible levels ([COK];
    any [lossy] implementation), Boolean terminals ([bterms_ok]) and fuel >= number
    of levels + 1, the algorithms of Mgr/OomOwn.v (guard placement of the code)
    return [OOk] or [OErr], never [OStuck]: every [o_drop] finds a token of the
    operation and a positive count, every [get_or_insert] receives two owned
    edges to stored nodes below its level, every `unwrap` succeeds.  For every
    capacity, recursor, cache.  The result of [OOk] is stored, its level is at
    least the top-most operand level, the cache invariant is maintained for both
    outcomes. *)

From Coq Require Import List NArith PArith Bool Arith Lia Permutation.
From OxiVerif Require Import DD.Table DD.TableProofs DD.Sem DD.Build DD.Apply DD.ApplyProofs
  Mgr.Conc Mgr.ConcBase Mgr.ConcProofs Mgr.ConcGcProofs Mgr.OomOwn Mgr.OomOwnProofs.
Import ListNotations.

Arguments N.add : simpl never.
Arguments N.sub : simpl never.
Arguments N.mul : simpl never.

(** the static terminal table is that of a BDD manager: values 0/1, both present *)
Definition bterms_ok (terms : list (N * N)) : Prop :=
  (forall x v, assoc_N terms x = Some v -> v = 0%N \/ v = 1%N) /\
  (exists t, rassoc_N terms 0%N = Some t) /\ (exists t, rassoc_N terms 1%N = Some t) /\
  (forall t0 t1, rassoc_N terms 0%N = Some t0 -> rassoc_N terms 1%N = Some t1 -> t0 <> t1).

Lemma In_assoc_some : forall (l : list (N * N)) t v, In (t, v) l -> exists v', assoc_N l t = Some v'.
Proof.
  induction l as [|[a b] r IH]; intros t v Hin; [destruct Hin|]. simpl.
  destruct (N.eqb_spec a t) as [->|Hne]; [eauto|]. destruct Hin as [Hin|Hin]; [|eapply IH; eauto].
  inversion Hin; subst. congruence.
Qed.

(** ** [terminal_bin] case by case, syntactically *)
Lemma terminal_bin_facts : forall gt s op f g,
  match terminal_bin gt s op f g with
  | TFail => view s f = None \/ view s g = None \/ term_of s true = None \/ term_of s false = None
  | TDone h => h = f \/ h = g \/ (exists b t, term_of s b = Some t /\ h = RT t)
  | TNot r => r = f \/ r = g
  | TBin o a b => view s f = Some VI /\ view s g = Some VI /\
                  ((a = f /\ b = g) \/ (a = g /\ b = f))
  end.
Proof.
  intros gt s op f g. unfold terminal_bin.
  destruct (view s f) as [vf|]; [|auto]. destruct (view s g) as [vg|]; [|auto].
  unfold tb, get_term.
  destruct op; destruct (ref_eqb f g); destruct vf as [|[|]]; destruct vg as [|[|]];
    try destruct (gt f g);
    try destruct (term_of s true) eqn:E1; try destruct (term_of s false) eqn:E0;
    auto 6; try (right; right; eauto).
Qed.

(** operator codes whose result is not above the top-most operand: all but
    (Substitute, id) = [39 + id] (DD/Quant.v) *)
Definition lvl_code (code : N) : bool := N.ltb code 39.

Lemma lvl_code_op : forall o, lvl_code (op_code o) = true.
Proof. destruct o; reflexivity. Qed.

Section Safe.
Variable terms : list (N * N).
Variable nl : nat.
Variable tid : nat.
Variable cap : nat.
Hypothesis BT : bterms_ok terms.

Notation CInv := (CInv KBdd terms nl).
Notation tokr := (tokr tid).
Notation o_clone := (o_clone terms tid).
Notation o_drop := (o_drop terms tid).
Notation o_goi := (o_goi terms nl tid cap).
Notation o_reduce := (o_reduce terms nl tid cap).
Notation unwind := (unwind terms tid).
Notation ext := (ext).
Notation crlevel := (crlevel nl).
Notation tsnap := (tsnap terms).

Definition stored (t : ctable) (r : ref) : Prop := cref_ok_b terms t r = true.

(** top-most level among [args] (terminals: [nl]) *)
Definition minlvl (t : ctable) (args : list ref) : nat :=
  fold_right (fun r m => Nat.min (crlevel t r) m) nl args.

Lemma stored_RN : forall t id, stored t (RN id) <-> exists nd, cfind t id = Some nd.
Proof.
  intros t id. unfold stored. simpl. destruct (cfind t id) as [nd|]; split; intros H; eauto.
  - discriminate.
  - destruct H as [nd H]. discriminate.
Qed.

Lemma ext_stored : forall s s' r, ext s s' -> stored (cn s) r -> stored (cn s') r.
Proof.
  intros s s' [x|id] X H; [exact H|]. apply stored_RN in H. destruct H as [nd F].
  destruct (X id nd F) as [nd' [F' _]]. apply stored_RN. eauto.
Qed.

Lemma ext_crlevel : forall s s' r, ext s s' -> stored (cn s) r ->
  crlevel (cn s') r = crlevel (cn s) r.
Proof.
  intros s s' [x|id] X H; [reflexivity|]. apply stored_RN in H. destruct H as [nd F].
  destruct (X id nd F) as [nd' [F' [L _]]]. simpl. rewrite F, F'. exact L.
Qed.

Lemma ext_minlvl : forall s s' args, ext s s' -> (forall r, In r args -> stored (cn s) r) ->
  minlvl (cn s') args = minlvl (cn s) args.
Proof.
  intros s s' args X. induction args as [|a r IH]; intros H; [reflexivity|]. simpl.
  rewrite (ext_crlevel s s' a X (H a (or_introl eq_refl))), IH; [reflexivity|].
  intros x Hx. apply H. right. exact Hx.
Qed.

Lemma crlevel_le : forall s r, CInv s -> crlevel (cn s) r <= nl.
Proof.
  intros s [x|id] H; simpl; [lia|]. destruct (cfind (cn s) id) as [nd|] eqn:F; [|lia].
  pose proof (stored_level_lt KBdd terms nl s id nd H F). lia.
Qed.

Lemma minlvl_le_nl : forall t args, minlvl t args <= nl.
Proof. intros t args. induction args as [|a r IH]; simpl; lia. Qed.

Lemma minlvl_le_In : forall t args r, In r args -> minlvl t args <= crlevel t r.
Proof.
  intros t args. induction args as [|a l IH]; intros r Hin; [destruct Hin|].
  destruct Hin as [<-|Hin]; simpl; [lia|]. specialize (IH r Hin). lia.
Qed.

(** ** terminals *)

Lemma view_stored : forall t r, stored t r ->
  match r with
  | RN _ => view tsnap r = Some VI
  | RT _ => exists b, view tsnap r = Some (VT b)
  end.
Proof.
  intros t [x|id] H; [|reflexivity]. unfold stored in H. simpl in H. unfold view, term_val. simpl.
  destruct (assoc_N terms x) as [v|] eqn:A; [|discriminate].
  destruct (proj1 BT x v A) as [-> | ->]; eauto.
Qed.

Lemma view_VI_RN : forall r, view tsnap r = Some VI -> exists id, r = RN id.
Proof.
  intros [x|id] H; [|eauto]. unfold view in H. destruct (term_val tsnap x) as [[|[| |]]|]; discriminate.
Qed.

Lemma view_VT_RT : forall r b, view tsnap r = Some (VT b) -> exists x, r = RT x.
Proof. intros [x|id] b H; [eauto | discriminate]. Qed.

Lemma term_of_total : forall b, exists t, term_of tsnap b = Some t.
Proof. intros [|]; unfold term_of; simpl; [apply (proj1 (proj2 (proj2 BT))) | apply (proj1 (proj2 BT))]. Qed.

Lemma term_of_stored : forall tb b t, term_of tsnap b = Some t -> stored tb (RT t).
Proof.
  intros tb b t H. unfold term_of in H. simpl in H. apply rassoc_N_In in H.
  destruct (In_assoc_some _ _ _ H) as [v' A]. unfold stored. simpl. rewrite A. reflexivity.
Qed.

(** ** enabledness of the primitives *)

Lemma o_clone_enabled : forall s r, stored (cn s) r -> exists s', o_clone s r = Some s'.
Proof.
  intros s [x|id] H; unfold OomOwn.o_clone.
  - unfold stored in H. rewrite H. eauto.
  - apply stored_RN in H. destruct H as [nd F]. rewrite F. eauto.
Qed.

Lemma o_drop_enabled : forall s r, CInv s -> stored (cn s) r ->
  (forall id, r = RN id -> In (tid, E r) (cown s)) -> exists s', o_drop s r = Some s'.
Proof.
  intros s [x|id] H St Hin; unfold OomOwn.o_drop.
  - unfold stored in St. rewrite St. eauto.
  - specialize (Hin id eq_refl).
    destruct (owned_live KBdd terms nl s (tid, E (RN id)) id H Hin eq_refl) as [nd [F Hnz]].
    rewrite F. destruct (N.eqb_spec (crc nd) 0) as [Z|_]; [contradiction|].
    destruct (In_take_tok _ _ Hin) as [own' Ht]. rewrite Ht. eauto.
Qed.

(** the operation owns an edge to [t] and (another) one to [e] *)
Definition has2 (s : cst) (t e : ref) : Prop :=
  exists rest, meq (cown s) (tokr t ++ tokr e ++ rest).

Lemma tok_in : forall l r rest id, meq l (tokr r ++ rest) -> r = RN id -> In (tid, E r) l.
Proof.
  intros l r rest id M ->. apply (count_occ_In tok_dec). rewrite (M (tid, E (RN id))).
  rewrite count_occ_app. cbn [OomOwn.tokr]. rewrite (count_occ_cons_eq tok_dec _ eq_refl). lia.
Qed.

Lemma take_toks_enabled : forall own t e, (exists rest, meq own (tokr t ++ tokr e ++ rest)) ->
  exists own1, take_toks tid [E t; E e] own = Some own1.
Proof.
  intros own t e [rest M]. simpl. destruct t as [x|i]; destruct e as [y|j]; simpl in *.
  - eauto.
  - destruct (In_take_tok (tid, E (RN j)) own) as [o1 H1]; [|rewrite H1; eauto].
    apply (tok_in own (RN j) rest j); [exact M | reflexivity].
  - destruct (In_take_tok (tid, E (RN i)) own) as [o1 H1]; [|rewrite H1; eauto].
    apply (tok_in own (RN i) rest i); [exact M | reflexivity].
  - destruct (In_take_tok (tid, E (RN i)) own) as [o1 H1].
    { apply (tok_in own (RN i) ((tid, E (RN j)) :: rest) i); [exact M | reflexivity]. }
    rewrite H1. pose proof (take_tok_meq _ _ _ H1) as M1.
    destruct (In_take_tok (tid, E (RN j)) o1) as [o2 H2]; [|rewrite H2; eauto].
    apply (count_occ_In tok_dec).
    generalize (M (tid, E (RN j))) (M1 (tid, E (RN j))).
    repeat rewrite count_occ_app. split_cons.
    rewrite (count_occ_cons_eq tok_dec [] (eq_refl (tid, E (RN j)))).
    intros; lia.
Qed.

Lemma pre_ok : forall tb lvl t e, lvl < nl -> stored tb t -> stored tb e ->
  lvl < crlevel tb t -> lvl < crlevel tb e -> ref_eqb t e = false ->
  node_pre_b KBdd terms nl tb lvl [E t; E e] = true.
Proof.
  intros tb lvl t e Hl St Se Lt Le Ne. unfold node_pre_b. simpl.
  unfold stored in St, Se. rewrite St, Se.
  rewrite (proj2 (Nat.ltb_lt _ _) Hl), (proj2 (Nat.ltb_lt _ _) Lt), (proj2 (Nat.ltb_lt _ _) Le).
  unfold edge_eqb. simpl. rewrite Ne. reflexivity.
Qed.

Lemma o_goi_enabled : forall s lvl t e, CInv s -> lvl < nl ->
  stored (cn s) t -> stored (cn s) e -> lvl < crlevel (cn s) t -> lvl < crlevel (cn s) e ->
  ref_eqb t e = false -> has2 s t e ->
  match o_goi s lvl t e with
  | GOk s' h => exists id nd, h = RN id /\ cfind (cn s') id = Some nd /\ cl nd = lvl
  | GErr _ => True
  | GStuck => False
  end.
Proof.
  intros s lvl t e H Hl St Se Lt Le Ne H2. unfold OomOwn.o_goi.
  pose proof (pre_ok (cn s) lvl t e Hl St Se Lt Le Ne) as Hpre. rewrite Hpre.
  destruct (take_toks_enabled (cown s) t e H2) as [own1 Ht]. rewrite Ht.
  pose proof (goi_dec_ok KBdd terms nl s tid lvl _ own1 H Hpre Ht) as Hd.
  destruct (find_shape (cn s) lvl [E t; E e]) as [id|] eqn:Hf.
  - rewrite Hd.
    destruct (find_shape_Some _ _ _ id (ti_nodup _ _ _ _ (ci_tbl _ _ _ s H)) Hf) as [nd0 [F0 [L0 _]]].
    exists id. eexists. split; [reflexivity|]. cbn [cn]. unfold rc_inc.
    rewrite cfind_rc_upd, cfind_dec_children, Pos.eqb_refl, F0. simpl. split; [reflexivity | exact L0].
  - destruct (Nat.ltb (cnode_count s) cap).
    + exists (cfresh (cn s)). eexists. split; [reflexivity|]. cbn [cn]. rewrite cfind_cons, Pos.eqb_refl.
      split; reflexivity.
    + rewrite Hd. exact I.
Qed.

(** ** the cache *)

Section Alg.
Variable gt : ref -> ref -> bool.
Variable C : Type.
Variable cget : C -> N -> list ref -> option ref.
Variable cadd : C -> N -> list ref -> ref -> C.
Variable par : nat -> bool.
Hypothesis Hlossy : lossy cget cadd.

(** every entry: result and operands stored; result not above the top-most operand
    (except for substitution entries, whose replacement functions may sit anywhere) *)
Definition COK (t : ctable) (c : C) : Prop :=
  forall code args h, cget c code args = Some h ->
    stored t h /\ (forall r, In r args -> stored t r) /\
    (lvl_code code = true -> minlvl t args <= crlevel t h).

Lemma COK_ext : forall s s' c, ext s s' -> COK (cn s) c -> COK (cn s') c.
Proof.
  intros s s' c X H code args h G. destruct (H code args h G) as [Sh [Sa L]].
  split; [eapply ext_stored; eauto|]. split; [intros r Hr; eapply ext_stored; eauto|].
  intros Hl. rewrite (ext_minlvl s s' args X Sa), (ext_crlevel s s' h X Sh). exact (L Hl).
Qed.

Lemma COK_add : forall t c code args h, COK t c -> stored t h ->
  (forall r, In r args -> stored t r) -> (lvl_code code = true -> minlvl t args <= crlevel t h) ->
  COK t (cadd c code args h).
Proof.
  intros t c code args h H Sh Sa L code' args' h' G.
  destruct (Hlossy c code args h code' args' h' G) as [[-> [-> ->]]|G']; [auto | apply (H _ _ _ G')].
Qed.

Definition safe (lb : nat) (o : ores C) : Prop :=
  match o with
  | OOk s' c' r => COK (cn s') c' /\ stored (cn s') r /\ lb <= crlevel (cn s') r
  | OErr s' c' => COK (cn s') c'
  | OStuck => False
  end.

Lemma safe_weaken : forall lb lb' o, lb <= lb' -> safe lb' o -> safe lb o.
Proof. intros lb lb' [s c r|s c|] L H; simpl in *; [|exact H|exact H]. destruct H as [A [B D]]. split; [exact A | split; [exact B | lia]]. Qed.

Notation bal := (bal terms nl tid C).
Notation err := (err terms tid C).
Notation clone_ret := (clone_ret terms tid C).
Notation finish := (finish terms nl tid cap C cadd).
Notation not_o := (not_o terms nl tid cap C cget cadd par guards_code).
Notation bin_o := (bin_o terms nl tid cap gt C cget cadd par guards_code).
Notation ite_o := (ite_o terms nl tid cap gt C cget cadd par guards_code).

Lemma clone_ret_safe : forall s c h lb, COK (cn s) c -> stored (cn s) h -> lb <= crlevel (cn s) h ->
  safe lb (clone_ret s c h).
Proof.
  intros s c h lb Hc Sh L. unfold OomOwn.clone_ret.
  destruct (o_clone_enabled s h Sh) as [s' Hs]. rewrite Hs.
  destruct (o_clone_spec terms nl tid _ _ _ Hs) as [_ [X _]]. simpl.
  split; [eapply COK_ext; eauto|]. split; [eapply ext_stored; eauto|].
  rewrite (ext_crlevel s s' h X Sh). exact L.
Qed.

(** a failing `?` whose only guarded local is an owned, stored edge *)
Lemma err_safe1 : forall s c r lb, CInv s -> COK (cn s) c -> stored (cn s) r ->
  (forall id, r = RN id -> In (tid, E r) (cown s)) -> safe lb (err s c [(r, true)]).
Proof.
  intros s c r lb H Hc Sr Hin. unfold OomOwn.err. simpl.
  destruct (o_drop_enabled s r H Sr Hin) as [s' Hd]. rewrite Hd.
  destruct (o_drop_spec terms nl tid _ _ _ Hd) as [_ [X _]]. simpl. eapply COK_ext; eauto.
Qed.

Lemma finish_safe : forall lvl code args s2 c2 t e lb, CInv s2 -> COK (cn s2) c2 ->
  lvl < nl -> stored (cn s2) t -> stored (cn s2) e ->
  S lvl <= crlevel (cn s2) t -> S lvl <= crlevel (cn s2) e -> has2 s2 t e ->
  (forall r, In r args -> stored (cn s2) r) -> minlvl (cn s2) args <= lvl -> lb <= lvl ->
  safe lb (finish lvl code args s2 c2 t e).
Proof.
  intros lvl code args s2 c2 t e lb H Hc Hl St Se Lt Le H2 Sa La Lb. unfold OomOwn.finish.
  pose proof (o_reduce_spec terms nl tid cap s2 lvl t e) as R. unfold OomOwn.o_reduce in *.
  destruct (ref_eqb t e) eqn:Eq.
  - (* equal children: drop one *)
    apply ref_eqb_eq in Eq. subst e.
    destruct (o_drop_enabled s2 t H St) as [s3 Hd].
    { intros id Er. destruct H2 as [rest M]. apply (tok_in _ t (tokr t ++ rest) id M Er). }
    rewrite Hd in *. destruct R as [_ [X _]]. cbn [safe].
    split; [|split; [eapply ext_stored; eauto | rewrite (ext_crlevel s2 s3 t X St); lia]].
    apply COK_add; [eapply COK_ext; eauto | eapply ext_stored; eauto | intros r Hr; eapply ext_stored; eauto |].
    intros _. rewrite (ext_minlvl s2 s3 args X Sa), (ext_crlevel s2 s3 t X St). lia.
  - pose proof (o_goi_enabled s2 lvl t e H Hl St Se ltac:(lia) ltac:(lia) Eq H2) as G.
    destruct (o_goi s2 lvl t e) as [s3 h|s3|]; [| |destruct G].
    + destruct G as [id [nd [-> [F L]]]]. destruct R as [_ [X _]]. cbn [safe].
      assert (Sh : stored (cn s3) (RN id)) by (apply stored_RN; eauto).
      assert (Lh : crlevel (cn s3) (RN id) = lvl) by (simpl; rewrite F; exact L).
      split; [|split; [exact Sh | lia]].
      apply COK_add; [eapply COK_ext; eauto | exact Sh | intros r Hr; eapply ext_stored; eauto |].
      intros _. rewrite (ext_minlvl s2 s3 args X Sa). lia.
    + destruct R as [_ [X _]]. unfold OomOwn.err. simpl. eapply COK_ext; eauto.
Qed.

(** the recursors *)
Lemma rec2_safe : forall p s lb lb1 r1 run2 fin, CInv s ->
  bal s [] r1 -> safe lb1 r1 ->
  (forall s1 c1, CInv s1 -> ext s s1 -> COK (cn s1) c1 ->
     bal s1 [] (run2 s1 c1) /\ safe lb1 (run2 s1 c1)) ->
  (forall s2 c2 t e, CInv s2 -> ext s s2 -> COK (cn s2) c2 ->
     stored (cn s2) t -> stored (cn s2) e ->
     lb1 <= crlevel (cn s2) t -> lb1 <= crlevel (cn s2) e -> has2 s2 t e ->
     safe lb (fin s2 c2 t e)) ->
  safe lb (rec2 terms tid C p false r1 run2 fin).
Proof.
  intros p s lb lb1 r1 run2 fin H B1 S1 H2 Hf.
  assert (Hok : forall s1 c1 t, bal s [] (OOk s1 c1 t) -> safe lb1 (OOk s1 c1 t) ->
            safe lb (match run2 s1 c1 with
                     | OStuck => OStuck
                     | OErr s2 c2 => err s2 c2 [(t, negb false)]
                     | OOk s2 c2 e => fin s2 c2 t e
                     end)).
  { intros s1 c1 t [M1 [X1 I1]] [C1 [St Lt]]. pose proof (I1 H) as H1.
    destruct (H2 s1 c1 H1 X1 C1) as [B2 S2].
    destruct (run2 s1 c1) as [s2 c2 e|s2 c2|]; [| |destruct S2].
    - destruct B2 as [M2 [X2 I2]]. destruct S2 as [C2 [Se Le]].
      apply Hf; auto.
      + eapply ext_trans; eauto.
      + eapply ext_stored; eauto.
      + rewrite (ext_crlevel s1 s2 t X2 St). exact Lt.
      + exists (cown s). intro x. generalize (M1 x) (M2 x). mq.
    - destruct B2 as [M2 [X2 I2]]. simpl negb. apply err_safe1; auto.
      + eapply ext_stored; eauto.
      + intros id Er. apply (tok_in _ t (cown s) id); [|exact Er].
        intro x. generalize (M1 x) (M2 x). mq. }
  destruct p; simpl.
  - unfold par2. destruct r1 as [s1 c1 t|s1 c1|]; [apply Hok; assumption| |destruct S1].
    destruct B1 as [M1 [X1 I1]]. pose proof (I1 H) as H1.
    destruct (H2 s1 c1 H1 X1 S1) as [B2 S2].
    destruct (run2 s1 c1) as [s2 c2 e|s2 c2|]; [| |destruct S2].
    + destruct B2 as [M2 [X2 I2]]. destruct S2 as [C2 [Se Le]]. simpl negb.
      apply err_safe1; auto.
      intros id Er. apply (tok_in _ e (cown s) id); [|exact Er].
      intro x. generalize (M1 x) (M2 x). mq.
    + unfold OomOwn.err. simpl. exact S2.
  - unfold seq2. destruct r1 as [s1 c1 t|s1 c1|]; [apply Hok; assumption| |destruct S1].
    unfold OomOwn.err. simpl. exact S1.
Qed.

(** a stored inner node: two children, stored below it *)
Lemma node_children : forall s id nd, CInv s -> cfind (cn s) id = Some nd ->
  cl nd < nl /\
  exists ft fe, cch nd = [ft; fe] /\ etag ft = false /\ etag fe = false /\
    stored (cn s) (eref ft) /\ stored (cn s) (eref fe) /\
    cl nd < crlevel (cn s) (eref ft) /\ cl nd < crlevel (cn s) (eref fe).
Proof.
  intros s id nd H F. pose proof (ti_pre _ _ _ _ (ci_tbl _ _ _ s H) id nd F) as Hp.
  split; [apply (stored_level_lt KBdd terms nl s id nd H F)|].
  unfold node_pre_b in Hp. rewrite !andb_true_iff in Hp. destruct Hp as [[[[Hlen _] Hch] _] Htag].
  apply Nat.eqb_eq in Hlen. simpl in Hlen.
  destruct (cch nd) as [|ft [|fe [|x r]]]; try discriminate.
  exists ft, fe. simpl in Hch, Htag. repeat rewrite andb_true_iff in Hch. repeat rewrite andb_true_iff in Htag.
  destruct Hch as [[S1 L1] [[S2 L2] _]]. destruct Htag as [T1 [T2 _]].
  apply Nat.ltb_lt in L1, L2. apply negb_true_iff in T1, T2. repeat split; auto.
Qed.

Lemma eref_E : forall e, etag e = false -> E (eref e) = e.
Proof. intros [r t] H. simpl in *. subst. reflexivity. Qed.

(** ** apply_not *)
Lemma not_o_safe : forall fuel s c f, CInv s -> COK (cn s) c -> stored (cn s) f ->
  nl < fuel + crlevel (cn s) f -> safe (minlvl (cn s) [f]) (not_o fuel s c f).
Proof.
  induction fuel as [|n IH]; intros s c f H Hc Sf Hfuel.
  { pose proof (crlevel_le s f H). lia. }
  cbn [OomOwn.not_o]. destruct f as [x|id].
  - destruct (view_stored _ _ Sf) as [b V]. rewrite V.
    destruct (term_of_total (negb b)) as [t T]. rewrite T. simpl.
    split; [exact Hc|]. split; [apply (term_of_stored _ _ _ T) | lia].
  - pose proof Sf as Sf'. apply stored_RN in Sf'. destruct Sf' as [nd F]. rewrite F.
    destruct (cget c code_not [RN id]) as [h|] eqn:G.
    + destruct (Hc _ _ _ G) as [Sh [_ L]]. specialize (L eq_refl). apply clone_ret_safe; auto.
    + destruct (node_children s id nd H F) as [Hl [ft [fe [Ech [_ [_ [St [Se [Lt Le]]]]]]]]].
      rewrite Ech.
      assert (Lf : crlevel (cn s) (RN id) = cl nd) by (simpl; rewrite F; reflexivity).
      rewrite Lf in Hfuel.
      apply (rec2_safe (par n) s _ (S (cl nd))); [exact H | apply not_o_bal | | |].
      * eapply safe_weaken; [|apply IH; auto; lia]. simpl. lia.
      * intros s1 c1 H1 X1 C1. split; [apply not_o_bal|].
        pose proof (ext_stored _ _ _ X1 Se) as Se1. pose proof (ext_crlevel _ _ _ X1 Se) as Le1.
        eapply safe_weaken; [|apply IH; auto; lia]. simpl. lia.
      * intros s2 c2 t e H2 X2 C2 St2 Se2 Lt2 Le2 T2. apply finish_safe; auto.
        -- intros r [<-|[]]. eapply ext_stored; eauto.
        -- rewrite (ext_minlvl s s2 [RN id] X2); [simpl; rewrite F; lia|].
           intros r [<-|[]]. exact Sf.
        -- simpl. rewrite F. lia.
Qed.

(** the cofactor pair of a stored inner operand w.r.t. a level not below its own *)
Lemma ccof2_facts : forall s id nd lvl, CInv s -> cfind (cn s) id = Some nd -> lvl <= cl nd ->
  exists a b, ccof2 (RN id) nd lvl = Some (a, b) /\ stored (cn s) a /\ stored (cn s) b /\
              lvl < crlevel (cn s) a /\ lvl < crlevel (cn s) b.
Proof.
  intros s id nd lvl H F L. unfold ccof2.
  destruct (node_children s id nd H F) as [Hl [ft [fe [Ech [_ [_ [St [Se [Lt Le]]]]]]]]].
  destruct (Nat.eqb_spec (cl nd) lvl) as [Eq|Ne].
  - rewrite Ech. exists (eref ft), (eref fe). subst lvl. auto.
  - exists (RN id), (RN id). assert (S1 : stored (cn s) (RN id)) by (apply stored_RN; eauto).
    simpl. rewrite F. repeat split; auto; lia.
Qed.

Lemma minlvl2 : forall t a b, minlvl t [a; b] = Nat.min (crlevel t a) (Nat.min (crlevel t b) nl).
Proof. reflexivity. Qed.

(** ** apply_bin *)
Lemma bin_o_safe : forall fuel s c op f g, CInv s -> COK (cn s) c ->
  stored (cn s) f -> stored (cn s) g -> nl < fuel + minlvl (cn s) [f; g] ->
  safe (minlvl (cn s) [f; g]) (bin_o fuel s c op f g).
Proof.
  induction fuel as [|n IH]; intros s c op f g H Hc Sf Sg Hfuel.
  { pose proof (minlvl_le_nl (cn s) [f; g]). lia. }
  cbn [OomOwn.bin_o].
  pose proof (terminal_bin_facts gt tsnap op f g) as TB.
  destruct (terminal_bin gt tsnap op f g) as [h|r|o a b|].
  - (* Done *)
    destruct TB as [->|[->|[b [t [T ->]]]]].
    + apply clone_ret_safe; auto. rewrite minlvl2. lia.
    + apply clone_ret_safe; auto. rewrite minlvl2. lia.
    + apply clone_ret_safe; auto; [apply (term_of_stored _ _ _ T)|]. rewrite minlvl2. simpl. lia.
  - (* Not *)
    rewrite minlvl2 in *.
    destruct TB as [-> | ->]; (eapply safe_weaken; [|apply not_o_safe; auto; try lia]); simpl; lia.
  - (* Binary *)
    destruct TB as [Vf [Vg Hab]].
    destruct (view_VI_RN _ Vf) as [i ->]. destruct (view_VI_RN _ Vg) as [j ->].
    pose proof Sf as Sf'. apply stored_RN in Sf'. destruct Sf' as [fnode Ff].
    pose proof Sg as Sg'. apply stored_RN in Sg'. destruct Sg' as [gnode Fg].
    assert (Sab : forall r, In r [a; b] -> stored (cn s) r).
    { intros r [<-|[<-|[]]]; destruct Hab as [[-> ->]|[-> ->]]; assumption. }
    assert (Lab : minlvl (cn s) [a; b] = minlvl (cn s) [RN i; RN j]).
    { destruct Hab as [[-> ->]|[-> ->]]; rewrite !minlvl2; lia. }
    destruct (cget c (op_code o) [a; b]) as [h|] eqn:G.
    + destruct (Hc _ _ _ G) as [Sh [_ L]]. specialize (L (lvl_code_op o)). apply clone_ret_safe; auto. lia.
    + cbn [cinner]. rewrite Ff, Fg.
      pose proof (stored_level_lt KBdd terms nl s i fnode H Ff) as Lf.
      pose proof (stored_level_lt KBdd terms nl s j gnode H Fg) as Lg.
      set (lvl := Nat.min (cl fnode) (cl gnode)).
      assert (Hm : minlvl (cn s) [RN i; RN j] = lvl).
      { rewrite minlvl2. simpl. rewrite Ff, Fg. unfold lvl. lia. }
      rewrite Hm in *.
      destruct (ccof2_facts s i fnode lvl H Ff ltac:(unfold lvl; lia)) as [ft [fe [Ef [Sft [Sfe [Lft Lfe]]]]]].
      destruct (ccof2_facts s j gnode lvl H Fg ltac:(unfold lvl; lia)) as [gt' [ge [Eg [Sgt [Sge [Lgt Lge]]]]]].
      rewrite Ef, Eg.
      apply (rec2_safe (par n) s _ (S lvl)); [exact H | apply bin_o_bal | | |].
      * eapply safe_weaken; [|apply IH; auto; rewrite minlvl2; lia]. rewrite minlvl2. unfold lvl in *. lia.
      * intros s1 c1 H1 X1 C1. split; [apply bin_o_bal|].
        pose proof (ext_crlevel _ _ _ X1 Sfe) as E1. pose proof (ext_crlevel _ _ _ X1 Sge) as E2.
        eapply safe_weaken; [|apply IH; auto; try (eapply ext_stored; eauto); rewrite minlvl2; lia].
        rewrite minlvl2. unfold lvl in *. lia.
      * intros s2 c2 t e H2 X2 C2 St2 Se2 Lt2 Le2 T2. apply finish_safe; auto.
        -- unfold lvl. lia.
        -- intros r Hr. eapply ext_stored; eauto.
        -- rewrite (ext_minlvl s s2 [a; b] X2 Sab). lia.
  - (* Fail: impossible *)
    destruct (term_of_total true) as [t1 T1]. destruct (term_of_total false) as [t0 T0].
    pose proof (view_stored _ _ Sf) as Vf. pose proof (view_stored _ _ Sg) as Vg.
    destruct TB as [V|[V|[V|V]]]; try congruence.
    + destruct f; [destruct Vf as [b Vf]|]; congruence.
    + destruct g; [destruct Vg as [b Vg]|]; congruence.
Qed.

Lemma minlvl3 : forall t a b d,
  minlvl t [a; b; d] = Nat.min (crlevel t a) (Nat.min (crlevel t b) (Nat.min (crlevel t d) nl)).
Proof. reflexivity. Qed.

(** ** apply_ite *)
Lemma ite_o_safe : forall fuel s c f g h, CInv s -> COK (cn s) c ->
  stored (cn s) f -> stored (cn s) g -> stored (cn s) h -> nl < fuel + minlvl (cn s) [f; g; h] ->
  safe (minlvl (cn s) [f; g; h]) (ite_o fuel s c f g h).
Proof.
  induction fuel as [|n IH]; intros s c f g h H Hc Sf Sg Sh Hfuel.
  { pose proof (minlvl_le_nl (cn s) [f; g; h]). lia. }
  cbn [OomOwn.ite_o]. rewrite minlvl3 in *.
  pose proof (crlevel_le s f H) as Bf. pose proof (crlevel_le s g H) as Bg. pose proof (crlevel_le s h H) as Bh.
  assert (Bin : forall op a b, stored (cn s) a -> stored (cn s) b ->
            Nat.min (crlevel (cn s) f) (Nat.min (crlevel (cn s) g) (Nat.min (crlevel (cn s) h) nl))
              <= minlvl (cn s) [a; b] ->
            safe (Nat.min (crlevel (cn s) f) (Nat.min (crlevel (cn s) g) (Nat.min (crlevel (cn s) h) nl)))
                 (bin_o (S n) s c op a b)).
  { intros op a b Sa Sb L. eapply safe_weaken; [exact L|]. apply bin_o_safe; auto. lia. }
  destruct (ref_eqb g h); [apply clone_ret_safe; auto; lia|].
  destruct (ref_eqb f g); [apply Bin; auto; rewrite minlvl2; lia|].
  destruct (ref_eqb f h); [apply Bin; auto; rewrite minlvl2; lia|].
  pose proof (view_stored _ _ Sf) as Vf. pose proof (view_stored _ _ Sg) as Vg.
  pose proof (view_stored _ _ Sh) as Vh.
  destruct f as [xf|i].
  { destruct Vf as [b Vf]. rewrite Vf. destruct b; apply clone_ret_safe; auto; lia. }
  rewrite Vf.
  assert (Not : safe (Nat.min (crlevel (cn s) (RN i)) (Nat.min (crlevel (cn s) g) (Nat.min (crlevel (cn s) h) nl)))
                     (not_o (S n) s c (RN i))).
  { eapply safe_weaken; [|apply not_o_safe; auto; lia]. change (minlvl (cn s) [RN i]) with (Nat.min (crlevel (cn s) (RN i)) nl). lia. }
  destruct g as [xg|j]; destruct h as [xh|k].
  - destruct Vg as [bg Vg]. destruct Vh as [bh Vh]. rewrite Vg, Vh.
    destruct bg; [apply clone_ret_safe; auto; lia | exact Not].
  - destruct Vg as [bg Vg]. rewrite Vg, Vh.
    destruct bg; apply Bin; auto; rewrite minlvl2; lia.
  - destruct Vh as [bh Vh]. rewrite Vg, Vh.
    destruct bh; apply Bin; auto; rewrite minlvl2; lia.
  - rewrite Vg, Vh.
    destruct (cget c code_ite [RN i; RN j; RN k]) as [r|] eqn:G.
    + destruct (Hc _ _ _ G) as [Sr [_ L]]. specialize (L eq_refl). apply clone_ret_safe; auto.
    + pose proof Sf as Sf'. apply stored_RN in Sf'. destruct Sf' as [fnode Ff].
      pose proof Sg as Sg'. apply stored_RN in Sg'. destruct Sg' as [gnode Fg].
      pose proof Sh as Sh'. apply stored_RN in Sh'. destruct Sh' as [hnode Fh].
      cbn [cinner]. rewrite Ff, Fg, Fh.
      pose proof (stored_level_lt KBdd terms nl s i fnode H Ff) as Lf.
      pose proof (stored_level_lt KBdd terms nl s j gnode H Fg) as Lg.
      pose proof (stored_level_lt KBdd terms nl s k hnode H Fh) as Lh.
      set (lvl := Nat.min (Nat.min (cl fnode) (cl gnode)) (cl hnode)).
      assert (Hm : Nat.min (crlevel (cn s) (RN i)) (Nat.min (crlevel (cn s) (RN j))
                     (Nat.min (crlevel (cn s) (RN k)) nl)) = lvl).
      { simpl. rewrite Ff, Fg, Fh. unfold lvl. lia. }
      rewrite Hm in *.
      destruct (ccof2_facts s i fnode lvl H Ff ltac:(unfold lvl; lia)) as [ft [fe [Ef [Sft [Sfe [Lft Lfe]]]]]].
      destruct (ccof2_facts s j gnode lvl H Fg ltac:(unfold lvl; lia)) as [gt' [ge [Eg [Sgt [Sge [Lgt Lge]]]]]].
      destruct (ccof2_facts s k hnode lvl H Fh ltac:(unfold lvl; lia)) as [ht [he [Eh [Sht [She [Lht Lhe]]]]]].
      rewrite Ef, Eg, Eh.
      apply (rec2_safe (par n) s _ (S lvl)); [exact H | apply ite_o_bal | | |].
      * eapply safe_weaken; [|apply IH; auto; rewrite minlvl3; lia]. rewrite minlvl3. unfold lvl in *. lia.
      * intros s1 c1 H1 X1 C1. split; [apply ite_o_bal|].
        pose proof (ext_crlevel _ _ _ X1 Sfe) as E1. pose proof (ext_crlevel _ _ _ X1 Sge) as E2.
        pose proof (ext_crlevel _ _ _ X1 She) as E3.
        eapply safe_weaken; [|apply IH; auto; try (eapply ext_stored; eauto); rewrite minlvl3; lia].
        rewrite minlvl3. unfold lvl in *. lia.
      * intros s2 c2 t e H2 X2 C2 St2 Se2 Lt2 Le2 T2. apply finish_safe; auto.
        -- unfold lvl. lia.
        -- intros r [<-|[<-|[<-|[]]]]; eapply ext_stored; eauto.
        -- rewrite (ext_minlvl s s2 [RN i; RN j; RN k] X2); [rewrite minlvl3; lia|].
           intros r [<-|[<-|[<-|[]]]]; assumption.
Qed.

End Alg.
End Safe.
