(** * C14x - the statements about the ownership model (Mgr/OomOwn.v), collected

    For [not_o] / [bin_o] / [ite_o] with the guard placement of the code
    ([guards_code]), every capacity [cap] (= every failure point), every cache
    implementation, every recursor choice [par], every operand order [gt]:

    1. BALANCE ([own_balance_*]; no hypothesis): after [OOk s' _ r] the operation's
       thread owns exactly the caller's tokens plus one token for [r]; after
       [OErr s' _] exactly the caller's tokens.  Nothing leaked, nothing released
       twice.  Every old node is still stored with its level and children.
    2. COUNTS ([own_counts_*]): [CInv] (exact reference counts = owners + parents,
       table structurally intact) is preserved by every outcome; as a snapshot:
       [WF] and [rc_exact_b].
    3. TOTAL ([own_total_*]): under [CInv], stored operands, a cache whose entries
       refer to stored nodes ([COK]), Boolean terminals and fuel > number of
       levels the run is never [OStuck]: no edge is released that the operation
       does not own, no count underflows, get_or_insert's precondition holds, no
       `unwrap` fails.
    4. ROLLBACK ([own_err_collect_*], [own_err_same_*]): after [OErr s' _] the
       collection of Mgr/ConcGc.v leaves exactly the nodes of the ORIGINAL table
       that are reachable from the caller's tokens - entry by entry (level,
       children, count) the table a collection of the state before the operation
       would have produced. *)

From Coq Require Import List NArith PArith Bool Arith Lia Permutation.
From OxiVerif Require Import DD.Table DD.TableProofs DD.Sem DD.Build DD.Apply DD.ApplyProofs
  Mgr.Conc Mgr.ConcBase Mgr.ConcProofs Mgr.ConcSnap Mgr.ConcGc Mgr.ConcGcProofs
  Mgr.OomOwn Mgr.OomOwnProofs Mgr.OomOwnSafe Mgr.OomOwnGc.
Import ListNotations.

Section Thms.
Variable terms : list (N * N).
Variable nl : nat.
Variable tid : nat.
Variable cap : nat.
Variable gt : ref -> ref -> bool.
Variable C : Type.
Variable cget : C -> N -> list ref -> option ref.
Variable cadd : C -> N -> list ref -> ref -> C.
Variable par : nat -> bool.

Notation CInv := (CInv KBdd terms nl).
Notation tokr := (tokr tid).
Notation not_o := (not_o terms nl tid cap C cget cadd par guards_code).
Notation bin_o := (bin_o terms nl tid cap gt C cget cadd par guards_code).
Notation ite_o := (ite_o terms nl tid cap gt C cget cadd par guards_code).
Notation to_snap := (to_snap KBdd terms nl).
Notation collect := (collect KBdd terms nl).

(** what statements 1 and 2 say about an outcome of a run started in [s] *)
Definition own_post (s : cst) (o : ores C) : Prop :=
  match o with
  | OOk s' _ r =>
    Permutation (cown s') (tokr r ++ cown s) /\ ext s s' /\ (CInv s -> CInv s')
  | OErr s' _ =>
    Permutation (cown s') (cown s) /\ ext s s' /\ (CInv s -> CInv s')
  | OStuck => True
  end.

Lemma bal_post : forall s o, bal terms nl tid C s [] o -> own_post s o.
Proof.
  intros s [s' c' r|s' c'|] B; simpl in *; [| |exact I];
    destruct B as [M [X I0]]; (split; [apply meq_perm; exact M | auto]).
Qed.

Theorem own_balance_not : forall fuel s c f, own_post s (not_o fuel s c f).
Proof. intros. apply bal_post. apply not_o_bal. Qed.

Theorem own_balance_bin : forall fuel s c op f g, own_post s (bin_o fuel s c op f g).
Proof. intros. apply bal_post. apply bin_o_bal. Qed.

Theorem own_balance_ite : forall fuel s c f g h, own_post s (ite_o fuel s c f g h).
Proof. intros. apply bal_post. apply ite_o_bal. Qed.

(** 2. as a snapshot of the manager: well-formed with exact reference counts *)
Lemma own_post_counts : forall s o s', CInv s -> terms_unique_b terms = true -> own_post s o ->
  ores_st o = Some s' ->
  CInv s' /\ WF (to_snap s') /\ rc_exact_b (to_snap s') [] = true.
Proof.
  intros s o s' H Ht P E.
  assert (H' : CInv s').
  { destruct o as [s1 c1 r|s1 c1|]; simpl in E; inversion E; subst; destruct P as [_ [_ I0]]; auto. }
  split; [exact H'|]. apply conc_wf; assumption.
Qed.

Theorem own_counts_not : forall fuel s c f s', CInv s -> terms_unique_b terms = true ->
  ores_st (not_o fuel s c f) = Some s' ->
  CInv s' /\ WF (to_snap s') /\ rc_exact_b (to_snap s') [] = true.
Proof. intros fuel s c f s' H Ht. apply (own_post_counts s); auto. apply own_balance_not. Qed.

Theorem own_counts_bin : forall fuel s c op f g s', CInv s -> terms_unique_b terms = true ->
  ores_st (bin_o fuel s c op f g) = Some s' ->
  CInv s' /\ WF (to_snap s') /\ rc_exact_b (to_snap s') [] = true.
Proof. intros fuel s c op f g s' H Ht. apply (own_post_counts s); auto. apply own_balance_bin. Qed.

Theorem own_counts_ite : forall fuel s c f g h s', CInv s -> terms_unique_b terms = true ->
  ores_st (ite_o fuel s c f g h) = Some s' ->
  CInv s' /\ WF (to_snap s') /\ rc_exact_b (to_snap s') [] = true.
Proof. intros fuel s c f g h s' H Ht. apply (own_post_counts s); auto. apply own_balance_ite. Qed.

(** 3. never stuck *)
Notation stored := (stored terms).
Notation COK := (COK terms nl C cget).

Definition own_total (o : ores C) : Prop :=
  match o with
  | OOk s' c' r => stored (cn s') r /\ COK (cn s') c'
  | OErr s' c' => COK (cn s') c'
  | OStuck => False
  end.

Lemma safe_total : forall lb o, safe terms nl C cget lb o -> own_total o.
Proof. intros lb [s' c' r|s' c'|] S; simpl in *; [|exact S|exact S]. destruct S as [A [B _]]. auto. Qed.

Section Total.
Hypothesis BT : bterms_ok terms.
Hypothesis Hlossy : lossy cget cadd.

Theorem own_total_not : forall fuel s c f, CInv s -> COK (cn s) c -> stored (cn s) f ->
  S nl <= fuel -> own_total (not_o fuel s c f).
Proof.
  intros fuel s c f H Hc Sf Hf. eapply safe_total.
  apply (not_o_safe terms nl tid cap BT C cget cadd par Hlossy); auto. lia.
Qed.

Theorem own_total_bin : forall fuel s c op f g, CInv s -> COK (cn s) c ->
  stored (cn s) f -> stored (cn s) g -> S nl <= fuel -> own_total (bin_o fuel s c op f g).
Proof.
  intros fuel s c op f g H Hc Sf Sg Hf. eapply safe_total.
  apply (bin_o_safe terms nl tid cap BT gt C cget cadd par Hlossy); auto. lia.
Qed.

Theorem own_total_ite : forall fuel s c f g h, CInv s -> COK (cn s) c ->
  stored (cn s) f -> stored (cn s) g -> stored (cn s) h -> S nl <= fuel ->
  own_total (ite_o fuel s c f g h).
Proof.
  intros fuel s c f g h H Hc Sf Sg Sh Hf. eapply safe_total.
  apply (ite_o_safe terms nl tid cap BT gt C cget cadd par Hlossy); auto. lia.
Qed.
End Total.

(** 4. rollback by the collector *)
Definition rolled_back (s s' : cst) : Prop :=
  (forall id,
    ((exists nd', cfind (cn (collect s')) id = Some nd') <->
     (exists nd, cfind (cn s) id = Some nd) /\
     (exists o, In o (cown s) /\ creach (cn s) (eref (snd o)) (RN id))) /\
    (forall nd', cfind (cn (collect s')) id = Some nd' ->
       exists nd, cfind (cn s) id = Some nd /\ cl nd' = cl nd /\ cch nd' = cch nd)) /\
  (forall id, cfind (cn (collect s')) id = cfind (cn (collect s)) id) /\
  Permutation (cown (collect s')) (cown s).

Lemma own_post_rollback : forall s s' c', CInv s -> own_post s (OErr s' c') -> rolled_back s s'.
Proof.
  intros s s' c' H [P [X I0]]. pose proof (I0 H) as H'. apply meq_perm in P.
  split; [intros id; apply (rollback_collect terms nl s s' H H' X P)|].
  destruct (rollback_same terms nl s s' H H' X P) as [A B]. split; [exact A|].
  destruct (collect_keeps KBdd terms nl s H) as [Ko _]. rewrite <- Ko. exact B.
Qed.

Theorem own_err_collect_not : forall fuel s c f s' c', CInv s ->
  not_o fuel s c f = OErr s' c' -> rolled_back s s'.
Proof.
  intros fuel s c f s' c' H E. apply (own_post_rollback s s' c' H). rewrite <- E. apply own_balance_not.
Qed.

Theorem own_err_collect_bin : forall fuel s c op f g s' c', CInv s ->
  bin_o fuel s c op f g = OErr s' c' -> rolled_back s s'.
Proof.
  intros fuel s c op f g s' c' H E. apply (own_post_rollback s s' c' H). rewrite <- E. apply own_balance_bin.
Qed.

Theorem own_err_collect_ite : forall fuel s c f g h s' c', CInv s ->
  ite_o fuel s c f g h = OErr s' c' -> rolled_back s s'.
Proof.
  intros fuel s c f g h s' c' H E. apply (own_post_rollback s s' c' H). rewrite <- E. apply own_balance_ite.
Qed.

End Thms.

(** the meaning of [ext] and of the cache invariant [COK], spelled out *)
Lemma ext_meaning : forall s s',
  ext s s' <-> forall id nd, cfind (cn s) id = Some nd ->
    exists nd', cfind (cn s') id = Some nd' /\ cl nd' = cl nd /\ cch nd' = cch nd.
Proof. intros s s'. reflexivity. Qed.

Lemma cok_meaning : forall terms nl C cget t (c : C),
  COK terms nl C cget t c <->
  forall code args h, cget c code args = Some h ->
    cref_ok_b terms t h = true /\ (forall r, In r args -> cref_ok_b terms t r = true) /\
    (N.ltb code 39 = true -> minlvl nl t args <= crlevel nl t h).
Proof. intros. reflexivity. Qed.
