(** * C14x - the ownership model run on a snapshot of the real manager (executable
      definitions for the correspondence run of checks/C14.py; no proofs)

    [cst_of_snap] reads a lifted BDD snapshot (DD/Table.v) as a state of the
    interleaving model: the stored nodes with the reference counts the API reports,
    and one token (thread 0) per handle of the harness that points to an inner node.
    [own_inv_b] is the hypothesis of the theorems ([cinv_b] decides [CInv]).
    [own_not] / [own_bin] / [own_ite]: the model of Mgr/OomOwn.v with the guard placement
    of the code, no apply cache, sequential recursor, at capacity [cap]; [own_snap]
    turns the predicted state back into a snapshot (Mgr/Conc.v [to_snap]) so that the
    driver can compare it node by node (level, children up to renaming, reference
    count) with the snapshot the real manager shows after the operation. *)

From Coq Require Import List NArith PArith Bool Arith FMapPositive.
From OxiVerif Require Import DD.Table DD.Sem DD.Build DD.Apply Mgr.Conc Mgr.OomOwn.
Import ListNotations.

Definition is_inner_edge (e : edge) : bool :=
  match eref e with RN _ => true | RT _ => false end.

Definition cst_of_snap (s : snap) : cst :=
  mkCst (map (fun p : positive * node =>
                (fst p, mkC (nlevel (snd p)) (nchildren (snd p)) (nrc (snd p))))
             (PositiveMap.elements (s_nodes s)))
        (map (fun h : N * edge => (0, snd h))
             (filter (fun h : N * edge => is_inner_edge (snd h)) (s_handles s))).

Definition own_inv_b (s : snap) : bool :=
  cinv_b KBdd (s_terms s) (nlevels s) (cst_of_snap s).

Definition own_not (cap : nat) (s : snap) (f : ref) : ores unit :=
  not_on (s_terms s) (nlevels s) 0 cap false guards_code (cst_of_snap s) f.
Definition own_bin (cap : nat) (s : snap) (op : bop) (f g : ref) : ores unit :=
  bin_on (s_terms s) (nlevels s) 0 cap false guards_code (cst_of_snap s) op f g.
Definition own_ite (cap : nat) (s : snap) (f g h : ref) : ores unit :=
  ite_on (s_terms s) (nlevels s) 0 cap false guards_code (cst_of_snap s) f g h.

(** the predicted state as a snapshot; the number of tokens the thread owns in it *)
Definition own_snap (s : snap) (o : ores unit) : option snap :=
  option_map (to_snap KBdd (s_terms s) (nlevels s)) (ores_st o).
Definition own_tokens (o : ores unit) : option nat :=
  option_map (fun s' => length (cown s')) (ores_st o).
Definition snap_tokens (s : snap) : nat :=
  length (filter (fun h : N * edge => is_inner_edge (snd h)) (s_handles s)).

(** the harness stores a result in a handle slot (`slots.insert(dst, f)`): the function
    that was in the slot is dropped *)
Definition own_put (s : snap) (o : ores unit) (old : option ref) : ores unit :=
  match o with
  | OOk s' c r =>
    match old with
    | Some e =>
      match o_drop (s_terms s) 0 s' e with
      | Some s'' => OOk s'' c r
      | None => OStuck
      end
    | None => o
    end
  | _ => o
  end.
