(** * C14o - the ZBDD apply algorithms on a bounded node store WITH explicit ownership

    Executable definitions only (proofs: Mgr/OomOwnZProofs.v, statements:
    Mgr/OomOwnZThms.v).  Mgr/OomZbdd.v (C14y) has these algorithms in the error monad
    of the code without reference counts; here they are once more on the state [cst]
    of Mgr/Conc.v (table with reference counts + the multiset of owned edges), built
    from the kind-generic ownership primitives of Mgr/OomOwnZK.v with [k = KZbdd].
    Mirrors oxidd-rules-zbdd/src/lib.rs and src/apply_rec.rs:

      [z_reduce]      `reduce(manager, level, hi, lo, op)`: both edges are wrapped in
                      `EdgeDropGuard`s; hi = Empty: the guard of [hi] is dropped (a
                      terminal edge), `Ok(lo.into_edge())`; otherwise both are moved into
                      `get_or_insert`
      [z_reduce_bor]  `reduce_borrowed(manager, level, hi: Borrowed, lo, op)`: [lo]
                      guarded; hi = Empty: `Ok(lo.into_edge())`; otherwise
                      `InnerNode::new(level, [clone_edge(&hi), lo.into_edge()])`
                      `.then_insert(..)` = clone, then `get_or_insert`
      [zapply_o]      `apply_union` / `apply_intsec` / `apply_diff`: `let empty =
                      EdgeDropGuard::new(get_terminal(Empty))` guards a terminal edge
                      (no token in this model); terminal cases return a clone of an
                      operand or the terminal; cache hit = clone; one operand above the
                      other: `let lo = apply_op(.., flo, g)?` (no owned local alive at
                      the `?`) then `reduce_borrowed(level, hi, lo)`, or the tail call;
                      same level: `rec.binary(..)?` ([erec2]) then `reduce`; the result
                      of the `match` is followed by `?` (nothing owned), the cache
                      insertion and `Ok(h)`
      [zapply_not_o]  `apply_not` = `apply_diff(tautology(0), f)`: the tautology edge is
                      borrowed from the manager's `ZBDDCache` (the manager's own
                      reference: a token of another owner, never touched)
      [zsymm_o]       `apply_symm_diff`
      [zite_o]        `apply_ite` incl. `rec.ternary` and `rec.binary_ternary`
      [zop_o]         the operators of `BooleanFunction for ZBDDFunction(MT)`:
                      and = intsec, or = union, xor = symm_diff, imp_strict = diff(g, f),
                      imp = ite(f, g, tautology(0)), and the TWO-PHASE operators
                      nand / nor / equiv: `let x = EdgeDropGuard::new(m, op(..)?);
                      apply_not(m, rec, x.borrowed())` - the intermediate result is owned
                      by a guard while the complement runs ([eguarded]).

    Guard placement parameter [late]: index 2 / 3 / 4 = the recursor methods `binary` /
    `ternary` / `binary_ternary` (guards created only after both `?`), 10 / 11 / 12 = the
    intermediate result of nand / nor / equiv held as a bare edge that is released
    after a successful complement only (12 = seeded/C14g).  The code is
    [guards_code] (all false); the theorems are about it. *)

From Coq Require Import List NArith PArith Bool Arith FMapPositive.
From OxiVerif Require Import DD.Table DD.Sem DD.Build DD.Apply DD.FamSpec DD.ZbddOps DD.ZbddBool
  Mgr.Conc Mgr.OomOwn Mgr.OomOwnZK.
Import ListNotations.

Definition guards_late_equiv : nat -> bool := fun a => Nat.eqb a 12.
Definition guards_late_bt : nat -> bool := fun a => Nat.eqb a 4.

Section OwnZ.
Variable terms : list (N * N).
Variable nl : nat.
Variable tid : nat.
Variable cap : nat.

(** the terminal part of the manager as a node-less snapshot ([zempty], [zbase],
    [zterminal], [is_empty_b] only look at [s_terms]) *)
Definition ztsnap : snap := mkSnap KZbdd (PositiveMap.empty node) terms [] [] [].

Notation e_clone := (e_clone KZbdd terms tid).
Notation e_drop := (e_drop terms tid).
Notation e_goi := (e_goi KZbdd terms nl tid cap).

(** `reduce` *)
Definition z_reduce (s : cst) (lvl : nat) (hi lo : edge) : krres :=
  if is_empty_b ztsnap (eref hi) then
    match e_drop s hi with Some s1 => KOk s1 lo | None => KStuck end
  else e_goi s lvl hi lo.

(** `reduce_borrowed` *)
Definition z_reduce_bor (s : cst) (lvl : nat) (hi : ref) (lo : edge) : krres :=
  if is_empty_b ztsnap hi then KOk s lo
  else match e_clone s (E hi) with
       | Some s1 => e_goi s1 lvl (E hi) lo
       | None => KStuck
       end.

(** `Manager::get_node`: [Some None] = a terminal, [Some (Some nd)] = an inner node,
    [None] = dangling *)
Definition czget (s : cst) (r : ref) : option (option cnode) :=
  match r with
  | RT t => match assoc_N terms t with Some _ => Some None | None => None end
  | RN id => match cfind (cn s) id with Some nd => Some (Some nd) | None => None end
  end.

(** `Node::level()`; [None] = `LevelNo::MAX` *)
Definition clevel (v : option cnode) : option nat :=
  match v with Some nd => Some (cl nd) | None => None end.

(** `collect_children(node.unwrap_inner())` (borrowed edges) *)
Definition ckids (v : option cnode) : option (ref * ref) :=
  match v with
  | Some nd => match cch nd with [hi; lo] => Some (eref hi, eref lo) | _ => None end
  | None => None
  end.

(** `ZBDDCache::tautology`: the chain is looked up in the unique table as [ztaut] of
    DD/ZbddBool.v does on a snapshot *)
Fixpoint ctaut_up (t : ctable) (k : nat) : option ref :=
  match k with
  | O => zbase ztsnap
  | S k' =>
    match ctaut_up t k' with
    | Some e =>
      match find_shape t (nl - S k') [E e; E e] with Some id => Some (RN id) | None => None end
    | None => None
    end
  end.
Definition ctaut (t : ctable) (level : nat) : option ref := ctaut_up t (nl - level).
Definition ctaut_opt (t : ctable) (level : option nat) : option ref :=
  match level with Some l => ctaut t l | None => ctaut t nl end.

Section Alg.
Variable gt : ref -> ref -> bool.
Variable C : Type.
Variable cget : C -> N -> list ref -> list nat -> option ref.
Variable cadd : C -> N -> list ref -> list nat -> ref -> C.
Variable par : nat -> bool.
Variable late : nat -> bool.

Notation eclone_ret := (eclone_ret KZbdd terms tid C).
Notation ebind := (ebind terms tid C).
Notation erec2 := (erec2 terms tid C).
Notation efin := (efin terms tid C).
Notation eguarded := (eguarded terms tid C).

(** `reduce(..)` resp. `reduce_borrowed(..)` as the value of a `match` arm *)
Definition zfin_red (s : cst) (c : C) (lvl : nat) (hi lo : edge) : eres C :=
  efin (z_reduce s lvl hi lo) c (fun _ => c).
Definition zfin_bor (s : cst) (c : C) (lvl : nat) (hi : ref) (lo : edge) : eres C :=
  efin (z_reduce_bor s lvl hi lo) c (fun _ => c).

(** `}?; apply_cache().add(..); Ok(h)` *)
Definition zcadd (r : eres C) (code : N) (args : list ref) : eres C :=
  ebind r (fun s c h => EOk s (cadd c code args [] (eref h)) h).

(** [apply_union], [apply_intsec], [apply_diff] *)
Fixpoint zapply_o (fuel : nat) (s : cst) (c : C) (op : zop) (f g : ref) : eres C :=
  match fuel with
  | O => EStuck
  | S n =>
    match zterminal ztsnap op f g with
    | ZTFail => EStuck
    | ZTDone r => eclone_ret s c (E r)
    | ZTGo =>
      let '(f, g) := if zcommutes op && gt f g then (g, f) else (f, g) in
      match cget c (zop_code op) [f; g] [] with
      | Some h => eclone_ret s c (E h)
      | None =>
        match czget s f, czget s g with
        | Some fnode, Some gnode =>
          let res :=
            match lcmp (clevel fnode) (clevel gnode) with
            | Lt =>
              match ckids fnode, clevel fnode with
              | Some (fhi, flo), Some flevel =>
                match op with
                | ZUnion | ZDiff =>
                  ebind (zapply_o n s c op flo g) (fun s1 c1 lo => zfin_bor s1 c1 flevel fhi lo)
                | ZIntsec => zapply_o n s c op flo g
                end
              | _, _ => EStuck
              end
            | Eq =>
              match ckids fnode, ckids gnode, clevel fnode with
              | Some (fhi, flo), Some (ghi, glo), Some flevel =>
                erec2 (par n) (late 2) (zapply_o n s c op fhi ghi)
                  (fun s1 c1 => zapply_o n s1 c1 op flo glo)
                  (fun s2 c2 hi lo => zfin_red s2 c2 flevel hi lo)
              | _, _, _ => EStuck
              end
            | Gt =>
              match ckids gnode, clevel gnode with
              | Some (ghi, glo), Some glevel =>
                match op with
                | ZUnion =>
                  ebind (zapply_o n s c op f glo) (fun s1 c1 lo => zfin_bor s1 c1 glevel ghi lo)
                | ZIntsec | ZDiff => zapply_o n s c op f glo
                end
              | _, _ => EStuck
              end
            end in
          zcadd res (zop_code op) [f; g]
        | _, _ => EStuck
        end
      end
    end
  end.

(** [apply_not] *)
Definition zapply_not_o (fuel : nat) (s : cst) (c : C) (f : ref) : eres C :=
  match ctaut (cn s) 0 with
  | Some t => zapply_o fuel s c ZDiff t f
  | None => EStuck
  end.

(** [apply_symm_diff] *)
Fixpoint zsymm_o (fuel : nat) (s : cst) (c : C) (f g : ref) : eres C :=
  match fuel with
  | O => EStuck
  | S n =>
    match zempty ztsnap with
    | None => EStuck
    | Some empty =>
      if ref_eqb f g then eclone_ret s c (E empty)
      else if ref_eqb f empty then eclone_ret s c (E g)
      else if ref_eqb g empty then eclone_ret s c (E f)
      else
        let '(f, g) := if gt f g then (g, f) else (f, g) in
        match cget c zcode_symm [f; g] [] with
        | Some h => eclone_ret s c (E h)
        | None =>
          match czget s f, czget s g with
          | Some fnode, Some gnode =>
            let res :=
              match lcmp (clevel fnode) (clevel gnode) with
              | Lt =>
                match ckids fnode, clevel fnode with
                | Some (fhi, flo), Some flevel =>
                  ebind (zsymm_o n s c flo g) (fun s1 c1 lo => zfin_bor s1 c1 flevel fhi lo)
                | _, _ => EStuck
                end
              | Eq =>
                match ckids fnode, ckids gnode, clevel fnode with
                | Some (fhi, flo), Some (ghi, glo), Some flevel =>
                  erec2 (par n) (late 2) (zsymm_o n s c fhi ghi) (fun s1 c1 => zsymm_o n s1 c1 flo glo)
                    (fun s2 c2 hi lo => zfin_red s2 c2 flevel hi lo)
                | _, _, _ => EStuck
                end
              | Gt =>
                match ckids gnode, clevel gnode with
                | Some (ghi, glo), Some glevel =>
                  ebind (zsymm_o n s c f glo) (fun s1 c1 lo => zfin_bor s1 c1 glevel ghi lo)
                | _, _ => EStuck
                end
              end in
            zcadd res zcode_symm [f; g]
          | _, _ => EStuck
          end
        end
    end
  end.

(** [apply_ite] *)
Fixpoint zite_o (fuel : nat) (s : cst) (c : C) (f g h : ref) : eres C :=
  match fuel with
  | O => EStuck
  | S n =>
    if ref_eqb g h then eclone_ret s c (E g)
    else if ref_eqb f g then zapply_o fuel s c ZUnion f h
    else if ref_eqb f h then zapply_o fuel s c ZIntsec f g
    else
      match czget s f with
      | None => EStuck
      | Some fnode =>
        if is_empty_b ztsnap f then eclone_ret s c (E h)
        else
          match czget s g with
          | None => EStuck
          | Some gnode =>
            if is_empty_b ztsnap g then zapply_o fuel s c ZDiff h f
            else
              match czget s h with
              | None => EStuck
              | Some hnode =>
                if is_empty_b ztsnap h then zapply_o fuel s c ZIntsec f g
                else
                  let flevel := clevel fnode in
                  let glevel := clevel gnode in
                  let hlevel := clevel hnode in
                  let ghlevel := lmin glevel hlevel in
                  let level := lmin flevel ghlevel in
                  match ctaut_opt (cn s) level with
                  | None => EStuck
                  | Some taut =>
                    if ref_eqb f taut then eclone_ret s c (E g)
                    else if ref_eqb g taut then zapply_o fuel s c ZUnion f h
                    else
                      match cget c zcode_ite [f; g; h] [] with
                      | Some r => eclone_ret s c (E r)
                      | None =>
                        let res :=
                          match lcmp flevel ghlevel with
                          | Gt =>
                            match lcmp glevel hlevel with
                            | Lt =>
                              match ckids gnode with
                              | Some (_, glo) => zite_o n s c f glo h
                              | None => EStuck
                              end
                            | cmp =>
                              match ckids hnode, level with
                              | Some (hhi, hlo), Some lv =>
                                let g' :=
                                  match cmp with
                                  | Eq => match ckids gnode with Some (_, glo) => Some glo | None => None end
                                  | _ => Some g
                                  end in
                                match g' with
                                | None => EStuck
                                | Some g' =>
                                  ebind (zite_o n s c f g' hlo) (fun s1 c1 lo => zfin_bor s1 c1 lv hhi lo)
                                end
                              | _, _ => EStuck
                              end
                            end
                          | Lt =>
                            match ckids fnode with
                            | Some (_, flo) => zite_o n s c flo g h
                            | None => EStuck
                            end
                          | Eq =>
                            match ckids fnode, level with
                            | Some (fhi, flo), Some lv =>
                              let fin := fun s2 c2 hi lo => zfin_red s2 c2 lv hi lo in
                              match lcmp hlevel flevel with
                              | Gt =>
                                match ckids gnode with
                                | Some (ghi, glo) =>
                                  erec2 (par n) (late 4) (zapply_o fuel s c ZIntsec fhi ghi)
                                        (fun s1 c1 => zite_o n s1 c1 flo glo h) fin
                                | None => EStuck
                                end
                              | _ =>
                                match lcmp glevel flevel with
                                | Gt =>
                                  match ckids hnode with
                                  | Some (hhi, hlo) =>
                                    erec2 (par n) (late 4) (zapply_o fuel s c ZDiff hhi fhi)
                                          (fun s1 c1 => zite_o n s1 c1 flo g hlo) fin
                                  | None => EStuck
                                  end
                                | _ =>
                                  match ckids gnode, ckids hnode with
                                  | Some (ghi, glo), Some (hhi, hlo) =>
                                    erec2 (par n) (late 3) (zite_o n s c fhi ghi hhi)
                                          (fun s1 c1 => zite_o n s1 c1 flo glo hlo) fin
                                  | _, _ => EStuck
                                  end
                                end
                              end
                            | _, _ => EStuck
                            end
                          end in
                        zcadd res zcode_ite [f; g; h]
                      end
                  end
              end
          end
      end
  end.

(** the entry points of [BooleanFunction for ZBDDFunction] / [ZBDDFunctionMT] *)
Definition zop_o (fuel : nat) (s : cst) (c : C) (op : bop) (f g : ref) : eres C :=
  match op with
  | OAnd => zapply_o fuel s c ZIntsec f g
  | OOr => zapply_o fuel s c ZUnion f g
  | ONand =>
    ebind (zapply_o fuel s c ZIntsec f g)
          (fun s1 c1 x => eguarded (late 10) x (zapply_not_o fuel s1 c1 (eref x)))
  | ONor =>
    ebind (zapply_o fuel s c ZUnion f g)
          (fun s1 c1 x => eguarded (late 11) x (zapply_not_o fuel s1 c1 (eref x)))
  | OXor => zsymm_o fuel s c f g
  | OEquiv =>
    ebind (zsymm_o fuel s c f g)
          (fun s1 c1 x => eguarded (late 12) x (zapply_not_o fuel s1 c1 (eref x)))
  | OImp =>
    match ctaut (cn s) 0 with
    | Some t => zite_o fuel s c f g t
    | None => EStuck
    end
  | OImpStrict => zapply_o fuel s c ZDiff g f
  end.

End Alg.
End OwnZ.

(** instances: no apply cache, one recursor, standard fuel *)
Definition zset_on (terms : list (N * N)) (nl tid cap : nat) (p : bool) (late : nat -> bool)
  (s : cst) (op : zop) (f g : ref) : eres unit :=
  zapply_o terms nl tid cap gt_no unit znc_get znc_add (fun _ => p) late (S nl) s tt op f g.
Definition znot_on (terms : list (N * N)) (nl tid cap : nat) (p : bool) (late : nat -> bool)
  (s : cst) (f : ref) : eres unit :=
  zapply_not_o terms nl tid cap gt_no unit znc_get znc_add (fun _ => p) late (S nl) s tt f.
Definition zop_on (terms : list (N * N)) (nl tid cap : nat) (p : bool) (late : nat -> bool)
  (s : cst) (op : bop) (f g : ref) : eres unit :=
  zop_o terms nl tid cap gt_no unit znc_get znc_add (fun _ => p) late (S nl) s tt op f g.
Definition zite_on (terms : list (N * N)) (nl tid cap : nat) (p : bool) (late : nat -> bool)
  (s : cst) (f g h : ref) : eres unit :=
  zite_o terms nl tid cap gt_no unit znc_get znc_add (fun _ => p) late (S nl) s tt f g h.
