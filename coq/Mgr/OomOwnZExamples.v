(** * C14o - the ZBDD ownership model on a concrete manager: non-vacuity, refutation of
      the seeded guard placement (seeded/C14g)

    [exz]: a ZBDD manager with two variables as the code builds it: terminals Empty
    (id 0) and Base (id 1); the tautology chain taut(1) = node 1 = (level 1, [Base,
    Base]), taut(0) = node 2 = (level 0, [1, 1]), each owned once by the manager's
    `ZBDDCache` (tokens of owner 1); the Boolean variables x0 = node 3 = (level 0,
    [taut(1), Empty]) and x1 = node 5 = (level 0, [4, 4]) with 4 = (level 1, [Base,
    Empty]), each owned once by the caller (thread 0).  Counts exact ([exz_inv]). *)

From Coq Require Import List NArith PArith Bool Arith Lia Permutation.
From OxiVerif Require Import DD.Table DD.TableProofs DD.Sem DD.Build DD.Apply DD.FamSpec DD.ZbddOps DD.ZbddBool
  Mgr.Conc Mgr.ConcBase Mgr.ConcProofs Mgr.ConcSnap Mgr.ConcGc Mgr.ConcGcProofs
  Mgr.OomOwn Mgr.OomOwnProofs Mgr.OomOwnZK Mgr.OomOwnZKProofs Mgr.OomOwnZ Mgr.OomOwnZProofs Mgr.OomOwnZThms.
Import ListNotations.

Definition zterms : list (N * N) := [(0%N, 0%N); (1%N, 1%N)].
Definition zT0 := E (RT 0%N).
Definition zT1 := E (RT 1%N).
Definition zN (p : positive) := E (RN p).

Definition exz : cst := mkCst
  [ (5%positive, mkC 0 [zN 4; zN 4] 1%N);
    (4%positive, mkC 1 [zT1; zT0] 2%N);
    (3%positive, mkC 0 [zN 1; zT0] 1%N);
    (2%positive, mkC 0 [zN 1; zN 1] 1%N);
    (1%positive, mkC 1 [zT1; zT1] 4%N) ]
  [ (0, zN 3); (0, zN 5); (1, zN 1); (1, zN 2) ].

Example exz_inv : CInv KZbdd zterms 2 exz /\ terms_unique_b zterms = true.
Proof. split; [apply cinv_b_spec; vm_compute; reflexivity | reflexivity]. Qed.

(** outcome (0 = result, 1 = out of memory, 2 = stuck), stored nodes, tokens owned,
    result, executable invariant *)
Definition zout {C} (r : eres C) :=
  (eres_code r, option_map cnode_count (eres_st r),
   option_map (fun s => length (cown s)) (eres_st r), option_map eref (eres_edge r),
   option_map (cinv_b KZbdd zterms 2) (eres_st r)).

(** x0 <op> x1 for capacities 5 (store full), 6, 7, 8; both recursors: four tokens after
    a failure, five after an inner result, counts exact; nand and equiv need two slots
    (two phases), nor's complement is the terminal Base *)
Example exz_ops : forall p,
  map (fun op => map (fun cap => zout (zop_on zterms 2 0 cap p guards_code exz op (RN 3) (RN 5))) [5; 6; 7; 8])
      [OAnd; ONand; ONor; OXor; OEquiv; OImp] =
  [ [(1, Some 5, Some 4, None, Some true); (0, Some 6, Some 5, Some (RN 6), Some true);
     (0, Some 6, Some 5, Some (RN 6), Some true); (0, Some 6, Some 5, Some (RN 6), Some true)];
    [(1, Some 5, Some 4, None, Some true); (1, Some 6, Some 4, None, Some true);
     (0, Some 7, Some 5, Some (RN 7), Some true); (0, Some 7, Some 5, Some (RN 7), Some true)];
    [(1, Some 5, Some 4, None, Some true); (0, Some 6, Some 4, Some (RT 1), Some true);
     (0, Some 6, Some 4, Some (RT 1), Some true); (0, Some 6, Some 4, Some (RT 1), Some true)];
    [(1, Some 5, Some 4, None, Some true); (0, Some 6, Some 5, Some (RN 6), Some true);
     (0, Some 6, Some 5, Some (RN 6), Some true); (0, Some 6, Some 5, Some (RN 6), Some true)];
    [(1, Some 5, Some 4, None, Some true); (1, Some 6, Some 4, None, Some true);
     (0, Some 7, Some 5, Some (RN 7), Some true); (0, Some 7, Some 5, Some (RN 7), Some true)];
    [(1, Some 5, Some 4, None, Some true); (0, Some 6, Some 5, Some (RN 6), Some true);
     (0, Some 6, Some 5, Some (RN 6), Some true); (0, Some 6, Some 5, Some (RN 6), Some true)] ].
Proof. intros [|]; vm_compute; reflexivity. Qed.

(** equiv with 6 slots: the symmetric difference creates node 6, the complement runs
    out of memory; the guard has released node 6 (count 0), the tokens are literally
    the caller's, and the collection returns the original table *)
Example exz_equiv_garbage :
  match zop_on zterms 2 0 6 false guards_code exz OEquiv (RN 3) (RN 5) with
  | EErr s' _ =>
      cown s' = cown exz /\
      map (fun p => (fst p, crc (snd p))) (cn s') =
        [(6%positive, 0%N); (5%positive, 1%N); (4%positive, 3%N); (3%positive, 1%N);
         (2%positive, 1%N); (1%positive, 4%N)] /\
      collect KZbdd zterms 2 s' = exz
  | _ => False
  end.
Proof. vm_compute. repeat split; reflexivity. Qed.

(** ** Refutation: seeded/C14g - the symmetric difference held as a bare edge while the
    complement runs (`let res = not(&xor)?; drop_edge(xor); Ok(res)`) *)

Definition zleaks {C} (s : cst) (o : eres C) : Prop :=
  match o with
  | EErr s' _ =>
      ~ Permutation (cown s') (cown s) /\
      length (cown s') = S (length (cown s)) /\
      exists id, cfind (cn s) id = None /\
                 cfind (cn (collect KZbdd zterms 2 s')) id <> None
  | _ => False
  end.

Lemma zleak_by_length : forall s s' : cst, length (cown s') = S (length (cown s)) ->
  ~ Permutation (cown s') (cown s).
Proof. intros s s' L P. apply Permutation_length in P. lia. Qed.

Theorem ownz_balance_late_equiv_refuted : forall p,
  zleaks exz (zop_on zterms 2 0 6 p guards_late_equiv exz OEquiv (RN 3) (RN 5)) /\
  kown_post KZbdd zterms 2 0 unit exz (zop_on zterms 2 0 6 p guards_code exz OEquiv (RN 3) (RN 5)) /\
  eres_code (zop_on zterms 2 0 6 p guards_code exz OEquiv (RN 3) (RN 5)) = 1 /\
  (* on success the variant is indistinguishable from the code *)
  zop_on zterms 2 0 7 p guards_late_equiv exz OEquiv (RN 3) (RN 5) =
  zop_on zterms 2 0 7 p guards_code exz OEquiv (RN 3) (RN 5).
Proof.
  intros p. split; [|split; [apply ownz_balance_op | split; destruct p; vm_compute; reflexivity]].
  destruct p.
  - remember (zop_on zterms 2 0 6 true guards_late_equiv exz OEquiv (RN 3) (RN 5)) as o eqn:Eo.
    vm_compute in Eo. subst o. unfold zleaks.
    split; [apply zleak_by_length; reflexivity|]. split; [reflexivity|].
    exists 6%positive. split; [reflexivity|]. vm_compute. discriminate.
  - remember (zop_on zterms 2 0 6 false guards_late_equiv exz OEquiv (RN 3) (RN 5)) as o eqn:Eo.
    vm_compute in Eo. subst o. unfold zleaks.
    split; [apply zleak_by_length; reflexivity|]. split; [reflexivity|].
    exists 6%positive. split; [reflexivity|]. vm_compute. discriminate.
Qed.

(** ** Refutation: seeded/C14b - `binary_ternary` with the guards created after both `?`

    [exz3]: three variables; tautology chain 1 = (2, [Base, Base]), 2 = (1, [1, 1]),
    3 = (0, [2, 2]) (owner 1); x0 = 4 = (0, [2, Empty]); 5 = (1, [1, Empty]);
    x1 = 6 = (0, [5, 5]); 7 = (2, [Base, Empty]); 8 = (1, [7, 7]); x2 = 9 = (0, [8, 8]);
    thread 0 owns x0, x1, x2 and node 5.  ite(x2, x0, 5): g = x0 and f = x2 are on the top
    level, h = 5 is below: `binary_ternary(apply_intsec, (fhi, ghi), apply_ite, (flo, glo, h))`;
    with 9 slots (store full) the intersection is a unique-table hit (a new owned edge,
    no allocation) and the ite branch runs out of memory. *)

Definition exz3 : cst := mkCst
  [ (9%positive, mkC 0 [zN 8; zN 8] 1%N);
    (8%positive, mkC 1 [zN 7; zN 7] 2%N);
    (7%positive, mkC 2 [zT1; zT0] 2%N);
    (6%positive, mkC 0 [zN 5; zN 5] 1%N);
    (5%positive, mkC 1 [zN 1; zT0] 3%N);
    (4%positive, mkC 0 [zN 2; zT0] 1%N);
    (3%positive, mkC 0 [zN 2; zN 2] 1%N);
    (2%positive, mkC 1 [zN 1; zN 1] 4%N);
    (1%positive, mkC 2 [zT1; zT1] 4%N) ]
  [ (0, zN 4); (0, zN 6); (0, zN 9); (0, zN 5); (1, zN 1); (1, zN 2); (1, zN 3) ].

Example exz3_inv : CInv KZbdd zterms 3 exz3.
Proof. apply cinv_b_spec. vm_compute. reflexivity. Qed.

(** the leak without a new node: one token more than before, and after the collection
    some node's entry (its count) is not the one a collection of the original state
    yields *)
Theorem ownz_balance_late_bt_refuted : forall p,
  (match zite_on zterms 3 0 9 p guards_late_bt exz3 (RN 9) (RN 4) (RN 5) with
   | EErr s' _ =>
       ~ Permutation (cown s') (cown exz3) /\
       length (cown s') = S (length (cown exz3)) /\
       exists id, cfind (cn (collect KZbdd zterms 3 s')) id <> cfind (cn (collect KZbdd zterms 3 exz3)) id
   | _ => False
   end) /\
  kown_post KZbdd zterms 3 0 unit exz3 (zite_on zterms 3 0 9 p guards_code exz3 (RN 9) (RN 4) (RN 5)) /\
  eres_code (zite_on zterms 3 0 9 p guards_code exz3 (RN 9) (RN 4) (RN 5)) = 1.
Proof.
  intros p. split; [|split; [apply ownz_balance_ite | destruct p; vm_compute; reflexivity]].
  destruct p.
  - remember (zite_on zterms 3 0 9 true guards_late_bt exz3 (RN 9) (RN 4) (RN 5)) as o eqn:Eo.
    vm_compute in Eo. subst o.
    split; [apply zleak_by_length; reflexivity|]. split; [reflexivity|].
    exists 8%positive. vm_compute. discriminate.
  - remember (zite_on zterms 3 0 9 false guards_late_bt exz3 (RN 9) (RN 4) (RN 5)) as o eqn:Eo.
    vm_compute in Eo. subst o.
    split; [apply zleak_by_length; reflexivity|]. split; [reflexivity|].
    exists 8%positive. vm_compute. discriminate.
Qed.
