(** * C14o - rollback by the collector, for every kind (the text of Mgr/OomOwnGc.v
      (C14x) with the kind as a section variable; the lemmas used - [collect_exact],
      [collect_inv], [collect_keeps], [child_live] of Mgr/ConcGcProofs.v - are generic)

    [krollback_collect] / [krollback_same]: if [s'] extends [s] ([ext]), owns the same
    tokens (as a multiset) and both satisfy [CInv k], then `Manager::gc` ([collect])
    applied to [s'] stores exactly the nodes of [s] reachable from a token of [s], with
    the level, children AND count a collection of [s] itself would have produced. *)

From Coq Require Import List NArith PArith Bool Arith Lia Permutation.
From OxiVerif Require Import DD.Table DD.TableProofs
  Mgr.Conc Mgr.ConcBase Mgr.ConcProofs Mgr.ConcGc Mgr.ConcGcProofs Mgr.OomOwn Mgr.OomOwnProofs.
Import ListNotations.

Section Gc.
Variable k : kind.
Variable terms : list (N * N).
Variable nl : nat.

Notation CInv := (CInv k terms nl).
Notation collect := (collect k terms nl).
Notation reach_own := (reach_own).

Lemma kcreach_ext : forall s s' r r', ext s s' -> creach (cn s) r r' -> creach (cn s') r r'.
Proof.
  intros s s' r r' X Hr. induction Hr as [|j nd e Hr IH F He]; [constructor|].
  destruct (X j nd F) as [nd' [F' [_ Hc]]].
  apply (creach_child (cn s') r j nd' e IH F'). rewrite Hc. exact He.
Qed.

(** from an edge that is valid in [s], the extension reaches nothing new *)
Lemma kcreach_back : forall s s' root r, CInv s -> ext s s' ->
  edge_ok_b k terms (cn s) root = true ->
  creach (cn s') (eref root) r ->
  creach (cn s) (eref root) r /\ (forall id, r = RN id -> exists nd, cfind (cn s) id = Some nd).
Proof.
  intros s s' root r H X Hok Hr. induction Hr as [|j nd e Hr IH F He].
  - split; [constructor|]. intros id Er. apply (edge_ok_b_inner k terms _ _ id Hok Er).
  - destruct IH as [Hr0 Hst]. destruct (Hst j eq_refl) as [nd0 F0].
    destruct (X j nd0 F0) as [nd1 [F1 [_ Hc]]]. rewrite F in F1. inversion F1; subst nd1.
    rewrite Hc in He. split.
    + apply (creach_child (cn s) _ j nd0 e Hr0 F0 He).
    + intros id Er. destruct (child_live k terms nl s j nd0 e id H F0 He Er) as [ndc [Fc _]]. eauto.
Qed.

Theorem krollback_collect : forall s s', CInv s -> CInv s' -> ext s s' -> meq (cown s') (cown s) ->
  forall id,
  ((exists nd', cfind (cn (collect s')) id = Some nd') <->
   (exists nd, cfind (cn s) id = Some nd) /\
   (exists o, In o (cown s) /\ creach (cn s) (eref (snd o)) (RN id))) /\
  (forall nd', cfind (cn (collect s')) id = Some nd' ->
     exists nd, cfind (cn s) id = Some nd /\ cl nd' = cl nd /\ cch nd' = cch nd).
Proof.
  intros s s' H H' X M id.
  destruct (collect_exact k terms nl s' id H') as [Hiff Hshape].
  assert (Hback : (exists nd', cfind (cn (collect s')) id = Some nd') ->
            (exists nd, cfind (cn s) id = Some nd) /\
            (exists o, In o (cown s) /\ creach (cn s) (eref (snd o)) (RN id))).
  { intros Hex. destruct (proj1 Hiff Hex) as [_ [o [Ho Hr]]].
    assert (Ho' : In o (cown s)) by (apply (meq_In _ _ o M Ho)).
    destruct (kcreach_back s s' (snd o) (RN id) H X (ci_own _ _ _ s H o Ho') Hr) as [Hr0 Hst].
    split; [apply (Hst id eq_refl)|]. exists o. auto. }
  split; [split; [exact Hback|]|].
  - intros [[nd F] [o [Ho Hr]]]. apply (proj2 Hiff). split.
    + destruct (X id nd F) as [nd' [F' _]]. eauto.
    + exists o. split.
      * apply (meq_In (cown s) (cown s') o); [|exact Ho]. intro x. symmetry. apply M.
      * apply (kcreach_ext s s' _ _ X Hr).
  - intros nd' F'. destruct (Hshape nd' F') as [nd1 [F1 [L1 C1]]].
    destruct (Hback (ex_intro _ nd' F')) as [[nd F] _].
    destruct (X id nd F) as [nd2 [F2 [L2 C2]]]. rewrite F1 in F2. inversion F2; subst nd2.
    exists nd. split; [exact F|]. split; congruence.
Qed.

(** ** entry by entry the same table as a collection of the state before *)

Lemma kowners_perm : forall l l' id, Permutation l l' -> owners l id = owners l' id.
Proof.
  intros l l' id P. induction P as [|x l l' P IH|x y l|l l' l'' P1 IH1 P2 IH2].
  - reflexivity.
  - rewrite !owners_cons. lia.
  - rewrite !owners_cons. lia.
  - lia.
Qed.

Definition shape_eq (a b : option cnode) : Prop :=
  match a, b with
  | Some x, Some y => cl x = cl y /\ cch x = cch y
  | None, None => True
  | _, _ => False
  end.

Lemma kparents_shape : forall t t' id, NoDup (map fst t) -> NoDup (map fst t') ->
  (forall j, shape_eq (cfind t j) (cfind t' j)) -> parents t id = parents t' id.
Proof.
  induction t as [|[i n] r IH]; intros t' id N N' Hs.
  - assert (t' = []) as ->; [|reflexivity].
    destruct t' as [|[j m] r']; [reflexivity|]. specialize (Hs j). simpl in Hs.
    rewrite Pos.eqb_refl in Hs. destruct Hs.
  - simpl in N. inversion N as [|? ? Hi Nr]; subst.
    pose proof (Hs i) as Hi'. simpl in Hi'. rewrite Pos.eqb_refl in Hi'.
    destruct (cfind t' i) as [n'|] eqn:F'; [|destruct Hi']. destruct Hi' as [_ Hc].
    rewrite (parents_cremove i t' n' id F'). simpl. rewrite Hc. f_equal.
    apply IH; [exact Nr | apply cremove_nodup; exact N'|].
    intros j. rewrite (cfind_cremove i t' j N'). specialize (Hs j). simpl in Hs.
    destruct (Pos.eqb_spec i j) as [->|Hne].
    + rewrite Pos.eqb_refl. destruct (cfind r j) as [x|] eqn:Fr; [|exact I].
      exfalso. apply Hi. apply (cfind_Some_keys r j x Fr).
    + destruct (Pos.eqb_spec j i) as [->|_]; [congruence | exact Hs].
Qed.

Theorem krollback_same : forall s s', CInv s -> CInv s' -> ext s s' -> meq (cown s') (cown s) ->
  (forall id, cfind (cn (collect s')) id = cfind (cn (collect s)) id) /\
  Permutation (cown (collect s')) (cown (collect s)).
Proof.
  intros s s' H H' X M.
  pose proof (collect_inv k terms nl s H) as G. pose proof (collect_inv k terms nl s' H') as G'.
  destruct (collect_keeps k terms nl s H) as [Ko _]. destruct (collect_keeps k terms nl s' H') as [Ko' _].
  assert (P : Permutation (cown (collect s')) (cown (collect s))).
  { rewrite Ko, Ko'. apply meq_perm. exact M. }
  split; [|exact P].
  assert (Hsh : forall j, shape_eq (cfind (cn (collect s')) j) (cfind (cn (collect s)) j)).
  { intros j. destruct (krollback_collect s s' H H' X M j) as [I1 S1].
    destruct (collect_exact k terms nl s j H) as [I2 S2]. unfold shape_eq.
    destruct (cfind (cn (collect s')) j) as [a|] eqn:Fa; destruct (cfind (cn (collect s)) j) as [b|] eqn:Fb.
    - destruct (S1 a eq_refl) as [n1 [F1 [L1 C1]]]. destruct (S2 b eq_refl) as [n2 [F2 [L2 C2]]].
      rewrite F1 in F2. inversion F2; subst. split; congruence.
    - destruct (proj2 I2 (proj1 I1 (ex_intro _ a eq_refl))) as [b Fb']. congruence.
    - destruct (proj2 I1 (proj1 I2 (ex_intro _ b eq_refl))) as [a Fa']. congruence.
    - exact I. }
  intros id. specialize (Hsh id) as Hid. unfold shape_eq in Hid.
  destruct (cfind (cn (collect s')) id) as [a|] eqn:Fa; destruct (cfind (cn (collect s)) id) as [b|] eqn:Fb;
    try (destruct Hid; fail); [|reflexivity].
  destruct Hid as [L Cc]. f_equal.
  pose proof (ci_rc _ _ _ _ G' id a Fa) as Ra. pose proof (ci_rc _ _ _ _ G id b Fb) as Rb.
  rewrite (kowners_perm _ _ id P) in Ra.
  rewrite (kparents_shape _ _ id (ti_nodup _ _ _ _ (ci_tbl _ _ _ _ G')) (ti_nodup _ _ _ _ (ci_tbl _ _ _ _ G)) Hsh) in Ra.
  destruct a as [la ca ra], b as [lb cb rb]. simpl in *. subst. reflexivity.
Qed.

End Gc.
