(** * C14o - ownership primitives for every rule set (kind-generic kernel)

    Executable definitions only (proofs: Mgr/OomOwnZKProofs.v).  Mgr/OomOwn.v (C14x)
    has the primitives of the ownership model for the plain-BDD rule set, on
    references.  The complement-edge rule set owns TAGGED edges (the tag is part of
    the edge value, `not_owned` flips it without touching memory) and the
    zero-suppressed rule set has its own reduction rule, so the primitives are
    restated here on [edge]s and for an arbitrary [kind] (the invariant [CInv k] and
    its preservation lemmas of Mgr/ConcProofs.v are generic in the kind):

      [e_clone]  `Manager::clone_edge` (also: the clone `apply_cache().get` makes)
      [e_drop]   `Manager::drop_edge`; STUCK: no such token / count 0
      [e_not]    BCDD `not_owned(e)`: the owned edge value gets the other tag, no
                 memory access (Mgr/Conc.v [ANot])
      [e_goi]    `LevelView::get_or_insert(InnerNode::new(level, [t, e]))` on a store
                 with [cap] slots: children moved in; hit: children released, table
                 edge cloned; miss + free slot: node written with count 1; miss + no
                 slot: `node.drop_with(|e| drop_edge(e))`, `Err(OutOfMemory)`
      [eunwind]  leaving a function through `?`: the `EdgeDropGuard`s of the frame
                 are dropped, bare edges leak
      [ebind]    `let x = callee(..)?; rest(x)`: no owned local alive at the `?`
      [erec2]    the recursor methods `binary / ternary / binary_ternary` (the ZBDD and
                 the complement-edge recursor.rs have the text of oxidd-rules-bdd's):
                 sequential `let ra = Guard::new(op(..)?); let rb = Guard::new(op(..)?)`,
                 parallel: both closures wrap their edge before returning,
                 `Ok((ra?, rb?))`
      [eguarded] `let x = EdgeDropGuard::new(m, x); body(&x)`: [x] is released when the
                 function is left, by `?` or normally ([late = true]: the SEEDED
                 variant `let r = body(&x)?; m.drop_edge(x); Ok(r)`: [x] leaks on `?`)

    Results carry an EDGE (tag included).  [EStuck] as [OStuck] of Mgr/OomOwn.v. *)

From Coq Require Import List NArith PArith Bool Arith FMapPositive.
From OxiVerif Require Import DD.Table DD.Sem DD.Build DD.Apply Mgr.Conc Mgr.OomOwn.
Import ListNotations.

Inductive eres (C : Type) : Type :=
| EOk (s : cst) (c : C) (e : edge)
| EErr (s : cst) (c : C)
| EStuck.
Arguments EOk {C}.
Arguments EErr {C}.
Arguments EStuck {C}.

(** result of [get_or_insert] / [reduce] *)
Inductive krres : Type :=
| KOk (s : cst) (e : edge)
| KErr (s : cst)
| KStuck.

(** owned locals of an activation; [true] = inside an `EdgeDropGuard` *)
Definition eframe := list (edge * bool).

Definition eflip (e : edge) : edge := mkEdge (eref e) (negb (etag e)).

Section K.
Variable k : kind.
Variable terms : list (N * N).
Variable nl : nat.
Variable tid : nat.
Variable cap : nat.

(** the token for an owned edge (none for terminals) *)
Definition toke (e : edge) : list (nat * edge) :=
  match eref e with RN _ => [(tid, e)] | RT _ => [] end.

(** `Manager::clone_edge` *)
Definition e_clone (s : cst) (e : edge) : option cst :=
  if edge_ok_b k terms (cn s) e then
    match eref e with
    | RT _ => Some s
    | RN id => Some (mkCst (rc_inc id (cn s)) ((tid, e) :: cown s))
    end
  else None.

(** `Manager::drop_edge` *)
Definition e_drop (s : cst) (e : edge) : option cst :=
  match eref e with
  | RT _ => if cref_ok_b terms (cn s) (eref e) then Some s else None
  | RN id =>
    match cfind (cn s) id with
    | Some nd =>
      if N.eqb (crc nd) 0 then None
      else match take_tok (tid, e) (cown s) with
           | Some own' => Some (mkCst (rc_dec id (cn s)) own')
           | None => None
           end
    | None => None
    end
  end.

(** `not_owned(e)` of the complement-edge rule set *)
Definition e_not (s : cst) (e : edge) : option cst :=
  match eref e with
  | RT _ => Some s
  | RN _ =>
    if edge_ok_b k terms (cn s) (eflip e) then
      match take_tok (tid, e) (cown s) with
      | Some own' => Some (mkCst (cn s) ((tid, eflip e) :: own'))
      | None => None
      end
    else None
  end.

(** `LevelView::get_or_insert(InnerNode::new(lvl, [t, e]))` *)
Definition e_goi (s : cst) (lvl : nat) (t e : edge) : krres :=
  let ch := [t; e] in
  if node_pre_b k terms nl (cn s) lvl ch then
    match take_toks tid ch (cown s) with
    | None => KStuck
    | Some own1 =>
      match find_shape (cn s) lvl ch with
      | Some id =>
        if dec_ok_b (cn s) ch
        then KOk (mkCst (rc_inc id (dec_children (cn s) ch)) ((tid, E (RN id)) :: own1)) (E (RN id))
        else KStuck
      | None =>
        if Nat.ltb (cnode_count s) cap then
          let fr := cfresh (cn s) in
          KOk (mkCst ((fr, mkC lvl ch 1%N) :: cn s) ((tid, E (RN fr)) :: own1)) (E (RN fr))
        else if dec_ok_b (cn s) ch
        then KErr (mkCst (dec_children (cn s) ch) own1)
        else KStuck
      end
    end
  else KStuck.

(** leaving a function through `?` with the locals [fr] *)
Fixpoint eunwind (s : cst) (fr : eframe) : option cst :=
  match fr with
  | [] => Some s
  | (r, true) :: rest =>
    match e_drop s r with Some s1 => eunwind s1 rest | None => None end
  | (_, false) :: rest => eunwind s rest
  end.

Section Comb.
Variable C : Type.

Definition eerr (s : cst) (c : C) (fr : eframe) : eres C :=
  match eunwind s fr with Some s' => EErr s' c | None => EStuck end.

(** `Ok(manager.clone_edge(&h))`; `return Ok(h)` for a cache hit *)
Definition eclone_ret (s : cst) (c : C) (h : edge) : eres C :=
  match e_clone s h with Some s' => EOk s' c h | None => EStuck end.

(** `let x = callee(..)?; rest(x)` *)
Definition ebind (r : eres C) (rest : cst -> C -> edge -> eres C) : eres C :=
  match r with
  | EOk s c e => rest s c e
  | EErr s c => eerr s c []
  | EStuck => EStuck
  end.

Definition eseq2 (lt : bool) (r1 : eres C) (run2 : cst -> C -> eres C)
  (fin : cst -> C -> edge -> edge -> eres C) : eres C :=
  match r1 with
  | EStuck => EStuck
  | EErr s1 c1 => eerr s1 c1 []
  | EOk s1 c1 t =>
    match run2 s1 c1 with
    | EStuck => EStuck
    | EErr s2 c2 => eerr s2 c2 [(t, negb lt)]
    | EOk s2 c2 e => fin s2 c2 t e
    end
  end.

Definition epar2 (lt : bool) (r1 : eres C) (run2 : cst -> C -> eres C)
  (fin : cst -> C -> edge -> edge -> eres C) : eres C :=
  match r1 with
  | EStuck => EStuck
  | EErr s1 c1 =>
    match run2 s1 c1 with
    | EStuck => EStuck
    | EErr s2 c2 => eerr s2 c2 []
    | EOk s2 c2 e => eerr s2 c2 [(e, negb lt)]
    end
  | EOk s1 c1 t =>
    match run2 s1 c1 with
    | EStuck => EStuck
    | EErr s2 c2 => eerr s2 c2 [(t, negb lt)]
    | EOk s2 c2 e => fin s2 c2 t e
    end
  end.

Definition erec2 (p lt : bool) := if p then epar2 lt else eseq2 lt.

(** [x] is owned by a guard while [o] ran (code) / by a bare local that is released
    after a successful [o] only (seeded variant) *)
Definition eguarded (lt : bool) (x : edge) (o : eres C) : eres C :=
  match o with
  | EOk s c r =>
    match e_drop s x with Some s' => EOk s' c r | None => EStuck end
  | EErr s c => eerr s c [(x, negb lt)]
  | EStuck => EStuck
  end.

(** a `get_or_insert` / `reduce` result followed by `?`, the cache insertion, `Ok(h)` *)
Definition efin (r : krres) (c : C) (upd : edge -> C) : eres C :=
  match r with
  | KOk s h => EOk s (upd h) h
  | KErr s => eerr s c []
  | KStuck => EStuck
  end.

End Comb.
End K.

Definition eres_code {C : Type} (r : eres C) : nat :=
  match r with EOk _ _ _ => 0 | EErr _ _ => 1 | EStuck => 2 end.
Definition eres_st {C : Type} (r : eres C) : option cst :=
  match r with EOk s _ _ => Some s | EErr s _ => Some s | EStuck => None end.
Definition eres_edge {C : Type} (r : eres C) : option edge :=
  match r with EOk _ _ e => Some e | _ => None end.
