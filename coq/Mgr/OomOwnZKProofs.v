(** * C14o - balance of the kind-generic ownership primitives and combinators
      (Mgr/OomOwnZK.v); invariant-free

    [kbal s l o]: the computation [o], started in [s], additionally consumes the tokens
    [l]: after [EOk s' _ r] the thread owns [toke r ++ cown s] minus [l]; after
    [EErr s' _] it owns [cown s] minus [l] (multisets); in both cases every node of [s]
    is still stored with its level and children ([ext]) and [CInv k] is preserved. *)

From Coq Require Import List NArith PArith Bool Arith Lia Permutation.
From OxiVerif Require Import DD.Table DD.TableProofs DD.Sem DD.Build DD.Apply
  Mgr.Conc Mgr.ConcBase Mgr.ConcProofs Mgr.OomOwn Mgr.OomOwnProofs Mgr.OomOwnZK.
Import ListNotations.

Arguments N.add : simpl never.
Arguments N.sub : simpl never.
Arguments N.mul : simpl never.

Ltac mqk :=
  cbn [cown cn];
  repeat rewrite count_occ_app;
  split_cons;
  repeat rewrite count_occ_nil;
  intros; lia.

Section Proofs.
Variable k : kind.
Variable terms : list (N * N).
Variable nl : nat.
Variable tid : nat.
Variable cap : nat.

Notation CInv := (CInv k terms nl).
Notation toke := (toke tid).
Notation e_clone := (e_clone k terms tid).
Notation e_drop := (e_drop terms tid).
Notation e_not := (e_not k terms tid).
Notation e_goi := (e_goi k terms nl tid cap).
Notation eunwind := (eunwind terms tid).

Definition kframe_ok (s s' : cst) : Prop := ext s s' /\ (CInv s -> CInv s').

Lemma kframe_refl : forall s, kframe_ok s s.
Proof. intros s. split; [apply ext_refl | auto]. Qed.

Lemma kframe_trans : forall a b c, kframe_ok a b -> kframe_ok b c -> kframe_ok a c.
Proof. intros a b c [E1 I1] [E2 I2]. split; [eapply ext_trans; eauto | auto]. Qed.

Lemma toke_cases : forall e, (exists id, eref e = RN id /\ toke e = [(tid, e)]) \/
                             (exists x, eref e = RT x /\ toke e = []).
Proof.
  intros e. unfold OomOwnZK.toke. destruct (eref e) as [x|id]; [right; exists x | left; exists id]; auto.
Qed.

Lemma e_clone_spec : forall s e s', e_clone s e = Some s' ->
  meq (cown s') (toke e ++ cown s) /\ kframe_ok s s'.
Proof.
  intros s e s' H. unfold OomOwnZK.e_clone in H.
  destruct (edge_ok_b k terms (cn s) e) eqn:Hok; [|discriminate].
  unfold OomOwnZK.toke. destruct (eref e) as [x|id] eqn:Er.
  - inversion H; subst. split; [apply meq_refl | apply kframe_refl].
  - inversion H; subst. simpl. split; [apply meq_refl|]. split.
    + apply ext_shape. simpl. apply cn_shape_rc_upd.
    + intros I. apply (inv_retain k terms nl s tid e id I Er Hok).
Qed.

Lemma e_drop_spec : forall s e s', e_drop s e = Some s' ->
  meq (toke e ++ cown s') (cown s) /\ kframe_ok s s'.
Proof.
  intros s e s' H. unfold OomOwnZK.e_drop in H. unfold OomOwnZK.toke.
  destruct (eref e) as [x|id] eqn:Er.
  - destruct (cref_ok_b terms (cn s) (RT x)); inversion H; subst.
    split; [apply meq_refl | apply kframe_refl].
  - destruct (cfind (cn s) id) as [nd|] eqn:F; [|discriminate].
    destruct (N.eqb (crc nd) 0); [discriminate|].
    destruct (take_tok (tid, e) (cown s)) as [own'|] eqn:Ht; [|discriminate].
    inversion H; subst. simpl. split.
    + pose proof (take_tok_meq _ _ _ Ht) as M. intro x. generalize (M x). mqk.
    + split.
      * apply ext_shape. simpl. apply cn_shape_rc_upd.
      * intros I. apply (inv_release k terms nl s tid e id own' I Er Ht).
Qed.

Lemma toke_eflip : forall e, toke (eflip e) = match eref e with RN _ => [(tid, eflip e)] | RT _ => [] end.
Proof. intros e. unfold OomOwnZK.toke, eflip. simpl. reflexivity. Qed.

Lemma e_not_spec : forall s e s', e_not s e = Some s' ->
  meq (toke e ++ cown s') (toke (eflip e) ++ cown s) /\ kframe_ok s s'.
Proof.
  intros s e s' H. unfold OomOwnZK.e_not in H. rewrite toke_eflip. unfold OomOwnZK.toke.
  destruct (eref e) as [x|id] eqn:Er.
  - inversion H; subst. split; [apply meq_refl | apply kframe_refl].
  - destruct (edge_ok_b k terms (cn s) (eflip e)) eqn:Hok; [|discriminate].
    destruct (take_tok (tid, e) (cown s)) as [own'|] eqn:Ht; [|discriminate].
    inversion H; subst. simpl. split.
    + pose proof (take_tok_meq _ _ _ Ht) as M. intro x. generalize (M x). mqk.
    + split; [apply ext_shape; reflexivity|].
      intros I. apply (inv_retoken k terms nl s (tid, e) (tid, eflip e) own' I Ht); [reflexivity | exact Hok].
Qed.

Lemma take_toks_meq2 : forall t e own own1, take_toks tid [t; e] own = Some own1 ->
  meq own (toke t ++ toke e ++ own1).
Proof.
  intros t e own own1 H. simpl in H. unfold OomOwnZK.toke.
  destruct (eref t) as [x|i]; destruct (eref e) as [y|j]; simpl in *.
  - inversion H; subst. apply meq_refl.
  - destruct (take_tok (tid, e) own) as [o1|] eqn:H1; [|discriminate].
    inversion H; subst. exact (take_tok_meq _ _ _ H1).
  - destruct (take_tok (tid, t) own) as [o1|] eqn:H1; [|discriminate].
    inversion H; subst. exact (take_tok_meq _ _ _ H1).
  - destruct (take_tok (tid, t) own) as [o1|] eqn:H1; [|discriminate].
    destruct (take_tok (tid, e) o1) as [o2|] eqn:H2; [|discriminate].
    inversion H; subst.
    pose proof (take_tok_meq _ _ _ H1) as M1. pose proof (take_tok_meq _ _ _ H2) as M2.
    intro x. generalize (M1 x) (M2 x). mqk.
Qed.

Lemma kinv_release_children : forall ch t own own1, CInv (mkCst t own) ->
  take_toks tid ch own = Some own1 -> CInv (mkCst (dec_children t ch) own1).
Proof.
  induction ch as [|e r IH]; intros t own own1 I H; simpl in H.
  - inversion H; subst. exact I.
  - simpl dec_children. destruct (eref e) as [x|id] eqn:Er.
    + simpl. apply (IH t own own1 I H).
    + destruct (take_tok (tid, e) own) as [o1|] eqn:H1; [|discriminate]. simpl.
      apply (IH (rc_dec id t) o1 own1); [|exact H].
      apply (inv_release k terms nl (mkCst t own) tid e id o1 I Er H1).
Qed.

Lemma toke_E : forall id, toke (E (RN id)) = [(tid, E (RN id))].
Proof. reflexivity. Qed.

Lemma e_goi_spec : forall s lvl t e,
  match e_goi s lvl t e with
  | KOk s' h => meq (toke t ++ toke e ++ cown s') (toke h ++ cown s) /\ kframe_ok s s'
  | KErr s' => meq (toke t ++ toke e ++ cown s') (cown s) /\ kframe_ok s s'
  | KStuck => True
  end.
Proof.
  intros s lvl t e. unfold OomOwnZK.e_goi.
  destruct (node_pre_b k terms nl (cn s) lvl [t; e]) eqn:Hpre; [|exact I].
  destruct (take_toks tid [t; e] (cown s)) as [own1|] eqn:Ht; [|exact I].
  pose proof (take_toks_meq2 _ _ _ _ Ht) as M.
  destruct (find_shape (cn s) lvl [t; e]) as [id|] eqn:Hf.
  - destruct (dec_ok_b (cn s) [t; e]); [|exact I]. rewrite toke_E. cbn [cown cn]. split.
    + intro x. generalize (M x). mqk.
    + split.
      * apply ext_shape. cbn [cn]. unfold rc_inc. rewrite cn_shape_rc_upd, cn_shape_dec_children.
        reflexivity.
      * intros H. apply (inv_goi_found k terms nl s tid lvl _ own1 id H Ht Hf).
  - destruct (Nat.ltb (cnode_count s) cap).
    + rewrite toke_E. cbn [cown cn]. split.
      * intro x. generalize (M x). mqk.
      * split.
        -- intros id nd F. exists nd. cbn [cn]. rewrite cfind_cons.
           destruct (Pos.eqb_spec (cfresh (cn s)) id) as [Eq|_]; [|auto].
           rewrite <- Eq, cfresh_absent in F. discriminate.
        -- intros H. apply (inv_goi_new k terms nl s tid lvl _ own1 _ H Hpre Ht Hf).
           apply cfresh_absent.
    + destruct (dec_ok_b (cn s) [t; e]); [|exact I]. cbn [cown cn]. split.
      * intro x. generalize (M x). mqk.
      * split.
        -- apply ext_shape. cbn [cn]. apply cn_shape_dec_children.
        -- intros H. apply (kinv_release_children _ (cn s) (cown s) own1); [|exact Ht].
           destruct s; exact H.
Qed.

(** the tokens the guards of a frame release *)
Fixpoint egtoks (fr : eframe) : list (nat * edge) :=
  match fr with
  | [] => []
  | (r, true) :: rest => toke r ++ egtoks rest
  | (_, false) :: rest => egtoks rest
  end.

Lemma eunwind_spec : forall fr s s', eunwind s fr = Some s' ->
  meq (egtoks fr ++ cown s') (cown s) /\ kframe_ok s s'.
Proof.
  induction fr as [|[r g] rest IH]; intros s s' H; simpl in H.
  - inversion H; subst. split; [apply meq_refl | apply kframe_refl].
  - destruct g.
    + destruct (e_drop s r) as [s1|] eqn:Hd; [|discriminate].
      destruct (e_drop_spec _ _ _ Hd) as [M1 F1]. destruct (IH s1 s' H) as [M2 F2].
      split; [|eapply kframe_trans; eauto].
      intro x. generalize (M1 x) (M2 x). cbn [egtoks]. mqk.
    + apply (IH s s' H).
Qed.

Section Comb.
Variable C : Type.

Definition kbal (s : cst) (l : list (nat * edge)) (o : eres C) : Prop :=
  match o with
  | EOk s' _ r => meq (l ++ cown s') (toke r ++ cown s) /\ kframe_ok s s'
  | EErr s' _ => meq (l ++ cown s') (cown s) /\ kframe_ok s s'
  | EStuck => True
  end.

Notation eerr := (eerr terms tid C).
Notation eclone_ret := (eclone_ret k terms tid C).

(** transport along multiset equality of the consumed tokens *)
Lemma kbal_meq : forall s l l' o, meq l l' -> kbal s l o -> kbal s l' o.
Proof.
  intros s l l' [s' c r|s' c|] M B; simpl in *; [| |exact I]; destruct B as [M1 F1]; (split; [|exact F1]);
    intro x; generalize (M x) (M1 x); mqk.
Qed.

(** composition: a prefix that turned the tokens [b] into [a] (net), then [o] *)
Lemma kbal_comp : forall s s1 a b l o,
  meq (a ++ cown s1) (b ++ cown s) -> kframe_ok s s1 ->
  kbal s1 (b ++ l) o -> kbal s (a ++ l) o.
Proof.
  intros s s1 a b l [s' c r|s' c|] M F B; simpl in *; [| |exact I]; destruct B as [M1 F1];
    (split; [|eapply kframe_trans; eauto]); intro x; generalize (M x) (M1 x); mqk.
Qed.

Lemma kbal_after : forall s s1 b l o,
  meq (cown s1) (b ++ cown s) -> kframe_ok s s1 ->
  kbal s1 (b ++ l) o -> kbal s l o.
Proof. intros s s1 b l o M F B. apply (kbal_comp s s1 [] b l o); auto. Qed.

Lemma eerr_bal : forall s c fr, kbal s (egtoks fr) (eerr s c fr).
Proof.
  intros s c fr. unfold OomOwnZK.eerr. destruct (eunwind s fr) as [s'|] eqn:H; [|exact I].
  simpl. apply (eunwind_spec _ _ _ H).
Qed.

Lemma eclone_ret_bal : forall s c h, kbal s [] (eclone_ret s c h).
Proof.
  intros s c h. unfold OomOwnZK.eclone_ret. destruct (e_clone s h) as [s'|] eqn:H; [|exact I].
  simpl. apply (e_clone_spec _ _ _ H).
Qed.

Lemma ebind_bal : forall s r rest,
  kbal s [] r ->
  (forall s1 c1 e, kbal s1 (toke e) (rest s1 c1 e)) ->
  kbal s [] (ebind terms tid C r rest).
Proof.
  intros s r rest B Br. destruct r as [s1 c1 e|s1 c1|]; simpl; [| |exact I].
  - destruct B as [M1 F1]. apply (kbal_after s s1 (toke e) []); [exact M1|exact F1|].
    eapply kbal_meq; [|apply Br]. intro x. mqk.
  - exact B.
Qed.

Lemma efin_bal : forall s l r c upd,
  match r with
  | KOk s' h => meq (l ++ cown s') (toke h ++ cown s) /\ kframe_ok s s'
  | KErr s' => meq (l ++ cown s') (cown s) /\ kframe_ok s s'
  | KStuck => True
  end ->
  kbal s l (efin terms tid C r c upd).
Proof. intros s l r c upd R. destruct r as [s3 h|s3|]; simpl; [exact R|exact R|exact I]. Qed.

Lemma eguarded_bal : forall s x o,
  kbal s [] o -> kbal s (toke x) (eguarded terms tid C false x o).
Proof.
  intros s x [s1 c r|s1 c|] B; simpl; [| |exact I].
  - destruct (e_drop s1 x) as [s'|] eqn:Hd; [|exact I].
    destruct (e_drop_spec _ _ _ Hd) as [M2 F2]. destruct B as [M1 F1]. simpl.
    split; [|eapply kframe_trans; eauto]. intro y. generalize (M1 y) (M2 y). mqk.
  - destruct B as [M1 F1]. pose proof (eerr_bal s1 c [(x, true)]) as Eb. cbn [egtoks] in Eb.
    apply (kbal_after s s1 [] (toke x)); [exact M1|exact F1|].
    eapply kbal_meq; [|exact Eb]. intro y. mqk.
Qed.

(** the recursors with the guard placement of the code *)
Lemma erec2_bal : forall p s r1 run2 fin,
  kbal s [] r1 ->
  (forall s1 c1, kbal s1 [] (run2 s1 c1)) ->
  (forall s2 c2 t e, kbal s2 (toke t ++ toke e) (fin s2 c2 t e)) ->
  kbal s [] (erec2 terms tid C p false r1 run2 fin).
Proof.
  intros p s r1 run2 fin B1 B2 Bf.
  assert (Hok : forall s1 c1 t, kbal s [] (EOk s1 c1 t) ->
            kbal s [] (match run2 s1 c1 with
                       | EStuck => EStuck
                       | EErr s2 c2 => eerr s2 c2 [(t, negb false)]
                       | EOk s2 c2 e => fin s2 c2 t e
                       end)).
  { intros s1 c1 t [M1 F1]. apply (kbal_after s s1 (toke t) []); [exact M1|exact F1|].
    specialize (B2 s1 c1). destruct (run2 s1 c1) as [s2 c2 e|s2 c2|]; [| |exact I].
    - destruct B2 as [M2 F2]. apply (kbal_after s1 s2 (toke e) (toke t ++ [])); [exact M2|exact F2|].
      eapply kbal_meq; [|apply Bf]. intro x. mqk.
    - destruct B2 as [M2 F2]. simpl negb.
      pose proof (eerr_bal s2 c2 [(t, true)]) as Eb. cbn [egtoks] in Eb.
      apply (kbal_after s1 s2 [] (toke t ++ [])); [exact M2|exact F2|]. exact Eb. }
  destruct p; simpl.
  - unfold epar2. destruct r1 as [s1 c1 t|s1 c1|]; [apply Hok; exact B1| |exact I].
    destruct B1 as [M1 F1]. apply (kbal_after s s1 [] []); [exact M1|exact F1|].
    specialize (B2 s1 c1). destruct (run2 s1 c1) as [s2 c2 e|s2 c2|]; [| |exact I].
    + destruct B2 as [M2 F2]. simpl negb.
      pose proof (eerr_bal s2 c2 [(e, true)]) as Eb. cbn [egtoks] in Eb.
      apply (kbal_after s1 s2 (toke e) []); [exact M2|exact F2|].
      eapply kbal_meq; [|exact Eb]. intro x. mqk.
    + exact B2.
  - unfold eseq2. destruct r1 as [s1 c1 t|s1 c1|]; [apply Hok; exact B1| |exact I].
    exact B1.
Qed.

End Comb.
End Proofs.
