(** * C14o - ownership balance of the ZBDD apply algorithms (Mgr/OomOwnZ.v), for every
      outcome, capacity, cache, recursor, operand order and fuel; invariant-free *)

From Coq Require Import List NArith PArith Bool Arith Lia Permutation.
From OxiVerif Require Import DD.Table DD.TableProofs DD.Sem DD.Build DD.Apply DD.FamSpec DD.ZbddOps DD.ZbddBool
  Mgr.Conc Mgr.ConcBase Mgr.ConcProofs Mgr.OomOwn Mgr.OomOwnProofs Mgr.OomOwnZK Mgr.OomOwnZKProofs Mgr.OomOwnZ.
Import ListNotations.

Arguments N.add : simpl never.
Arguments N.sub : simpl never.
Arguments N.mul : simpl never.

Section Proofs.
Variable terms : list (N * N).
Variable nl : nat.
Variable tid : nat.
Variable cap : nat.

Notation toke := (toke tid).
Notation kframe_ok := (kframe_ok KZbdd terms nl).
Notation z_reduce := (z_reduce terms nl tid cap).
Notation z_reduce_bor := (z_reduce_bor terms nl tid cap).

Lemma z_reduce_spec : forall s lvl hi lo,
  match z_reduce s lvl hi lo with
  | KOk s' h => meq ((toke hi ++ toke lo) ++ cown s') (toke h ++ cown s) /\ kframe_ok s s'
  | KErr s' => meq ((toke hi ++ toke lo) ++ cown s') (cown s) /\ kframe_ok s s'
  | KStuck => True
  end.
Proof.
  intros s lvl hi lo. unfold OomOwnZ.z_reduce. destruct (is_empty_b _ (eref hi)).
  - destruct (e_drop terms tid s hi) as [s1|] eqn:Hd; [|exact I].
    destruct (e_drop_spec KZbdd terms nl tid _ _ _ Hd) as [M Fr]. split; [|exact Fr].
    intro x. generalize (M x). mqk.
  - pose proof (e_goi_spec KZbdd terms nl tid cap s lvl hi lo) as G.
    destruct (e_goi KZbdd terms nl tid cap s lvl hi lo) as [s' h|s'|]; [| |exact I];
      destruct G as [M Fr]; (split; [|exact Fr]); intro x; generalize (M x); mqk.
Qed.

Lemma z_reduce_bor_spec : forall s lvl hi lo,
  match z_reduce_bor s lvl hi lo with
  | KOk s' h => meq (toke lo ++ cown s') (toke h ++ cown s) /\ kframe_ok s s'
  | KErr s' => meq (toke lo ++ cown s') (cown s) /\ kframe_ok s s'
  | KStuck => True
  end.
Proof.
  intros s lvl hi lo. unfold OomOwnZ.z_reduce_bor. destruct (is_empty_b _ hi).
  - split; [apply meq_refl | apply kframe_refl].
  - destruct (e_clone KZbdd terms tid s (E hi)) as [s1|] eqn:Hc; [|exact I].
    destruct (e_clone_spec KZbdd terms nl tid _ _ _ Hc) as [M1 F1].
    pose proof (e_goi_spec KZbdd terms nl tid cap s1 lvl (E hi) lo) as G.
    destruct (e_goi KZbdd terms nl tid cap s1 lvl (E hi) lo) as [s' h|s'|]; [| |exact I];
      destruct G as [M Fr]; (split; [|eapply kframe_trans; eauto]);
      intro x; generalize (M x) (M1 x); mqk.
Qed.

Section Alg.
Variable gt : ref -> ref -> bool.
Variable C : Type.
Variable cget : C -> N -> list ref -> list nat -> option ref.
Variable cadd : C -> N -> list ref -> list nat -> ref -> C.
Variable par : nat -> bool.

Notation kbal := (kbal KZbdd terms nl tid C).
Notation zfin_red := (zfin_red terms nl tid cap C).
Notation zfin_bor := (zfin_bor terms nl tid cap C).
Notation zcadd := (zcadd terms tid C cadd).
Notation zapply_o := (zapply_o terms nl tid cap gt C cget cadd par guards_code).
Notation zapply_not_o := (zapply_not_o terms nl tid cap gt C cget cadd par guards_code).
Notation zsymm_o := (zsymm_o terms nl tid cap gt C cget cadd par guards_code).
Notation zite_o := (zite_o terms nl tid cap gt C cget cadd par guards_code).
Notation zop_o := (zop_o terms nl tid cap gt C cget cadd par guards_code).

Lemma zfin_red_bal : forall s c lvl hi lo, kbal s (toke hi ++ toke lo) (zfin_red s c lvl hi lo).
Proof. intros. unfold OomOwnZ.zfin_red. apply efin_bal. apply z_reduce_spec. Qed.

Lemma zfin_bor_bal : forall s c lvl hi lo, kbal s (toke lo) (zfin_bor s c lvl hi lo).
Proof. intros. unfold OomOwnZ.zfin_bor. apply efin_bal. apply z_reduce_bor_spec. Qed.

Lemma zcadd_bal : forall s r code args, kbal s [] r -> kbal s [] (zcadd r code args).
Proof.
  intros s r code args B. unfold OomOwnZ.zcadd. apply ebind_bal; [exact B|].
  intros s1 c1 e. simpl. split; [apply meq_refl | apply kframe_refl].
Qed.

Ltac fin_tac IH :=
  first [ apply ebind_bal; [apply IH | intros; apply zfin_bor_bal]
        | apply erec2_bal; [apply IH | intros; apply IH | intros; apply zfin_red_bal]
        | apply IH ].

Lemma zapply_o_bal : forall fuel s c op f g, kbal s [] (zapply_o fuel s c op f g).
Proof.
  induction fuel as [|n IH]; intros s c op f g; [exact I|].
  cbn [OomOwnZ.zapply_o].
  destruct (zterminal _ op f g) as [|r|]; [exact I | apply eclone_ret_bal |].
  destruct (if zcommutes op && gt f g then (g, f) else (f, g)) as [f' g'].
  destruct (cget c (zop_code op) [f'; g'] []) as [h|]; [apply eclone_ret_bal|].
  destruct (czget terms s f') as [fnode|]; [|exact I].
  destruct (czget terms s g') as [gnode|]; [|exact I].
  apply zcadd_bal.
  destruct (lcmp (clevel fnode) (clevel gnode)).
  - destruct (ckids fnode) as [[fhi flo]|]; [|exact I].
    destruct (ckids gnode) as [[ghi glo]|]; [|exact I].
    destruct (clevel fnode) as [flevel|]; [|exact I].
    apply erec2_bal; [apply IH | intros; apply IH | intros; apply zfin_red_bal].
  - destruct (ckids fnode) as [[fhi flo]|]; [|exact I].
    destruct (clevel fnode) as [flevel|]; [|exact I].
    destruct op; fin_tac IH.
  - destruct (ckids gnode) as [[ghi glo]|]; [|exact I].
    destruct (clevel gnode) as [glevel|]; [|exact I].
    destruct op; fin_tac IH.
Qed.

Lemma zapply_not_o_bal : forall fuel s c f, kbal s [] (zapply_not_o fuel s c f).
Proof.
  intros. unfold OomOwnZ.zapply_not_o. destruct (ctaut terms nl (cn s) 0); [apply zapply_o_bal | exact I].
Qed.

Lemma zsymm_o_bal : forall fuel s c f g, kbal s [] (zsymm_o fuel s c f g).
Proof.
  induction fuel as [|n IH]; intros s c f g; [exact I|].
  cbn [OomOwnZ.zsymm_o].
  destruct (zempty _) as [empty|]; [|exact I].
  destruct (ref_eqb f g); [apply eclone_ret_bal|].
  destruct (ref_eqb f empty); [apply eclone_ret_bal|].
  destruct (ref_eqb g empty); [apply eclone_ret_bal|].
  destruct (if gt f g then (g, f) else (f, g)) as [f' g'].
  destruct (cget c zcode_symm [f'; g'] []) as [h|]; [apply eclone_ret_bal|].
  destruct (czget terms s f') as [fnode|]; [|exact I].
  destruct (czget terms s g') as [gnode|]; [|exact I].
  apply zcadd_bal.
  destruct (lcmp (clevel fnode) (clevel gnode)).
  - destruct (ckids fnode) as [[fhi flo]|]; [|exact I].
    destruct (ckids gnode) as [[ghi glo]|]; [|exact I].
    destruct (clevel fnode) as [flevel|]; [|exact I].
    apply erec2_bal; [apply IH | intros; apply IH | intros; apply zfin_red_bal].
  - destruct (ckids fnode) as [[fhi flo]|]; [|exact I].
    destruct (clevel fnode) as [flevel|]; [|exact I]. fin_tac IH.
  - destruct (ckids gnode) as [[ghi glo]|]; [|exact I].
    destruct (clevel gnode) as [glevel|]; [|exact I]. fin_tac IH.
Qed.

Lemma zite_o_bal : forall fuel s c f g h, kbal s [] (zite_o fuel s c f g h).
Proof.
  induction fuel as [|n IH]; intros s c f g h; [exact I|].
  cbn [OomOwnZ.zite_o].
  destruct (ref_eqb g h); [apply eclone_ret_bal|].
  destruct (ref_eqb f g); [apply zapply_o_bal|].
  destruct (ref_eqb f h); [apply zapply_o_bal|].
  destruct (czget terms s f) as [fnode|]; [|exact I].
  destruct (is_empty_b _ f); [apply eclone_ret_bal|].
  destruct (czget terms s g) as [gnode|]; [|exact I].
  destruct (is_empty_b _ g); [apply zapply_o_bal|].
  destruct (czget terms s h) as [hnode|]; [|exact I].
  destruct (is_empty_b _ h); [apply zapply_o_bal|].
  cbv zeta.
  destruct (ctaut_opt terms nl (cn s) _) as [taut|]; [|exact I].
  destruct (ref_eqb f taut); [apply eclone_ret_bal|].
  destruct (ref_eqb g taut); [apply zapply_o_bal|].
  destruct (cget c zcode_ite [f; g; h] []) as [r|]; [apply eclone_ret_bal|].
  apply zcadd_bal.
  destruct (lcmp (clevel fnode) (lmin (clevel gnode) (clevel hnode))).
  - (* Eq *)
    destruct (ckids fnode) as [[fhi flo]|]; [|exact I].
    destruct (lmin (clevel fnode) _) as [lv|]; [|exact I].
    destruct (lcmp (clevel hnode) (clevel fnode)).
    + destruct (lcmp (clevel gnode) (clevel fnode));
        try (destruct (ckids gnode) as [[ghi glo]|]; [|exact I]);
        destruct (ckids hnode) as [[hhi hlo]|]; try exact I;
        (apply erec2_bal; [first [apply IH | apply zapply_o_bal] | intros; apply IH | intros; apply zfin_red_bal]).
    + destruct (lcmp (clevel gnode) (clevel fnode));
        try (destruct (ckids gnode) as [[ghi glo]|]; [|exact I]);
        destruct (ckids hnode) as [[hhi hlo]|]; try exact I;
        (apply erec2_bal; [first [apply IH | apply zapply_o_bal] | intros; apply IH | intros; apply zfin_red_bal]).
    + destruct (ckids gnode) as [[ghi glo]|]; [|exact I].
      apply erec2_bal; [apply zapply_o_bal | intros; apply IH | intros; apply zfin_red_bal].
  - (* Lt *)
    destruct (ckids fnode) as [[fhi flo]|]; [|exact I]. apply IH.
  - (* Gt *)
    destruct (lcmp (clevel gnode) (clevel hnode)).
    + destruct (ckids hnode) as [[hhi hlo]|]; [|exact I].
      destruct (lmin (clevel fnode) _) as [lv|]; [|exact I].
      destruct (ckids gnode) as [[ghi glo]|]; [|exact I].
      apply ebind_bal; [apply IH | intros; apply zfin_bor_bal].
    + destruct (ckids gnode) as [[ghi glo]|]; [|exact I]. apply IH.
    + destruct (ckids hnode) as [[hhi hlo]|]; [|exact I].
      destruct (lmin (clevel fnode) _) as [lv|]; [|exact I].
      apply ebind_bal; [apply IH | intros; apply zfin_bor_bal].
Qed.

Lemma zop_o_bal : forall fuel s c op f g, kbal s [] (zop_o fuel s c op f g).
Proof.
  intros fuel s c op f g. unfold OomOwnZ.zop_o. destruct op;
    try apply zapply_o_bal; try apply zsymm_o_bal;
    try (apply ebind_bal; [first [apply zapply_o_bal | apply zsymm_o_bal]|];
         intros s1 c1 x; cbn [guards_code];
         eapply kbal_meq; [|apply eguarded_bal; apply zapply_not_o_bal]; apply meq_refl).
  destruct (ctaut terms nl (cn s) 0); [apply zite_o_bal | exact I].
Qed.

End Alg.
End Proofs.
