(** * C14o - the statements about the ZBDD ownership model (Mgr/OomOwnZ.v), collected

    For [zapply_o] (union / intsec / diff), [zapply_not_o], [zsymm_o], [zite_o] and the
    operator entry points [zop_o] (incl. the two-phase nand / nor / equiv) with the
    guard placement of the code, every capacity [cap] (= every failure point), every
    cache, every recursor choice [par], every operand order [gt], every fuel:

    1. BALANCE ([ownz_balance_*]; no hypothesis): after [EOk s' _ r] the thread owns
       exactly the caller's tokens plus one for [r]; after [EErr s' _] exactly the
       caller's; every old node is still stored with its level and children.
    2. COUNTS ([ownz_counts_*]): [CInv KZbdd] is preserved by every outcome; as a
       snapshot: [WF] and [rc_exact_b].
    3. ROLLBACK ([ownz_err_collect_*]): after [EErr s' _], `Manager::gc` leaves entry by
       entry (level, children, count) the table a collection of the state before the
       operation would have produced.

    The first part is generic in the kind (also used by Mgr/OomOwnCThms.v). *)

From Coq Require Import List NArith PArith Bool Arith Lia Permutation.
From OxiVerif Require Import DD.Table DD.TableProofs DD.Sem DD.Build DD.Apply DD.FamSpec DD.ZbddOps DD.ZbddBool
  Mgr.Conc Mgr.ConcBase Mgr.ConcProofs Mgr.ConcSnap Mgr.ConcGc Mgr.ConcGcProofs
  Mgr.OomOwn Mgr.OomOwnProofs Mgr.OomOwnZK Mgr.OomOwnZKProofs Mgr.OomOwnZGc Mgr.OomOwnZ Mgr.OomOwnZProofs.
Import ListNotations.

Section Generic.
Variable k : kind.
Variable terms : list (N * N).
Variable nl : nat.
Variable tid : nat.
Variable C : Type.

Notation CInv := (CInv k terms nl).
Notation toke := (toke tid).
Notation to_snap := (to_snap k terms nl).
Notation collect := (collect k terms nl).

(** what BALANCE + FRAME + COUNTS say about an outcome of a run started in [s] *)
Definition kown_post (s : cst) (o : eres C) : Prop :=
  match o with
  | EOk s' _ r =>
    Permutation (cown s') (toke r ++ cown s) /\ ext s s' /\ (CInv s -> CInv s')
  | EErr s' _ =>
    Permutation (cown s') (cown s) /\ ext s s' /\ (CInv s -> CInv s')
  | EStuck => True
  end.

Lemma kbal_post : forall s o, kbal k terms nl tid C s [] o -> kown_post s o.
Proof.
  intros s [s' c' r|s' c'|] B; simpl in *; [| |exact I];
    destruct B as [M [X I0]]; (split; [apply meq_perm; exact M | auto]).
Qed.

Lemma kown_post_counts : forall s o s', CInv s -> terms_unique_b terms = true -> kown_post s o ->
  eres_st o = Some s' ->
  CInv s' /\ WF (to_snap s') /\ rc_exact_b (to_snap s') [] = true.
Proof.
  intros s o s' H Ht P E.
  assert (H' : CInv s').
  { destruct o as [s1 c1 r|s1 c1|]; simpl in E; inversion E; subst; destruct P as [_ [_ I0]]; auto. }
  split; [exact H'|]. apply conc_wf; assumption.
Qed.

Definition krolled_back (s s' : cst) : Prop :=
  (forall id,
    ((exists nd', cfind (cn (collect s')) id = Some nd') <->
     (exists nd, cfind (cn s) id = Some nd) /\
     (exists o, In o (cown s) /\ creach (cn s) (eref (snd o)) (RN id))) /\
    (forall nd', cfind (cn (collect s')) id = Some nd' ->
       exists nd, cfind (cn s) id = Some nd /\ cl nd' = cl nd /\ cch nd' = cch nd)) /\
  (forall id, cfind (cn (collect s')) id = cfind (cn (collect s)) id) /\
  Permutation (cown (collect s')) (cown s).

Lemma kown_post_rollback : forall s s' c', CInv s -> kown_post s (EErr s' c') -> krolled_back s s'.
Proof.
  intros s s' c' H [P [X I0]]. pose proof (I0 H) as H'. apply meq_perm in P.
  split; [intros id; apply (krollback_collect k terms nl s s' H H' X P)|].
  destruct (krollback_same k terms nl s s' H H' X P) as [A B]. split; [exact A|].
  destruct (collect_keeps k terms nl s H) as [Ko _]. rewrite <- Ko. exact B.
Qed.

End Generic.

Section Thms.
Variable terms : list (N * N).
Variable nl : nat.
Variable tid : nat.
Variable cap : nat.
Variable gt : ref -> ref -> bool.
Variable C : Type.
Variable cget : C -> N -> list ref -> list nat -> option ref.
Variable cadd : C -> N -> list ref -> list nat -> ref -> C.
Variable par : nat -> bool.

Notation CInv := (CInv KZbdd terms nl).
Notation to_snap := (to_snap KZbdd terms nl).
Notation post := (kown_post KZbdd terms nl tid C).
Notation rolled := (krolled_back KZbdd terms nl).
Notation zapply_o := (zapply_o terms nl tid cap gt C cget cadd par guards_code).
Notation zapply_not_o := (zapply_not_o terms nl tid cap gt C cget cadd par guards_code).
Notation zsymm_o := (zsymm_o terms nl tid cap gt C cget cadd par guards_code).
Notation zite_o := (zite_o terms nl tid cap gt C cget cadd par guards_code).
Notation zop_o := (zop_o terms nl tid cap gt C cget cadd par guards_code).

Theorem ownz_balance_set : forall fuel s c op f g, post s (zapply_o fuel s c op f g).
Proof. intros. apply kbal_post. apply zapply_o_bal. Qed.
Theorem ownz_balance_not : forall fuel s c f, post s (zapply_not_o fuel s c f).
Proof. intros. apply kbal_post. apply zapply_not_o_bal. Qed.
Theorem ownz_balance_symm : forall fuel s c f g, post s (zsymm_o fuel s c f g).
Proof. intros. apply kbal_post. apply zsymm_o_bal. Qed.
Theorem ownz_balance_ite : forall fuel s c f g h, post s (zite_o fuel s c f g h).
Proof. intros. apply kbal_post. apply zite_o_bal. Qed.
Theorem ownz_balance_op : forall fuel s c op f g, post s (zop_o fuel s c op f g).
Proof. intros. apply kbal_post. apply zop_o_bal. Qed.

Definition counts_ok (o : eres C) : Prop :=
  forall s', eres_st o = Some s' ->
    CInv s' /\ WF (to_snap s') /\ rc_exact_b (to_snap s') [] = true.

Theorem ownz_counts_set : forall fuel s c op f g, CInv s -> terms_unique_b terms = true ->
  counts_ok (zapply_o fuel s c op f g).
Proof. intros fuel s c op f g H Ht s'. apply (kown_post_counts KZbdd terms nl tid C s); auto. apply ownz_balance_set. Qed.
Theorem ownz_counts_not : forall fuel s c f, CInv s -> terms_unique_b terms = true ->
  counts_ok (zapply_not_o fuel s c f).
Proof. intros fuel s c f H Ht s'. apply (kown_post_counts KZbdd terms nl tid C s); auto. apply ownz_balance_not. Qed.
Theorem ownz_counts_symm : forall fuel s c f g, CInv s -> terms_unique_b terms = true ->
  counts_ok (zsymm_o fuel s c f g).
Proof. intros fuel s c f g H Ht s'. apply (kown_post_counts KZbdd terms nl tid C s); auto. apply ownz_balance_symm. Qed.
Theorem ownz_counts_ite : forall fuel s c f g h, CInv s -> terms_unique_b terms = true ->
  counts_ok (zite_o fuel s c f g h).
Proof. intros fuel s c f g h H Ht s'. apply (kown_post_counts KZbdd terms nl tid C s); auto. apply ownz_balance_ite. Qed.
Theorem ownz_counts_op : forall fuel s c op f g, CInv s -> terms_unique_b terms = true ->
  counts_ok (zop_o fuel s c op f g).
Proof. intros fuel s c op f g H Ht s'. apply (kown_post_counts KZbdd terms nl tid C s); auto. apply ownz_balance_op. Qed.

Theorem ownz_err_collect_set : forall fuel s c op f g s' c', CInv s ->
  zapply_o fuel s c op f g = EErr s' c' -> rolled s s'.
Proof.
  intros fuel s c op f g s' c' H E. apply (kown_post_rollback KZbdd terms nl tid C s s' c' H).
  rewrite <- E. apply ownz_balance_set.
Qed.
Theorem ownz_err_collect_ite : forall fuel s c f g h s' c', CInv s ->
  zite_o fuel s c f g h = EErr s' c' -> rolled s s'.
Proof.
  intros fuel s c f g h s' c' H E. apply (kown_post_rollback KZbdd terms nl tid C s s' c' H).
  rewrite <- E. apply ownz_balance_ite.
Qed.
Theorem ownz_err_collect_op : forall fuel s c op f g s' c', CInv s ->
  zop_o fuel s c op f g = EErr s' c' -> rolled s s'.
Proof.
  intros fuel s c op f g s' c' H E. apply (kown_post_rollback KZbdd terms nl tid C s s' c' H).
  rewrite <- E. apply ownz_balance_op.
Qed.

End Thms.
