(** * C14o - the ZBDD / complement-edge ownership models run on a snapshot of the real
      manager (executable definitions for the correspondence run of checks/C14.py; no
      proofs)

    As Mgr/OomOwnTie.v (C14x) for the plain BDD.  [cst_of_snap]: stored nodes with the
    counts the API reports, one token of thread 0 per inner handle of the harness
    (BCDD: the token carries the handle's complement tag).  ZBDD: the manager's
    `ZBDDCache` additionally owns one edge to every node of the tautology chain: tokens
    of owner 1 ([zchain_toks]: the chain is looked up in the table as `tautology(level)`
    resolves it).  [ownz_inv_b] / [ownc_inv_b] = the hypothesis [CInv] of the theorems
    ([cinv_b] decides it).  The models run with the guard placement of the code, no
    apply cache, sequential recursor at capacity [cap]; the predicted state goes back
    to a snapshot ([to_snap]) and is compared with the real one up to renaming, counts
    included (IsoCheck.iso_core); [own*_tokens] = the edges thread 0 owns afterwards
    (= the inner handles the harness holds). *)

From Coq Require Import List NArith PArith Bool Arith FMapPositive.
From OxiVerif Require Import DD.Table DD.Sem DD.Build DD.Apply DD.ApplyBcdd DD.FamSpec DD.ZbddOps DD.ZbddBool
  Mgr.Conc Mgr.OomOwn Mgr.OomOwnTie Mgr.OomOwnZK Mgr.OomOwnZ Mgr.OomOwnC.
Import ListNotations.

Definition zchain_toks (terms : list (N * N)) (nl : nat) (t : ctable) : list (nat * edge) :=
  flat_map (fun l => match ctaut terms nl t l with
                     | Some (RN id) => [(1, E (RN id))]
                     | _ => []
                     end) (seq 0 nl).

Definition zcst_of_snap (s : snap) : cst :=
  let c := cst_of_snap s in
  mkCst (cn c) (cown c ++ zchain_toks (s_terms s) (nlevels s) (cn c)).

Definition ownz_inv_b (s : snap) : bool :=
  cinv_b KZbdd (s_terms s) (nlevels s) (zcst_of_snap s).
Definition ownc_inv_b (s : snap) : bool :=
  cinv_b KBcdd (s_terms s) (nlevels s) (cst_of_snap s).

Definition ownz_set (cap : nat) (s : snap) (op : zop) (f g : ref) : eres unit :=
  zset_on (s_terms s) (nlevels s) 0 cap false guards_code (zcst_of_snap s) op f g.
Definition ownz_not (cap : nat) (s : snap) (f : ref) : eres unit :=
  znot_on (s_terms s) (nlevels s) 0 cap false guards_code (zcst_of_snap s) f.
Definition ownz_op (cap : nat) (s : snap) (op : bop) (f g : ref) : eres unit :=
  zop_on (s_terms s) (nlevels s) 0 cap false guards_code (zcst_of_snap s) op f g.
Definition ownz_ite (cap : nat) (s : snap) (f g h : ref) : eres unit :=
  zite_on (s_terms s) (nlevels s) 0 cap false guards_code (zcst_of_snap s) f g h.

Definition ownc_op (cap : nat) (s : snap) (op : bop) (f g : edge) : eres unit :=
  cop_on (s_terms s) (nlevels s) 0 cap false guards_code (cst_of_snap s) op f g.
Definition ownc_ite (cap : nat) (s : snap) (f g h : edge) : eres unit :=
  cite_on (s_terms s) (nlevels s) 0 cap false guards_code (cst_of_snap s) f g h.

(** the harness stores a result in a handle slot: the function that was in the slot is
    dropped *)
Definition owne_put (s : snap) (o : eres unit) (old : option edge) : eres unit :=
  match o with
  | EOk s' c r =>
    match old with
    | Some e =>
      match e_drop (s_terms s) 0 s' e with
      | Some s'' => EOk s'' c r
      | None => EStuck
      end
    | None => o
    end
  | _ => o
  end.

Definition owne_snap (k : kind) (s : snap) (o : eres unit) : option snap :=
  option_map (to_snap k (s_terms s) (nlevels s)) (eres_st o).
Definition owne_tokens (o : eres unit) : option nat :=
  option_map (fun s' => length (filter (fun t : nat * edge => Nat.eqb (fst t) 0) (cown s'))) (eres_st o).
