(** * Cube picking ([pick_cube_dd], [pick_cube_dd_set]) on a node store of bounded
      capacity (C14, package C14z)

    Executable definitions only (proofs: Mgr/OomPickProofs.v, OomPickSafe.v,
    OomPickThms.v).  The algorithms of DD/Pick.v ([pick_dd] / [pick_cube_dd],
    [pick_dd_set] / [pick_cube_dd_set] for BDDs and BCDDs, [pick_dd_z] /
    [pick_cube_dd_z], [pick_dd_set_z] / [pick_cube_dd_set_z] for ZBDDs) once more,
    now in the error monad of the code ([AllocResult<Edge>]) with the combinators
    of Mgr/OomGen.v.  Rust sources mirrored:

    - [pick_cube_dd_edge], [pick_cube_dd_set_edge] of
      oxidd-rules-bdd/src/simple/apply_rec.rs (BDD),
      oxidd-rules-bdd/src/complement_edge/apply_rec.rs (BCDD),
      oxidd-rules-zbdd/src/apply_rec.rs (ZBDD);
    - [add_literal_to_cube] of oxidd-rules-bdd/src/complement_edge/mod.rs.

    The recursion of all six functions is LINEAR, there is no recursor and no
    apply cache:

      [let sub = EdgeDropGuard::new(manager, inner(manager, if c { t } else { e }, choice)?);
       let f = manager.get_terminal(False)?;          // static terminal: cannot fail
       LevelView::get_or_insert(&mut manager.level(level), InnerNode::new(level, children))]

    i.e. the walk goes down to the terminal first (calling the choice function
    at every node where the value is not forced: ALL calls of the choice
    function happen before the first allocation), and creates one node per
    literal on the way back, bottom-up.  The [?] after the recursive call
    propagates a failure unchanged (the nodes created further down stay stored:
    they are garbage, the guard only drops a reference); the final
    [get_or_insert] is the function's result, failure included.  The ZBDD
    versions return the sub-result unchanged ([if !c { return sub; }]: no [?], no
    node) on a negative literal.

    - [gbind] = the [?] after the recursive call;
    - [lit_res] = the literal's node: [get_or_insert_cap] of Mgr/Oom.v
      ([LevelViewSet::get_or_insert] + [Store::add_node]: a unique-table hit never
      fails, a NEW node fails iff [cap] nodes are stored) through [gfin];
    - the "cache" slot of [gres] carries the state [St] of the caller's choice
      function ([FnMut]): [GOom s st] = the table and the state of the choice
      function at the point of failure.  [pick_cube_dd_set] has no choice
      function: the state is handed through unchanged.

    [GStuck] = fuel exhausted or one of the code's [unwrap]s / [get_node]s would
    panic (what [None] is in DD/Pick.v; excluded by the theorems).  Reference
    counts are not part of the model (as in Mgr/Oom.v). *)

From Coq Require Import List NArith PArith Bool Arith FMapPositive.
From OxiVerif Require Import DD.Table DD.Build DD.Apply DD.ApplyBcdd DD.ZbddOps DD.Pick Mgr.Oom.
From OxiVerif Require Import Mgr.OomGen.
Import ListNotations.

(** the outcome of the creation of one literal node: the outer [None] = a panic
    (missing terminal), [Some None] = [Err(OutOfMemory)] (the table is
    unchanged), [Some (Some (s', r))] = the node's edge *)
Definition lit_out : Type := option (option (snap * edge)).

(** [get_or_insert(level, children)] as the last expression of [inner]: the
    state of the choice function is not touched; [p :: tr] is the trace *)
Definition lit_res {St : Type} (s : snap) (st : St) (o : lit_out) (p : step) (tr : list step)
  : gres St (edge * list step) :=
  match o with
  | None => GStuck
  | Some o' => gfin s st o' (fun _ => st) (fun r => (r, p :: tr))
  end.

(** ** BDD and BCDD *)

Section PickGenC.
Variable view : snap -> edge -> cview.
(** [add_lit_c s sub level positive]: the node for "literal of [level] and [sub]" *)
Variable add_lit_c : snap -> edge -> nat -> bool -> lit_out.

Section Choice.
Variable St : Type.
Variable choice : St -> nat -> edge -> bool * St.

(** [inner] of [pick_cube_dd_edge] *)
Fixpoint pick_dd_c (fuel : nat) (s : snap) (st : St) (e : edge) : gres St (edge * list step) :=
  match fuel with
  | O => GStuck
  | S f =>
    match view s e with
    | CErr => GStuck
    | CTerm _ => GOk s st (e, [])                       (* [return Ok(manager.clone_edge(&edge))] *)
    | CNode l t x =>
      let '(c, asked, st1) := decide view St choice s st l e t x in
      (* [let sub = guard(inner(manager, if c { t } else { e }, choice)?)] *)
      gbind (pick_dd_c f s st1 (if c then t else x)) (fun s1 st2 r =>
        lit_res s1 st2 (add_lit_c s1 (fst r) l c) (mkStep l e (Some c) asked) (snd r))
    end
  end.

Definition pick_cube_dd_c (s : snap) (st : St) (e : edge) := pick_dd_c (S (nlevels s)) s st e.

(** [inner] of [pick_cube_dd_set_edge]; [st] is not used *)
Fixpoint pick_dd_set_c (fuel : nat) (s : snap) (st : St) (e set : edge) : gres St (edge * list step) :=
  match fuel with
  | O => GStuck
  | S f =>
    match view s e with
    | CErr => GStuck
    | CTerm _ => GOk s st (e, [])
    | CNode l t x =>
      match set_choice view s set l with
      | None => GStuck
      | Some (set', cs) =>
        let '(c, asked) :=
          if is_false view s t then (false, false)
          else if is_false view s x then (true, false)
          else (cs, true) in
        gbind (pick_dd_set_c f s st (if c then t else x) set') (fun s1 st1 r =>
          lit_res s1 st1 (add_lit_c s1 (fst r) l c) (mkStep l e (Some c) asked) (snd r))
      end
    end
  end.

Definition pick_cube_dd_set_c (s : snap) (st : St) (e set : edge) :=
  pick_dd_set_c (S (nlevels s)) s st e set.

End Choice.
End PickGenC.

(** *** Node construction *)

(** BDD: [let f = manager.get_terminal(False)?; get_or_insert(level, if c { [sub, f] } else { [f, sub] })] *)
Definition add_lit_bdd_cap (cap : nat) (s : snap) (sub : edge) (l : nat) (c : bool) : lit_out :=
  match term_of s false with
  | None => None
  | Some f =>
    let F := E (RT f) in
    Some (get_or_insert_cap cap s l (if c then [sub; F] else [F; sub]))
  end.

(** BCDD: [add_literal_to_cube] ([let res = get_or_insert(..)?; Ok(res.with_tag_owned(tag))]) *)
Definition add_lit_bcdd_cap (cap : nat) (s : snap) (sub : edge) (l : nat) (c : bool) : lit_out :=
  match bcdd_term s with
  | None => None
  | Some tid =>
    let T := mkEdge (RT tid) false in
    let '(children, tag) :=
      if c then
        (if etag sub then ([mkEdge (eref sub) false; T], true)
         else ([sub; mkEdge (RT tid) true], false))
      else ([T; mkEdge (eref sub) (negb (etag sub))], true) in
    Some (match get_or_insert_cap cap s l children with
          | Some (s', r) => Some (s', mkEdge (eref r) tag)
          | None => None
          end)
  end.

(** ** ZBDD *)

(** the node [level, [hi, if do_not_care { hi } else { Empty }]] *)
Definition add_lit_z_cap (cap : nat) (s : snap) (sub : edge) (l : nat) (dnc : bool) : lit_out :=
  if dnc then Some (get_or_insert_cap cap s l [sub; sub])
  else
    match term_of s false with
    | None => None
    | Some t => Some (get_or_insert_cap cap s l [sub; E (RT t)])
    end.

Section PickZC.
Variable cap : nat.
Variable St : Type.
Variable choice : St -> nat -> edge -> bool * St.

(** [inner] of the ZBDD [pick_cube_dd_edge]:
    [let sub = inner(..); if !c { return sub; } let hi = guard(sub?); ...get_or_insert(..)] *)
Fixpoint pick_dd_z_c (fuel : nat) (s : snap) (st : St) (e : edge) : gres St (edge * list step) :=
  match fuel with
  | O => GStuck
  | S f =>
    match view_plain s e with
    | CErr => GStuck
    | CTerm _ => GOk s st (e, [])
    | CNode l hi lo =>
      let dnc := edge_eqb hi lo in
      let '(c, asked, st1) :=
        if dnc || is_false view_plain s lo then (true, false, st)
        else let (c, st') := choice st l e in (c, true, st') in
      gbind (pick_dd_z_c f s st1 (if c then hi else lo)) (fun s1 st2 r =>
        let p := mkStep l e (if dnc then None else Some c) asked in
        if c then lit_res s1 st2 (add_lit_z_cap cap s1 (fst r) l dnc) p (snd r)
        else GOk s1 st2 (fst r, p :: snd r))
    end
  end.

Definition pick_cube_dd_z_c (s : snap) (st : St) (e : edge) := pick_dd_z_c (S (nlevels s)) s st e.

(** [inner] of the ZBDD [pick_cube_dd_set_edge]; [st] is not used *)
Fixpoint pick_dd_set_z_c (fuel : nat) (s : snap) (st : St) (e set : edge) : gres St (edge * list step) :=
  match fuel with
  | O => GStuck
  | S f =>
    match view_plain s e with
    | CErr => GStuck
    | CTerm _ => GOk s st (e, [])
    | CNode l hi lo =>
      match set_pop_z (S (nlevels s)) s set l with
      | None => GStuck
      | Some (set', set_node) =>
        let '(c, dnc, asked) :=
          if is_false view_plain s lo then (true, false, false)
          else
            match set_node with
            | Some (shi, slo) => (true, if edge_eqb shi slo then edge_eqb hi lo else false, true)
            | None => (false, false, true)
            end in
        gbind (pick_dd_set_z_c f s st (if c then hi else lo) set') (fun s1 st1 r =>
          let p := mkStep l e (if dnc then None else Some c) asked in
          if c then lit_res s1 st1 (add_lit_z_cap cap s1 (fst r) l dnc) p (snd r)
          else GOk s1 st1 (fst r, p :: snd r))
      end
    end
  end.

Definition pick_cube_dd_set_z_c (s : snap) (st : St) (e set : edge) :=
  pick_dd_set_z_c (S (nlevels s)) s st e set.

End PickZC.

(** ** One call type for the two entry points of the three rule sets
    ([BooleanFunction::pick_cube_dd_edge], [pick_cube_dd_set_edge]) *)

Inductive pkind := PBdd | PBcdd | PZbdd.
Inductive pcall :=
| PKDd (e : edge)
| PKSet (e set : edge).

(** the bounded run: table, state of the choice function, (edge, trace) *)
Definition prun_c (St : Type) (choice : St -> nat -> edge -> bool * St)
    (kind : pkind) (cap : nat) (s : snap) (st : St) (k : pcall) : gres St (edge * list step) :=
  match kind, k with
  | PBdd, PKDd e => pick_cube_dd_c view_plain (add_lit_bdd_cap cap) St choice s st e
  | PBdd, PKSet e set => pick_cube_dd_set_c view_plain (add_lit_bdd_cap cap) St s st e set
  | PBcdd, PKDd e => pick_cube_dd_c view_bcdd (add_lit_bcdd_cap cap) St choice s st e
  | PBcdd, PKSet e set => pick_cube_dd_set_c view_bcdd (add_lit_bcdd_cap cap) St s st e set
  | PZbdd, PKDd e => pick_cube_dd_z_c cap St choice s st e
  | PZbdd, PKSet e set => pick_cube_dd_set_z_c cap St s st e set
  end.

(** the results of DD/Pick.v in the shape (table, state, (edge, trace)) *)
Definition pk_u {St : Type} (r : option (snap * edge * list step * St))
  : option (snap * St * (edge * list step)) :=
  match r with Some (s', e, tr, st') => Some (s', st', (e, tr)) | None => None end.
Definition pk_set_u {St : Type} (st : St) (r : option (snap * edge * list step))
  : option (snap * St * (edge * list step)) :=
  match r with Some (s', e, tr) => Some (s', st, (e, tr)) | None => None end.

(** the unbounded run: the entry points of DD/Pick.v *)
Definition prun_u (St : Type) (choice : St -> nat -> edge -> bool * St)
    (kind : pkind) (s : snap) (st : St) (k : pcall) : option (snap * St * (edge * list step)) :=
  match kind, k with
  | PBdd, PKDd e => pk_u (pick_cube_dd_bdd St choice s st e)
  | PBdd, PKSet e set => pk_set_u st (pick_cube_dd_set_bdd s e set)
  | PBcdd, PKDd e => pk_u (pick_cube_dd_bcdd St choice s st e)
  | PBcdd, PKSet e set => pk_set_u st (pick_cube_dd_set_bcdd s e set)
  | PZbdd, PKDd e => pk_u (pick_cube_dd_z St choice s st e)
  | PZbdd, PKSet e set => pk_set_u st (pick_cube_dd_set_z s e set)
  end.

(** ** The instances the correspondence run evaluates on snapshots of the real
    manager: the choice function of the harness (a table indexed by level, no
    state) *)

Definition pick_dd_nc (kind : pkind) (cap : nat) (s : snap) (m : nat -> bool) (e : edge)
  : gres unit (edge * list step) :=
  prun_c unit (mask_choice m) kind cap s tt (PKDd e).
Definition pick_dd_set_nc (kind : pkind) (cap : nat) (s : snap) (e set : edge)
  : gres unit (edge * list step) :=
  prun_c unit (mask_choice (fun _ => false)) kind cap s tt (PKSet e set).

Definition pick_dd_unc (kind : pkind) (s : snap) (m : nat -> bool) (e : edge) :=
  prun_u unit (mask_choice m) kind s tt (PKDd e).
Definition pick_dd_set_unc (kind : pkind) (s : snap) (e set : edge) :=
  prun_u unit (mask_choice (fun _ => false)) kind s tt (PKSet e set).

(** the invariant of the kind, as the checker the C14 driver evaluates on every
    snapshot ([bdd_ok_b] of DD/Apply.v, [bcok_b] of DD/ApplyBcdd.v, [zbdd_ok_b] of
    DD/ZbddOps.v) *)
Definition pinv_b (kind : pkind) (s : snap) : bool :=
  match kind with
  | PBdd => Apply.bdd_ok_b s
  | PBcdd => ApplyBcdd.bcok_b s
  | PZbdd => ZbddOps.zbdd_ok_b s
  end.

(** the hypothesis of the theorems on a call, as a checker for real snapshots:
    the operands are valid edges (untagged for BDD / ZBDD), and the literal set of
    [pick_cube_dd_set] is a cube diagram ([cube_lits] / [cube_lits_z] read it) *)
Definition pedge_ok_b (kind : pkind) (s : snap) (e : edge) : bool :=
  match kind with
  | PBcdd => ref_ok_b s (eref e)
  | _ => ref_ok_b s (eref e) && negb (etag e)
  end.

Definition pcube_b (kind : pkind) (s : snap) (set : edge) : bool :=
  match (match kind with
         | PBdd => cube_lits view_plain (S (nlevels s)) s set
         | PBcdd => cube_lits view_bcdd (S (nlevels s)) s set
         | PZbdd => cube_lits_z (S (nlevels s)) s set
         end) with
  | Some _ => true
  | None => false
  end.

Definition pcall_ok_b (kind : pkind) (s : snap) (k : pcall) : bool :=
  match k with
  | PKDd e => pedge_ok_b kind s e
  | PKSet e set => pedge_ok_b kind s e && pedge_ok_b kind s set && pcube_b kind s set
  end.
