(** * The hypotheses of the C14 cube-picking theorems are satisfiable and every outcome occurs

    Three concrete tables:
    - [exp3] (BDD): [ex3] of Mgr/OomExamples.v plus node 7 = x1 \/ x2 (level 1) and
      node 8 = x0 \/ x1 \/ x2 (level 0), 8 nodes.  [pick_cube_dd] of node 8 with the
      choice "always false" chooses the cube !x0 /\ !x1 /\ x2: the literal x2 is node 1
      (unique-table hit), the two other literals are NEW nodes, created bottom-up;
    - [exc3] (BCDD, Mgr/OomBcddExamples.v, 6 nodes): the cube !x0 /\ x1 /\ !x2 of the
      complemented edge to node 6 needs two new nodes;
    - [exz8] (ZBDD): [ex_z4] of DD/ZbddExamples.v plus node 8 = a don't-care node at
      level 0 over node 2, 8 nodes: the cube "level 0 absent, level 1" needs two new
      nodes.
    On each: with a full store the run fails at once and leaves the table as it
    is; with one free slot it fails AFTER having created the first literal's node
    (garbage: the invariant checker of the kind is still true, every old node is
    unchanged, the handles are the same); with two it succeeds; a cube that exists
    needs no slot.  [pick_cube_dd_set] with a literal set that encodes the same
    choices behaves the same.  The hypotheses ([pinv], [pcall_ok]) hold for the
    example calls, and [pick_nc_exact] / [pick_exact] are instantiated for ALL
    capacities. *)

From Coq Require Import List NArith PArith Bool Arith Lia FMapPositive.
From OxiVerif Require Import DD.Table DD.TableProofs DD.Build DD.BuildProofs DD.Apply DD.ApplyProofs
  DD.Pick DD.ZbddExamples Mgr.Oom Mgr.OomExamples Mgr.OomBcddExamples.
From OxiVerif Require Import Mgr.OomGen Mgr.OomGenProofs Mgr.OomPick Mgr.OomPickProofs Mgr.OomPickSafe
  Mgr.OomPickThms.
Import ListNotations.

Definition exp3 : snap :=
  mkSnap KBdd
    (PositiveMap.add 8%positive (mkNode 0 [E (RT 1); E (RN 7)] 0 1)
    (PositiveMap.add 7%positive (mkNode 1 [E (RT 1); E (RN 1)] 1 1)
       (s_nodes ex3)))
    [(0%N, 0%N); (1%N, 1%N)]
    [0; 1; 2] [0; 1; 2]
    (s_handles ex3 ++ [(5%N, E (RN 8))]).

Definition exz8 : snap :=
  mkSnap KZbdd
    (PositiveMap.add 8%positive (mkNode 0 [E (RN 2); E (RN 2)] 0 1) (s_nodes ex_z4))
    [(0%N, 0%N); (1%N, 1%N)]
    [1; 2; 0; 3] [2; 0; 1; 3]
    (s_handles ex_z4 ++ [(1%N, E (RN 8))]).

(** the complemented edge to node 6 of [exc3] *)
Definition n6 : edge := mkEdge (RN 6) true.

(** ** The hypotheses hold *)

Example pick_ex_inv :
  (pinv PBdd exp3 /\ node_count exp3 = 8) /\
  (pinv PBcdd exc3 /\ node_count exc3 = 6) /\
  (pinv PZbdd exz8 /\ node_count exz8 = 8).
Proof.
  split; [|split]; (split; [apply pinv_b_spec; vm_compute; reflexivity | vm_compute; reflexivity]).
Qed.

(** the example calls: [pick_cube_dd] of a node, [pick_cube_dd_set] with the
    literal sets "true" (no literal: every polarity false), node 5 = x0 /\ x1 /\ x2,
    node 4 = x1 /\ x2 (BCDD), the ZBDD tautology chain node 7 (every variable
    absent) and Base (every variable negative) *)
Example pick_ex_calls_ok :
  (pcall_ok PBdd exp3 (PKDd (E (RN 8))) /\ pcall_ok PBdd exp3 (PKSet (E (RN 8)) (E (RT 1))) /\
   pcall_ok PBdd exp3 (PKSet (E (RN 8)) (E (RN 5))) /\ pcall_ok PBdd exp3 (PKSet (E (RN 6)) (E (RN 4)))) /\
  (pcall_ok PBcdd exc3 (PKDd n6) /\ pcall_ok PBcdd exc3 (PKSet n6 (ce 4))) /\
  (pcall_ok PZbdd exz8 (PKDd (E (RN 8))) /\ pcall_ok PZbdd exz8 (PKDd (E (RN 3))) /\
   pcall_ok PZbdd exz8 (PKSet (E (RN 8)) (E (RN 7))) /\ pcall_ok PZbdd exz8 (PKSet (E (RN 8)) (E (RT 1)))).
Proof.
  assert (K : forall kind s k, pcall_ok_b kind s k = true -> pcall_ok kind s k)
    by (intros kind s k; apply pcall_ok_b_spec).
  split; [|split].
  - split; [|split; [|split]]; apply K; vm_compute; reflexivity.
  - split; apply K; vm_compute; reflexivity.
  - split; [|split; [|split]]; apply K; vm_compute; reflexivity.
Qed.

(** a literal set that is not a cube diagram is rejected by the checker: node 6 of
    [exp3] (both cofactors non-false), a complemented cube (BCDD), node 2 of [exz8] *)
Example pick_ex_not_cube :
  pcall_ok_b PBdd exp3 (PKSet (E (RN 8)) (E (RN 6))) = false /\
  pcall_ok_b PBcdd exc3 (PKSet n6 (mkEdge (RN 4) true)) = false /\
  pcall_ok_b PZbdd exz8 (PKSet (E (RN 8)) (E (RN 2))) = false.
Proof. vm_compute. repeat split; reflexivity. Qed.

(** ** Every outcome occurs *)

(** outcome code (0 = result, 1 = out of memory, 2 = stuck), stored nodes
    afterwards, result edge *)
Definition pout {C : Type} (r : gres C (edge * list step)) :=
  (gres_code r, option_map node_count (gres_snap r), option_map fst (gres_val r)).

(** BDD: two new nodes.  Capacity 0 / 8: fails at once; 9: fails after the first
    node; 10: the cube *)
Example exp3_dd :
  map (fun cap => pout (pick_dd_nc PBdd cap exp3 (fun _ => false) (E (RN 8)))) [0; 8; 9; 10; 11] =
  [(1, Some 8, None); (1, Some 8, None); (1, Some 9, None);
   (0, Some 10, Some (E (RN 10))); (0, Some 10, Some (E (RN 10)))].
Proof. vm_compute. reflexivity. Qed.

(** the trace: the choice function was asked at levels 0 and 1, level 2 was forced *)
Example exp3_dd_trace :
  option_map (fun r => map (fun p => (sp_level p, sp_val p, sp_asked p)) (snd r))
    (gres_val (pick_dd_nc PBdd 10 exp3 (fun _ => false) (E (RN 8)))) =
  Some [(0, Some false, true); (1, Some false, true); (2, Some true, false)].
Proof. vm_compute. reflexivity. Qed.

Example exp3_set :
  map (fun cap => pout (pick_dd_set_nc PBdd cap exp3 (E (RN 8)) (E (RT 1)))) [0; 8; 9; 10; 11] =
  [(1, Some 8, None); (1, Some 8, None); (1, Some 9, None);
   (0, Some 10, Some (E (RN 10))); (0, Some 10, Some (E (RN 10)))] /\
  (* the set x1 /\ x2 on node 6 = ite(x0, x1, x1 /\ x2): !x0 /\ x1 /\ x2, one new node *)
  map (fun cap => pout (pick_dd_set_nc PBdd cap exp3 (E (RN 6)) (E (RN 4)))) [0; 8; 9] =
  [(1, Some 8, None); (1, Some 8, None); (0, Some 9, Some (E (RN 9)))].
Proof. vm_compute. split; reflexivity. Qed.

(** a cube that exists needs no slot: with the set x0 /\ x1 /\ x2 the cube of node 8
    is x0 = node 3; it is returned with a full store, whatever the capacity *)
Example exp3_no_alloc : forall cap,
  pout (pick_dd_set_nc PBdd cap exp3 (E (RN 8)) (E (RN 5))) = (0, Some 8, Some (E (RN 3))) /\
  pout (pick_dd_nc PBdd cap exp3 (fun _ => true) (E (RN 5))) = (0, Some 8, Some (E (RN 5))).
Proof.
  intros cap.
  (* the capacity is not consulted: no [get_or_insert] of a new node is reached *)
  assert (M : forall m k r, prun_c unit (mask_choice m) PBdd 0 exp3 tt k = GOk exp3 tt r ->
                            prun_c unit (mask_choice m) PBdd cap exp3 tt k = GOk exp3 tt r).
  { intros m k r E.
    apply (pick_monotone unit (mask_choice m) PBdd 0 cap exp3 tt k exp3 tt r (Nat.le_0_l cap) E). }
  split.
  - unfold pick_dd_set_nc. erewrite M; [|vm_compute; reflexivity]. vm_compute. reflexivity.
  - unfold pick_dd_nc. erewrite M; [|vm_compute; reflexivity]. vm_compute. reflexivity.
Qed.

(** the node left behind by the failed run with capacity 9: the table is still a
    well-formed BDD table, the handles are the same, every old node is unchanged
    (that no handle reaches the new node: [pintact], below) *)
Example exp3_dd_garbage :
  match pick_dd_nc PBdd 9 exp3 (fun _ => false) (E (RN 8)) with
  | GOom s' _ =>
      s_handles s' = s_handles exp3 /\ pinv_b PBdd s' = true /\ node_count s' = 9 /\
      forallb (fun p => match find_node s' (fst p) with
                        | Some nd => same_node nd (snd p) | None => false end)
              (PositiveMap.elements (s_nodes exp3)) = true
  | _ => False
  end.
Proof. vm_compute. repeat split; reflexivity. Qed.

(** BCDD: the cube !x0 /\ x1 /\ !x2 of the complemented edge to node 6 (choice: true
    at level 1 only; the same choices from the literal set x1 /\ x2) *)
Example exc3_dd :
  map (fun cap => pout (pick_dd_nc PBcdd cap exc3 (fun l => Nat.eqb l 1) n6)) [0; 6; 7; 8; 9] =
  [(1, Some 6, None); (1, Some 6, None); (1, Some 7, None);
   (0, Some 8, Some (mkEdge (RN 8) true)); (0, Some 8, Some (mkEdge (RN 8) true))] /\
  map (fun cap => pout (pick_dd_set_nc PBcdd cap exc3 n6 (ce 4))) [0; 6; 7; 8; 9] =
  [(1, Some 6, None); (1, Some 6, None); (1, Some 7, None);
   (0, Some 8, Some (mkEdge (RN 8) true)); (0, Some 8, Some (mkEdge (RN 8) true))].
Proof. vm_compute. split; reflexivity. Qed.

Example exc3_dd_garbage :
  match pick_dd_set_nc PBcdd 7 exc3 n6 (ce 4) with
  | GOom s' _ =>
      s_handles s' = s_handles exc3 /\ pinv_b PBcdd s' = true /\ node_count s' = 7 /\
      forallb (fun p => match find_node s' (fst p) with
                        | Some nd => same_node nd (snd p) | None => false end)
              (PositiveMap.elements (s_nodes exc3)) = true
  | _ => False
  end.
Proof. vm_compute. repeat split; reflexivity. Qed.

(** ZBDD: node 8 is a don't care at level 0 over node 2 = {{l1}, {l2}}; choosing l1
    gives the cube "l0 absent, l1": the node (l1: Base, Empty) and the don't-care
    node over it are new.  The literal set "every variable absent" (the tautology
    chain, node 7) makes the same choices; the set "every variable negative"
    (Base) selects {l2} = node 1, which exists *)
Example exz8_dd :
  map (fun cap => pout (pick_dd_nc PZbdd cap exz8 (fun _ => true) (E (RN 8)))) [0; 8; 9; 10; 11] =
  [(1, Some 8, None); (1, Some 8, None); (1, Some 9, None);
   (0, Some 10, Some (E (RN 10))); (0, Some 10, Some (E (RN 10)))] /\
  map (fun cap => pout (pick_dd_set_nc PZbdd cap exz8 (E (RN 8)) (E (RN 7)))) [0; 8; 9; 10; 11] =
  [(1, Some 8, None); (1, Some 8, None); (1, Some 9, None);
   (0, Some 10, Some (E (RN 10))); (0, Some 10, Some (E (RN 10)))] /\
  map (fun cap => pout (pick_dd_set_nc PZbdd cap exz8 (E (RN 8)) (E (RT 1)))) [0; 8] =
  [(0, Some 8, Some (E (RN 1))); (0, Some 8, Some (E (RN 1)))] /\
  (* node 3 = {{l0, l2}, {l1}, {l2}} with the choice "always true": {l0, l2}, one new node *)
  map (fun cap => pout (pick_dd_nc PZbdd cap exz8 (fun _ => true) (E (RN 3)))) [0; 8; 9] =
  [(1, Some 8, None); (1, Some 8, None); (0, Some 9, Some (E (RN 9)))].
Proof. vm_compute. repeat split; reflexivity. Qed.

(** the trace: level 0 is a don't care ([None], not asked), level 1 was asked *)
Example exz8_dd_trace :
  option_map (fun r => map (fun p => (sp_level p, sp_val p, sp_asked p)) (snd r))
    (gres_val (pick_dd_nc PZbdd 10 exz8 (fun _ => true) (E (RN 8)))) =
  Some [(0, None, false); (1, Some true, true)].
Proof. vm_compute. reflexivity. Qed.

Example exz8_dd_garbage :
  match pick_dd_nc PZbdd 9 exz8 (fun _ => true) (E (RN 8)) with
  | GOom s' _ =>
      s_handles s' = s_handles exz8 /\ pinv_b PZbdd s' = true /\ node_count s' = 9 /\
      forallb (fun p => match find_node s' (fst p) with
                        | Some nd => same_node nd (snd p) | None => false end)
              (PositiveMap.elements (s_nodes exz8)) = true
  | _ => False
  end.
Proof. vm_compute. repeat split; reflexivity. Qed.

(** with a stateful choice function (the state counts the calls): [GOom] carries
    the state at the point of failure = after ALL calls (they precede the first
    allocation); a successful run returns the same final state *)
Definition count_choice (m : nat -> bool) : nat -> nat -> edge -> bool * nat :=
  fun st l _ => (m l, S st).

Example exp3_state_at_failure :
  (match prun_c nat (count_choice (fun _ => false)) PBdd 8 exp3 0 (PKDd (E (RN 8))) with
   | GOom s' st' => Some (node_count s', st') | _ => None end) = Some (8, 2) /\
  (match prun_c nat (count_choice (fun _ => false)) PBdd 9 exp3 0 (PKDd (E (RN 8))) with
   | GOom s' st' => Some (node_count s', st') | _ => None end) = Some (9, 2) /\
  (match prun_c nat (count_choice (fun _ => false)) PBdd 10 exp3 0 (PKDd (E (RN 8))) with
   | GOk s' st' r => Some (node_count s', st', fst r) | _ => None end) = Some (10, 2, E (RN 10)).
Proof. vm_compute. repeat split; reflexivity. Qed.

(** ** The theorems, instantiated *)

(** the state left by the failed runs above satisfies the invariant and is intact *)
Example pick_ex_safe :
  (forall s' st', pick_dd_nc PBdd 9 exp3 (fun _ => false) (E (RN 8)) = GOom s' st' ->
     pinv PBdd s' /\ extends exp3 s' /\ pintact PBdd exp3 s' /\ 9 <= node_count s') /\
  (forall s' st', pick_dd_set_nc PBcdd 7 exc3 n6 (ce 4) = GOom s' st' ->
     pinv PBcdd s' /\ extends exc3 s' /\ pintact PBcdd exc3 s' /\ 7 <= node_count s') /\
  (forall s' st', pick_dd_nc PZbdd 9 exz8 (fun _ => true) (E (RN 8)) = GOom s' st' ->
     pinv PZbdd s' /\ extends exz8 s' /\ pintact PZbdd exz8 s' /\ 9 <= node_count s').
Proof.
  split; [|split]; intros s' st' Hr.
  - destruct (pick_safe unit (mask_choice (fun _ => false)) PBdd 9 exp3 tt (PKDd (E (RN 8))) s' st')
      as [B' [X' [I' [_ F']]]]; auto; [apply pick_ex_inv | apply pick_ex_calls_ok].
  - destruct (pick_safe unit (mask_choice (fun _ => false)) PBcdd 7 exc3 tt (PKSet n6 (ce 4)) s' st')
      as [B' [X' [I' [_ F']]]]; auto; [apply pick_ex_inv | apply pick_ex_calls_ok].
  - destruct (pick_safe unit (mask_choice (fun _ => true)) PZbdd 9 exz8 tt (PKDd (E (RN 8))) s' st')
      as [B' [X' [I' [_ F']]]]; auto; [apply pick_ex_inv | apply pick_ex_calls_ok].
Qed.

(** whatever the capacity, a run is exactly "result iff it fits": for a call whose
    unbounded run stores [need] nodes, the bounded run succeeds iff [need <= cap],
    and otherwise leaves an intact table *)
Lemma pick_ex_exact_gen : forall kind s m k need cap,
  pinv_b kind s = true -> pcall_ok_b kind s k = true ->
  (exists su ru, prun_u unit (mask_choice m) kind s tt k = Some (su, tt, ru) /\ node_count su = need) ->
  node_count s < need ->
  (need <= cap -> gres_code (prun_c unit (mask_choice m) kind cap s tt k) = 0) /\
  (cap < need -> exists s', prun_c unit (mask_choice m) kind cap s tt k = GOom s' tt /\
     pinv kind s' /\ extends s s' /\ pintact kind s s' /\ cap <= node_count s').
Proof.
  intros kind s m k need cap Hb Hk [su0 [ru0 [E0 Hn]]] Hle.
  destruct (pick_nc_exact kind cap s m k Hb Hk) as [_ [su [ru [E [_ [_ [_ [A B]]]]]]]].
  rewrite E0 in E. inversion E; subst su ru. split.
  - intros Hcap. rewrite A by lia. reflexivity.
  - intros Hcap. destruct B as [s' [E' [B' [X' [I' [_ F']]]]]]; [lia|].
    exists s'. split; [exact E'|]. split; [apply pinv_b_spec; exact B'|]. auto.
Qed.

Ltac ex_exact kind s m k need cap :=
  apply (pick_ex_exact_gen kind s m k need cap);
    [vm_compute; reflexivity | vm_compute; reflexivity
    | eexists _, _; split; vm_compute; reflexivity | vm_compute; lia].

(** out-of-memory exactly below 10 / 8 / 10 slots, with the manager intact *)
Example pick_ex_exact : forall cap,
  ((10 <= cap -> gres_code (pick_dd_nc PBdd cap exp3 (fun _ => false) (E (RN 8))) = 0) /\
   (cap < 10 -> exists s', pick_dd_nc PBdd cap exp3 (fun _ => false) (E (RN 8)) = GOom s' tt /\
      pinv PBdd s' /\ extends exp3 s' /\ pintact PBdd exp3 s' /\ cap <= node_count s')) /\
  ((10 <= cap -> gres_code (pick_dd_set_nc PBdd cap exp3 (E (RN 8)) (E (RT 1))) = 0) /\
   (cap < 10 -> exists s', pick_dd_set_nc PBdd cap exp3 (E (RN 8)) (E (RT 1)) = GOom s' tt /\
      pinv PBdd s' /\ extends exp3 s' /\ pintact PBdd exp3 s' /\ cap <= node_count s')) /\
  ((8 <= cap -> gres_code (pick_dd_nc PBcdd cap exc3 (fun l => Nat.eqb l 1) n6) = 0) /\
   (cap < 8 -> exists s', pick_dd_nc PBcdd cap exc3 (fun l => Nat.eqb l 1) n6 = GOom s' tt /\
      pinv PBcdd s' /\ extends exc3 s' /\ pintact PBcdd exc3 s' /\ cap <= node_count s')) /\
  ((8 <= cap -> gres_code (pick_dd_set_nc PBcdd cap exc3 n6 (ce 4)) = 0) /\
   (cap < 8 -> exists s', pick_dd_set_nc PBcdd cap exc3 n6 (ce 4) = GOom s' tt /\
      pinv PBcdd s' /\ extends exc3 s' /\ pintact PBcdd exc3 s' /\ cap <= node_count s')) /\
  ((10 <= cap -> gres_code (pick_dd_nc PZbdd cap exz8 (fun _ => true) (E (RN 8))) = 0) /\
   (cap < 10 -> exists s', pick_dd_nc PZbdd cap exz8 (fun _ => true) (E (RN 8)) = GOom s' tt /\
      pinv PZbdd s' /\ extends exz8 s' /\ pintact PZbdd exz8 s' /\ cap <= node_count s')) /\
  ((10 <= cap -> gres_code (pick_dd_set_nc PZbdd cap exz8 (E (RN 8)) (E (RN 7))) = 0) /\
   (cap < 10 -> exists s', pick_dd_set_nc PZbdd cap exz8 (E (RN 8)) (E (RN 7)) = GOom s' tt /\
      pinv PZbdd s' /\ extends exz8 s' /\ pintact PZbdd exz8 s' /\ cap <= node_count s')).
Proof.
  intros cap. unfold pick_dd_nc, pick_dd_set_nc.
  split; [ex_exact PBdd exp3 (fun _ : nat => false) (PKDd (E (RN 8))) 10 cap|].
  split; [ex_exact PBdd exp3 (fun _ : nat => false) (PKSet (E (RN 8)) (E (RT 1))) 10 cap|].
  split; [ex_exact PBcdd exc3 (fun l => Nat.eqb l 1) (PKDd n6) 8 cap|].
  split; [ex_exact PBcdd exc3 (fun _ : nat => false) (PKSet n6 (ce 4)) 8 cap|].
  split; [ex_exact PZbdd exz8 (fun _ : nat => true) (PKDd (E (RN 8))) 10 cap|].
  ex_exact PZbdd exz8 (fun _ : nat => false) (PKSet (E (RN 8)) (E (RN 7))) 10 cap.
Qed.
