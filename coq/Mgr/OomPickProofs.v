(** * Out-of-memory behaviour of cube picking (Mgr/OomPick.v), part 1

    Facts that need no invariant (every table, every choice function with its
    state, every capacity, every edge / literal set): [prun_sim] - when the
    bounded [pick_cube_dd] / [pick_cube_dd_set] returns [GOk s' st' (r, tr)] the
    unbounded function of DD/Pick.v returns literally the same table, edge, trace
    and final state of the choice function, and at most [cap] nodes are stored
    unless nothing was inserted; when it returns [GOom s' st'] no node has
    disappeared and the store is full; when the unbounded function returns a
    table that fits, the bounded one returns exactly that result.  The
    invariant-dependent part is in Mgr/OomPickSafe.v. *)

From Coq Require Import List NArith PArith Bool Arith Lia FMapPositive.
From OxiVerif Require Import DD.Table DD.TableProofs DD.Build DD.BuildProofs DD.Apply DD.Pick
  Mgr.Oom Mgr.OomProofs.
From OxiVerif Require Import Mgr.OomGen Mgr.OomGenProofs Mgr.OomBcddProofs Mgr.OomPick.
Import ListNotations.

(** ** One literal *)

(** the bounded creation of a literal node against the unbounded one: both
    panic, or the bounded one is a leaf ([leaf_rel] of Mgr/OomGenProofs.v: same
    node when it fits, [None] with a full store and an unchanged table otherwise) *)
Definition lit_rel (cap : nat) (s : snap) (o : lit_out) (u : option (snap * edge)) : Prop :=
  match u with
  | Some x => exists o', o = Some o' /\ leaf_rel no_m2 cap 1 s o' x
  | None => o = None
  end.

(** the shape of the unbounded literal step *)
Definition lit_res_u {St : Type} (st : St) (u : option (snap * edge)) (p : step) (tr : list step)
  : option (snap * St * (edge * list step)) :=
  match u with
  | None => None
  | Some x => ufin x (fun _ => st) (fun r => (r, p :: tr))
  end.

Lemma lit_res_sim : forall St cap s (st : St) o u p tr, lit_rel cap s o u ->
  sim St no_m2 cap 1 s (lit_res s st o p tr) (lit_res_u st u p tr).
Proof.
  intros St cap s st o u p tr L. unfold lit_rel in L. destruct u as [x|].
  - destruct L as [o' [-> L]]. unfold lit_res, lit_res_u. apply gfin_sim. exact L.
  - subst o. apply sim_stuck.
Qed.

Lemma add_lit_bdd_rel : forall cap s sub l c,
  lit_rel cap s (add_lit_bdd_cap cap s sub l c) (add_lit_bdd s sub l c).
Proof.
  intros cap s sub l c. unfold add_lit_bdd_cap, add_lit_bdd.
  destruct (term_of s false) as [f|]; [|reflexivity].
  cbv zeta. eexists. split; [reflexivity|]. apply goi_leaf. exact no_m2_terms.
Qed.

Lemma add_lit_bcdd_rel : forall cap s sub l c,
  lit_rel cap s (add_lit_bcdd_cap cap s sub l c) (add_lit_bcdd s sub l c).
Proof.
  intros cap s sub l c. unfold add_lit_bcdd_cap, add_lit_bcdd.
  destruct (bcdd_term s) as [tid|]; [|reflexivity].
  assert (G : forall ch tag,
    lit_rel cap s
      (Some (match get_or_insert_cap cap s l ch with
             | Some (s', r) => Some (s', mkEdge (eref r) tag)
             | None => None
             end))
      (let (s', r) := get_or_insert s l ch in Some (s', mkEdge (eref r) tag))).
  { intros ch tag.
    pose proof (leaf_map no_m2 cap 1 edge edge s _ _ (fun r => mkEdge (eref r) tag)
                  (goi_leaf no_m2 no_m2_terms cap 1 s l ch)) as L.
    destruct (get_or_insert s l ch) as [s' r]. eexists. split; [reflexivity | exact L]. }
  destruct c; [destruct (etag sub)|]; cbv beta iota zeta; apply G.
Qed.

Lemma add_lit_z_rel : forall cap s sub l dnc,
  lit_rel cap s (add_lit_z_cap cap s sub l dnc) (add_lit_z s sub l dnc).
Proof.
  intros cap s sub l dnc. unfold add_lit_z_cap, add_lit_z. destruct dnc.
  - eexists. split; [reflexivity|]. apply goi_leaf. exact no_m2_terms.
  - destruct (term_of s false) as [t|]; [|reflexivity].
    eexists. split; [reflexivity|]. apply goi_leaf. exact no_m2_terms.
Qed.

(** ** BDD and BCDD: the generic walk *)

Section GenSim.
Variable view : snap -> edge -> cview.
Variable add_lit : snap -> edge -> nat -> bool -> option (snap * edge).
Variable cap : nat.
Variable add_lit_c : snap -> edge -> nat -> bool -> lit_out.
Hypothesis add_lit_rel : forall s sub l c, lit_rel cap s (add_lit_c s sub l c) (add_lit s sub l c).

Section Choice.
Variable St : Type.
Variable choice : St -> nat -> edge -> bool * St.

Notation SIM := (sim St no_m2 cap 1).

(** the unbounded functions are the bounded ones with [ubind] / [ufin] in place
    of [gbind] / [gfin] (up to the order of the components of the result) *)
Lemma pick_dd_U : forall f s st e,
  pk_u (pick_dd view St choice add_lit (S f) s st e) =
  match view s e with
  | CErr => None
  | CTerm _ => Some (s, st, (e, []))
  | CNode l t x =>
    let '(c, asked, st1) := decide view St choice s st l e t x in
    ubind (pk_u (pick_dd view St choice add_lit f s st1 (if c then t else x))) (fun s1 st2 r =>
      lit_res_u st2 (add_lit s1 (fst r) l c) (mkStep l e (Some c) asked) (snd r))
  end.
Proof.
  intros f s st e. cbn [pick_dd]. destruct (view s e) as [|b|l t x]; try reflexivity.
  destruct (decide view St choice s st l e t x) as [[c asked] st1].
  destruct (pick_dd view St choice add_lit f s st1 (if c then t else x)) as [[[[s1 sub] tr] st2]|];
    [|reflexivity].
  cbn [pk_u ubind fst snd]. destruct (add_lit s1 sub l c) as [[s2 r]|]; reflexivity.
Qed.

Theorem pick_dd_sim : forall fuel s st e,
  SIM s (pick_dd_c view add_lit_c St choice fuel s st e) (pk_u (pick_dd view St choice add_lit fuel s st e)).
Proof.
  induction fuel as [|f IH]; intros s st e; [apply sim_stuck|].
  rewrite pick_dd_U. cbn [pick_dd_c].
  destruct (view s e) as [|b|l t x]; [apply sim_stuck | apply sim_here |].
  destruct (decide view St choice s st l e t x) as [[c asked] st1].
  apply gbind_sim; [apply IH|]. intros s1 st2 r. apply lit_res_sim. apply add_lit_rel.
Qed.

Lemma pick_dd_set_U : forall f s (st : St) e set,
  pk_set_u st (pick_dd_set view add_lit (S f) s e set) =
  match view s e with
  | CErr => None
  | CTerm _ => Some (s, st, (e, []))
  | CNode l t x =>
    match set_choice view s set l with
    | None => None
    | Some (set', cs) =>
      let '(c, asked) :=
        if is_false view s t then (false, false)
        else if is_false view s x then (true, false)
        else (cs, true) in
      ubind (pk_set_u st (pick_dd_set view add_lit f s (if c then t else x) set')) (fun s1 st1 r =>
        lit_res_u st1 (add_lit s1 (fst r) l c) (mkStep l e (Some c) asked) (snd r))
    end
  end.
Proof.
  intros f s st e set. cbn [pick_dd_set]. destruct (view s e) as [|b|l t x]; try reflexivity.
  destruct (set_choice view s set l) as [[set' cs]|]; [|reflexivity].
  destruct (if is_false view s t then (false, false)
            else if is_false view s x then (true, false) else (cs, true)) as [c asked].
  destruct (pick_dd_set view add_lit f s (if c then t else x) set') as [[[s1 sub] tr]|]; [|reflexivity].
  cbn [pk_set_u ubind fst snd]. destruct (add_lit s1 sub l c) as [[s2 r]|]; reflexivity.
Qed.

Theorem pick_dd_set_sim : forall fuel s (st : St) e set,
  SIM s (pick_dd_set_c view add_lit_c St fuel s st e set) (pk_set_u st (pick_dd_set view add_lit fuel s e set)).
Proof.
  induction fuel as [|f IH]; intros s st e set; [apply sim_stuck|].
  rewrite pick_dd_set_U. cbn [pick_dd_set_c].
  destruct (view s e) as [|b|l t x]; [apply sim_stuck | apply sim_here |].
  destruct (set_choice view s set l) as [[set' cs]|]; [|apply sim_stuck].
  destruct (if is_false view s t then (false, false)
            else if is_false view s x then (true, false) else (cs, true)) as [c asked].
  apply gbind_sim; [apply IH|]. intros s1 st1 r. apply lit_res_sim. apply add_lit_rel.
Qed.

End Choice.
End GenSim.

(** ** ZBDD *)

Section ZSim.
Variable cap : nat.
Variable St : Type.
Variable choice : St -> nat -> edge -> bool * St.

Notation SIM := (sim St no_m2 cap 1).

Lemma pick_dd_z_U : forall f s st e,
  pk_u (pick_dd_z St choice (S f) s st e) =
  match view_plain s e with
  | CErr => None
  | CTerm _ => Some (s, st, (e, []))
  | CNode l hi lo =>
    let dnc := edge_eqb hi lo in
    let '(c, asked, st1) :=
      if dnc || is_false view_plain s lo then (true, false, st)
      else let (c, st') := choice st l e in (c, true, st') in
    ubind (pk_u (pick_dd_z St choice f s st1 (if c then hi else lo))) (fun s1 st2 r =>
      let p := mkStep l e (if dnc then None else Some c) asked in
      if c then lit_res_u st2 (add_lit_z s1 (fst r) l dnc) p (snd r)
      else Some (s1, st2, (fst r, p :: snd r)))
  end.
Proof.
  intros f s st e. cbn [pick_dd_z]. destruct (view_plain s e) as [|b|l hi lo]; try reflexivity.
  cbv zeta.
  destruct (if edge_eqb hi lo || is_false view_plain s lo then (true, false, st)
            else let (c, st') := choice st l e in (c, true, st')) as [[c asked] st1].
  destruct (pick_dd_z St choice f s st1 (if c then hi else lo)) as [[[[s1 sub] tr] st2]|]; [|reflexivity].
  cbn [pk_u ubind fst snd]. destruct c; [|reflexivity].
  destruct (add_lit_z s1 sub l (edge_eqb hi lo)) as [[s2 r]|]; reflexivity.
Qed.

Theorem pick_dd_z_sim : forall fuel s st e,
  SIM s (pick_dd_z_c cap St choice fuel s st e) (pk_u (pick_dd_z St choice fuel s st e)).
Proof.
  induction fuel as [|f IH]; intros s st e; [apply sim_stuck|].
  rewrite pick_dd_z_U. cbn [pick_dd_z_c].
  destruct (view_plain s e) as [|b|l hi lo]; [apply sim_stuck | apply sim_here |].
  cbv zeta.
  destruct (if edge_eqb hi lo || is_false view_plain s lo then (true, false, st)
            else let (c, st') := choice st l e in (c, true, st')) as [[c asked] st1].
  apply gbind_sim; [apply IH|]. intros s1 st2 r.
  destruct c; [apply lit_res_sim; apply add_lit_z_rel | apply sim_here].
Qed.

Lemma pick_dd_set_z_U : forall f s (st : St) e set,
  pk_set_u st (pick_dd_set_z (S f) s e set) =
  match view_plain s e with
  | CErr => None
  | CTerm _ => Some (s, st, (e, []))
  | CNode l hi lo =>
    match set_pop_z (S (nlevels s)) s set l with
    | None => None
    | Some (set', set_node) =>
      let '(c, dnc, asked) :=
        if is_false view_plain s lo then (true, false, false)
        else
          match set_node with
          | Some (shi, slo) => (true, if edge_eqb shi slo then edge_eqb hi lo else false, true)
          | None => (false, false, true)
          end in
      ubind (pk_set_u st (pick_dd_set_z f s (if c then hi else lo) set')) (fun s1 st1 r =>
        let p := mkStep l e (if dnc then None else Some c) asked in
        if c then lit_res_u st1 (add_lit_z s1 (fst r) l dnc) p (snd r)
        else Some (s1, st1, (fst r, p :: snd r)))
    end
  end.
Proof.
  intros f s st e set. cbn [pick_dd_set_z]. destruct (view_plain s e) as [|b|l hi lo]; try reflexivity.
  destruct (set_pop_z (S (nlevels s)) s set l) as [[set' set_node]|]; [|reflexivity].
  destruct (if is_false view_plain s lo then (true, false, false)
            else match set_node with
                 | Some (shi, slo) => (true, if edge_eqb shi slo then edge_eqb hi lo else false, true)
                 | None => (false, false, true)
                 end) as [[c dnc] asked].
  destruct (pick_dd_set_z f s (if c then hi else lo) set') as [[[s1 sub] tr]|]; [|reflexivity].
  cbn [pk_set_u ubind fst snd]. cbv zeta. destruct c; [|reflexivity].
  destruct (add_lit_z s1 sub l dnc) as [[s2 r]|]; reflexivity.
Qed.

Theorem pick_dd_set_z_sim : forall fuel s (st : St) e set,
  SIM s (pick_dd_set_z_c cap St fuel s st e set) (pk_set_u st (pick_dd_set_z fuel s e set)).
Proof.
  induction fuel as [|f IH]; intros s st e set; [apply sim_stuck|].
  rewrite pick_dd_set_z_U. cbn [pick_dd_set_z_c].
  destruct (view_plain s e) as [|b|l hi lo]; [apply sim_stuck | apply sim_here |].
  destruct (set_pop_z (S (nlevels s)) s set l) as [[set' set_node]|]; [|apply sim_stuck].
  destruct (if is_false view_plain s lo then (true, false, false)
            else match set_node with
                 | Some (shi, slo) => (true, if edge_eqb shi slo then edge_eqb hi lo else false, true)
                 | None => (false, false, true)
                 end) as [[c dnc] asked].
  apply gbind_sim; [apply IH|]. intros s1 st1 r. cbv zeta.
  destruct c; [apply lit_res_sim; apply add_lit_z_rel | apply sim_here].
Qed.

End ZSim.

(** ** The two entry points of the three rule sets at once *)

Theorem prun_sim : forall St choice kind cap s (st : St) k,
  sim St no_m2 cap 1 s (prun_c St choice kind cap s st k) (prun_u St choice kind s st k).
Proof.
  intros St choice kind cap s st k. destruct kind, k as [e|e set]; unfold prun_c, prun_u.
  - apply (pick_dd_sim view_plain add_lit_bdd cap (add_lit_bdd_cap cap) (add_lit_bdd_rel cap)).
  - apply (pick_dd_set_sim view_plain add_lit_bdd cap (add_lit_bdd_cap cap) (add_lit_bdd_rel cap)).
  - apply (pick_dd_sim view_bcdd add_lit_bcdd cap (add_lit_bcdd_cap cap) (add_lit_bcdd_rel cap)).
  - apply (pick_dd_set_sim view_bcdd add_lit_bcdd cap (add_lit_bcdd_cap cap) (add_lit_bcdd_rel cap)).
  - apply pick_dd_z_sim.
  - apply pick_dd_set_z_sim.
Qed.
